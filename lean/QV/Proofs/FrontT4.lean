import QV.Proofs.FrontT3
/-! Soundness of `QV.Front.tr` w.r.t. the widened semantics `QV.Sem.semT`, part 4: if-expressions (bool, `Qint`
with widening, `Qchar`, tuples of one type through the element-wise `ITE` over flat positions), `and` / `or`,
tuple literals. -/
namespace QV.Sem
open QV QV.Arith QV.Front

set_option linter.unusedSimpArgs false
set_option linter.unusedVariables false

theorem bne_bool_qchar : (Ty.bool != Ty.qchar) = true := rfl
theorem bne_bool_tuple (ts : List Ty) : (Ty.bool != Ty.tuple ts) = true := rfl
theorem bne_qint_qchar (w : Nat) : (Ty.qint w != Ty.qchar) = true := rfl
theorem bne_qint_tuple (w : Nat) (ts : List Ty) : (Ty.qint w != Ty.tuple ts) = true := rfl
theorem bne_qchar_qint (w : Nat) : (Ty.qchar != Ty.qint w) = true := rfl
theorem bne_qchar_tuple (ts : List Ty) : (Ty.qchar != Ty.tuple ts) = true := rfl
theorem bne_tuple_qint (w : Nat) (ts : List Ty) : (Ty.tuple ts != Ty.qint w) = true := rfl
theorem bne_tuple_qchar (ts : List Ty) : (Ty.tuple ts != Ty.qchar) = true := rfl
theorem bne_qchar_qchar : (Ty.qchar != Ty.qchar) = false := rfl

/-- the element-wise `ITE` of two list values: it stops at the shorter one and wants expressions up to there -/
theorem iteZip_ok (c : BExp) : ∀ (x y r : List Val), iteZip c x y = .ok r →
    ∃ as bs : List BExp, as.length = bs.length ∧ r = (List.zipWith (BExp.ite c) as bs).map Val.atom ∧
      ((x = as.map Val.atom ∧ y.take as.length = bs.map Val.atom) ∨
       (y = bs.map Val.atom ∧ x.take bs.length = as.map Val.atom)) := by
  intro x
  induction x with
  | nil =>
    intro y r h
    simp only [iteZip, pure, Except.pure, Except.ok.injEq] at h
    subst h
    exact ⟨[], [], rfl, rfl, Or.inl ⟨rfl, by simp⟩⟩
  | cons v ts ih =>
    intro y r h
    cases y with
    | nil =>
      have : r = [] := by
        cases v <;> simp only [iteZip, pure, Except.pure, Except.ok.injEq] at h <;> exact h.symm
      subst this
      exact ⟨[], [], rfl, rfl, Or.inr ⟨rfl, by simp⟩⟩
    | cons w fs =>
      cases v with
      | list _ => simp [iteZip, throw, throwThe, MonadExceptOf.throw] at h
      | atom t =>
        cases w with
        | list _ => simp [iteZip, throw, throwThe, MonadExceptOf.throw] at h
        | atom f =>
          simp only [iteZip, bind_ok, pure, Except.pure, Except.ok.injEq] at h
          obtain ⟨r', hr', rfl⟩ := h
          obtain ⟨as, bs, hl, rfl, hor⟩ := ih fs r' hr'
          refine ⟨t :: as, f :: bs, by simp [hl], by simp, ?_⟩
          rcases hor with ⟨h1, h2⟩ | ⟨h1, h2⟩
          · exact Or.inl ⟨by simp [h1], by simp [h2]⟩
          · exact Or.inr ⟨by simp [h1], by simp [h2]⟩

theorem evalBits_zipWith_ite (ρ : QV.Env) (c : BExp) (x y : List BExp) (h : x.length = y.length) :
    evalBits ρ (List.zipWith (BExp.ite c) x y) = if c.eval ρ then evalBits ρ x else evalBits ρ y := by
  induction x generalizing y with
  | nil => cases y <;> simp_all [evalBits]
  | cons a as ih =>
    cases y with
    | nil => simp at h
    | cons b bs =>
      simp only [List.length_cons, Nat.add_right_cancel_iff] at h
      have := ih bs h
      simp only [evalBits, List.zipWith_cons_cons, List.map_cons, BExp.eval] at this ⊢
      rw [this]
      cases c.eval ρ <;> simp

theorem iteT_den_int (ρ : QV.Env) (cb : BExp) (x y a b : List BExp) (n : Nat)
    (hx : x.length = n) (hy : y.length = n) (hvx : val ρ x = val ρ a) (hvy : val ρ y = val ρ b)
    (hn : n = max a.length b.length) :
    DenT ρ (.qint n) (Val.list ((List.zipWith (BExp.ite cb) x y).map .atom))
      (.int (max a.length b.length) (if cb.eval ρ then val ρ a else val ρ b)) := by
  subst hn
  have := DenT.mk_int (ρ := ρ) (List.zipWith (BExp.ite cb) x y) (max a.length b.length)
    (if cb.eval ρ then val ρ a else val ρ b)
    (by rw [List.length_zipWith, hx, hy]; omega)
    (by rw [val_zipWith_ite ρ cb x y (by omega), hvx, hvy])
  exact this

theorem soundT_ite (ρ : QV.Env) (env : Front.Env) (σ : TEnv) (c l r : PExp)
    (ihc : SoundT ρ env σ c) (ihl : SoundT ρ env σ l) (ihr : SoundT ρ env σ r) :
    SoundT ρ env σ (.ite c l r) := by
  intro s t v s' hw h
  rw [tr] at h
  simp only [run_bind_ok] at h
  obtain ⟨⟨ct, cv⟩, s0, h0, ⟨lt, lv⟩, s1, h1, ⟨rt, rv⟩, s2, h2, h3⟩ := h
  simp only [wellT, Bool.and_eq_true, Bool.not_eq_true', Bool.or_eq_false_iff, Bool.and_eq_false_iff] at hw
  obtain ⟨⟨⟨hwc, hwl⟩, hwr⟩, hmix1, hmix2⟩ := hw
  obtain ⟨svc, hsc, hdc⟩ := ihc _ _ _ _ hwc h0
  obtain ⟨svl, hsl, hdl⟩ := ihl _ _ _ _ hwl h1
  obtain ⟨svr, hsr, hdr⟩ := ihr _ _ _ _ hwr h2
  cases hdc with
  | int cbits =>
    simp only [bne_qint_bool, if_true, run_bind_ok, run_throw_ok, false_and, exists_false] at h3
  | char cbits hc =>
    simp only [bne_qchar_bool, if_true, run_bind_ok, run_throw_ok, false_and, exists_false] at h3
  | tup cvs csvs _ _ =>
    simp only [bne_tuple_bool, if_true, run_bind_ok, run_throw_ok, false_and, exists_false] at h3
  | bool cb =>
    simp only [bne_bool_bool, Bool.false_eq_true, if_false, run_bind_ok, run_lift_ok, atomOf_atom,
      Except.ok.injEq] at h3
    obtain ⟨_, _, ⟨rfl, rfl⟩, h3⟩ := h3
    cases hdl with
    | bool a =>
      cases hdr with
      | bool b =>
        simp only [bne_bool_bool, Bool.false_eq_true, if_false, beq_bool_bool, if_true, run_bind_ok,
          run_lift_ok, atomOf_atom, Except.ok.injEq, run_pure_ok] at h3
        obtain ⟨_, _, ⟨rfl, rfl⟩, _, _, ⟨rfl, rfl⟩, h4, _⟩ := h3
        cases h4
        refine ⟨.bool (if cb.eval ρ then a.eval ρ else b.eval ρ), by simp [semT, hsc, hsl, hsr, iteT], ?_⟩
        exact DenT.mk_bool _ _ (by simp [BExp.eval])
      | int b =>
        simp only [bne_bool_qint, if_true, Ty.size?, run_bind_ok, run_throw_ok, false_and,
          exists_false] at h3
      | char b hb =>
        simp only [bne_bool_qchar, if_true, Ty.size?, run_bind_ok, run_throw_ok, false_and,
          exists_false] at h3
      | tup b sb _ _ =>
        simp only [bne_bool_tuple, if_true, Ty.size?, run_bind_ok, run_throw_ok, false_and,
          exists_false] at h3
    | int a =>
      cases hdr with
      | bool b =>
        simp only [bne_qint_bool, if_true, Ty.size?, run_bind_ok, run_throw_ok, false_and,
          exists_false] at h3
      | char b hb => simp [hsl, hsr, isIntO, isCharO] at hmix2
      | tup b sb _ _ =>
        simp only [bne_qint_tuple, if_true, Ty.size?, run_bind_ok, run_throw_ok, false_and,
          exists_false] at h3
      | int b =>
        simp only [bne_qint_qint, Ty.size?, run_ite_ok, run_bind_ok, run_lift_ok, bitsOf_ofBits,
          Except.ok.injEq, beq_qint_bool, Bool.false_eq_true, false_and, false_or, not_false_eq_true,
          true_and] at h3
        simp only [Val.ofBits, iteZip_atoms, run_bind_ok, run_lift_ok, Except.ok.injEq, run_pure_ok] at h3
        have hsem : semT σ (.ite c l r)
            = some (.int (max a.length b.length) (if cb.eval ρ then val ρ a else val ρ b)) := by
          simp [semT, hsc, hsl, hsr, iteT]
        refine ⟨_, hsem, ?_⟩
        rcases h3 with ⟨hc1, (⟨hc2, _, _, ⟨rfl, rfl⟩, _, _, ⟨rfl, rfl⟩, h4, _⟩ |
            ⟨hc2, (⟨hc3, _, _, ⟨rfl, rfl⟩, _, _, ⟨rfl, rfl⟩, h4, _⟩ | ⟨hc3, _, _, ⟨rfl, rfl⟩, h4, _⟩)⟩)⟩ |
            ⟨hc1, _, _, ⟨rfl, rfl⟩, h4, _⟩
        · cases h4
          exact iteT_den_int ρ cb a (fill a.length b) a b a.length rfl (by rw [fill_length]; omega) rfl
            (val_fill ρ _ _) (by omega)
        · cases h4
          exact iteT_den_int ρ cb (fill b.length a) b a b b.length (by rw [fill_length]; omega) rfl
            (val_fill ρ _ _) rfl (by omega)
        · cases h4
          have : a.length = b.length := by omega
          exact iteT_den_int ρ cb a b a b a.length rfl (by omega) rfl rfl (by omega)
        · cases h4
          have : a.length = b.length := by simpa using hc1
          exact iteT_den_int ρ cb a b a b a.length rfl (by omega) rfl rfl (by omega)
    | char a ha =>
      cases hdr with
      | bool b =>
        simp only [bne_qchar_bool, if_true, Ty.size?, run_bind_ok, run_throw_ok, false_and,
          exists_false] at h3
      | int b => simp [hsl, hsr, isIntO, isCharO] at hmix1
      | tup b sb _ _ =>
        simp only [bne_qchar_tuple, if_true, Ty.size?, run_bind_ok, run_throw_ok, false_and,
          exists_false] at h3
      | char b hb =>
        simp only [bne_qchar_qchar, Bool.false_eq_true, if_false, beq_qchar_bool] at h3
        simp only [Val.ofBits, iteZip_atoms, run_bind_ok, run_lift_ok, Except.ok.injEq, run_pure_ok] at h3
        obtain ⟨_, _, ⟨rfl, rfl⟩, h4, _⟩ := h3
        cases h4
        refine ⟨.char (if cb.eval ρ then val ρ a else val ρ b), by simp [semT, hsc, hsl, hsr, iteT], ?_⟩
        have := DenT.mk_char (ρ := ρ) (List.zipWith (BExp.ite cb) a b) (if cb.eval ρ then val ρ a else val ρ b)
          (by rw [List.length_zipWith, ha, hb]; rfl) (val_zipWith_ite ρ cb a b (by omega))
        exact this
    | tup a sa hwa hba =>
      cases hdr with
      | bool b =>
        simp only [bne_tuple_bool, if_true, Ty.size?, run_bind_ok, run_throw_ok, false_and,
          exists_false] at h3
      | int b =>
        simp only [bne_tuple_qint, if_true, Ty.size?, run_bind_ok, run_throw_ok, false_and,
          exists_false] at h3
      | char b hb =>
        simp only [bne_tuple_qchar, if_true, Ty.size?, run_bind_ok, run_throw_ok, false_and,
          exists_false] at h3
      | tup b sb hwb hbb =>
        by_cases hne : (Ty.tuple (TVal.tyList sa) != Ty.tuple (TVal.tyList sb)) = true
        · simp only [hne, if_true, Ty.size?, run_bind_ok, run_throw_ok, false_and, exists_false] at h3
        · simp only [hne, Bool.false_eq_true, if_false, beq_tuple_bool, run_bind_ok, run_lift_ok,
            Except.ok.injEq, run_pure_ok] at h3
          obtain ⟨rz, _, ⟨hz, rfl⟩, h4, _⟩ := h3
          cases h4
          have hty : TVal.tyList sa = TVal.tyList sb := by
            have := (Ty.bne_iff _ _).not.mp hne
            simpa using this
          obtain ⟨as, bs, hl, rfl, hor⟩ := iteZip_ok cb a b rz hz
          have hna : (Val.flattenList a).length = Ty.bitsList (TVal.tyList sa) := by
            have := congrArg List.length hba
            rw [TVal.bitsList_length] at this
            simpa [evalBits] using this
          have hnb : (Val.flattenList b).length = Ty.bitsList (TVal.tyList sa) := by
            have := congrArg List.length hbb
            rw [TVal.bitsList_length, ← hty] at this
            simpa [evalBits] using this
          have hfl : Val.flattenList a = as ∧ Val.flattenList b = bs := by
            rcases hor with ⟨h1, h2⟩ | ⟨h1, h2⟩
            · have e1 : Val.flattenList a = as := by rw [h1, flattenList_atoms]
              refine ⟨e1, ?_⟩
              rw [hl] at h2
              exact flatten_of_take b bs h2 (by rw [hnb, ← hna, e1, hl])
            · have e1 : Val.flattenList b = bs := by rw [h1, flattenList_atoms]
              refine ⟨?_, e1⟩
              rw [← hl] at h2
              exact flatten_of_take a as h2 (by rw [hna, ← hnb, e1, hl])
          rw [hfl.1] at hba
          rw [hfl.2] at hbb
          have hbeq : Ty.beqList (TVal.tyList sa) (TVal.tyList sb) = true := (Ty.beqList_iff _ _).mpr hty
          refine ⟨.tuple (if cb.eval ρ then sa else sb), by simp [semT, hsc, hsl, hsr, iteT, hbeq], ?_⟩
          apply DenT.mk_tup
          · cases cb.eval ρ <;> simp [hty]
          · cases cb.eval ρ <;> simp [hwa, hwb]
          · rw [flattenList_atoms, evalBits_zipWith_ite ρ cb as bs hl, hba, hbb]
            cases cb.eval ρ <;> simp


/-! ### lists of operands: `and` / `or`, tuple literals -/

/-- element-wise denotation of a list of translated values -/
def DenListT (ρ : QV.Env) : List (Ty × Val) → List TVal → Prop
  | [], [] => True
  | x :: xs, sv :: svs => DenT ρ x.1 x.2 sv ∧ DenListT ρ xs svs
  | _, _ => False

theorem soundT_list (ρ : QV.Env) (env : Front.Env) (σ : TEnv) (es : List PExp)
    (ih : ∀ e ∈ es, SoundT ρ env σ e) :
    ∀ (s : St) (xs : List (Ty × Val)) (s' : St), wellTList σ es = true →
      (trList Quirks.none env es).run s = .ok (xs, s') →
      ∃ svs, semTList σ es = some svs ∧ DenListT ρ xs svs := by
  induction es with
  | nil =>
    intro s xs s' _ h
    rw [trList, run_pure_ok] at h
    obtain ⟨rfl, _⟩ := h
    exact ⟨[], by simp [semTList], trivial⟩
  | cons e es ihes =>
    intro s xs s' hw h
    rw [trList] at h
    simp only [run_bind_ok, run_pure_ok] at h
    obtain ⟨⟨t1, v1⟩, s1, h1, xs', s2, h2, rfl, _⟩ := h
    simp only [wellTList, Bool.and_eq_true] at hw
    obtain ⟨sv, hs, hd⟩ := ih e (by simp) _ _ _ _ hw.1 h1
    obtain ⟨svs, hss, hds⟩ := ihes (fun e' he' => ih e' (by simp [he'])) _ _ _ hw.2 h2
    exact ⟨sv :: svs, by simp [semTList, hs, hss], hd, hds⟩

theorem boolFoldT_spec (ρ : QV.Env) (isAnd : Bool) (as : List BExp) :
    ∀ (xs : List (Ty × Val)) (svs : List TVal), DenListT ρ xs svs →
      xs.map (·.2) = as.map Val.atom → as ≠ [] →
      boolFoldT isAnd svs = some ((unfoldBool isAnd as).eval ρ) := by
  induction as with
  | nil => intro _ _ _ _ h; exact absurd rfl h
  | cons a as ih =>
    intro xs svs hd hm _
    cases xs with
    | nil => simp at hm
    | cons x xs =>
      cases svs with
      | nil => exact absurd hd (by simp [DenListT])
      | cons sv svs =>
        obtain ⟨hd1, hd2⟩ := hd
        simp only [List.map_cons, List.cons.injEq] at hm
        obtain ⟨hx, hm'⟩ := hm
        obtain ⟨t1, v1⟩ := x
        simp only at hx hd1
        subst hx
        cases hd1
        cases as with
        | nil =>
          cases xs with
          | nil =>
            cases svs with
            | nil => simp [boolFoldT, unfoldBool]
            | cons _ _ => exact absurd hd2 (by simp [DenListT])
          | cons _ _ => simp at hm'
        | cons a2 as2 =>
          have ih' := ih xs svs hd2 hm' (by simp)
          cases xs with
          | nil => simp at hm'
          | cons x2 xs2 =>
            cases svs with
            | nil => exact absurd hd2 (by simp [DenListT])
            | cons sv2 svs2 =>
              have hb : boolFoldT isAnd (TVal.bool (a.eval ρ) :: sv2 :: svs2)
                  = (boolFoldT isAnd (sv2 :: svs2)).map
                      fun r => if isAnd then a.eval ρ && r else a.eval ρ || r := by
                rw [boolFoldT]
                · intro h; cases h
              rw [hb, ih']
              cases isAnd <;> simp [unfoldBool, BExp.eval, evalAnd, evalOr]

theorem soundT_boolop (ρ : QV.Env) (env : Front.Env) (σ : TEnv) (isAnd : Bool) (vs : List PExp)
    (ih : ∀ e ∈ vs, SoundT ρ env σ e) : SoundT ρ env σ (.boolop isAnd vs) := by
  intro s t v s' hw h
  rw [tr] at h
  simp only [run_bind_ok] at h
  obtain ⟨xs, s1, h1, es, s2, h2, _, s3, _, h4⟩ := h
  obtain ⟨svs, hss, hds⟩ := soundT_list ρ env σ vs ih _ _ _ (by simpa [wellT] using hw) h1
  obtain ⟨as, h5, h6⟩ := atoms_loop xs [] s1 es s2 h2
  simp only [List.nil_append] at h6
  rw [h6] at h4
  simp only [run_ite_ok, run_bind_ok, run_throw_ok, false_and, exists_false, and_false, false_or,
    run_pure_ok] at h4
  obtain ⟨hne, h7, _⟩ := h4
  cases h7
  have hne' : as ≠ [] := by
    intro h0; subst h0; simp at hne
  have := boolFoldT_spec ρ isAnd as xs svs hds h5 hne'
  exact ⟨.bool ((unfoldBool isAnd as).eval ρ), by simp [semT, hss, this], DenT.mk_bool _ _ rfl⟩

theorem denListT_tup (ρ : QV.Env) : ∀ (xs : List (Ty × Val)) (svs : List TVal), DenListT ρ xs svs →
    TVal.tyList svs = xs.map (·.1) ∧ TVal.wfList svs = true ∧
      evalBits ρ (Val.flattenList (xs.map (·.2))) = TVal.bitsList svs
  | [], [], _ => ⟨rfl, rfl, rfl⟩
  | x :: xs, sv :: svs, h => by
    obtain ⟨h1, h2⟩ := h
    obtain ⟨i1, i2, i3⟩ := denListT_tup ρ xs svs h2
    refine ⟨by simp [TVal.tyList, den_ty h1, i1], by simp [TVal.wfList, den_wf h1, i2], ?_⟩
    simp only [List.map_cons, Val.flattenList, evalBits_append, TVal.bitsList, den_bits h1, i3]
  | [], _ :: _, h => absurd h (by simp [DenListT])
  | _ :: _, [], h => absurd h (by simp [DenListT])

theorem soundT_tuple (ρ : QV.Env) (env : Front.Env) (σ : TEnv) (es : List PExp)
    (ih : ∀ e ∈ es, SoundT ρ env σ e) : SoundT ρ env σ (.tuple es) := by
  intro s t v s' hw h
  rw [tr] at h
  simp only [run_bind_ok, run_pure_ok] at h
  obtain ⟨xs, s1, h1, h2, _⟩ := h
  cases h2
  obtain ⟨svs, hss, hds⟩ := soundT_list ρ env σ es ih _ _ _ (by simpa [wellT] using hw) h1
  obtain ⟨i1, i2, i3⟩ := denListT_tup ρ xs svs hds
  exact ⟨.tuple svs, by simp [semT, hss], DenT.mk_tup _ _ _ i1 i2 i3⟩

end QV.Sem
