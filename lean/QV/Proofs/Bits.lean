import QV.Base.Bits
import Mathlib.Tactic.Ring
/-! Lemmas on bit lists: `valLE`, `valBE`, `bitsLE`, `toBitsLE`, and the Python string helpers. -/
namespace QV

def bitN (b : Bool) : Nat := if b then 1 else 0

@[simp] theorem valLE_nil : valLE [] = 0 := rfl
@[simp] theorem valLE_cons (b : Bool) (bs : List Bool) :
    valLE (b :: bs) = (if b then 1 else 0) + 2 * valLE bs := rfl

theorem valLE_lt (l : List Bool) : valLE l < 2 ^ l.length := by
  induction l with
  | nil => simp
  | cons b bs ih => simp only [valLE_cons, List.length_cons, Nat.pow_succ]; split <;> omega

theorem valLE_append (l r : List Bool) : valLE (l ++ r) = valLE l + 2 ^ l.length * valLE r := by
  induction l with
  | nil => simp
  | cons b bs ih => simp only [List.cons_append, valLE_cons, ih, List.length_cons, Nat.pow_succ]; ring

theorem valLE_replicate_false (n : Nat) : valLE (List.replicate n false) = 0 := by
  induction n with
  | zero => rfl
  | succ n ih => simp [List.replicate_succ, ih]

/-! ### `toBitsLE` -/

@[simp] theorem toBitsLE_length (w n : Nat) : (toBitsLE w n).length = w := by
  induction w generalizing n with
  | zero => rfl
  | succ w ih => simp [toBitsLE, ih]

theorem mod2_bit (n : Nat) : (if (n % 2 == 1) = true then 1 else 0) = n % 2 := by
  rcases Nat.mod_two_eq_zero_or_one n with h | h <;> simp [h]

theorem valLE_toBitsLE (w n : Nat) : valLE (toBitsLE w n) = n % 2 ^ w := by
  induction w generalizing n with
  | zero => simp [toBitsLE, Nat.mod_one]
  | succ w ih =>
    simp only [toBitsLE, valLE_cons, ih, mod2_bit]
    rw [Nat.pow_succ, Nat.mul_comm (2 ^ w) 2, Nat.mod_mul]

theorem toBitsLE_valLE (l : List Bool) : toBitsLE l.length (valLE l) = l := by
  induction l with
  | nil => rfl
  | cons b bs ih =>
    simp only [List.length_cons, toBitsLE, valLE_cons]
    have h1 : ((if b = true then 1 else 0) + 2 * valLE bs) % 2 = (if b = true then 1 else 0) := by
      cases b <;> simp [Nat.add_mul_mod_self_left]
    have h2 : ((if b = true then 1 else 0) + 2 * valLE bs) / 2 = valLE bs := by
      cases b <;> simp <;> omega
    rw [h2, ih]
    cases b <;> simp [h1] <;> omega

/-- two bit lists of the same length with the same value are equal -/
theorem valLE_inj {l r : List Bool} (hl : l.length = r.length) (hv : valLE l = valLE r) : l = r := by
  rw [← toBitsLE_valLE l, ← toBitsLE_valLE r, hl, hv]

theorem toBitsLE_mod (w n : Nat) : toBitsLE w (n % 2 ^ w) = toBitsLE w n := by
  apply valLE_inj (by simp)
  simp [valLE_toBitsLE]

/-! ### `bitsLE` -/

theorem bitsLE_zero : bitsLE 0 = [] := by rw [bitsLE]; simp

theorem bitsLE_pos {n : Nat} (h : n ≠ 0) : bitsLE n = (n % 2 == 1) :: bitsLE (n / 2) := by
  rw [bitsLE]; simp [h]

theorem valLE_bitsLE (n : Nat) : valLE (bitsLE n) = n := by
  induction n using Nat.strongRecOn with
  | _ n ih =>
    by_cases h : n = 0
    · subst h; simp [bitsLE_zero]
    · rw [bitsLE_pos h, valLE_cons, ih (n / 2) (by omega), mod2_bit]; omega

theorem bitsLE_length_le {n w : Nat} (h : n < 2 ^ w) : (bitsLE n).length ≤ w := by
  induction w generalizing n with
  | zero => have : n = 0 := by simpa using h
            subst this; simp [bitsLE_zero]
  | succ w ih =>
    by_cases h0 : n = 0
    · subst h0; simp [bitsLE_zero]
    · rw [bitsLE_pos h0]
      simp only [List.length_cons]
      have : n / 2 < 2 ^ w := by rw [Nat.pow_succ] at h; omega
      have := ih this
      omega

/-- `bitsLE n` padded with zeros to width `w` is the `w`-bit encoding, when `n` fits -/
theorem bitsLE_pad {n w : Nat} (h : n < 2 ^ w) :
    bitsLE n ++ List.replicate (w - (bitsLE n).length) false = toBitsLE w n := by
  apply valLE_inj
  · have := bitsLE_length_le h; simp; omega
  · rw [valLE_append, valLE_replicate_false, valLE_bitsLE, valLE_toBitsLE, Nat.mod_eq_of_lt h]; simp

theorem bitsLE_ne_nil {n : Nat} (h : n ≠ 0) : bitsLE n ≠ [] := by rw [bitsLE_pos h]; simp

/-! ### `valBE` -/

def valBEacc (acc : Nat) (l : List Bool) : Nat := l.foldl (fun a b => 2 * a + (if b then 1 else 0)) acc

theorem valBE_eq (l : List Bool) : valBE l = valBEacc 0 l := rfl

theorem valBEacc_eq (acc : Nat) (l : List Bool) : valBEacc acc l = acc * 2 ^ l.length + valBEacc 0 l := by
  induction l generalizing acc with
  | nil => simp [valBEacc]
  | cons b bs ih =>
    simp only [valBEacc, List.foldl_cons, List.length_cons] at *
    rw [ih (2 * acc + _), ih (2 * 0 + _), Nat.pow_succ]; ring

theorem valBE_cons (b : Bool) (bs : List Bool) :
    valBE (b :: bs) = (if b then 1 else 0) * 2 ^ bs.length + valBE bs := by
  simp only [valBE_eq]
  show valBEacc (2 * 0 + _) bs = _
  rw [valBEacc_eq]; simp

theorem valBE_append_single (l : List Bool) (b : Bool) :
    valBE (l ++ [b]) = 2 * valBE l + (if b then 1 else 0) := by
  simp [valBE, List.foldl_append]

theorem valBE_reverse (l : List Bool) : valBE l.reverse = valLE l := by
  induction l with
  | nil => rfl
  | cons b bs ih => rw [List.reverse_cons, valBE_append_single, ih, valLE_cons]; omega

theorem valBE_eq_valLE_reverse (l : List Bool) : valBE l = valLE l.reverse := by
  rw [← valBE_reverse, List.reverse_reverse]

theorem valBE_lt (l : List Bool) : valBE l < 2 ^ l.length := by
  rw [valBE_eq_valLE_reverse]; simpa using valLE_lt l.reverse

theorem valBE_inj {l r : List Bool} (hl : l.length = r.length) (hv : valBE l = valBE r) : l = r := by
  have : l.reverse = r.reverse := valLE_inj (by simp [hl]) (by rw [← valBE_eq_valLE_reverse, ← valBE_eq_valLE_reverse, hv])
  simpa using congrArg List.reverse this

/-! ### Python string helpers -/

@[simp] theorem bitChar_eq_one (b : Bool) : (bitChar b == '1') = b := by cases b <;> decide

theorem map_bitChar_eq_one (l : List Bool) : (l.map bitChar).map (· == '1') = l := by
  induction l with
  | nil => rfl
  | cons b bs ih => simp [ih]

@[simp] theorem map_bitChar_comp (l : List Bool) : l.map ((fun x => x == '1') ∘ bitChar) = l := by
  induction l with
  | nil => rfl
  | cons b bs ih => simp [ih]

theorem bitChar_ok (b : Bool) : (bitChar b != '0' && bitChar b != '1') = false := by
  cases b <;> decide

theorem pyInt2_boolListToBin {l : List Bool} (h : l ≠ []) :
    pyInt2 (boolListToBin l) = some (valBE l) := by
  unfold pyInt2 boolListToBin
  have h1 : (l.map bitChar).isEmpty = false := by cases l <;> simp_all
  have h2 : (l.map bitChar).any (fun c => c != '0' && c != '1') = false := by
    induction l with
    | nil => rfl
    | cons b bs _ =>
      simp only [List.map_cons, List.any_cons, bitChar_ok, Bool.false_or]
      simp [List.any_eq_false, bitChar_ok]
  simp [h1, h2]

theorem strip0b_pyBin (n : Nat) : strip0b (pyBin n) = binDigits n := rfl

theorem binDigits_bools (n : Nat) :
    (binDigits n).map (· == '1') = if n = 0 then [false] else (bitsLE n).reverse := by
  unfold binDigits
  split
  · decide
  · simp

theorem binDigits_length (n : Nat) : (binDigits n).length = if n = 0 then 1 else (bitsLE n).length := by
  unfold binDigits; split <;> simp

/-- `bin_to_bool_list(bin(n), w)[::-1]` is the `w`-bit little-endian encoding of `n` when `n < 2^w` -/
theorem binToBoolList_pyBin_reverse {n w : Nat} (h : n < 2 ^ w) :
    (binToBoolList (pyBin n) (some w)).reverse = toBitsLE w n := by
  unfold binToBoolList
  simp only [strip0b_pyBin, Option.getD_some]
  by_cases h0 : n = 0
  · subst h0
    cases w with
    | zero => simp [toBitsLE]
    | succ w =>
      apply valLE_inj
      · simp [binDigits]
      · simp [binDigits, valLE_replicate_false, valLE_toBitsLE]
  · have hlen := bitsLE_length_le h
    have htake : (binDigits n).take w = binDigits n := by
      apply List.take_of_length_le; rw [binDigits_length]; simp [h0, hlen]
    rw [htake, binDigits_bools]
    simp only [h0, if_false, List.reverse_append, List.reverse_reverse, List.reverse_replicate,
      List.length_reverse]
    exact bitsLE_pad h

end QV
