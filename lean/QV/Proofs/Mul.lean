import QV.Proofs.Arith
/-! Value lemmas for the schoolbook multiplier of `QintImp.mul` and for `QintImp.mod`
(`QV/Model/Arith.lean`), for every environment and all widths. -/
namespace QV.Arith
open QV

theorem val_nil (ρ : Env) : val ρ [] = 0 := rfl
theorem val_cons (ρ : Env) (a : BExp) (l : List BExp) :
    val ρ (a :: l) = bitN (a.eval ρ) + 2 * val ρ l := rfl

/-! ### `List.set` / `getD` on values -/

theorem evalBits_set (ρ : Env) (l : List BExp) (k : Nat) (b : BExp) :
    evalBits ρ (l.set k b) = (evalBits ρ l).set k (b.eval ρ) := by
  simp [evalBits, List.map_set]

theorem evalBits_getD (ρ : Env) (l : List BExp) (k : Nat) :
    (evalBits ρ l).getD k false = (l.getD k .ff).eval ρ := by
  induction l generalizing k with
  | nil => simp [BExp.eval]
  | cons a as ih => cases k with
    | zero => simp
    | succ k => simpa using ih k

theorem valLE_set (l : List Bool) (k : Nat) (b : Bool) (h : k < l.length) :
    valLE (l.set k b) + 2 ^ k * bitN (l.getD k false) = valLE l + 2 ^ k * bitN b := by
  induction l generalizing k with
  | nil => simp at h
  | cons a as ih =>
    cases k with
    | zero => cases a <;> cases b <;> simp [bitN] <;> omega
    | succ k =>
      have h' := ih k (by simpa using h)
      simp only [List.set_cons_succ, valLE_cons, List.getD_cons_succ, Nat.pow_succ]
      have e1 : 2 ^ k * 2 * bitN (as.getD k false) = 2 * (2 ^ k * bitN (as.getD k false)) := by ring
      have e2 : 2 ^ k * 2 * bitN b = 2 * (2 ^ k * bitN b) := by ring
      rw [e1, e2]; omega

theorem valLE_lt_getD (l : List Bool) (j : Nat) (h : valLE l < 2 ^ j) : l.getD j false = false := by
  induction l generalizing j with
  | nil => rfl
  | cons a as ih =>
    cases j with
    | zero => cases a <;> simp_all
    | succ j =>
      simp only [List.getD_cons_succ]
      apply ih
      simp only [valLE_cons, Nat.pow_succ] at h
      omega

theorem getD_set_ne (l : List BExp) (k j : Nat) (b : BExp) (h : k ≠ j) :
    (l.set k b).getD j .ff = l.getD j .ff := by
  simp [List.getD_eq_getElem?_getD, List.getElem?_set_ne h]

/-! ### one row of the schoolbook loop -/

theorem mulRow_length (li : BExp) (last : Nat) (rs : List BExp) :
    ∀ (c : BExp) (k : Nat) (product : List BExp),
      (mulRow li last c k rs product).length = product.length := by
  induction rs with
  | nil => intro c k product; simp [mulRow]
  | cons rj rs ih =>
    intro c k product
    simp only [mulRow]
    split <;> simp [ih]

theorem fa_arith (c p x : Bool) :
    bitN c + bitN p + bitN x
      = bitN (Bool.xor (Bool.xor p x) c) + 2 * bitN (Bool.xor (p && x) ((Bool.xor p x) && c)) := by
  cases c <;> cases p <;> cases x <;> simp [bitN]

theorem bitN_and (a b : Bool) : bitN (a && b) = bitN a * bitN b := by
  cases a <;> cases b <;> simp [bitN]

/-- invariant of the inner loop: the row adds `carry + l_i * r` at offset `k`; the bit at `k + |r|`
is overwritten by the final carry -/
theorem mulRow_val (ρ : Env) (li : BExp) (last : Nat) (rs : List BExp) :
    ∀ (c : BExp) (k : Nat) (product : List BExp),
      k + rs.length < product.length → k + rs.length ≤ last →
      val ρ (mulRow li last c k rs product)
          + 2 ^ (k + rs.length) * bitN ((product.getD (k + rs.length) .ff).eval ρ)
        = val ρ product + 2 ^ k * (bitN (c.eval ρ) + bitN (li.eval ρ) * val ρ rs) := by
  induction rs with
  | nil =>
    intro c k product h1 _
    simp only [mulRow, List.length_nil, Nat.add_zero, val_nil, Nat.mul_zero] at *
    have := valLE_set (evalBits ρ product) k (c.eval ρ) (by simpa using h1)
    rw [evalBits_getD] at this
    simpa [val, evalBits_set] using this
  | cons rj rs ih =>
    intro c k product h1 h2
    simp only [List.length_cons] at h1 h2
    have hk : k < last := by omega
    simp only [mulRow, hk, if_true]
    obtain ⟨cs, hcs⟩ : ∃ x, x = fullAdder c (BExp.and [li, rj]) (product.getD k .ff) := ⟨_, rfl⟩
    rw [← hcs]
    have ih' := ih cs.1 (k + 1) (product.set k cs.2) (by simp; omega) (by omega)
    have hne : (product.set k cs.2).getD (k + 1 + rs.length) .ff = product.getD (k + 1 + rs.length) .ff :=
      getD_set_ne _ _ _ _ (by omega)
    rw [hne] at ih'
    have hset := valLE_set (evalBits ρ product) k (cs.2.eval ρ) (by simp; omega)
    rw [evalBits_getD, ← evalBits_set] at hset
    have fa := fullAdder_eval ρ c (BExp.and [li, rj]) (product.getD k .ff)
    rw [← hcs] at fa
    have hpp : (BExp.and [li, rj]).eval ρ = (li.eval ρ && rj.eval ρ) := by simp [BExp.eval, evalAnd]
    have far := fa_arith (c.eval ρ) (li.eval ρ && rj.eval ρ) ((product.getD k .ff).eval ρ)
    rw [← hpp, ← fa.1, ← fa.2, hpp, bitN_and] at far
    have e : k + (rs.length + 1) = k + 1 + rs.length := by omega
    simp only [List.length_cons]
    rw [e, ih', val_cons]
    change valLE (evalBits ρ (product.set k cs.2)) + _ = valLE (evalBits ρ product) + _
    generalize valLE (evalBits ρ (product.set k cs.2)) = V' at *
    generalize valLE (evalBits ρ product) = V at *
    generalize bitN (cs.1.eval ρ) = C' at *
    generalize bitN (cs.2.eval ρ) = S at *
    generalize bitN (c.eval ρ) = C at *
    generalize bitN (li.eval ρ) = L at *
    generalize bitN (rj.eval ρ) = Rj at *
    generalize bitN ((product.getD k .ff).eval ρ) = Pk at *
    generalize val ρ rs = W at *
    have h3 : V' + 2 ^ k * Pk + 2 ^ (k + 1) * (C' + L * W)
        = V + 2 ^ k * (C + L * (Rj + 2 * W)) + 2 ^ k * Pk := by
      rw [hset]
      calc V + 2 ^ k * S + 2 ^ (k + 1) * (C' + L * W)
          = V + 2 ^ k * (S + 2 * C') + 2 ^ k * 2 * (L * W) := by ring
        _ = V + 2 ^ k * (C + L * Rj + Pk) + 2 ^ k * 2 * (L * W) := by rw [far]
        _ = _ := by ring
    omega

/-! ### the outer loop -/

theorem mulRows_val (ρ : Env) (r : List BExp) (last : Nat) (ls : List BExp) :
    ∀ (i : Nat) (product : List BExp),
      product.length = i + ls.length + r.length → last = product.length - 1 →
      val ρ product < 2 ^ (i + r.length) →
      val ρ (mulRows r last i ls product) = val ρ product + 2 ^ i * (val ρ ls * val ρ r) ∧
      (mulRows r last i ls product).length = product.length := by
  induction ls with
  | nil => intro i product _ _ _; simp [mulRows, val_nil]
  | cons li ls ih =>
    intro i product hlen hlast hb
    simp only [List.length_cons] at hlen
    simp only [mulRows]
    obtain ⟨row, hrow⟩ : ∃ x, x = mulRow li last .ff i r product := ⟨_, rfl⟩
    rw [← hrow]
    have hrl : row.length = product.length := by rw [hrow, mulRow_length]
    have hv := mulRow_val ρ li last r .ff i product (by omega) (by omega)
    rw [← hrow] at hv
    have hT : (product.getD (i + r.length) .ff).eval ρ = false := by
      rw [← evalBits_getD]; exact valLE_lt_getD _ _ hb
    rw [hT] at hv
    simp only [bitN, BExp.eval, Bool.false_eq_true, if_false, Nat.mul_zero, Nat.add_zero, Nat.zero_add] at hv
    have hr := val_lt ρ r
    have hLle : (if li.eval ρ = true then 1 else 0) * val ρ r ≤ val ρ r := by
      split <;> simp
    have hpos : 0 < 2 ^ i := Nat.pow_pos (by decide)
    have hm : 2 ^ i * ((if li.eval ρ = true then 1 else 0) * val ρ r) < 2 ^ i * 2 ^ r.length :=
      (Nat.mul_lt_mul_left hpos).2 (by omega)
    rw [← Nat.pow_add] at hm
    have hb' : val ρ row < 2 ^ (i + 1 + r.length) := by
      have : 2 ^ (i + 1 + r.length) = 2 * 2 ^ (i + r.length) := by
        rw [show i + 1 + r.length = (i + r.length) + 1 by omega, Nat.pow_succ]; omega
      omega
    obtain ⟨h1, h2⟩ := ih (i + 1) row (by omega) (by omega) hb'
    refine ⟨?_, by rw [h2, hrl]⟩
    rw [h1, hv, val_cons]
    simp only [bitN, Nat.pow_succ]
    ring

/-- the schoolbook product of `QintImp.mul` is the exact product on `n + m` bits -/
theorem val_schoolbook (ρ : Env) (l r : List BExp) :
    val ρ (schoolbook l r) = val ρ l * val ρ r ∧ (schoolbook l r).length = l.length + r.length := by
  unfold schoolbook
  have hz : val ρ (List.replicate (l.length + r.length) BExp.ff) = 0 := by
    simp [val, evalBits_replicate_ff, valLE_replicate_false]
  have h := mulRows_val ρ r (l.length + r.length - 1) l 0 (List.replicate (l.length + r.length) .ff)
    (by simp) (by simp) (by rw [hz]; exact Nat.pow_pos (by decide))
  rw [hz] at h
  constructor
  · rw [h.1]; simp
  · rw [h.2]; simp

/-! ### `QintImp.mul` with every product through the schoolbook loop (`Quirks.none`) -/

theorem crop_fill_length (t : Nat) (l : List BExp) : (crop t (fill t l)).length = t := by
  rw [crop_length, fill_length]; omega

theorem val_crop_fill (ρ : Env) (t : Nat) (l : List BExp) :
    val ρ (crop t (fill t l)) = val ρ l % 2 ^ t := by
  rw [val_crop, val_fill]

/-- the operands `QintImp.mul` hands to the schoolbook loop (after the constant / width fills) -/
def mulOperands (cl cr : Bool) (nl nr : Nat) (l_ r_ : List BExp) : List BExp × List BExp :=
  let l0 := if cl then fill nr l_ else l_
  let r0 := if cr then fill nl r_ else r_
  (if l0.length < r0.length then fill nr l0 else l0, if l0.length > r0.length then fill nl r0 else r0)

theorem qMul_none (cl cr : Bool) (nl nr : Nat) (l r : List BExp) :
    qMul Quirks.none cl cr nl nr l r =
      (let l0 := if cl then fill nr l else l
       let r0 := if cr then fill nl r else r
       let t := mulSizing (if l0.length < r0.length then r0.length else l0.length)
                  (if l0.length > r0.length then l0.length else r0.length)
       (t, crop t (fill t (schoolbook (mulOperands cl cr nl nr l r).1 (mulOperands cl cr nl nr l r).2)))) := by
  simp [qMul, Quirks.none, mulOperands]

theorem val_mulOperands (ρ : Env) (cl cr : Bool) (nl nr : Nat) (l r : List BExp) :
    val ρ (mulOperands cl cr nl nr l r).1 = val ρ l ∧ val ρ (mulOperands cl cr nl nr l r).2 = val ρ r := by
  have hf : ∀ (c : Prop) [Decidable c] (n : Nat) (x : List BExp),
      val ρ (if c then fill n x else x) = val ρ x := by
    intro c _ n x; split
    · exact val_fill ρ n x
    · rfl
  unfold mulOperands
  simp only []
  constructor
  · rw [hf]; cases cl
    · rfl
    · exact val_fill ρ _ _
  · rw [hf]; cases cr
    · rfl
    · exact val_fill ρ _ _

/-! ### `QintImp.mod` by a power of two -/

theorem valLE_zipWith_and_mask (A : List Bool) :
    ∀ (S : List Bool) (k : Nat), A.length = S.length → valLE S + 1 = 2 ^ k →
      valLE (List.zipWith (fun a b => a && b) A S) = valLE A % 2 ^ k := by
  induction A with
  | nil => intro S k h _; cases S <;> simp_all [Nat.zero_mod]
  | cons a as ih =>
    intro S k hl hv
    cases S with
    | nil => simp at hl
    | cons s ss =>
      simp only [List.length_cons, Nat.add_right_cancel_iff] at hl
      simp only [valLE_cons] at hv
      cases k with
      | zero =>
        have hs : s = false := by cases s <;> simp_all
        subst hs
        have h0 : valLE ss + 1 = 2 ^ 0 := by simp at hv ⊢; omega
        have := ih ss 0 hl h0
        simp only [List.zipWith_cons_cons, valLE_cons, this, Nat.pow_zero, Nat.mod_one]
        simp
      | succ k =>
        rw [Nat.pow_succ] at hv
        have hs : s = true := by
          cases s
          · simp at hv; omega
          · rfl
        subst hs
        have h0 : valLE ss + 1 = 2 ^ k := by simp at hv; omega
        have := ih ss k hl h0
        simp only [List.zipWith_cons_cons, valLE_cons, this, Bool.and_true, Nat.pow_succ]
        rw [mod_two_mul _ _ _ (by split <;> omega) (Nat.pow_pos (by decide))]

theorem evalBits_zipWith_and (ρ : Env) (A S : List BExp) :
    evalBits ρ (List.zipWith opAnd A S)
      = List.zipWith (fun a b => a && b) (evalBits ρ A) (evalBits ρ S) := by
  unfold evalBits
  rw [List.map_zipWith, List.zipWith_map]
  congr 1; funext a b; simp [opAnd, BExp.eval, evalAnd]

/-- `x & mask` with `mask = 2^k - 1` is `x mod 2^k`, operands of any widths -/
theorem val_and_mask (ρ : Env) (l s : List BExp) (k : Nat) (hs : val ρ s + 1 = 2 ^ k) :
    val ρ (bitwiseGeneric opAnd l s) = val ρ l % 2 ^ k := by
  unfold bitwiseGeneric val
  rw [evalBits_zipWith_and]
  rw [valLE_zipWith_and_mask _ _ k (by simp [widenL_length, widenR_length])]
  · exact congrArg (· % 2 ^ k) (val_widenL ρ l s)
  · have := val_widenR ρ l s
    unfold val at this hs; omega

/-- the digit string `bin(x)[2:][::-1]` of a value below `2^w` has at most `w` digits and value `x` -/
theorem natBitsLE_spec (ρ : Env) (w : Nat) :
    ∀ (f x : Nat), x < 2 ^ w → 0 < w → w ≤ f →
      val ρ (natBitsLE f x) = x ∧ (natBitsLE f x).length ≤ w := by
  induction w with
  | zero => intro f x _ h _; omega
  | succ w ih =>
    intro f x hx _ hwf
    cases f with
    | zero => omega
    | succ f =>
      unfold natBitsLE
      split
      · rename_i h2
        have : x = 0 ∨ x = 1 := by omega
        rcases this with rfl | rfl <;> simp [val, BExp.eval]
      · rename_i h2
        have hw' : 0 < w := by
          rcases Nat.eq_zero_or_pos w with h0 | h0
          · subst h0; simp at hx; omega
          · exact h0
        have hv : x / 2 < 2 ^ w := by rw [Nat.pow_succ] at hx; omega
        obtain ⟨h3, h4⟩ := ih f (x / 2) hv hw' (by omega)
        constructor
        · rw [val_cons, h3]
          rcases Nat.mod_two_eq_zero_or_one x with h5 | h5 <;> simp [h5, bitN, BExp.eval] <;> omega
        · simp; omega

/-- `QintImp.const(v)` of the class with `w` bits: `w` bits of value `v mod 2^w` -/
theorem qintConst_spec (ρ : Env) (w v : Nat) (hw : 0 < w) :
    val ρ (qintConst w v) = v % 2 ^ w ∧ (qintConst w v).length = w := by
  unfold qintConst
  have hlt : v % 2 ^ w < 2 ^ w := Nat.mod_lt _ (Nat.pow_pos (by decide))
  obtain ⟨h1, h2⟩ := natBitsLE_spec ρ w (w + 1) (v % 2 ^ w) hlt hw (by omega)
  constructor
  · rw [val_fill, h1]
  · rw [fill_length]; omega

/-! ### the specifications used by the translator proof (restated in `QV/Props/C01.lean`) -/

/-- `QintImp.sub` (repaired) on the class of `n` bits: `(a - b) mod 2^W`, `W = max n |l| |r|` -/
theorem qSub_spec (ρ : Env) (n : Nat) (l r : List BExp) :
    val ρ (qSub Quirks.none n l r)
      = (val ρ l + 2 ^ (max n (max l.length r.length)) - val ρ r) % 2 ^ (max n (max l.length r.length)) ∧
    (qSub Quirks.none n l r).length = max n (max l.length r.length) := by
  have hq : qSub Quirks.none n l r
      = bitwiseNot (qAdd (bitwiseNot (fill (fill n r).length (fill n l))) (fill n r)) := rfl
  rw [hq]
  obtain ⟨r1, hr1⟩ : ∃ x, x = fill n r := ⟨_, rfl⟩
  obtain ⟨l2, hl2⟩ : ∃ x, x = fill r1.length (fill n l) := ⟨_, rfl⟩
  rw [← hr1, ← hl2]
  have lr1 : r1.length = max n r.length := by rw [hr1, fill_length]
  have ll2 : l2.length = max n (max l.length r.length) := by
    rw [hl2, fill_length, fill_length, lr1]; omega
  have vr : val ρ r1 = val ρ r := by rw [hr1, val_fill]
  have vl : val ρ l2 = val ρ l := by rw [hl2, val_fill, val_fill]
  have ladd : (qAdd (bitwiseNot l2) r1).length = l2.length := by
    rw [qAdd_length, bitwiseNot_length]; omega
  have hnl := val_bitwiseNot ρ l2
  have ha := val_qAdd ρ (bitwiseNot l2) r1
  have hn := val_bitwiseNot ρ (qAdd (bitwiseNot l2) r1)
  have hmax : max (bitwiseNot l2).length r1.length = l2.length := by
    rw [bitwiseNot_length]; omega
  rw [hmax] at ha
  rw [ladd] at hn
  have hlt := val_lt ρ l2
  have hrt := val_lt ρ r1
  have hP : 2 ^ r1.length ≤ 2 ^ l2.length := Nat.pow_le_pow_right (by decide) (by omega)
  rw [bitwiseNot_length, ladd, ← ll2]
  refine ⟨?_, rfl⟩
  rw [← vl, ← vr]
  have key := sub_arith (val ρ l2) (val ρ r1) (2 ^ l2.length) hlt (by omega)
  have e1 : val ρ (bitwiseNot l2) = 2 ^ l2.length - 1 - val ρ l2 := by omega
  rw [e1] at ha
  rw [← key, ← ha]
  omega

theorem bitwiseGeneric_length (op : BExp → BExp → BExp) (l r : List BExp) :
    (bitwiseGeneric op l r).length = max l.length r.length := by
  unfold bitwiseGeneric
  rw [List.length_zipWith, widenL_length, widenR_length]; omega

theorem qMul_spec (ρ : Env) (cl cr : Bool) (nl nr : Nat) (l r : List BExp) :
    val ρ (qMul Quirks.none cl cr nl nr l r).2
      = (val ρ l * val ρ r) % 2 ^ (qMul Quirks.none cl cr nl nr l r).1 ∧
    (qMul Quirks.none cl cr nl nr l r).2.length = (qMul Quirks.none cl cr nl nr l r).1 ∧
    (l.length = nl → r.length = nr →
      (qMul Quirks.none cl cr nl nr l r).1 = mulSizing (max nl nr) (max nl nr)) := by
  rw [qMul_none]
  simp only []
  obtain ⟨hl, hr⟩ := val_mulOperands ρ cl cr nl nr l r
  refine ⟨?_, crop_fill_length _ _, ?_⟩
  · rw [val_crop_fill, (val_schoolbook ρ _ _).1, hl, hr]
  · intro h1 h2
    have e1 : (if cl then fill nr l else l).length = if cl then max nr nl else nl := by
      cases cl <;> simp [fill_length, h1]
    have e2 : (if cr then fill nl r else r).length = if cr then max nl nr else nr := by
      cases cr <;> simp [fill_length, h2]
    rw [e1, e2]
    congr 1 <;> cases cl <;> cases cr <;> simp only [Bool.false_eq_true, if_false, if_true] <;>
      (repeat' split) <;> omega

theorem qMod_spec (ρ : Env) (nr : Nat) (l r : List BExp) (k : Nat) (hn : 0 < nr)
    (hr : val ρ r = 2 ^ k) :
    val ρ (qMod Quirks.none nr l r) = val ρ l % 2 ^ k ∧
    (qMod Quirks.none nr l r).length = max l.length (max nr r.length) := by
  unfold qMod
  obtain ⟨hc, hcl⟩ := qintConst_spec ρ nr 1 hn
  obtain ⟨hs, hsl⟩ := qSub_spec ρ nr r (qintConst nr 1)
  have h2 : 2 ≤ 2 ^ nr := by
    have := Nat.pow_le_pow_right (by decide : 0 < 2) hn; simpa using this
  rw [Nat.mod_eq_of_lt (by omega)] at hc
  rw [hcl] at hs hsl
  constructor
  · apply val_and_mask
    rw [hs, hc, hr]
    have hlt : 2 ^ k < 2 ^ (max nr (max r.length nr)) := by
      have h1 := val_lt ρ r
      have h3 : 2 ^ r.length ≤ 2 ^ (max nr (max r.length nr)) :=
        Nat.pow_le_pow_right (by decide) (by omega)
      omega
    have hk : 0 < 2 ^ k := Nat.pow_pos (by decide)
    have e : 2 ^ k + 2 ^ (max nr (max r.length nr)) - 1 = (2 ^ k - 1) + 2 ^ (max nr (max r.length nr)) := by
      omega
    rw [e, Nat.add_mod_right, Nat.mod_eq_of_lt (by omega)]
    omega
  · rw [bitwiseGeneric_length, hsl]
    omega

end QV.Arith
