import QV.Proofs.FrontT1
/-! Soundness of `QV.Front.tr` w.r.t. the widened semantics `QV.Sem.semT`, part 2: the binary operators
(`+ - * % ^ & | << >>`).  The `Qint` / bool cases are those of `QV/Proofs/Front.lean`, `Front2.lean`; a `Qchar`
or tuple operand makes the translator raise. -/
namespace QV.Sem
open QV QV.Arith QV.Front

set_option linter.unusedSimpArgs false
set_option linter.unusedVariables false

/-! ### binary operators -/


set_option hygiene false in
/-- common prefix of the `BinOp` cases: both operands translated, both denote -/
macro "bin_startT" : tactic => `(tactic| (
  intro s t v s' hw h
  rw [tr] at h
  simp only [run_bind_ok] at h
  obtain ⟨⟨lt, lv⟩, s1, h1, ⟨rt, rv⟩, s2, h2, h3⟩ := h
  simp only [wellT, Bool.and_eq_true] at hw
  obtain ⟨svl, hsl, hdl⟩ := ihl _ _ _ _ hw.1 h1
  obtain ⟨svr, hsr, hdr⟩ := ihr _ _ _ _ hw.2 h2))

set_option hygiene false in
/-- discharges the operand-type combinations in which the translator raises -/
macro "bin_throwT" : tactic => `(tactic|
  (simp only [String.reduceEq, imp_self, not_false_eq_true, run_throw_ok] at h3))

theorem soundT_add (ρ : QV.Env) (env : Front.Env) (σ : TEnv) (l r : PExp)
    (ihl : SoundT ρ env σ l) (ihr : SoundT ρ env σ r) : SoundT ρ env σ (.bin "add" l r) := by
  bin_startT
  cases hdl with
  | bool a => cases hdr <;> bin_throwT
  | char a ha => cases hdr <;> bin_throwT
  | tup a sa _ _ => cases hdr <;> bin_throwT
  | int a =>
    cases hdr with
    | bool b => bin_throwT
    | char b hb => bin_throwT
    | tup b sb _ _ => bin_throwT
    | int b =>
      simp only [String.reduceEq, imp_self, run_bind_ok, run_lift_ok, run_pure_ok, bitsOf_ofBits,
        Except.ok.injEq] at h3
      obtain ⟨_, _, ⟨rfl, rfl⟩, _, _, ⟨rfl, rfl⟩, h4, rfl⟩ := h3
      cases h4
      refine ⟨.int (max a.length b.length) ((val ρ a + val ρ b) % 2 ^ max a.length b.length),
        by simp [semT, hsl, hsr, intBin, SVal.toT], ?_⟩
      rw [ite_lt_qint]
      exact DenT.mk_int _ _ _ (qAdd_length a b) (val_qAdd ρ a b)

theorem soundT_sub (ρ : QV.Env) (env : Front.Env) (σ : TEnv) (l r : PExp)
    (ihl : SoundT ρ env σ l) (ihr : SoundT ρ env σ r) : SoundT ρ env σ (.bin "sub" l r) := by
  bin_startT
  cases hdl with
  | bool a => cases hdr <;> bin_throwT
  | char a ha => cases hdr <;> bin_throwT
  | tup a sa _ _ => cases hdr <;> bin_throwT
  | int a =>
    cases hdr with
    | bool b => bin_throwT
    | char b hb => bin_throwT
    | tup b sb _ _ => bin_throwT
    | int b =>
      simp only [String.reduceEq, imp_self, run_bind_ok, run_lift_ok, bitsOf_ofBits,
        Except.ok.injEq] at h3
      obtain ⟨_, _, ⟨rfl, rfl⟩, _, _, ⟨rfl, rfl⟩, h4⟩ := h3
      have h5 : (t, v) = (if a.length < b.length then Ty.qint b.length else Ty.qint a.length,
          Val.ofBits (qSub Quirks.none a.length a b)) := by
        split at h4
        · simp only [run_bind_ok, run_pure_ok] at h4
          obtain ⟨_, _, _, h6, _⟩ := h4
          exact h6
        · simp only [run_pure_ok] at h4
          exact h4.1
      cases h5
      obtain ⟨hv, hl⟩ := qSub_spec ρ a.length a b
      have e : max a.length (max a.length b.length) = max a.length b.length := by omega
      rw [e] at hv hl
      refine ⟨.int (max a.length b.length)
        ((val ρ a + 2 ^ max a.length b.length - val ρ b) % 2 ^ max a.length b.length),
        by simp [semT, hsl, hsr, intBin, SVal.toT], ?_⟩
      rw [ite_lt_qint]
      exact DenT.mk_int _ _ _ hl hv

theorem soundT_mul (ρ : QV.Env) (env : Front.Env) (σ : TEnv) (l r : PExp)
    (ihl : SoundT ρ env σ l) (ihr : SoundT ρ env σ r) : SoundT ρ env σ (.bin "mul" l r) := by
  bin_startT
  cases hdl with
  | bool a => cases hdr <;> bin_throwT
  | char a ha => cases hdr <;> bin_throwT
  | tup a sa _ _ => cases hdr <;> bin_throwT
  | int a =>
    cases hdr with
    | bool b => bin_throwT
    | char b hb => bin_throwT
    | tup b sb _ _ => bin_throwT
    | int b =>
      simp only [String.reduceEq, imp_self, run_bind_ok, run_lift_ok, bitsOf_ofBits,
        Except.ok.injEq] at h3
      obtain ⟨_, _, ⟨rfl, rfl⟩, _, _, ⟨rfl, rfl⟩, ⟨cl, cr⟩, s3, _, h4⟩ := h3
      have h5 : (t, v) = (Ty.qint (qMul Quirks.none cl cr a.length b.length a b).1,
          Val.ofBits (qMul Quirks.none cl cr a.length b.length a b).2) := by
        simp only [run_ite_ok, run_bind_ok, run_pure_ok] at h4
        rcases h4 with ⟨_, (⟨_, _, _, _, h6, _⟩ | ⟨_, h6, _⟩)⟩ | ⟨_, h6, _⟩ <;> exact h6
      cases h5
      obtain ⟨hv, hl, ht⟩ := qMul_spec ρ cl cr a.length b.length a b
      have ht' := ht rfl rfl
      have e : mulSizing (max a.length b.length) (max a.length b.length)
          = mulWidth (max a.length b.length + max a.length b.length) := rfl
      refine ⟨.int (mulWidth (max a.length b.length + max a.length b.length))
        ((val ρ a * val ρ b) % 2 ^ mulWidth (max a.length b.length + max a.length b.length)),
        by simp [semT, hsl, hsr, intBin, SVal.toT], ?_⟩
      rw [← e, ← ht']
      exact DenT.mk_int _ _ _ hl hv

theorem soundT_mod (ρ : QV.Env) (env : Front.Env) (σ : TEnv) (l r : PExp)
    (ihl : SoundT ρ env σ l) (ihr : SoundT ρ env σ r) : SoundT ρ env σ (.bin "mod" l r) := by
  bin_startT
  cases hdl with
  | bool a => cases hdr <;> bin_throwT
  | char a ha => cases hdr <;> bin_throwT
  | tup a sa _ _ => cases hdr <;> bin_throwT
  | int a =>
    cases hdr with
    | bool b => bin_throwT
    | char b hb => bin_throwT
    | tup b sb _ _ => bin_throwT
    | int b =>
      simp only [String.reduceEq, imp_self, run_bind_ok, run_lift_ok, bitsOf_ofBits,
        Except.ok.injEq] at h3
      obtain ⟨_, _, ⟨rfl, rfl⟩, _, _, ⟨rfl, rfl⟩, h4⟩ := h3
      have hq1 : Quirks.none.modNonPow2 = false := rfl
      have hq2 : Quirks.none.modVarDivisor = false := rfl
      simp only [run_ite_ok, run_bind_ok, run_pure_ok, run_throw_ok, hq1, hq2, Bool.not_false,
        false_and, exists_false, and_false, or_false, not_true_eq_false, Bool.not_eq_true',
        Bool.not_eq_false] at h4
      simp only [false_or] at h4
      obtain ⟨hc, hp, h5, _⟩ := h4
      cases h5
      obtain ⟨k, hk⟩ := isPow2_spec _ hp
      have hvb : val ρ b = 2 ^ k := by rw [litVal_eq_val ρ b hc, hk]
      have hpos : 0 < b.length := by
        rcases Nat.eq_zero_or_pos b.length with h0 | h0
        · have := val_lt ρ b
          rw [h0, hvb] at this
          have := Nat.pow_pos (n := k) (by decide : 0 < 2)
          omega
        · exact h0
      obtain ⟨hv, hl⟩ := qMod_spec ρ b.length a b k hpos hvb
      have e : max a.length (max b.length b.length) = max a.length b.length := by omega
      rw [e] at hl
      have hne : val ρ b ≠ 0 := by
        have := Nat.pow_pos (n := k) (by decide : 0 < 2); omega
      refine ⟨.int (max a.length b.length) (val ρ a % val ρ b),
        by simp [semT, hsl, hsr, intBin, hne, SVal.toT], ?_⟩
      rw [ite_gt_qint, hvb]
      exact DenT.mk_int _ _ _ hl hv
/-! ### `& | ^` -/

set_option hygiene false in
macro "bitwise_caseT" f:term:max hop:term:max ev:term:max : tactic => `(tactic| (
  bin_startT
  cases hdl with
  | bool a =>
    cases hdr with
    | bool b =>
      simp only [String.reduceEq, imp_self, run_pure_ok] at h3
      obtain ⟨h4, _⟩ := h3
      cases h4
      exact ⟨.bool ($f (a.eval ρ) (b.eval ρ)), by simp [semT, hsl, hsr, boolBin, SVal.toT],
        DenT.mk_bool _ _ (by simp [BExp.eval, $ev:term])⟩
    | int b => bin_throwT
    | char b hb => bin_throwT
    | tup b sb _ _ => bin_throwT
  | char a ha => cases hdr <;> bin_throwT
  | tup a sa _ _ => cases hdr <;> bin_throwT
  | int a =>
    cases hdr with
    | bool b => bin_throwT
    | char b hb => bin_throwT
    | tup b sb _ _ => bin_throwT
    | int b =>
      simp only [String.reduceEq, imp_self, run_bind_ok, run_lift_ok, run_pure_ok, bitsOf_ofBits,
        Except.ok.injEq] at h3
      obtain ⟨_, _, ⟨rfl, rfl⟩, _, _, ⟨rfl, rfl⟩, h4, rfl⟩ := h3
      cases h4
      refine ⟨.int (max a.length b.length) (natBitwise $f (max a.length b.length) (val ρ a) (val ρ b)),
        by simp [semT, hsl, hsr, intBin, SVal.toT], ?_⟩
      rw [ite_gt_qint]
      exact DenT.mk_int _ _ _ (bitwiseGeneric_length _ a b) (val_bitwiseGeneric ρ _ _ ($hop ρ) a b)))

theorem soundT_xor (ρ : QV.Env) (env : Front.Env) (σ : TEnv) (l r : PExp)
    (ihl : SoundT ρ env σ l) (ihr : SoundT ρ env σ r) : SoundT ρ env σ (.bin "xor" l r) := by
  bitwise_caseT Bool.xor opXor_eval evalXor

theorem soundT_and (ρ : QV.Env) (env : Front.Env) (σ : TEnv) (l r : PExp)
    (ihl : SoundT ρ env σ l) (ihr : SoundT ρ env σ r) : SoundT ρ env σ (.bin "and" l r) := by
  bitwise_caseT (fun x y => x && y) opAnd_eval evalAnd

theorem soundT_or (ρ : QV.Env) (env : Front.Env) (σ : TEnv) (l r : PExp)
    (ihl : SoundT ρ env σ l) (ihr : SoundT ρ env σ r) : SoundT ρ env σ (.bin "or" l r) := by
  bitwise_caseT (fun x y => x || y) opOr_eval evalOr

/-! ### shifts by a literal amount -/

theorem soundT_lshift (ρ : QV.Env) (env : Front.Env) (σ : TEnv) (l r : PExp)
    (ihl : SoundT ρ env σ l) (ihr : SoundT ρ env σ r) : SoundT ρ env σ (.bin "lshift" l r) := by
  bin_startT
  cases hdl with
  | bool a => cases hdr <;> bin_throwT
  | char a ha => cases hdr <;> bin_throwT
  | tup a sa _ _ => cases hdr <;> bin_throwT
  | int a =>
    simp only [String.reduceEq, imp_self] at h3
    cases r with
    | cint k =>
      simp only [run_ite_ok, run_throw_ok, and_false, false_or, run_bind_ok, run_lift_ok, run_pure_ok,
        bitsOf_ofBits, Except.ok.injEq] at h3
      obtain ⟨hk, _, _, ⟨rfl, rfl⟩, h4, rfl⟩ := h3
      cases h4
      refine ⟨.int a.length ((val ρ a * 2 ^ k.toNat) % 2 ^ a.length), by simp [semT, hsl, hk], ?_⟩
      apply DenT.mk_int _ _ _ (by simpa using shiftLeft_length a k.toNat)
      simp only [beq_self_eq_true, if_true]
      rw [val_shiftLeft, Nat.mul_comm]
    | _ => simp only [run_throw_ok] at h3

theorem soundT_rshift (ρ : QV.Env) (env : Front.Env) (σ : TEnv) (l r : PExp)
    (ihl : SoundT ρ env σ l) (ihr : SoundT ρ env σ r) : SoundT ρ env σ (.bin "rshift" l r) := by
  bin_startT
  cases hdl with
  | bool a => cases hdr <;> bin_throwT
  | char a ha => cases hdr <;> bin_throwT
  | tup a sa _ _ => cases hdr <;> bin_throwT
  | int a =>
    simp only [String.reduceEq, imp_self] at h3
    cases r with
    | cint k =>
      simp only [run_ite_ok, run_throw_ok, and_false, false_or, run_bind_ok, run_lift_ok, run_pure_ok,
        bitsOf_ofBits, Except.ok.injEq] at h3
      obtain ⟨hk, _, _, ⟨rfl, rfl⟩, h4, rfl⟩ := h3
      cases h4
      refine ⟨.int a.length (val ρ a / 2 ^ k.toNat), by simp [semT, hsl, hk], ?_⟩
      apply DenT.mk_int _ _ _ (by simpa using shiftRight_length a k.toNat)
      simp only [String.reduceBEq, Bool.false_eq_true, if_false]
      rw [val_shiftRight]
    | _ => simp only [run_throw_ok] at h3



end QV.Sem
