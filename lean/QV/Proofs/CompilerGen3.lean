import QV.Proofs.CompilerGen2
/-!
# Semantic correctness of the compiler model on the general class – part 3: `Not`

Helper lemmas for the compound nodes (a gate on a qubit the caller owns, the destination of a node, marking)
and the `Not` node with its cache lookup, the in-place branch (only on an ancilla this very call computed)
and the copy branch.
-/
namespace QV.Compiler
open QV

variable {Kn : String → Prop} {ρ : Env} {σ0 : FState} {s0 : CState}

/-- one gate whose target the caller owns -/
theorem gateP {cls : GClass} {cs : List Nat} {t : Nat} {u : Unit} {s s' : CState}
    (h : (append cls (cs ++ [t])).run s = .ok (u, s')) (gi : GI Kn ρ σ0 s0 s)
    (hc : cls.isMCXLike = true) (hnop : cls.isNop = false)
    (hcs : ∀ c ∈ cs, ¬ Avail s c) (hp : PrivD Kn s0 s t) :
    GI Kn ρ σ0 s0 s' ∧ Fr Kn σ0 s0 s s' (· = t) NoN (· ∈ cs) ∧ PrivD Kn s0 s' t ∧ TgtL s0 s' t ∧
      Appended cls (cs ++ [t]) s s' ∧ t ∉ cs := by
  obtain ⟨gi', ha, g, hgw, hL⟩ := gate_gi h gi hc hnop hcs hp.av0 hp.nav hp.unread hp.nn
  have gi'' : GI Kn ρ σ0 s0 s' := gi'.close (by rw [ha.expq]; exact hp.nc) (fun _ => TgtL.of_gate hgw hL)
  have fr := gate_fr (Kn := Kn) (σ0 := σ0) ha hc hgw hL
  have hnd : (cs ++ [t]).Nodup := by
    have hm : g ∈ s'.qc.gates.toList := by rw [gi''.gates, hL]; simp
    have := (gi''.good.gates_ok g hm).2.1
    rwa [hgw] at this
  have htcs : t ∉ cs := fun hm => (List.nodup_append.mp hnd).2.2 t hm t (by simp) rfl
  exact ⟨gi'', fr, fr.priv t hp htcs, TgtL.of_gate hgw hL, ha, htcs⟩

/-- the destination of a compound node: the caller's accumulator or an ancilla from the scratch space -/
theorem dest_g {dest : Option Nat} {d : Nat} {s2 s3 : CState}
    (h : (destOr dest).run s2 = .ok (d, s3)) (gi : GI Kn ρ σ0 s0 s2)
    (hd : ∀ d, dest = some d → PrivD Kn s0 s2 d) :
    GI Kn ρ σ0 s0 s3 ∧ Fr Kn σ0 s0 s2 s3 NoN (fun q => dest = none ∧ q = d) NoN ∧ cur σ0 s3 = cur σ0 s2 ∧
      PrivD Kn s0 s3 d ∧ s3.expq = s2.expq ∧ s3.qc.marked = s2.qc.marked ∧
      (dest = some d ∨ (dest = none ∧ Avail s2 d ∧ d ∈ s3.qc.anc ∧ d ∉ s3.qc.kept)) := by
  cases dest with
  | some d0 =>
    obtain ⟨rfl, rfl⟩ := run_pure_ok.mp h
    exact ⟨gi, Fr.refl _, rfl, hd d rfl, rfl, rfl, Or.inl rfl⟩
  | none =>
    obtain ⟨gi3, fr, hc, hav, hpd, hanc, hnk, hmk, hex⟩ := getFreeAncilla_gi h gi
    exact ⟨gi3, fr.mono (fun _ _ hh => hh) (fun _ hh _ _ _ => ⟨rfl, hh⟩) (fun _ _ hh => hh), hc, hpd, hex, hmk,
      Or.inr ⟨rfl, hav, hanc, hnk⟩⟩

theorem markAncilla_gi {H : Nat → Prop} {w : Nat} {u : Unit} {s s' : CState}
    (h : (markAncilla w).run s = .ok (u, s')) (gi : GIh Kn ρ σ0 s0 H s)
    (hw : ¬ Avail s w ∧ (w ∈ s.qc.anc → w ∉ s.qc.kept → ¬ H w → TgtL s0 s w)) :
    GIh Kn ρ σ0 s0 H s' ∧ Fr Kn σ0 s0 s s' NoN NoN (· = w) ∧ cur σ0 s' = cur σ0 s ∧
      (w ∈ s.qc.anc → w ∉ s.qc.kept → w ∈ s'.qc.marked) ∧ s'.qc.anc = s.qc.anc ∧ s'.expq = s.expq ∧
      s'.qc.free = s.qc.free ∧ s'.qc.numQubits = s.qc.numQubits := by
  have h' : (markAll [w]).run s = .ok (u, s') := by
    unfold markAll markAll
    show (markAncilla w >>= fun _ => pure ()).run s = _
    rw [run_bind_ok]
    exact ⟨u, s', h, rfl⟩
  obtain ⟨gi', fr, hc, hm, ha, he, hf, hn⟩ := markAll_gi h' gi (fun m hm => by
    have : m = w := by simpa using hm
    rw [this]; exact hw)
  exact ⟨gi', fr.mono (fun _ _ hh => hh) (fun _ hh _ _ _ => hh) (fun _ _ hh => by simpa using hh), hc,
    fun h1 h2 => hm w (by simp) h1 h2, ha, he, hf, hn⟩

theorem xor_true' (b : Bool) : Bool.xor b true = !b := by cases b <;> rfl

/-! ### `Not` -/

theorem exprG_not {x : BExp} (ih : ExprG Kn ρ σ0 s0 x) : ExprG Kn ρ σ0 s0 (.not x) := by
  intro dest sym a s s' h gi hd _ hsym
  unfold compileExpr at h
  dsimp only at h
  obtain ⟨r0, s1, hget, h1⟩ := run_bind_ok.mp h
  cases r0 with
  | some q =>
    obtain ⟨rfl, hp⟩ := expqGet?_hit hget
    exact cacheHit_g h1 gi hd hp rfl
  | none =>
  obtain ⟨rfl, hmiss⟩ := expqGet?_none hget
  dsimp only at h1
  rcases run_ite_ok.mp h1 with ⟨hc, _⟩ | ⟨_, k0⟩
  · exfalso
    cases x with
    | sym n =>
      cases sym with
      | some sy =>
        have h' := hsym sy rfl
        simp only [selfNot] at h'
        have hc' : (n == sy) = true := hc
        rw [h'] at hc'; cases hc'
      | none => simp at hc
    | _ => simp at hc
  · obtain ⟨shared, s1', hsh, k1⟩ := run_bind_ok.mp k0
    have hshr := (expqGet?_run hsh).2
    have hs1' : s1' = s1 := (expqGet?_run hsh).1
    rw [hs1'] at k1
    obtain ⟨eret, s2, he, h2⟩ := run_bind_ok.mp k1
    obtain ⟨gi2, fr1, hv1, _⟩ := ih none none he gi (by intro d hd0; cases hd0) (fun _ => ⟨rfl, rfl⟩)
      (by intro y hy; cases hy)
    have res := hv1 rfl
    obtain ⟨qc, s3, hq, h3⟩ := run_bind_ok.mp h2
    obtain ⟨rfl, rfl⟩ := getQC_run hq
    split at h3
    · next hcond =>
      -- in place on the ancilla this call computed
      simp only [Bool.and_eq_true, Bool.not_eq_true'] at hcond
      have hdn : dest = none := by
        cases dest with
        | none => rfl
        | some d => simp at hcond
      subst hdn
      have hanc : eret ∈ s3.qc.anc := by simpa using hcond.1.2
      have hnl : isLeaf x = false := by
        cases hl : isLeaf x with
        | false => rfl
        | true => exact absurd hanc (res.leaf hl)
      have hnsh : ∀ p ∈ s1.expq, (p.1 == x) = false := by
        intro p hp
        have hnone : shared = none := by
          cases shared with
          | none => rfl
          | some v => simp at hcond
        rw [hnone] at hshr
        cases hf : s1.expq.find? (·.1 == x) with
        | none =>
          have := List.find?_eq_none.mp hf p hp
          simpa using this
        | some p0 => rw [hf] at hshr; cases hshr
      have hav0 : Avail s1 eret := res.miss hnl hnsh
      obtain ⟨hur, hnm⟩ := res.fresh hav0
      obtain ⟨u1, s4, hev, h4⟩ := run_bind_ok.mp h3
      obtain ⟨u2, s5, hx', h5⟩ := run_bind_ok.mp h4
      obtain ⟨u3, s6, hset, h6⟩ := run_bind_ok.mp h5
      obtain ⟨rfl, rfl⟩ := run_pure_ok.mp h6
      obtain ⟨gi4, fr4, hc4⟩ := event_gi hev gi2
      have hs4 := event_run hev
      have hqc4 : s4.qc = s3.qc := by rw [hs4]
      have hnav4 : ¬ Avail s4 a := fun h' => res.nav (fr4.avail a h')
      have hnn : ∀ n, Kn n → dictGet? s4.qc.qmap n ≠ some a := by
        intro n hk hq'
        rw [hqc4] at hq'
        exact (gi2.names n a hk hq').2.1 hanc
      obtain ⟨gi5, ha5, g, hgw, hL⟩ := gate_gi (cs := []) (t := a) hx' gi4 rfl rfl (fun _ hc => by cases hc)
        (gi.avail a hav0) hnav4 (Unread.congr (by rw [hqc4]) hur) hnn
      have fr5 := gate_fr (Kn := Kn) (σ0 := σ0) ha5 rfl hgw hL
      have hnav5 : ¬ Avail s5 a := fun h' => hnav4 (fr5.avail a h')
      have hval5 : cur σ0 s5 a = (BExp.not x).eval ρ := by
        rw [ha5.cur_eq rfl σ0, hc4, res.val]; simp [BExp.eval]
      obtain ⟨gi6, fr6, hc6, hqc6, hmem6⟩ := expqSet_gi hset gi5 hnav5 hval5 (fun _ _ => TgtL.of_gate hgw hL)
      have tot := ((fr1.trans fr4).trans fr5).trans fr6
      refine ⟨gi6, tot.mono ?_ ?_ ?_ (fun q h => by simpa [hasConst] using h), fun _ => ⟨fun h' => hnav5 (fr6.avail a h'), by rw [hc6]; exact hval5,
        fun _ _ => fr6.tkeep _ (TgtL.of_gate hgw hL), fun _ => ⟨?_, ?_⟩, fun _ _ => hav0, res.np,
        fun hl => (by cases hl)⟩, fun d hd0 => (by cases hd0)⟩
      · rintro q hq' (((hh | hh) | hh) | hh)
        · exact hh
        · exact hh.elim
        · exact absurd (hh ▸ hav0) hq'
        · exact hh.elim
      · rintro q (((hh | hh) | hh) | hh) _ _ _
        · exact hh
        · exact hh.elim
        · exact hh.elim
        · exact hh.elim
      · rintro q hq' (((hh | hh) | hh) | hh)
        · exact hh
        · exact hh
        · simp at hh
        · exact res.np q hq' hh.symm
      · exact Unread.congr (by rw [hqc6]) (Unread.of_gate hgw hL (Unread.congr (by rw [hqc4]) hur) (by simp))
      · rw [hqc6, ha5.marked, hqc4]; exact hnm
    · -- copy (`CX`) into the destination and negate (`X`)
      have hd2 : ∀ d, dest = some d → PrivD Kn s0 s3 d := fun d hd' => fr1.priv d (hd d hd') (fun hh => hh)
      have body : ∀ {d : Nat} {s4 : CState},
          (destOr dest).run s3 = .ok (d, s4) →
          StateT.run (do
            cx eret d
            xGate d
            markAncilla eret
            if dest.isNone = true then do
                expqSet x.not d
                pure d
              else pure d : M Nat) s4 = .ok (a, s') →
          GI Kn ρ σ0 s0 s' ∧
          Fr Kn σ0 s0 s1 s' (fun q => dest = some q) (· = a) NoN (fun _ => hasConst (BExp.not x) = true) ∧
          (dest = none → ResG Kn ρ σ0 s0 s1 s' (BExp.not x) a) ∧
          (∀ d, dest = some d → a = d ∧ cur σ0 s' d = Bool.xor (cur σ0 s1 d) ((BExp.not x).eval ρ) ∧
            TgtL s0 s' d) := by
        intro d s4 hdest hrun
        obtain ⟨gi4, frd, hcd, hpd4, hex4, hmk4, dcase⟩ := dest_g hdest gi2 hd2
        have hned : eret ≠ d := by
          rcases dcase with hsome | ⟨_, hava, _, _⟩
          · exact res.np d (hd d hsome)
          · exact fun e' => res.nav (e' ▸ hava)
        have hnave4 : ¬ Avail s4 eret := fun h' => res.nav (frd.avail _ h')
        obtain ⟨u1, t1, hcx, k1⟩ := run_bind_ok.mp hrun
        obtain ⟨u2, t2, hx', k2⟩ := run_bind_ok.mp k1
        obtain ⟨u3, t3, hmk, k3⟩ := run_bind_ok.mp k2
        obtain ⟨git1, frt1, hpt1, tg1, at1, _⟩ := gateP (cs := [eret]) (t := d) hcx gi4 rfl rfl
          (by intro c hc; have : c = eret := by simpa using hc
              rw [this]; exact hnave4) hpd4
        obtain ⟨git2, frt2, hpt2, tg2, at2, _⟩ := gateP (cs := []) (t := d) hx' git1 rfl rfl
          (fun _ hc => by cases hc) hpt1
        have frA := (frd.trans frt1).trans frt2
        have hnave2 : ¬ Avail t2 eret := fun h' => res.nav (frA.avail _ h')
        have htge : eret ∈ t2.qc.anc → eret ∉ t2.qc.kept → TgtL s0 t2 eret := by
          intro h1' h2'
          refine frA.tkeep _ (res.tgt ?_ (by rw [← frA.kkeep]; exact h2'))
          rcases frA.anew _ h1' with h'' | h''
          · exact h''
          · exact absurd h'' res.nav
        obtain ⟨git3, frt3, hc3, hmk3, hanc3, hex3, hf3, hn3⟩ := markAncilla_gi hmk git2 ⟨hnave2, fun h1 h2 _ => htge h1 h2⟩
        have hpt3 : PrivD Kn s0 t3 d := frt3.priv d hpt2 (fun e' => hned e'.symm)
        have frB := frA.trans frt3
        -- values
        have hv2 : cur σ0 t2 d = !(Bool.xor (cur σ0 s3 d) (x.eval ρ)) := by
          rw [at2.cur_eq rfl σ0, at1.cur_eq rfl σ0, hcd, ← res.val]; simp
        have hv3 : cur σ0 t3 d = !(Bool.xor (cur σ0 s3 d) (x.eval ρ)) := by rw [hc3, hv2]
        have tgd3 : TgtL s0 t3 d := frt3.tkeep _ tg2
        have hmarked : ∀ {sf : CState}, (∀ m ∈ t3.qc.marked, m ∈ sf.qc.marked) → sf.qc.anc = t3.qc.anc →
            sf.qc.kept = t3.qc.kept → eret ∈ sf.qc.anc → eret ∉ sf.qc.kept → eret ∈ sf.qc.marked := by
          intro sf hmm ha hk h1' h2'
          exact hmm _ (hmk3 (by rw [← hanc3, ← ha]; exact h1') (by rw [← frt3.kkeep, ← hk]; exact h2'))
        rcases dcase with hsome | ⟨hnone, hava, hanca, hnk⟩
        · subst hsome
          simp only [Option.isNone_some, Bool.false_eq_true, ↓reduceIte] at k3
          obtain ⟨e1, e2⟩ := run_pure_ok.mp k3
          subst e2; subst e1
          refine ⟨git3, (fr1.trans frB).mono ?_ ?_ ?_ (fun q h => by simpa [hasConst] using h), fun hn => (by cases hn), fun d' hd' => ?_⟩
          · rintro q _ (hh | (((hh | hh) | hh) | hh))
            · cases hh
            · exact hh.elim
            · rw [hh]
            · rw [hh]
            · exact hh.elim
          · rintro q (hh | (((hh | hh) | hh) | hh)) h1' h2' h3'
            · exact absurd (hmarked (fun _ hm => hm) rfl rfl (hh ▸ h1') (hh ▸ h2')) (hh ▸ h3')
            · cases hh.1
            · exact hh.elim
            · exact hh.elim
            · exact hh.elim
          · rintro q hq' (hh | (((hh | hh) | hh) | hh))
            · exact hh
            · exact hh
            · have : q = eret := by simpa using hh
              exact res.np q hq' this.symm
            · simp at hh
            · exact res.np q hq' hh.symm
          · cases hd'
            refine ⟨rfl, ?_, tgd3⟩
            rw [hv3, fr1.val a (hd a rfl).nav (fun hh => by cases hh), bnot_xor]
            simp [BExp.eval]
        · subst hnone
          simp only [Option.isNone_none, ↓reduceIte] at k3
          obtain ⟨u4, t4, hset, k4⟩ := run_bind_ok.mp k3
          obtain ⟨e1, e2⟩ := run_pure_ok.mp k4
          subst e2; subst e1
          have hz : cur σ0 s3 a = false := gi2.zero a hava
          have hval3 : cur σ0 t3 a = (BExp.not x).eval ρ := by rw [hv3, hz]; simp [BExp.eval]
          obtain ⟨gi5, fr5, hc5, hqc5, _⟩ := expqSet_gi hset (git3.monoH (fun _ hh => hh.elim)) hpt3.nav hval3
            (fun _ _ => tgd3)
          have hav1 : Avail s1 a := fr1.avail a hava
          refine ⟨gi5, ((fr1.trans frB).trans fr5).mono ?_ ?_ ?_ (fun q h => by simpa [hasConst] using h), fun _ => ⟨fun h' => hpt3.nav (fr5.avail a h'),
            by rw [hc5]; exact hval3, fun _ _ => fr5.tkeep _ tgd3,
            fun _ => ⟨Unread.congr (by rw [hqc5]) hpt3.unread, by rw [hqc5]; exact hpt3.nm⟩, fun _ _ => hav1,
            fun q hq' e' => hq'.nav (e' ▸ hav1), fun hl => (by cases hl)⟩, fun d' hd' => (by cases hd')⟩
          · rintro q hq' ((hh | (((hh | hh) | hh) | hh)) | hh)
            · exact hh
            · exact hh.elim
            · exact absurd (hh ▸ hav1) hq'
            · exact absurd (hh ▸ hav1) hq'
            · exact hh.elim
            · exact hh.elim
          · rintro q ((hh | (((hh | hh) | hh) | hh)) | hh) h1' h2' h3'
            · exact absurd (hmarked (sf := s') (fun m hm => by rw [hqc5]; exact hm) (by rw [hqc5]) (by rw [hqc5])
                (hh ▸ h1') (hh ▸ h2')) (hh ▸ h3')
            · exact hh.2
            · exact hh.elim
            · exact hh.elim
            · exact hh.elim
            · exact hh.elim
          · rintro q hq' ((hh | (((hh | hh) | hh) | hh)) | hh)
            · exact hh
            · exact hh
            · have : q = eret := by simpa using hh
              exact res.np q hq' this.symm
            · simp at hh
            · exact res.np q hq' hh.symm
            · exact hq'.nav (hh ▸ hav1)
      cases dest with
      | some d0 =>
        dsimp only at h3
        obtain ⟨d, s4, hp0, h4⟩ := run_bind_ok.mp h3
        exact body hp0 h4
      | none =>
        dsimp only at h3
        obtain ⟨d, s4, hf, h4⟩ := run_bind_ok.mp h3
        exact body hf h4

end QV.Compiler
