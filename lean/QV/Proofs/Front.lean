import QV.Model.Sem
import QV.Proofs.Mul
/-! Soundness of the expression translator `QV.Front.tr` (model of `translate_expression`) with respect
to the reference semantics `QV.Sem.semW`, on the bool / Qint fragment.  One lemma per syntactic form;
`QV/Props/C01.lean` assembles them by structural induction. -/
namespace QV.Sem
open QV QV.Arith QV.Front

/-! ### the monad `M = StateT St (Except String)` -/

theorem bind_ok {ε α β} (x : Except ε α) (f : α → Except ε β) (r : β) :
    (x >>= f) = .ok r ↔ ∃ a, x = .ok a ∧ f a = .ok r := by
  cases x <;> simp [bind, Except.bind]

theorem run_bind_ok {α β} (x : M α) (f : α → M β) (s : St) (r : β × St) :
    (x >>= f).run s = .ok r ↔ ∃ a s1, x.run s = .ok (a, s1) ∧ (f a).run s1 = .ok r := by
  rw [StateT.run_bind, bind_ok]
  constructor
  · rintro ⟨⟨a, s1⟩, h1, h2⟩; exact ⟨a, s1, h1, h2⟩
  · rintro ⟨a, s1, h1, h2⟩; exact ⟨(a, s1), h1, h2⟩

theorem run_pure_ok {α} (a : α) (s : St) (b : α) (s1 : St) :
    (pure a : M α).run s = .ok (b, s1) ↔ b = a ∧ s1 = s := by
  simp [pure, StateT.pure, StateT.run, Except.pure, eq_comm]

theorem run_throw_ok {α} (e : String) (s : St) (r : α × St) :
    ((throw e : M α).run s = .ok r) ↔ False := by
  simp [throw, throwThe, MonadExceptOf.throw, StateT.run, StateT.lift, bind, Except.bind]

theorem run_lift_ok {α} (x : Except String α) (s : St) (a : α) (s1 : St) :
    ((liftM x : M α).run s = .ok (a, s1)) ↔ x = .ok a ∧ s1 = s := by
  cases x <;> simp [liftM, monadLift, MonadLift.monadLift, StateT.lift, StateT.run, bind, Except.bind,
    pure, Except.pure, eq_comm]

/-! ### values and what they denote -/

/-- the translated value `v` of type `t` denotes `sv` under the assignment `ρ` of the argument bits -/
inductive Den (ρ : QV.Env) : Ty → Val → SVal → Prop
  | bool (a : BExp) : Den ρ .bool (.atom a) (.bool (a.eval ρ))
  | int (bits : List BExp) : Den ρ (.qint bits.length) (Val.ofBits bits) (.int bits.length (val ρ bits))

theorem Den.mk_int {ρ : QV.Env} (bits : List BExp) (w x : Nat) (hl : bits.length = w) (hv : val ρ bits = x) :
    Den ρ (.qint w) (Val.ofBits bits) (.int w x) := by
  subst hl; subst hv; exact Den.int bits

theorem Den.mk_bool {ρ : QV.Env} (a : BExp) (b : Bool) (h : a.eval ρ = b) :
    Den ρ .bool (.atom a) (.bool b) := by
  subst h; exact Den.bool a

theorem bits?_ofBits (l : List BExp) : (Val.ofBits l).bits? = some l := by
  unfold Val.ofBits Val.bits?
  induction l with
  | nil => rfl
  | cons a as ih => simp [List.mapM_cons, ih]

theorem bitsOf_ofBits (l : List BExp) : bitsOf (Val.ofBits l) = .ok l := by
  simp [bitsOf, bits?_ofBits, pure, Except.pure]

theorem atomOf_atom (a : BExp) : atomOf (.atom a) = .ok a := rfl

theorem atomOf_ofBits (l : List BExp) (a : BExp) : atomOf (Val.ofBits l) = .ok a ↔ False := by
  simp [atomOf, Val.ofBits, throw, throwThe, MonadExceptOf.throw]

theorem bitsOf_atom (a : BExp) (l : List BExp) : bitsOf (.atom a) = .ok l ↔ False := by
  simp [bitsOf, Val.bits?, throw, throwThe, MonadExceptOf.throw]

/-- the statement proved for each expression: if the translator succeeds, `semW` is defined and the
translated value denotes it -/
def Sound (ρ : QV.Env) (env : Front.Env) (σ : SEnv) (e : PExp) : Prop :=
  ∀ (s : St) (t : Ty) (v : Val) (s' : St),
    (tr Quirks.none env e).run s = .ok ((t, v), s') → ∃ sv, semW σ e = some sv ∧ Den ρ t v sv

theorem sound_cbool (ρ : QV.Env) (env : Front.Env) (σ : SEnv) (b : Bool) : Sound ρ env σ (.cbool b) := by
  intro s t v s' h
  rw [tr, run_pure_ok] at h
  obtain ⟨h, rfl⟩ := h
  cases h
  refine ⟨.bool b, by simp [semW], ?_⟩
  apply Den.mk_bool
  cases b <;> rfl

theorem candidates_eq : Gen.constQintCandidates.map (·.2) = constWidths := by decide

theorem sound_cint (ρ : QV.Env) (env : Front.Env) (σ : SEnv) (c : Int) : Sound ρ env σ (.cint c) := by
  intro s t v s' h
  rw [tr] at h
  simp only [run_bind_ok, run_lift_ok, run_pure_ok] at h
  obtain ⟨⟨t1, bits⟩, s1, ⟨h1, rfl⟩, h3, rfl⟩ := h
  cases h3
  unfold constToQtype at h1
  rw [candidates_eq] at h1
  rw [semW, constWidth]
  split at h1
  · rename_i w hw
    simp only [pure, Except.pure, Except.ok.injEq, Prod.mk.injEq] at h1
    obtain ⟨rfl, rfl⟩ := h1
    rw [hw]
    have hmem := List.mem_of_find?_eq_some hw
    have hpos : 0 < w := by
      simp only [constWidths, List.mem_cons, List.mem_nil_iff, or_false] at hmem
      omega
    refine ⟨_, rfl, ?_⟩
    obtain ⟨h4, h5⟩ := qintConst_spec ρ w (c % (2 : Int) ^ w).toNat hpos
    apply Den.mk_int _ _ _ h5
    rw [h4]
    apply Nat.mod_eq_of_lt
    have hp : (0 : Int) < 2 ^ w := Int.pow_pos (by decide)
    have h0 : 0 ≤ c % (2 : Int) ^ w := Int.emod_nonneg _ (by omega)
    have h1 : c % (2 : Int) ^ w < 2 ^ w := Int.emod_lt_of_pos _ hp
    rw [Int.toNat_lt h0]
    simpa using h1
  · simp [throw, throwThe, MonadExceptOf.throw] at h1

theorem bne_bool_bool : (Ty.bool != Ty.bool) = false := rfl
theorem bne_qint_bool (w : Nat) : (Ty.qint w != Ty.bool) = true := rfl
theorem beq_qint_bool (w : Nat) : (Ty.qint w == Ty.bool) = false := rfl
theorem beq_bool_bool : (Ty.bool == Ty.bool) = true := rfl
theorem bne_bool_qint (w : Nat) : (Ty.bool != Ty.qint w) = true := rfl
theorem bne_qint_qint (a b : Nat) : (Ty.qint a != Ty.qint b) = !(a == b) := rfl

theorem sound_not (ρ : QV.Env) (env : Front.Env) (σ : SEnv) (e : PExp) (ih : Sound ρ env σ e) :
    Sound ρ env σ (.not e) := by
  intro s t v s' h
  rw [tr] at h
  simp only [run_bind_ok] at h
  obtain ⟨⟨t1, v1⟩, s1, h1, h2⟩ := h
  obtain ⟨sv, hs, hd⟩ := ih _ _ _ _ h1
  cases hd with
  | bool a =>
    simp only [bne_bool_bool, Bool.false_eq_true, if_false, run_bind_ok, run_lift_ok, run_pure_ok,
      atomOf_atom, Except.ok.injEq] at h2
    obtain ⟨_, _, ⟨rfl, rfl⟩, h4, rfl⟩ := h2
    cases h4
    exact ⟨.bool (!(a.eval ρ)), by rw [semW, hs], Den.mk_bool _ _ (by simp [BExp.eval])⟩
  | int bits =>
    simp only [bne_qint_bool, if_true, run_bind_ok, run_throw_ok, false_and, exists_false] at h2

theorem sound_inv (ρ : QV.Env) (env : Front.Env) (σ : SEnv) (e : PExp) (ih : Sound ρ env σ e) :
    Sound ρ env σ (.inv e) := by
  intro s t v s' h
  rw [tr] at h
  simp only [run_bind_ok] at h
  obtain ⟨⟨t1, v1⟩, s1, h1, h2⟩ := h
  obtain ⟨sv, hs, hd⟩ := ih _ _ _ _ h1
  cases hd with
  | bool a =>
    simp only [Ty.size?, run_throw_ok] at h2
  | int bits =>
    simp only [Ty.size?, run_bind_ok, run_lift_ok, run_pure_ok, bitsOf_ofBits, Except.ok.injEq] at h2
    obtain ⟨_, _, ⟨rfl, rfl⟩, h4, rfl⟩ := h2
    cases h4
    refine ⟨.int bits.length (2 ^ bits.length - 1 - val ρ bits), by rw [semW, hs], ?_⟩
    apply Den.mk_int _ _ _ (bitwiseNot_length bits)
    have := val_bitwiseNot ρ bits
    omega

/-! ### binary operators -/

set_option linter.unusedSimpArgs false

set_option hygiene false in
/-- common prefix of the `BinOp` cases: both operands translated, both denote -/
macro "bin_start" : tactic => `(tactic| (
  intro s t v s' h
  rw [tr] at h
  simp only [run_bind_ok] at h
  obtain ⟨⟨lt, lv⟩, s1, h1, ⟨rt, rv⟩, s2, h2, h3⟩ := h
  obtain ⟨svl, hsl, hdl⟩ := ihl _ _ _ _ h1
  obtain ⟨svr, hsr, hdr⟩ := ihr _ _ _ _ h2))

set_option hygiene false in
/-- discharges the operand-type combinations in which the translator raises -/
macro "bin_throw" : tactic => `(tactic|
  (simp only [String.reduceEq, imp_self, not_false_eq_true, run_throw_ok] at h3))

theorem ite_lt_qint (a b : Nat) : (if a < b then Ty.qint b else Ty.qint a) = Ty.qint (max a b) := by
  split <;> congr 1 <;> omega
theorem ite_gt_qint (a b : Nat) : (if a > b then Ty.qint a else Ty.qint b) = Ty.qint (max a b) := by
  split <;> congr 1 <;> omega

theorem sound_add (ρ : QV.Env) (env : Front.Env) (σ : SEnv) (l r : PExp)
    (ihl : Sound ρ env σ l) (ihr : Sound ρ env σ r) : Sound ρ env σ (.bin "add" l r) := by
  bin_start
  cases hdl with
  | bool a => cases hdr <;> bin_throw
  | int a =>
    cases hdr with
    | bool b => bin_throw
    | int b =>
      simp only [String.reduceEq, imp_self, run_bind_ok, run_lift_ok, run_pure_ok, bitsOf_ofBits,
        Except.ok.injEq] at h3
      obtain ⟨_, _, ⟨rfl, rfl⟩, _, _, ⟨rfl, rfl⟩, h4, rfl⟩ := h3
      cases h4
      refine ⟨.int (max a.length b.length) ((val ρ a + val ρ b) % 2 ^ max a.length b.length),
        by simp [semW, hsl, hsr, intBin], ?_⟩
      rw [ite_lt_qint]
      exact Den.mk_int _ _ _ (qAdd_length a b) (val_qAdd ρ a b)

theorem run_event_ok (e : String) (s : St) (u : Unit) (s1 : St) :
    (event e).run s = .ok (u, s1) ↔ s1 = { s with events := s.events ++ [e] } := by
  simp [event, modify, modifyGet, MonadStateOf.modifyGet, StateT.modifyGet, StateT.run, pure, Except.pure,
    eq_comm]

theorem sound_sub (ρ : QV.Env) (env : Front.Env) (σ : SEnv) (l r : PExp)
    (ihl : Sound ρ env σ l) (ihr : Sound ρ env σ r) : Sound ρ env σ (.bin "sub" l r) := by
  bin_start
  cases hdl with
  | bool a => cases hdr <;> bin_throw
  | int a =>
    cases hdr with
    | bool b => bin_throw
    | int b =>
      simp only [String.reduceEq, imp_self, run_bind_ok, run_lift_ok, bitsOf_ofBits,
        Except.ok.injEq] at h3
      obtain ⟨_, _, ⟨rfl, rfl⟩, _, _, ⟨rfl, rfl⟩, h4⟩ := h3
      have h5 : (t, v) = (if a.length < b.length then Ty.qint b.length else Ty.qint a.length,
          Val.ofBits (qSub Quirks.none a.length a b)) := by
        split at h4
        · simp only [run_bind_ok, run_pure_ok] at h4
          obtain ⟨_, _, _, h6, _⟩ := h4
          exact h6
        · simp only [run_pure_ok] at h4
          exact h4.1
      cases h5
      obtain ⟨hv, hl⟩ := qSub_spec ρ a.length a b
      have e : max a.length (max a.length b.length) = max a.length b.length := by omega
      rw [e] at hv hl
      refine ⟨.int (max a.length b.length)
        ((val ρ a + 2 ^ max a.length b.length - val ρ b) % 2 ^ max a.length b.length),
        by simp [semW, hsl, hsr, intBin], ?_⟩
      rw [ite_lt_qint]
      exact Den.mk_int _ _ _ hl hv

theorem run_ite_ok {α} (c : Prop) [Decidable c] (x y : M α) (s : St) (r : α × St) :
    (if c then x else y).run s = .ok r ↔ (c ∧ x.run s = .ok r) ∨ (¬c ∧ y.run s = .ok r) := by
  split <;> simp [*]

theorem sound_mul (ρ : QV.Env) (env : Front.Env) (σ : SEnv) (l r : PExp)
    (ihl : Sound ρ env σ l) (ihr : Sound ρ env σ r) : Sound ρ env σ (.bin "mul" l r) := by
  bin_start
  cases hdl with
  | bool a => cases hdr <;> bin_throw
  | int a =>
    cases hdr with
    | bool b => bin_throw
    | int b =>
      simp only [String.reduceEq, imp_self, run_bind_ok, run_lift_ok, bitsOf_ofBits,
        Except.ok.injEq] at h3
      obtain ⟨_, _, ⟨rfl, rfl⟩, _, _, ⟨rfl, rfl⟩, ⟨cl, cr⟩, s3, _, h4⟩ := h3
      have h5 : (t, v) = (Ty.qint (qMul Quirks.none cl cr a.length b.length a b).1,
          Val.ofBits (qMul Quirks.none cl cr a.length b.length a b).2) := by
        simp only [run_ite_ok, run_bind_ok, run_pure_ok] at h4
        rcases h4 with ⟨_, (⟨_, _, _, _, h6, _⟩ | ⟨_, h6, _⟩)⟩ | ⟨_, h6, _⟩ <;> exact h6
      cases h5
      obtain ⟨hv, hl, ht⟩ := qMul_spec ρ cl cr a.length b.length a b
      have ht' := ht rfl rfl
      have e : mulSizing (max a.length b.length) (max a.length b.length)
          = mulWidth (max a.length b.length + max a.length b.length) := rfl
      refine ⟨.int (mulWidth (max a.length b.length + max a.length b.length))
        ((val ρ a * val ρ b) % 2 ^ mulWidth (max a.length b.length + max a.length b.length)),
        by simp [semW, hsl, hsr, intBin], ?_⟩
      rw [← e, ← ht']
      exact Den.mk_int _ _ _ hl hv

theorem litVal_eq_val (ρ : QV.Env) (l : List BExp) (h : isConstBits l = true) : val ρ l = litVal l := by
  induction l with
  | nil => rfl
  | cons a as ih =>
    simp only [isConstBits, List.all_cons, Bool.and_eq_true] at h
    have ih' := ih (by simpa [isConstBits] using h.2)
    rw [val_cons, litVal, ih']
    cases a <;> simp_all [isLit, BExp.eval, bitN]

theorem isPow2_spec (n : Nat) (h : isPow2 n = true) : ∃ k, n = 2 ^ k := by
  simp only [isPow2, List.any_eq_true, beq_iff_eq] at h
  obtain ⟨k, _, hk⟩ := h
  exact ⟨k, hk⟩

theorem sound_mod (ρ : QV.Env) (env : Front.Env) (σ : SEnv) (l r : PExp)
    (ihl : Sound ρ env σ l) (ihr : Sound ρ env σ r) : Sound ρ env σ (.bin "mod" l r) := by
  bin_start
  cases hdl with
  | bool a => cases hdr <;> bin_throw
  | int a =>
    cases hdr with
    | bool b => bin_throw
    | int b =>
      simp only [String.reduceEq, imp_self, run_bind_ok, run_lift_ok, bitsOf_ofBits,
        Except.ok.injEq] at h3
      obtain ⟨_, _, ⟨rfl, rfl⟩, _, _, ⟨rfl, rfl⟩, h4⟩ := h3
      have hq1 : Quirks.none.modNonPow2 = false := rfl
      have hq2 : Quirks.none.modVarDivisor = false := rfl
      simp only [run_ite_ok, run_bind_ok, run_pure_ok, run_throw_ok, hq1, hq2, Bool.not_false,
        false_and, exists_false, and_false, or_false, not_true_eq_false, Bool.not_eq_true',
        Bool.not_eq_false] at h4
      simp only [false_or] at h4
      obtain ⟨hc, hp, h5, _⟩ := h4
      cases h5
      obtain ⟨k, hk⟩ := isPow2_spec _ hp
      have hvb : val ρ b = 2 ^ k := by rw [litVal_eq_val ρ b hc, hk]
      have hpos : 0 < b.length := by
        rcases Nat.eq_zero_or_pos b.length with h0 | h0
        · have := val_lt ρ b
          rw [h0, hvb] at this
          have := Nat.pow_pos (n := k) (by decide : 0 < 2)
          omega
        · exact h0
      obtain ⟨hv, hl⟩ := qMod_spec ρ b.length a b k hpos hvb
      have e : max a.length (max b.length b.length) = max a.length b.length := by omega
      rw [e] at hl
      have hne : val ρ b ≠ 0 := by
        have := Nat.pow_pos (n := k) (by decide : 0 < 2); omega
      refine ⟨.int (max a.length b.length) (val ρ a % val ρ b),
        by simp [semW, hsl, hsr, intBin, hne], ?_⟩
      rw [ite_gt_qint, hvb]
      exact Den.mk_int _ _ _ hl hv
