import QV.Model.SemSrc
import QV.Proofs.Front11
/-! `ast2ast` preserves the source-level meaning, part 1: if-expressions on values (`selW`, `wrapW` and their
closed form), congruence of `semW` in the variables an expression mentions, the guard wrappers on the
syntax of `QV.Model.Front` and their meaning. -/
namespace QV.A2A
open QV QV.Front QV.Sem

set_option linter.unusedSimpArgs false
set_option linter.unusedVariables false

/-! ### `semW` of an if-expression -/

theorem semW_ite (σ : SEnv) (c a b : PExp) :
    semW σ (.ite c a b) = match semW σ c, semW σ a, semW σ b with
      | some g, some x, some y => selW g x y
      | _, _, _ => none := by
  simp only [semW]
  cases h1 : semW σ c with
  | none => rfl
  | some g =>
    cases h2 : semW σ a with
    | none => cases g <;> rfl
    | some x =>
      cases h3 : semW σ b with
      | none => cases g <;> cases x <;> rfl
      | some y => cases g <;> cases x <;> cases y <;> rfl

theorem semW_name (σ : SEnv) (n : String) : semW σ (.name n) = σ n := by simp only [semW]

/-! ### congruence in all the variables an expression does not mention -/

mutual
theorem semW_congr' (σ σ' : SEnv) :
    ∀ e : PExp, (∀ n, mentions n e = true → σ n = σ' n) → semW σ e = semW σ' e
  | .name n, h => by
    simp only [semW]
    exact h n (by simp [mentions])
  | .subs n p, h => by
    simp only [semW, h n (by simp [mentions])]
  | .cbool _, _ => by simp only [semW]
  | .cint _, _ => by simp only [semW]
  | .cchar _, _ => by simp only [semW]
  | .unsupported _, _ => by simp only [semW]
  | .tuple _, _ => by simp only [semW]
  | .not e, h => by
    simp only [semW, semW_congr' σ σ' e (fun n hn => h n (by simpa [mentions] using hn))]
  | .inv e, h => by
    simp only [semW, semW_congr' σ σ' e (fun n hn => h n (by simpa [mentions] using hn))]
  | .boolop _ vs, h => by
    simp only [semW, semWList_congr' σ σ' vs (fun n hn => h n (by simpa [mentions] using hn))]
  | .ite c a b, h => by
    simp only [semW, semW_congr' σ σ' c (fun n hn => h n (by simp [mentions, hn])),
      semW_congr' σ σ' a (fun n hn => h n (by simp [mentions, hn])),
      semW_congr' σ σ' b (fun n hn => h n (by simp [mentions, hn]))]
  | .cmp _ l r, h => by
    simp only [semW, semW_congr' σ σ' l (fun n hn => h n (by simp [mentions, hn])),
      semW_congr' σ σ' r (fun n hn => h n (by simp [mentions, hn]))]
  | .bin _ l r, h => by
    simp only [semW, semW_congr' σ σ' l (fun n hn => h n (by simp [mentions, hn])),
      semW_congr' σ σ' r (fun n hn => h n (by simp [mentions, hn]))]
theorem semWList_congr' (σ σ' : SEnv) :
    ∀ es : List PExp, (∀ n, mentionsList n es = true → σ n = σ' n) → semWList σ es = semWList σ' es
  | [], _ => by simp only [semWList]
  | e :: es, h => by
    simp only [semWList, semW_congr' σ σ' e (fun n hn => h n (by simp [mentionsList, hn])),
      semWList_congr' σ σ' es (fun n hn => h n (by simp [mentionsList, hn]))]
end

/-! ### the closed form of `wrapW` -/

/-- every guard is a bool -/
def allBool : List (SVal × Bool) → Bool
  | [] => true
  | (.bool _, _) :: gs => allBool gs
  | (.int _ _, _) :: _ => false

/-- every guard has its polarity: this is the branch that runs -/
def allHold : List (SVal × Bool) → Bool
  | [] => true
  | (.bool b, w) :: gs => (b == w) && allHold gs
  | (.int _ _, _) :: gs => allHold gs

/-- the new value (`h`) or the old one, at the joined type -/
def joinV (h : Bool) : SVal → SVal → Option SVal
  | .bool a, .bool b => some (.bool (if h then a else b))
  | .int a x, .int b y => some (.int (max a b) (if h then x else y))
  | _, _ => none

theorem selW_joinV_true (c h : Bool) (v o x : SVal) (hx : joinV h v o = some x) :
    selW (.bool c) x o = joinV (c && h) v o := by
  cases v <;> cases o <;> simp [joinV] at hx <;> subst hx
  · cases c <;> cases h <;> simp [selW, joinV]
  · cases c <;> cases h <;> simp [selW, joinV, Nat.max_assoc]

theorem selW_joinV_false (c h : Bool) (v o x : SVal) (hx : joinV h v o = some x) :
    selW (.bool c) o x = joinV (!c && h) v o := by
  cases v <;> cases o <;> simp [joinV] at hx <;> subst hx
  · cases c <;> cases h <;> simp [selW, joinV]
  · rename_i a xa b xb
    have : max b (max a b) = max a b := by omega
    cases c <;> cases h <;> simp [selW, joinV, this]

theorem joinV_none_sel (h : Bool) (v o : SVal) (hx : joinV h v o = none) (g : SVal) (w : Bool) :
    ∀ h', joinV h' v o = none := by
  intro h'
  cases v <;> cases o <;> simp [joinV] at hx ⊢

theorem wrapW_closed : ∀ (gs : List (SVal × Bool)), gs ≠ [] → ∀ (v o : SVal),
    wrapW gs v o = if allBool gs then joinV (allHold gs) v o else none
  | [], h, _, _ => absurd rfl h
  | [(g, w)], _, v, o => by
    cases g with
    | int a x => cases w <;> simp [wrapW, allBool, selW]
    | bool c =>
      cases w
      · simp only [wrapW, allBool, allHold, if_true]
        cases v <;> cases o <;> cases c <;> simp [selW, joinV, Nat.max_comm]
      · simp only [wrapW, allBool, allHold, if_true]
        cases v <;> cases o <;> cases c <;> simp [selW, joinV]
  | (g, w) :: p :: gs, _, v, o => by
    have ih := wrapW_closed (p :: gs) (by simp) v o
    cases g with
    | int a x =>
      cases w <;> simp only [wrapW, allBool, Bool.false_eq_true, if_false] <;>
        cases wrapW (p :: gs) v o <;> simp [selW]
    | bool c =>
      cases w
      · simp only [wrapW, ih]
        by_cases hb : allBool (p :: gs) = true
        · simp only [hb, if_true, allBool, allHold]
          cases hj : joinV (allHold (p :: gs)) v o with
          | none =>
            simp only
            rw [joinV_none_sel _ v o hj (.bool c) false]
          | some x =>
            simp only
            rw [selW_joinV_false c _ v o x hj]
            cases c <;> simp
        · simp [hb, allBool]
      · simp only [wrapW, ih]
        by_cases hb : allBool (p :: gs) = true
        · simp only [hb, if_true, allBool, allHold]
          cases hj : joinV (allHold (p :: gs)) v o with
          | none =>
            simp only
            rw [joinV_none_sel _ v o hj (.bool c) true]
          | some x =>
            simp only
            rw [selW_joinV_true c _ v o x hj]
            cases c <;> simp
        · simp [hb, allBool]

theorem joinV_idem (h : Bool) (v o x : SVal) (hx : joinV h v o = some x) : joinV h x o = some x := by
  cases v <;> cases o <;> simp [joinV] at hx <;> subst hx
  · cases h <;> simp [joinV]
  · rename_i a xa b xb
    have : max (max a b) b = max a b := by omega
    cases h <;> simp [joinV, this]

/-- wrapping twice is wrapping once (what the `__x` temporary of a self-reading assignment relies on) -/
theorem wrapW_idem (gs : List (SVal × Bool)) (v o x : SVal) (hx : wrapW gs v o = some x) :
    wrapW gs x o = some x := by
  cases gs with
  | nil => rfl
  | cons p gs =>
    rw [wrapW_closed (p :: gs) (by simp)] at hx ⊢
    split at hx
    · rename_i hb
      simp only [hb, if_true]
      exact joinV_idem _ v o x hx
    · cases hx

end QV.A2A
