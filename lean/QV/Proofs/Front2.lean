import QV.Proofs.Front
/-! Soundness of `QV.Front.tr` w.r.t. `QV.Sem.semW`, continued: bitwise operators, shifts, comparisons,
if-expressions, `and` / `or`. -/
namespace QV.Sem
open QV QV.Arith QV.Front

set_option linter.unusedSimpArgs false

/-! ### `& | ^` -/

theorem evalBits_eq_toBitsLE (ρ : QV.Env) (l : List BExp) (w : Nat) (h : l.length = w) :
    evalBits ρ l = toBitsLE w (val ρ l) := by
  have := toBitsLE_valLE (evalBits ρ l)
  rw [evalBits_length, h] at this
  exact this.symm

theorem val_bitwiseGeneric (ρ : QV.Env) (op : BExp → BExp → BExp) (f : Bool → Bool → Bool)
    (hop : ∀ a b, (op a b).eval ρ = f (a.eval ρ) (b.eval ρ)) (l r : List BExp) :
    val ρ (bitwiseGeneric op l r) = natBitwise f (max l.length r.length) (val ρ l) (val ρ r) := by
  unfold bitwiseGeneric natBitwise
  have e : evalBits ρ (List.zipWith op (widenL l r) (widenR l r))
      = List.zipWith f (evalBits ρ (widenL l r)) (evalBits ρ (widenR l r)) := by
    unfold evalBits
    rw [List.map_zipWith, List.zipWith_map]
    congr 1; funext a b; exact hop a b
  rw [val, e, evalBits_eq_toBitsLE ρ _ _ (widenL_length l r), evalBits_eq_toBitsLE ρ _ _ (widenR_length l r),
    val_widenL, val_widenR]

theorem opXor_eval (ρ : QV.Env) (a b : BExp) : (opXor a b).eval ρ = Bool.xor (a.eval ρ) (b.eval ρ) := by
  simp [opXor, BExp.eval, evalXor]
theorem opAnd_eval (ρ : QV.Env) (a b : BExp) : (opAnd a b).eval ρ = (a.eval ρ && b.eval ρ) := by
  simp [opAnd, BExp.eval, evalAnd]
theorem opOr_eval (ρ : QV.Env) (a b : BExp) : (opOr a b).eval ρ = (a.eval ρ || b.eval ρ) := by
  simp [opOr, BExp.eval, evalOr]

set_option hygiene false in
macro "bitwise_case" f:term:max hop:term:max ev:term:max : tactic => `(tactic| (
  bin_start
  cases hdl with
  | bool a =>
    cases hdr with
    | bool b =>
      simp only [String.reduceEq, imp_self, run_pure_ok] at h3
      obtain ⟨h4, _⟩ := h3
      cases h4
      exact ⟨.bool ($f (a.eval ρ) (b.eval ρ)), by simp [semW, hsl, hsr, boolBin],
        Den.mk_bool _ _ (by simp [BExp.eval, $ev:term])⟩
    | int b => bin_throw
  | int a =>
    cases hdr with
    | bool b => bin_throw
    | int b =>
      simp only [String.reduceEq, imp_self, run_bind_ok, run_lift_ok, run_pure_ok, bitsOf_ofBits,
        Except.ok.injEq] at h3
      obtain ⟨_, _, ⟨rfl, rfl⟩, _, _, ⟨rfl, rfl⟩, h4, rfl⟩ := h3
      cases h4
      refine ⟨.int (max a.length b.length) (natBitwise $f (max a.length b.length) (val ρ a) (val ρ b)),
        by simp [semW, hsl, hsr, intBin], ?_⟩
      rw [ite_gt_qint]
      exact Den.mk_int _ _ _ (bitwiseGeneric_length _ a b) (val_bitwiseGeneric ρ _ _ ($hop ρ) a b)))

theorem sound_xor (ρ : QV.Env) (env : Front.Env) (σ : SEnv) (l r : PExp)
    (ihl : Sound ρ env σ l) (ihr : Sound ρ env σ r) : Sound ρ env σ (.bin "xor" l r) := by
  bitwise_case Bool.xor opXor_eval evalXor

theorem sound_and (ρ : QV.Env) (env : Front.Env) (σ : SEnv) (l r : PExp)
    (ihl : Sound ρ env σ l) (ihr : Sound ρ env σ r) : Sound ρ env σ (.bin "and" l r) := by
  bitwise_case (fun x y => x && y) opAnd_eval evalAnd

theorem sound_or (ρ : QV.Env) (env : Front.Env) (σ : SEnv) (l r : PExp)
    (ihl : Sound ρ env σ l) (ihr : Sound ρ env σ r) : Sound ρ env σ (.bin "or" l r) := by
  bitwise_case (fun x y => x || y) opOr_eval evalOr

/-! ### shifts by a literal amount -/

theorem shiftLeft_length (l : List BExp) (i : Nat) : (shiftLeft l.length l i).length = l.length := by
  unfold shiftLeft; rw [crop_length]; simp

theorem shiftRight_length (l : List BExp) (i : Nat) : (shiftRight l.length l i).length = l.length := by
  unfold shiftRight; rw [fill_length]; simp

theorem sound_lshift (ρ : QV.Env) (env : Front.Env) (σ : SEnv) (l r : PExp)
    (ihl : Sound ρ env σ l) (ihr : Sound ρ env σ r) : Sound ρ env σ (.bin "lshift" l r) := by
  bin_start
  cases hdl with
  | bool a => cases hdr <;> bin_throw
  | int a =>
    simp only [String.reduceEq, imp_self] at h3
    cases r with
    | cint k =>
      simp only [run_ite_ok, run_throw_ok, and_false, false_or, run_bind_ok, run_lift_ok, run_pure_ok,
        bitsOf_ofBits, Except.ok.injEq] at h3
      obtain ⟨hk, _, _, ⟨rfl, rfl⟩, h4, rfl⟩ := h3
      cases h4
      refine ⟨.int a.length ((val ρ a * 2 ^ k.toNat) % 2 ^ a.length), by simp [semW, hsl, hk], ?_⟩
      apply Den.mk_int _ _ _ (by simpa using shiftLeft_length a k.toNat)
      simp only [beq_self_eq_true, if_true]
      rw [val_shiftLeft, Nat.mul_comm]
    | _ => simp only [run_throw_ok] at h3

theorem sound_rshift (ρ : QV.Env) (env : Front.Env) (σ : SEnv) (l r : PExp)
    (ihl : Sound ρ env σ l) (ihr : Sound ρ env σ r) : Sound ρ env σ (.bin "rshift" l r) := by
  bin_start
  cases hdl with
  | bool a => cases hdr <;> bin_throw
  | int a =>
    simp only [String.reduceEq, imp_self] at h3
    cases r with
    | cint k =>
      simp only [run_ite_ok, run_throw_ok, and_false, false_or, run_bind_ok, run_lift_ok, run_pure_ok,
        bitsOf_ofBits, Except.ok.injEq] at h3
      obtain ⟨hk, _, _, ⟨rfl, rfl⟩, h4, rfl⟩ := h3
      cases h4
      refine ⟨.int a.length (val ρ a / 2 ^ k.toNat), by simp [semW, hsl, hk], ?_⟩
      apply Den.mk_int _ _ _ (by simpa using shiftRight_length a k.toNat)
      simp only [String.reduceBEq, Bool.false_eq_true, if_false]
      rw [val_shiftRight]
    | _ => simp only [run_throw_ok] at h3

end QV.Sem
