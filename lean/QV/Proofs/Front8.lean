import QV.Model.SemX
import QV.Proofs.Arith
/-! C01, the property's first sentence: the fixed-width semantics `SemW` against the exact python
semantics `Sem` (`QV/Model/SemX.lean`).  `Agree xv sv`: the `SemW` value `sv` is the exact value where
`xv` is in range (`k = none`), and is congruent to it modulo `2^k` on the low `k` bits otherwise. -/
namespace QV.Sem
open QV QV.Arith QV.Front

set_option linter.unusedSimpArgs false
set_option linter.unusedVariables false

/-! ### congruences modulo `2^j` -/

theorem pow_dvd_pow_int {j w : Nat} (h : j ≤ w) : ((2 : Int) ^ j) ∣ (2 : Int) ^ w := by
  refine ⟨2 ^ (w - j), ?_⟩
  rw [← Int.pow_add]
  congr 1
  omega

theorem emod_emod_pow (a : Int) {j w : Nat} (h : j ≤ w) : (a % 2 ^ w) % 2 ^ j = a % (2 : Int) ^ j :=
  Int.emod_emod_of_dvd a (pow_dvd_pow_int h)

theorem cong_add {m a a' b b' : Int} (h1 : a % m = a' % m) (h2 : b % m = b' % m) :
    (a + b) % m = (a' + b') % m := by
  rw [Int.add_emod, h1, h2, ← Int.add_emod]

theorem cong_sub {m a a' b b' : Int} (h1 : a % m = a' % m) (h2 : b % m = b' % m) :
    (a - b) % m = (a' - b') % m := by
  rw [Int.sub_emod, h1, h2, ← Int.sub_emod]

theorem cong_mul {m a a' b b' : Int} (h1 : a % m = a' % m) (h2 : b % m = b' % m) :
    (a * b) % m = (a' * b') % m := by
  rw [Int.mul_emod, h1, h2, ← Int.mul_emod]

theorem cast_pow2 (w : Nat) : ((2 ^ w : Nat) : Int) = (2 : Int) ^ w := by
  simp

theorem pow2_pos_int (w : Nat) : (0 : Int) < 2 ^ w := Int.pow_pos (by decide)

/-- `(a mod 2^w : ℕ)` seen modulo `2^j`, `j ≤ w` -/
theorem natmod_cong (a : Nat) {j w : Nat} (h : j ≤ w) :
    (((a % 2 ^ w : Nat) : Int)) % 2 ^ j = (a : Int) % 2 ^ j := by
  rw [Int.natCast_mod, cast_pow2, emod_emod_pow _ h]

/-! ### `natBitwise` on the low bits -/

theorem take_toBitsLE {j w : Nat} (h : j ≤ w) (a : Nat) : (toBitsLE w a).take j = toBitsLE j a := by
  apply valLE_inj
  · simp [Nat.min_eq_left h]
  · rw [valLE_take, valLE_toBitsLE, valLE_toBitsLE]
    exact Nat.mod_mod_of_dvd a (Nat.pow_dvd_pow 2 h)

theorem natBitwise_low (f : Bool → Bool → Bool) {j w : Nat} (h : j ≤ w) (a b : Nat) :
    natBitwise f w a b % 2 ^ j = natBitwise f j a b := by
  unfold natBitwise
  rw [← valLE_take, List.take_zipWith, take_toBitsLE h, take_toBitsLE h]

theorem natBitwise_modarg (f : Bool → Bool → Bool) (j : Nat) (a b : Nat) :
    natBitwise f j (a % 2 ^ j) (b % 2 ^ j) = natBitwise f j a b := by
  unfold natBitwise
  rw [toBitsLE_mod, toBitsLE_mod]

theorem natBitwise_lt (f : Bool → Bool → Bool) (w a b : Nat) : natBitwise f w a b < 2 ^ w := by
  unfold natBitwise
  have := valLE_lt (List.zipWith f (toBitsLE w a) (toBitsLE w b))
  simpa using this

theorem toNat_emod_cast (x : Int) (j : Nat) : (((x % (2 : Int) ^ j).toNat : Nat) : Int) = x % (2 : Int) ^ j :=
  Int.toNat_of_nonneg (Int.emod_nonneg _ (by have := pow2_pos_int j; omega))

/-- the low `j` bits of python's `x op y` (`op` one of `& | ^`, computed by `intBitwise` at any result
width `w ≥ j`) are `op` on the low `j` bits of the operands -/
theorem cast_mod_pow2 (a j : Nat) : (((a % 2 ^ j : Nat)) : Int) = (a : Int) % (2 : Int) ^ j := by
  rw [Int.natCast_mod, cast_pow2]

theorem intBitwise_low (f : Bool → Bool → Bool) {j w : Nat} (h : j ≤ w) (x y : Int) :
    intBitwise f w x y % (2 : Int) ^ j
      = (natBitwise f j (x % (2 : Int) ^ j).toNat (y % (2 : Int) ^ j).toNat : Nat) := by
  have hN : j ≤ bitwiseWidth w x y := by unfold bitwiseWidth; omega
  generalize hNe : bitwiseWidth w x y = N at hN
  have key : ((natBitwise f N (x % (2 : Int) ^ N).toNat (y % (2 : Int) ^ N).toNat : Nat) : Int) % (2 : Int) ^ j
      = (natBitwise f j (x % (2 : Int) ^ j).toNat (y % (2 : Int) ^ j).toNat : Nat) := by
    rw [← cast_mod_pow2, natBitwise_low f hN]
    congr 1
    rw [← natBitwise_modarg f j (x % (2 : Int) ^ N).toNat, ← natBitwise_modarg f j (x % (2 : Int) ^ j).toNat]
    have e : ∀ z : Int, (z % (2 : Int) ^ N).toNat % 2 ^ j = (z % (2 : Int) ^ j).toNat % 2 ^ j := by
      intro z
      apply Int.ofNat_inj.mp
      rw [cast_mod_pow2, cast_mod_pow2, toNat_emod_cast, toNat_emod_cast,
        emod_emod_pow _ hN, Int.emod_emod_of_dvd _ (Int.dvd_refl _)]
    rw [e x, e y]
  unfold intBitwise
  simp only [hNe]
  split
  · exact key
  · rw [Int.sub_emod, Int.emod_eq_zero_of_dvd (pow_dvd_pow_int hN), Int.sub_zero, Int.emod_emod_of_dvd _ (Int.dvd_refl _)]
    exact key

/-! ### agreement of a `SemW` value with an exact value -/

/-- `j` low bits are within the claim `kk` -/
def Within (j : Nat) (kk : Option Nat) : Prop := ∀ k, kk = some k → j ≤ k

theorem within_none (j : Nat) : Within j none := fun _ h => by cases h

theorem within_kmin {j : Nat} {a b : Option Nat} (h : Within j (kmin a b)) : Within j a ∧ Within j b := by
  cases a <;> cases b <;> simp only [kmin, Within] at * <;> constructor <;> intro k hk <;>
    simp only [Option.some.injEq, reduceCtorEq] at hk
  all_goals (try subst hk)
  · exact h _ rfl
  · exact h _ rfl
  · have := h _ rfl; omega
  · have := h _ rfl; omega

theorem kmin_none {a b : Option Nat} (h : kmin a b = none) : a = none ∧ b = none := by
  cases a <;> cases b <;> simp [kmin] at h ⊢

/-- the fixed-width value `sv` agrees with the exact value `xv` as far as `xv` claims -/
def Agree : XVal → SVal → Prop
  | ⟨.bool b, k⟩, .bool b' => k = none → b' = b
  | ⟨.int w x, k⟩, .int w' y =>
    w' = w ∧ y < 2 ^ w ∧
      (k = none → (y : Int) = x) ∧ (∀ j, k = some j → j ≤ w ∧ (y : Int) % 2 ^ j = x % 2 ^ j)
  | _, _ => False

theorem agree_cong {w : Nat} {x : Int} {k : Option Nat} {y : Nat} (h : Agree ⟨.int w x, k⟩ (.int w y))
    {j : Nat} (hj : Within j k) : (y : Int) % 2 ^ j = x % 2 ^ j := by
  obtain ⟨_, _, h1, h2⟩ := h
  cases k with
  | none => rw [h1 rfl]
  | some k' =>
    obtain ⟨_, h3⟩ := h2 k' rfl
    have := hj k' rfl
    rw [← emod_emod_pow _ this, h3, emod_emod_pow _ this]

theorem agree_int_inv {xv : XVal} {w' y} (h : Agree xv (.int w' y)) :
    ∃ x k, xv = ⟨.int w' x, k⟩ := by
  obtain ⟨v, k⟩ := xv
  cases v with
  | bool b => exact h.elim
  | int w x => obtain ⟨rfl, _⟩ := h; exact ⟨x, k, rfl⟩

theorem agree_bool_inv {xv : XVal} {b'} (h : Agree xv (.bool b')) :
    ∃ b k, xv = ⟨.bool b, k⟩ := by
  obtain ⟨v, k⟩ := xv
  cases v with
  | bool b => exact ⟨b, k, rfl⟩
  | int w x => exact h.elim

/-- result of a low-bits-closed operation -/
theorem mkInt_agree (w : Nat) (X : Int) (kk : Option Nat) (Y : Nat) (hY : Y < 2 ^ w)
    (hc : ∀ j, j ≤ w → Within j kk → (Y : Int) % 2 ^ j = X % 2 ^ j) :
    Agree (mkInt w X kk) (.int w Y) := by
  have hYi : (Y : Int) < 2 ^ w := by rw [← cast_pow2]; exact Int.ofNat_lt.mpr hY
  unfold mkInt
  cases kk with
  | none =>
    simp only
    split
    · rename_i hf
      simp only [fits, Bool.and_eq_true, decide_eq_true_eq] at hf
      refine ⟨rfl, hY, fun _ => ?_, fun j hj => (by cases hj)⟩
      have := hc w (Nat.le_refl _) (within_none _)
      rw [Int.emod_eq_of_lt (by omega) hYi, Int.emod_eq_of_lt hf.1 hf.2] at this
      exact this
    · refine ⟨rfl, hY, fun h => (by cases h), fun j hj => ?_⟩
      cases hj
      exact ⟨Nat.le_refl _, hc w (Nat.le_refl _) (within_none _)⟩
  | some k =>
    simp only
    refine ⟨rfl, hY, fun h => (by cases h), fun j hj => ?_⟩
    cases hj
    exact ⟨Nat.min_le_right _ _, hc _ (Nat.min_le_right _ _) (fun k' hk' => by cases hk'; exact Nat.min_le_left _ _)⟩

/-- result of an operation that reads whole values -/
theorem mkOpen_agree (w : Nat) (X : Int) (kk : Option Nat) (Y : Nat) (hY : Y < 2 ^ w)
    (hc : kk = none → (Y : Int) = X) : Agree (mkOpen w X kk) (.int w Y) := by
  unfold mkOpen
  cases kk with
  | none =>
    simp only
    split
    · exact ⟨rfl, hY, fun _ => hc rfl, fun j hj => by cases hj⟩
    · refine ⟨rfl, hY, fun h => (by cases h), fun j hj => ?_⟩
      cases hj
      exact ⟨Nat.zero_le _, by simp [Int.emod_one]⟩
  | some k =>
    simp only
    refine ⟨rfl, hY, fun h => (by cases h), fun j hj => ?_⟩
    cases hj
    exact ⟨Nat.zero_le _, by simp [Int.emod_one]⟩

theorem mkBool_agree (b b' : Bool) (kk : Option Nat) (h : kk = none → b' = b) :
    Agree (mkBool b kk) (.bool b') := by
  unfold mkBool
  cases kk with
  | none => exact fun _ => h rfl
  | some k => exact fun h' => by cases h'

/-- the environments of the two semantics give every variable agreeing values -/
def EnvAgree (σX : XEnv) (σW : SEnv) : Prop :=
  ∀ n xv sv, σX n = some xv → σW n = some sv → Agree xv sv

end QV.Sem

namespace QV.Sem
open QV QV.Arith QV.Front

set_option linter.unusedSimpArgs false
set_option linter.unusedVariables false

theorem cmp_cast (op : String) (a b : Nat) : cmpInt op (a : Int) (b : Int) = cmpNat op a b := by
  unfold cmpInt cmpNat
  split <;> simp_all

/-- `and` / `or`: when the exact side claims its result, the fixed-width side has the same -/
theorem boolFold_agree (isAnd : Bool) :
    ∀ (xs : List XVal) (ss : List SVal), List.Forall₂ Agree xs ss →
      ∀ r kk b', boolFoldX isAnd xs = some (r, kk) → boolFold isAnd ss = some b' → kk = none → b' = r
  | [], _, _, r, kk, b', hx, _, _ => by simp [boolFoldX] at hx
  | x :: xs, [], h, _, _, _, _, _, _ => by cases h
  | x :: xs, s :: ss, h, r, kk, b', hx, hs, hk => by
    cases h with
    | cons h1 h2 =>
    obtain ⟨v, k⟩ := x
    cases v with
    | int w z => cases s <;> first | exact h1.elim | (simp [boolFoldX] at hx)
    | bool b =>
      cases s with
      | int _ _ => exact h1.elim
      | bool sb =>
        cases xs with
        | nil =>
          cases h2
          simp only [boolFoldX, Option.some.injEq, Prod.mk.injEq] at hx
          simp only [boolFold, Option.some.injEq] at hs
          obtain ⟨rfl, rfl⟩ := hx
          subst hs
          exact h1 hk
        | cons x2 xs2 =>
          cases h2 with
          | cons h3 h4 =>
          rename_i s2 ss2
          simp only [boolFoldX] at hx
          simp only [boolFold] at hs
          cases hrx : boolFoldX isAnd (x2 :: xs2) with
          | none => simp [hrx] at hx
          | some p =>
            obtain ⟨r2, k2⟩ := p
            simp only [hrx] at hx
            cases hrs : boolFold isAnd (s2 :: ss2) with
            | none => simp [hrs] at hs
            | some b2 =>
              simp only [hrs, Option.map_some, Option.some.injEq] at hs
              split at hx
              · rename_i hne
                simp only [Option.some.injEq, Prod.mk.injEq] at hx
                obtain ⟨rfl, rfl⟩ := hx
                have e := h1 hk
                subst e
                subst hs
                cases isAnd <;> cases sb <;> simp_all
              · rename_i hne
                simp only [Option.some.injEq, Prod.mk.injEq] at hx
                obtain ⟨rfl, rfl⟩ := hx
                obtain ⟨hk1, hk2⟩ := kmin_none hk
                have e := h1 hk1
                subst e
                have ih := boolFold_agree isAnd (x2 :: xs2) (s2 :: ss2) (List.Forall₂.cons h3 h4) _ _ _ hrx hrs hk2
                subst ih
                subst hs
                cases isAnd <;> cases sb <;> simp_all


theorem two_pow_le {a b : Nat} (h : a ≤ b) : 2 ^ a ≤ 2 ^ b := Nat.pow_le_pow_right (by decide) h

/-- a `Qint` operand pair: both `SemW` values below `2^max` -/
theorem lt_max_l {wl wr y : Nat} (h : y < 2 ^ wl) : y < 2 ^ max wl wr :=
  Nat.lt_of_lt_of_le h (two_pow_le (Nat.le_max_left _ _))
theorem lt_max_r {wl wr y : Nat} (h : y < 2 ^ wr) : y < 2 ^ max wl wr :=
  Nat.lt_of_lt_of_le h (two_pow_le (Nat.le_max_right _ _))

theorem intBin_agree (op : String) (wl wr : Nat) (xl xr : Int) (kl kr : Option Nat) (yl yr : Nat)
    (hl : Agree ⟨.int wl xl, kl⟩ (.int wl yl)) (hr : Agree ⟨.int wr xr, kr⟩ (.int wr yr))
    (sv : SVal) (xv : XVal) (hw : intBin op wl wr yl yr = some sv)
    (hx : intBinX op wl wr xl xr (kmin kl kr) = some xv) : Agree xv sv := by
  have hyl := hl.2.1
  have hyr := hr.2.1
  unfold intBin at hw
  unfold intBinX at hx
  split at hw
  · -- add
    simp only [Option.some.injEq] at hw hx
    subst hw; subst hx
    apply mkInt_agree _ _ _ _ (Nat.mod_lt _ (Nat.pow_pos (by decide)))
    intro j hj hwi
    obtain ⟨h1, h2⟩ := within_kmin hwi
    rw [natmod_cong _ hj, Int.natCast_add]
    exact cong_add (agree_cong hl h1) (agree_cong hr h2)
  · -- sub
    simp only [Option.some.injEq] at hw hx
    subst hw; subst hx
    apply mkInt_agree _ _ _ _ (Nat.mod_lt _ (Nat.pow_pos (by decide)))
    intro j hj hwi
    obtain ⟨h1, h2⟩ := within_kmin hwi
    have hle : yr ≤ yl + 2 ^ max wl wr := by have := lt_max_r (wl := wl) hyr; omega
    rw [natmod_cong _ hj, Int.natCast_sub hle, Int.natCast_add, cast_pow2]
    have e : ((yl : Int) + 2 ^ max wl wr - yr) % 2 ^ j = ((yl : Int) - yr) % 2 ^ j := by
      have : (yl : Int) + 2 ^ max wl wr - yr = (yl - yr) + 2 ^ max wl wr := by omega
      rw [this, Int.add_emod, Int.emod_eq_zero_of_dvd (pow_dvd_pow_int hj), Int.add_zero,
        Int.emod_emod_of_dvd _ (Int.dvd_refl _)]
    rw [e]
    exact cong_sub (agree_cong hl h1) (agree_cong hr h2)
  · -- mul
    simp only [Option.some.injEq] at hw hx
    subst hw; subst hx
    apply mkInt_agree _ _ _ _ (Nat.mod_lt _ (Nat.pow_pos (by decide)))
    intro j hj hwi
    obtain ⟨h1, h2⟩ := within_kmin hwi
    rw [natmod_cong _ hj, Int.natCast_mul]
    exact cong_mul (agree_cong hl h1) (agree_cong hr h2)
  · -- mod
    simp only [Option.some.injEq] at hx
    split at hw
    · cases hw
    · rename_i hy0
      simp only [Option.some.injEq] at hw
      subst hw
      split at hx
      · cases hx
      · simp only [Option.some.injEq] at hx
        subst hx
        apply mkOpen_agree
        · exact Nat.lt_of_le_of_lt (Nat.mod_le _ _) (lt_max_l hyl)
        · intro hk
          obtain ⟨rfl, rfl⟩ := kmin_none hk
          have e1 := hl.2.2.1 rfl
          have e2 := hr.2.2.1 rfl
          rw [← e1, ← e2, Int.fmod_eq_emod_of_nonneg _ (Int.natCast_nonneg _), Int.natCast_mod]
  all_goals
    first
    | (simp only [Option.some.injEq] at hw hx
       subst hw; subst hx
       apply mkInt_agree _ _ _ _ (natBitwise_lt _ _ _ _)
       intro j hj hwi
       obtain ⟨h1, h2⟩ := within_kmin hwi
       rw [intBitwise_low _ hj, ← cast_mod_pow2, natBitwise_low _ hj]
       congr 1
       rw [← natBitwise_modarg _ j yl, ← natBitwise_modarg _ j (xl % (2 : Int) ^ j).toNat]
       have e : ∀ (y : Nat) (x : Int), (y : Int) % 2 ^ j = x % 2 ^ j →
           y % 2 ^ j = (x % (2 : Int) ^ j).toNat % 2 ^ j := by
         intro y x hxy
         apply Int.ofNat_inj.mp
         rw [cast_mod_pow2, cast_mod_pow2, toNat_emod_cast, hxy, Int.emod_emod_of_dvd _ (Int.dvd_refl _)]
       rw [e yl xl (agree_cong hl h1), e yr xr (agree_cong hr h2)])
    | cases hw


theorem boolBin_agree (op : String) (a b a' b' : Bool) (kl kr : Option Nat)
    (hl : Agree ⟨.bool a, kl⟩ (.bool a')) (hr : Agree ⟨.bool b, kr⟩ (.bool b'))
    (sv : SVal) (xv : XVal) (hw : boolBin op a' b' = some sv)
    (hx : boolBinX op a b (kmin kl kr) = some xv) : Agree xv sv := by
  unfold boolBin at hw
  unfold boolBinX at hx
  split at hw
  all_goals
    first
    | (simp only [Option.some.injEq] at hw hx
       subst hw; subst hx
       apply mkBool_agree
       intro hk
       obtain ⟨rfl, rfl⟩ := kmin_none hk
       rw [hl rfl, hr rfl])
    | cases hw

mutual
/-- **`SemW` against `Sem`**: on every expression on which both are defined, the fixed-width value
agrees with the exact python value as far as the latter claims -/
theorem sem_agree (σX : XEnv) (σW : SEnv) (henv : EnvAgree σX σW) :
    ∀ (e : PExp) (sv : SVal) (xv : XVal), semW σW e = some sv → sem σX e = some xv → Agree xv sv
  | .name n, sv, xv, hw, hx =>
    henv n xv sv (by simpa only [sem] using hx) (by simpa only [semW] using hw)
  | .cbool b, sv, xv, hw, hx => by
    simp only [semW, Option.some.injEq] at hw
    simp only [sem, Option.some.injEq] at hx
    subst hw; subst hx
    exact fun _ => rfl
  | .cchar _, sv, xv, hw, hx => by simp [sem] at hx
  | .subs _ _, sv, xv, hw, hx => by simp [sem] at hx
  | .tuple _, sv, xv, hw, hx => by simp [sem] at hx
  | .unsupported _, sv, xv, hw, hx => by simp [sem] at hx
  | .cint v, sv, xv, hw, hx => by
    simp only [semW] at hw
    simp only [sem] at hx
    cases hc : constWidth v with
    | none => simp [hc] at hw
    | some w =>
      simp only [hc, Option.some.injEq] at hw hx
      subst hw; subst hx
      have hlt : v < (2 : Int) ^ w := by
        have := List.find?_some hc
        simpa using this
      have hp := pow2_pos_int w
      have hcast := toNat_emod_cast v w
      have hY : (v % (2 : Int) ^ w).toNat < 2 ^ w := by
        apply Int.ofNat_lt.mp
        rw [hcast, cast_pow2]
        exact Int.emod_lt_of_pos _ hp
      by_cases h0 : 0 ≤ v
      · simp only [h0, if_true]
        exact ⟨rfl, hY, fun _ => by rw [hcast, Int.emod_eq_of_lt h0 hlt], fun j hj => (by cases hj)⟩
      · simp only [h0, if_false]
        refine ⟨rfl, hY, fun h => (by cases h), fun j hj => ?_⟩
        cases hj
        exact ⟨Nat.le_refl _, by rw [hcast, Int.emod_emod_of_dvd _ (Int.dvd_refl _)]⟩
  | .not e, sv, xv, hw, hx => by
    simp only [semW] at hw
    simp only [sem] at hx
    cases hw1 : semW σW e with
    | none => simp [hw1] at hw
    | some s1 =>
    cases hx1 : sem σX e with
    | none => simp [hx1] at hx
    | some x1 =>
    have ih := sem_agree σX σW henv e s1 x1 hw1 hx1
    obtain ⟨v1, k1⟩ := x1
    cases s1 with
    | int _ _ => simp [hw1] at hw
    | bool b' =>
      cases v1 with
      | int _ _ => exact ih.elim
      | bool b =>
        simp only [hw1, Option.some.injEq] at hw
        simp only [hx1, Option.some.injEq] at hx
        subst hw; subst hx
        exact fun hk => by rw [ih hk]
  | .inv e, sv, xv, hw, hx => by
    simp only [semW] at hw
    simp only [sem] at hx
    cases hw1 : semW σW e with
    | none => simp [hw1] at hw
    | some s1 =>
    cases hx1 : sem σX e with
    | none => simp [hx1] at hx
    | some x1 =>
    have ih := sem_agree σX σW henv e s1 x1 hw1 hx1
    obtain ⟨v1, k1⟩ := x1
    cases s1 with
    | bool _ => simp [hw1] at hw
    | int w' y =>
      cases v1 with
      | bool _ => exact ih.elim
      | int w x =>
        obtain rfl : w' = w := ih.1
        simp only [hw1, Option.some.injEq] at hw
        simp only [hx1, Option.some.injEq] at hx
        subst hw; subst hx
        have hy := ih.2.1
        apply mkInt_agree _ _ _ _ (by omega)
        intro j hj hwi
        have hc := agree_cong ih hwi
        have e1 : ((2 ^ w' - 1 - y : Nat) : Int) = (2 : Int) ^ w' - 1 - y := by
          rw [Int.natCast_sub (by omega), Int.natCast_sub (Nat.pow_pos (by decide)), cast_pow2]
          rfl
        rw [e1]
        have e2 : ((2 : Int) ^ w' - 1 - y) % 2 ^ j = ((0 : Int) - 1 - y) % 2 ^ j := by
          have : (2 : Int) ^ w' - 1 - y = (0 - 1 - y) + 2 ^ w' := by omega
          rw [this, Int.add_emod, Int.emod_eq_zero_of_dvd (pow_dvd_pow_int hj), Int.add_zero,
            Int.emod_emod_of_dvd _ (Int.dvd_refl _)]
        rw [e2]
        have e3 : -x - 1 = (0 : Int) - 1 - x := by omega
        rw [e3]
        exact cong_sub rfl hc
  | .boolop isAnd vs, sv, xv, hw, hx => by
    simp only [semW] at hw
    simp only [sem] at hx
    cases hw1 : semWList σW vs with
    | none => simp [hw1] at hw
    | some ss =>
    cases hx1 : semList σX vs with
    | none => simp [hx1] at hx
    | some xs =>
    have ih := semList_agree σX σW henv vs ss xs hw1 hx1
    simp only [hw1] at hw
    simp only [hx1] at hx
    cases hf : boolFold isAnd ss with
    | none => simp [hf] at hw
    | some b' =>
    cases hfx : boolFoldX isAnd xs with
    | none => simp [hfx] at hx
    | some p =>
    obtain ⟨r, kk⟩ := p
    simp only [hf, Option.map_some, Option.some.injEq] at hw
    simp only [hfx, Option.map_some, Option.some.injEq] at hx
    subst hw; subst hx
    apply mkBool_agree
    exact boolFold_agree isAnd xs ss ih r kk b' hfx hf
  | .ite c a b, sv, xv, hw, hx => by
    simp only [semW] at hw
    simp only [sem] at hx
    cases hwc : semW σW c with
    | none => simp [hwc] at hw
    | some sc =>
    cases hwa : semW σW a with
    | none => simp [hwc, hwa] at hw
    | some sa =>
    cases hwb : semW σW b with
    | none => simp [hwc, hwa, hwb] at hw
    | some sb =>
    cases hxc : sem σX c with
    | none => simp [hxc] at hx
    | some xc =>
    cases hxa : sem σX a with
    | none => simp [hxc, hxa] at hx
    | some xa =>
    cases hxb : sem σX b with
    | none => simp [hxc, hxa, hxb] at hx
    | some xb =>
    have ihc := sem_agree σX σW henv c sc xc hwc hxc
    have iha := sem_agree σX σW henv a sa xa hwa hxa
    have ihb := sem_agree σX σW henv b sb xb hwb hxb
    obtain ⟨vc, kc⟩ := xc
    obtain ⟨va, ka⟩ := xa
    obtain ⟨vb, kb⟩ := xb
    cases sc with
    | int _ _ => simp [hwc, hwa, hwb] at hw
    | bool cb' =>
    cases vc with
    | int _ _ => exact ihc.elim
    | bool cb =>
    cases sa with
    | bool a' =>
      cases va with
      | int _ _ => exact iha.elim
      | bool a0 =>
        cases sb with
        | int _ _ => simp [hwc, hwa, hwb] at hw
        | bool b' =>
          cases vb with
          | int _ _ => exact ihb.elim
          | bool b0 =>
            simp only [hwc, hwa, hwb, Option.some.injEq] at hw
            simp only [hxc, hxa, hxb, Option.some.injEq] at hx
            subst hw; subst hx
            cases kc with
            | some _ => exact fun h => by cases h
            | none =>
              have e := ihc rfl
              subst e
              cases cb' with
              | true => exact fun hk => by simpa using iha (by simpa using hk)
              | false => exact fun hk => by simpa using ihb (by simpa using hk)
    | int wa' ya =>
      cases va with
      | bool _ => exact iha.elim
      | int wa xa0 =>
        cases sb with
        | bool _ => simp [hwc, hwa, hwb] at hw
        | int wb' yb =>
          cases vb with
          | bool _ => exact ihb.elim
          | int wb xb0 =>
            obtain rfl : wa' = wa := iha.1
            obtain rfl : wb' = wb := ihb.1
            simp only [hwc, hwa, hwb, Option.some.injEq] at hw
            simp only [hxc, hxa, hxb, Option.some.injEq] at hx
            subst hw; subst hx
            have hya := lt_max_l (wr := wb') iha.2.1
            have hyb := lt_max_r (wl := wa') ihb.2.1
            cases kc with
            | some _ =>
              refine ⟨rfl, by split <;> assumption, fun h => (by cases h), fun j hj => ?_⟩
              cases hj
              exact ⟨Nat.zero_le _, by simp [Int.emod_one]⟩
            | none =>
              have e := ihc rfl
              subst e
              cases cb' with
              | true =>
                simp only [if_true]
                refine ⟨rfl, hya, iha.2.2.1, fun j hj => ?_⟩
                obtain ⟨h1, h2⟩ := iha.2.2.2 j hj
                exact ⟨Nat.le_trans h1 (Nat.le_max_left _ _), h2⟩
              | false =>
                simp only [Bool.false_eq_true, if_false]
                refine ⟨rfl, hyb, ihb.2.2.1, fun j hj => ?_⟩
                obtain ⟨h1, h2⟩ := ihb.2.2.2 j hj
                exact ⟨Nat.le_trans h1 (Nat.le_max_right _ _), h2⟩
  | .cmp op l r, sv, xv, hw, hx => by
    simp only [semW] at hw
    simp only [sem] at hx
    cases hwl : semW σW l with
    | none => simp [hwl] at hw
    | some sl =>
    cases hwr : semW σW r with
    | none => simp [hwl, hwr] at hw
    | some sr =>
    cases hxl : sem σX l with
    | none => simp [hxl] at hx
    | some xl =>
    cases hxr : sem σX r with
    | none => simp [hxl, hxr] at hx
    | some xr =>
    have ihl := sem_agree σX σW henv l sl xl hwl hxl
    have ihr := sem_agree σX σW henv r sr xr hwr hxr
    obtain ⟨vl, kl⟩ := xl
    obtain ⟨vr, kr⟩ := xr
    cases sl with
    | bool a' =>
      cases vl with
      | int _ _ => exact ihl.elim
      | bool a0 =>
        cases sr with
        | int _ _ => simp [hwl, hwr] at hw
        | bool b' =>
          cases vr with
          | int _ _ => exact ihr.elim
          | bool b0 =>
            simp only [hwl, hwr] at hw
            simp only [hxl, hxr] at hx
            cases hcw : cmpBool op a' b' with
            | none => simp [hcw] at hw
            | some rw' =>
            cases hcx : cmpBool op a0 b0 with
            | none => simp [hcx] at hx
            | some rx =>
            simp only [hcw, Option.map_some, Option.some.injEq] at hw
            simp only [hcx, Option.map_some, Option.some.injEq] at hx
            subst hw; subst hx
            apply mkBool_agree
            intro hk
            obtain ⟨rfl, rfl⟩ := kmin_none hk
            rw [ihl rfl, ihr rfl, hcx] at hcw
            exact (Option.some.inj hcw).symm
    | int wl' yl =>
      cases vl with
      | bool _ => exact ihl.elim
      | int wl xl0 =>
        cases sr with
        | bool _ => simp [hwl, hwr] at hw
        | int wr' yr =>
          cases vr with
          | bool _ => exact ihr.elim
          | int wr xr0 =>
            simp only [hwl, hwr] at hw
            simp only [hxl, hxr] at hx
            cases hcw : cmpNat op yl yr with
            | none => simp [hcw] at hw
            | some rw' =>
            cases hcx : cmpInt op xl0 xr0 with
            | none => simp [hcx] at hx
            | some rx =>
            simp only [hcw, Option.map_some, Option.some.injEq] at hw
            simp only [hcx, Option.map_some, Option.some.injEq] at hx
            subst hw; subst hx
            apply mkBool_agree
            intro hk
            obtain ⟨rfl, rfl⟩ := kmin_none hk
            rw [← ihl.2.2.1 rfl, ← ihr.2.2.1 rfl, cmp_cast, hcw] at hcx
            exact Option.some.inj hcx
  | .bin op l r, sv, xv, hw, hx => by
    simp only [semW] at hw
    simp only [sem] at hx
    cases hwl : semW σW l with
    | none => simp [hwl] at hw
    | some sl =>
    cases hxl : sem σX l with
    | none => simp [hxl] at hx
    | some xl =>
    have ihl := sem_agree σX σW henv l sl xl hwl hxl
    obtain ⟨vl, kl⟩ := xl
    cases sl with
    | bool a' =>
      cases vl with
      | int _ _ => exact ihl.elim
      | bool a0 =>
        simp only [hwl] at hw
        simp only [hxl] at hx
        cases hwr : semW σW r with
        | none => simp [hwr] at hw
        | some sr =>
        cases hxr : sem σX r with
        | none => simp [hxr] at hx
        | some xr =>
        have ihr := sem_agree σX σW henv r sr xr hwr hxr
        obtain ⟨vr, kr⟩ := xr
        cases sr with
        | int _ _ => simp [hwr] at hw
        | bool b' =>
          cases vr with
          | int _ _ => exact ihr.elim
          | bool b0 =>
            simp only [hwr] at hw
            simp only [hxr] at hx
            exact boolBin_agree op a0 b0 a' b' kl kr ihl ihr sv xv hw hx
    | int wl' yl =>
      cases vl with
      | bool _ => exact ihl.elim
      | int wl xl0 =>
        obtain rfl : wl' = wl := ihl.1
        simp only [hwl] at hw
        simp only [hxl] at hx
        split at hw
        · -- shifts
          rename_i hop
          simp only [hop, if_true] at hx
          split at hw
          · rename_i kc
            simp only at hx
            split at hw
            · cases hw
            · rename_i hk0
              simp only [hk0, if_false] at hx
              split at hw
              · rename_i hls
                simp only [hls, if_true, Option.some.injEq] at hx
                simp only [Option.some.injEq] at hw
                subst hw; subst hx
                apply mkInt_agree _ _ _ _ (Nat.mod_lt _ (Nat.pow_pos (by decide)))
                intro j hj hwi
                rw [natmod_cong _ hj, Int.natCast_mul, cast_pow2]
                exact cong_mul (agree_cong ihl hwi) rfl
              · rename_i hls
                simp only [hls, Bool.false_eq_true, if_false, Option.some.injEq] at hx
                simp only [Option.some.injEq] at hw
                subst hw; subst hx
                apply mkOpen_agree _ _ _ _ (Nat.lt_of_le_of_lt (Nat.div_le_self _ _) ihl.2.1)
                intro hk
                rw [← ihl.2.2.1 hk, Int.fdiv_eq_ediv_of_nonneg _ (Int.le_of_lt (pow2_pos_int _)),
                  Int.natCast_ediv, cast_pow2]
          · cases hw
        · rename_i hop
          simp only [hop, if_false] at hx
          cases hwr : semW σW r with
          | none => simp [hwr] at hw
          | some sr =>
          cases hxr : sem σX r with
          | none => simp [hxr] at hx
          | some xr =>
          have ihr := sem_agree σX σW henv r sr xr hwr hxr
          obtain ⟨vr, kr⟩ := xr
          cases sr with
          | bool _ => simp [hwr] at hw
          | int wr' yr =>
            cases vr with
            | bool _ => exact ihr.elim
            | int wr xr0 =>
              obtain rfl : wr' = wr := ihr.1
              simp only [hwr] at hw
              simp only [hxr] at hx
              exact intBin_agree op wl' wr' xl0 xr0 kl kr yl yr ihl ihr sv xv hw hx
theorem semList_agree (σX : XEnv) (σW : SEnv) (henv : EnvAgree σX σW) :
    ∀ (es : List PExp) (ss : List SVal) (xs : List XVal), semWList σW es = some ss →
      semList σX es = some xs → List.Forall₂ Agree xs ss
  | [], ss, xs, hw, hx => by
    simp only [semWList, Option.some.injEq] at hw
    simp only [semList, Option.some.injEq] at hx
    subst hw; subst hx
    exact List.Forall₂.nil
  | e :: es, ss, xs, hw, hx => by
    simp only [semWList] at hw
    simp only [semList] at hx
    cases hw1 : semW σW e with
    | none => simp [hw1] at hw
    | some s1 =>
    cases hw2 : semWList σW es with
    | none => simp [hw1, hw2] at hw
    | some ss2 =>
    cases hx1 : sem σX e with
    | none => simp [hx1] at hx
    | some x1 =>
    cases hx2 : semList σX es with
    | none => simp [hx1, hx2] at hx
    | some xs2 =>
    simp only [hw1, hw2, Option.some.injEq] at hw
    simp only [hx1, hx2, Option.some.injEq] at hx
    subst hw; subst hx
    exact List.Forall₂.cons (sem_agree σX σW henv e s1 x1 hw1 hx1) (semList_agree σX σW henv es ss2 xs2 hw2 hx2)
end

end QV.Sem
