import QV.Model.Tools
/-! Helper lemmas for C17 (command-line tools). -/
namespace QV.Tools
open QV

/-! ### boolean expressions: substitution and dependence on free symbols -/

/-- environment seen through a substitution -/
def extend (σ : String → Option BExp) (ρ : Env) : Env := fun x =>
  match σ x with
  | some t => t.eval ρ
  | none => ρ x

mutual
theorem subst_eval (σ : String → Option BExp) (ρ : Env) :
    ∀ e : BExp, (e.subst σ).eval ρ = e.eval (extend σ ρ)
  | .tt => rfl
  | .ff => rfl
  | .sym n => by
      simp only [BExp.subst, BExp.eval, extend]
      cases σ n <;> simp [BExp.eval]
  | .not e => by simp [BExp.subst, BExp.eval, subst_eval σ ρ e]
  | .and l => by simp [BExp.subst, BExp.eval, substList_and σ ρ l]
  | .or l => by simp [BExp.subst, BExp.eval, substList_or σ ρ l]
  | .xor l => by simp [BExp.subst, BExp.eval, substList_xor σ ρ l]
  | .ite c t e => by
      simp [BExp.subst, BExp.eval, subst_eval σ ρ c, subst_eval σ ρ t, subst_eval σ ρ e]
  | .imp a b => by simp [BExp.subst, BExp.eval, subst_eval σ ρ a, subst_eval σ ρ b]
theorem substList_and (σ : String → Option BExp) (ρ : Env) :
    ∀ l : List BExp, evalAnd ρ (substList σ l) = evalAnd (extend σ ρ) l
  | [] => rfl
  | e :: es => by simp [substList, evalAnd, subst_eval σ ρ e, substList_and σ ρ es]
theorem substList_or (σ : String → Option BExp) (ρ : Env) :
    ∀ l : List BExp, evalOr ρ (substList σ l) = evalOr (extend σ ρ) l
  | [] => rfl
  | e :: es => by simp [substList, evalOr, subst_eval σ ρ e, substList_or σ ρ es]
theorem substList_xor (σ : String → Option BExp) (ρ : Env) :
    ∀ l : List BExp, evalXor ρ (substList σ l) = evalXor (extend σ ρ) l
  | [] => rfl
  | e :: es => by simp [substList, evalXor, subst_eval σ ρ e, substList_xor σ ρ es]
end

mutual
theorem eval_congr (ρ ρ' : Env) :
    ∀ e : BExp, (∀ s ∈ e.syms, ρ s = ρ' s) → e.eval ρ = e.eval ρ'
  | .tt, _ => rfl
  | .ff, _ => rfl
  | .sym n, h => by simpa [BExp.eval] using h n (by simp [BExp.syms])
  | .not e, h => by simp [BExp.eval, eval_congr ρ ρ' e (by simpa [BExp.syms] using h)]
  | .and l, h => by simp [BExp.eval, evalAnd_congr ρ ρ' l (by simpa [BExp.syms] using h)]
  | .or l, h => by simp [BExp.eval, evalOr_congr ρ ρ' l (by simpa [BExp.syms] using h)]
  | .xor l, h => by simp [BExp.eval, evalXor_congr ρ ρ' l (by simpa [BExp.syms] using h)]
  | .ite c t e, h => by
      have hc := eval_congr ρ ρ' c (fun s hs => h s (by simp [BExp.syms, hs]))
      have ht := eval_congr ρ ρ' t (fun s hs => h s (by simp [BExp.syms, hs]))
      have he := eval_congr ρ ρ' e (fun s hs => h s (by simp [BExp.syms, hs]))
      simp [BExp.eval, hc, ht, he]
  | .imp a b, h => by
      have ha := eval_congr ρ ρ' a (fun s hs => h s (by simp [BExp.syms, hs]))
      have hb := eval_congr ρ ρ' b (fun s hs => h s (by simp [BExp.syms, hs]))
      simp [BExp.eval, ha, hb]
theorem evalAnd_congr (ρ ρ' : Env) :
    ∀ l : List BExp, (∀ s ∈ symsList l, ρ s = ρ' s) → evalAnd ρ l = evalAnd ρ' l
  | [], _ => rfl
  | e :: es, h => by
      have h1 := eval_congr ρ ρ' e (fun s hs => h s (by simp [symsList, hs]))
      have h2 := evalAnd_congr ρ ρ' es (fun s hs => h s (by simp [symsList, hs]))
      simp [evalAnd, h1, h2]
theorem evalOr_congr (ρ ρ' : Env) :
    ∀ l : List BExp, (∀ s ∈ symsList l, ρ s = ρ' s) → evalOr ρ l = evalOr ρ' l
  | [], _ => rfl
  | e :: es, h => by
      have h1 := eval_congr ρ ρ' e (fun s hs => h s (by simp [symsList, hs]))
      have h2 := evalOr_congr ρ ρ' es (fun s hs => h s (by simp [symsList, hs]))
      simp [evalOr, h1, h2]
theorem evalXor_congr (ρ ρ' : Env) :
    ∀ l : List BExp, (∀ s ∈ symsList l, ρ s = ρ' s) → evalXor ρ l = evalXor ρ' l
  | [], _ => rfl
  | e :: es, h => by
      have h1 := eval_congr ρ ρ' e (fun s hs => h s (by simp [symsList, hs]))
      have h2 := evalXor_congr ρ ρ' es (fun s hs => h s (by simp [symsList, hs]))
      simp [evalXor, h1, h2]
end

theorem evalAnd_eq_all (ρ : Env) : ∀ l : List BExp, evalAnd ρ l = l.all (fun e => e.eval ρ)
  | [] => rfl
  | e :: es => by simp [evalAnd, evalAnd_eq_all ρ es]

theorem evalOr_eq_any (ρ : Env) : ∀ l : List BExp, evalOr ρ l = l.any (fun e => e.eval ρ)
  | [] => rfl
  | e :: es => by simp [evalOr, evalOr_eq_any ρ es]

/-! ### inlining of definitions = sequential evaluation -/

theorem runDefs_inline (ρ₀ : Env) :
    ∀ (ds : Defs) (acc : List (String × BExp)) (ρ : Env),
      (∀ x, ρ x = extend (lookupFn acc) ρ₀ x) →
      ∀ x, runDefs ρ ds x = extend (lookupFn (inlineDefs ds acc)) ρ₀ x
  | [], _, _, h => h
  | (n, e) :: ds, acc, ρ, h => by
      apply runDefs_inline ρ₀ ds
      intro x
      have hρ : ρ = extend (lookupFn acc) ρ₀ := funext h
      by_cases hx : x = n
      · subst hx
        simp [extend, lookupFn, List.lookup, subst_eval, hρ]
      · have : (x == n) = false := by simpa using hx
        simp [extend, lookupFn, List.lookup, this, hρ]

theorem combined_none_eval (ρ : Env) (rets : List String) (exprs : Defs) :
    (combined Quirks.none rets exprs).eval ρ = retConj ρ rets exprs := by
  have h := runDefs_inline ρ exprs [] ρ (by intro x; simp [extend, lookupFn, List.lookup])
  have hq : (Quirks.none).bexpConjoinsIntermediates = false := rfl
  simp only [combined, hq, retConj]
  simp only [Bool.false_eq_true, if_false]
  rw [BExp.eval, evalAnd_eq_all, List.all_map]
  congr 1
  funext r
  simp only [Function.comp, h r, extend]
  cases lookupFn (inlineDefs exprs []) r <;> simp [BExp.eval]

theorem runDefs_undefined : ∀ (ds : Defs) (ρ : Env) (x : String),
    x ∉ ds.map (·.1) → runDefs ρ ds x = ρ x
  | [], _, _, _ => rfl
  | (n, e) :: ds, ρ, x, h => by
      simp only [List.map_cons, List.mem_cons, not_or] at h
      rw [runDefs, runDefs_undefined ds _ x h.2]
      have : (x == n) = false := by simpa using h.1
      simp [this]

theorem runDefs_noInter (L : List String) : ∀ (ds : Defs) (ρ : Env),
    (ds.map (·.1)).Nodup → (∀ d ∈ ds, d.1 ∈ L) → (∀ d ∈ ds, ∀ s ∈ d.2.syms, s ∉ L) →
    ∀ d ∈ ds, runDefs ρ ds d.1 = d.2.eval ρ
  | [], _, _, _, _, d, hd => by simp at hd
  | (n, e) :: ds, ρ, hnd, hL, hS, d, hd => by
      simp only [List.map_cons, List.nodup_cons] at hnd
      have hnL : n ∈ L := hL (n, e) (by simp)
      rcases List.mem_cons.1 hd with rfl | hd'
      · rw [runDefs, runDefs_undefined ds _ _ hnd.1]
        simp
      · rw [runDefs, runDefs_noInter L ds _ hnd.2 (fun d hd => hL d (List.mem_cons_of_mem _ hd))
          (fun d hd => hS d (List.mem_cons_of_mem _ hd)) d hd']
        apply eval_congr
        intro s hs
        have : s ∉ L := hS d hd s hs
        have hne : s ≠ n := fun h => this (h ▸ hnL)
        have : (s == n) = false := by simpa using hne
        simp [this]

theorem combined_quirk_eval (q : Quirks) (hq : q.bexpConjoinsIntermediates = true) (ρ : Env)
    (rets : List String) (exprs : Defs) (h : noIntermediates rets exprs = true) :
    (combined q rets exprs).eval ρ = retConj ρ rets exprs := by
  simp only [noIntermediates, Bool.and_eq_true, List.all_eq_true, decide_eq_true_eq,
    List.contains_iff_mem, Bool.not_eq_true', ] at h
  obtain ⟨⟨⟨h1, h2⟩, h3⟩, h4⟩ := h
  have key := runDefs_noInter (exprs.map (·.1)) exprs ρ h3
    (fun d hd => List.mem_map_of_mem hd)
    (fun d hd s hs => by
      have h5 := h4 d hd s hs
      intro hc
      have h6 := List.contains_iff_mem.2 hc
      rw [h5] at h6
      exact Bool.false_ne_true h6)
  simp only [combined, hq, if_true, BExp.eval, evalAnd_eq_all, List.all_map, retConj]
  rw [Bool.eq_iff_iff]
  simp only [List.all_eq_true, Function.comp]
  constructor
  · intro hall r hr
    obtain ⟨d, hd, rfl⟩ := List.mem_map.1 (h2 r hr)
    rw [key d hd]; exact hall d hd
  · intro hall d hd
    rw [← key d hd]; exact hall d.1 (h1 d.1 (List.mem_map_of_mem hd))

/-! ### script namespace and entry-point selection -/

theorem finalValue_name : ∀ (bs : List Binding) (e : String) (b : Binding),
    finalValue bs e = some b → b.name = e
  | [], _, _, h => by simp [finalValue] at h
  | b :: bs, e, x, h => by
      simp only [finalValue] at h
      cases hf : finalValue bs e with
      | some y => rw [hf] at h; simp at h; subst h; exact finalValue_name bs e y hf
      | none =>
        rw [hf] at h
        by_cases hb : b.name = e
        · simp [hb] at h; subst h; exact hb
        · have : (b.name == e) = false := by simpa using hb
          simp [this] at h

theorem finalValue_eq_none : ∀ (bs : List Binding) (e : String),
    finalValue bs e = none ↔ bs.any (·.name == e) = false
  | [], _ => by simp [finalValue]
  | b :: bs, e => by
      simp only [finalValue, List.any_cons, Bool.or_eq_false_iff]
      cases hf : finalValue bs e with
      | some y =>
        have : bs.any (·.name == e) = true := by
          cases h : bs.any (·.name == e)
          · have := (finalValue_eq_none bs e).2 h
            simp [hf] at this
          · rfl
        simp [this]
      | none =>
        have := (finalValue_eq_none bs e).1 hf
        by_cases hb : b.name = e
        · simp [hb]
        · have hb' : (b.name == e) = false := by simpa using hb
          simp [hb', this]

theorem mem_namespaceOf : ∀ (bs : List Binding) (x : Binding),
    x ∈ namespaceOf bs ↔ finalValue bs x.name = some x
  | [], x => by simp [namespaceOf, finalValue]
  | b :: bs, x => by
      have ih := mem_namespaceOf bs x
      simp only [namespaceOf, finalValue]
      by_cases hany : bs.any (·.name == b.name) = true
      · simp only [hany, if_true]
        rw [ih]
        cases hf : finalValue bs x.name with
        | some y => simp
        | none =>
          have h1 := (finalValue_eq_none bs x.name).1 hf
          by_cases hb : b.name = x.name
          · rw [hb] at hany; rw [hany] at h1; simp at h1
          · have hb' : (b.name == x.name) = false := by simpa using hb
            simp [hb']
      · have hany' : bs.any (·.name == b.name) = false := by simpa using hany
        simp only [hany', Bool.false_eq_true, if_false, List.mem_cons]
        rw [ih]
        cases hf : finalValue bs x.name with
        | some y =>
          simp only [Option.some.injEq]
          constructor
          · rintro (rfl | h)
            · have := (finalValue_eq_none bs x.name).2 hany'
              rw [this] at hf; simp at hf
            · exact h
          · intro h; exact Or.inr h
        | none =>
          by_cases hb : b.name = x.name
          · simp only [hb, beq_self_eq_true, if_true, Option.some.injEq]
            constructor
            · rintro (rfl | h)
              · rfl
              · simp at h
            · intro h; exact Or.inl h.symm
          · have hb' : (b.name == x.name) = false := by simpa using hb
            simp only [hb', Bool.false_eq_true, if_false]
            constructor
            · rintro (rfl | h)
              · exact absurd rfl hb
              · simp at h
            · intro h; simp at h

theorem namespaceOf_distinct : ∀ bs : List Binding,
    (namespaceOf bs).Pairwise (fun a b => a.name ≠ b.name)
  | [] => by simp [namespaceOf]
  | b :: bs => by
      simp only [namespaceOf]
      by_cases hany : bs.any (·.name == b.name) = true
      · simp only [hany, if_true]; exact namespaceOf_distinct bs
      · have hany' : bs.any (·.name == b.name) = false := by simpa using hany
        simp only [hany', Bool.false_eq_true, if_false, List.pairwise_cons]
        refine ⟨?_, namespaceOf_distinct bs⟩
        intro y hy heq
        have h1 := (mem_namespaceOf bs y).1 hy
        have h2 := (finalValue_eq_none bs b.name).2 hany'
        rw [heq] at h2; rw [h2] at h1; simp at h1

theorem getmembers_perm (bs : List Binding) : (getmembers bs).Perm (namespaceOf bs) :=
  List.mergeSort_perm _ _

theorem parseStr_perm (bs : List Binding) : (parseStr bs).Perm (qlassfMembers bs) :=
  (getmembers_perm bs).filterMap _

theorem qlassfMembers_distinct (bs : List Binding) :
    (qlassfMembers bs).Pairwise (fun a b => a.1 ≠ b.1) := by
  unfold qlassfMembers
  refine List.Pairwise.filterMap asQlassf ?_ (namespaceOf_distinct bs)
  intro a a' hne b hb b' hb'
  simp only [asQlassf, Option.map_eq_some_iff] at hb hb'
  obtain ⟨_, _, rfl⟩ := hb
  obtain ⟨_, _, rfl⟩ := hb'
  exact hne

theorem parseStr_distinct (bs : List Binding) :
    (parseStr bs).Pairwise (fun a b => a.1 ≠ b.1) :=
  ((parseStr_perm bs).pairwise_iff (fun {a b} (h : a.1 ≠ b.1) => Ne.symm h)).2
    (qlassfMembers_distinct bs)

theorem mem_parseStr (bs : List Binding) (n : String) (i : Nat) :
    (n, i) ∈ parseStr bs ↔ finalValue bs n = some { name := n, fn := some i } := by
  rw [(parseStr_perm bs).mem_iff]
  simp only [qlassfMembers, List.mem_filterMap, asQlassf, Option.map_eq_some_iff]
  constructor
  · rintro ⟨b, hb, j, hj, heq⟩
    simp only [Prod.mk.injEq] at heq
    obtain ⟨rfl, rfl⟩ := heq
    have := (mem_namespaceOf bs b).1 hb
    cases b with
    | mk name fn => simp only at hj; subst hj; exact this
  · intro h
    exact ⟨{ name := n, fn := some i }, (mem_namespaceOf bs _).2 h, i, rfl, rfl⟩

theorem find_unique : ∀ (l : List (String × Nat)) (e : String) (i : Nat),
    l.Pairwise (fun a b => a.1 ≠ b.1) → (e, i) ∈ l → l.find? (·.1 == e) = some (e, i)
  | [], _, _, _, h => by simp at h
  | x :: xs, e, i, hp, hm => by
      rw [List.pairwise_cons] at hp
      rcases List.mem_cons.1 hm with rfl | hm'
      · simp
      · have hne : x.1 ≠ e := hp.1 (e, i) hm'
        have : (x.1 == e) = false := by simpa using hne
        simp only [List.find?_cons, this]
        exact find_unique xs e i hp.2 hm'

/-! ### DIMACS -/

/-- the variable number of a symbol: position in `order` + 1 (0 when absent) -/
def num (order : List String) (s : String) : Nat :=
  match idx? s order with
  | some i => i + 1
  | none => 0

theorem idx?_isSome_of_mem : ∀ (order : List String) (s : String), s ∈ order → ∃ i, idx? s order = some i
  | [], _, h => by simp at h
  | x :: xs, s, h => by
      by_cases hx : x = s
      · exact ⟨0, by simp [idx?, hx]⟩
      · have hx' : (x == s) = false := by simpa using hx
        rcases List.mem_cons.1 h with rfl | h'
        · exact absurd rfl hx
        · obtain ⟨i, hi⟩ := idx?_isSome_of_mem xs s h'
          exact ⟨i + 1, by simp [idx?, hx', hi]⟩

theorem idx?_lt_getD : ∀ (order : List String) (s : String) (i : Nat),
    idx? s order = some i → i < order.length ∧ order.getD i "" = s
  | [], _, _, h => by simp [idx?] at h
  | x :: xs, s, i, h => by
      by_cases hx : x = s
      · simp [idx?, hx] at h; subst h; simp [hx]
      · have hx' : (x == s) = false := by simpa using hx
        simp only [idx?, hx', Bool.false_eq_true, if_false, Option.map_eq_some_iff] at h
        obtain ⟨j, hj, rfl⟩ := h
        have := idx?_lt_getD xs s j hj
        simp only [List.getD_eq_getElem?_getD] at this ⊢
        simpa using this

theorem idx?_getD_of_nodup : ∀ (order : List String) (k : Nat), order.Nodup → k < order.length →
    idx? (order.getD k "") order = some k
  | [], k, _, h => by simp at h
  | x :: xs, 0, _, _ => by simp [idx?]
  | x :: xs, k + 1, hnd, hk => by
      rw [List.nodup_cons] at hnd
      have hk' : k < xs.length := by simpa using hk
      have hmem : xs.getD k "" ∈ xs := by
        simp only [List.getD_eq_getElem?_getD, List.getElem?_eq_getElem hk', Option.getD_some]
        exact List.getElem_mem hk'
      have hne : x ≠ xs.getD k "" := fun h => hnd.1 (h ▸ hmem)
      have hne' : (x == xs.getD k "") = false := by simpa using hne
      have ih := idx?_getD_of_nodup xs k hnd.2 hk'
      have e : (x :: xs).getD (k + 1) "" = xs.getD k "" := by simp [List.getD_eq_getElem?_getD]
      rw [e]
      simp only [idx?, hne', Bool.false_eq_true, if_false, ih, Option.map_some]

/-- the DIMACS literal the tool prints for a literal -/
def litInt (order : List String) (l : Lit) : Int :=
  if l.neg then -(Int.ofNat (num order l.var)) else Int.ofNat (num order l.var)

theorem litNum_toBExp (order : List String) (l : Lit) (h : l.var ∈ order) :
    litNum order l.toBExp = .ok (litInt order l) := by
  obtain ⟨i, hi⟩ := idx?_isSome_of_mem order l.var h
  cases l with
  | mk neg var =>
    cases neg <;> simp_all [Lit.toBExp, litNum, varNum, litInt, num]

theorem mapE_ok {α β : Type} (f : α → Except String β) (g : α → β) :
    ∀ l : List α, (∀ x ∈ l, f x = .ok (g x)) → mapE f l = .ok (l.map g)
  | [], _ => rfl
  | x :: xs, h => by
      simp [mapE, h x (by simp), mapE_ok f g xs (fun y hy => h y (by simp [hy]))]

theorem evalLitNum_litInt (order : List String) (σ : Nat → Bool) (l : Lit) (h : l.var ∈ order) :
    evalLitNum σ (litInt order l) = l.eval (fun s => σ (num order s)) := by
  obtain ⟨i, hi⟩ := idx?_isSome_of_mem order l.var h
  cases l with
  | mk neg var =>
    have hA : ¬ ((i : Int) + 1 < 0) := by omega
    have hB : ((i : Int) + 1).natAbs = i + 1 := by omega
    simp only at hi
    cases neg
    · simp [litInt, num, hi, Lit.eval, evalLitNum, hA, hB]
    · simp [litInt, num, hi, Lit.eval, evalLitNum, hB]

theorem clauseBExp_eval (ρ : Env) : ∀ c : Clause, (clauseBExp c).eval ρ = c.any (Lit.eval ρ)
  | [] => rfl
  | [l] => by cases l with | mk neg var => cases neg <;> simp [clauseBExp, Lit.toBExp, Lit.eval, BExp.eval]
  | l1 :: l2 :: ls => by
      simp only [clauseBExp, BExp.eval, evalOr_eq_any, List.any_map]
      congr 1
      funext l
      cases l with | mk neg var => cases neg <;> simp [Lit.toBExp, Lit.eval, BExp.eval]

theorem cnfBExp_eval (ρ : Env) : ∀ cs : List Clause, (cnfBExp cs).eval ρ = evalClauses ρ cs
  | [] => rfl
  | [c] => by simp [cnfBExp, evalClauses, clauseBExp_eval]
  | c1 :: c2 :: cs => by
      simp only [cnfBExp, BExp.eval, evalAnd_eq_all, List.all_map, evalClauses]
      congr 1
      funext c
      simp [clauseBExp_eval]

theorem clauseLits_clauseBExp (q : Quirks) (c : Clause) (h : c = [] → q.dimacsAtomCnf = false) :
    clauseLits q (clauseBExp c) = c.map Lit.toBExp := by
  match c, h with
  | [], h => simp [clauseBExp, clauseLits, h rfl]
  | [l], _ => cases l with | mk neg var => cases neg <;> simp [clauseBExp, clauseLits, Lit.toBExp]
  | l1 :: l2 :: ls, _ => simp [clauseBExp, clauseLits]

theorem clauseList_cnfBExp (q : Quirks) (cs : List Clause) (h : dimacsTriggers q cs = false) :
    clauseList q (cnfBExp cs) = .ok (cs.map clauseBExp) := by
  match cs, h with
  | [], _ => simp [cnfBExp, clauseList, buggyShape, fixedClauses]
  | [[]], h =>
    simp [dimacsTriggers] at h
    simp [cnfBExp, clauseBExp, clauseList, buggyShape, fixedClauses, h]
  | [[l]], h =>
    simp [dimacsTriggers] at h
    cases l with
    | mk neg var => cases neg <;> simp [cnfBExp, clauseBExp, Lit.toBExp, clauseList, buggyShape, fixedClauses, h]
  | [l1 :: l2 :: ls], h =>
    simp [dimacsTriggers] at h
    simp [cnfBExp, clauseBExp, clauseList, buggyShape, fixedClauses, h]
  | c1 :: c2 :: cs, _ =>
    have e : cnfBExp (c1 :: c2 :: cs) = .and ((c1 :: c2 :: cs).map clauseBExp) := rfl
    rw [e]
    unfold clauseList
    by_cases hb : buggyShape q (BExp.and (List.map clauseBExp (c1 :: c2 :: cs))) = true
    · rw [if_pos hb]; simp [codeClauses, args]
    · rw [if_neg hb]; simp [fixedClauses]

theorem mapE_map_ok {α β γ : Type} (f : β → Except String γ) (g : α → β) (h : α → γ) :
    ∀ l : List α, (∀ x ∈ l, f (g x) = .ok (h x)) → mapE f (l.map g) = .ok (l.map h)
  | [], _ => rfl
  | x :: xs, hx => by
      simp [mapE, hx x (by simp), mapE_map_ok f g h xs (fun y hy => hx y (by simp [hy]))]

theorem atom_flag_of_not_triggered (q : Quirks) (cs : List Clause)
    (ht : dimacsTriggers q cs = false) : ([] : Clause) ∈ cs → q.dimacsAtomCnf = false := by
  intro hc
  match cs, ht, hc with
  | [[]], ht, _ => simpa [dimacsTriggers] using ht
  | [_ :: _], _, hc => simp at hc
  | c1 :: c2 :: rest, ht, hc =>
    cases hq : q.dimacsAtomCnf with
    | false => rfl
    | true =>
      have : (c1 :: c2 :: rest).any (fun c => c.isEmpty) = true :=
        List.any_eq_true.2 ⟨[], hc, rfl⟩
      simp [dimacsTriggers, hq, this] at ht

/-- what `convert_to_dimacs` computes on a CNF that avoids the listed defects -/
theorem toDimacs_cnfBExp (q : Quirks) (cs : List Clause) (order : List String)
    (hv : ∀ s ∈ clauseVars cs, s ∈ order) (ht : dimacsTriggers q cs = false) :
    toDimacs q (cnfBExp cs) order
      = .ok { nvars := order.length, clauses := cs.map (fun c => c.map (litInt order)) } := by
  have hinner : ∀ c ∈ cs, mapE (litNum order) (clauseLits q (clauseBExp c))
      = .ok (c.map (litInt order)) := by
    intro c hc
    rw [clauseLits_clauseBExp q c (fun he => atom_flag_of_not_triggered q cs ht (he ▸ hc))]
    apply mapE_map_ok
    intro l hl
    exact litNum_toBExp order l (hv _ (List.mem_flatMap.2 ⟨c, hc, List.mem_map_of_mem hl⟩))
  have houter := mapE_map_ok (fun c => mapE (litNum order) (clauseLits q c)) clauseBExp
    (fun c => c.map (litInt order)) cs hinner
  simp only [toDimacs, clauseList_cnfBExp q cs ht, houter]

theorem all_congr_mem {α : Type} (p q : α → Bool) : ∀ l : List α, (∀ x ∈ l, p x = q x) → l.all p = l.all q
  | [], _ => rfl
  | x :: xs, h => by
      simp [List.all_cons, h x (by simp), all_congr_mem p q xs (fun y hy => h y (by simp [hy]))]

theorem any_congr_mem {α : Type} (p q : α → Bool) : ∀ l : List α, (∀ x ∈ l, p x = q x) → l.any p = l.any q
  | [], _ => rfl
  | x :: xs, h => by
      simp [List.any_cons, h x (by simp), any_congr_mem p q xs (fun y hy => h y (by simp [hy]))]

theorem dimacs_eval_litInt (cs : List Clause) (order : List String) (σ : Nat → Bool)
    (hv : ∀ s ∈ clauseVars cs, s ∈ order) :
    Dimacs.eval σ { nvars := order.length, clauses := cs.map (fun c => c.map (litInt order)) }
      = evalClauses (fun s => σ (num order s)) cs := by
  simp only [Dimacs.eval, evalClauses, List.all_map]
  apply all_congr_mem
  intro c hc
  simp only [Function.comp, List.any_map]
  apply any_congr_mem
  intro l hl
  exact evalLitNum_litInt order σ l (hv _ (List.mem_flatMap.2 ⟨c, hc, List.mem_map_of_mem hl⟩))

end QV.Tools
