import QV.Props.C02
import QV.Model.Codec
import QV.Proofs.Codec
import QV.Proofs.EndToEnd
/-!
# From the compiler model to the codec round trip (C05 end to end)

`QV.C05.C05_statement` is about **every** gate list that computes a bit-level function `F` on a list of
output qubits (hypothesis `Computes`).  `QV.C02.C02_general_partial` proves, for the model of the compiler,
that every successful compilation of a definition list of the decidable class `inGeneralClass` is
`C02.Correct`.  This file connects the two.

The two models write things differently:

| | compiler model (`QV.Compiler`, `QV.C02`) | codec model (`QV.Codec`, `QV.C05`) |
|---|---|---|
| bit names | strings (`"a.0"`, `"_ret.1"`) | structural `Name` (`⟨"a", [0]⟩`), printed by `Name.render` |
| `qubit_map` | `List (String × Nat)` read by `dictGet?` | `QMap` (`List (Name × Nat)` read by `dictGet`, + `numQubits`) |
| input state | `Compiler.initState x nq` | `x ++ List.replicate (nq - n) false` (= `Codec.initState nq (encode_input …)`, `C05.init_state_layout`) |
| what is computed | per return name: `∃ q, qmap[r] = q ∧ final[q] = ⟦r⟧` | the list `oq.map final = F x` |

* `inputBitNames` / `retBitNames` – the `inputs` / `ret` lists `InternalCompiler.compile` is called with:
  the printed names of `[b for a in args for b in a.bitvec]` and of `returns.bitvec`;
* `bitFun` – the bit-level function a definition list denotes on the return names;
* `qmapView` – the compiled circuit's `qubit_map` seen as a `QMap` on a list of bit names
  (`qmapView_get`: same lookups; `qmapView_WF`);
* `computes_of_correct` – `C02.Correct` ⇒ the output qubit list exists, is what the string-keyed map
  says, and the gate list computes `bitFun` on it (the unfolded form of `C05.Computes`);
* `compile_computes` – the bridge for every successful run of `compile` on a definition list of
  `inGeneralClass` (from `C02.C02_general_partial`, `C02.compile_bookkeeping`);
* `compile_inputs_on_qubits` – when no definition re-binds an argument (`C02.inputsFresh`), the `j`-th
  argument bit is mapped to qubit `j` in the view of the final map (from `C02.compile_inputs_first`).

`QV.Proofs.EndToEnd` is imported for `EndToEnd.sortNat_eq` (kernel evaluation of `compile` in the example of
`Props/C05.lean`).

No injectivity of `Name.render` is assumed: the class asks that the *printed* argument names are distinct.
-/
namespace QV.EndToEnd05
open QV QV.Types QV.Codec

/-- the `inputs` list of `InternalCompiler.compile`: printed names of `[b for a in args for b in a.bitvec]` -/
def inputBitNames (sig : List (String × QTy)) : List String :=
  (inputSymbols (translateArguments sig)).map Name.render

/-- the `ret` list of `InternalCompiler.compile`: printed names of `returns.bitvec` -/
def retBitNames (ret : QTy) : List String := (retArg ret).bitvec.map Name.render

/-- the bit-level function a definition list denotes on the names `rets`, as a function of the argument
bits (argument `i` = `inputs[i]`); definitions evaluated sequentially, unbound names read `false` -/
def bitFun (inputs : List String) (defs : List (String × BExp)) (rets : List String) :
    List Bool → List Bool :=
  fun x => rets.map fun r => envOf (Compiler.evalDefs defs (inputs.zip x)) r

/-- a string-keyed `qubit_map` of a circuit with `nq` qubits seen as the codec model's `QMap` on the bit
names `ns` (one entry per name of `ns` that is a key) -/
def qmapView (ns : List Name) (nq : Nat) (qmap : List (String × Nat)) : QMap :=
  { numQubits := nq
    entries := ns.filterMap fun n => (Compiler.dictGet? qmap n.render).map fun q => (n, q) }

/-- the view of the final `qubit_map` of a compilation of `sig → ret` on the argument and return bit names -/
def compiledMap (sig : List (String × QTy)) (ret : QTy) (s : Compiler.CState) : QMap :=
  qmapView (inputSymbols (translateArguments sig) ++ (retArg ret).bitvec) s.qc.numQubits s.qc.qmap

/-! ## The view reads what the string-keyed map reads -/

theorem qmapView_get (ns : List Name) (nq : Nat) (qmap : List (String × Nat)) (n : Name) :
    (qmapView ns nq qmap).get n = if n ∈ ns then Compiler.dictGet? qmap n.render else none := by
  unfold qmapView QMap.get
  simp only
  induction ns with
  | nil => simp [dictGet]
  | cons a r ih =>
    simp only [List.filterMap_cons]
    cases hq : Compiler.dictGet? qmap a.render with
    | none =>
      simp only [Option.map_none]
      rw [ih]
      by_cases hna : n = a
      · subst hna; simp [hq]
      · simp [hna]
    | some q =>
      simp only [Option.map_some, dictGet]
      by_cases hna : a = n
      · subst hna; simp [hq]
      · have hna' : ¬ n = a := fun h => hna h.symm
        simp [hna, hna', ih]

theorem qmapView_get_mem {ns : List Name} {nq : Nat} {qmap : List (String × Nat)} {n : Name}
    (h : n ∈ ns) : (qmapView ns nq qmap).get n = Compiler.dictGet? qmap n.render := by
  rw [qmapView_get, if_pos h]

theorem qmapView_numQubits (ns : List Name) (nq : Nat) (qmap : List (String × Nat)) :
    (qmapView ns nq qmap).numQubits = nq := rfl

/-- every index of the view is a qubit when every index of the string-keyed map is -/
theorem qmapView_WF (ns : List Name) (nq : Nat) (qmap : List (String × Nat))
    (h : ∀ p ∈ qmap, p.2 < nq) : (qmapView ns nq qmap).WF := by
  intro e he
  simp only [qmapView, List.mem_filterMap, Option.map_eq_some_iff] at he
  obtain ⟨n, _, q, hq, rfl⟩ := he
  exact h _ (Compiler.dictGet?_mem hq)

/-- `output_qubits` through the view: defined as soon as every name is a key of the string-keyed map, and
then it is that map's reading of the printed names, in order -/
theorem outputQubits_view (ns bv : List Name) (nq : Nat) (qmap : List (String × Nat))
    (hsub : ∀ n ∈ bv, n ∈ ns)
    (hkeys : ∀ n ∈ bv, ∃ q, Compiler.dictGet? qmap n.render = some q) :
    ∃ oq, outputQubits (qmapView ns nq qmap) bv = some oq ∧
      oq.map some = (bv.map Name.render).map (Compiler.dictGet? qmap) := by
  have hsome : (outputQubits (qmapView ns nq qmap) bv).isSome := by
    rw [outputQubits_some_iff]
    intro n hn
    obtain ⟨q, hq⟩ := hkeys n hn
    rw [qmapView_get_mem (hsub n hn), hq]; rfl
  obtain ⟨oq, hoq⟩ := Option.isSome_iff_exists.mp hsome
  refine ⟨oq, hoq, ?_⟩
  obtain ⟨hl, hg⟩ := outputQubits_spec _ bv oq hoq
  apply List.ext_getElem
  · simp [hl]
  · intro i h1 h2
    simp only [List.length_map] at h1 h2
    have := hg i h2
    rw [qmapView_get_mem (hsub _ (List.getElem_mem h2)), List.getElem?_eq_getElem h1] at this
    simp [this]

/-! ## `Correct` ⇒ `Computes` -/

/-- **`C02.Correct` ⇒ `C05.Computes`** (unfolded; `Computes` is defined in `Props/C05.lean`): if a circuit is
`Correct` for the printed return bit names `bv`, then `output_qubits` is defined on the view of its map, it
is the string-keyed map's reading of the names in order, and the gate list – started with the input bits on
qubits `0..n-1` and zeros elsewhere – leaves `bitFun inputs defs rets x` on these qubits. -/
theorem computes_of_correct {gates : List AGate} {nq : Nat} {qmap : List (String × Nat)}
    {inputs : List String} {defs : List (String × BExp)} (ns bv : List Name)
    (hsub : ∀ n ∈ bv, n ∈ ns)
    (hc : C02.Correct gates nq qmap inputs defs (bv.map Name.render)) :
    ∃ oq, outputQubits (qmapView ns nq qmap) bv = some oq ∧
      oq.map some = (bv.map Name.render).map (Compiler.dictGet? qmap) ∧
      ∀ x : List Bool, x.length = inputs.length →
        oq.map (fun q => (runClassical gates (x ++ List.replicate (nq - inputs.length) false)).getD q false)
          = bitFun inputs defs (bv.map Name.render) x := by
  have hkeys : ∀ n ∈ bv, ∃ q, Compiler.dictGet? qmap n.render = some q := by
    intro n hn
    obtain ⟨q, hq, _⟩ := hc (List.replicate inputs.length false) (by simp) n.render
      (List.mem_map.mpr ⟨n, hn, rfl⟩)
    exact ⟨q, hq⟩
  obtain ⟨oq, hoq, hmap⟩ := outputQubits_view ns bv nq qmap hsub hkeys
  refine ⟨oq, hoq, hmap, ?_⟩
  intro x hx
  have hlen : oq.length = bv.length := by
    have := congrArg List.length hmap
    simpa using this
  apply List.ext_getElem
  · simp [bitFun, hlen]
  · intro i h1 h2
    simp only [List.length_map] at h1
    have hi : i < bv.length := by omega
    obtain ⟨q, hq, hv⟩ := hc x hx bv[i].render (List.mem_map.mpr ⟨bv[i], List.getElem_mem hi, rfl⟩)
    have hqi : oq[i] = q := by
      have := congrArg (fun l => l[i]?) hmap
      simp only [List.getElem?_map, List.getElem?_eq_getElem h1, List.getElem?_eq_getElem hi,
        Option.map_some, hq, Option.some.injEq] at this
      exact this
    simp only [bitFun, List.getElem_map, hqi]
    rw [← hv, ← hx]
    rfl

/-! ## The bridge for every compilation of the general class -/

theorem inputBitNames_length (sig : List (String × QTy)) :
    (inputBitNames sig).length = sizeList (sig.map (·.2)) := by
  have h : ∀ l : List (String × QTy),
      (inputSymbols (translateArguments l)).length = sizeList (l.map (·.2)) := by
    intro l
    induction l with
    | nil => rfl
    | cons a r ih =>
      simp only [translateArguments, List.map_cons, inputSymbols, List.length_append, sizeList] at ih ⊢
      rw [ih]
      simp [translateArgument, argNames_length]
  simp [inputBitNames, h]

/-- **Bridge.**  For every signature, return type and definition list of `inGeneralClass` over the printed
argument and return bit names, every successful run of the compiler model (final uncomputation on or off,
every ancilla-choice sequence): `output_qubits` is defined on the view `compiledMap` of the final `qubit_map`,
the view is well formed, the output qubits are the string-keyed map's reading of the return bit names, and the
compiled gate list computes `bitFun` on them (the hypotheses `m.WF`, `outputQubits m … = some oq`,
`Computes gs m.numQubits n oq F` of `C05_statement`). -/
theorem compile_computes (sig : List (String × QTy)) (ret : QTy) (defs : List (String × BExp))
    (unc : Bool) (choices : List Nat) (s : Compiler.CState)
    (hcls : Compiler.inGeneralClass (inputBitNames sig) defs (retBitNames ret) = true)
    (h : (Compiler.compile (inputBitNames sig) defs (some (retBitNames ret)) unc).run
        { choices := choices } = .ok ((), s)) :
    ∃ oq, outputQubits (compiledMap sig ret s) (retArg ret).bitvec = some oq ∧
      (compiledMap sig ret s).WF ∧
      oq.map some = (retBitNames ret).map (Compiler.dictGet? s.qc.qmap) ∧
      ∀ x : List Bool, x.length = sizeList (sig.map (·.2)) →
        oq.map (fun q => (runClassical s.qc.gates.toList
            (x ++ List.replicate ((compiledMap sig ret s).numQubits - sizeList (sig.map (·.2))) false)).getD q false)
          = bitFun (inputBitNames sig) defs (retBitNames ret) x := by
  have hc := C02.C02_general_partial _ defs _ unc choices s hcls h
  obtain ⟨oq, hoq, hmap, hcomp⟩ :=
    computes_of_correct (inputSymbols (translateArguments sig) ++ (retArg ret).bitvec) (retArg ret).bitvec
      (fun n hn => List.mem_append_right _ hn) hc
  refine ⟨oq, hoq, ?_, hmap, ?_⟩
  · exact qmapView_WF _ _ _ (C02.compile_bookkeeping _ defs _ unc choices s h).2.2.2.1
  · intro x hx
    have := hcomp x (by rw [inputBitNames_length]; exact hx)
    rw [inputBitNames_length] at this
    exact this

/-- **arguments on qubits `0..n-1` of the compiled map**: when no definition re-binds an argument bit and the
printed argument bit names are distinct and not reserved (`C02.inputsFresh`, decidable), the `j`-th argument
bit name – arguments in order, tuples depth-first – is mapped to qubit `j` in the view of the final
`qubit_map` of every successful run, and these qubits exist. -/
theorem compile_inputs_on_qubits (sig : List (String × QTy)) (ret : QTy) (defs : List (String × BExp))
    (rets : Option (List String)) (unc : Bool) (choices : List Nat) (s : Compiler.CState)
    (hfresh : C02.inputsFresh (inputBitNames sig) defs = true)
    (h : (Compiler.compile (inputBitNames sig) defs rets unc).run { choices := choices } = .ok ((), s)) :
    sizeList (sig.map (·.2)) ≤ (compiledMap sig ret s).numQubits ∧
    ∀ (j : Nat) (hj : j < (inputSymbols (translateArguments sig)).length),
      (compiledMap sig ret s).get (inputSymbols (translateArguments sig))[j] = some j := by
  obtain ⟨hle, hpos⟩ := C02.compile_inputs_first _ defs rets unc choices s h hfresh
  refine ⟨by rw [← inputBitNames_length]; exact hle, ?_⟩
  intro j hj
  unfold compiledMap
  rw [qmapView_get_mem (List.mem_append_left _ (List.getElem_mem hj))]
  apply hpos j
  simp [inputBitNames, List.getElem?_eq_getElem hj]

end QV.EndToEnd05
