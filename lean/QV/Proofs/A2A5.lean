import QV.Proofs.A2A4
/-! `ast2ast` preserves the source-level meaning, part 5: the induction over statements (`if` nested to any
depth through else branches, `elif`, test variables re-assigned inside the branches; `for` loops unrolled with
the loop variable replaced by its value). -/
namespace QV.A2A
open QV QV.Front QV.Sem

set_option linter.unusedSimpArgs false
set_option linter.unusedVariables false

/-- what the main lemma says of one rewriting step under the replacements `θ`, from state `st` to `st'` with
result `L` -/
def StepOK (θ : Subst) (st st' : RSt) (L : List SStmt) (noIf noFor : Bool)
    (run : List (SVal × Bool) → SEnv → Option SEnv) : Prop :=
  KnownOK st' ∧ st.uniq ≤ st'.uniq ∧ (∀ x ∈ L, GoodS st.uniq st'.uniq x) ∧ (noIf = true → st'.uniq = st.uniq) ∧
  ∀ (Γ : List (String × Bool)) (gs : List (SVal × Bool)) (σs σr σr' : SEnv), Rel σs σr → ThetaOK θ σs →
    guardVals σr Γ = some gs → GammaFresh st.uniq st'.uniq Γ → (noIf = false → elseOnly Γ = true) →
    (noFor = false → Γ = []) →
    runA σr (wrapF Γ (L.map toStmt)) = some σr' →
    ∃ σs', run gs σs = some σs' ∧ Rel σs' σr' ∧ ThetaOK θ σs' ∧ Frame st.uniq st'.uniq σr σr'

theorem substE_nil (e : SExp) : substE [] e = e := rfl

theorem frame_of_all {lo hi : Nat} {σr σr' : SEnv} (h : ∀ n, isIfTarg n = true → σr' n = σr n) :
    Frame lo hi σr σr' := fun n hn _ => h n hn

theorem goodS_user (lo hi : Nat) (t : String) (v : SExp) (ht : userName t = true) :
    GoodS lo hi (.assign [.name t] v) := ⟨t, v, rfl, Or.inl ht⟩

theorem goodS_dunder (lo hi : Nat) (t : String) (v : SExp) (ht : userName t = true) :
    GoodS lo hi (.assign [.name ("__" ++ t)] v) := ⟨_, v, rfl, Or.inr (Or.inl ⟨t, ht, rfl⟩)⟩

theorem gammaFresh_names {lo hi : Nat} {Γ : List (String × Bool)} (h : GammaFresh lo hi Γ) :
    ∀ p ∈ Γ, isIfTarg p.1 = true := fun p hp => (h p hp).1

theorem elseOnly_snoc (Γ : List (String × Bool)) (g : String) (h : elseOnly Γ = true) :
    elseOnly (Γ ++ [(g, false)]) = true := by
  simp only [elseOnly, List.all_append, Bool.and_eq_true] at h ⊢
  exact ⟨h, by simp⟩

theorem gammaFresh_snoc {lo hi : Nat} {Γ : List (String × Bool)} (h : GammaFresh lo hi Γ) (k : Nat) (w : Bool)
    (hk : hi < k) : GammaFresh lo hi (Γ ++ [(iftargName k, w)]) := by
  intro p hp
  simp only [List.mem_append, List.mem_singleton] at hp
  rcases hp with hp | rfl
  · exact h p hp
  · exact ⟨isIfTarg_iftarg k, fun k' _ hk2 heq => by have := iftargName_inj heq; omega⟩

theorem guardVals_frame {lo hi : Nat} {σ σ' : SEnv} {Γ : List (String × Bool)} (hf : Frame lo hi σ σ')
    (hΓ : GammaFresh lo hi Γ) : guardVals σ' Γ = guardVals σ Γ :=
  guardVals_congr _ _ _ (fun p hp => hf p.1 (hΓ p hp).1 (hΓ p hp).2)


theorem okS_assign_inv (ts : List SExp) (e : SExp) (h : okS (.assign ts e) = true) :
    ∃ t, ts = [.name t] ∧ userName t = true ∧ plainE e = true := by
  cases ts with
  | nil => simp [okS] at h
  | cons a r =>
    cases r with
    | cons b r' => cases a <;> simp [okS] at h
    | nil =>
      cases a with
      | name t =>
        simp only [okS, Bool.and_eq_true] at h
        exact ⟨t, rfl, h.1, h.2⟩
      | _ => simp [okS] at h

theorem okS_aug_inv (tg : SExp) (op : String) (e : SExp) (h : okS (.aug tg op e) = true) :
    ∃ t, tg = .name t ∧ userName t = true ∧ plainE (.bin op (.name t) e) = true := by
  cases tg with
  | name t =>
    simp only [okS, Bool.and_eq_true] at h
    exact ⟨t, rfl, h.1, h.2⟩
  | _ => simp [okS] at h

theorem okS_for_inv (tg it : SExp) (b e : List SStmt) (h : okS (.for_ tg it b e) = true) :
    ∃ v, tg = .name v ∧ userName v = true ∧ closedIter it = true ∧ okSs b = true ∧ okSs e = true := by
  cases tg with
  | name v =>
    simp only [okS, Bool.and_eq_true] at h
    exact ⟨v, rfl, h.1.1.1, h.1.1.2, h.1.2, h.2⟩
  | _ => simp [okS] at h

/-! ### replacements and syntax -/

theorem thetaOK_IB {θ : Subst} {σ : SEnv} (h : ThetaOK θ σ) : ∀ p ∈ θ, isIB p.2 = true := fun p hp => (h p hp).2.1

theorem substE_bin (op : String) (l r : SExp) : ∀ θ : Subst, substE θ (.bin op l r) = .bin op (substE θ l) (substE θ r)
  | [] => rfl
  | p :: θ => by rw [substE_cons, substE_cons, substE_cons]; simp only [subst1]; exact substE_bin op _ _ θ

theorem subst1s_allIntLit (v : String) (c : SExp) : ∀ es : List SExp, allIntLit es = true → subst1s v c es = es
  | [], _ => rfl
  | e :: es, h => by
    simp only [allIntLit, Bool.and_eq_true] at h
    simp only [subst1s, subst1_isIntLit v c e h.1, subst1s_allIntLit v c es h.2]

theorem subst1_isIB (v : String) (c : SExp) (e : SExp) (h : isIB e = true) : subst1 v c e = e := by
  cases e with
  | const k => rfl
  | _ => simp [isIB] at h

theorem subst1s_allIB (v : String) (c : SExp) : ∀ es : List SExp, allIB es = true → subst1s v c es = es
  | [], _ => rfl
  | e :: es, h => by
    simp only [allIB, Bool.and_eq_true] at h
    simp only [subst1s, subst1_isIB v c e h.1, subst1s_allIB v c es h.2]

theorem subst1_closedIter (v : String) (c : SExp) (it : SExp) (h : closedIter it = true) : subst1 v c it = it := by
  cases it with
  | call fn args =>
    simp only [closedIter, Bool.and_eq_true] at h
    simp only [subst1, subst1s_allIntLit v c args h.2]
  | tuple es => simp only [closedIter] at h; simp only [subst1, subst1s_allIB v c es h]
  | list es => simp only [closedIter] at h; simp only [subst1, subst1s_allIB v c es h]
  | _ => simp [closedIter] at h

theorem substE_closedIter (it : SExp) (h : closedIter it = true) : ∀ θ : Subst, substE θ it = it
  | [] => rfl
  | p :: θ => by rw [substE_cons, subst1_closedIter p.1 p.2 it h]; exact substE_closedIter it h θ

/-! ### the iterator -/

theorem plainEs_allIntLit : ∀ es : List SExp, allIntLit es = true → plainEs es = true
  | [], _ => rfl
  | e :: es, h => by
    simp only [allIntLit, Bool.and_eq_true] at h
    simp only [plainEs, Bool.and_eq_true]
    refine ⟨?_, plainEs_allIntLit es h.2⟩
    cases e with
    | const k => cases k <;> simp [isIntLit, plainE] at h ⊢
    | _ => simp [isIntLit] at h

theorem plainEs_allIB : ∀ es : List SExp, allIB es = true → plainEs es = true
  | [], _ => rfl
  | e :: es, h => by
    simp only [allIB, Bool.and_eq_true] at h
    simp only [plainEs, Bool.and_eq_true]
    exact ⟨isIB_plain h.1, plainEs_allIB es h.2⟩

theorem foldEs_allIntLit : ∀ es : List SExp, allIntLit es = true → foldEs es = .ok es
  | [], _ => by simp [foldEs, pure, Except.pure]
  | e :: es, h => by
    simp only [allIntLit, Bool.and_eq_true] at h
    cases e with
    | const k => simp [foldEs, foldE, foldEs_allIntLit es h.2, bind, Except.bind, pure, Except.pure]
    | _ => have h1 := h.1; simp [isIntLit] at h1

theorem allConst_allIntLit : ∀ es : List SExp, allIntLit es = true → allConst es = true
  | [], _ => rfl
  | e :: es, h => by
    simp only [allIntLit, Bool.and_eq_true] at h
    cases e with
    | const k => simp [allConst, allConst_allIntLit es h.2]
    | _ => have h1 := h.1; simp [isIntLit] at h1

theorem constInts_allIntLit : ∀ es : List SExp, allIntLit es = true →
    ∃ ints, constInts es = .ok ints ∧ litInts es = some ints
  | [], _ => ⟨[], by simp [constInts, pure, Except.pure], rfl⟩
  | e :: es, h => by
    simp only [allIntLit, Bool.and_eq_true] at h
    obtain ⟨ints, h1, h2⟩ := constInts_allIntLit es h.2
    cases e with
    | const k =>
      cases k with
      | int v => exact ⟨v :: ints, by simp [constInts, h1, bind, Except.bind, pure, Except.pure], by simp [litInts, h2]⟩
      | _ => have h1 := h.1; simp [isIntLit] at h1
    | _ => have h1 := h.1; simp [isIntLit] at h1

theorem iterVals_allIB : ∀ es : List SExp, allIB es = true → iterVals es = .ok es ∧ constExps es = some es
  | [], _ => ⟨by simp [iterVals, pure, Except.pure], rfl⟩
  | e :: es, h => by
    simp only [allIB, Bool.and_eq_true] at h
    obtain ⟨h1, h2⟩ := iterVals_allIB es h.2
    cases e with
    | const k => exact ⟨by simp [iterVals, iterVal, h1, bind, Except.bind, pure, Except.pure], by simp [constExps, h2]⟩
    | _ => have h1 := h.1; simp [isIB] at h1

theorem allIB_mem : ∀ es : List SExp, allIB es = true → ∀ e ∈ es, isIB e = true
  | [], _, e, he => by simp at he
  | x :: es, h, e, he => by
    simp only [allIB, Bool.and_eq_true] at h
    simp only [List.mem_cons] at he
    rcases he with rfl | he
    · exact h.1
    · exact allIB_mem es h.2 e he

/-- on an iterator of the class, `forIter` returns the values `staticVals` gives, all literals -/
theorem forIter_static (it : SExp) (h : closedIter it = true) (st st' : RSt) (vals : List SExp)
    (hr : (forIter it).run st = .ok (vals, st')) :
    staticVals it = some vals ∧ SameCore st st' ∧ ∀ v ∈ vals, isIB v = true := by
  cases it with
  | call fn args =>
    simp only [closedIter, Bool.and_eq_true, beq_iff_eq] at h
    obtain ⟨rfl, hargs⟩ := h
    obtain ⟨ints, hci, hli⟩ := constInts_allIntLit args hargs
    simp only [forIter, rm_bind_ok] at hr
    obtain ⟨_, s1, hn, a1, s2, hv, a2, s3, hf, hr⟩ := hr
    rw [rm_visitMs_ok, visitEs_plain _ args (plainEs_allIntLit args hargs)] at hv
    obtain ⟨hv, rfl⟩ := hv
    simp only [Except.ok.injEq] at hv
    subst hv
    rw [rm_liftX_ok, foldEs_allIntLit args hargs] at hf
    obtain ⟨hf, rfl⟩ := hf
    simp only [Except.ok.injEq] at hf
    subst hf
    simp only [allConst_allIntLit args hargs, Bool.not_true, Bool.false_eq_true, if_false, rm_bind_ok] at hr
    obtain ⟨ints', s4, hc', hr⟩ := hr
    rw [rm_liftX_ok, hci] at hc'
    obtain ⟨hc', rfl⟩ := hc'
    simp only [Except.ok.injEq] at hc'
    subst hc'
    have hc := note_core _ _ _ _ hn
    simp only [staticVals, hli]
    split at hr
    · simp only [rm_pure_ok] at hr
      obtain ⟨rfl, rfl⟩ := hr
      exact ⟨rfl, hc, fun v hv => by simp only [List.mem_map] at hv; obtain ⟨i, _, rfl⟩ := hv; rfl⟩
    · simp only [rm_pure_ok] at hr
      obtain ⟨rfl, rfl⟩ := hr
      exact ⟨rfl, hc, fun v hv => by simp only [List.mem_map] at hv; obtain ⟨i, _, rfl⟩ := hv; rfl⟩
    · split at hr
      · simp only [rm_throw_ok] at hr
      · rename_i hs
        simp only [rm_pure_ok] at hr
        obtain ⟨rfl, rfl⟩ := hr
        simp only [hs, Bool.false_eq_true, if_false, true_and]
        exact ⟨hc, fun v hv => by simp only [List.mem_map] at hv; obtain ⟨i, _, rfl⟩ := hv; rfl⟩
    · simp only [rm_throw_ok] at hr
  | tuple es =>
    simp only [closedIter] at h
    obtain ⟨h1, h2⟩ := iterVals_allIB es h
    simp only [forIter, rm_bind_ok] at hr
    obtain ⟨_, s1, hn, a1, s2, hv, hr⟩ := hr
    rw [rm_visitMs_ok, visitEs_plain _ es (plainEs_allIB es h)] at hv
    obtain ⟨hv, rfl⟩ := hv
    simp only [Except.ok.injEq] at hv
    subst hv
    rw [rm_liftX_ok, h1] at hr
    obtain ⟨hr, rfl⟩ := hr
    simp only [Except.ok.injEq] at hr
    subst hr
    exact ⟨by simp [staticVals, h2], note_core _ _ _ _ hn, allIB_mem _ h⟩
  | list es =>
    simp only [closedIter] at h
    obtain ⟨h1, h2⟩ := iterVals_allIB es h
    simp only [forIter, rm_bind_ok] at hr
    obtain ⟨_, s1, hn, a1, s2, hv, hr⟩ := hr
    rw [rm_visitMs_ok, visitEs_plain _ es (plainEs_allIB es h)] at hv
    obtain ⟨hv, rfl⟩ := hv
    simp only [Except.ok.injEq] at hv
    subst hv
    rw [rm_liftX_ok, h1] at hr
    obtain ⟨hr, rfl⟩ := hr
    simp only [Except.ok.injEq] at hr
    subst hr
    exact ⟨by simp [staticVals, h2], note_core _ _ _ _ hn, allIB_mem _ h⟩
  | _ => simp [closedIter] at h

/-! ### the loop -/

/-- one iteration of a `for` in the source semantics -/
def forStep (gs : List (SVal × Bool)) (v : String) (b : List SStmt) (σ : SEnv) (val : SExp) : Option SEnv :=
  match semW σ (toP val) with
  | some x =>
    match assignG gs σ v x with
    | some σ1 => execList gs σ1 b
    | none => none
  | none => none

theorem exec_for (gs : List (SVal × Bool)) (σ : SEnv) (v : String) (it : SExp) (b e : List SStmt) :
    exec gs σ (.for_ (.name v) it b e) = match staticVals it with
      | some vals =>
        match vals.foldlM (forStep gs v b) σ with
        | some σ1 => execList gs σ1 e
        | none => none
      | none => none := by
  simp only [exec]
  rfl

/-- two rewriting steps one after the other -/
theorem stepOK_seq {θ : Subst} {st s1 st' : RSt} {L1 L2 : List SStmt} {a1 c1 a2 c2 : Bool}
    {run1 run2 : List (SVal × Bool) → SEnv → Option SEnv}
    (h1 : StepOK θ st s1 L1 a1 c1 run1) (h2 : StepOK θ s1 st' L2 a2 c2 run2) :
    StepOK θ st st' (L1 ++ L2) (a1 && a2) (c1 && c2)
      (fun gs σ => match run1 gs σ with | some σ1 => run2 gs σ1 | none => none) := by
  obtain ⟨hk1, hu1, hg1, hn1, hs1⟩ := h1
  obtain ⟨hk2, hu2, hg2, hn2, hs2⟩ := h2
  refine ⟨hk2, by omega, ?_, ?_, ?_⟩
  · intro x hx
    simp only [List.mem_append] at hx
    rcases hx with hx | hx
    · exact (hg1 x hx).mono (Nat.le_refl _) hu2
    · exact (hg2 x hx).mono hu1 (Nat.le_refl _)
  · intro hh
    simp only [Bool.and_eq_true] at hh
    rw [hn2 hh.2, hn1 hh.1]
  · intro Γ gs σs σr σr' hrel hθ hgs hΓ helse hfor hrun
    simp only [List.map_append, wrapF_append, runA_append] at hrun
    cases hr1 : runA σr (wrapF Γ (L1.map toStmt)) with
    | none => simp [hr1] at hrun
    | some σ1 =>
      simp only [hr1] at hrun
      have helse1 : a1 = false → elseOnly Γ = true := fun hh => helse (by simp [hh])
      have helse2 : a2 = false → elseOnly Γ = true := fun hh => helse (by simp [hh])
      have hfor1 : c1 = false → Γ = [] := fun hh => hfor (by simp [hh])
      have hfor2 : c2 = false → Γ = [] := fun hh => hfor (by simp [hh])
      have hΓ1 : GammaFresh st.uniq s1.uniq Γ := hΓ.mono (Nat.le_refl _) hu2
      have hΓ2 := hΓ.mono hu1 (Nat.le_refl _)
      obtain ⟨σs1, hex1, hrel1, hθ1, hfr1⟩ := hs1 Γ gs σs σr σ1 hrel hθ hgs hΓ1 helse1 hfor1 hr1
      have hgs1 : guardVals σ1 Γ = some gs := by rw [guardVals_frame hfr1 hΓ1]; exact hgs
      obtain ⟨σs2, hex2, hrel2, hθ2, hfr2⟩ := hs2 Γ gs σs1 σ1 σr' hrel1 hθ1 hgs1 hΓ2 helse2 hfor2 hrun
      refine ⟨σs2, by simp only [hex1, hex2], hrel2, hθ2, ?_⟩
      intro n hn hfresh
      rw [hfr2 n hn (fun k hk1 hk2 => hfresh k (by omega) hk2),
        hfr1 n hn (fun k hk1 hk2 => hfresh k hk1 (by omega))]

theorem stepOK_congr {θ : Subst} {st st' : RSt} {L : List SStmt} {a c a' c' : Bool}
    {run run' : List (SVal × Bool) → SEnv → Option SEnv} (h : StepOK θ st st' L a c run)
    (ha : a' = a) (hc : c' = c) (hr : ∀ gs σ, run' gs σ = run gs σ) : StepOK θ st st' L a' c' run' := by
  subst ha hc
  have : run' = run := by funext gs σ; exact hr gs σ
  rw [this]; exact h

theorem stepOK_of_uniq {θ : Subst} {st s1 st' : RSt} {L : List SStmt} {a c : Bool}
    {run : List (SVal × Bool) → SEnv → Option SEnv} (h : StepOK θ s1 st' L a c run) (hu : s1.uniq = st.uniq) :
    StepOK θ st st' L a c run := by
  unfold StepOK at h ⊢
  rw [hu] at h
  exact h

theorem thetaOK_snoc {θ : Subst} {σ : SEnv} {v : String} {val : SExp} (h : ThetaOK θ σ) (hv : userName v = true)
    (hval : isIB val = true) (hσ : σ v = semW σ (toP val)) : ThetaOK (θ ++ [(v, val)]) σ := by
  intro p hp
  simp only [List.mem_append, List.mem_singleton] at hp
  rcases hp with hp | rfl
  · exact h p hp
  · exact ⟨hv, hval, hσ⟩

theorem thetaOK_of_snoc {θ : Subst} {σ : SEnv} {q : String × SExp} (h : ThetaOK (θ ++ [q]) σ) : ThetaOK θ σ :=
  fun p hp => h p (List.mem_append_left _ hp)

theorem mentions_IB {c : SExp} (h : isIB c = true) (n : String) : mentions n (toP c) = false := by
  cases c with
  | const k => cases k <;> simp [isIB, toP, mentions] at h ⊢
  | _ => simp [isIB] at h

theorem forLoop_ml (θ : Subst) (v : String) (b : List SStmt) (hv : userName v = true) (hvθ : ∀ p ∈ θ, p.1 ≠ v)
    (IH : ∀ val, isIB val = true → ∀ (st st' : RSt) (L : List SStmt),
      (rwSs (θ ++ [(v, val)]) b).run st = .ok (L, st') → KnownOK st →
      StepOK (θ ++ [(v, val)]) st st' L (!hasIfs b) (!hasFors b) (fun gs σs => execList gs σs b)) :
    ∀ (vals : List SExp), (∀ val ∈ vals, isIB val = true) → ∀ (st st' : RSt) (L : List SStmt),
      (forLoop (.name v) (fun v val => rwSs (θ ++ [(v, val)]) b) vals).run st = .ok (L, st') → KnownOK st →
      StepOK θ st st' L (!hasIfs b) false (fun gs σs => vals.foldlM (forStep gs v b) σs)
  | [], _, st, st', L, h, hk => by
    simp only [forLoop, rm_pure_ok] at h
    obtain ⟨rfl, rfl⟩ := h
    refine ⟨hk, Nat.le_refl _, fun x hx => by simp at hx, fun _ => rfl, ?_⟩
    intro Γ gs σs σr σr' hrel hθ _ _ _ _ hrun
    simp only [List.map_nil, wrapF_nil, runA, Option.some.injEq] at hrun
    subst hrun
    exact ⟨σs, rfl, hrel, hθ, fun n _ _ => rfl⟩
  | val :: vals, hvals, st, st', L, h, hk => by
    have hval : isIB val = true := hvals val (List.mem_cons_self)
    simp only [forLoop, rm_bind_ok, rm_pure_ok] at h
    obtain ⟨v0, s0, ⟨hv0, hs0⟩, _, s1, hsc, tar, s2, hta, Lb, s3, hb, rest, s4, hrest, hL, hst⟩ := h
    subst v0 s0 L st'
    have hg1 := knownGrows_setConstantNode _ _ _ _ _ hsc
    have hk1 : KnownOK s1 := hk.grows hg1 (userName_not_dunder hv)
    obtain ⟨hk2, hu2, htar⟩ := visitAssign_inv v val hv (isIB_plain hval) s1 s2 tar hta hk1
    obtain ⟨hk3, hu3, hg3, hn3, hs3⟩ := IH val hval s2 s3 Lb hb hk2
    obtain ⟨hk4, hu4, hg4, hn4, hs4⟩ := forLoop_ml θ v b hv hvθ IH vals
      (fun x hx => hvals x (List.mem_cons_of_mem _ hx)) s3 _ rest hrest hk3
    have hu12 : s2.uniq = st.uniq := by rw [hu2, hg1.1]
    refine ⟨hk4, by omega, ?_, ?_, ?_⟩
    · intro x hx
      simp only [List.mem_append] at hx
      rcases hx with (hx | hx) | hx
      · rcases htar with rfl | rfl
        · simp only [List.mem_singleton] at hx; subst hx; exact goodS_user _ _ v _ hv
        · simp only [List.mem_cons, List.mem_nil_iff, or_false] at hx
          rcases hx with rfl | rfl
          · exact goodS_dunder _ _ v _ hv
          · exact goodS_user _ _ v _ hv
      · exact (hg3 x hx).mono (by omega) hu4
      · exact (hg4 x hx).mono (by omega) (Nat.le_refl _)
    · intro hh
      rw [hn4 hh, hn3 hh, hu12]
    · intro Γ gs σs σr σr' hrel hθ hgs hΓ _ hnf hrun
      have hΓe : Γ = [] := hnf rfl
      subst hΓe
      simp only [guardVals, Option.some.injEq] at hgs
      subst hgs
      simp only [wrapF, List.map_append, runA_append] at hrun
      cases hr1 : runA σr (tar.map toStmt) with
      | none => simp [hr1] at hrun
      | some σ1 =>
        simp only [hr1] at hrun
        cases hr2 : runA σ1 (Lb.map toStmt) with
        | none => simp [hr2] at hrun
        | some σ2 =>
          simp only [hr2] at hrun
          have hF : tar.map toStmt = [.assign v (toP val)] ∨
              tar.map toStmt = [.assign ("__" ++ v) (toP val), .assign v (.name ("__" ++ v))] := by
            rcases htar with rfl | rfl
            · exact Or.inl rfl
            · exact Or.inr rfl
          obtain ⟨x, σs1, hx, ha, hrel1, hfr1⟩ := assign_sim v (toP val) hv
            (fun n hn => by rw [mentions_IB hval n] at hn; cases hn) _ hF [] [] σs σr σ1 hrel rfl
            (fun p hp => by simp at hp) (by simpa [wrapF] using hr1)
          simp only [assignG, Option.some.injEq] at ha
          subst ha
          have hθ1 : ThetaOK (θ ++ [(v, val)]) (σs.set v x) :=
            thetaOK_snoc (hθ.set v x hvθ) hv hval (by rw [set_eq, ← semW_toP_IB σs _ hval, hx])
          obtain ⟨σs2, hex2, hrel2, hθ2, hfr2⟩ := hs3 [] [] (σs.set v x) σ1 σ2 hrel1 hθ1 rfl
            (fun p hp => by simp at hp) (fun _ => rfl) (fun _ => rfl) (by simpa [wrapF] using hr2)
          obtain ⟨σs', hex', hrel', hθ', hfr'⟩ := hs4 [] [] σs2 σ2 σr' hrel2 (thetaOK_of_snoc hθ2) rfl
            (fun p hp => by simp at hp) (fun _ => rfl) (fun _ => rfl) (by simpa [wrapF] using hrun)
          refine ⟨σs', ?_, hrel', hθ', ?_⟩
          · have hstep : forStep [] v b σs val = some σs2 := by
              simp only [forStep, hx, assignG]
              exact hex2
            simp only [List.foldlM_cons, hstep]
            exact hex'
          · intro n hn hfresh
            rw [hfr' n hn (fun k hk1 hk2 => hfresh k (by omega) hk2),
              hfr2 n hn (fun k hk1 hk2 => hfresh k (by omega) (by omega)), hfr1 n hn]

theorem forLoop_const (k : Const) (f : String → SExp → RM (List SStmt)) (vals : List SExp) (st st' : RSt)
    (L : List SStmt) (h : (forLoop (.const k) f vals).run st = .ok (L, st')) : vals = [] ∧ L = [] ∧ st' = st := by
  cases vals with
  | nil =>
    simp only [forLoop, rm_pure_ok] at h
    exact ⟨rfl, h.1, h.2⟩
  | cons val vals =>
    simp only [forLoop, rm_bind_ok, rm_throw_ok, false_and, exists_false] at h

/-! ### the induction -/

theorem substE_plain' : ∀ (θ : Subst), (∀ p ∈ θ, isIB p.2 = true) → ∀ e, plainE e = true → plainE (substE θ e) = true
  | [], _, _, h => h
  | p :: θ, hib, e, h => by
    rw [substE_cons]
    exact substE_plain' θ (fun q hq => hib q (List.mem_cons_of_mem _ hq)) _
      (subst1_plain p.1 p.2 (hib p (List.mem_cons_self)) e h)

mutual
theorem ml_stmt : ∀ (s : SStmt), okS s = true → ∀ (θ : Subst) (st st' : RSt) (L : List SStmt),
    (rwS θ s).run st = .ok (L, st') → KnownOK st → (∀ p ∈ θ, isIB p.2 = true) →
    StepOK θ st st' L (!hasIf s) (!hasFor s) (fun gs σs => exec gs σs s)
  | .assign ts e', hok, θ, st, st', L, h, hk, hib => by
    obtain ⟨t, rfl, ht, he⟩ := okS_assign_inv ts e' hok
    simp only [rwS, List.map_cons, List.map_nil] at h
    rcases substE_name θ hib t with ⟨hname, htθ⟩ | ⟨k, hconst⟩
    · rw [hname] at h
      have hpl : plainE (substE θ e') = true := substE_plain' θ hib e' he
      obtain ⟨hk', hu, hL⟩ := visitAssign_inv t (substE θ e') ht hpl st st' L h hk
      refine ⟨hk', by omega, ?_, fun _ => hu, ?_⟩
      · rcases hL with rfl | rfl
        · intro x hx; simp only [List.mem_singleton] at hx; subst hx; exact goodS_user _ _ t _ ht
        · intro x hx
          simp only [List.mem_cons, List.mem_nil_iff, or_false] at hx
          rcases hx with rfl | rfl
          · exact goodS_dunder _ _ t _ ht
          · exact goodS_user _ _ t _ ht
      · intro Γ gs σs σr σr' hrel hθ hgs hΓ _ _ hrun
        have hF : L.map toStmt = [.assign t (toP (substE θ e'))] ∨
            L.map toStmt = [.assign ("__" ++ t) (toP (substE θ e')), .assign t (.name ("__" ++ t))] := by
          rcases hL with rfl | rfl
          · exact Or.inl rfl
          · exact Or.inr rfl
        obtain ⟨v, σs', hv, ha, hrel', hfr⟩ := assign_sim t (toP (substE θ e')) ht
          (fun n hn => mentions_plain n _ hpl hn) _ hF Γ gs σs σr σr' hrel hgs (gammaFresh_names hΓ) hrun
        rw [substE_sem θ σs hθ e' he] at hv
        refine ⟨σs', by simp only [exec, hv, ha], hrel', ?_, frame_of_all hfr⟩
        -- the source environment changed at `t` only, which is no loop variable
        cases gs with
        | nil =>
          simp only [assignG, Option.some.injEq] at ha
          subst ha
          exact hθ.set t v htθ
        | cons g gs =>
          simp only [assignG] at ha
          cases ho : σs t with
          | none => simp [ho] at ha
          | some o =>
            simp only [ho] at ha
            cases hw : wrapW (g :: gs) v o with
            | none => simp [hw] at ha
            | some w =>
              simp only [hw, Option.some.injEq] at ha
              subst ha
              exact hθ.set t w htθ
    · rw [hconst] at h
      simp only [visitAssign, rm_bind_ok, rm_throw_ok, false_and, exists_false] at h
  | .aug tg op' e', hok, θ, st, st', L, h, hk, hib => by
    obtain ⟨t, rfl, ht, hp⟩ := okS_aug_inv tg op' e' hok
    simp only [rwS] at h
    rcases substE_name θ hib t with ⟨hname, htθ⟩ | ⟨k, hconst⟩
    · rw [hname] at h
      have hbin : substE θ (.bin op' (.name t) e') = .bin op' (.name t) (substE θ e') := by
        rw [substE_bin, hname]
      have hpl : plainE (.bin op' (.name t) (substE θ e')) = true := by
        rw [← hbin]; exact substE_plain' θ hib _ hp
      obtain ⟨hc, rfl⟩ := visitAug_inv t op' (substE θ e') hpl st st' L h
      refine ⟨hk.core hc, Nat.le_of_eq hc.1.symm, ?_, fun _ => hc.1, ?_⟩
      · intro x hx
        simp only [List.mem_cons, List.mem_nil_iff, or_false] at hx
        rcases hx with rfl | rfl
        · exact goodS_dunder _ _ t _ ht
        · exact goodS_user _ _ t _ ht
      · intro Γ gs σs σr σr' hrel hθ hgs hΓ _ _ hrun
        obtain ⟨v, σs', hv, ha, hrel', hfr⟩ := assign_sim t (toP (.bin op' (.name t) (substE θ e'))) ht
          (fun n hn => mentions_plain n _ hpl hn) _ (Or.inr rfl) Γ gs σs σr σr' hrel hgs (gammaFresh_names hΓ) hrun
        rw [← hbin, substE_sem θ σs hθ _ hp] at hv
        refine ⟨σs', by simp only [exec, hv, ha], hrel', ?_, frame_of_all hfr⟩
        cases gs with
        | nil =>
          simp only [assignG, Option.some.injEq] at ha
          subst ha
          exact hθ.set t v htθ
        | cons g gs =>
          simp only [assignG] at ha
          cases ho : σs t with
          | none => simp [ho] at ha
          | some o =>
            simp only [ho] at ha
            cases hw : wrapW (g :: gs) v o with
            | none => simp [hw] at ha
            | some w =>
              simp only [hw, Option.some.injEq] at ha
              subst ha
              exact hθ.set t w htθ
    · rw [hconst] at h
      simp only [visitAug, rm_bind_ok, rm_throw_ok, false_and, exists_false] at h
  | .ifs c b e, hok, θ, st, st', L, h, hk, hib => by
    simp only [okS, Bool.and_eq_true, Bool.not_eq_true'] at hok
    obtain ⟨⟨⟨⟨⟨hc, hb⟩, hnb⟩, he⟩, hfb⟩, hfe⟩ := hok
    have hpl : plainE (substE θ c) = true := substE_plain' θ hib c hc
    simp only [rwS, rm_bind_ok, rm_liftX_ok, rm_visitM_ok, rm_get_ok, rm_pure_ok, visitE_plain _ _ hpl,
      Except.ok.injEq] at h
    obtain ⟨b', s1, hrb, e', s2, hre, _, s3, hnote, hx, s4, hnu, _, _, ⟨rfl, rfl⟩, _, _, ⟨rfl, rfl⟩,
      gb, _, ⟨hgb, rfl⟩, ge, _, ⟨hge, rfl⟩, rfl, rfl⟩ := h
    obtain ⟨hk1, hu1, hg1, hn1, hs1⟩ := ml_list b hb θ st s1 b' hrb hk hib
    obtain ⟨hk2, hu2, hg2, hn2, hs2⟩ := ml_list e he θ s1 s2 e' hre hk1 hib
    have hc3 := noteIf_core _ _ _ _ _ _ hnote
    obtain ⟨hxe, hu4, hkn4⟩ := nextUniq_inv _ _ _ hnu
    have hu3 : s3.uniq = s2.uniq := hc3.1
    have hs1u : s1.uniq = st.uniq := hn1 (by simp [hnb])
    have hk4 : KnownOK st' := by
      intro n hn
      rw [hkn4, hc3.known] at hn
      exact hk2 n hn
    have hgname : "_iftarg" ++ hx = iftargName (s2.uniq + 1) := by rw [hxe, hu3]; rfl
    rw [hgname] at hgb hge ⊢
    have hab : ∀ s ∈ b', IsAssign s := fun s hs => (hg1 s hs).isAssign
    have hae : ∀ s ∈ e', IsAssign s := fun s hs => (hg2 s hs).isAssign
    rw [guardBody_ok _ hk4 _ b' hab] at hgb
    rw [guardElse_ok _ hk4 _ e' hae] at hge
    simp only [Except.ok.injEq] at hgb hge
    subst hgb hge
    have hu' : st'.uniq = s2.uniq + 1 := by rw [hu4, hu3]
    refine ⟨hk4, by omega, ?_, fun hh => by simp [hasIf] at hh, ?_⟩
    · intro x hx
      simp only [List.mem_cons, List.mem_append, List.mem_map] at hx
      rcases hx with rfl | ⟨y, hy, rfl⟩ | ⟨y, hy, rfl⟩
      · exact ⟨_, _, rfl, Or.inr (Or.inr ⟨s2.uniq + 1, by omega, by omega, rfl⟩)⟩
      · exact ((hg1 y hy).mono (Nat.le_refl _) (by omega)).sBody _
      · exact ((hg2 y hy).mono (by omega) (by omega)).sElse _
    · intro Γ gs σs σr σr' hrel hθ hgs hΓ helse _ hrun
      have helse' : elseOnly Γ = true := helse (by simp [hasIf])
      have hgi := isIfTarg_iftarg (s2.uniq + 1)
      have hgd := isDunder_iftarg (s2.uniq + 1)
      -- the shape of the wrapped list
      have hshape : wrapF Γ ((SStmt.assign [.name (iftargName (s2.uniq + 1))] (substE θ c) ::
            (b'.map (sBody (iftargName (s2.uniq + 1))) ++ e'.map (sElse (iftargName (s2.uniq + 1))))).map toStmt)
          = [Front.Stmt.assign (iftargName (s2.uniq + 1)) (toP (substE θ c))]
            ++ (wrapF (Γ ++ [(iftargName (s2.uniq + 1), true)]) (b'.map toStmt)
            ++ wrapF (Γ ++ [(iftargName (s2.uniq + 1), false)]) (e'.map toStmt)) := by
        simp only [List.map_cons, List.map_append, map_toStmt_sBody _ b' hab, map_toStmt_sElse _ e' hae]
        have : (toStmt (SStmt.assign [.name (iftargName (s2.uniq + 1))] (substE θ c)) ::
              ((b'.map toStmt).map (fBody (iftargName (s2.uniq + 1))) ++
               (e'.map toStmt).map (fElse (iftargName (s2.uniq + 1)))))
            = [Front.Stmt.assign (iftargName (s2.uniq + 1)) (toP (substE θ c))] ++
              ((b'.map toStmt).map (fBody (iftargName (s2.uniq + 1))) ++
               (e'.map toStmt).map (fElse (iftargName (s2.uniq + 1)))) := rfl
        rw [this, wrapF_append, wrapF_append, wrapF_guard_assign Γ _ _ hgi hgd helse', wrapF_snoc, wrapF_snoc]
        rfl
      rw [hshape, runA_append] at hrun
      simp only [runA] at hrun
      cases hgv : semW σr (toP (substE θ c)) with
      | none => simp [hgv] at hrun
      | some gv =>
        simp only [hgv] at hrun
        rw [runA_append] at hrun
        have hcs : semW σs (toP c) = some gv := by
          rw [← hgv, ← substE_sem θ σs hθ c hc]
          exact (semW_congr' σr σs _ (fun n hn => hrel n (mentions_plain n _ hpl hn))).symm
        -- the guard is a new name
        have hΓne : ∀ p ∈ Γ, p.1 ≠ iftargName (s2.uniq + 1) :=
          fun p hp => (hΓ p hp).2 (s2.uniq + 1) (by omega) (by omega)
        have hgs1 : guardVals (σr.set (iftargName (s2.uniq + 1)) gv) Γ = some gs := by
          rw [guardVals_congr σr _ Γ (fun p hp => set_ne _ _ _ _ (hΓne p hp))]; exact hgs
        have hrel1 : Rel σs (σr.set (iftargName (s2.uniq + 1)) gv) := hrel.set_temp _ gv (userName_iftarg _)
        cases hr1 : runA (σr.set (iftargName (s2.uniq + 1)) gv)
            (wrapF (Γ ++ [(iftargName (s2.uniq + 1), true)]) (b'.map toStmt)) with
        | none => simp [hr1] at hrun
        | some σ2 =>
          simp only [hr1] at hrun
          have hΓb : GammaFresh st.uniq s1.uniq (Γ ++ [(iftargName (s2.uniq + 1), true)]) :=
            gammaFresh_snoc (hΓ.mono (Nat.le_refl _) (by omega)) _ _ (by omega)
          obtain ⟨σsb, hexb, hrelb, hθb, hfrb⟩ := hs1 (Γ ++ [(iftargName (s2.uniq + 1), true)]) (gs ++ [(gv, true)])
            σs _ σ2 hrel1 hθ (guardVals_snoc _ Γ gs _ true gv hgs1 (set_eq _ _ _)) hΓb
            (fun hh => by simp [hnb] at hh) (fun hh => by simp [hfb] at hh) hr1
          have hΓe0 : GammaFresh st.uniq s1.uniq (Γ ++ [(iftargName (s2.uniq + 1), false)]) :=
            gammaFresh_snoc (hΓ.mono (Nat.le_refl _) (by omega)) _ _ (by omega)
          have hΓe : GammaFresh s1.uniq s2.uniq (Γ ++ [(iftargName (s2.uniq + 1), false)]) :=
            gammaFresh_snoc (hΓ.mono (by omega) (by omega)) _ _ (by omega)
          have hgse : guardVals σ2 (Γ ++ [(iftargName (s2.uniq + 1), false)]) = some (gs ++ [(gv, false)]) := by
            rw [guardVals_frame hfrb hΓe0]
            exact guardVals_snoc _ Γ gs _ false gv hgs1 (set_eq _ _ _)
          obtain ⟨σse, hexe, hrele, hθe, hfre⟩ := hs2 (Γ ++ [(iftargName (s2.uniq + 1), false)]) (gs ++ [(gv, false)])
            σsb σ2 σr' hrelb hθb hgse hΓe (fun _ => elseOnly_snoc Γ _ helse') (fun hh => by simp [hfe] at hh) hrun
          refine ⟨σse, by simp only [exec, hcs, hexb, hexe], hrele, hθe, ?_⟩
          intro n hn hfresh
          have h1 : σ2 n = (σr.set (iftargName (s2.uniq + 1)) gv) n :=
            hfrb n hn (fun k hk1 hk2 => hfresh k hk1 (by omega))
          have h2 : σr' n = σ2 n := hfre n hn (fun k hk1 hk2 => hfresh k (by omega) (by omega))
          rw [h2, h1, set_ne _ _ _ _ (hfresh (s2.uniq + 1) (by omega) (by omega))]
  | .for_ tg it b e, hok, θ, st, st', L, h, hk, hib => by
    obtain ⟨v, rfl, hv, hit, hb, he⟩ := okS_for_inv tg it b e hok
    simp only [rwS, rm_bind_ok, rm_pure_ok, substE_closedIter it hit θ] at h
    obtain ⟨_, s0, hnote, vals, s1, hiter, Lr, s2, hloop, Le, s3, htail, rfl, rfl⟩ := h
    have hc0 := noteFor_core _ _ _ _ hnote
    obtain ⟨hstatic, hc1, hvals⟩ := forIter_static it hit s0 s1 vals hiter
    have hk1 : KnownOK s1 := (hk.core hc0).core hc1
    have hu1 : s1.uniq = st.uniq := by rw [hc1.1, hc0.1]
    have hloopOK : StepOK θ s1 s2 Lr (!hasIfs b) false (fun gs σs => vals.foldlM (forStep gs v b) σs) := by
      rcases substE_name θ hib v with ⟨hname, hvθ⟩ | ⟨k, hconst⟩
      · rw [hname] at hloop
        exact forLoop_ml θ v b hv hvθ
          (fun val hval s s' L' hr hks => ml_list b hb (θ ++ [(v, val)]) s s' L' hr hks (by
            intro p hp
            simp only [List.mem_append, List.mem_singleton] at hp
            rcases hp with hp | rfl
            · exact hib p hp
            · exact hval))
          vals hvals s1 s2 Lr hloop hk1
      · rw [hconst] at hloop
        obtain ⟨rfl, rfl, rfl⟩ := forLoop_const k _ vals s1 s2 Lr hloop
        refine ⟨hk1, Nat.le_refl _, fun x hx => by simp at hx, fun _ => rfl, ?_⟩
        intro Γ gs σs σr σr' hrel hθ _ _ _ _ hrun
        simp only [List.map_nil, wrapF_nil, runA, Option.some.injEq] at hrun
        subst hrun
        exact ⟨σs, rfl, hrel, hθ, fun n _ _ => rfl⟩
    have htailOK := ml_list e he θ s2 _ Le htail hloopOK.1 hib
    refine stepOK_of_uniq (stepOK_congr (stepOK_seq hloopOK htailOK) ?_ ?_ ?_) hu1
    · simp [hasIf, Bool.not_or]
    · simp [hasFor]
    · intro gs σ
      rw [exec_for, hstatic]
  | .ann _ _ _, hok, _, _, _, _, _, _, _ => by simp [okS] at hok
  | .ret _, hok, _, _, _, _, _, _, _ => by simp [okS] at hok
  | .expr _, hok, _, _, _, _, _, _, _ => by simp [okS] at hok
  | .other _, hok, _, _, _, _, _, _, _ => by simp [okS] at hok
theorem ml_list : ∀ (ss : List SStmt), okSs ss = true → ∀ (θ : Subst) (st st' : RSt) (L : List SStmt),
    (rwSs θ ss).run st = .ok (L, st') → KnownOK st → (∀ p ∈ θ, isIB p.2 = true) →
    StepOK θ st st' L (!hasIfs ss) (!hasFors ss) (fun gs σs => execList gs σs ss)
  | [], _, θ, st, st', L, h, hk, _ => by
    simp only [rwSs, rm_pure_ok] at h
    obtain ⟨rfl, rfl⟩ := h
    refine ⟨hk, Nat.le_refl _, fun x hx => by simp at hx, fun _ => rfl, ?_⟩
    intro Γ gs σs σr σr' hrel hθ _ _ _ _ hrun
    simp only [List.map_nil, wrapF_nil, runA, Option.some.injEq] at hrun
    subst hrun
    exact ⟨σs, rfl, hrel, hθ, fun n _ _ => rfl⟩
  | s :: ss, hok, θ, st, st', L, h, hk, hib => by
    simp only [okSs, Bool.and_eq_true] at hok
    simp only [rwSs, rm_bind_ok, rm_pure_ok] at h
    obtain ⟨L1, s1, h1, L2, s2, h2, rfl, rfl⟩ := h
    obtain ⟨hk1, hu1, hg1, hn1, hs1⟩ := ml_stmt s hok.1 θ st s1 L1 h1 hk hib
    obtain ⟨hk2, hu2, hg2, hn2, hs2⟩ := ml_list ss hok.2 θ s1 _ L2 h2 hk1 hib
    refine ⟨hk2, by omega, ?_, ?_, ?_⟩
    · intro x hx
      simp only [List.mem_append] at hx
      rcases hx with hx | hx
      · exact (hg1 x hx).mono (Nat.le_refl _) hu2
      · exact (hg2 x hx).mono hu1 (Nat.le_refl _)
    · intro hh
      simp only [hasIfs, Bool.not_eq_true', Bool.or_eq_false_iff] at hh
      rw [hn2 (by simp [hh.2]), hn1 (by simp [hh.1])]
    · intro Γ gs σs σr σr' hrel hθ hgs hΓ helse hfor hrun
      simp only [List.map_append, wrapF_append, runA_append] at hrun
      cases hr1 : runA σr (wrapF Γ (L1.map toStmt)) with
      | none => simp [hr1] at hrun
      | some σ1 =>
        simp only [hr1] at hrun
        have helse1 : (!hasIf s) = false → elseOnly Γ = true := by
          intro hh; apply helse; simp only [Bool.not_eq_false'] at hh; simp [hasIfs, hh]
        have helse2 : (!hasIfs ss) = false → elseOnly Γ = true := by
          intro hh; apply helse; simp only [Bool.not_eq_false'] at hh; simp [hasIfs, hh]
        have hfor1 : (!hasFor s) = false → Γ = [] := by
          intro hh; apply hfor; simp only [Bool.not_eq_false'] at hh; simp [hasFors, hh]
        have hfor2 : (!hasFors ss) = false → Γ = [] := by
          intro hh; apply hfor; simp only [Bool.not_eq_false'] at hh; simp [hasFors, hh]
        have hΓ1 : GammaFresh st.uniq s1.uniq Γ := hΓ.mono (Nat.le_refl _) hu2
        have hΓ2 := hΓ.mono hu1 (Nat.le_refl _)
        obtain ⟨σs1, hex1, hrel1, hθ1, hfr1⟩ := hs1 Γ gs σs σr σ1 hrel hθ hgs hΓ1 helse1 hfor1 hr1
        have hgs1 : guardVals σ1 Γ = some gs := by rw [guardVals_frame hfr1 hΓ1]; exact hgs
        obtain ⟨σs2, hex2, hrel2, hθ2, hfr2⟩ := hs2 Γ gs σs1 σ1 σr' hrel1 hθ1 hgs1 hΓ2 helse2 hfor2 hrun
        refine ⟨σs2, by simp only [execList, hex1, hex2], hrel2, hθ2, ?_⟩
        intro n hn hfresh
        rw [hfr2 n hn (fun k hk1 hk2 => hfresh k (by omega) hk2),
          hfr1 n hn (fun k hk1 hk2 => hfresh k hk1 (by omega))]
end

end QV.A2A
