import QV.Proofs.A2A4
/-! `ast2ast` preserves the source-level meaning, part 5: the induction over statements (`if` nested to any
depth through else branches, `elif`, test variables re-assigned inside the branches). -/
namespace QV.A2A
open QV QV.Front QV.Sem

set_option linter.unusedSimpArgs false
set_option linter.unusedVariables false

/-- what the main lemma says of one rewriting step from state `st` to `st'` with result `L` -/
def StepOK (st st' : RSt) (L : List SStmt) (noIf : Bool) (run : List (SVal × Bool) → SEnv → Option SEnv) : Prop :=
  KnownOK st' ∧ st.uniq ≤ st'.uniq ∧ (∀ x ∈ L, GoodS st.uniq st'.uniq x) ∧ (noIf = true → st'.uniq = st.uniq) ∧
  ∀ (Γ : List (String × Bool)) (gs : List (SVal × Bool)) (σs σr σr' : SEnv), Rel σs σr →
    guardVals σr Γ = some gs → GammaFresh st.uniq st'.uniq Γ → (noIf = false → elseOnly Γ = true) →
    runA σr (wrapF Γ (L.map toStmt)) = some σr' →
    ∃ σs', run gs σs = some σs' ∧ Rel σs' σr' ∧ Frame st.uniq st'.uniq σr σr'

theorem substE_nil (e : SExp) : substE [] e = e := rfl

theorem frame_of_all {lo hi : Nat} {σr σr' : SEnv} (h : ∀ n, isIfTarg n = true → σr' n = σr n) :
    Frame lo hi σr σr' := fun n hn _ => h n hn

theorem goodS_user (lo hi : Nat) (t : String) (v : SExp) (ht : userName t = true) :
    GoodS lo hi (.assign [.name t] v) := ⟨t, v, rfl, Or.inl ht⟩

theorem goodS_dunder (lo hi : Nat) (t : String) (v : SExp) (ht : userName t = true) :
    GoodS lo hi (.assign [.name ("__" ++ t)] v) := ⟨_, v, rfl, Or.inr (Or.inl ⟨t, ht, rfl⟩)⟩

theorem gammaFresh_names {lo hi : Nat} {Γ : List (String × Bool)} (h : GammaFresh lo hi Γ) :
    ∀ p ∈ Γ, isIfTarg p.1 = true := fun p hp => (h p hp).1

theorem elseOnly_snoc (Γ : List (String × Bool)) (g : String) (h : elseOnly Γ = true) :
    elseOnly (Γ ++ [(g, false)]) = true := by
  simp only [elseOnly, List.all_append, Bool.and_eq_true] at h ⊢
  exact ⟨h, by simp⟩

theorem gammaFresh_snoc {lo hi : Nat} {Γ : List (String × Bool)} (h : GammaFresh lo hi Γ) (k : Nat) (w : Bool)
    (hk : hi < k) : GammaFresh lo hi (Γ ++ [(iftargName k, w)]) := by
  intro p hp
  simp only [List.mem_append, List.mem_singleton] at hp
  rcases hp with hp | rfl
  · exact h p hp
  · exact ⟨isIfTarg_iftarg k, fun k' _ hk2 heq => by have := iftargName_inj heq; omega⟩

theorem guardVals_frame {lo hi : Nat} {σ σ' : SEnv} {Γ : List (String × Bool)} (hf : Frame lo hi σ σ')
    (hΓ : GammaFresh lo hi Γ) : guardVals σ' Γ = guardVals σ Γ :=
  guardVals_congr _ _ _ (fun p hp => hf p.1 (hΓ p hp).1 (hΓ p hp).2)

theorem okS_assign_inv (ts : List SExp) (e : SExp) (h : okS (.assign ts e) = true) :
    ∃ t, ts = [.name t] ∧ userName t = true ∧ plainE e = true := by
  cases ts with
  | nil => simp [okS] at h
  | cons a r =>
    cases r with
    | cons b r' => cases a <;> simp [okS] at h
    | nil =>
      cases a with
      | name t =>
        simp only [okS, Bool.and_eq_true] at h
        exact ⟨t, rfl, h.1, h.2⟩
      | _ => simp [okS] at h

theorem okS_aug_inv (tg : SExp) (op : String) (e : SExp) (h : okS (.aug tg op e) = true) :
    ∃ t, tg = .name t ∧ userName t = true ∧ (binName op).isSome = true ∧ plainE e = true := by
  cases tg with
  | name t =>
    simp only [okS, Bool.and_eq_true] at h
    exact ⟨t, rfl, h.1.1, h.1.2, h.2⟩
  | _ => simp [okS] at h

mutual
theorem ml_stmt : ∀ (s : SStmt), okS s = true → ∀ (st st' : RSt) (L : List SStmt),
    (rwS [] s).run st = .ok (L, st') → KnownOK st →
    StepOK st st' L (!hasIf s) (fun gs σs => exec gs σs s)
  | .assign ts e', hok, st, st', L, h, hk => by
    obtain ⟨t, rfl, ht, he⟩ := okS_assign_inv ts e' hok
    simp only [rwS, List.map_cons, List.map_nil, substE_nil] at h
    obtain ⟨hk', hu, hL⟩ := visitAssign_inv t e' ht he st st' L h hk
    refine ⟨hk', by omega, ?_, fun _ => hu, ?_⟩
    · rcases hL with rfl | rfl
      · intro x hx; simp only [List.mem_singleton] at hx; subst hx; exact goodS_user _ _ t _ ht
      · intro x hx
        simp only [List.mem_cons, List.mem_nil_iff, or_false] at hx
        rcases hx with rfl | rfl
        · exact goodS_dunder _ _ t _ ht
        · exact goodS_user _ _ t _ ht
    · intro Γ gs σs σr σr' hrel hgs hΓ _ hrun
      have hF : L.map toStmt = [.assign t (toP e')] ∨
          L.map toStmt = [.assign ("__" ++ t) (toP e'), .assign t (.name ("__" ++ t))] := by
        rcases hL with rfl | rfl
        · exact Or.inl rfl
        · exact Or.inr rfl
      obtain ⟨v, σs', hv, ha, hrel', hfr⟩ := assign_sim t (toP e') ht (fun n hn => mentions_plain n e' he hn)
        _ hF Γ gs σs σr σr' hrel hgs (gammaFresh_names hΓ) hrun
      exact ⟨σs', by simp only [exec, hv, ha], hrel', frame_of_all hfr⟩
  | .aug tg op' e', hok, st, st', L, h, hk => by
    obtain ⟨t, rfl, ht, hop, he⟩ := okS_aug_inv tg op' e' hok
    simp only [rwS, substE_nil] at h
    obtain ⟨hc, rfl⟩ := visitAug_inv t op' e' ht hop he st st' L h
    refine ⟨hk.core hc, Nat.le_of_eq hc.1.symm, ?_, fun _ => hc.1, ?_⟩
    · intro x hx
      simp only [List.mem_cons, List.mem_nil_iff, or_false] at hx
      rcases hx with rfl | rfl
      · exact goodS_dunder _ _ t _ ht
      · exact goodS_user _ _ t _ ht
    · intro Γ gs σs σr σr' hrel hgs hΓ _ hrun
      have hp : plainE (.bin op' (.name t) e') = true := by simp [plainE, hop, ht, he]
      obtain ⟨v, σs', hv, ha, hrel', hfr⟩ := assign_sim t (toP (.bin op' (.name t) e')) ht
        (fun n hn => mentions_plain n _ hp hn) _ (Or.inr rfl) Γ gs σs σr σr' hrel hgs (gammaFresh_names hΓ) hrun
      exact ⟨σs', by simp only [exec, hv, ha], hrel', frame_of_all hfr⟩
  | .ifs c b e, hok, st, st', L, h, hk => by
    simp only [okS, Bool.and_eq_true, Bool.not_eq_true'] at hok
    obtain ⟨⟨⟨hc, hb⟩, hnb⟩, he⟩ := hok
    simp only [rwS, rm_bind_ok, rm_liftX_ok, rm_get_ok, rm_pure_ok, substE_nil, visitE_plain c hc,
      Except.ok.injEq] at h
    obtain ⟨b', s1, hrb, e', s2, hre, _, s3, hnote, hx, s4, hnu, _, _, ⟨rfl, rfl⟩, _, _, ⟨rfl, rfl⟩,
      gb, _, ⟨hgb, rfl⟩, ge, _, ⟨hge, rfl⟩, rfl, rfl⟩ := h
    obtain ⟨hk1, hu1, hg1, hn1, hs1⟩ := ml_list b hb st s1 b' hrb hk
    obtain ⟨hk2, hu2, hg2, hn2, hs2⟩ := ml_list e he s1 s2 e' hre hk1
    have hc3 := noteIf_core _ _ _ _ _ _ hnote
    obtain ⟨hxe, hu4, hkn4⟩ := nextUniq_inv _ _ _ hnu
    have hu3 : s3.uniq = s2.uniq := hc3.1
    have hs1u : s1.uniq = st.uniq := hn1 (by simp [hnb])
    have hk4 : KnownOK st' := by
      intro n hn
      rw [hkn4, hc3.known] at hn
      exact hk2 n hn
    have hgname : "_iftarg" ++ hx = iftargName (s2.uniq + 1) := by rw [hxe, hu3]; rfl
    rw [hgname] at hgb hge ⊢
    have hab : ∀ s ∈ b', IsAssign s := fun s hs => (hg1 s hs).isAssign
    have hae : ∀ s ∈ e', IsAssign s := fun s hs => (hg2 s hs).isAssign
    rw [guardBody_ok _ hk4 _ b' hab] at hgb
    rw [guardElse_ok _ hk4 _ e' hae] at hge
    simp only [Except.ok.injEq] at hgb hge
    subst hgb hge
    have hu' : st'.uniq = s2.uniq + 1 := by rw [hu4, hu3]
    refine ⟨hk4, by omega, ?_, fun hh => by simp [hasIf] at hh, ?_⟩
    · intro x hx
      simp only [List.mem_cons, List.mem_append, List.mem_map] at hx
      rcases hx with rfl | ⟨y, hy, rfl⟩ | ⟨y, hy, rfl⟩
      · exact ⟨_, _, rfl, Or.inr (Or.inr ⟨s2.uniq + 1, by omega, by omega, rfl⟩)⟩
      · exact ((hg1 y hy).mono (Nat.le_refl _) (by omega)).sBody _
      · exact ((hg2 y hy).mono (by omega) (by omega)).sElse _
    · intro Γ gs σs σr σr' hrel hgs hΓ helse hrun
      have helse' : elseOnly Γ = true := helse (by simp [hasIf])
      have hgi := isIfTarg_iftarg (s2.uniq + 1)
      have hgd := isDunder_iftarg (s2.uniq + 1)
      -- the shape of the wrapped list
      have hshape : wrapF Γ ((SStmt.assign [.name (iftargName (s2.uniq + 1))] c ::
            (b'.map (sBody (iftargName (s2.uniq + 1))) ++ e'.map (sElse (iftargName (s2.uniq + 1))))).map toStmt)
          = [Front.Stmt.assign (iftargName (s2.uniq + 1)) (toP c)]
            ++ (wrapF (Γ ++ [(iftargName (s2.uniq + 1), true)]) (b'.map toStmt)
            ++ wrapF (Γ ++ [(iftargName (s2.uniq + 1), false)]) (e'.map toStmt)) := by
        simp only [List.map_cons, List.map_append, map_toStmt_sBody _ b' hab, map_toStmt_sElse _ e' hae]
        have : (toStmt (SStmt.assign [.name (iftargName (s2.uniq + 1))] c) ::
              ((b'.map toStmt).map (fBody (iftargName (s2.uniq + 1))) ++
               (e'.map toStmt).map (fElse (iftargName (s2.uniq + 1)))))
            = [Front.Stmt.assign (iftargName (s2.uniq + 1)) (toP c)] ++
              ((b'.map toStmt).map (fBody (iftargName (s2.uniq + 1))) ++
               (e'.map toStmt).map (fElse (iftargName (s2.uniq + 1)))) := rfl
        rw [this, wrapF_append, wrapF_append, wrapF_guard_assign Γ _ _ hgi hgd helse', wrapF_snoc, wrapF_snoc]
        rfl
      rw [hshape, runA_append] at hrun
      simp only [runA] at hrun
      cases hgv : semW σr (toP c) with
      | none => simp [hgv] at hrun
      | some gv =>
        simp only [hgv] at hrun
        rw [runA_append] at hrun
        have hcs : semW σs (toP c) = some gv := by
          rw [← hgv]
          exact (semW_congr' σr σs (toP c) (fun n hn => hrel n (mentions_plain n c hc hn))).symm
        -- the guard is a new name
        have hΓne : ∀ p ∈ Γ, p.1 ≠ iftargName (s2.uniq + 1) :=
          fun p hp => (hΓ p hp).2 (s2.uniq + 1) (by omega) (by omega)
        have hgs1 : guardVals (σr.set (iftargName (s2.uniq + 1)) gv) Γ = some gs := by
          rw [guardVals_congr σr _ Γ (fun p hp => set_ne _ _ _ _ (hΓne p hp))]; exact hgs
        have hrel1 : Rel σs (σr.set (iftargName (s2.uniq + 1)) gv) := hrel.set_temp _ gv (userName_iftarg _)
        cases hr1 : runA (σr.set (iftargName (s2.uniq + 1)) gv)
            (wrapF (Γ ++ [(iftargName (s2.uniq + 1), true)]) (b'.map toStmt)) with
        | none => simp [hr1] at hrun
        | some σ2 =>
          simp only [hr1] at hrun
          have hΓb : GammaFresh st.uniq s1.uniq (Γ ++ [(iftargName (s2.uniq + 1), true)]) :=
            gammaFresh_snoc (hΓ.mono (Nat.le_refl _) (by omega)) _ _ (by omega)
          obtain ⟨σsb, hexb, hrelb, hfrb⟩ := hs1 (Γ ++ [(iftargName (s2.uniq + 1), true)]) (gs ++ [(gv, true)])
            σs _ σ2 hrel1 (guardVals_snoc _ Γ gs _ true gv hgs1 (set_eq _ _ _)) hΓb
            (fun hh => by simp [hnb] at hh) hr1
          have hΓe0 : GammaFresh st.uniq s1.uniq (Γ ++ [(iftargName (s2.uniq + 1), false)]) :=
            gammaFresh_snoc (hΓ.mono (Nat.le_refl _) (by omega)) _ _ (by omega)
          have hΓe : GammaFresh s1.uniq s2.uniq (Γ ++ [(iftargName (s2.uniq + 1), false)]) :=
            gammaFresh_snoc (hΓ.mono (by omega) (by omega)) _ _ (by omega)
          have hgse : guardVals σ2 (Γ ++ [(iftargName (s2.uniq + 1), false)]) = some (gs ++ [(gv, false)]) := by
            rw [guardVals_frame hfrb hΓe0]
            exact guardVals_snoc _ Γ gs _ false gv hgs1 (set_eq _ _ _)
          obtain ⟨σse, hexe, hrele, hfre⟩ := hs2 (Γ ++ [(iftargName (s2.uniq + 1), false)]) (gs ++ [(gv, false)])
            σsb σ2 σr' hrelb hgse hΓe (fun _ => elseOnly_snoc Γ _ helse') hrun
          refine ⟨σse, by simp only [exec, hcs, hexb, hexe], hrele, ?_⟩
          intro n hn hfresh
          have h1 : σ2 n = (σr.set (iftargName (s2.uniq + 1)) gv) n :=
            hfrb n hn (fun k hk1 hk2 => hfresh k hk1 (by omega))
          have h2 : σr' n = σ2 n := hfre n hn (fun k hk1 hk2 => hfresh k (by omega) (by omega))
          rw [h2, h1, set_ne _ _ _ _ (hfresh (s2.uniq + 1) (by omega) (by omega))]
  | .ann _ _ _, hok, _, _, _, _, _ => by simp [okS] at hok
  | .ret _, hok, _, _, _, _, _ => by simp [okS] at hok
  | .expr _, hok, _, _, _, _, _ => by simp [okS] at hok
  | .for_ _ _ _ _, hok, _, _, _, _, _ => by simp [okS] at hok
  | .other _, hok, _, _, _, _, _ => by simp [okS] at hok
theorem ml_list : ∀ (ss : List SStmt), okSs ss = true → ∀ (st st' : RSt) (L : List SStmt),
    (rwSs [] ss).run st = .ok (L, st') → KnownOK st →
    StepOK st st' L (!hasIfs ss) (fun gs σs => execList gs σs ss)
  | [], _, st, st', L, h, hk => by
    simp only [rwSs, rm_pure_ok] at h
    obtain ⟨rfl, rfl⟩ := h
    refine ⟨hk, Nat.le_refl _, fun x hx => by simp at hx, fun _ => rfl, ?_⟩
    intro Γ gs σs σr σr' hrel _ _ _ hrun
    simp only [List.map_nil, wrapF_nil, runA, Option.some.injEq] at hrun
    subst hrun
    exact ⟨σs, rfl, hrel, fun n _ _ => rfl⟩
  | s :: ss, hok, st, st', L, h, hk => by
    simp only [okSs, Bool.and_eq_true] at hok
    simp only [rwSs, rm_bind_ok, rm_pure_ok] at h
    obtain ⟨L1, s1, h1, L2, s2, h2, rfl, rfl⟩ := h
    obtain ⟨hk1, hu1, hg1, hn1, hs1⟩ := ml_stmt s hok.1 st s1 L1 h1 hk
    obtain ⟨hk2, hu2, hg2, hn2, hs2⟩ := ml_list ss hok.2 s1 _ L2 h2 hk1
    refine ⟨hk2, by omega, ?_, ?_, ?_⟩
    · intro x hx
      simp only [List.mem_append] at hx
      rcases hx with hx | hx
      · exact (hg1 x hx).mono (Nat.le_refl _) hu2
      · exact (hg2 x hx).mono hu1 (Nat.le_refl _)
    · intro hh
      simp only [hasIfs, Bool.not_eq_true', Bool.or_eq_false_iff] at hh
      rw [hn2 (by simp [hh.2]), hn1 (by simp [hh.1])]
    · intro Γ gs σs σr σr' hrel hgs hΓ helse hrun
      simp only [List.map_append, wrapF_append, runA_append] at hrun
      cases hr1 : runA σr (wrapF Γ (L1.map toStmt)) with
      | none => simp [hr1] at hrun
      | some σ1 =>
        simp only [hr1] at hrun
        have helse1 : (!hasIf s) = false → elseOnly Γ = true := by
          intro hh; apply helse; simp only [Bool.not_eq_false'] at hh; simp [hasIfs, hh]
        have helse2 : (!hasIfs ss) = false → elseOnly Γ = true := by
          intro hh; apply helse; simp only [Bool.not_eq_false'] at hh; simp [hasIfs, hh]
        have hΓ1 : GammaFresh st.uniq s1.uniq Γ := hΓ.mono (Nat.le_refl _) hu2
        have hΓ2 := hΓ.mono hu1 (Nat.le_refl _)
        obtain ⟨σs1, hex1, hrel1, hfr1⟩ := hs1 Γ gs σs σr σ1 hrel hgs hΓ1 helse1 hr1
        have hgs1 : guardVals σ1 Γ = some gs := by rw [guardVals_frame hfr1 hΓ1]; exact hgs
        obtain ⟨σs2, hex2, hrel2, hfr2⟩ := hs2 Γ gs σs1 σ1 σr' hrel1 hgs1 hΓ2 helse2 hrun
        refine ⟨σs2, by simp only [execList, hex1, hex2], hrel2, ?_⟩
        intro n hn hfresh
        rw [hfr2 n hn (fun k hk1 hk2 => hfresh k (by omega) hk2),
          hfr1 n hn (fun k hk1 hk2 => hfresh k hk1 (by omega))]
end

end QV.A2A
