import QV.Proofs.A2A3
/-! `ast2ast` preserves the source-level meaning, part 4: the simulation.  Running the list the rewriter
returns for a statement – wrapped in the guards of the enclosing `if`s – from an environment that agrees with
the source environment on the user variables ends in such an environment again, and the source environment
it agrees with is the one `exec` computes under the values of the guards. -/
namespace QV.A2A
open QV QV.Front QV.Sem

set_option linter.unusedSimpArgs false
set_option linter.unusedVariables false

/-- run a list of assignments of the rewritten program (`Sem.semBody` before the `return`) -/
def runA : SEnv → List Front.Stmt → Option SEnv
  | σ, [] => some σ
  | σ, .assign t e :: ss =>
    match semW σ e with
    | some v => runA (σ.set t v) ss
    | none => none
  | _, _ :: _ => none

theorem runA_append (σ : SEnv) (A B : List Front.Stmt) :
    runA σ (A ++ B) = match runA σ A with
      | some σ' => runA σ' B
      | none => none := by
  induction A generalizing σ with
  | nil => rfl
  | cons a A ih =>
    cases a with
    | assign t e =>
      simp only [List.cons_append, runA]
      cases semW σ e with
      | none => rfl
      | some v => exact ih _
    | ret e => rfl
    | expr e => rfl
    | unsupported w => rfl

/-- the rewritten environment agrees with the source environment on every user variable -/
def Rel (σs σr : SEnv) : Prop := ∀ n, userName n = true → σr n = σs n

/-- the guards of the enclosing `if`s are `_iftarg` names other than the ones numbered in `(lo, hi]` -/
def GammaFresh (lo hi : Nat) (Γ : List (String × Bool)) : Prop :=
  ∀ p ∈ Γ, isIfTarg p.1 = true ∧ ∀ k, lo < k → k ≤ hi → p.1 ≠ iftargName k

/-- no `_iftarg` name other than the ones numbered in `(lo, hi]` changed -/
def Frame (lo hi : Nat) (σr σr' : SEnv) : Prop :=
  ∀ n, isIfTarg n = true → (∀ k, lo < k → k ≤ hi → n ≠ iftargName k) → σr' n = σr n

theorem GammaFresh.mono {lo hi lo' hi' : Nat} {Γ : List (String × Bool)} (h : GammaFresh lo hi Γ)
    (h1 : lo ≤ lo') (h2 : hi' ≤ hi) : GammaFresh lo' hi' Γ :=
  fun p hp => ⟨(h p hp).1, fun k hk1 hk2 => (h p hp).2 k (by omega) (by omega)⟩

theorem set_ne (σ : SEnv) (t n : String) (v : SVal) (h : n ≠ t) : (σ.set t v) n = σ n := by
  simp [SEnv.set, h]

theorem set_eq (σ : SEnv) (t : String) (v : SVal) : (σ.set t v) t = some v := by
  simp [SEnv.set]

theorem Rel.set_user {σs σr : SEnv} (h : Rel σs σr) (t : String) (v : SVal) : Rel (σs.set t v) (σr.set t v) := by
  intro n hn
  by_cases hnt : n = t
  · subst hnt; rw [set_eq, set_eq]
  · rw [set_ne _ _ _ _ hnt, set_ne _ _ _ _ hnt]; exact h n hn

theorem Rel.set_temp {σs σr : SEnv} (h : Rel σs σr) (t : String) (v : SVal) (ht : userName t = false) :
    Rel σs (σr.set t v) := by
  intro n hn
  have hnt : n ≠ t := fun hh => by rw [hh, ht] at hn; cases hn
  rw [set_ne _ _ _ _ hnt]; exact h n hn

theorem userName_dunder (t : String) : userName ("__" ++ t) = false := by
  simp [userName, isDunder_dunder]

theorem userName_iftarg (k : Nat) : userName (iftargName k) = false := by
  simp [userName, isIfTarg_iftarg]

theorem ne_of_iftarg {n t : String} (hn : isIfTarg n = true) (ht : isIfTarg t = false) : n ≠ t := by
  intro h; rw [h, ht] at hn; cases hn

theorem guardVals_set (σ : SEnv) (Γ : List (String × Bool)) (t : String) (v : SVal)
    (hΓ : ∀ p ∈ Γ, isIfTarg p.1 = true) (ht : isIfTarg t = false) :
    guardVals (σ.set t v) Γ = guardVals σ Γ :=
  guardVals_congr _ _ _ (fun p hp => set_ne _ _ _ _ (ne_of_iftarg (hΓ p hp) ht))

theorem guardVals_ne_nil {σ : SEnv} {Γ : List (String × Bool)} {gs : List (SVal × Bool)}
    (h : guardVals σ Γ = some gs) (hΓ : Γ ≠ []) : gs ≠ [] := by
  intro hg
  have := guardVals_length h
  rw [hg] at this
  cases Γ with
  | nil => exact hΓ rfl
  | cons p Γ => simp at this

theorem assignG_cons (p : SVal × Bool) (gs : List (SVal × Bool)) (σ : SEnv) (t : String) (v o x : SVal)
    (ho : σ t = some o) (hw : wrapW (p :: gs) v o = some x) : assignG (p :: gs) σ t v = some (σ.set t x) := by
  simp [assignG, ho, hw]

/-- one assignment `t = pe`, in the direct form or through the temporary `__t`, under the guards -/
theorem assign_sim (t : String) (pe : PExp) (ht : userName t = true)
    (hpe : ∀ n, mentions n pe = true → userName n = true) (F : List Front.Stmt)
    (hF : F = [.assign t pe] ∨ F = [.assign ("__" ++ t) pe, .assign t (.name ("__" ++ t))])
    (Γ : List (String × Bool)) (gs : List (SVal × Bool)) (σs σr σr' : SEnv) (hrel : Rel σs σr)
    (hgs : guardVals σr Γ = some gs) (hΓ : ∀ p ∈ Γ, isIfTarg p.1 = true)
    (hrun : runA σr (wrapF Γ F) = some σr') :
    ∃ v σs', semW σs pe = some v ∧ assignG gs σs t v = some σs' ∧ Rel σs' σr' ∧
      (∀ n, isIfTarg n = true → σr' n = σr n) := by
  have hcongr : semW σr pe = semW σs pe := semW_congr' σr σs pe (fun n hn => hrel n (hpe n hn))
  have htd : isDunder t = false := userName_not_dunder ht
  have hti : isIfTarg t = false := userName_not_iftarg ht
  have hold : oldOf t = t := by simp [oldOf, htd]
  have hst : σr t = σs t := hrel t ht
  rcases hF with rfl | rfl
  · -- the direct form
    rw [wrapF_assign Γ t pe hti, hold] at hrun
    simp only [runA] at hrun
    cases hx : semW σr (wrapE Γ t pe) with
    | none => simp [hx] at hrun
    | some x =>
      simp only [hx, Option.some.injEq] at hrun
      subst hrun
      by_cases hne : Γ = []
      · subst hne
        simp only [guardVals, Option.some.injEq] at hgs
        subst hgs
        simp only [wrapE] at hx
        refine ⟨x, σs.set t x, by rw [← hcongr, hx], rfl, hrel.set_user t x, fun n hn => ?_⟩
        exact set_ne _ _ _ _ (ne_of_iftarg hn hti)
      · obtain ⟨v, o, hv, ho, hw⟩ := semW_wrapE σr t pe Γ gs hgs hne x hx
        have hgne := guardVals_ne_nil hgs hne
        cases gs with
        | nil => exact absurd rfl hgne
        | cons p gs =>
          refine ⟨v, σs.set t x, by rw [← hcongr, hv], assignG_cons p gs σs t v o x (by rw [← hst, ho]) hw,
            hrel.set_user t x, fun n hn => ?_⟩
          exact set_ne _ _ _ _ (ne_of_iftarg hn hti)
  · -- through the temporary
    have hdi : isIfTarg ("__" ++ t) = false := isIfTarg_dunder t
    have holdd : oldOf ("__" ++ t) = t := by simp [oldOf, isDunder_dunder, dropDunder_dunder]
    have hne_t : t ≠ "__" ++ t := by
      intro h
      have := isDunder_dunder t
      rw [← h, htd] at this; cases this
    have hsplit : wrapF Γ [Front.Stmt.assign ("__" ++ t) pe, .assign t (.name ("__" ++ t))]
        = [.assign ("__" ++ t) (wrapE Γ t pe), .assign t (wrapE Γ t (.name ("__" ++ t)))] := by
      have : [Front.Stmt.assign ("__" ++ t) pe, .assign t (.name ("__" ++ t))]
          = [Front.Stmt.assign ("__" ++ t) pe] ++ [.assign t (.name ("__" ++ t))] := rfl
      rw [this, wrapF_append, wrapF_assign Γ _ pe hdi, wrapF_assign Γ t _ hti, holdd, hold]
      rfl
    rw [hsplit] at hrun
    simp only [runA] at hrun
    cases hx1 : semW σr (wrapE Γ t pe) with
    | none => simp [hx1] at hrun
    | some x1 =>
      simp only [hx1] at hrun
      cases hx2 : semW (σr.set ("__" ++ t) x1) (wrapE Γ t (.name ("__" ++ t))) with
      | none => simp [hx2] at hrun
      | some x2 =>
        simp only [hx2, Option.some.injEq] at hrun
        subst hrun
        have hrel1 : Rel σs ((σr.set ("__" ++ t) x1)) := hrel.set_temp _ x1 (userName_dunder t)
        have hfin : ∀ n, isIfTarg n = true → ((σr.set ("__" ++ t) x1).set t x2) n = σr n := by
          intro n hn
          rw [set_ne _ _ _ _ (ne_of_iftarg hn hti), set_ne _ _ _ _ (ne_of_iftarg hn hdi)]
        by_cases hne : Γ = []
        · subst hne
          simp only [guardVals, Option.some.injEq] at hgs
          subst hgs
          simp only [wrapE, semW_name, set_eq, Option.some.injEq] at hx1 hx2
          subst hx2
          refine ⟨x1, σs.set t x1, by rw [← hcongr, hx1], rfl, ?_, hfin⟩
          intro n hn
          by_cases hnt : n = t
          · subst hnt; rw [set_eq, set_eq]
          · have hnd : n ≠ "__" ++ t := fun hh => by rw [hh, userName_dunder] at hn; cases hn
            rw [set_ne _ _ _ _ hnt, set_ne _ _ _ _ hnt, set_ne _ _ _ _ hnd]
            exact hrel n hn
        · obtain ⟨v, o, hv, ho, hw⟩ := semW_wrapE σr t pe Γ gs hgs hne x1 hx1
          have hgs1 : guardVals (σr.set ("__" ++ t) x1) Γ = some gs := by
            rw [guardVals_set σr Γ _ x1 hΓ hdi]; exact hgs
          obtain ⟨v2, o2, hv2, ho2, hw2⟩ :=
            semW_wrapE (σr.set ("__" ++ t) x1) t (.name ("__" ++ t)) Γ gs hgs1 hne x2 hx2
          simp only [semW_name, set_eq, Option.some.injEq] at hv2
          subst hv2
          rw [set_ne _ _ _ _ hne_t, ho] at ho2
          cases ho2
          have hidem := wrapW_idem gs v o x1 hw
          rw [hidem] at hw2
          cases hw2
          have hgne := guardVals_ne_nil hgs hne
          cases gs with
          | nil => exact absurd rfl hgne
          | cons p gs =>
            refine ⟨v, σs.set t x1, by rw [← hcongr, hv], assignG_cons p gs σs t v o x1 (by rw [← hst, ho]) hw,
              ?_, hfin⟩
            intro n hn
            by_cases hnt : n = t
            · subst hnt; rw [set_eq, set_eq]
            · have hnd : n ≠ "__" ++ t := fun hh => by rw [hh, userName_dunder] at hn; cases hn
              rw [set_ne _ _ _ _ hnt, set_ne _ _ _ _ hnt, set_ne _ _ _ _ hnd]
              exact hrel n hn

end QV.A2A
