import QV.Proofs.FrontT9
import QV.Proofs.Front10
import QV.Model.SemXT
/-! The widened fixed-width semantics `semT` against the widened exact semantics `semXT`, part 1: the agreement
relation `AgreeT` (leaf by leaf the relation `Agree` of `QV/Proofs/Front8.lean`; a `Qchar` leaf: equal when
claimed), and one lemma per operator of the two semantics. -/
namespace QV.Sem
open QV QV.Arith QV.Front

set_option linter.unusedSimpArgs false
set_option linter.unusedVariables false

mutual
/-- the fixed-width value agrees with the exact value as far as the latter claims, leaf by leaf -/
def AgreeT : XT → TVal → Prop
  | .leaf x, .bool b => Agree x (.bool b)
  | .leaf x, .int w y => Agree x (.int w y)
  | .leaf _, .char _ => False
  | .leaf _, .tuple _ => False
  | .char c k, .char c' => c' < 256 ∧ (k = none → c' = c)
  | .char _ _, .bool _ => False
  | .char _ _, .int _ _ => False
  | .char _ _, .tuple _ => False
  | .tuple xs, .tuple vs => AgreeTList xs vs
  | .tuple _, .bool _ => False
  | .tuple _, .int _ _ => False
  | .tuple _, .char _ => False
def AgreeTList : List XT → List TVal → Prop
  | [], [] => True
  | x :: xs, v :: vs => AgreeT x v ∧ AgreeTList xs vs
  | [], _ :: _ => False
  | _ :: _, [] => False
end

theorem agreeT_leaf {x : XVal} {sv : SVal} : AgreeT (.leaf x) sv.toT ↔ Agree x sv := by
  cases sv <;> simp [SVal.toT, AgreeT]

theorem agreeT_bool_inv {xv : XT} {b : Bool} (h : AgreeT xv (.bool b)) :
    ∃ a k, xv = .leaf ⟨.bool a, k⟩ ∧ (k = none → b = a) := by
  cases xv with
  | leaf x =>
    simp only [AgreeT] at h
    obtain ⟨a, k, rfl⟩ := agree_bool_inv h
    exact ⟨a, k, rfl, h⟩
  | char _ _ => simp [AgreeT] at h
  | tuple _ => simp [AgreeT] at h

theorem agreeT_int_inv {xv : XT} {w y : Nat} (h : AgreeT xv (.int w y)) :
    ∃ x k, xv = .leaf ⟨.int w x, k⟩ ∧ Agree ⟨.int w x, k⟩ (.int w y) := by
  cases xv with
  | leaf x =>
    simp only [AgreeT] at h
    obtain ⟨x0, k, rfl⟩ := agree_int_inv h
    exact ⟨x0, k, rfl, h⟩
  | char _ _ => simp [AgreeT] at h
  | tuple _ => simp [AgreeT] at h

theorem agreeT_char_inv {xv : XT} {c' : Nat} (h : AgreeT xv (.char c')) :
    ∃ c k, xv = .char c k ∧ c' < 256 ∧ (k = none → c' = c) := by
  cases xv with
  | leaf _ => simp [AgreeT] at h
  | char c k => simp only [AgreeT] at h; exact ⟨c, k, rfl, h⟩
  | tuple _ => simp [AgreeT] at h

theorem agreeT_tuple_inv {xv : XT} {vs : List TVal} (h : AgreeT xv (.tuple vs)) :
    ∃ xs, xv = .tuple xs ∧ AgreeTList xs vs := by
  cases xv with
  | leaf _ => simp [AgreeT] at h
  | char _ _ => simp [AgreeT] at h
  | tuple xs => simp only [AgreeT] at h; exact ⟨xs, rfl, h⟩

theorem agreeTList_get : ∀ (xs : List XT) (vs : List TVal) (i : Nat) (x : XT) (v : TVal),
    AgreeTList xs vs → xs[i]? = some x → vs[i]? = some v → AgreeT x v
  | [], _, i, x, v, _, hx, _ => by simp at hx
  | _ :: _, [], i, x, v, h, _, _ => by simp [AgreeTList] at h
  | x0 :: xs, v0 :: vs, 0, x, v, h, hx, hv => by
    simp only [List.getElem?_cons_zero, Option.some.injEq] at hx hv
    subst hx; subst hv; exact h.1
  | x0 :: xs, v0 :: vs, i + 1, x, v, h, hx, hv => by
    rw [List.getElem?_cons_succ] at hx hv
    exact agreeTList_get xs vs i x v h.2 hx hv

/-! ### types and ranges -/

mutual
theorem agreeT_ty : ∀ (x : XT) (v : TVal), AgreeT x v → v.ty = x.ty ∧ v.wf = true
  | .leaf ⟨.bool a, k⟩, .bool b, _ => ⟨rfl, rfl⟩
  | .leaf ⟨.int w x, k⟩, .bool b, h => by simp [AgreeT, Agree] at h
  | .leaf ⟨.bool a, k⟩, .int w y, h => by simp [AgreeT, Agree] at h
  | .leaf ⟨.int w x, k⟩, .int w' y, h => by
    simp only [AgreeT, Agree] at h
    obtain ⟨rfl, hy, _⟩ := h
    exact ⟨rfl, by simp [TVal.wf, hy]⟩
  | .leaf _, .char _, h => by simp [AgreeT] at h
  | .leaf _, .tuple _, h => by simp [AgreeT] at h
  | .char c k, .char c', h => by
    simp only [AgreeT] at h
    exact ⟨rfl, by simp [TVal.wf, h.1]⟩
  | .char _ _, .bool _, h => by simp [AgreeT] at h
  | .char _ _, .int _ _, h => by simp [AgreeT] at h
  | .char _ _, .tuple _, h => by simp [AgreeT] at h
  | .tuple xs, .tuple vs, h => by
    simp only [AgreeT] at h
    obtain ⟨h1, h2⟩ := agreeTList_ty xs vs h
    exact ⟨by rw [TVal.ty, XT.ty, h1], by rw [TVal.wf]; exact h2⟩
  | .tuple _, .bool _, h => by simp [AgreeT] at h
  | .tuple _, .int _ _, h => by simp [AgreeT] at h
  | .tuple _, .char _, h => by simp [AgreeT] at h
theorem agreeTList_ty : ∀ (xs : List XT) (vs : List TVal), AgreeTList xs vs →
    TVal.tyList vs = XT.tyList xs ∧ TVal.wfList vs = true
  | [], [], _ => ⟨rfl, rfl⟩
  | x :: xs, v :: vs, h => by
    obtain ⟨h1, h2⟩ := agreeT_ty x v h.1
    obtain ⟨h3, h4⟩ := agreeTList_ty xs vs h.2
    exact ⟨by rw [TVal.tyList, XT.tyList, h1, h3], by rw [TVal.wfList, h2, h4]; rfl⟩
  | [], _ :: _, h => by simp [AgreeTList] at h
  | _ :: _, [], h => by simp [AgreeTList] at h
end

mutual
/-- a value of the right type within its range agrees with any exact value of which nothing is claimed -/
theorem undet_agree : ∀ (x : XT) (v : TVal), v.ty = x.ty → v.wf = true → AgreeT x.undet v
  | .leaf ⟨.bool a, k⟩, .bool b, _, _ => by
    simp only [XT.undet, AgreeT, Agree]
    intro h; cases h
  | .leaf ⟨.int w x, k⟩, .int w' y, ht, hw => by
    simp only [TVal.ty, XT.ty, Ty.qint.injEq] at ht
    subst ht
    simp only [TVal.wf, decide_eq_true_eq] at hw
    simp only [XT.undet, AgreeT, Agree]
    refine ⟨trivial, hw, fun h => (by cases h), fun j hj => ?_⟩
    cases hj
    exact ⟨Nat.zero_le _, by simp [Int.emod_one]⟩
  | .char c k, .char c', _, hw => by
    simp only [TVal.wf, decide_eq_true_eq] at hw
    simp only [XT.undet, AgreeT]
    exact ⟨hw, fun h => by cases h⟩
  | .tuple xs, .tuple vs, ht, hw => by
    simp only [TVal.ty, XT.ty, Ty.tuple.injEq] at ht
    simp only [TVal.wf] at hw
    simp only [XT.undet, AgreeT]
    exact undetList_agree xs vs ht hw
  | .leaf ⟨.bool a, k⟩, .int _ _, ht, _ => by simp [TVal.ty, XT.ty] at ht
  | .leaf ⟨.bool a, k⟩, .char _, ht, _ => by simp [TVal.ty, XT.ty] at ht
  | .leaf ⟨.bool a, k⟩, .tuple _, ht, _ => by simp [TVal.ty, XT.ty] at ht
  | .leaf ⟨.int w x, k⟩, .bool _, ht, _ => by simp [TVal.ty, XT.ty] at ht
  | .leaf ⟨.int w x, k⟩, .char _, ht, _ => by simp [TVal.ty, XT.ty] at ht
  | .leaf ⟨.int w x, k⟩, .tuple _, ht, _ => by simp [TVal.ty, XT.ty] at ht
  | .char _ _, .bool _, ht, _ => by simp [TVal.ty, XT.ty] at ht
  | .char _ _, .int _ _, ht, _ => by simp [TVal.ty, XT.ty] at ht
  | .char _ _, .tuple _, ht, _ => by simp [TVal.ty, XT.ty] at ht
  | .tuple _, .bool _, ht, _ => by simp [TVal.ty, XT.ty] at ht
  | .tuple _, .int _ _, ht, _ => by simp [TVal.ty, XT.ty] at ht
  | .tuple _, .char _, ht, _ => by simp [TVal.ty, XT.ty] at ht
theorem undetList_agree : ∀ (xs : List XT) (vs : List TVal), TVal.tyList vs = XT.tyList xs →
    TVal.wfList vs = true → AgreeTList (XT.undetList xs) vs
  | [], [], _, _ => trivial
  | x :: xs, v :: vs, ht, hw => by
    simp only [TVal.tyList, XT.tyList, List.cons.injEq] at ht
    simp only [TVal.wfList, Bool.and_eq_true] at hw
    exact ⟨undet_agree x v ht.1 hw.1, undetList_agree xs vs ht.2 hw.2⟩
  | [], _ :: _, ht, _ => by simp [TVal.tyList, XT.tyList] at ht
  | _ :: _, [], ht, _ => by simp [TVal.tyList, XT.tyList] at ht
end

/-! ### equality of exact values -/

mutual
theorem beq_agree : ∀ (x y : XT) (v u : TVal), AgreeT x v → AgreeT y u → x.kAll = none → y.kAll = none →
    x.beq y = v.beq u
  | .leaf ⟨.bool a, ka⟩, .leaf ⟨.bool b, kb⟩, .bool a', .bool b', h1, h2, k1, k2 => by
    simp only [XT.kAll] at k1 k2
    simp only [AgreeT, Agree] at h1 h2
    simp only [XT.beq, TVal.beq, h1 k1, h2 k2]
  | .leaf ⟨.int wa a, ka⟩, .leaf ⟨.int wb b, kb⟩, .int wa' a', .int wb' b', h1, h2, k1, k2 => by
    simp only [XT.kAll] at k1 k2
    simp only [AgreeT, Agree] at h1 h2
    simp only [XT.beq, TVal.beq, ← h1.2.2.1 k1, ← h2.2.2.1 k2]
    by_cases hab : a' = b'
    · simp [hab]
    · have : ¬ ((a' : Int) = (b' : Int)) := fun h => hab (Int.ofNat_inj.mp h)
      simp [hab, this]
  | .char a ka, .char b kb, .char a' , .char b', h1, h2, k1, k2 => by
    simp only [XT.kAll] at k1 k2
    simp only [AgreeT] at h1 h2
    simp only [XT.beq, TVal.beq, h1.2 k1, h2.2 k2]
  | .tuple xs, .tuple ys, .tuple vs, .tuple us, h1, h2, k1, k2 => by
    simp only [XT.kAll] at k1 k2
    simp only [AgreeT] at h1 h2
    simp only [XT.beq, TVal.beq]
    exact beqList_agree xs ys vs us h1 h2 k1 k2
  | .leaf ⟨.bool a, ka⟩, .leaf ⟨.int _ _, _⟩, v, u, h1, h2, _, _ => by
    obtain ⟨_, _, _⟩ := v <;> obtain ⟨_, _, _⟩ := u <;> simp_all [AgreeT, Agree, XT.beq, TVal.beq]
  | .leaf ⟨.int _ _, ka⟩, .leaf ⟨.bool _, _⟩, v, u, h1, h2, _, _ => by
    cases v <;> cases u <;> simp_all [AgreeT, Agree, XT.beq, TVal.beq]
  | .leaf ⟨.bool _, _⟩, .char _ _, v, u, h1, h2, _, _ => by
    cases v <;> cases u <;> simp_all [AgreeT, Agree, XT.beq, TVal.beq]
  | .leaf ⟨.int _ _, _⟩, .char _ _, v, u, h1, h2, _, _ => by
    cases v <;> cases u <;> simp_all [AgreeT, Agree, XT.beq, TVal.beq]
  | .leaf ⟨.bool _, _⟩, .tuple _, v, u, h1, h2, _, _ => by
    cases v <;> cases u <;> simp_all [AgreeT, Agree, XT.beq, TVal.beq]
  | .leaf ⟨.int _ _, _⟩, .tuple _, v, u, h1, h2, _, _ => by
    cases v <;> cases u <;> simp_all [AgreeT, Agree, XT.beq, TVal.beq]
  | .char _ _, .leaf ⟨.bool _, _⟩, v, u, h1, h2, _, _ => by
    cases v <;> cases u <;> simp_all [AgreeT, Agree, XT.beq, TVal.beq]
  | .char _ _, .leaf ⟨.int _ _, _⟩, v, u, h1, h2, _, _ => by
    cases v <;> cases u <;> simp_all [AgreeT, Agree, XT.beq, TVal.beq]
  | .char _ _, .tuple _, v, u, h1, h2, _, _ => by
    cases v <;> cases u <;> simp_all [AgreeT, Agree, XT.beq, TVal.beq]
  | .tuple _, .leaf ⟨.bool _, _⟩, v, u, h1, h2, _, _ => by
    cases v <;> cases u <;> simp_all [AgreeT, Agree, XT.beq, TVal.beq]
  | .tuple _, .leaf ⟨.int _ _, _⟩, v, u, h1, h2, _, _ => by
    cases v <;> cases u <;> simp_all [AgreeT, Agree, XT.beq, TVal.beq]
  | .tuple _, .char _ _, v, u, h1, h2, _, _ => by
    cases v <;> cases u <;> simp_all [AgreeT, Agree, XT.beq, TVal.beq]
  | .leaf ⟨.bool a, ka⟩, .leaf ⟨.bool b, kb⟩, .int _ _, _, h1, _, _, _ => by simp [AgreeT, Agree] at h1
  | .leaf ⟨.bool a, ka⟩, .leaf ⟨.bool b, kb⟩, .char _, _, h1, _, _, _ => by simp [AgreeT] at h1
  | .leaf ⟨.bool a, ka⟩, .leaf ⟨.bool b, kb⟩, .tuple _, _, h1, _, _, _ => by simp [AgreeT] at h1
  | .leaf ⟨.bool a, ka⟩, .leaf ⟨.bool b, kb⟩, .bool _, .int _ _, _, h2, _, _ => by simp [AgreeT, Agree] at h2
  | .leaf ⟨.bool a, ka⟩, .leaf ⟨.bool b, kb⟩, .bool _, .char _, _, h2, _, _ => by simp [AgreeT] at h2
  | .leaf ⟨.bool a, ka⟩, .leaf ⟨.bool b, kb⟩, .bool _, .tuple _, _, h2, _, _ => by simp [AgreeT] at h2
  | .leaf ⟨.int _ _, ka⟩, .leaf ⟨.int _ _, kb⟩, .bool _, _, h1, _, _, _ => by simp [AgreeT, Agree] at h1
  | .leaf ⟨.int _ _, ka⟩, .leaf ⟨.int _ _, kb⟩, .char _, _, h1, _, _, _ => by simp [AgreeT] at h1
  | .leaf ⟨.int _ _, ka⟩, .leaf ⟨.int _ _, kb⟩, .tuple _, _, h1, _, _, _ => by simp [AgreeT] at h1
  | .leaf ⟨.int _ _, ka⟩, .leaf ⟨.int _ _, kb⟩, .int _ _, .bool _, _, h2, _, _ => by simp [AgreeT, Agree] at h2
  | .leaf ⟨.int _ _, ka⟩, .leaf ⟨.int _ _, kb⟩, .int _ _, .char _, _, h2, _, _ => by simp [AgreeT] at h2
  | .leaf ⟨.int _ _, ka⟩, .leaf ⟨.int _ _, kb⟩, .int _ _, .tuple _, _, h2, _, _ => by simp [AgreeT] at h2
  | .char _ _, .char _ _, .bool _, _, h1, _, _, _ => by simp [AgreeT] at h1
  | .char _ _, .char _ _, .int _ _, _, h1, _, _, _ => by simp [AgreeT] at h1
  | .char _ _, .char _ _, .tuple _, _, h1, _, _, _ => by simp [AgreeT] at h1
  | .char _ _, .char _ _, .char _, .bool _, _, h2, _, _ => by simp [AgreeT] at h2
  | .char _ _, .char _ _, .char _, .int _ _, _, h2, _, _ => by simp [AgreeT] at h2
  | .char _ _, .char _ _, .char _, .tuple _, _, h2, _, _ => by simp [AgreeT] at h2
  | .tuple _, .tuple _, .bool _, _, h1, _, _, _ => by simp [AgreeT] at h1
  | .tuple _, .tuple _, .int _ _, _, h1, _, _, _ => by simp [AgreeT] at h1
  | .tuple _, .tuple _, .char _, _, h1, _, _, _ => by simp [AgreeT] at h1
  | .tuple _, .tuple _, .tuple _, .bool _, _, h2, _, _ => by simp [AgreeT] at h2
  | .tuple _, .tuple _, .tuple _, .int _ _, _, h2, _, _ => by simp [AgreeT] at h2
  | .tuple _, .tuple _, .tuple _, .char _, _, h2, _, _ => by simp [AgreeT] at h2
theorem beqList_agree : ∀ (xs ys : List XT) (vs us : List TVal), AgreeTList xs vs → AgreeTList ys us →
    XT.kAllList xs = none → XT.kAllList ys = none → XT.beqList xs ys = TVal.beqList vs us
  | [], [], [], [], _, _, _, _ => rfl
  | x :: xs, y :: ys, v :: vs, u :: us, h1, h2, k1, k2 => by
    simp only [XT.kAllList] at k1 k2
    obtain ⟨k1a, k1b⟩ := kmin_none k1
    obtain ⟨k2a, k2b⟩ := kmin_none k2
    simp only [XT.beqList, TVal.beqList, beq_agree x y v u h1.1 h2.1 k1a k2a,
      beqList_agree xs ys vs us h1.2 h2.2 k1b k2b]
  | [], _ :: _, [], _ :: _, _, _, _, _ => rfl
  | _ :: _, [], _ :: _, [], _, _, _, _ => rfl
  | [], _, _ :: _, _, h1, _, _, _ => by simp [AgreeTList] at h1
  | _ :: _, _, [], _, h1, _, _, _ => by simp [AgreeTList] at h1
  | _, [], _, _ :: _, _, h2, _, _ => by simp [AgreeTList] at h2
  | _, _ :: _, _, [], _, h2, _, _ => by simp [AgreeTList] at h2
end

end QV.Sem
