import QV.Proofs.FrontX1
/-! `semT` against `semXT`, part 2: one lemma per operator (`not`, `~`, subscripts, if-expressions, comparisons,
`and` / `or`), and the structural induction `semT_agree`. -/
namespace QV.Sem
open QV QV.Arith QV.Front

set_option linter.unusedSimpArgs false
set_option linter.unusedVariables false

/-! ### bits of an exact value -/

theorem low_bit (a : Int) {i j : Nat} (hi : i < j) :
    (a / (2 : Int) ^ i) % 2 = ((a % (2 : Int) ^ j) / (2 : Int) ^ i) % 2 := by
  have hj : (2 : Int) ^ j = (2 : Int) ^ i * (2 * (2 : Int) ^ (j - i - 1)) := by
    rw [← Int.pow_succ', ← Int.pow_add]
    congr 1; omega
  have hne : (2 : Int) ^ i ≠ 0 := Int.ne_of_gt (pow2_pos_int i)
  obtain ⟨m, q, hm, ha⟩ : ∃ m q, m = a % (2 : Int) ^ j ∧ a = m + (2 : Int) ^ j * q :=
    ⟨_, _, rfl, (Int.emod_add_mul_ediv a _).symm⟩
  rw [← hm, ha, hj]
  have : m + (2 : Int) ^ i * (2 * (2 : Int) ^ (j - i - 1)) * q
      = m + (2 : Int) ^ i * (2 * ((2 : Int) ^ (j - i - 1) * q)) := by
    simp only [Int.mul_assoc]
  rw [this, Int.add_mul_ediv_left _ _ hne, Int.add_mul_emod_self_left]

theorem testBit_cast (y i : Nat) : y.testBit i = decide (((y : Int) / (2 : Int) ^ i) % 2 = 1) := by
  rw [Nat.testBit_eq_decide_div_mod_eq]
  have : (((y / 2 ^ i % 2 : Nat)) : Int) = ((y : Int) / (2 : Int) ^ i) % 2 := by
    rw [Int.natCast_emod, Int.natCast_ediv, cast_pow2]; rfl
  by_cases h : y / 2 ^ i % 2 = 1
  · have : ((y : Int) / (2 : Int) ^ i) % 2 = 1 := by rw [← this, h]; rfl
    simp [h, this]
  · have : ¬ (((y : Int) / (2 : Int) ^ i) % 2 = 1) := by
      intro hh
      rw [← this] at hh
      exact h (Int.ofNat_inj.mp hh)
    simp [h, this]

/-- bit `i` of the fixed-width value is python's bit `i` of the exact value when the values agree on more
than `i` low bits -/
theorem bit_cong {x : Int} {y i j : Nat} (h : (y : Int) % 2 ^ j = x % 2 ^ j) (hi : i < j) :
    y.testBit i = decide ((x / (2 : Int) ^ i) % 2 = 1) := by
  rw [testBit_cast, low_bit (y : Int) hi, low_bit x hi, h]

/-! ### one lemma per operator -/

theorem notT_agree {xv : XT} {sv r : TVal} {q : XT} (h : AgreeT xv sv) (hw : notT sv = some r)
    (hx : notXT xv = some q) : AgreeT q r := by
  cases sv with
  | bool b =>
    obtain ⟨a, k, rfl, hab⟩ := agreeT_bool_inv h
    simp only [notT, Option.some.injEq] at hw
    simp only [notXT, Option.some.injEq] at hx
    subst hw; subst hx
    simp only [AgreeT, Agree]
    exact fun hk => by rw [hab hk]
  | int _ _ => simp [notT] at hw
  | char _ => simp [notT] at hw
  | tuple _ => simp [notT] at hw

theorem invT_agree {xv : XT} {sv r : TVal} {q : XT} (h : AgreeT xv sv) (hw : invT sv = some r)
    (hx : invXT xv = some q) : AgreeT q r := by
  cases sv with
  | int w' y =>
    obtain ⟨x, k, rfl, ih⟩ := agreeT_int_inv h
    simp only [invT, Option.some.injEq] at hw
    simp only [invXT, Option.some.injEq] at hx
    subst hw; subst hx
    simp only [AgreeT]
    have hy := ih.2.1
    apply mkInt_agree _ _ _ _ (by omega)
    intro j hj hwi
    have hc := agree_cong ih hwi
    have e1 : ((2 ^ w' - 1 - y : Nat) : Int) = (2 : Int) ^ w' - 1 - y := by
      rw [Int.natCast_sub (by omega), Int.natCast_sub (Nat.pow_pos (by decide)), cast_pow2]
      rfl
    rw [e1]
    have e2 : ((2 : Int) ^ w' - 1 - y) % 2 ^ j = ((0 : Int) - 1 - y) % 2 ^ j := by
      have : (2 : Int) ^ w' - 1 - y = (0 - 1 - y) + 2 ^ w' := by omega
      rw [this, Int.add_emod, Int.emod_eq_zero_of_dvd (pow_dvd_pow_int hj), Int.add_zero,
        Int.emod_emod_of_dvd _ (Int.dvd_refl _)]
    rw [e2]
    have e3 : -x - 1 = (0 : Int) - 1 - x := by omega
    rw [e3]
    exact cong_sub rfl hc
  | bool _ => simp [invT] at hw
  | char _ => simp [invT] at hw
  | tuple _ => simp [invT] at hw

theorem index_agree : ∀ (path : List Int) (xv : XT) (sv r : TVal) (q : XT), AgreeT xv sv →
    sv.index path = some r → xv.index path = some q → AgreeT q r
  | [], xv, sv, r, q, h, hw, hx => by
    simp only [TVal.index, Option.some.injEq] at hw
    simp only [XT.index, Option.some.injEq] at hx
    subst hw; subst hx; exact h
  | i :: is, xv, .tuple vs, r, q, h, hw, hx => by
    obtain ⟨xs, rfl, hl⟩ := agreeT_tuple_inv h
    simp only [TVal.index] at hw
    simp only [XT.index] at hx
    split at hw
    · rename_i hi
      simp only [hi, if_true] at hx
      split at hw
      · rename_i v hv
        split at hx
        · rename_i x hxv
          exact index_agree is x v r q (agreeTList_get xs vs _ x v hl hxv hv) hw hx
        · cases hx
      · cases hw
    · cases hw
  | [i], xv, .int w y, r, q, h, hw, hx => by
    obtain ⟨x, k, rfl, ih⟩ := agreeT_int_inv h
    simp only [TVal.index] at hw
    simp only [XT.index] at hx
    split at hw
    · rename_i hi
      simp only [hi, and_self, if_true, Option.some.injEq] at hx
      simp only [Option.some.injEq] at hw
      subst hw; subst hx
      simp only [AgreeT, Agree]
      intro hk
      cases k with
      | none =>
        rw [testBit_cast, ih.2.2.1 rfl]
      | some j =>
        simp only at hk
        split at hk
        · rename_i hij
          exact bit_cong (ih.2.2.2 j rfl).2 hij
        · cases hk
    · cases hw
  | i :: j :: js, xv, .int w y, r, q, h, hw, hx => by simp [TVal.index] at hw
  | i :: is, xv, .bool _, r, q, h, hw, hx => by simp [TVal.index] at hw
  | i :: is, xv, .char _, r, q, h, hw, hx => by simp [TVal.index] at hw

theorem iteT_agree {xc xa xb : XT} {sc sa sb r : TVal} {q : XT} (hc : AgreeT xc sc) (ha : AgreeT xa sa)
    (hb : AgreeT xb sb) (hw : iteT sc sa sb = some r) (hx : iteXT xc xa xb = some q) : AgreeT q r := by
  cases sc with
  | int _ _ => simp [iteT] at hw
  | char _ => simp [iteT] at hw
  | tuple _ => simp [iteT] at hw
  | bool cb' =>
  obtain ⟨cb, kc, rfl, hcb⟩ := agreeT_bool_inv hc
  cases sa with
  | bool a' =>
    obtain ⟨a0, ka, rfl, iha⟩ := agreeT_bool_inv ha
    cases sb with
    | int _ _ => simp [iteT] at hw
    | char _ => simp [iteT] at hw
    | tuple _ => simp [iteT] at hw
    | bool b' =>
      obtain ⟨b0, kb, rfl, ihb⟩ := agreeT_bool_inv hb
      simp only [iteT, Option.some.injEq] at hw
      simp only [iteXT, Option.some.injEq] at hx
      subst hw; subst hx
      simp only [AgreeT, Agree]
      cases kc with
      | some _ => exact fun h => by cases h
      | none =>
        have e := hcb rfl
        subst e
        cases cb' with
        | true => exact fun hk => by simpa using iha (by simpa using hk)
        | false => exact fun hk => by simpa using ihb (by simpa using hk)
  | int wa ya =>
    obtain ⟨xa0, ka, rfl, iha⟩ := agreeT_int_inv ha
    cases sb with
    | bool _ => simp [iteT] at hw
    | char _ => simp [iteT] at hw
    | tuple _ => simp [iteT] at hw
    | int wb yb =>
      obtain ⟨xb0, kb, rfl, ihb⟩ := agreeT_int_inv hb
      simp only [iteT, Option.some.injEq] at hw
      simp only [iteXT, Option.some.injEq] at hx
      subst hw; subst hx
      simp only [AgreeT, Agree]
      have hya := lt_max_l (wr := wb) iha.2.1
      have hyb := lt_max_r (wl := wa) ihb.2.1
      cases kc with
      | some _ =>
        refine ⟨trivial, by split <;> assumption, fun h => (by cases h), fun j hj => ?_⟩
        cases hj
        exact ⟨Nat.zero_le _, by simp [Int.emod_one]⟩
      | none =>
        have e := hcb rfl
        subst e
        cases cb' with
        | true =>
          simp only [if_true]
          refine ⟨trivial, hya, iha.2.2.1, fun j hj => ?_⟩
          obtain ⟨h1, h2⟩ := iha.2.2.2 j hj
          exact ⟨Nat.le_trans h1 (Nat.le_max_left _ _), h2⟩
        | false =>
          simp only [Bool.false_eq_true, if_false]
          refine ⟨trivial, hyb, ihb.2.2.1, fun j hj => ?_⟩
          obtain ⟨h1, h2⟩ := ihb.2.2.2 j hj
          exact ⟨Nat.le_trans h1 (Nat.le_max_right _ _), h2⟩
  | char ca' =>
    obtain ⟨ca, ka, rfl, hca, iha⟩ := agreeT_char_inv ha
    cases sb with
    | bool _ => simp [iteT] at hw
    | int _ _ => simp [iteT] at hw
    | tuple _ => simp [iteT] at hw
    | char cb2' =>
      obtain ⟨cb2, kb, rfl, hcb2, ihb⟩ := agreeT_char_inv hb
      simp only [iteT, Option.some.injEq] at hw
      simp only [iteXT, Option.some.injEq] at hx
      subst hw; subst hx
      simp only [AgreeT]
      refine ⟨by split <;> assumption, ?_⟩
      cases kc with
      | some _ => exact fun h => by cases h
      | none =>
        have e := hcb rfl
        subst e
        cases cb' with
        | true => exact fun hk => by simpa using iha (by simpa using hk)
        | false => exact fun hk => by simpa using ihb (by simpa using hk)
  | tuple va =>
    obtain ⟨xas, rfl, iha⟩ := agreeT_tuple_inv ha
    cases sb with
    | bool _ => simp [iteT] at hw
    | int _ _ => simp [iteT] at hw
    | char _ => simp [iteT] at hw
    | tuple vb =>
      obtain ⟨xbs, rfl, ihb⟩ := agreeT_tuple_inv hb
      simp only [iteT] at hw
      simp only [iteXT] at hx
      split at hw
      · rename_i htw
        split at hx
        · rename_i htx
          simp only [Option.some.injEq] at hw hx
          subst hw; subst hx
          have htyw := Ty.eq_of_beqList _ _ htw
          have htyx := Ty.eq_of_beqList _ _ htx
          obtain ⟨ta, wa⟩ := agreeTList_ty xas va iha
          obtain ⟨tb, wb⟩ := agreeTList_ty xbs vb ihb
          cases kc with
          | none =>
            have e := hcb rfl
            subst e
            simp only [AgreeT]
            cases cb' with
            | true => simpa using iha
            | false => simpa using ihb
          | some _ =>
            simp only [AgreeT]
            apply undetList_agree
            · cases cb <;> cases cb' <;> simp [ta, tb, htyx, htyw]
            · cases cb' <;> simp [wa, wb]
        · cases hx
      · cases hw

theorem cmpEq_cast (op : String) (a b : Nat) : cmpEqInt op (a : Int) (b : Int) = cmpEqNat op a b := by
  unfold cmpEqInt cmpEqNat
  split <;> simp_all

theorem cmpT_agree (op : String) {xl xr : XT} {sl sr r : TVal} {q : XT} (hl : AgreeT xl sl) (hr : AgreeT xr sr)
    (hw : cmpT op sl sr = some r) (hx : cmpXT op xl xr = some q) : AgreeT q r := by
  cases sl with
  | bool a' =>
    obtain ⟨a0, kl, rfl, ihl⟩ := agreeT_bool_inv hl
    cases sr with
    | int _ _ => simp [cmpT] at hw
    | char _ => simp [cmpT] at hw
    | tuple _ => simp [cmpT] at hw
    | bool b' =>
      obtain ⟨b0, kr, rfl, ihr⟩ := agreeT_bool_inv hr
      simp only [cmpT] at hw
      simp only [cmpXT] at hx
      cases hcw : cmpBool op a' b' with
      | none => simp [hcw] at hw
      | some rw' =>
      cases hcx : cmpBool op a0 b0 with
      | none => simp [hcx] at hx
      | some rx =>
      simp only [hcw, Option.map_some, Option.some.injEq] at hw
      simp only [hcx, Option.map_some, Option.some.injEq] at hx
      subst hw; subst hx
      simp only [AgreeT]
      apply mkBool_agree
      intro hk
      obtain ⟨rfl, rfl⟩ := kmin_none hk
      rw [ihl rfl, ihr rfl, hcx] at hcw
      exact (Option.some.inj hcw).symm
  | int wl yl =>
    obtain ⟨xl0, kl, rfl, ihl⟩ := agreeT_int_inv hl
    cases sr with
    | bool _ => simp [cmpT] at hw
    | char _ => simp [cmpT] at hw
    | tuple _ => simp [cmpT] at hw
    | int wr yr =>
      obtain ⟨xr0, kr, rfl, ihr⟩ := agreeT_int_inv hr
      simp only [cmpT] at hw
      simp only [cmpXT] at hx
      cases hcw : cmpNat op yl yr with
      | none => simp [hcw] at hw
      | some rw' =>
      cases hcx : cmpInt op xl0 xr0 with
      | none => simp [hcx] at hx
      | some rx =>
      simp only [hcw, Option.map_some, Option.some.injEq] at hw
      simp only [hcx, Option.map_some, Option.some.injEq] at hx
      subst hw; subst hx
      simp only [AgreeT]
      apply mkBool_agree
      intro hk
      obtain ⟨rfl, rfl⟩ := kmin_none hk
      rw [← ihl.2.2.1 rfl, ← ihr.2.2.1 rfl, cmp_cast, hcw] at hcx
      exact Option.some.inj hcx
  | char cl' =>
    obtain ⟨cl, kl, rfl, _, ihl⟩ := agreeT_char_inv hl
    cases sr with
    | bool _ => simp [cmpT] at hw
    | tuple _ => simp [cmpT] at hw
    | char cr' =>
      obtain ⟨cr, kr, rfl, _, ihr⟩ := agreeT_char_inv hr
      simp only [cmpT] at hw
      simp only [cmpXT] at hx
      cases hcw : cmpEqNat op cl' cr' with
      | none => simp [hcw] at hw
      | some rw' =>
      cases hcx : cmpEqInt op cl cr with
      | none => simp [hcx] at hx
      | some rx =>
      simp only [hcw, Option.map_some, Option.some.injEq] at hw
      simp only [hcx, Option.map_some, Option.some.injEq] at hx
      subst hw; subst hx
      simp only [AgreeT]
      apply mkBool_agree
      intro hk
      obtain ⟨rfl, rfl⟩ := kmin_none hk
      rw [← ihl rfl, ← ihr rfl, cmpEq_cast, hcw] at hcx
      exact Option.some.inj hcx
    | int wr yr =>
      obtain ⟨xr0, kr, rfl, ihr⟩ := agreeT_int_inv hr
      simp only [cmpT] at hw
      simp only [cmpXT] at hx
      cases hcw : cmpEqNat op cl' yr with
      | none => simp [hcw] at hw
      | some rw' =>
      cases hcx : cmpEqInt op cl xr0 with
      | none => simp [hcx] at hx
      | some rx =>
      simp only [hcw, Option.map_some, Option.some.injEq] at hw
      simp only [hcx, Option.map_some, Option.some.injEq] at hx
      subst hw; subst hx
      simp only [AgreeT]
      apply mkBool_agree
      intro hk
      obtain ⟨rfl, rfl⟩ := kmin_none hk
      rw [← ihl rfl, ← ihr.2.2.1 rfl, cmpEq_cast, hcw] at hcx
      exact Option.some.inj hcx
  | tuple vl =>
    obtain ⟨xls, rfl, ihl⟩ := agreeT_tuple_inv hl
    cases sr with
    | bool _ => simp [cmpT] at hw
    | int _ _ => simp [cmpT] at hw
    | char _ => simp [cmpT] at hw
    | tuple vr =>
      obtain ⟨xrs, rfl, ihr⟩ := agreeT_tuple_inv hr
      simp only [cmpT] at hw
      simp only [cmpXT] at hx
      split at hw
      · split at hx
        · split at hw
          · simp only [Option.some.injEq] at hw hx
            subst hw; subst hx
            simp only [AgreeT]
            apply mkBool_agree
            intro hk
            obtain ⟨k1, k2⟩ := kmin_none hk
            exact (beqList_agree xls xrs vl vr ihl ihr k1 k2).symm
          · simp only [Option.some.injEq] at hw hx
            subst hw; subst hx
            simp only [AgreeT]
            apply mkBool_agree
            intro hk
            obtain ⟨k1, k2⟩ := kmin_none hk
            rw [beqList_agree xls xrs vl vr ihl ihr k1 k2]
          · cases hw
        · cases hx
      · cases hw

/-- the leaves of agreeing operand lists of `and` / `or` -/
theorem leaves_agree : ∀ (xs : List XT) (svs : List TVal) (ls : List XVal), AgreeTList xs svs →
    leavesOf xs = some ls → ∃ ss : List SVal, svs = ss.map SVal.toT ∧ List.Forall₂ Agree ls ss
  | [], [], ls, _, h => by
    simp only [leavesOf, Option.some.injEq] at h
    subst h
    exact ⟨[], rfl, List.Forall₂.nil⟩
  | x :: xs, v :: vs, ls, ha, h => by
    cases x with
    | char _ _ => simp [leavesOf] at h
    | tuple _ => simp [leavesOf] at h
    | leaf l =>
      simp only [leavesOf, Option.map_eq_some_iff] at h
      obtain ⟨ls', hls, rfl⟩ := h
      obtain ⟨ss, rfl, hf⟩ := leaves_agree xs vs ls' ha.2 hls
      cases v with
      | bool b => exact ⟨.bool b :: ss, rfl, List.Forall₂.cons ha.1 hf⟩
      | int w y => exact ⟨.int w y :: ss, rfl, List.Forall₂.cons ha.1 hf⟩
      | char _ => exact absurd ha.1 (by simp [AgreeT])
      | tuple _ => exact absurd ha.1 (by simp [AgreeT])
  | [], _ :: _, _, ha, _ => by simp [AgreeTList] at ha
  | _ :: _, [], _, ha, _ => by simp [AgreeTList] at ha

end QV.Sem
