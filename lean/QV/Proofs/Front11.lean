import QV.Proofs.Front9
/-! Statement level of C01, part 3: **guarded assignments**.  `ast2ast` turns `if c: d = b` into
`d = b if _iftargN else d` – an assignment that reads its own target.  The definitions `d.0 := …; d.1 := …`
are evaluated one after the other, so bit `i` of the new value is computed when `d.0 … d.(i-1)` already hold
new values.  It is still right because bit `i` of the translated value reads, of the symbols of `d`, only
`d.j` with `j ≥ i`: `LowBits`.  This file proves that property for the right-hand sides `guardedRhs`
(a tree of if-expressions whose tests are variables other than the target and whose leaves are the target
itself or expressions that do not read it) and redoes the induction over the body for them. -/
namespace QV.Sem
open QV QV.Arith QV.Front

set_option linter.unusedSimpArgs false
set_option linter.unusedVariables false

/-- `ρ'` differs from `ρ` at most on the symbols `t.j`, `j < k` -/
def AgreeLow (t : String) (k : Nat) (ρ ρ' : QV.Env) : Prop :=
  ∀ s, (∀ j, j < k → s ≠ bitName t j) → ρ' s = ρ s

theorem AgreeLow.refl (t : String) (k : Nat) (ρ : QV.Env) : AgreeLow t k ρ ρ := fun _ _ => rfl

theorem AgreeLow.toOff {t : String} {k : Nat} {ρ ρ' : QV.Env} (h : AgreeLow t k ρ ρ') : AgreeOff t ρ ρ' := by
  intro s hs
  exact h s (fun j _ hj => hs (hj ▸ owned_bit t j))

theorem AgreeLow.mono {t : String} {k k' : Nat} {ρ ρ' : QV.Env} (hk : k ≤ k') (h : AgreeLow t k ρ ρ') :
    AgreeLow t k' ρ ρ' := by
  intro s hs
  exact h s (fun j hj => hs j (by omega))

/-- bit `i` evaluates the same under every assignment that differs from `ρ` only on `t.j`, `j < i` -/
def LowBits (t : String) (ρ : QV.Env) (bits : List BExp) : Prop :=
  ∀ (i : Nat) (b : BExp), bits[i]? = some b → ∀ ρ'', AgreeLow t i ρ ρ'' → b.eval ρ'' = b.eval ρ

/-- the bits do not depend on the symbols of `t` at all -/
def IndepBits (t : String) (ρ : QV.Env) (bits : List BExp) : Prop :=
  ∀ b ∈ bits, ∀ ρ'', AgreeOff t ρ ρ'' → b.eval ρ'' = b.eval ρ

theorem lowBits_of_indep {t : String} {ρ : QV.Env} {bits : List BExp} (h : IndepBits t ρ bits) :
    LowBits t ρ bits := by
  intro i b hb ρ'' ha
  exact h b (List.mem_of_getElem? hb) ρ'' ha.toOff

theorem lowBits_syms (t : String) (ρ : QV.Env) (w : Nat) :
    LowBits t ρ ((List.range w).map fun i => BExp.sym (bitName t i)) := by
  intro i b hb ρ'' ha
  simp only [List.getElem?_map, List.getElem?_range, Option.map_eq_some_iff] at hb
  obtain ⟨j, hj, rfl⟩ := hb
  have hji : j = i := by
    by_cases h : i < w
    · simp [List.getElem?_range h] at hj; omega
    · rw [List.getElem?_eq_none (by simp; omega)] at hj; cases hj
  subst hji
  simp only [BExp.eval]
  exact ha _ (fun k hk heq => by have := bitName_inj heq; omega)

theorem lowBits_fill {t : String} {ρ : QV.Env} {bits : List BExp} (n : Nat) (h : LowBits t ρ bits) :
    LowBits t ρ (fill n bits) := by
  unfold fill
  split
  · exact h
  · intro i b hb ρ'' ha
    by_cases hi : i < bits.length
    · rw [List.getElem?_append_left hi] at hb
      exact h i b hb ρ'' ha
    · rw [List.getElem?_append_right (by omega)] at hb
      have : b = .ff := by
        have := List.mem_of_getElem? hb
        simpa using (List.eq_of_mem_replicate this)
      subst this
      simp [BExp.eval]

theorem lowBits_zipWith_ite {t : String} {ρ : QV.Env} {cb : BExp} {x y : List BExp}
    (hc : ∀ ρ'', AgreeOff t ρ ρ'' → cb.eval ρ'' = cb.eval ρ) (hx : LowBits t ρ x) (hy : LowBits t ρ y) :
    LowBits t ρ (List.zipWith (BExp.ite cb) x y) := by
  intro i b hb ρ'' ha
  rw [List.getElem?_zipWith] at hb
  cases hxi : x[i]? with
  | none => simp [hxi] at hb
  | some a =>
    cases hyi : y[i]? with
    | none => simp [hxi, hyi] at hb
    | some c =>
      simp [hxi, hyi] at hb
      subst hb
      simp only [BExp.eval, hc ρ'' ha.toOff, hx i a hxi ρ'' ha, hy i c hyi ρ'' ha]

/-! ### inversion of the translation of an if-expression -/

theorem tr_ite_inv (ρ : QV.Env) (env : Front.Env) (σ : SEnv) (henv : EnvOK ρ env σ) (c l r : PExp)
    (hc : inFrag c = true) (hl : inFrag l = true) (hr : inFrag r = true)
    {s s' : St} {ty : Ty} {v : Val} (h : (tr Quirks.none env (.ite c l r)).run s = .ok ((ty, v), s')) :
    ∃ ct cv s0 lt lv s1 rt rv s2,
      (tr Quirks.none env c).run s = .ok ((ct, cv), s0) ∧
      (tr Quirks.none env l).run s0 = .ok ((lt, lv), s1) ∧
      (tr Quirks.none env r).run s1 = .ok ((rt, rv), s2) ∧
      ((∃ cb a b, cv = .atom cb ∧ lv = .atom a ∧ rv = .atom b ∧ v = .atom (.ite cb a b)) ∨
       (∃ cb a b x y, cv = .atom cb ∧ lv = Val.ofBits a ∧ rv = Val.ofBits b ∧
          v = Val.ofBits (List.zipWith (BExp.ite cb) x y) ∧
          (x = a ∨ x = fill b.length a) ∧ (y = b ∨ y = fill a.length b))) := by
  rw [tr] at h
  simp only [run_bind_ok] at h
  obtain ⟨⟨ct, cv⟩, s0, h0, ⟨lt, lv⟩, s1, h1, ⟨rt, rv⟩, s2, h2, h3⟩ := h
  obtain ⟨svc, hsc, hdc⟩ := sound_all ρ env σ henv c hc _ _ _ _ h0
  obtain ⟨svl, hsl, hdl⟩ := sound_all ρ env σ henv l hl _ _ _ _ h1
  obtain ⟨svr, hsr, hdr⟩ := sound_all ρ env σ henv r hr _ _ _ _ h2
  refine ⟨ct, cv, s0, lt, lv, s1, rt, rv, s2, h0, h1, h2, ?_⟩
  cases hdc with
  | int cbits =>
    simp only [bne_qint_bool, if_true, run_bind_ok, run_throw_ok, false_and, exists_false] at h3
  | bool cb =>
    simp only [bne_bool_bool, Bool.false_eq_true, if_false, run_bind_ok, run_lift_ok, atomOf_atom,
      Except.ok.injEq] at h3
    obtain ⟨_, _, ⟨rfl, rfl⟩, h3⟩ := h3
    cases hdl with
    | bool a =>
      cases hdr with
      | bool b =>
        simp only [bne_bool_bool, Bool.false_eq_true, if_false, beq_bool_bool, if_true, run_bind_ok,
          run_lift_ok, atomOf_atom, Except.ok.injEq, run_pure_ok] at h3
        obtain ⟨_, _, ⟨rfl, rfl⟩, _, _, ⟨rfl, rfl⟩, h4, _⟩ := h3
        cases h4
        exact Or.inl ⟨cb, a, b, rfl, rfl, rfl, rfl⟩
      | int b =>
        simp only [bne_bool_qint, if_true, Ty.size?, run_bind_ok, run_throw_ok, false_and,
          exists_false] at h3
    | int a =>
      cases hdr with
      | bool b =>
        simp only [bne_qint_bool, if_true, Ty.size?, run_bind_ok, run_throw_ok, false_and,
          exists_false] at h3
      | int b =>
        simp only [bne_qint_qint, Ty.size?, run_ite_ok, run_bind_ok, run_lift_ok, bitsOf_ofBits,
          Except.ok.injEq, beq_qint_bool, Bool.false_eq_true, false_and, false_or, not_false_eq_true,
          true_and] at h3
        simp only [Val.ofBits, iteZip_atoms, run_bind_ok, run_lift_ok, Except.ok.injEq, run_pure_ok] at h3
        rcases h3 with ⟨hc1, (⟨hc2, _, _, ⟨rfl, rfl⟩, _, _, ⟨rfl, rfl⟩, h4, _⟩ |
            ⟨hc2, (⟨hc3, _, _, ⟨rfl, rfl⟩, _, _, ⟨rfl, rfl⟩, h4, _⟩ | ⟨hc3, _, _, ⟨rfl, rfl⟩, h4, _⟩)⟩)⟩ |
            ⟨hc1, _, _, ⟨rfl, rfl⟩, h4, _⟩
        · cases h4
          exact Or.inr ⟨cb, a, b, a, fill a.length b, rfl, rfl, rfl, rfl, Or.inl rfl, Or.inr rfl⟩
        · cases h4
          exact Or.inr ⟨cb, a, b, fill b.length a, b, rfl, rfl, rfl, rfl, Or.inr rfl, Or.inl rfl⟩
        · cases h4
          exact Or.inr ⟨cb, a, b, a, b, rfl, rfl, rfl, rfl, Or.inl rfl, Or.inl rfl⟩
        · cases h4
          exact Or.inr ⟨cb, a, b, a, b, rfl, rfl, rfl, rfl, Or.inl rfl, Or.inl rfl⟩

/-! ### a variable under the invariant -/

theorem tr_name_inv {ρ : QV.Env} {env : Front.Env} {σ : SEnv} (hinv : EnvInv ρ env σ) {n : String}
    {s s' : St} {ty : Ty} {v : Val} (h : (tr Quirks.none env (.name n)).run s = .ok ((ty, v), s')) :
    goodName n = true ∧
    ((ty = .bool ∧ v = .atom (.sym n)) ∨
     (∃ w, ty = .qint w ∧ v = Val.ofBits ((List.range w).map fun i => BExp.sym (bitName n i)))) := by
  rw [tr] at h
  cases hf : env.find n with
  | none =>
    rw [hf] at h
    simp only [run_throw_ok] at h
  | some b =>
    rw [hf] at h
    have hname := find_name hf
    refine ⟨hinv.good n b hf, ?_⟩
    rcases hinv.bind n b hf with ⟨hty, hbv, hσ⟩ | ⟨w, hw, hty, hbv, hσ⟩
    · simp only [hbv, List.length_singleton, Nat.lt_irrefl, if_false, run_pure_ok, gt_iff_lt] at h
      obtain ⟨h, _⟩ := h
      cases h
      exact Or.inl ⟨hty, by rw [hname]⟩
    · have hlen : b.bitvec.length = w := by rw [hbv]; simp
      simp only [hlen, gt_iff_lt] at h
      by_cases hw1 : 1 < w
      · simp only [hw1, if_true, run_pure_ok] at h
        obtain ⟨h, _⟩ := h
        cases h
        refine Or.inr ⟨w, hty, ?_⟩
        rw [hbv, hname, ofBits_syms]
        simp [List.map_map, Function.comp_def]
      · have hw0 : w = 0 := by omega
        subst hw0
        simp only [Nat.lt_irrefl, Nat.not_lt_zero, if_false, hbv, List.range_zero, List.map_nil,
          run_throw_ok] at h

theorem atom_ne_ofBits (a : BExp) (l : List BExp) : Val.atom a ≠ Val.ofBits l := by
  simp [Val.ofBits]

/-- a value that denotes the same under every assignment off the symbols of `t` has bits that do not read them -/
theorem indep_of_den {t : String} {ρ : QV.Env} {ty : Ty} {bits : List BExp} {sv : SVal}
    (hind : ∀ ρ'', AgreeOff t ρ ρ'' → Den ρ'' ty (Val.ofBits bits) sv) : IndepBits t ρ bits := by
  intro b hbm ρ'' ha
  have h1 := (den_int_inv (hind ρ (AgreeOff.refl t ρ))).2
  have h2 := (den_int_inv (hind ρ'' ha)).2
  rw [h1] at h2
  simp only [SVal.int.injEq, true_and] at h2
  have h3 : evalBits ρ'' bits = evalBits ρ bits := valLE_inj (by simp) h2.symm
  exact (List.map_inj_left.mp h3) b hbm

/-! ### the right-hand sides that may read their own target -/

theorem guardedRhs_of_not_mentions (t : String) (e : PExp) (h : mentions t e = false) : guardedRhs t e = true := by
  unfold guardedRhs
  split <;> simp_all

theorem low_of_guarded {ρ : QV.Env} {env : Front.Env} {σ : SEnv} (hinv : EnvInv ρ env σ) {t : String}
    (hgt : goodName t = true) (e : PExp) (hfrag : inFrag e = true) (hg : guardedRhs t e = true)
    {s s' : St} {ty : Ty} {v : Val} (h : (tr Quirks.none env e).run s = .ok ((ty, v), s'))
    (bits : List BExp) (hv : v = Val.ofBits bits) : LowBits t ρ bits := by
  have indep : mentions t e = false → LowBits t ρ bits := by
    intro hm
    obtain ⟨sv, _, hind⟩ := tr_indep hinv hgt hfrag hm h
    subst hv
    exact lowBits_of_indep (indep_of_den hind)
  fun_induction guardedRhs t e generalizing s s' ty v bits with
  | case1 g a b iha ihb =>
    simp only [Bool.or_eq_true, Bool.and_eq_true, bne_iff_ne, ne_eq, Bool.not_eq_true'] at hg
    rcases hg with ⟨⟨hgne, hga⟩, hgb⟩ | hm
    · simp only [inFrag, Bool.and_eq_true] at hfrag
      obtain ⟨ct, cv, s0, lt, lv, s1, rt, rv, s2, h0, h1, h2, hshape⟩ :=
        tr_ite_inv ρ env σ (envOK_of_inv hinv) (.name g) a b rfl hfrag.1.2 hfrag.2 h
      rcases hshape with ⟨cb, x, y, _, _, _, hvv⟩ | ⟨cb, x, y, x', y', hcv, hlv, hrv, hvv, hx', hy'⟩
      · rw [hvv] at hv
        exact absurd hv (atom_ne_ofBits _ _)
      · rw [hvv] at hv
        have := ofBits_inj hv
        subst this
        obtain ⟨hgg, hcshape⟩ := tr_name_inv hinv h0
        have hcb : cb = .sym g := by
          rcases hcshape with ⟨_, hc⟩ | ⟨w, _, hc⟩
          · rw [hcv] at hc; injection hc
          · rw [hcv] at hc; exact absurd hc (atom_ne_ofBits _ _)
        have hc : ∀ ρ'', AgreeOff t ρ ρ'' → cb.eval ρ'' = cb.eval ρ := by
          intro ρ'' ha
          rw [hcb]
          simp only [BExp.eval]
          exact ha g (owned_disjoint hgg hgt hgne (owned_self g))
        have hlx : LowBits t ρ x := iha hfrag.1.2 hga h1 x hlv (fun hm => by
          obtain ⟨sv, _, hind⟩ := tr_indep hinv hgt hfrag.1.2 hm h1
          rw [hlv] at hind
          exact lowBits_of_indep (indep_of_den hind))
        have hly : LowBits t ρ y := ihb hfrag.2 hgb h2 y hrv (fun hm => by
          obtain ⟨sv, _, hind⟩ := tr_indep hinv hgt hfrag.2 hm h2
          rw [hrv] at hind
          exact lowBits_of_indep (indep_of_den hind))
        apply lowBits_zipWith_ite hc
        · rcases hx' with rfl | rfl
          · exact hlx
          · exact lowBits_fill _ hlx
        · rcases hy' with rfl | rfl
          · exact hly
          · exact lowBits_fill _ hly
    · exact indep hm
  | case2 n =>
    by_cases hn : n = t
    · subst hn
      obtain ⟨_, hshape⟩ := tr_name_inv hinv h
      rcases hshape with ⟨_, hc⟩ | ⟨w, _, hc⟩
      · rw [hc] at hv; exact absurd hv (atom_ne_ofBits _ _)
      · rw [hc] at hv
        have := ofBits_inj hv
        subst this
        exact lowBits_syms n ρ w
    · exact indep (by simp [mentions, hn])
  | case3 e h1 h2 =>
    exact indep (by simpa using hg)

/-! ### sequential evaluation of definitions that read their own later symbols -/

theorem seq_eval_low (t : String) (ρ : QV.Env) :
    ∀ (suf : List BExp) (k : Nat) (ρ1 : QV.Env), AgreeLow t k ρ ρ1 →
      (∀ (i : Nat) (b : BExp), suf[i]? = some b → ∀ ρ'', AgreeLow t (k + i) ρ ρ'' → b.eval ρ'' = b.eval ρ) →
      AgreeOff t ρ (runDefs (defsOf t k suf) ρ1) ∧
      (List.range' k suf.length).map (fun i => runDefs (defsOf t k suf) ρ1 (bitName t i)) = evalBits ρ suf ∧
      (∀ j, j < k → runDefs (defsOf t k suf) ρ1 (bitName t j) = ρ1 (bitName t j))
  | [], k, ρ1, h1, _ => by
    simp only [defsOf, runDefs_nil]
    refine ⟨h1.toOff, by simp [evalBits], ?_⟩
    intro _ _; trivial
  | b :: bs, k, ρ1, h1, hb => by
    simp only [defsOf, runDefs_cons]
    have h2 : AgreeLow t (k + 1) ρ (stepDef ρ1 (bitName t k, b)) := by
      intro s hs
      have hne : s ≠ bitName t k := hs k (Nat.lt_succ_self k)
      simp only [stepDef, beq_iff_eq, hne, if_false]
      exact h1 s (fun j hj => hs j (by omega))
    obtain ⟨i1, i2, i3⟩ := seq_eval_low t ρ bs (k + 1) _ h2 (fun i b' hb' ρ'' ha => by
      apply hb (i + 1) b' (by simpa using hb') ρ''
      have : k + (i + 1) = k + 1 + i := by omega
      rw [this]; exact ha)
    refine ⟨i1, ?_, ?_⟩
    · simp only [List.length_cons, List.range'_succ, List.map_cons, evalBits]
      congr 1
      · rw [i3 k (Nat.lt_succ_self k)]
        simp only [stepDef, beq_self_eq_true, if_true]
        exact hb 0 b (by simp) ρ1 (by simpa using h1)
    · intro j hj
      rw [i3 j (by omega)]
      have hne : bitName t j ≠ bitName t k := fun h => by have := bitName_inj h; omega
      simp only [stepDef, beq_iff_eq, hne, if_false]

/-- `bind_value` for a value whose bit `i` may read the symbols `t.j`, `j ≥ i`, of its own target -/
theorem bind_value_low {ρ : QV.Env} {env : Front.Env} {σ : SEnv} (hinv : EnvInv ρ env σ) {t : String}
    (hgt : goodName t = true) {ty : Ty} {v : Val} {sv : SVal} (hd : Den ρ ty v sv)
    (hlow : ∀ bits, v = Val.ofBits bits → LowBits t ρ bits) (hwid : ∀ w x, sv = .int w x → w ≠ 1)
    (env' : Front.Env)
    (hfind : ∀ n, env'.find n = if n = t then some ⟨t, ty, (v.decompose t).map (·.1)⟩ else env.find n) :
    EnvInv (runDefs (v.decompose t) ρ) env' (σ.set t sv) ∧ AgreeOff t ρ (runDefs (v.decompose t) ρ) ∧
      (ty.names t).map (runDefs (v.decompose t) ρ) = sv.bits := by
  cases hd with
  | bool a =>
    have hdefs : (Val.atom a).decompose t = [(t, a)] := by simp [Val.decompose]
    rw [hdefs] at hfind ⊢
    have hrun : runDefs [(t, a)] ρ = stepDef ρ (t, a) := by rw [runDefs_cons, runDefs_nil]
    rw [hrun]
    have hag : AgreeOff t ρ (stepDef ρ (t, a)) := by
      intro s hs
      have hne : s ≠ t := fun h => hs (h ▸ owned_self t)
      simp [stepDef, hne]
    refine ⟨?_, hag, by simp [Ty.names, stepDef, SVal.bits]⟩
    apply envInv_bind hinv hgt hag _ rfl _ _ (fun w x h => by cases h) env' hfind
    exact Or.inl ⟨rfl, rfl, by simp [SEnv.set, stepDef]⟩
  | int bits =>
    rw [decompose_ofBits] at hfind ⊢
    have hb := hlow bits rfl
    obtain ⟨hag, hmap, _⟩ := seq_eval_low t ρ bits 0 ρ (AgreeLow.refl t 0 ρ) (fun i b hbi ρ'' ha => by
      exact hb i b hbi ρ'' (by simpa using ha))
    have hmap' : ((List.range bits.length).map (bitName t)).map (runDefs (defsOf t 0 bits) ρ) = evalBits ρ bits := by
      rw [List.range_eq_range', List.map_map]
      exact hmap
    refine ⟨?_, hag, ?_⟩
    · apply envInv_bind hinv hgt hag _ rfl _ _ (fun w x h => hwid w x h) env' hfind
      refine Or.inr ⟨bits.length, hwid _ _ rfl, rfl, defsOf_names0 t bits, ?_⟩
      simp only [SEnv.set, beq_self_eq_true, if_true, defsOf_names0, hmap']
      rfl
    · rw [names_qint, hmap']
      simp only [SVal.bits, val]
      have := toBitsLE_valLE (evalBits ρ bits)
      simpa using this.symm

/-! ### one statement, the body, the program -/

theorem assign_step_g {ρ : QV.Env} {env : Front.Env} {σ : SEnv} (hinv : EnvInv ρ env σ) (ret : Ty)
    (t : String) (e : PExp) (hgt : goodName t = true) (hfrag : inFrag e = true)
    (hself : guardedRhs t e = true) {s s' : St} {defs : List (String × BExp)} {env' : Front.Env}
    (h : (trStmt Quirks.none ret env (.assign t e)).run s = .ok ((defs, env'), s')) :
    ∃ sv, semW σ e = some sv ∧ EnvInv (runDefs defs ρ) env' (σ.set t sv) ∧
      AgreeOff t ρ (runDefs defs ρ) ∧ (∀ n, n ≠ t → env'.find n = env.find n) := by
  rw [trStmt] at h
  simp only [run_bind_ok] at h
  obtain ⟨⟨ty, v⟩, s1, h1, h2⟩ := h
  obtain ⟨sv, hs, hd⟩ := sound_all ρ env σ (envOK_of_inv hinv) e hfrag _ _ _ _ h1
  have hlow := low_of_guarded hinv hgt e hfrag hself h1
  have hwid : ∀ w x, sv = .int w x → w ≠ 1 := fun w x hsv => semW_width σ hinv.width e w x (hsv ▸ hs)
  have h3 : defs = v.decompose t ∧ env' = env.bind ⟨t, ty, (v.decompose t).map (·.1)⟩ := by
    cases hd with
    | bool a =>
      simp only [run_pure_ok, Prod.mk.injEq] at h2
      exact h2.1
    | int bits =>
      simp only [run_pure_ok, Prod.mk.injEq] at h2
      exact h2.1
  obtain ⟨rfl, rfl⟩ := h3
  have hfind := fun n => find_bind env ⟨t, ty, (v.decompose t).map (·.1)⟩ n
  obtain ⟨i1, i2, _⟩ := bind_value_low hinv hgt hd hlow hwid _ hfind
  refine ⟨sv, hs, i1, i2, fun n hn => ?_⟩
  rw [hfind n]
  simp [hn]

theorem stmtOKg_of_stmtOK (st : Stmt) (h : stmtOK st = true) : stmtOKg st = true := by
  cases st with
  | assign t e =>
    simp only [stmtOK, Bool.and_eq_true, Bool.not_eq_true'] at h
    simp only [stmtOKg, Bool.and_eq_true]
    exact ⟨h.1, guardedRhs_of_not_mentions t e h.2⟩
  | ret e => exact h
  | expr e => rfl
  | unsupported w => exact h

theorem guardedLine_of_straightLine (p : Prog) (h : straightLine p = true) : guardedLine p = true := by
  simp only [straightLine, guardedLine, Bool.and_eq_true, List.all_eq_true] at h ⊢
  exact ⟨h.1, fun st hst => stmtOKg_of_stmtOK st (h.2 st hst)⟩

theorem body_frame_g (ret : Ty) (hret : argTyOK ret = true) :
    ∀ (ss : List Stmt) (ρ : QV.Env) (env : Front.Env) (σ : SEnv), EnvInv ρ env σ →
      ss.all stmtOKg = true → (env.find "_ret").isSome = true →
      ∀ (s s' : St) (defs : List (String × BExp)), (trBody Quirks.none ret env ss).run s = .ok (defs, s') →
      ∀ x, Owned "_ret" x → runDefs defs ρ x = ρ x
  | [], ρ, env, σ, hinv, hok, hsome, s, s', defs, h, x, hx => by
    rw [trBody] at h
    have hn : ¬ ((env.find "_ret").isNone = true) := by
      cases hf : env.find "_ret" <;> simp [hf] at hsome ⊢
    rw [if_neg hn] at h
    simp only [run_pure_ok] at h
    obtain ⟨rfl, _⟩ := h
    rfl
  | st :: ss, ρ, env, σ, hinv, hok, hsome, s, s', defs, h, x, hx => by
    rw [trBody] at h
    simp only [run_bind_ok, run_pure_ok] at h
    obtain ⟨⟨d1, env1⟩, s1, h1, rest, s2, h2, rfl, _⟩ := h
    simp only [List.all_cons, Bool.and_eq_true] at hok
    rw [runDefs_append]
    cases st with
    | assign t e =>
      simp only [stmtOKg, Bool.and_eq_true, bne_iff_ne, ne_eq] at hok
      obtain ⟨⟨⟨⟨hgt, hne⟩, hfrag⟩, hself⟩, hrest⟩ := hok
      obtain ⟨sv, hs, hinv1, hag, hfind⟩ := assign_step_g hinv ret t e hgt hfrag hself h1
      have hsome1 : (env1.find "_ret").isSome = true := by
        rw [hfind "_ret" (fun h => hne h.symm)]; exact hsome
      rw [body_frame_g ret hret ss _ env1 _ hinv1 hrest hsome1 s1 s2 rest h2 x hx]
      exact hag x (owned_disjoint retName_good hgt (fun h => hne h.symm) hx)
    | ret e =>
      simp only [stmtOKg, Bool.and_eq_true, Bool.not_eq_true'] at hok
      obtain ⟨hnone, _⟩ := ret_step hinv ret hret e hok.1.1 hok.1.2 h1
      rw [hnone] at hsome
      cases hsome
    | expr e =>
      obtain ⟨rfl, rfl⟩ := expr_step h1
      rw [runDefs_nil]
      exact body_frame_g ret hret ss ρ _ σ hinv hok.2 hsome s1 s2 rest h2 x hx
    | unsupported w => simp [stmtOKg] at hok

theorem body_main_g (ret : Ty) (hret : argTyOK ret = true) :
    ∀ (ss : List Stmt) (ρ : QV.Env) (env : Front.Env) (σ : SEnv), EnvInv ρ env σ →
      ss.all stmtOKg = true → env.find "_ret" = none →
      ∀ (s s' : St) (defs : List (String × BExp)), (trBody Quirks.none ret env ss).run s = .ok (defs, s') →
      ∃ sv, semBody ret σ ss = some sv ∧ (ret.names "_ret").map (runDefs defs ρ) = sv.bits
  | [], ρ, env, σ, hinv, hok, hnone, s, s', defs, h => by
    rw [trBody] at h
    have hq : Quirks.none.noReturnAccepted = false := rfl
    rw [if_pos (by rw [hnone]; rfl)] at h
    simp only [run_bind_ok, run_ite_ok, run_throw_ok, run_pure_ok, hq, Bool.not_false, not_true_eq_false,
      false_and, and_false, exists_false, or_false] at h
  | st :: ss, ρ, env, σ, hinv, hok, hnone, s, s', defs, h => by
    rw [trBody] at h
    simp only [run_bind_ok, run_pure_ok] at h
    obtain ⟨⟨d1, env1⟩, s1, h1, rest, s2, h2, rfl, _⟩ := h
    simp only [List.all_cons, Bool.and_eq_true] at hok
    rw [runDefs_append]
    cases st with
    | assign t e =>
      simp only [stmtOKg, Bool.and_eq_true, bne_iff_ne, ne_eq] at hok
      obtain ⟨⟨⟨⟨hgt, hne⟩, hfrag⟩, hself⟩, hrest⟩ := hok
      obtain ⟨sv, hs, hinv1, hag, hfind⟩ := assign_step_g hinv ret t e hgt hfrag hself h1
      have hnone1 : env1.find "_ret" = none := by
        rw [hfind "_ret" (fun h => hne h.symm)]; exact hnone
      obtain ⟨r, hr1, hr2⟩ := body_main_g ret hret ss _ env1 _ hinv1 hrest hnone1 s1 s2 rest h2
      exact ⟨r, by simp only [semBody, hs, hr1], hr2⟩
    | ret e =>
      simp only [stmtOKg, Bool.and_eq_true, Bool.not_eq_true'] at hok
      obtain ⟨_, v, sv, hs, hco, hbits, hinv1, hag, hsome1⟩ := ret_step hinv ret hret e hok.1.1 hok.1.2 h1
      refine ⟨sv, by simp only [semBody, hs, hco], ?_⟩
      rw [← hbits]
      apply List.map_congr_left
      intro x hx
      exact body_frame_g ret hret ss _ env1 _ hinv1 hok.2 hsome1 s1 s2 rest h2 x (names_owned ret hret x hx)
    | expr e =>
      obtain ⟨rfl, rfl⟩ := expr_step h1
      rw [runDefs_nil]
      obtain ⟨r, hr1, hr2⟩ := body_main_g ret hret ss ρ _ σ hinv hok.2 hnone s1 s2 rest h2
      exact ⟨r, by simp only [semBody, hr1], hr2⟩
    | unsupported w => simp [stmtOKg] at hok

/-- **the statement level with guarded assignments**: a program of the guarded fragment that `translate`
accepts has, under every assignment of the argument bits, a `SemW` value, and the sequential evaluation of
the definition list leaves exactly its bits in the return symbols -/
theorem translate_sound_g (p : Prog) (consts : List (Bool × Bool)) (hp : guardedLine p = true)
    (defs : List (String × BExp)) (events : List String)
    (h : translate Quirks.none consts p = .ok (defs, events)) (ρ : QV.Env) :
    ∃ sv, semProg p ρ = some sv ∧ (p.ret.names "_ret").map (runDefs defs ρ) = sv.bits := by
  simp only [guardedLine, Bool.and_eq_true, List.all_eq_true, bne_iff_ne, ne_eq] at hp
  obtain ⟨⟨hargs, hret⟩, hbody⟩ := hp
  unfold translate at h
  simp only at h
  split at h
  · rename_i defs' st hrun
    simp only [Except.ok.injEq, Prod.mk.injEq] at h
    obtain ⟨rfl, _⟩ := h
    have hinv := envInv_args ρ p.args (fun a ha => ⟨(hargs a ha).1.1, (hargs a ha).1.2⟩)
    have hnone := initEnv_no_ret p.args (fun a ha => (hargs a ha).2)
    exact body_main_g p.ret hret p.body ρ _ _ hinv (by simpa [List.all_eq_true] using hbody) hnone _ _ _ hrun
  · cases h

end QV.Sem
