import QV.Model.Compiler
/-!
# Structural invariants of the compiler model, for every run

Hoare-style reasoning about `QV.Compiler.compile` in `M := StateT CState (Except String)`:
a state invariant `Good`, a two-state relation `Step B s s'` ("`s'` is reachable from `s` by
compiler steps that bind only names in `B` or reserved names"), one lemma per primitive and a
mutual induction over `compileExpr` / `compileArgs` / `compileXorArgs`.
-/
namespace QV.Compiler
open QV

/-! ### successful runs of the state+exception monad -/

theorem run_bind_ok {α β} {m : M α} {f : α → M β} {s : CState} {b : β} {s'' : CState} :
    (m >>= f).run s = .ok (b, s'') ↔ ∃ a s', m.run s = .ok (a, s') ∧ (f a).run s' = .ok (b, s'') := by
  rw [StateT.run_bind]
  cases h : m.run s with
  | error e => simp [bind, Except.bind]
  | ok p =>
    obtain ⟨a, s'⟩ := p
    simp only [bind, Except.bind, Except.ok.injEq, Prod.mk.injEq]
    constructor
    · intro h; exact ⟨a, s', ⟨rfl, rfl⟩, h⟩
    · rintro ⟨a1, s1, ⟨rfl, rfl⟩, h⟩; exact h

theorem run_pure_ok {α} {a b : α} {s s' : CState} :
    (pure a : M α).run s = .ok (b, s') ↔ b = a ∧ s' = s := by
  rw [StateT.run_pure]; simp only [pure, Except.pure, Except.ok.injEq, Prod.mk.injEq]
  constructor <;> rintro ⟨rfl, rfl⟩ <;> exact ⟨rfl, rfl⟩

theorem run_throw_ok {α} {e : String} {b : α} {s s' : CState} :
    (throw e : M α).run s = .ok (b, s') ↔ False := by
  simp [throw, throwThe, MonadExceptOf.throw, StateT.run, StateT.lift, bind, Except.bind]

theorem run_get_ok {a s s' : CState} :
    (get : M CState).run s = .ok (a, s') ↔ a = s ∧ s' = s := by
  simp only [StateT.run_get, pure, Except.pure, Except.ok.injEq, Prod.mk.injEq]
  constructor <;> rintro ⟨rfl, rfl⟩ <;> exact ⟨rfl, rfl⟩

theorem run_set_ok {t s s' : CState} {u : PUnit} :
    (set t : M PUnit).run s = .ok (u, s') ↔ s' = t := by
  simp only [StateT.run_set, pure, Except.pure, Except.ok.injEq, Prod.mk.injEq, true_and]
  constructor <;> rintro rfl <;> rfl

theorem run_modify_ok {f : CState → CState} {s s' : CState} {u : PUnit} :
    (modify f : M PUnit).run s = .ok (u, s') ↔ s' = f s := by
  simp only [StateT.run_modify, pure, Except.pure, Except.ok.injEq, Prod.mk.injEq, true_and]
  constructor <;> rintro rfl <;> rfl

theorem getQC_run {a : QC} {s s' : CState} (h : getQC.run s = .ok (a, s')) : a = s.qc ∧ s' = s := by
  unfold getQC at h
  simp only [run_bind_ok, run_get_ok, run_pure_ok] at h
  obtain ⟨a1, s1, ⟨rfl, rfl⟩, rfl, rfl⟩ := h
  exact ⟨rfl, rfl⟩

theorem modQC_run {f : QC → QC} {u : Unit} {s s' : CState} (h : (modQC f).run s = .ok (u, s')) :
    s' = { s with qc := f s.qc } := by
  unfold modQC at h
  exact run_modify_ok.mp h

theorem event_run {e : String} {u : Unit} {s s' : CState} (h : (event e).run s = .ok (u, s')) :
    s' = { s with events := s.events ++ [e] } := by
  unfold event at h
  exact run_modify_ok.mp h

/-! ### the invariant -/

/-- a gate is X/CX/MCX-like on distinct wires below `n`, with the arity of its class -/
def GateOK (n : Nat) (g : AGate) : Prop :=
  g.cls.isMCXLike = true ∧ g.wires.Nodup ∧ (∀ w ∈ g.wires, w < n) ∧ g.wires.length = g.cls.nQubits

theorem GateOK.mono {n m : Nat} {g : AGate} (h : GateOK n g) (hnm : n ≤ m) : GateOK m g :=
  ⟨h.1, h.2.1, fun w hw => Nat.lt_of_lt_of_le (h.2.2.1 w hw) hnm, h.2.2.2⟩

/-- state invariant of the compiler: gate lists well formed, every stored qubit index below
`numQubits`, ancilla set duplicate-free, names of ancilla qubits are scratch names (`anc_…`) -/
structure Good (s : CState) : Prop where
  gates_ok : ∀ g ∈ s.qc.gates.toList, GateOK s.qc.numQubits g
  comp_ok : ∀ g ∈ s.qc.gatesComputed.toList, GateOK s.qc.numQubits g
  qmap_lt : ∀ p ∈ s.qc.qmap, p.2 < s.qc.numQubits
  expq_lt : ∀ p ∈ s.expq, p.2 < s.qc.numQubits
  anc_lt : ∀ a ∈ s.qc.anc, a < s.qc.numQubits
  free_lt : ∀ a ∈ s.qc.free, a < s.qc.numQubits
  marked_lt : ∀ a ∈ s.qc.marked, a < s.qc.numQubits
  anc_nodup : s.qc.anc.Nodup
  anc_named : ∀ p ∈ s.qc.qmap, p.2 ∈ s.qc.anc → scratchName p.1 = true
  kept_lt : ∀ a ∈ s.qc.kept, a < s.qc.numQubits

/-- every ancilla / free / marked / kept index is at least `n` (with `n` the number of argument qubits:
no argument qubit is ever handed out as scratch space) -/
def ScratchGe (n : Nat) (s : CState) : Prop :=
  (∀ a ∈ s.qc.anc, n ≤ a) ∧ (∀ a ∈ s.qc.free, n ≤ a) ∧ (∀ a ∈ s.qc.marked, n ≤ a) ∧
    (∀ a ∈ s.qc.kept, n ≤ a)

/-- `s'` comes from `s` by steps that keep the invariant, only add qubits, never delete a
non-scratch name and rebind only names in `B` or reserved names -/
structure Step (B : String → Prop) (s s' : CState) : Prop where
  good : Good s'
  nq_le : s.qc.numQubits ≤ s'.qc.numQubits
  inputs_eq : s'.inputs = s.inputs
  keys_keep : ∀ x, scratchName x = false → (dictGet? s.qc.qmap x).isSome = true →
    (dictGet? s'.qc.qmap x).isSome = true
  qmap_keep : ∀ x, ¬ B x → reservedName x = false → dictGet? s'.qc.qmap x = dictGet? s.qc.qmap x
  ge_keep : ∀ n, n ≤ s.qc.numQubits → ScratchGe n s → ScratchGe n s'

theorem Step.refl {B : String → Prop} {s : CState} (h : Good s) : Step B s s :=
  ⟨h, Nat.le_refl _, rfl, fun _ _ h => h, fun _ _ _ => rfl, fun _ _ h => h⟩

theorem Step.trans {B : String → Prop} {s s' s'' : CState} (h1 : Step B s s') (h2 : Step B s' s'') :
    Step B s s'' :=
  ⟨h2.good, Nat.le_trans h1.nq_le h2.nq_le, h2.inputs_eq.trans h1.inputs_eq,
   fun x hx h => h2.keys_keep x hx (h1.keys_keep x hx h),
   fun x hb hr => (h2.qmap_keep x hb hr).trans (h1.qmap_keep x hb hr),
   fun n hn h => h2.ge_keep n (Nat.le_trans hn h1.nq_le) (h1.ge_keep n hn h)⟩

/-- a step that leaves `numQubits`, `qmap` and `inputs` alone -/
theorem Step.of_same {B : String → Prop} {s s' : CState} (hg : Good s')
    (hn : s'.qc.numQubits = s.qc.numQubits) (hq : s'.qc.qmap = s.qc.qmap) (hi : s'.inputs = s.inputs)
    (hge : ∀ n, ScratchGe n s → ScratchGe n s') :
    Step B s s' :=
  ⟨hg, by rw [hn]; exact Nat.le_refl _, hi, fun x _ h => by rw [hq]; exact h, fun x _ _ => by rw [hq],
   fun n _ h => hge n h⟩

/-! ### dictionaries -/

theorem dictGet?_isSome {d : List (String × Nat)} {k : String} :
    (dictGet? d k).isSome = d.any (·.1 == k) := by
  unfold dictGet?
  induction d with
  | nil => rfl
  | cons p d ih =>
    simp only [List.find?_cons, List.any_cons]
    cases h : p.1 == k <;> simp_all

theorem mem_dictSet {d : List (String × Nat)} {k : String} {v : Nat} {p : String × Nat}
    (h : p ∈ dictSet d k v) : p ∈ d ∨ p = (k, v) := by
  unfold dictSet at h
  split at h
  · simp only [List.mem_map] at h
    obtain ⟨q, hq, rfl⟩ := h
    split
    · exact Or.inr rfl
    · exact Or.inl hq
  · simp only [List.mem_append, List.mem_singleton] at h
    exact h

theorem find_upd_ne {d : List (String × Nat)} {k x : String} {v : Nat} (hx : x ≠ k) :
    ((d.map (fun p => if p.1 == k then (k, v) else p)).find? (·.1 == x)).map (·.2)
      = (d.find? (·.1 == x)).map (·.2) := by
  induction d with
  | nil => rfl
  | cons p d ih =>
    have h2 : (k == x) = false := by simp [Ne.symm hx]
    by_cases hp : p.1 = k
    · have h1 : (p.1 == k) = true := by simp [hp]
      have h3 : (p.1 == x) = false := by rw [hp]; exact h2
      rw [List.map_cons, List.find?_cons, List.find?_cons]
      simp only [h1, if_true, h2, h3]
      exact ih
    · have h1 : (p.1 == k) = false := by simp [hp]
      rw [List.map_cons, List.find?_cons, List.find?_cons]
      simp only [h1, Bool.false_eq_true, if_false]
      cases p.1 == x
      · exact ih
      · rfl

theorem find_upd_self {d : List (String × Nat)} {k : String} {v : Nat} (h : d.any (·.1 == k) = true) :
    ((d.map (fun p => if p.1 == k then (k, v) else p)).find? (·.1 == k)).map (·.2) = some v := by
  induction d with
  | nil => simp at h
  | cons p d ih =>
    rw [List.map_cons, List.find?_cons]
    by_cases hp : p.1 = k
    · have h1 : (p.1 == k) = true := by simp [hp]
      have h2 : (k == k) = true := by simp
      simp only [h1, if_true, h2, Option.map_some]
    · have h1 : (p.1 == k) = false := by simp [hp]
      simp only [h1, Bool.false_eq_true, if_false]
      rw [List.any_cons, h1, Bool.false_or] at h
      exact ih h

theorem find_filter_ne {d : List (String × Nat)} {k x : String} (hx : x ≠ k) :
    (d.filter (·.1 != k)).find? (·.1 == x) = d.find? (·.1 == x) := by
  induction d with
  | nil => rfl
  | cons p d ih =>
    by_cases hp : p.1 = k
    · have h1 : (p.1 != k) = false := by simp [hp]
      have h3 : (p.1 == x) = false := by rw [hp]; simp [Ne.symm hx]
      rw [List.filter_cons, List.find?_cons]
      simp only [h1, Bool.false_eq_true, if_false, h3]
      exact ih
    · have h1 : (p.1 != k) = true := by simp [hp]
      rw [List.filter_cons, List.find?_cons]
      simp only [h1, if_true, List.find?_cons]
      cases p.1 == x
      · exact ih
      · rfl

theorem dictGet?_dictSet_self {d : List (String × Nat)} {k : String} {v : Nat} :
    dictGet? (dictSet d k v) k = some v := by
  unfold dictSet dictGet?
  split
  · next h => exact find_upd_self h
  · next h =>
    have hn : d.find? (·.1 == k) = none := by
      rw [List.find?_eq_none]
      intro p hp hk
      exact h (List.any_eq_true.mpr ⟨p, hp, hk⟩)
    rw [List.find?_append, hn]
    simp

theorem dictGet?_dictSet_ne {d : List (String × Nat)} {k x : String} {v : Nat} (hx : x ≠ k) :
    dictGet? (dictSet d k v) x = dictGet? d x := by
  unfold dictSet dictGet?
  split
  · exact find_upd_ne hx
  · have h2 : (k == x) = false := by simp [Ne.symm hx]
    rw [List.find?_append]
    simp [h2]

theorem dictGet?_filter_ne {d : List (String × Nat)} {k x : String} (hx : x ≠ k) :
    dictGet? (d.filter (·.1 != k)) x = dictGet? d x := by
  unfold dictGet?
  rw [find_filter_ne hx]

theorem dictGet?_mem {d : List (String × Nat)} {k : String} {v : Nat} (h : dictGet? d k = some v) :
    (k, v) ∈ d := by
  unfold dictGet? at h
  cases hf : d.find? (·.1 == k) with
  | none => simp [hf] at h
  | some p =>
    simp only [hf, Option.map_some, Option.some.injEq] at h
    have hm := List.mem_of_find?_eq_some hf
    have hk := List.find?_some hf
    have : p.1 = k := by simpa using hk
    subst h; subst this
    exact hm

theorem keyByIndex?_mem {d : List (String × Nat)} {i : Nat} {k : String} (h : keyByIndex? d i = some k) :
    (k, i) ∈ d := by
  unfold keyByIndex? at h
  cases hf : d.reverse.find? (·.2 == i) with
  | none => simp [hf] at h
  | some p =>
    simp only [hf, Option.map_some, Option.some.injEq] at h
    have hm := List.mem_of_find?_eq_some hf
    have hk := List.find?_some hf
    have : p.2 = i := by simpa using hk
    subst h; subst this
    simpa using hm

/-! ### names -/

theorem ancLike_anc (k : Nat) : ancLike s!"anc_{k}" = true := by
  simp [ancLike, toString]

theorem reserved_of_scratch {x : String} (h : scratchName x = true) : reservedName x = true := by
  simp [reservedName, h]

/-! ### appending gates -/

/-- what a successful `appendG` does to the state -/
structure Appended (cls : GClass) (wires : List Nat) (s s' : CState) : Prop where
  noerr : appendError s.qc.numQubits { cls := cls, wires := wires } = none
  gates : ∃ g : AGate, g.cls = cls ∧ g.wires = wires ∧ s'.qc.gates = s.qc.gates.push g ∧
    (s'.qc.gatesComputed = s.qc.gatesComputed ∨ s'.qc.gatesComputed = s.qc.gatesComputed.push g)
  nq : s'.qc.numQubits = s.qc.numQubits
  qmap : s'.qc.qmap = s.qc.qmap
  anc : s'.qc.anc = s.qc.anc
  free : s'.qc.free = s.qc.free
  marked : s'.qc.marked = s.qc.marked
  kept : s'.qc.kept = s.qc.kept
  expq : s'.expq = s.expq
  inputs : s'.inputs = s.inputs

theorem appendG_run {cls : GClass} {wires : List Nat} {gid : Option (Nat × Nat)} {b : Bool} {s s' : CState}
    (h : (appendG cls wires gid).run s = .ok (b, s')) : Appended cls wires s s' := by
  unfold appendG at h
  simp only [run_bind_ok] at h
  obtain ⟨qc, s1, hq, h⟩ := h
  obtain ⟨rfl, rfl⟩ := getQC_run hq
  split at h
  · exact (run_throw_ok.mp h).elim
  · next herr =>
    split at h
    · simp only [run_bind_ok, run_pure_ok] at h
      obtain ⟨u, s2, hm, rfl, rfl⟩ := h
      have := modQC_run hm
      subst this
      refine ⟨herr, ⟨_, rfl, rfl, rfl, ?_⟩, rfl, rfl, rfl, rfl, rfl, rfl, rfl, rfl⟩
      dsimp only
      split
      · exact Or.inl rfl
      · exact Or.inr rfl
    · simp only [run_bind_ok, run_pure_ok] at h
      obtain ⟨u, s2, hm, rfl, rfl⟩ := h
      have := modQC_run hm
      subst this
      refine ⟨herr, ⟨_, rfl, rfl, rfl, ?_⟩, rfl, rfl, rfl, rfl, rfl, rfl, rfl, rfl⟩
      dsimp only
      split
      · exact Or.inl rfl
      · exact Or.inr rfl

theorem appendError_none {n : Nat} {g : AGate} (h : appendError n g = none) :
    g.wires.Nodup ∧ g.wires.length = g.cls.nQubits := by
  unfold appendError at h
  split at h
  · simp at h
  · split at h
    · simp at h
    · split at h
      · simp at h
      · next h2 h3 => exact ⟨by simpa using h2, by simpa using h3⟩

theorem Appended.step {B : String → Prop} {cls : GClass} {wires : List Nat} {s s' : CState}
    (ha : Appended cls wires s s') (hg : Good s) (hc : cls.isMCXLike = true)
    (hw : ∀ w ∈ wires, w < s.qc.numQubits) : Step B s s' := by
  obtain ⟨hn, hl⟩ := appendError_none ha.noerr
  obtain ⟨g, hgc, hgw, hgates, hcomp⟩ := ha.gates
  have hgok : GateOK s.qc.numQubits g := by
    refine ⟨by rw [hgc]; exact hc, by rw [hgw]; exact hn, by rw [hgw]; exact hw, by rw [hgw, hgc]; exact hl⟩
  apply Step.of_same _ ha.nq ha.qmap ha.inputs
    (fun n h => ⟨by rw [ha.anc]; exact h.1, by rw [ha.free]; exact h.2.1, by rw [ha.marked]; exact h.2.2.1,
      by rw [ha.kept]; exact h.2.2.2⟩)
  refine ⟨?_, ?_, ?_, ?_, ?_, ?_, ?_, ?_, ?_, ?_⟩
  · rw [ha.nq, hgates]
    intro g' hg'
    simp only [Array.toList_push, List.mem_append, List.mem_singleton] at hg'
    rcases hg' with hg' | rfl
    · exact hg.gates_ok g' hg'
    · exact hgok
  · rw [ha.nq]
    rcases hcomp with hcomp | hcomp
    · rw [hcomp]; exact hg.comp_ok
    · rw [hcomp]
      intro g' hg'
      simp only [Array.toList_push, List.mem_append, List.mem_singleton] at hg'
      rcases hg' with hg' | rfl
      · exact hg.comp_ok g' hg'
      · exact hgok
  · rw [ha.nq, ha.qmap]; exact hg.qmap_lt
  · rw [ha.nq, ha.expq]; exact hg.expq_lt
  · rw [ha.nq, ha.anc]; exact hg.anc_lt
  · rw [ha.nq, ha.free]; exact hg.free_lt
  · rw [ha.nq, ha.marked]; exact hg.marked_lt
  · rw [ha.anc]; exact hg.anc_nodup
  · rw [ha.anc, ha.qmap]; exact hg.anc_named
  · rw [ha.nq, ha.kept]; exact hg.kept_lt

theorem run_discard_ok {α} {m : M α} {u : Unit} {s s' : CState} :
    (discard m).run s = .ok (u, s') ↔ ∃ a, m.run s = .ok (a, s') := by
  simp only [discard, Functor.discard, Functor.mapConst, Function.comp]
  show (StateT.map (Function.const α PUnit.unit) m).run s = _ ↔ _
  unfold StateT.map StateT.run
  simp only [bind, Except.bind, pure, Except.pure]
  cases h : m s with
  | error e => simp
  | ok p => obtain ⟨a, s1⟩ := p; simp

theorem append_ok {B : String → Prop} {cls : GClass} {wires : List Nat} {u : Unit} {s s' : CState}
    (h : (append cls wires).run s = .ok (u, s')) (hg : Good s) (hc : cls.isMCXLike = true)
    (hw : ∀ w ∈ wires, w < s.qc.numQubits) : Step B s s' := by
  unfold append at h
  obtain ⟨b, h⟩ := run_discard_ok.mp h
  exact (appendG_run h).step hg hc hw

theorem xGate_ok {B : String → Prop} {w : Nat} {u : Unit} {s s' : CState}
    (h : (xGate w).run s = .ok (u, s')) (hg : Good s) (hw : w < s.qc.numQubits) : Step B s s' :=
  append_ok h hg rfl (by simpa using hw)

theorem cx_ok {B : String → Prop} {a b : Nat} {u : Unit} {s s' : CState}
    (h : (cx a b).run s = .ok (u, s')) (hg : Good s) (ha : a < s.qc.numQubits) (hb : b < s.qc.numQubits) :
    Step B s s' :=
  append_ok h hg rfl (by intro w hw; simp at hw; rcases hw with rfl | rfl <;> assumption)

theorem mcx_ok {B : String → Prop} {cs : List Nat} {t : Nat} {u : Unit} {s s' : CState}
    (h : (mcx cs t).run s = .ok (u, s')) (hg : Good s) (hc : ∀ c ∈ cs, c < s.qc.numQubits)
    (ht : t < s.qc.numQubits) : Step B s s' :=
  append_ok h hg rfl (by intro w hw; simp at hw; rcases hw with hw | rfl; exact hc w hw; exact ht)

/-! ### qubits and ancillas -/

/-- the invariant does not read `choices` / `events` / `inputs` or the shadow bookkeeping -/
theorem Good.of_eq {s s' : CState} (hg : Good s) (hn : s'.qc.numQubits = s.qc.numQubits)
    (h1 : s'.qc.gates = s.qc.gates) (h2 : s'.qc.gatesComputed = s.qc.gatesComputed)
    (h3 : s'.qc.qmap = s.qc.qmap) (h4 : s'.expq = s.expq) (h5 : s'.qc.anc = s.qc.anc)
    (h6 : s'.qc.free = s.qc.free) (h7 : s'.qc.marked = s.qc.marked) (h8 : s'.qc.kept = s.qc.kept) : Good s' := by
  refine ⟨?_, ?_, ?_, ?_, ?_, ?_, ?_, ?_, ?_, ?_⟩
  · rw [hn, h1]; exact hg.gates_ok
  · rw [hn, h2]; exact hg.comp_ok
  · rw [hn, h3]; exact hg.qmap_lt
  · rw [hn, h4]; exact hg.expq_lt
  · rw [hn, h5]; exact hg.anc_lt
  · rw [hn, h6]; exact hg.free_lt
  · rw [hn, h7]; exact hg.marked_lt
  · rw [h5]; exact hg.anc_nodup
  · rw [h5, h3]; exact hg.anc_named
  · rw [hn, h8]; exact hg.kept_lt

theorem event_ok {B : String → Prop} {e : String} {u : Unit} {s s' : CState}
    (h : (event e).run s = .ok (u, s')) (hg : Good s) : Step B s s' := by
  have := event_run h; subst this
  exact Step.of_same (hg.of_eq rfl rfl rfl rfl rfl rfl rfl rfl rfl) rfl rfl rfl (fun _ h => h)

theorem addQubit_run {name : String} {a : Nat} {s s' : CState} (h : (addQubit name).run s = .ok (a, s')) :
    a = s.qc.numQubits ∧ s' = { s with qc := { s.qc with qmap := dictSet s.qc.qmap name s.qc.numQubits,
                                                          numQubits := s.qc.numQubits + 1 } } := by
  unfold addQubit at h
  simp only [run_bind_ok, run_pure_ok] at h
  obtain ⟨qc, s1, hq, u, s2, hm, rfl, rfl⟩ := h
  obtain ⟨rfl, rfl⟩ := getQC_run hq
  exact ⟨rfl, modQC_run hm⟩

theorem addQubit_ok {B : String → Prop} {name : String} {a : Nat} {s s' : CState}
    (h : (addQubit name).run s = .ok (a, s')) (hg : Good s) (hb : B name ∨ reservedName name = true) :
    Step B s s' ∧ a = s.qc.numQubits ∧ a < s'.qc.numQubits ∧ s'.qc.anc = s.qc.anc ∧
      (∀ p ∈ s'.qc.qmap, p.2 = a → p.1 = name) := by
  obtain ⟨rfl, rfl⟩ := addQubit_run h
  have hle : s.qc.numQubits ≤ s.qc.numQubits + 1 := Nat.le_succ _
  refine ⟨⟨⟨?_, ?_, ?_, ?_, ?_, ?_, ?_, ?_, ?_, ?_⟩, hle, rfl, ?_, ?_, fun _ _ h => h⟩, rfl, Nat.lt_succ_self _, rfl, ?_⟩
  · exact fun g hg' => (hg.gates_ok g hg').mono hle
  · exact fun g hg' => (hg.comp_ok g hg').mono hle
  · intro p hp
    rcases mem_dictSet hp with hp | rfl
    · exact Nat.lt_succ_of_lt (hg.qmap_lt p hp)
    · exact Nat.lt_succ_self _
  · exact fun p hp => Nat.lt_succ_of_lt (hg.expq_lt p hp)
  · exact fun p hp => Nat.lt_succ_of_lt (hg.anc_lt p hp)
  · exact fun p hp => Nat.lt_succ_of_lt (hg.free_lt p hp)
  · exact fun p hp => Nat.lt_succ_of_lt (hg.marked_lt p hp)
  · exact hg.anc_nodup
  · intro p hp ha
    rcases mem_dictSet hp with hp | rfl
    · exact hg.anc_named p hp ha
    · exact absurd (hg.anc_lt _ ha) (Nat.lt_irrefl _)
  · exact fun p hp => Nat.lt_succ_of_lt (hg.kept_lt p hp)
  · intro x _ hx
    by_cases hxn : x = name
    · subst hxn; show (dictGet? (dictSet _ _ _) _).isSome = true; rw [dictGet?_dictSet_self]; rfl
    · show (dictGet? (dictSet _ _ _) _).isSome = true; rw [dictGet?_dictSet_ne hxn]; exact hx
  · intro x hbx hrx
    have hxn : x ≠ name := by
      rintro rfl
      rcases hb with hb | hb
      · exact hbx hb
      · rw [hb] at hrx; cases hrx
    exact dictGet?_dictSet_ne hxn
  · intro p hp hpa
    rcases mem_dictSet hp with hp | rfl
    · exact absurd (hg.qmap_lt p hp) (by rw [hpa]; exact Nat.lt_irrefl _)
    · rfl

theorem lookup_ok {n : String} {a : Nat} {s s' : CState} (h : (lookup n).run s = .ok (a, s')) (hg : Good s) :
    s' = s ∧ dictGet? s.qc.qmap n = some a ∧ a < s.qc.numQubits := by
  unfold lookup at h
  simp only [run_bind_ok] at h
  obtain ⟨qc, s1, hq, h⟩ := h
  obtain ⟨rfl, rfl⟩ := getQC_run hq
  split at h
  · next i hi =>
    obtain ⟨rfl, rfl⟩ := run_pure_ok.mp h
    exact ⟨rfl, hi, hg.qmap_lt _ (dictGet?_mem hi)⟩
  · exact (run_throw_ok.mp h).elim

theorem mem_setIns {l : List Nat} {x y : Nat} (h : y ∈ setIns l x) : y ∈ l ∨ y = x := by
  unfold setIns at h
  split at h
  · exact Or.inl h
  · simpa using h

theorem setIns_nodup {l : List Nat} {x : Nat} (h : l.Nodup) : (setIns l x).Nodup := by
  unfold setIns
  split
  · exact h
  · next hc =>
    rw [List.nodup_append]
    refine ⟨h, by simp, ?_⟩
    intro a ha b hb
    simp at hb; subst hb
    rintro rfl
    exact hc (by simpa using ha)

theorem scratch_anc (k : Nat) : scratchName s!"anc_{k}" = true := by
  unfold scratchName; exact ancLike_anc k

theorem getFreeAncilla_ok {B : String → Prop} {a : Nat} {s s' : CState}
    (h : getFreeAncilla.run s = .ok (a, s')) (hg : Good s) :
    Step B s s' ∧ a < s'.qc.numQubits := by
  unfold getFreeAncilla at h
  simp only [run_bind_ok] at h
  obtain ⟨s0, s1, hget, h⟩ := h
  obtain ⟨e1, e2⟩ := run_get_ok.mp hget
  subst e2; subst e1
  split at h
  · exact (run_throw_ok.mp h).elim
  · next c rest hch =>
    simp only [run_bind_ok] at h
    obtain ⟨u, s1, hset, h⟩ := h
    have := run_set_ok.mp hset; subst this
    have hg1 : Good { s0 with choices := rest } := hg.of_eq rfl rfl rfl rfl rfl rfl rfl rfl rfl
    split at h
    · simp only [run_bind_ok] at h
      obtain ⟨i, s2, hadd, u2, s3, hm, hif⟩ := h
      have hs4 : a = i ∧ s' = s3 := by
        split at hif
        · simp only [run_bind_ok, run_throw_ok] at hif
          obtain ⟨_, _, hf, _⟩ := hif
          exact hf.elim
        · exact run_pure_ok.mp hif
      obtain ⟨rfl, rfl⟩ := hs4
      obtain ⟨hst, hi, hilt, hanc, hnm⟩ := addQubit_ok (B := B) hadd hg1
        (Or.inr (reserved_of_scratch (scratch_anc _)))
      have := modQC_run hm; subst this
      have hg2 := hst.good
      refine ⟨⟨⟨hg2.gates_ok, hg2.comp_ok, hg2.qmap_lt, hg2.expq_lt, ?_, hg2.free_lt, hg2.marked_lt, ?_, ?_, hg2.kept_lt⟩,
        hst.nq_le, hst.inputs_eq, hst.keys_keep, hst.qmap_keep, ?_⟩, hilt⟩
      · intro x hx
        rcases mem_setIns hx with hx | rfl
        · exact hg2.anc_lt x hx
        · exact hilt
      · exact setIns_nodup hg2.anc_nodup
      · intro p hp hpa
        rcases mem_setIns hpa with hpa | hpa
        · exact hg2.anc_named p hp hpa
        · rw [hnm p hp hpa]; exact scratch_anc _
      · intro n hn hS
        have hS2 := hst.ge_keep n hn hS
        refine ⟨fun x hx => ?_, hS2.2.1, hS2.2.2.1, hS2.2.2.2⟩
        rcases mem_setIns hx with hx | rfl
        · exact hS2.1 x hx
        · rw [hi]; exact hn
    · split at h
      · simp only [run_bind_ok, run_throw_ok] at h
        obtain ⟨_, _, hf, _⟩ := h
        exact hf.elim
      · next hc =>
        simp only [run_bind_ok] at h
        obtain ⟨u3, s3, hm, hp⟩ := h
        obtain ⟨rfl, rfl⟩ := run_pure_ok.mp hp
        have := modQC_run hm; subst this
        have hcf : a ∈ s0.qc.free := by simpa using hc
        refine ⟨Step.of_same ⟨hg.gates_ok, hg.comp_ok, hg.qmap_lt, hg.expq_lt, hg.anc_lt, ?_, hg.marked_lt,
          hg.anc_nodup, hg.anc_named, hg.kept_lt⟩ rfl rfl rfl
          (fun n h => ⟨h.1, fun x hx => h.2.1 x (List.mem_of_mem_erase hx), h.2.2.1, h.2.2.2⟩), hg.free_lt a hcf⟩
        exact fun x hx => hg.free_lt x (List.mem_of_mem_erase hx)

/-! ### marks, expression cache, map_qubit -/

theorem mem_foldl_setIns {l f : List Nat} {x : Nat} (h : x ∈ l.foldl setIns f) : x ∈ f ∨ x ∈ l := by
  induction l generalizing f with
  | nil => exact Or.inl h
  | cons a l ih =>
    rcases ih h with h' | h'
    · rcases mem_setIns h' with h'' | rfl
      · exact Or.inl h''
      · exact Or.inr List.mem_cons_self
    · exact Or.inr (List.mem_cons_of_mem _ h')

theorem markAncilla_ok {B : String → Prop} {w : Nat} {u : Unit} {s s' : CState}
    (h : (markAncilla w).run s = .ok (u, s')) (hg : Good s) : Step B s s' := by
  unfold markAncilla at h
  obtain ⟨qc, s1, hq, h⟩ := run_bind_ok.mp h
  obtain ⟨rfl, rfl⟩ := getQC_run hq
  split at h
  · next hc =>
    simp only [Bool.and_eq_true] at hc
    have hc' : w ∈ s1.qc.anc := by simpa using hc.1
    have hw : w < s1.qc.numQubits := hg.anc_lt w hc'
    have := modQC_run h; subst this
    refine Step.of_same ⟨hg.gates_ok, hg.comp_ok, hg.qmap_lt, hg.expq_lt, hg.anc_lt,
      hg.free_lt, ?_, hg.anc_nodup, hg.anc_named, hg.kept_lt⟩ rfl rfl rfl ?_
    · intro x hx
      rcases mem_setIns hx with hx | rfl
      · exact hg.marked_lt x hx
      · exact hw
    · intro n hS
      refine ⟨hS.1, hS.2.1, fun x hx => ?_, hS.2.2.2⟩
      rcases mem_setIns hx with hx | rfl
      · exact hS.2.2.1 x hx
      · exact hS.1 _ hc'
  · obtain ⟨_, rfl⟩ := run_pure_ok.mp h; exact Step.refl hg

/-- `keep_ancillas` -/
theorem keepAncillas_ok {B : String → Prop} {u : Unit} {s s' : CState}
    (h : keepAncillas.run s = .ok (u, s')) (hg : Good s) : Step B s s' := by
  unfold keepAncillas at h
  have := modQC_run h; subst this
  have hmem : ∀ x ∈ (s.qc.anc.filter (fun a => !s.qc.free.contains a)).foldl setIns s.qc.kept,
      x ∈ s.qc.kept ∨ x ∈ s.qc.anc := by
    intro x hx
    rcases mem_foldl_setIns hx with h' | h'
    · exact Or.inl h'
    · exact Or.inr (List.mem_filter.mp h').1
  refine Step.of_same ⟨hg.gates_ok, hg.comp_ok, hg.qmap_lt, hg.expq_lt, hg.anc_lt,
    hg.free_lt, (by intro a ha; cases ha), hg.anc_nodup, hg.anc_named, ?_⟩ rfl rfl rfl ?_
  · intro x hx
    rcases hmem x hx with h' | h'
    · exact hg.kept_lt x h'
    · exact hg.anc_lt x h'
  · intro n hS
    refine ⟨hS.1, hS.2.1, (by intro a ha; cases ha), fun x hx => ?_⟩
    rcases hmem x hx with h' | h'
    · exact hS.2.2.2 x h'
    · exact hS.1 x h'

theorem markAll_ok {B : String → Prop} : ∀ (ws : List Nat) {u : Unit} {s s' : CState},
    (markAll ws).run s = .ok (u, s') → Good s → Step B s s'
  | [], u, s, s', h, hg => by
    unfold markAll at h
    obtain ⟨_, rfl⟩ := run_pure_ok.mp h; exact Step.refl hg
  | w :: ws, u, s, s', h, hg => by
    unfold markAll at h
    simp only [run_bind_ok] at h
    obtain ⟨u1, s1, h1, h2⟩ := h
    have st1 : Step B s s1 := markAncilla_ok h1 hg
    exact st1.trans (markAll_ok ws h2 st1.good)

theorem expqRemove_ok {B : String → Prop} {qs : List Nat} {u : Unit} {s s' : CState}
    (h : (expqRemove qs).run s = .ok (u, s')) (hg : Good s) : Step B s s' := by
  unfold expqRemove at h
  have := run_modify_ok.mp h; subst this
  refine Step.of_same ⟨hg.gates_ok, hg.comp_ok, hg.qmap_lt, ?_, hg.anc_lt, hg.free_lt, hg.marked_lt,
    hg.anc_nodup, hg.anc_named, hg.kept_lt⟩ rfl rfl rfl (fun _ h => h)
  exact fun p hp => hg.expq_lt p (List.mem_filter.mp hp).1

theorem expqSet_ok {B : String → Prop} {e : BExp} {q : Nat} {u : Unit} {s s' : CState}
    (h : (expqSet e q).run s = .ok (u, s')) (hg : Good s) (hq : q < s.qc.numQubits) : Step B s s' := by
  unfold expqSet at h
  simp only [run_bind_ok] at h
  obtain ⟨u1, s1, h1, h2⟩ := h
  have st1 : Step B s s1 := expqRemove_ok h1 hg
  have hg1 := st1.good
  have hq1 : q < s1.qc.numQubits := Nat.lt_of_lt_of_le hq st1.nq_le
  have := run_modify_ok.mp h2; subst this
  refine st1.trans ?_
  split
  · refine Step.of_same ⟨hg1.gates_ok, hg1.comp_ok, hg1.qmap_lt, ?_, hg1.anc_lt, hg1.free_lt, hg1.marked_lt,
      hg1.anc_nodup, hg1.anc_named, hg1.kept_lt⟩ rfl rfl rfl (fun _ h => h)
    intro p hp
    simp only [List.mem_map] at hp
    obtain ⟨p0, hp0, rfl⟩ := hp
    split
    · exact hq1
    · exact hg1.expq_lt p0 hp0
  · refine Step.of_same ⟨hg1.gates_ok, hg1.comp_ok, hg1.qmap_lt, ?_, hg1.anc_lt, hg1.free_lt, hg1.marked_lt,
      hg1.anc_nodup, hg1.anc_named, hg1.kept_lt⟩ rfl rfl rfl (fun _ h => h)
    intro p hp
    simp only [List.mem_append, List.mem_singleton] at hp
    rcases hp with hp | rfl
    · exact hg1.expq_lt p hp
    · exact hq1

theorem expqGet?_ok {e : BExp} {r : Option Nat} {s s' : CState}
    (h : (expqGet? e).run s = .ok (r, s')) (hg : Good s) :
    s' = s ∧ ∀ q, r = some q → q < s.qc.numQubits := by
  unfold expqGet? at h
  simp only [run_bind_ok, run_get_ok, run_pure_ok] at h
  obtain ⟨s0, s1, ⟨rfl, rfl⟩, rfl, rfl⟩ := h
  refine ⟨rfl, fun q hq => ?_⟩
  cases hf : List.find? (fun x => x.fst == e) s'.expq with
  | none => simp [hf] at hq
  | some p =>
    simp only [hf, Option.map_some, Option.some.injEq] at hq
    subst hq
    exact hg.expq_lt p (List.mem_of_find?_eq_some hf)

theorem mapQubit_finish {B : String → Prop} {name : String} {index : Nat} {s1 s2 s' : CState} {u : Unit}
    (hm : (modQC fun qc => { qc with qmap := dictSet qc.qmap name index }).run s2 = .ok (u, s'))
    (hi : index < s1.qc.numQubits) (hb : B name)
    (hg2 : Good s2) (hn2 : s2.qc.numQubits = s1.qc.numQubits) (hin2 : s2.inputs = s1.inputs)
    (hidx : index ∈ s2.qc.anc → scratchName name = true)
    (hkeep : ∀ x, scratchName x = false → dictGet? s2.qc.qmap x = dictGet? s1.qc.qmap x)
    (hge2 : ∀ n, ScratchGe n s1 → ScratchGe n s2) :
    Step B s1 s' ∧ dictGet? s'.qc.qmap name = some index := by
  have := modQC_run hm; subst this
  refine ⟨?_, dictGet?_dictSet_self⟩
  have hi2 : index < s2.qc.numQubits := by rw [hn2]; exact hi
  refine ⟨⟨hg2.gates_ok, hg2.comp_ok, ?_, hg2.expq_lt, hg2.anc_lt, hg2.free_lt, hg2.marked_lt, hg2.anc_nodup, ?_,
    hg2.kept_lt⟩, Nat.le_of_eq hn2.symm, hin2, ?_, ?_, fun n _ h => hge2 n h⟩
  · intro p hp
    rcases mem_dictSet hp with hp | rfl
    · exact hg2.qmap_lt p hp
    · exact hi2
  · intro p hp ha
    rcases mem_dictSet hp with hp | rfl
    · exact hg2.anc_named p hp ha
    · exact hidx ha
  · intro x hx hsome
    show (dictGet? (dictSet _ _ _) _).isSome = true
    by_cases hxn : x = name
    · subst hxn; rw [dictGet?_dictSet_self]; rfl
    · rw [dictGet?_dictSet_ne hxn, hkeep x hx]; exact hsome
  · intro x hbx hrx
    have hxn : x ≠ name := by rintro rfl; exact hbx hb
    have hxs : scratchName x = false := by
      cases hs : scratchName x
      · rfl
      · rw [reserved_of_scratch hs] at hrx; cases hrx
    show dictGet? (dictSet _ _ _) _ = _
    rw [dictGet?_dictSet_ne hxn, hkeep x hxs]

theorem mapQubit_ok {B : String → Prop} {name : String} {index : Nat} {promote : Bool} {u : Unit}
    {s s' : CState} (h : (mapQubit name index promote).run s = .ok (u, s')) (hg : Good s)
    (hi : index < s.qc.numQubits) (hb : B name) (hp : promote = false → scratchName name = true) :
    Step B s s' ∧ dictGet? s'.qc.qmap name = some index := by
  unfold mapQubit at h
  dsimp only at h
  obtain ⟨qc, s1, hq, h⟩ := run_bind_ok.mp h
  obtain ⟨rfl, rfl⟩ := getQC_run hq
  split at h
  · next hc =>
    simp only [Bool.and_eq_true] at hc
    have hia : index ∈ s1.qc.anc := by simpa using hc.2
    obtain ⟨u2, s3, hm1, hmatch⟩ := run_bind_ok.mp h
    have := modQC_run hm1; subst this
    have hne : index ∉ s1.qc.anc.erase index := by
      rw [hg.anc_nodup.mem_erase_iff]; simp
    split at hmatch
    · next k hk =>
      obtain ⟨u3, s4, hm2, hm3⟩ := run_bind_ok.mp hmatch
      have := modQC_run hm2; subst this
      have hkm := keyByIndex?_mem hk
      have hks : scratchName k = true := hg.anc_named _ hkm hia
      refine mapQubit_finish hm3 hi hb ⟨hg.gates_ok, hg.comp_ok,
        fun p hp => hg.qmap_lt p (List.mem_filter.mp hp).1, hg.expq_lt,
        fun a ha => hg.anc_lt a (List.mem_of_mem_erase ha), hg.free_lt, hg.marked_lt,
        hg.anc_nodup.erase _, ?_, hg.kept_lt⟩ rfl rfl (fun h => absurd h hne) ?_
        (fun n h => ⟨fun a ha => h.1 a (List.mem_of_mem_erase ha), h.2.1, h.2.2⟩)
      · exact fun p hp ha => hg.anc_named p (List.mem_filter.mp hp).1 (List.mem_of_mem_erase ha)
      · intro x hx
        exact dictGet?_filter_ne (by rintro rfl; rw [hks] at hx; cases hx)
    · refine mapQubit_finish hmatch hi hb ⟨hg.gates_ok, hg.comp_ok, hg.qmap_lt, hg.expq_lt,
        fun a ha => hg.anc_lt a (List.mem_of_mem_erase ha), hg.free_lt, hg.marked_lt,
        hg.anc_nodup.erase _, ?_, hg.kept_lt⟩ rfl rfl (fun h => absurd h hne) (fun _ _ => rfl)
        (fun n h => ⟨fun a ha => h.1 a (List.mem_of_mem_erase ha), h.2.1, h.2.2⟩)
      exact fun p hp ha => hg.anc_named p hp (List.mem_of_mem_erase ha)
  · next hc =>
    refine mapQubit_finish h hi hb hg rfl rfl ?_ (fun _ _ => rfl) (fun _ h => h)
    intro hia
    apply hp
    cases promote
    · rfl
    · exfalso; apply hc; simp [hia]

/-! ### constants, symbols, cache hits -/

theorem run_get_bind_ok {β} {f : CState → M β} {s s' : CState} {b : β} :
    ((get : M CState) >>= f).run s = .ok (b, s') ↔ (f s).run s = .ok (b, s') := by
  rw [run_bind_ok]
  constructor
  · rintro ⟨a, s1, hg, h⟩
    obtain ⟨rfl, rfl⟩ := run_get_ok.mp hg
    exact h
  · intro h; exact ⟨s, s, run_get_ok.mpr ⟨rfl, rfl⟩, h⟩

theorem cxAll_ok {B : String → Prop} {d : Nat} : ∀ (is : List Nat) {u : Unit} {s s' : CState},
    (cxAll d is).run s = .ok (u, s') → Good s → d < s.qc.numQubits → (∀ i ∈ is, i < s.qc.numQubits) →
    Step B s s'
  | [], u, s, s', h, hg, _, _ => by
    unfold cxAll at h
    obtain ⟨_, rfl⟩ := run_pure_ok.mp h; exact Step.refl hg
  | i :: is, u, s, s', h, hg, hd, hi => by
    unfold cxAll at h
    obtain ⟨u1, s1, h1, h2⟩ := run_bind_ok.mp h
    have st1 : Step B s s1 := cx_ok h1 hg (hi i List.mem_cons_self) hd
    exact st1.trans (cxAll_ok is h2 st1.good (Nat.lt_of_lt_of_le hd st1.nq_le)
      (fun j hj => Nat.lt_of_lt_of_le (hi j (List.mem_cons_of_mem _ hj)) st1.nq_le))

theorem constFalse_ok {B : String → Prop} {a : Nat} {s s' : CState}
    (h : constFalse.run s = .ok (a, s')) (hg : Good s) : Step B s s' ∧ a < s'.qc.numQubits := by
  unfold constFalse at h
  obtain ⟨qc, s1, hq, h⟩ := run_bind_ok.mp h
  obtain ⟨rfl, rfl⟩ := getQC_run hq
  dsimp only at h
  split at h
  · obtain ⟨u, s2, hd, hl⟩ := run_bind_ok.mp h
    obtain ⟨i, hadd⟩ := run_discard_ok.mp hd
    have st : Step B s1 s2 := (addQubit_ok hadd hg (Or.inr (by decide))).1
    obtain ⟨rfl, _, hlt⟩ := lookup_ok hl st.good
    exact ⟨st, hlt⟩
  · obtain ⟨rfl, _, hlt⟩ := lookup_ok h hg
    exact ⟨Step.refl hg, hlt⟩

theorem constTrue_ok {B : String → Prop} {a : Nat} {s s' : CState}
    (h : constTrue.run s = .ok (a, s')) (hg : Good s) : Step B s s' ∧ a < s'.qc.numQubits := by
  unfold constTrue at h
  obtain ⟨qc, s1, hq, h⟩ := run_bind_ok.mp h
  obtain ⟨rfl, rfl⟩ := getQC_run hq
  dsimp only at h
  split at h
  · obtain ⟨u1, s3, hd, h2⟩ := run_bind_ok.mp h
    obtain ⟨i, hadd⟩ := run_discard_ok.mp hd
    have st1 : Step B s1 s3 := (addQubit_ok hadd hg (Or.inr (by decide))).1
    obtain ⟨q, s4, hl1, h3⟩ := run_bind_ok.mp h2
    obtain ⟨rfl, _, hlt⟩ := lookup_ok hl1 st1.good
    obtain ⟨u2, s5, hx, hl⟩ := run_bind_ok.mp h3
    have st2 : Step B s1 s5 := st1.trans (xGate_ok hx st1.good hlt)
    obtain ⟨rfl, _, hlt2⟩ := lookup_ok hl st2.good
    exact ⟨st2, hlt2⟩
  · obtain ⟨rfl, _, hlt⟩ := lookup_ok h hg
    exact ⟨Step.refl hg, hlt⟩

theorem compileSymbol_ok {B : String → Prop} {n : String} {sym : Option String} {a : Nat} {s s' : CState}
    (h : (compileSymbol n sym).run s = .ok (a, s')) (hg : Good s) (hb : ∀ x, sym = some x → B x) :
    Step B s s' ∧ a < s'.qc.numQubits := by
  unfold compileSymbol at h
  dsimp only at h
  have fin : ∀ {s a s'}, Good s → StateT.run (do
      let qc ← getQC
      match dictGet? qc.qmap n with
        | some i => pure i
        | none => throw s!"CompilerException: Symbol not found in qc: {n}" : M Nat) s = .ok (a, s') →
      Step B s s' ∧ a < s'.qc.numQubits := by
    intro s a s' hg h
    obtain ⟨qc, s1, hq, h⟩ := run_bind_ok.mp h
    obtain ⟨rfl, rfl⟩ := getQC_run hq
    split at h
    · next i hi =>
      obtain ⟨rfl, rfl⟩ := run_pure_ok.mp h
      exact ⟨Step.refl hg, hg.qmap_lt _ (dictGet?_mem hi)⟩
    · exact (run_throw_ok.mp h).elim
  split at h
  · next sy =>
    have hbs : B sy := hb sy rfl
    split at h
    · rw [run_get_bind_ok] at h
      split at h
      · obtain ⟨iret, s2, hadd, h2⟩ := run_bind_ok.mp h
        obtain ⟨st1, _, hlt, _, _⟩ := addQubit_ok (B := B) hadd hg (Or.inl hbs)
        obtain ⟨q, s3, hl, h3⟩ := run_bind_ok.mp h2
        obtain ⟨rfl, _, hq⟩ := lookup_ok hl st1.good
        obtain ⟨u, s4, hcx, hp⟩ := run_bind_ok.mp h3
        obtain ⟨rfl, rfl⟩ := run_pure_ok.mp hp
        have st2 : Step B s3 s' := cx_ok hcx st1.good hq hlt
        exact ⟨st1.trans st2, Nat.lt_of_lt_of_le hlt st2.nq_le⟩
      · obtain ⟨q, s2, hl, h2⟩ := run_bind_ok.mp h
        obtain ⟨rfl, _, hq⟩ := lookup_ok hl hg
        rw [run_get_bind_ok] at h2
        split at h2
        · obtain ⟨iret, s3, hadd, h3⟩ := run_bind_ok.mp h2
          obtain ⟨st1, _, hlt, _, _⟩ := addQubit_ok (B := B) hadd hg (Or.inl hbs)
          obtain ⟨u, s4, hcx, hp⟩ := run_bind_ok.mp h3
          obtain ⟨rfl, rfl⟩ := run_pure_ok.mp hp
          have st2 : Step B s3 s' := cx_ok hcx st1.good (Nat.lt_of_lt_of_le hq st1.nq_le) hlt
          exact ⟨st1.trans st2, Nat.lt_of_lt_of_le hlt st2.nq_le⟩
        · obtain ⟨rfl, rfl⟩ := run_pure_ok.mp h2
          exact ⟨Step.refl hg, hq⟩
    · exact fin hg h
  · exact fin hg h

theorem cacheHit_ok {B : String → Prop} {q : Nat} {dest : Option Nat} {a : Nat} {s s' : CState}
    (h : (cacheHit q dest).run s = .ok (a, s')) (hg : Good s) (hq : q < s.qc.numQubits)
    (hd : ∀ d, dest = some d → d < s.qc.numQubits) : Step B s s' ∧ a < s'.qc.numQubits := by
  unfold cacheHit at h
  obtain ⟨u, s1, hev, h⟩ := run_bind_ok.mp h
  have st1 : Step B s s1 := event_ok hev hg
  cases dest with
  | none =>
    obtain ⟨rfl, rfl⟩ := run_pure_ok.mp h
    exact ⟨st1, Nat.lt_of_lt_of_le hq st1.nq_le⟩
  | some d =>
    have hd' := hd d rfl
    dsimp only at h
    split at h
    · obtain ⟨u2, s2, hcx, hp⟩ := run_bind_ok.mp h
      obtain ⟨rfl, rfl⟩ := run_pure_ok.mp hp
      have st2 : Step B s1 s' := cx_ok hcx st1.good (Nat.lt_of_lt_of_le hq st1.nq_le)
        (Nat.lt_of_lt_of_le hd' st1.nq_le)
      exact ⟨st1.trans st2, Nat.lt_of_lt_of_le hd' (st1.trans st2).nq_le⟩
    · obtain ⟨rfl, rfl⟩ := run_pure_ok.mp h
      exact ⟨st1, Nat.lt_of_lt_of_le hq st1.nq_le⟩

/-! ### compile_expr: every run keeps the invariant -/

/-- specification of `compileExpr e`: the invariant is kept, the result is a qubit of the circuit -/
def ExprSpec (B : String → Prop) (e : BExp) : Prop :=
  ∀ (dest : Option Nat) (sym : Option String) {a : Nat} {s s' : CState},
    (compileExpr e dest sym).run s = .ok (a, s') → Good s →
    (∀ d, dest = some d → d < s.qc.numQubits) → (∀ x, sym = some x → B x) →
    Step B s s' ∧ a < s'.qc.numQubits

def ArgsSpec (B : String → Prop) (as : List BExp) : Prop :=
  ∀ {rs : List Nat} {s s' : CState}, (compileArgs as).run s = .ok (rs, s') → Good s →
    Step B s s' ∧ ∀ r ∈ rs, r < s'.qc.numQubits

def XorSpec (B : String → Prop) (as : List BExp) : Prop :=
  ∀ (d : Nat) {a : Nat} {s s' : CState}, (compileXorArgs as d).run s = .ok (a, s') → Good s →
    d < s.qc.numQubits → Step B s s' ∧ a < s'.qc.numQubits

theorem exprSpec_ff {B : String → Prop} : ExprSpec B .ff := by
  intro dest sym a s s' h hg _ _
  unfold compileExpr at h
  exact constFalse_ok h hg

theorem exprSpec_tt {B : String → Prop} : ExprSpec B .tt := by
  intro dest sym a s s' h hg _ _
  unfold compileExpr at h
  exact constTrue_ok h hg

theorem exprSpec_sym {B : String → Prop} (n : String) : ExprSpec B (.sym n) := by
  intro dest sym a s s' h hg _ hb
  unfold compileExpr at h
  exact compileSymbol_ok h hg hb

theorem exprSpec_ite {B : String → Prop} (a b c : BExp) : ExprSpec B (.ite a b c) := by
  intro dest sym a s s' h _ _ _
  unfold compileExpr at h
  exact (run_throw_ok.mp h).elim

theorem exprSpec_imp {B : String → Prop} (a b : BExp) : ExprSpec B (.imp a b) := by
  intro dest sym a s s' h _ _ _
  unfold compileExpr at h
  exact (run_throw_ok.mp h).elim

theorem exprSpec_xor {B : String → Prop} {args : List BExp} (ih : XorSpec B args) :
    ExprSpec B (.xor args) := by
  intro dest sym a s s' h hg hd hb
  unfold compileExpr at h
  dsimp only at h
  obtain ⟨r, s1, hget, h1⟩ := run_bind_ok.mp h
  obtain ⟨rfl, hr⟩ := expqGet?_ok hget hg
  cases r with
  | some q => exact cacheHit_ok h1 hg (hr q rfl) hd
  | none =>
    dsimp only at h1
    cases dest with
    | some d =>
      simp only [Option.isNone_some, Bool.false_eq_true, ↓reduceIte] at h1
      obtain ⟨d0, s2, hp, h2⟩ := run_bind_ok.mp h1
      obtain ⟨rfl, rfl⟩ := run_pure_ok.mp hp
      obtain ⟨d', s3, hx, h3⟩ := run_bind_ok.mp h2
      obtain ⟨st, hlt⟩ := ih d0 hx hg (hd d0 rfl)
      obtain ⟨rfl, rfl⟩ := run_pure_ok.mp h3
      exact ⟨st, hlt⟩
    | none =>
      simp only [Option.isNone_none, ↓reduceIte] at h1
      obtain ⟨d, s2, hf, h2⟩ := run_bind_ok.mp h1
      obtain ⟨st1, hdlt⟩ := getFreeAncilla_ok (B := B) hf hg
      obtain ⟨d', s3, hx, h3⟩ := run_bind_ok.mp h2
      obtain ⟨st2, hlt⟩ := ih d hx st1.good hdlt
      obtain ⟨u, s4, hset, h4⟩ := run_bind_ok.mp h3
      have st3 := expqSet_ok (B := B) hset st2.good hlt
      obtain ⟨rfl, rfl⟩ := run_pure_ok.mp h4
      exact ⟨(st1.trans st2).trans st3, Nat.lt_of_lt_of_le hlt st3.nq_le⟩


theorem run_ite_ok {α} {c : Prop} [Decidable c] {m1 m2 : M α} {s : CState} {r : α × CState} :
    (if c then m1 else m2).run s = .ok r ↔ (c ∧ m1.run s = .ok r) ∨ (¬ c ∧ m2.run s = .ok r) := by
  by_cases hc : c <;> simp [hc]

theorem exprSpec_not {B : String → Prop} {x : BExp} (ih : ExprSpec B x) : ExprSpec B (.not x) := by
  intro dest sym a s s' h hg hd hb
  unfold compileExpr at h
  dsimp only at h
  obtain ⟨r, s1, hget, h1⟩ := run_bind_ok.mp h
  obtain ⟨rfl, hr⟩ := expqGet?_ok hget hg
  cases r with
  | some q => exact cacheHit_ok h1 hg (hr q rfl) hd
  | none =>
    dsimp only at h1
    rcases run_ite_ok.mp h1 with ⟨_, h1⟩ | ⟨_, h1⟩
    · -- `x = ~x` with `x` the symbol being defined
      cases sym with
      | none => exact (run_throw_ok.mp h1).elim
      | some sy =>
        dsimp only at h1
        obtain ⟨iret, s2, hl, h2⟩ := run_bind_ok.mp h1
        obtain ⟨rfl, _, hlt⟩ := lookup_ok hl hg
        obtain ⟨u, s3, hx, h3⟩ := run_bind_ok.mp h2
        have st : Step B s2 s3 := xGate_ok hx hg hlt
        obtain ⟨rfl, rfl⟩ := run_pure_ok.mp h3
        exact ⟨st, Nat.lt_of_lt_of_le hlt st.nq_le⟩
    · obtain ⟨sh, s1', hsh, k1⟩ := run_bind_ok.mp h1
      have hs1' := (expqGet?_ok hsh hg).1
      rw [hs1'] at k1
      obtain ⟨eret, s2, he, h2⟩ := run_bind_ok.mp k1
      obtain ⟨st1, helt⟩ := ih none none he hg (by intro d hd0; cases hd0) (by intro y hy; cases hy)
      obtain ⟨qc, s3, hq, h3⟩ := run_bind_ok.mp h2
      obtain ⟨rfl, rfl⟩ := getQC_run hq
      split at h3
      · obtain ⟨u1, s4, hev, h4⟩ := run_bind_ok.mp h3
        have st2 : Step B s3 s4 := event_ok hev st1.good
        obtain ⟨u2, s5, hx, h5⟩ := run_bind_ok.mp h4
        have st3 : Step B s4 s5 := xGate_ok hx st2.good (Nat.lt_of_lt_of_le helt st2.nq_le)
        obtain ⟨u3, s6, hset, h6⟩ := run_bind_ok.mp h5
        have helt5 : eret < s5.qc.numQubits := Nat.lt_of_lt_of_le helt (st2.trans st3).nq_le
        have st4 : Step B s5 s6 := expqSet_ok hset st3.good helt5
        obtain ⟨rfl, rfl⟩ := run_pure_ok.mp h6
        exact ⟨((st1.trans st2).trans st3).trans st4, Nat.lt_of_lt_of_le helt5 st4.nq_le⟩
      · -- copy into `d`, negate, mark the argument
        have body : ∀ {d : Nat} {s4 s5 : CState} {a : Nat}, Step B s1 s4 → d < s4.qc.numQubits →
            eret < s4.qc.numQubits →
            StateT.run (do
              cx eret d
              xGate d
              markAncilla eret
              if dest.isNone = true then do
                  expqSet x.not d
                  pure d
                else pure d : M Nat) s4 = .ok (a, s5) →
            Step B s1 s5 ∧ a < s5.qc.numQubits := by
          intro d s4 s5 a st hdlt hel hrun
          obtain ⟨u1, t1, hcx, k1⟩ := run_bind_ok.mp hrun
          have q1 : Step B s4 t1 := cx_ok hcx st.good hel hdlt
          obtain ⟨u2, t2, hx, k2⟩ := run_bind_ok.mp k1
          have q2 : Step B t1 t2 := xGate_ok hx q1.good (Nat.lt_of_lt_of_le hdlt q1.nq_le)
          obtain ⟨u3, t3, hmk, k3⟩ := run_bind_ok.mp k2
          have q3 : Step B t2 t3 := markAncilla_ok hmk q2.good
          have q123 := (q1.trans q2).trans q3
          have hd3 : d < t3.qc.numQubits := Nat.lt_of_lt_of_le hdlt q123.nq_le
          split at k3
          · obtain ⟨u4, t4, hset, k4⟩ := run_bind_ok.mp k3
            have q4 : Step B t3 t4 := expqSet_ok hset q3.good hd3
            obtain ⟨rfl, rfl⟩ := run_pure_ok.mp k4
            exact ⟨(st.trans q123).trans q4, Nat.lt_of_lt_of_le hd3 q4.nq_le⟩
          · obtain ⟨rfl, rfl⟩ := run_pure_ok.mp k3
            exact ⟨st.trans q123, hd3⟩
        cases dest with
        | some d =>
          dsimp only at h3
          obtain ⟨d0, s4, hp, h4⟩ := run_bind_ok.mp h3
          obtain ⟨rfl, rfl⟩ := run_pure_ok.mp hp
          exact body st1 (Nat.lt_of_lt_of_le (hd d0 rfl) st1.nq_le) helt h4
        | none =>
          dsimp only at h3
          obtain ⟨d, s4, hf, h4⟩ := run_bind_ok.mp h3
          obtain ⟨st2, hdlt⟩ := getFreeAncilla_ok (B := B) hf st1.good
          exact body (st1.trans st2) hdlt (Nat.lt_of_lt_of_le helt st2.nq_le) h4


theorem mem_es {l : List Nat} {c : Bool} {d x : Nat}
    (h : x ∈ sortNat (if c = true then l.erase d else l).eraseDups) : x ∈ l := by
  unfold sortNat at h
  rw [List.mem_mergeSort] at h
  have h := List.mem_eraseDups.mp h
  split at h
  · exact List.mem_of_mem_erase h
  · exact h

/-- the common tail of `compile_and` / `compile_or`: mark the arguments, cache, return -/
theorem finish_ok {B : String → Prop} {es : List Nat} {dest : Option Nat} {e : BExp} {d a : Nat}
    {s s' : CState}
    (h : StateT.run (do
          markAll es
          if dest.isNone = true then do
              expqSet e d
              pure d
            else pure d : M Nat) s = .ok (a, s'))
    (hg : Good s) (hd : d < s.qc.numQubits) : Step B s s' ∧ a < s'.qc.numQubits := by
  obtain ⟨u1, s1, hm, h1⟩ := run_bind_ok.mp h
  have st1 : Step B s s1 := markAll_ok es hm hg
  have hd1 : d < s1.qc.numQubits := Nat.lt_of_lt_of_le hd st1.nq_le
  split at h1
  · obtain ⟨u2, s2, hset, h2⟩ := run_bind_ok.mp h1
    have st2 : Step B s1 s2 := expqSet_ok hset st1.good hd1
    obtain ⟨rfl, rfl⟩ := run_pure_ok.mp h2
    exact ⟨st1.trans st2, Nat.lt_of_lt_of_le hd1 st2.nq_le⟩
  · obtain ⟨rfl, rfl⟩ := run_pure_ok.mp h1
    exact ⟨st1, hd1⟩

theorem exprSpec_and {B : String → Prop} {args : List BExp} (ih : ArgsSpec B args) :
    ExprSpec B (.and args) := by
  intro dest sym a s s' h hg hd hb
  unfold compileExpr at h
  dsimp only at h
  obtain ⟨r, s1, hget, h1⟩ := run_bind_ok.mp h
  obtain ⟨rfl, hr⟩ := expqGet?_ok hget hg
  cases r with
  | some q => exact cacheHit_ok h1 hg (hr q rfl) hd
  | none =>
    dsimp only at h1
    obtain ⟨erets, s2, hargs, h2⟩ := run_bind_ok.mp h1
    obtain ⟨st1, hel⟩ := ih hargs hg
    have body : ∀ {d : Nat} {s4 s5 : CState} {a : Nat}, Step B s1 s4 → d < s4.qc.numQubits →
        (∀ r ∈ erets, r < s4.qc.numQubits) →
        StateT.run (
          if erets.contains d = true then do
            event "destAmongArgs"
            mcx (sortNat (if erets.contains d = true then erets.erase d else erets).eraseDups) d
            markAll (sortNat (if erets.contains d = true then erets.erase d else erets).eraseDups)
            if dest.isNone = true then do
                expqSet (BExp.and args) d
                pure d
              else pure d
          else do
            mcx (sortNat (if erets.contains d = true then erets.erase d else erets).eraseDups) d
            markAll (sortNat (if erets.contains d = true then erets.erase d else erets).eraseDups)
            if dest.isNone = true then do
                expqSet (BExp.and args) d
                pure d
              else pure d : M Nat) s4 = .ok (a, s5) →
        Step B s1 s5 ∧ a < s5.qc.numQubits := by
      intro d s4 s5 a st hdlt hel hrun
      have tail : ∀ {t0 : CState}, Step B s1 t0 → StateT.run (do
            mcx (sortNat (if erets.contains d = true then erets.erase d else erets).eraseDups) d
            markAll (sortNat (if erets.contains d = true then erets.erase d else erets).eraseDups)
            if dest.isNone = true then do
                expqSet (BExp.and args) d
                pure d
              else pure d : M Nat) t0 = .ok (a, s5) → s4.qc.numQubits ≤ t0.qc.numQubits →
            Step B s1 s5 ∧ a < s5.qc.numQubits := by
        intro t0 st0 hr0 hle
        obtain ⟨u1, t1, hmcx, k1⟩ := run_bind_ok.mp hr0
        have q1 : Step B t0 t1 := mcx_ok hmcx st0.good
          (fun c hc => Nat.lt_of_lt_of_le (hel c (mem_es hc)) hle) (Nat.lt_of_lt_of_le hdlt hle)
        obtain ⟨q2, ha⟩ := finish_ok (B := B) k1 q1.good
          (Nat.lt_of_lt_of_le hdlt (Nat.le_trans hle q1.nq_le))
        exact ⟨(st0.trans q1).trans q2, ha⟩
      rcases run_ite_ok.mp hrun with ⟨_, hrun⟩ | ⟨_, hrun⟩
      · obtain ⟨u0, t0, hev, k0⟩ := run_bind_ok.mp hrun
        have q0 : Step B s4 t0 := event_ok hev st.good
        exact tail (st.trans q0) k0 q0.nq_le
      · exact tail st hrun (Nat.le_refl _)
    cases dest with
    | some d =>
      dsimp only at h2
      obtain ⟨d0, s4, hp, h4⟩ := run_bind_ok.mp h2
      obtain ⟨rfl, rfl⟩ := run_pure_ok.mp hp
      exact body st1 (Nat.lt_of_lt_of_le (hd d0 rfl) st1.nq_le) hel h4
    | none =>
      dsimp only at h2
      obtain ⟨d, s4, hf, h4⟩ := run_bind_ok.mp h2
      obtain ⟨st2, hdlt⟩ := getFreeAncilla_ok (B := B) hf st1.good
      exact body (st1.trans st2) hdlt (fun r hr => Nat.lt_of_lt_of_le (hel r hr) st2.nq_le) h4


/-- one binary or `cx acc d; cx i d; mcx [acc, i] d` of the or-chain -/
theorem orGate_ok {B : String → Prop} {acc i d : Nat} {u : Unit} {s s' : CState}
    (h : StateT.run (do cx acc d; cx i d; mcx [acc, i] d : M Unit) s = .ok (u, s'))
    (hg : Good s) (hacc : acc < s.qc.numQubits) (hi : i < s.qc.numQubits) (hd : d < s.qc.numQubits) :
    Step B s s' := by
  obtain ⟨u1, s1, h1, k1⟩ := run_bind_ok.mp h
  have q1 : Step B s s1 := cx_ok h1 hg hacc hd
  obtain ⟨u2, s2, h2, k2⟩ := run_bind_ok.mp k1
  have q2 : Step B s1 s2 := cx_ok h2 q1.good (Nat.lt_of_lt_of_le hi q1.nq_le) (Nat.lt_of_lt_of_le hd q1.nq_le)
  have q12 := q1.trans q2
  have q3 : Step B s2 s' := mcx_ok k2 q2.good
    (by intro c hc
        simp only [List.mem_cons, List.not_mem_nil, or_false] at hc
        rcases hc with rfl | rfl
        · exact Nat.lt_of_lt_of_le hacc q12.nq_le
        · exact Nat.lt_of_lt_of_le hi q12.nq_le)
    (Nat.lt_of_lt_of_le hd q12.nq_le)
  exact q12.trans q3

theorem orChain_ok {B : String → Prop} {dest : Nat} : ∀ (rest : List Nat) (acc : Nat) {u : Unit} {s s' : CState},
    (orChain dest acc rest).run s = .ok (u, s') → Good s → dest < s.qc.numQubits → acc < s.qc.numQubits →
    (∀ i ∈ rest, i < s.qc.numQubits) → Step B s s'
  | [], acc, u, s, s', h, hg, _, _, _ => by
    unfold orChain at h
    obtain ⟨_, rfl⟩ := run_pure_ok.mp h; exact Step.refl hg
  | [i], acc, u, s, s', h, hg, hd, hacc, hr => by
    unfold orChain at h
    exact orGate_ok h hg hacc (hr i List.mem_cons_self) hd
  | i :: j :: rest, acc, u, s, s', h, hg, hd, hacc, hr => by
    unfold orChain at h
    obtain ⟨d, s1, hf, k1⟩ := run_bind_ok.mp h
    obtain ⟨q1, hdlt⟩ := getFreeAncilla_ok (B := B) hf hg
    obtain ⟨u2, s2, hm, k2⟩ := run_bind_ok.mp k1
    have q2 : Step B s1 s2 := markAncilla_ok hm q1.good
    have q12 := q1.trans q2
    have k2' : StateT.run (do
        (do cx acc d; cx i d; mcx [acc, i] d : M Unit)
        orChain dest d (j :: rest) : M Unit) s2 = .ok (u, s') := by
      simpa only [bind_assoc] using k2
    obtain ⟨u3, s3, hgate, k3⟩ := run_bind_ok.mp k2'
    have q3 : Step B s2 s3 := orGate_ok hgate q2.good (Nat.lt_of_lt_of_le hacc q12.nq_le)
      (Nat.lt_of_lt_of_le (hr i List.mem_cons_self) q12.nq_le) (Nat.lt_of_lt_of_le hdlt q2.nq_le)
    have q123 := q12.trans q3
    exact q123.trans (orChain_ok (j :: rest) d k3 q3.good (Nat.lt_of_lt_of_le hd q123.nq_le)
      (Nat.lt_of_lt_of_le hdlt (q2.trans q3).nq_le)
      (fun x hx => Nat.lt_of_lt_of_le (hr x (List.mem_cons_of_mem _ hx)) q123.nq_le))

theorem orWide_ok {B : String → Prop} {d : Nat} {erets es : List Nat} {u : Unit} {s s' : CState}
    (h : (orWide d erets es).run s = .ok (u, s')) (hg : Good s) (hd : d < s.qc.numQubits)
    (hes : ∀ x ∈ es, x < s.qc.numQubits) : Step B s s' := by
  unfold orWide at h
  dsimp only at h
  rcases run_ite_ok.mp h with ⟨_, h⟩ | ⟨hne, h⟩
  · obtain ⟨_, _, hf, _⟩ := run_bind_ok.mp h
    exact (run_throw_ok.mp hf).elim
  · have heq : sortNat (pySetOrder erets) = es := by simpa using hne
    have hmem : ∀ x ∈ pySetOrder erets, x < s.qc.numQubits := by
      intro x hx
      apply hes
      rw [← heq]
      unfold sortNat
      exact List.mem_mergeSort.mpr hx
    cases ho : pySetOrder erets with
    | nil =>
      rw [ho] at h
      obtain ⟨_, rfl⟩ := run_pure_ok.mp h; exact Step.refl hg
    | cons a rest =>
      rw [ho] at h hmem
      exact orChain_ok rest a h hg hd (hmem a List.mem_cons_self)
        (fun x hx => hmem x (List.mem_cons_of_mem _ hx))

theorem orTail_ok {B : String → Prop} {erets es : List Nat} {dest : Option Nat} {e : BExp} {d a : Nat}
    {s s' : CState}
    (h : StateT.run (
        if es.length ≤ 2 then do
          cxAll d es
          if (es.length == 2) = true then do
              mcx es d
              markAll es
              if dest.isNone = true then do
                  expqSet e d
                  pure d
                else pure d
            else do
              markAll es
              if dest.isNone = true then do
                  expqSet e d
                  pure d
                else pure d
        else do
          orWide d erets es
          markAll es
          if dest.isNone = true then do
              expqSet e d
              pure d
            else pure d : M Nat) s = .ok (a, s'))
    (hg : Good s) (hd : d < s.qc.numQubits) (hes : ∀ x ∈ es, x < s.qc.numQubits) :
    Step B s s' ∧ a < s'.qc.numQubits := by
  rcases run_ite_ok.mp h with ⟨_, h⟩ | ⟨_, h⟩
  · obtain ⟨u1, s1, hcx, h1⟩ := run_bind_ok.mp h
    have q1 : Step B s s1 := cxAll_ok es hcx hg hd hes
    have hd1 := Nat.lt_of_lt_of_le hd q1.nq_le
    rcases run_ite_ok.mp h1 with ⟨_, h1⟩ | ⟨_, h1⟩
    · obtain ⟨u2, s2, hm, h2⟩ := run_bind_ok.mp h1
      have q2 : Step B s1 s2 := mcx_ok hm q1.good (fun c hc => Nat.lt_of_lt_of_le (hes c hc) q1.nq_le) hd1
      obtain ⟨q3, ha⟩ := finish_ok (B := B) h2 q2.good (Nat.lt_of_lt_of_le hd1 q2.nq_le)
      exact ⟨(q1.trans q2).trans q3, ha⟩
    · obtain ⟨q3, ha⟩ := finish_ok (B := B) h1 q1.good hd1
      exact ⟨q1.trans q3, ha⟩
  · obtain ⟨u1, s1, hw, h1⟩ := run_bind_ok.mp h
    have q1 : Step B s s1 := orWide_ok hw hg hd hes
    obtain ⟨q2, ha⟩ := finish_ok (B := B) h1 q1.good (Nat.lt_of_lt_of_le hd q1.nq_le)
    exact ⟨q1.trans q2, ha⟩

/-- `if erets.contains d then event "destAmongArgs"` in front of a continuation -/
theorem destEvent_ok {B : String → Prop} {c : Bool} {k : M Nat} {a : Nat} {s s' : CState}
    {P : CState → Prop} (hP : ∀ {t t'}, P t → Step B t t' → P t')
    (hk : ∀ {t : CState}, k.run t = .ok (a, s') → Good t → P t → Step B t s' ∧ a < s'.qc.numQubits)
    (h : StateT.run (if c = true then do event "destAmongArgs"; k else k) s = .ok (a, s'))
    (hg : Good s) (hp : P s) : Step B s s' ∧ a < s'.qc.numQubits := by
  rcases run_ite_ok.mp h with ⟨_, h⟩ | ⟨_, h⟩
  · obtain ⟨u0, t0, hev, k0⟩ := run_bind_ok.mp h
    have q0 : Step B s t0 := event_ok hev hg
    obtain ⟨q1, ha⟩ := hk k0 q0.good (hP hp q0)
    exact ⟨q0.trans q1, ha⟩
  · exact hk h hg hp

theorem exprSpec_or {B : String → Prop} {args : List BExp} (ih : ArgsSpec B args) :
    ExprSpec B (.or args) := by
  intro dest sym a s s' h hg hd hb
  unfold compileExpr at h
  dsimp only at h
  obtain ⟨r, s1, hget, h1⟩ := run_bind_ok.mp h
  obtain ⟨rfl, hr⟩ := expqGet?_ok hget hg
  cases r with
  | some q => exact cacheHit_ok h1 hg (hr q rfl) hd
  | none =>
    dsimp only at h1
    obtain ⟨erets, s2, hargs, h2⟩ := run_bind_ok.mp h1
    obtain ⟨st1, hel⟩ := ih hargs hg
    have body : ∀ {d : Nat} {s4 : CState} {k : M Nat}, d < s4.qc.numQubits → Good s4 →
        (∀ r ∈ erets, r < s4.qc.numQubits) →
        StateT.run (if erets.contains d = true then do event "destAmongArgs"; k else k) s4 = .ok (a, s') →
        (∀ {t : CState}, k.run t = .ok (a, s') → Good t →
          (d < t.qc.numQubits ∧ ∀ r ∈ erets, r < t.qc.numQubits) → Step B t s' ∧ a < s'.qc.numQubits) →
        Step B s4 s' ∧ a < s'.qc.numQubits := by
      intro d s4 k hdlt hg4 hel4 hrun hk
      exact destEvent_ok (P := fun t => d < t.qc.numQubits ∧ ∀ r ∈ erets, r < t.qc.numQubits)
        (fun hp st => ⟨Nat.lt_of_lt_of_le hp.1 st.nq_le, fun r hr => Nat.lt_of_lt_of_le (hp.2 r hr) st.nq_le⟩)
        hk hrun hg4 ⟨hdlt, hel4⟩
    cases dest with
    | some d =>
      dsimp only at h2
      obtain ⟨d0, s4, hp, h4⟩ := run_bind_ok.mp h2
      obtain ⟨rfl, rfl⟩ := run_pure_ok.mp hp
      obtain ⟨st2, ha⟩ := body (Nat.lt_of_lt_of_le (hd d0 rfl) st1.nq_le) st1.good hel h4
        (fun hk hgt hp => orTail_ok hk hgt hp.1 (fun x hx => hp.2 x (mem_es hx)))
      exact ⟨st1.trans st2, ha⟩
    | none =>
      dsimp only at h2
      obtain ⟨d, s4, hf, h4⟩ := run_bind_ok.mp h2
      obtain ⟨st2, hdlt⟩ := getFreeAncilla_ok (B := B) hf st1.good
      obtain ⟨st3, ha⟩ := body hdlt st2.good (fun r hr => Nat.lt_of_lt_of_le (hel r hr) st2.nq_le) h4
        (fun hk hgt hp => orTail_ok hk hgt hp.1 (fun x hx => hp.2 x (mem_es hx)))
      exact ⟨(st1.trans st2).trans st3, ha⟩


theorem argsSpec_nil {B : String → Prop} : ArgsSpec B [] := by
  intro rs s s' h hg
  unfold compileArgs at h
  obtain ⟨rfl, rfl⟩ := run_pure_ok.mp h
  exact ⟨Step.refl hg, by simp⟩

theorem argsSpec_cons {B : String → Prop} {a : BExp} {as : List BExp} (iha : ExprSpec B a)
    (ihs : ArgsSpec B as) : ArgsSpec B (a :: as) := by
  intro rs s s' h hg
  unfold compileArgs at h
  obtain ⟨r, s1, h1, h2⟩ := run_bind_ok.mp h
  obtain ⟨st1, hr⟩ := iha none none h1 hg (by intro d hd; cases hd) (by intro x hx; cases hx)
  obtain ⟨rs', s2, h3, h4⟩ := run_bind_ok.mp h2
  obtain ⟨st2, hrs⟩ := ihs h3 st1.good
  obtain ⟨rfl, rfl⟩ := run_pure_ok.mp h4
  refine ⟨st1.trans st2, ?_⟩
  intro x hx
  simp only [List.mem_cons] at hx
  rcases hx with rfl | hx
  · exact Nat.lt_of_lt_of_le hr st2.nq_le
  · exact hrs x hx

theorem xorSpec_nil {B : String → Prop} : XorSpec B [] := by
  intro d a s s' h hg hd
  unfold compileXorArgs at h
  obtain ⟨rfl, rfl⟩ := run_pure_ok.mp h
  exact ⟨Step.refl hg, hd⟩

/-- the generic branch of the `compile_xor` loop: accumulate `a` into `d` -/
theorem xorStep_ok {B : String → Prop} {a : BExp} {as : List BExp} {d r : Nat} {s s' : CState}
    (iha : ExprSpec B a) (ihs : XorSpec B as)
    (h : StateT.run (do
          let d' ← compileExpr a (some d) none
          if d' != d then event "xorRepl"
          compileXorArgs as d' : M Nat) s = .ok (r, s'))
    (hg : Good s) (hd : d < s.qc.numQubits) : Step B s s' ∧ r < s'.qc.numQubits := by
  obtain ⟨d', s1, h1, h2⟩ := run_bind_ok.mp h
  obtain ⟨st1, hd'⟩ := iha (some d) none h1 hg (by intro d0 h0; cases h0; exact hd) (by intro x hx; cases hx)
  dsimp only at h2
  rcases run_ite_ok.mp h2 with ⟨_, h2⟩ | ⟨_, h2⟩
  · obtain ⟨u, s2, hev, h3⟩ := run_bind_ok.mp h2
    have st2 : Step B s1 s2 := event_ok hev st1.good
    obtain ⟨st3, hr⟩ := ihs d' h3 st2.good (Nat.lt_of_lt_of_le hd' st2.nq_le)
    exact ⟨(st1.trans st2).trans st3, hr⟩
  · obtain ⟨st3, hr⟩ := ihs d' h2 st1.good hd'
    exact ⟨st1.trans st3, hr⟩

theorem xorNotStep_ok {B : String → Prop} {inner : BExp} {as : List BExp} {d r : Nat} {s s' : CState}
    (iha : ExprSpec B inner) (ihs : XorSpec B as)
    (h : StateT.run (do
          let d' ← compileExpr inner (some d) none
          if d' != d then event "xorRepl"
          xGate d'
          compileXorArgs as d' : M Nat) s = .ok (r, s'))
    (hg : Good s) (hd : d < s.qc.numQubits) : Step B s s' ∧ r < s'.qc.numQubits := by
  obtain ⟨d', s1, h1, h2⟩ := run_bind_ok.mp h
  obtain ⟨st1, hd'⟩ := iha (some d) none h1 hg (by intro d0 h0; cases h0; exact hd) (by intro x hx; cases hx)
  have fin : ∀ {s2 : CState}, Step B s s2 → StateT.run (do xGate d'; compileXorArgs as d' : M Nat) s2 = .ok (r, s') →
      d' < s2.qc.numQubits → Step B s s' ∧ r < s'.qc.numQubits := by
    intro s2 st2 h3 hd2
    obtain ⟨u2, s3, hx, h4⟩ := run_bind_ok.mp h3
    have st3 : Step B s2 s3 := xGate_ok hx st2.good hd2
    obtain ⟨st4, hr⟩ := ihs d' h4 st3.good (Nat.lt_of_lt_of_le hd2 st3.nq_le)
    exact ⟨(st2.trans st3).trans st4, hr⟩
  dsimp only at h2
  rcases run_ite_ok.mp h2 with ⟨_, h2⟩ | ⟨_, h2⟩
  · obtain ⟨u, s2, hev, h3⟩ := run_bind_ok.mp h2
    have st2 : Step B s1 s2 := event_ok hev st1.good
    exact fin (st1.trans st2) h3 (Nat.lt_of_lt_of_le hd' st2.nq_le)
  · exact fin st1 h2 hd'

/-- the argument below a `Not` (the argument itself otherwise) -/
def stripNot : BExp → BExp
  | .not i => i
  | a => a

theorem xorSpec_cons {B : String → Prop} {a : BExp} {as : List BExp} (iha : ExprSpec B a)
    (ihi : ExprSpec B (stripNot a)) (ihs : XorSpec B as) : XorSpec B (a :: as) := by
  intro d r s s' h hg hd
  cases a with
  | sym n =>
    unfold compileXorArgs at h
    obtain ⟨q, s1, hl, h1⟩ := run_bind_ok.mp h
    obtain ⟨rfl, _, hq⟩ := lookup_ok hl hg
    rcases run_ite_ok.mp h1 with ⟨_, h1⟩ | ⟨_, h1⟩
    · exact ihs d h1 hg hd
    · obtain ⟨u, s2, hcx, h2⟩ := run_bind_ok.mp h1
      have st1 : Step B s1 s2 := cx_ok hcx hg hq hd
      obtain ⟨st2, hr⟩ := ihs d h2 st1.good (Nat.lt_of_lt_of_le hd st1.nq_le)
      exact ⟨st1.trans st2, hr⟩
  | not inner =>
    cases inner with
    | sym n =>
      unfold compileXorArgs at h
      exact xorStep_ok iha ihs h hg hd
    | ff => unfold compileXorArgs at h; exact xorNotStep_ok ihi ihs h hg hd
    | tt => unfold compileXorArgs at h; exact xorNotStep_ok ihi ihs h hg hd
    | xor l => unfold compileXorArgs at h; exact xorNotStep_ok ihi ihs h hg hd
    | not l => unfold compileXorArgs at h; exact xorNotStep_ok ihi ihs h hg hd
    | and l => unfold compileXorArgs at h; exact xorNotStep_ok ihi ihs h hg hd
    | or l => unfold compileXorArgs at h; exact xorNotStep_ok ihi ihs h hg hd
    | ite x y z => unfold compileXorArgs at h; exact xorNotStep_ok ihi ihs h hg hd
    | imp x y => unfold compileXorArgs at h; exact xorNotStep_ok ihi ihs h hg hd
  | ff => unfold compileXorArgs at h; exact xorStep_ok iha ihs h hg hd
  | tt => unfold compileXorArgs at h; exact xorStep_ok iha ihs h hg hd
  | xor l => unfold compileXorArgs at h; exact xorStep_ok iha ihs h hg hd
  | and l => unfold compileXorArgs at h; exact xorStep_ok iha ihs h hg hd
  | or l => unfold compileXorArgs at h; exact xorStep_ok iha ihs h hg hd
  | ite x y z => unfold compileXorArgs at h; exact xorStep_ok iha ihs h hg hd
  | imp x y => unfold compileXorArgs at h; exact xorStep_ok iha ihs h hg hd

mutual
/-- **every run of `compileExpr`** keeps the invariant and returns a qubit of the circuit -/
theorem exprSpec {B : String → Prop} : ∀ e : BExp, ExprSpec B e
  | .ff => exprSpec_ff
  | .tt => exprSpec_tt
  | .sym n => exprSpec_sym n
  | .xor args => exprSpec_xor (xorSpec args)
  | .not a => exprSpec_not (exprSpec a)
  | .and args => exprSpec_and (argsSpec args)
  | .or args => exprSpec_or (argsSpec args)
  | .ite a b c => exprSpec_ite a b c
  | .imp a b => exprSpec_imp a b
theorem argsSpec {B : String → Prop} : ∀ as : List BExp, ArgsSpec B as
  | [] => argsSpec_nil
  | a :: as => argsSpec_cons (exprSpec a) (argsSpec as)
theorem xorSpec {B : String → Prop} : ∀ as : List BExp, XorSpec B as
  | [] => xorSpec_nil
  | .not i :: as => xorSpec_cons (exprSpec (.not i)) (exprSpec i) (xorSpec as)
  | .ff :: as => xorSpec_cons (exprSpec .ff) (exprSpec .ff) (xorSpec as)
  | .tt :: as => xorSpec_cons (exprSpec .tt) (exprSpec .tt) (xorSpec as)
  | .sym n :: as => xorSpec_cons (exprSpec (.sym n)) (exprSpec (.sym n)) (xorSpec as)
  | .xor l :: as => xorSpec_cons (exprSpec (.xor l)) (exprSpec (.xor l)) (xorSpec as)
  | .and l :: as => xorSpec_cons (exprSpec (.and l)) (exprSpec (.and l)) (xorSpec as)
  | .or l :: as => xorSpec_cons (exprSpec (.or l)) (exprSpec (.or l)) (xorSpec as)
  | .ite x y z :: as => xorSpec_cons (exprSpec (.ite x y z)) (exprSpec (.ite x y z)) (xorSpec as)
  | .imp x y :: as => xorSpec_cons (exprSpec (.imp x y)) (exprSpec (.imp x y)) (xorSpec as)
end

/-! ### uncompute, remove_identities, uncompute_all -/

theorem Step.mono {B B' : String → Prop} {s s' : CState} (h : Step B s s') (hb : ∀ x, B x → B' x) :
    Step B' s s' :=
  ⟨h.good, h.nq_le, h.inputs_eq, h.keys_keep, fun x hx hr => h.qmap_keep x (fun hbx => hx (hb x hbx)) hr,
   h.ge_keep⟩

theorem uncomputeLoop_ok {B : String → Prop} {marked : List Nat} :
    ∀ (gs : List AGate) (unc : List Nat) (keepRev : List AGate) {r : List Nat × List AGate} {s s' : CState},
    (uncomputeLoop marked gs unc keepRev).run s = .ok (r, s') → Good s →
    (∀ g ∈ gs, GateOK s.qc.numQubits g) →
    Step B s s' ∧ ∀ g ∈ r.2, g ∈ keepRev ∨ g ∈ gs
  | [], unc, keepRev, r, s, s', h, hg, _ => by
    unfold uncomputeLoop at h
    obtain ⟨rfl, rfl⟩ := run_pure_ok.mp h
    exact ⟨Step.refl hg, fun g hg' => Or.inl hg'⟩
  | g :: gs, unc, keepRev, r, s, s', h, hg, hgs => by
    unfold uncomputeLoop at h
    dsimp only at h
    rcases run_ite_ok.mp h with ⟨_, h⟩ | ⟨_, h⟩
    · obtain ⟨b, s1, happ, h1⟩ := run_bind_ok.mp h
      have hgok := hgs g List.mem_cons_self
      have st1 : Step B s s1 := (appendG_run happ).step hg hgok.1 hgok.2.2.1
      have rest : ∀ {s2 : CState}, Step B s s2 →
          (uncomputeLoop marked gs (setIns unc g.target) keepRev).run s2 = .ok (r, s') →
          Step B s s' ∧ ∀ g' ∈ r.2, g' ∈ keepRev ∨ g' ∈ g :: gs := by
        intro s2 st2 h2
        obtain ⟨st3, hsub⟩ := uncomputeLoop_ok gs _ _ h2 st2.good
          (fun g' hg' => (hgs g' (List.mem_cons_of_mem _ hg')).mono st2.nq_le)
        refine ⟨st2.trans st3, fun g' hg' => ?_⟩
        rcases hsub g' hg' with h' | h'
        · exact Or.inl h'
        · exact Or.inr (List.mem_cons_of_mem _ h')
      rcases run_ite_ok.mp h1 with ⟨_, h1⟩ | ⟨_, h1⟩
      · obtain ⟨u, s2, hev, h2⟩ := run_bind_ok.mp h1
        exact rest (st1.trans (event_ok hev st1.good)) h2
      · exact rest st1 h1
    · obtain ⟨st3, hsub⟩ := uncomputeLoop_ok gs _ _ h hg
        (fun g' hg' => hgs g' (List.mem_cons_of_mem _ hg'))
      refine ⟨st3, fun g' hg' => ?_⟩
      rcases hsub g' hg' with h' | h'
      · simp only [List.mem_append, List.mem_singleton] at h'
        rcases h' with h' | rfl
        · exact Or.inl h'
        · exact Or.inr List.mem_cons_self
      · exact Or.inr (List.mem_cons_of_mem _ h')

theorem uncompute_ok {B : String → Prop} {r : List Nat} {s s' : CState}
    (h : uncompute.run s = .ok (r, s')) (hg : Good s) : Step B s s' := by
  unfold uncompute at h
  obtain ⟨qc, s1, hq, h1⟩ := run_bind_ok.mp h
  obtain ⟨rfl, rfl⟩ := getQC_run hq
  rcases run_ite_ok.mp h1 with ⟨_, h1⟩ | ⟨_, h1⟩
  · obtain ⟨_, rfl⟩ := run_pure_ok.mp h1; exact Step.refl hg
  · obtain ⟨x, s2, hloop, h2⟩ := run_bind_ok.mp h1
    obtain ⟨st1, hsub⟩ := uncomputeLoop_ok (B := B) _ _ _ hloop hg
      (fun g hg' => hg.comp_ok g (by simpa using hg'))
    obtain ⟨unc, keepRev⟩ := x
    dsimp only at h2
    obtain ⟨u, s3, hm, h3⟩ := run_bind_ok.mp h2
    obtain ⟨rfl, rfl⟩ := run_pure_ok.mp h3
    have := modQC_run hm; subst this
    have hg2 := st1.good
    refine ⟨⟨hg2.gates_ok, ?_, hg2.qmap_lt, hg2.expq_lt, hg2.anc_lt, ?_, ?_,
      hg2.anc_nodup, hg2.anc_named, hg2.kept_lt⟩, st1.nq_le, st1.inputs_eq, st1.keys_keep, st1.qmap_keep, ?_⟩
    · intro g hg'
      have hg'' : g ∈ keepRev := by simpa using hg'
      rcases hsub g hg'' with h' | h'
      · cases h'
      · exact (hg.comp_ok g (by simpa using h')).mono st1.nq_le
    · intro x hx
      rcases mem_foldl_setIns hx with h' | h'
      · exact hg2.free_lt x h'
      · exact Nat.lt_of_lt_of_le (hg.marked_lt x h') st1.nq_le
    · intro x hx
      exact Nat.lt_of_lt_of_le (hg.marked_lt x (List.mem_filter.mp hx).1) st1.nq_le
    · intro n hn hS
      have hS2 := st1.ge_keep n hn hS
      refine ⟨hS2.1, fun x hx => ?_, fun x hx => hS.2.2.1 x (List.mem_filter.mp hx).1, hS2.2.2.2⟩
      rcases mem_foldl_setIns hx with h' | h'
      · exact hS2.2.1 x h'
      · exact hS.2.2.1 x h'

theorem mem_popBarrier {res : List AGate} {g : AGate} (h : g ∈ popBarrier res) : g ∈ res := by
  unfold popBarrier at h
  split at h
  · exact h
  · split at h
    · exact List.mem_cons_of_mem _ h
    · exact h

theorem removeIdentitiesLoop_subset : ∀ (fuel : Nat) (gs res : List AGate) (g : AGate),
    g ∈ removeIdentitiesLoop fuel gs res → g ∈ gs ∨ g ∈ res := by
  intro fuel
  induction fuel with
  | zero => intro gs res g h; simp [removeIdentitiesLoop] at h; exact Or.inr h
  | succ fuel ih =>
    intro gs res g h
    cases gs with
    | nil => simp [removeIdentitiesLoop] at h; exact Or.inr h
    | cons g0 rest =>
      have step : ∀ {rest' : List AGate}, (∀ x ∈ rest', x ∈ g0 :: rest) →
          g ∈ removeIdentitiesLoop fuel rest' (g0 :: res) → g ∈ g0 :: rest ∨ g ∈ res := by
        intro rest' hsub h'
        rcases ih _ _ g h' with h'' | h''
        · exact Or.inl (hsub g h'')
        · simp only [List.mem_cons] at h''
          rcases h'' with rfl | h''
          · exact Or.inl List.mem_cons_self
          · exact Or.inr h''
      have drop : ∀ {rest' : List AGate}, (∀ x ∈ rest', x ∈ g0 :: rest) →
          g ∈ removeIdentitiesLoop fuel rest' (popBarrier res) → g ∈ g0 :: rest ∨ g ∈ res := by
        intro rest' hsub h'
        rcases ih _ _ g h' with h'' | h''
        · exact Or.inl (hsub g h'')
        · exact Or.inr (mem_popBarrier h'')
      simp only [removeIdentitiesLoop] at h
      cases rest with
      | nil => exact step (fun x hx => by cases hx) h
      | cons g1 rest1 =>
        dsimp only at h
        split at h
        · exact drop (fun x hx => by simp [hx]) h
        · cases rest1 with
          | nil => exact step (fun x hx => by simp at hx; simp [hx]) h
          | cons g2 rest2 =>
            dsimp only at h
            split at h
            · exact drop (fun x hx => by simp [hx]) h
            · exact step (fun x hx => by simp at hx; simp [hx]) h

theorem removeIdentities_ok {B : String → Prop} {u : Unit} {s s' : CState}
    (h : removeIdentities.run s = .ok (u, s')) (hg : Good s) : Step B s s' := by
  unfold removeIdentities at h
  obtain ⟨qc, s1, hq, h1⟩ := run_bind_ok.mp h
  obtain ⟨rfl, rfl⟩ := getQC_run hq
  have := modQC_run h1; subst this
  refine Step.of_same ⟨?_, hg.comp_ok, hg.qmap_lt, hg.expq_lt, hg.anc_lt, hg.free_lt, hg.marked_lt,
    hg.anc_nodup, hg.anc_named, hg.kept_lt⟩ rfl rfl rfl (fun _ h => h)
  intro g hg'
  have hg'' : g ∈ removeIdentitiesList s1.qc.gates.toList := by simpa using hg'
  unfold removeIdentitiesList at hg''
  rcases removeIdentitiesLoop_subset _ _ _ g hg'' with h' | h'
  · exact hg.gates_ok g h'
  · cases h'

theorem uncomputeAllLoop_ok {B : String → Prop} {keep alreadyFree : List Nat} {off : Nat} :
    ∀ (gs : List AGate) {u : Unit} {s s' : CState},
    (uncomputeAllLoop keep alreadyFree off gs).run s = .ok (u, s') → Good s →
    (∀ g ∈ gs, GateOK s.qc.numQubits g) → Step B s s'
  | [], u, s, s', h, hg, _ => by
    unfold uncomputeAllLoop at h
    obtain ⟨_, rfl⟩ := run_pure_ok.mp h
    exact Step.refl hg
  | g :: gs, u, s, s', h, hg, hgs => by
    unfold uncomputeAllLoop at h
    dsimp only at h
    obtain ⟨qc, s1, hq, h1⟩ := run_bind_ok.mp h
    obtain ⟨rfl, rfl⟩ := getQC_run hq
    have tl : ∀ g' ∈ gs, GateOK s1.qc.numQubits g' := fun g' hg' => hgs g' (List.mem_cons_of_mem _ hg')
    rcases run_ite_ok.mp h1 with ⟨_, h1⟩ | ⟨_, h1⟩
    · exact uncomputeAllLoop_ok gs h1 hg tl
    · have hgok := hgs g List.mem_cons_self
      have rest : ∀ {s2 : CState},
          StateT.run (do
            let b ← appendG g.cls g.wires (some (g.gid + off, g.gid))
            if b = true then do
              event "staleReplay"
              uncomputeAllLoop keep alreadyFree off gs
            else uncomputeAllLoop keep alreadyFree off gs : M Unit) s2 = .ok (u, s') →
          Step B s1 s2 → Step B s1 s' := by
        intro s2 h2 st2
        obtain ⟨b, s3, happ, h3⟩ := run_bind_ok.mp h2
        have st3 : Step B s2 s3 := (appendG_run happ).step st2.good hgok.1
          (fun w hw => Nat.lt_of_lt_of_le (hgok.2.2.1 w hw) st2.nq_le)
        have st23 := st2.trans st3
        rcases run_ite_ok.mp h3 with ⟨_, h3⟩ | ⟨_, h3⟩
        · obtain ⟨u1, s4, hev, h4⟩ := run_bind_ok.mp h3
          have st4 := st23.trans (event_ok (B := B) hev st3.good)
          exact st4.trans (uncomputeAllLoop_ok gs h4 st4.good (fun g' hg' => (tl g' hg').mono st4.nq_le))
        · exact st23.trans (uncomputeAllLoop_ok gs h3 st23.good (fun g' hg' => (tl g' hg').mono st23.nq_le))
      rcases run_ite_ok.mp h1 with ⟨hc, h1⟩ | ⟨_, h1⟩
      · obtain ⟨u1, s2, hm, h2⟩ := run_bind_ok.mp h1
        have := modQC_run hm; subst this
        have hta : g.target ∈ s1.qc.anc := by simpa using hc
        refine rest h2 (Step.of_same ⟨hg.gates_ok, hg.comp_ok, hg.qmap_lt, hg.expq_lt, hg.anc_lt, ?_,
          hg.marked_lt, hg.anc_nodup, hg.anc_named, hg.kept_lt⟩ rfl rfl rfl ?_)
        · intro x hx
          rcases mem_setIns hx with hx | rfl
          · exact hg.free_lt x hx
          · exact hg.anc_lt _ hta
        · intro n hS
          refine ⟨hS.1, fun x hx => ?_, hS.2.2.1, hS.2.2.2⟩
          rcases mem_setIns hx with hx | rfl
          · exact hS.2.1 x hx
          · exact hS.1 _ hta
      · exact rest h1 (Step.refl hg)

theorem uncomputeAll_ok {B : String → Prop} {keep : List Nat} {u : Unit} {s s' : CState}
    (h : (uncomputeAll keep).run s = .ok (u, s')) (hg : Good s) : Step B s s' := by
  unfold uncomputeAll at h
  obtain ⟨qc, s1, hq, h1⟩ := run_bind_ok.mp h
  obtain ⟨rfl, rfl⟩ := getQC_run hq
  obtain ⟨u1, s2, hloop, hm⟩ := run_bind_ok.mp h1
  have st1 : Step B s1 s2 := uncomputeAllLoop_ok _ hloop hg
    (fun g hg' => hg.gates_ok g (by simpa using hg'))
  have := modQC_run hm; subst this
  exact st1.trans (Step.of_same (st1.good.of_eq rfl rfl rfl rfl rfl rfl rfl rfl rfl) rfl rfl rfl (fun _ h => h))

/-! ### compile -/

theorem expqRemoveSymbol_ok {B : String → Prop} {x : String} {u : Unit} {s s' : CState}
    (h : (expqRemoveSymbol x).run s = .ok (u, s')) (hg : Good s) : Step B s s' := by
  unfold expqRemoveSymbol at h
  have := run_modify_ok.mp h; subst this
  refine Step.of_same ⟨hg.gates_ok, hg.comp_ok, hg.qmap_lt, ?_, hg.anc_lt, hg.free_lt, hg.marked_lt,
    hg.anc_nodup, hg.anc_named, hg.kept_lt⟩ rfl rfl rfl (fun _ h => h)
  exact fun p hp => hg.expq_lt p (List.mem_filter.mp hp).1

/-- the end of a statement: release the ancillas, or keep them for `uncompute_all` -/
theorem stmtEnd_ok {B : String → Prop} {c : Bool} {k : M Unit} {u : Unit} {s s' : CState}
    (h : StateT.run (if c = true then do
            let unc ← uncompute
            expqRemove unc
            k
          else do
            keepAncillas
            k : M Unit) s = .ok (u, s')) (hg : Good s) :
    ∃ t, Step B s t ∧ k.run t = .ok (u, s') := by
  rcases run_ite_ok.mp h with ⟨_, h⟩ | ⟨_, h⟩
  · obtain ⟨unc, s4, hunc, h4⟩ := run_bind_ok.mp h
    have st4 : Step B s s4 := uncompute_ok hunc hg
    obtain ⟨u3, s5, hrem, h5⟩ := run_bind_ok.mp h4
    have st5 : Step B s4 s5 := expqRemove_ok hrem st4.good
    exact ⟨s5, st4.trans st5, h5⟩
  · obtain ⟨u3, s4, hk, h4⟩ := run_bind_ok.mp h
    exact ⟨s4, keepAncillas_ok hk hg, h4⟩

theorem compileDefs_ok {B : String → Prop} {retBits : Option (List String)} {doUnc : Bool} :
    ∀ (defs : List (String × BExp)) {u : Unit} {s s' : CState},
    (compileDefs retBits doUnc defs).run s = .ok (u, s') → Good s → (∀ p ∈ defs, B p.1) →
    Step B s s' ∧ ∀ p ∈ defs, scratchName p.1 = false → (dictGet? s'.qc.qmap p.1).isSome = true
  | [], u, s, s', h, hg, _ => by
    unfold compileDefs at h
    obtain ⟨_, rfl⟩ := run_pure_ok.mp h
    exact ⟨Step.refl hg, fun p hp => by cases hp⟩
  | (x, e) :: rest, u, s, s', h, hg, hb => by
    unfold compileDefs at h
    have hbx : B x := hb (x, e) List.mem_cons_self
    obtain ⟨iret, s1, he, h1⟩ := run_bind_ok.mp h
    obtain ⟨st1, hlt⟩ := exprSpec e none (some x) he hg (by intro d hd; cases hd)
      (by intro y hy; cases hy; exact hbx)
    obtain ⟨u0, s1', hrs, h1'⟩ := run_bind_ok.mp h1
    have st1' : Step B s1 s1' := expqRemoveSymbol_ok hrs st1.good
    obtain ⟨u1, s2, hset, h2⟩ := run_bind_ok.mp h1'
    have st2 : Step B s1' s2 := expqSet_ok hset st1'.good (Nat.lt_of_lt_of_le hlt st1'.nq_le)
    obtain ⟨u2, s3, hmap, h3⟩ := run_bind_ok.mp h2
    obtain ⟨st3, hkey⟩ := mapQubit_ok (B := B) hmap st2.good
      (Nat.lt_of_lt_of_le hlt (st1'.trans st2).nq_le) hbx (by intro hp; cases hp)
    obtain ⟨s5, st5, h5⟩ := stmtEnd_ok (B := B) h3 st3.good
    obtain ⟨st6, hrest⟩ := compileDefs_ok rest h5 st5.good (fun p hp => hb p (List.mem_cons_of_mem _ hp))
    refine ⟨((((st1.trans st1').trans st2).trans st3).trans st5).trans st6, ?_⟩
    intro p hp hs
    simp only [List.mem_cons] at hp
    rcases hp with rfl | hp
    · exact (st5.trans st6).keys_keep _ hs (by rw [hkey]; rfl)
    · exact hrest p hp hs

theorem addInputs_ok : ∀ (ns : List String) {u : Unit} {s s' : CState},
    (addInputs ns).run s = .ok (u, s') → Good s →
    Step (· ∈ ns) s s' ∧ s'.qc.numQubits = s.qc.numQubits + ns.length ∧ s'.qc.anc = s.qc.anc ∧
      (ns.Nodup → (∀ n ∈ ns, reservedName n = false) →
        ∀ (i : Nat) (x : String), ns[i]? = some x → dictGet? s'.qc.qmap x = some (s.qc.numQubits + i))
  | [], u, s, s', h, hg => by
    unfold addInputs at h
    obtain ⟨_, rfl⟩ := run_pure_ok.mp h
    exact ⟨Step.refl hg, rfl, rfl, fun _ _ i x hi => by simp at hi⟩
  | n :: ns, u, s, s', h, hg => by
    unfold addInputs at h
    obtain ⟨u1, s1, hd, h1⟩ := run_bind_ok.mp h
    obtain ⟨i0, hadd⟩ := run_discard_ok.mp hd
    have hs1 := (addQubit_run hadd).2
    obtain ⟨st1, _, _, hanc1, _⟩ := addQubit_ok (B := (· ∈ n :: ns)) hadd hg (Or.inl List.mem_cons_self)
    obtain ⟨st2, hn2, hanc2, hpos⟩ := addInputs_ok ns h1 st1.good
    have hn1 : s1.qc.numQubits = s.qc.numQubits + 1 := by rw [hs1]
    refine ⟨st1.trans (st2.mono (fun x hx => List.mem_cons_of_mem _ hx)), ?_, hanc2.trans hanc1, ?_⟩
    · rw [hn2, hn1]; simp only [List.length_cons]; omega
    · intro hnd hres i x hi
      have hnd' := List.nodup_cons.mp hnd
      cases i with
      | zero =>
        have : n = x := by simpa using hi
        subst this
        rw [st2.qmap_keep n hnd'.1 (hres n List.mem_cons_self), hs1]
        exact dictGet?_dictSet_self
      | succ j =>
        have := hpos hnd'.2 (fun m hm => hres m (List.mem_cons_of_mem _ hm)) j x (by simpa using hi)
        rw [this, hn1]; congr 1; omega

theorem addInputs_scratch : ∀ (ns : List String) {u : Unit} {s s' : CState},
    (addInputs ns).run s = .ok (u, s') →
    s'.qc.anc = s.qc.anc ∧ s'.qc.free = s.qc.free ∧ s'.qc.marked = s.qc.marked ∧ s'.qc.kept = s.qc.kept
  | [], u, s, s', h => by
    unfold addInputs at h
    obtain ⟨_, rfl⟩ := run_pure_ok.mp h
    exact ⟨rfl, rfl, rfl, rfl⟩
  | n :: ns, u, s, s', h => by
    unfold addInputs at h
    obtain ⟨u1, s1, hd, h1⟩ := run_bind_ok.mp h
    obtain ⟨i0, hadd⟩ := run_discard_ok.mp hd
    have hs1 := (addQubit_run hadd).2
    obtain ⟨h2, h3, h4, h5⟩ := addInputs_scratch ns h1
    rw [hs1] at h2 h3 h4 h5
    exact ⟨h2, h3, h4, h5⟩

theorem good_init (cs : List Nat) (inputs : List String) :
    Good { choices := cs, inputs := inputs } :=
  ⟨by simp, by simp, by simp, by simp, by simp, by simp, by simp, by simp, by simp, by simp⟩

/-- **every successful run of `compile`** ends in a state satisfying the invariant; names outside
the definitions' left-hand sides that are not reserved keep the qubit `addInputs` gave them,
every non-scratch left-hand side is a key of the final `qubit_map`, and no argument qubit is in
the ancilla, free or marked set -/
theorem compile_ok {inputs : List String} {defs : List (String × BExp)} {ret : Option (List String)}
    {unc : Bool} {cs : List Nat} {s : CState}
    (h : (compile inputs defs ret unc).run { choices := cs } = .ok ((), s)) :
    Good s ∧ inputs.length ≤ s.qc.numQubits ∧
    (∀ p ∈ defs, scratchName p.1 = false → (dictGet? s.qc.qmap p.1).isSome = true) ∧
    (inputs.Nodup → (∀ n ∈ inputs, reservedName n = false ∧ n ∉ defs.map (·.1)) →
      ∀ (i : Nat) (x : String), inputs[i]? = some x → dictGet? s.qc.qmap x = some i) ∧
    ScratchGe inputs.length s := by
  unfold compile at h
  obtain ⟨u0, s0, hmod, h1⟩ := run_bind_ok.mp h
  have := run_modify_ok.mp hmod; subst this
  have hg0 : Good { choices := cs, inputs := inputs } := good_init cs inputs
  obtain ⟨u1, s1, hin, h2⟩ := run_bind_ok.mp h1
  obtain ⟨st1, hn1, _, hpos⟩ := addInputs_ok inputs hin hg0
  obtain ⟨u2, s2, hdefs, h3⟩ := run_bind_ok.mp h2
  obtain ⟨st2, hkeys⟩ := compileDefs_ok (B := (· ∈ defs.map (·.1))) (retBits := ret) (doUnc := unc) defs hdefs st1.good
    (fun p hp => List.mem_map.mpr ⟨p, hp, rfl⟩)
  obtain ⟨u3, s3, hrem, h4⟩ := run_bind_ok.mp h3
  have st3 : Step (· ∈ defs.map (·.1)) s2 s3 := removeIdentities_ok hrem st2.good
  have st4 : Step (· ∈ defs.map (·.1)) s3 s := by
    cases ret with
    | none =>
      obtain ⟨_, rfl⟩ := run_pure_ok.mp h4; exact Step.refl st3.good
    | some rb =>
      dsimp only at h4
      rcases run_ite_ok.mp h4 with ⟨_, h4⟩ | ⟨_, h4⟩
      · obtain ⟨qc, s4, hq, h5⟩ := run_bind_ok.mp h4
        obtain ⟨rfl, rfl⟩ := getQC_run hq
        exact uncomputeAll_ok h5 st3.good
      · obtain ⟨_, rfl⟩ := run_pure_ok.mp h4; exact Step.refl st3.good
  have st234 := (st2.trans st3).trans st4
  have hn1' : s1.qc.numQubits = inputs.length := by rw [hn1]; simp
  obtain ⟨ha1, hf1, hm1, hk1⟩ := addInputs_scratch inputs hin
  have hS1 : ScratchGe inputs.length s1 := by
    refine ⟨?_, ?_, ?_, ?_⟩
    · rw [ha1]; intro a ha; cases ha
    · rw [hf1]; intro a ha; cases ha
    · rw [hm1]; intro a ha; cases ha
    · rw [hk1]; intro a ha; cases ha
  refine ⟨st4.good, by rw [← hn1']; exact st234.nq_le, ?_, ?_,
    st234.ge_keep _ (Nat.le_of_eq hn1'.symm) hS1⟩
  · intro p hp hs
    exact (st3.trans st4).keys_keep _ hs (hkeys p hp hs)
  · intro hnd hres i x hi
    have hx := hres x (List.mem_of_getElem? hi)
    rw [st234.qmap_keep _ hx.2 hx.1, hpos hnd (fun n hn => (hres n hn).1) i x hi]
    simp

end QV.Compiler
