import QV.Model.Compiler
/-!
# Structural invariants of the compiler model, for every run

Hoare-style reasoning about `QV.Compiler.compile` in `M := StateT CState (Except String)`:
a state invariant `Good`, a two-state relation `Step B s s'` ("`s'` is reachable from `s` by
compiler steps that bind only names in `B` or reserved names"), one lemma per primitive and a
mutual induction over `compileExpr` / `compileArgs` / `compileXorArgs`.
-/
namespace QV.Compiler
open QV

/-! ### successful runs of the state+exception monad -/

theorem run_bind_ok {α β} {m : M α} {f : α → M β} {s : CState} {b : β} {s'' : CState} :
    (m >>= f).run s = .ok (b, s'') ↔ ∃ a s', m.run s = .ok (a, s') ∧ (f a).run s' = .ok (b, s'') := by
  rw [StateT.run_bind]
  cases h : m.run s with
  | error e => simp [bind, Except.bind]
  | ok p =>
    obtain ⟨a, s'⟩ := p
    simp only [bind, Except.bind, Except.ok.injEq, Prod.mk.injEq]
    constructor
    · intro h; exact ⟨a, s', ⟨rfl, rfl⟩, h⟩
    · rintro ⟨a1, s1, ⟨rfl, rfl⟩, h⟩; exact h

theorem run_pure_ok {α} {a b : α} {s s' : CState} :
    (pure a : M α).run s = .ok (b, s') ↔ b = a ∧ s' = s := by
  rw [StateT.run_pure]; simp only [pure, Except.pure, Except.ok.injEq, Prod.mk.injEq]
  constructor <;> rintro ⟨rfl, rfl⟩ <;> exact ⟨rfl, rfl⟩

theorem run_throw_ok {α} {e : String} {b : α} {s s' : CState} :
    (throw e : M α).run s = .ok (b, s') ↔ False := by
  simp [throw, throwThe, MonadExceptOf.throw, StateT.run, StateT.lift, bind, Except.bind]

theorem run_get_ok {a s s' : CState} :
    (get : M CState).run s = .ok (a, s') ↔ a = s ∧ s' = s := by
  simp only [StateT.run_get, pure, Except.pure, Except.ok.injEq, Prod.mk.injEq]
  constructor <;> rintro ⟨rfl, rfl⟩ <;> exact ⟨rfl, rfl⟩

theorem run_set_ok {t s s' : CState} {u : PUnit} :
    (set t : M PUnit).run s = .ok (u, s') ↔ s' = t := by
  simp only [StateT.run_set, pure, Except.pure, Except.ok.injEq, Prod.mk.injEq, true_and]
  constructor <;> rintro rfl <;> rfl

theorem run_modify_ok {f : CState → CState} {s s' : CState} {u : PUnit} :
    (modify f : M PUnit).run s = .ok (u, s') ↔ s' = f s := by
  simp only [StateT.run_modify, pure, Except.pure, Except.ok.injEq, Prod.mk.injEq, true_and]
  constructor <;> rintro rfl <;> rfl

theorem getQC_run {a : QC} {s s' : CState} (h : getQC.run s = .ok (a, s')) : a = s.qc ∧ s' = s := by
  unfold getQC at h
  simp only [run_bind_ok, run_get_ok, run_pure_ok] at h
  obtain ⟨a1, s1, ⟨rfl, rfl⟩, rfl, rfl⟩ := h
  exact ⟨rfl, rfl⟩

theorem modQC_run {f : QC → QC} {u : Unit} {s s' : CState} (h : (modQC f).run s = .ok (u, s')) :
    s' = { s with qc := f s.qc } := by
  unfold modQC at h
  exact run_modify_ok.mp h

theorem event_run {e : String} {u : Unit} {s s' : CState} (h : (event e).run s = .ok (u, s')) :
    s' = { s with events := s.events ++ [e] } := by
  unfold event at h
  exact run_modify_ok.mp h

/-! ### the invariant -/

/-- a gate is X/CX/MCX-like on distinct wires below `n`, with the arity of its class -/
def GateOK (n : Nat) (g : AGate) : Prop :=
  g.cls.isMCXLike = true ∧ g.wires.Nodup ∧ (∀ w ∈ g.wires, w < n) ∧ g.wires.length = g.cls.nQubits

theorem GateOK.mono {n m : Nat} {g : AGate} (h : GateOK n g) (hnm : n ≤ m) : GateOK m g :=
  ⟨h.1, h.2.1, fun w hw => Nat.lt_of_lt_of_le (h.2.2.1 w hw) hnm, h.2.2.2⟩

/-- state invariant of the compiler: gate lists well formed, every stored qubit index below
`numQubits`, ancilla set duplicate-free, names of ancilla qubits are scratch names -/
structure Good (s : CState) : Prop where
  gates_ok : ∀ g ∈ s.qc.gates.toList, GateOK s.qc.numQubits g
  comp_ok : ∀ g ∈ s.qc.gatesComputed.toList, GateOK s.qc.numQubits g
  qmap_lt : ∀ p ∈ s.qc.qmap, p.2 < s.qc.numQubits
  expq_lt : ∀ p ∈ s.expq, p.2 < s.qc.numQubits
  anc_lt : ∀ a ∈ s.qc.anc, a < s.qc.numQubits
  free_lt : ∀ a ∈ s.qc.free, a < s.qc.numQubits
  marked_lt : ∀ a ∈ s.qc.marked, a < s.qc.numQubits
  anc_nodup : s.qc.anc.Nodup
  anc_named : ∀ p ∈ s.qc.qmap, p.2 ∈ s.qc.anc → scratchName p.1 = true

/-- `s'` comes from `s` by steps that keep the invariant, only add qubits, never delete a
non-scratch name and rebind only names in `B` or reserved names -/
structure Step (B : String → Prop) (s s' : CState) : Prop where
  good : Good s'
  nq_le : s.qc.numQubits ≤ s'.qc.numQubits
  inputs_eq : s'.inputs = s.inputs
  keys_keep : ∀ x, scratchName x = false → (dictGet? s.qc.qmap x).isSome = true →
    (dictGet? s'.qc.qmap x).isSome = true
  qmap_keep : ∀ x, ¬ B x → reservedName x = false → dictGet? s'.qc.qmap x = dictGet? s.qc.qmap x

theorem Step.refl {B : String → Prop} {s : CState} (h : Good s) : Step B s s :=
  ⟨h, Nat.le_refl _, rfl, fun _ _ h => h, fun _ _ _ => rfl⟩

theorem Step.trans {B : String → Prop} {s s' s'' : CState} (h1 : Step B s s') (h2 : Step B s' s'') :
    Step B s s'' :=
  ⟨h2.good, Nat.le_trans h1.nq_le h2.nq_le, h2.inputs_eq.trans h1.inputs_eq,
   fun x hx h => h2.keys_keep x hx (h1.keys_keep x hx h),
   fun x hb hr => (h2.qmap_keep x hb hr).trans (h1.qmap_keep x hb hr)⟩

/-- a step that leaves `numQubits`, `qmap` and `inputs` alone -/
theorem Step.of_same {B : String → Prop} {s s' : CState} (hg : Good s')
    (hn : s'.qc.numQubits = s.qc.numQubits) (hq : s'.qc.qmap = s.qc.qmap) (hi : s'.inputs = s.inputs) :
    Step B s s' :=
  ⟨hg, by rw [hn]; exact Nat.le_refl _, hi, fun x _ h => by rw [hq]; exact h, fun x _ _ => by rw [hq]⟩

/-! ### dictionaries -/

theorem dictGet?_isSome {d : List (String × Nat)} {k : String} :
    (dictGet? d k).isSome = d.any (·.1 == k) := by
  unfold dictGet?
  induction d with
  | nil => rfl
  | cons p d ih =>
    simp only [List.find?_cons, List.any_cons]
    cases h : p.1 == k <;> simp_all

theorem mem_dictSet {d : List (String × Nat)} {k : String} {v : Nat} {p : String × Nat}
    (h : p ∈ dictSet d k v) : p ∈ d ∨ p = (k, v) := by
  unfold dictSet at h
  split at h
  · simp only [List.mem_map] at h
    obtain ⟨q, hq, rfl⟩ := h
    split
    · exact Or.inr rfl
    · exact Or.inl hq
  · simp only [List.mem_append, List.mem_singleton] at h
    exact h

theorem find_upd_ne {d : List (String × Nat)} {k x : String} {v : Nat} (hx : x ≠ k) :
    ((d.map (fun p => if p.1 == k then (k, v) else p)).find? (·.1 == x)).map (·.2)
      = (d.find? (·.1 == x)).map (·.2) := by
  induction d with
  | nil => rfl
  | cons p d ih =>
    have h2 : (k == x) = false := by simp [Ne.symm hx]
    by_cases hp : p.1 = k
    · have h1 : (p.1 == k) = true := by simp [hp]
      have h3 : (p.1 == x) = false := by rw [hp]; exact h2
      rw [List.map_cons, List.find?_cons, List.find?_cons]
      simp only [h1, if_true, h2, h3]
      exact ih
    · have h1 : (p.1 == k) = false := by simp [hp]
      rw [List.map_cons, List.find?_cons, List.find?_cons]
      simp only [h1, Bool.false_eq_true, if_false]
      cases p.1 == x
      · exact ih
      · rfl

theorem find_upd_self {d : List (String × Nat)} {k : String} {v : Nat} (h : d.any (·.1 == k) = true) :
    ((d.map (fun p => if p.1 == k then (k, v) else p)).find? (·.1 == k)).map (·.2) = some v := by
  induction d with
  | nil => simp at h
  | cons p d ih =>
    rw [List.map_cons, List.find?_cons]
    by_cases hp : p.1 = k
    · have h1 : (p.1 == k) = true := by simp [hp]
      have h2 : (k == k) = true := by simp
      simp only [h1, if_true, h2, Option.map_some]
    · have h1 : (p.1 == k) = false := by simp [hp]
      simp only [h1, Bool.false_eq_true, if_false]
      rw [List.any_cons, h1, Bool.false_or] at h
      exact ih h

theorem find_filter_ne {d : List (String × Nat)} {k x : String} (hx : x ≠ k) :
    (d.filter (·.1 != k)).find? (·.1 == x) = d.find? (·.1 == x) := by
  induction d with
  | nil => rfl
  | cons p d ih =>
    by_cases hp : p.1 = k
    · have h1 : (p.1 != k) = false := by simp [hp]
      have h3 : (p.1 == x) = false := by rw [hp]; simp [Ne.symm hx]
      rw [List.filter_cons, List.find?_cons]
      simp only [h1, Bool.false_eq_true, if_false, h3]
      exact ih
    · have h1 : (p.1 != k) = true := by simp [hp]
      rw [List.filter_cons, List.find?_cons]
      simp only [h1, if_true, List.find?_cons]
      cases p.1 == x
      · exact ih
      · rfl

theorem dictGet?_dictSet_self {d : List (String × Nat)} {k : String} {v : Nat} :
    dictGet? (dictSet d k v) k = some v := by
  unfold dictSet dictGet?
  split
  · next h => exact find_upd_self h
  · next h =>
    have hn : d.find? (·.1 == k) = none := by
      rw [List.find?_eq_none]
      intro p hp hk
      exact h (List.any_eq_true.mpr ⟨p, hp, hk⟩)
    rw [List.find?_append, hn]
    simp

theorem dictGet?_dictSet_ne {d : List (String × Nat)} {k x : String} {v : Nat} (hx : x ≠ k) :
    dictGet? (dictSet d k v) x = dictGet? d x := by
  unfold dictSet dictGet?
  split
  · exact find_upd_ne hx
  · have h2 : (k == x) = false := by simp [Ne.symm hx]
    rw [List.find?_append]
    simp [h2]

theorem dictGet?_filter_ne {d : List (String × Nat)} {k x : String} (hx : x ≠ k) :
    dictGet? (d.filter (·.1 != k)) x = dictGet? d x := by
  unfold dictGet?
  rw [find_filter_ne hx]

theorem dictGet?_mem {d : List (String × Nat)} {k : String} {v : Nat} (h : dictGet? d k = some v) :
    (k, v) ∈ d := by
  unfold dictGet? at h
  cases hf : d.find? (·.1 == k) with
  | none => simp [hf] at h
  | some p =>
    simp only [hf, Option.map_some, Option.some.injEq] at h
    have hm := List.mem_of_find?_eq_some hf
    have hk := List.find?_some hf
    have : p.1 = k := by simpa using hk
    subst h; subst this
    exact hm

theorem keyByIndex?_mem {d : List (String × Nat)} {i : Nat} {k : String} (h : keyByIndex? d i = some k) :
    (k, i) ∈ d := by
  unfold keyByIndex? at h
  cases hf : d.reverse.find? (·.2 == i) with
  | none => simp [hf] at h
  | some p =>
    simp only [hf, Option.map_some, Option.some.injEq] at h
    have hm := List.mem_of_find?_eq_some hf
    have hk := List.find?_some hf
    have : p.2 = i := by simpa using hk
    subst h; subst this
    simpa using hm

/-! ### names -/

theorem ancLike_anc (k : Nat) : ancLike s!"anc_{k}" = true := by
  simp [ancLike, toString]

theorem reserved_of_scratch {x : String} (h : scratchName x = true) : reservedName x = true := by
  simp [reservedName, h]

/-! ### appending gates -/

/-- what a successful `appendG` does to the state -/
structure Appended (cls : GClass) (wires : List Nat) (s s' : CState) : Prop where
  noerr : appendError s.qc.numQubits { cls := cls, wires := wires } = none
  gates : ∃ g : AGate, g.cls = cls ∧ g.wires = wires ∧ s'.qc.gates = s.qc.gates.push g ∧
    (s'.qc.gatesComputed = s.qc.gatesComputed ∨ s'.qc.gatesComputed = s.qc.gatesComputed.push g)
  nq : s'.qc.numQubits = s.qc.numQubits
  qmap : s'.qc.qmap = s.qc.qmap
  anc : s'.qc.anc = s.qc.anc
  free : s'.qc.free = s.qc.free
  marked : s'.qc.marked = s.qc.marked
  expq : s'.expq = s.expq
  inputs : s'.inputs = s.inputs

theorem appendG_run {cls : GClass} {wires : List Nat} {gid : Option (Nat × Nat)} {b : Bool} {s s' : CState}
    (h : (appendG cls wires gid).run s = .ok (b, s')) : Appended cls wires s s' := by
  unfold appendG at h
  simp only [run_bind_ok] at h
  obtain ⟨qc, s1, hq, h⟩ := h
  obtain ⟨rfl, rfl⟩ := getQC_run hq
  split at h
  · exact (run_throw_ok.mp h).elim
  · next herr =>
    split at h
    · simp only [run_bind_ok, run_pure_ok] at h
      obtain ⟨u, s2, hm, rfl, rfl⟩ := h
      have := modQC_run hm
      subst this
      refine ⟨herr, ⟨_, rfl, rfl, rfl, ?_⟩, rfl, rfl, rfl, rfl, rfl, rfl, rfl⟩
      dsimp only
      split
      · exact Or.inl rfl
      · exact Or.inr rfl
    · simp only [run_bind_ok, run_pure_ok] at h
      obtain ⟨u, s2, hm, rfl, rfl⟩ := h
      have := modQC_run hm
      subst this
      refine ⟨herr, ⟨_, rfl, rfl, rfl, ?_⟩, rfl, rfl, rfl, rfl, rfl, rfl, rfl⟩
      dsimp only
      split
      · exact Or.inl rfl
      · exact Or.inr rfl

theorem appendError_none {n : Nat} {g : AGate} (h : appendError n g = none) :
    g.wires.Nodup ∧ g.wires.length = g.cls.nQubits := by
  unfold appendError at h
  split at h
  · simp at h
  · split at h
    · simp at h
    · split at h
      · simp at h
      · next h2 h3 => exact ⟨by simpa using h2, by simpa using h3⟩

theorem Appended.step {B : String → Prop} {cls : GClass} {wires : List Nat} {s s' : CState}
    (ha : Appended cls wires s s') (hg : Good s) (hc : cls.isMCXLike = true)
    (hw : ∀ w ∈ wires, w < s.qc.numQubits) : Step B s s' := by
  obtain ⟨hn, hl⟩ := appendError_none ha.noerr
  obtain ⟨g, hgc, hgw, hgates, hcomp⟩ := ha.gates
  have hgok : GateOK s.qc.numQubits g := by
    refine ⟨by rw [hgc]; exact hc, by rw [hgw]; exact hn, by rw [hgw]; exact hw, by rw [hgw, hgc]; exact hl⟩
  apply Step.of_same _ ha.nq ha.qmap ha.inputs
  refine ⟨?_, ?_, ?_, ?_, ?_, ?_, ?_, ?_, ?_⟩
  · rw [ha.nq, hgates]
    intro g' hg'
    simp only [Array.toList_push, List.mem_append, List.mem_singleton] at hg'
    rcases hg' with hg' | rfl
    · exact hg.gates_ok g' hg'
    · exact hgok
  · rw [ha.nq]
    rcases hcomp with hcomp | hcomp
    · rw [hcomp]; exact hg.comp_ok
    · rw [hcomp]
      intro g' hg'
      simp only [Array.toList_push, List.mem_append, List.mem_singleton] at hg'
      rcases hg' with hg' | rfl
      · exact hg.comp_ok g' hg'
      · exact hgok
  · rw [ha.nq, ha.qmap]; exact hg.qmap_lt
  · rw [ha.nq, ha.expq]; exact hg.expq_lt
  · rw [ha.nq, ha.anc]; exact hg.anc_lt
  · rw [ha.nq, ha.free]; exact hg.free_lt
  · rw [ha.nq, ha.marked]; exact hg.marked_lt
  · rw [ha.anc]; exact hg.anc_nodup
  · rw [ha.anc, ha.qmap]; exact hg.anc_named

theorem run_discard_ok {α} {m : M α} {u : Unit} {s s' : CState} :
    (discard m).run s = .ok (u, s') ↔ ∃ a, m.run s = .ok (a, s') := by
  simp only [discard, Functor.discard, Functor.mapConst, Function.comp]
  show (StateT.map (Function.const α PUnit.unit) m).run s = _ ↔ _
  unfold StateT.map StateT.run
  simp only [bind, Except.bind, pure, Except.pure]
  cases h : m s with
  | error e => simp
  | ok p => obtain ⟨a, s1⟩ := p; simp

theorem append_ok {B : String → Prop} {cls : GClass} {wires : List Nat} {u : Unit} {s s' : CState}
    (h : (append cls wires).run s = .ok (u, s')) (hg : Good s) (hc : cls.isMCXLike = true)
    (hw : ∀ w ∈ wires, w < s.qc.numQubits) : Step B s s' := by
  unfold append at h
  obtain ⟨b, h⟩ := run_discard_ok.mp h
  exact (appendG_run h).step hg hc hw

theorem xGate_ok {B : String → Prop} {w : Nat} {u : Unit} {s s' : CState}
    (h : (xGate w).run s = .ok (u, s')) (hg : Good s) (hw : w < s.qc.numQubits) : Step B s s' :=
  append_ok h hg rfl (by simpa using hw)

theorem cx_ok {B : String → Prop} {a b : Nat} {u : Unit} {s s' : CState}
    (h : (cx a b).run s = .ok (u, s')) (hg : Good s) (ha : a < s.qc.numQubits) (hb : b < s.qc.numQubits) :
    Step B s s' :=
  append_ok h hg rfl (by intro w hw; simp at hw; rcases hw with rfl | rfl <;> assumption)

theorem mcx_ok {B : String → Prop} {cs : List Nat} {t : Nat} {u : Unit} {s s' : CState}
    (h : (mcx cs t).run s = .ok (u, s')) (hg : Good s) (hc : ∀ c ∈ cs, c < s.qc.numQubits)
    (ht : t < s.qc.numQubits) : Step B s s' :=
  append_ok h hg rfl (by intro w hw; simp at hw; rcases hw with hw | rfl; exact hc w hw; exact ht)

/-! ### qubits and ancillas -/

/-- the invariant does not read `choices` / `events` / `inputs` or the shadow bookkeeping -/
theorem Good.of_eq {s s' : CState} (hg : Good s) (hn : s'.qc.numQubits = s.qc.numQubits)
    (h1 : s'.qc.gates = s.qc.gates) (h2 : s'.qc.gatesComputed = s.qc.gatesComputed)
    (h3 : s'.qc.qmap = s.qc.qmap) (h4 : s'.expq = s.expq) (h5 : s'.qc.anc = s.qc.anc)
    (h6 : s'.qc.free = s.qc.free) (h7 : s'.qc.marked = s.qc.marked) : Good s' := by
  refine ⟨?_, ?_, ?_, ?_, ?_, ?_, ?_, ?_, ?_⟩
  · rw [hn, h1]; exact hg.gates_ok
  · rw [hn, h2]; exact hg.comp_ok
  · rw [hn, h3]; exact hg.qmap_lt
  · rw [hn, h4]; exact hg.expq_lt
  · rw [hn, h5]; exact hg.anc_lt
  · rw [hn, h6]; exact hg.free_lt
  · rw [hn, h7]; exact hg.marked_lt
  · rw [h5]; exact hg.anc_nodup
  · rw [h5, h3]; exact hg.anc_named

theorem event_ok {B : String → Prop} {e : String} {u : Unit} {s s' : CState}
    (h : (event e).run s = .ok (u, s')) (hg : Good s) : Step B s s' := by
  have := event_run h; subst this
  exact Step.of_same (hg.of_eq rfl rfl rfl rfl rfl rfl rfl rfl) rfl rfl rfl

theorem addQubit_run {name : String} {a : Nat} {s s' : CState} (h : (addQubit name).run s = .ok (a, s')) :
    a = s.qc.numQubits ∧ s' = { s with qc := { s.qc with qmap := dictSet s.qc.qmap name s.qc.numQubits,
                                                          numQubits := s.qc.numQubits + 1 } } := by
  unfold addQubit at h
  simp only [run_bind_ok, run_pure_ok] at h
  obtain ⟨qc, s1, hq, u, s2, hm, rfl, rfl⟩ := h
  obtain ⟨rfl, rfl⟩ := getQC_run hq
  exact ⟨rfl, modQC_run hm⟩

theorem addQubit_ok {B : String → Prop} {name : String} {a : Nat} {s s' : CState}
    (h : (addQubit name).run s = .ok (a, s')) (hg : Good s) (hb : B name ∨ reservedName name = true) :
    Step B s s' ∧ a = s.qc.numQubits ∧ a < s'.qc.numQubits ∧ s'.qc.anc = s.qc.anc ∧
      (∀ p ∈ s'.qc.qmap, p.2 = a → p.1 = name) := by
  obtain ⟨rfl, rfl⟩ := addQubit_run h
  have hle : s.qc.numQubits ≤ s.qc.numQubits + 1 := Nat.le_succ _
  refine ⟨⟨⟨?_, ?_, ?_, ?_, ?_, ?_, ?_, ?_, ?_⟩, hle, rfl, ?_, ?_⟩, rfl, Nat.lt_succ_self _, rfl, ?_⟩
  · exact fun g hg' => (hg.gates_ok g hg').mono hle
  · exact fun g hg' => (hg.comp_ok g hg').mono hle
  · intro p hp
    rcases mem_dictSet hp with hp | rfl
    · exact Nat.lt_succ_of_lt (hg.qmap_lt p hp)
    · exact Nat.lt_succ_self _
  · exact fun p hp => Nat.lt_succ_of_lt (hg.expq_lt p hp)
  · exact fun p hp => Nat.lt_succ_of_lt (hg.anc_lt p hp)
  · exact fun p hp => Nat.lt_succ_of_lt (hg.free_lt p hp)
  · exact fun p hp => Nat.lt_succ_of_lt (hg.marked_lt p hp)
  · exact hg.anc_nodup
  · intro p hp ha
    rcases mem_dictSet hp with hp | rfl
    · exact hg.anc_named p hp ha
    · exact absurd (hg.anc_lt _ ha) (Nat.lt_irrefl _)
  · intro x _ hx
    by_cases hxn : x = name
    · subst hxn; show (dictGet? (dictSet _ _ _) _).isSome = true; rw [dictGet?_dictSet_self]; rfl
    · show (dictGet? (dictSet _ _ _) _).isSome = true; rw [dictGet?_dictSet_ne hxn]; exact hx
  · intro x hbx hrx
    have hxn : x ≠ name := by
      rintro rfl
      rcases hb with hb | hb
      · exact hbx hb
      · rw [hb] at hrx; cases hrx
    exact dictGet?_dictSet_ne hxn
  · intro p hp hpa
    rcases mem_dictSet hp with hp | rfl
    · exact absurd (hg.qmap_lt p hp) (by rw [hpa]; exact Nat.lt_irrefl _)
    · rfl

theorem lookup_ok {n : String} {a : Nat} {s s' : CState} (h : (lookup n).run s = .ok (a, s')) (hg : Good s) :
    s' = s ∧ dictGet? s.qc.qmap n = some a ∧ a < s.qc.numQubits := by
  unfold lookup at h
  simp only [run_bind_ok] at h
  obtain ⟨qc, s1, hq, h⟩ := h
  obtain ⟨rfl, rfl⟩ := getQC_run hq
  split at h
  · next i hi =>
    obtain ⟨rfl, rfl⟩ := run_pure_ok.mp h
    exact ⟨rfl, hi, hg.qmap_lt _ (dictGet?_mem hi)⟩
  · exact (run_throw_ok.mp h).elim

theorem mem_setIns {l : List Nat} {x y : Nat} (h : y ∈ setIns l x) : y ∈ l ∨ y = x := by
  unfold setIns at h
  split at h
  · exact Or.inl h
  · simpa using h

theorem setIns_nodup {l : List Nat} {x : Nat} (h : l.Nodup) : (setIns l x).Nodup := by
  unfold setIns
  split
  · exact h
  · next hc =>
    rw [List.nodup_append]
    refine ⟨h, by simp, ?_⟩
    intro a ha b hb
    simp at hb; subst hb
    rintro rfl
    exact hc (by simpa using ha)

theorem scratch_anc (k : Nat) : scratchName s!"anc_{k}" = true := by
  unfold scratchName; rw [ancLike_anc]; exact Bool.or_true _

theorem getFreeAncilla_ok {B : String → Prop} {a : Nat} {s s' : CState}
    (h : getFreeAncilla.run s = .ok (a, s')) (hg : Good s) :
    Step B s s' ∧ a < s'.qc.numQubits := by
  unfold getFreeAncilla at h
  simp only [run_bind_ok] at h
  obtain ⟨s0, s1, hget, h⟩ := h
  obtain ⟨e1, e2⟩ := run_get_ok.mp hget
  subst e2; subst e1
  split at h
  · exact (run_throw_ok.mp h).elim
  · next c rest hch =>
    simp only [run_bind_ok] at h
    obtain ⟨u, s1, hset, h⟩ := h
    have := run_set_ok.mp hset; subst this
    have hg1 : Good { s0 with choices := rest } := hg.of_eq rfl rfl rfl rfl rfl rfl rfl rfl
    split at h
    · simp only [run_bind_ok] at h
      obtain ⟨i, s2, hadd, u2, s3, hm, hif⟩ := h
      have hs4 : a = i ∧ s' = s3 := by
        split at hif
        · simp only [run_bind_ok, run_throw_ok] at hif
          obtain ⟨_, _, hf, _⟩ := hif
          exact hf.elim
        · exact run_pure_ok.mp hif
      obtain ⟨rfl, rfl⟩ := hs4
      obtain ⟨hst, hi, hilt, hanc, hnm⟩ := addQubit_ok (B := B) hadd hg1
        (Or.inr (reserved_of_scratch (scratch_anc _)))
      have := modQC_run hm; subst this
      have hg2 := hst.good
      refine ⟨⟨⟨hg2.gates_ok, hg2.comp_ok, hg2.qmap_lt, hg2.expq_lt, ?_, hg2.free_lt, hg2.marked_lt, ?_, ?_⟩,
        hst.nq_le, hst.inputs_eq, hst.keys_keep, hst.qmap_keep⟩, hilt⟩
      · intro x hx
        rcases mem_setIns hx with hx | rfl
        · exact hg2.anc_lt x hx
        · exact hilt
      · exact setIns_nodup hg2.anc_nodup
      · intro p hp hpa
        rcases mem_setIns hpa with hpa | hpa
        · exact hg2.anc_named p hp hpa
        · rw [hnm p hp hpa]; exact scratch_anc _
    · split at h
      · simp only [run_bind_ok, run_throw_ok] at h
        obtain ⟨_, _, hf, _⟩ := h
        exact hf.elim
      · next hc =>
        simp only [run_bind_ok] at h
        obtain ⟨u3, s3, hm, hp⟩ := h
        obtain ⟨rfl, rfl⟩ := run_pure_ok.mp hp
        have := modQC_run hm; subst this
        have hcf : a ∈ s0.qc.free := by simpa using hc
        refine ⟨Step.of_same ⟨hg.gates_ok, hg.comp_ok, hg.qmap_lt, hg.expq_lt, hg.anc_lt, ?_, hg.marked_lt,
          hg.anc_nodup, hg.anc_named⟩ rfl rfl rfl, hg.free_lt a hcf⟩
        exact fun x hx => hg.free_lt x (List.mem_of_mem_erase hx)

end QV.Compiler
