import QV.Model.Opt
/-!
# Helper lemmas for C04 (boolean optimizer)

`Kernel.Sound` is the spec assumed of sympy's constructors; `Good a b` = "a means what b means
and has no symbol b lacks".  Every transformer is shown `Good` against its input by mutual
induction over `BExp` / `List BExp`.
-/
namespace QV.Opt
open QV

/-- what is assumed of sympy's constructors: they keep the meaning and invent no symbol -/
structure Kernel.Sound (K : Kernel) : Prop where
  not_eval : ∀ ρ e, (K.mkNot e).eval ρ = !e.eval ρ
  and_eval : ∀ ρ l, (K.mkAnd l).eval ρ = evalAnd ρ l
  or_eval : ∀ ρ l, (K.mkOr l).eval ρ = evalOr ρ l
  xor_eval : ∀ ρ l, (K.mkXor l).eval ρ = evalXor ρ l
  ite_eval : ∀ ρ c t e, (K.mkIte c t e).eval ρ = if c.eval ρ then t.eval ρ else e.eval ρ
  imp_eval : ∀ ρ a b, (K.mkImp a b).eval ρ = (!a.eval ρ || b.eval ρ)
  not_syms : ∀ e s, s ∈ (K.mkNot e).syms → s ∈ e.syms
  and_syms : ∀ l s, s ∈ (K.mkAnd l).syms → s ∈ symsList l
  or_syms : ∀ l s, s ∈ (K.mkOr l).syms → s ∈ symsList l
  xor_syms : ∀ l s, s ∈ (K.mkXor l).syms → s ∈ symsList l
  ite_syms : ∀ c t e s, s ∈ (K.mkIte c t e).syms → s ∈ c.syms ++ t.syms ++ e.syms
  imp_syms : ∀ a b s, s ∈ (K.mkImp a b).syms → s ∈ a.syms ++ b.syms

theorem sympyNot_eval (ρ : Env) (e : BExp) : (sympyNot e).eval ρ = !e.eval ρ := by
  cases e <;> simp [sympyNot, BExp.eval]

theorem sympyNot_syms (e : BExp) (s : String) : s ∈ (sympyNot e).syms → s ∈ e.syms := by
  cases e <;> simp [sympyNot, BExp.syms]

theorem Kernel.raw_sound : Kernel.raw.Sound where
  not_eval := sympyNot_eval
  and_eval := by intros; simp [Kernel.raw, BExp.eval]
  or_eval := by intros; simp [Kernel.raw, BExp.eval]
  xor_eval := by intros; simp [Kernel.raw, BExp.eval]
  ite_eval := by intros; simp [Kernel.raw, BExp.eval]
  imp_eval := by intros; simp [Kernel.raw, BExp.eval]
  not_syms := sympyNot_syms
  and_syms := by intro l s h; simpa [Kernel.raw, BExp.syms] using h
  or_syms := by intro l s h; simpa [Kernel.raw, BExp.syms] using h
  xor_syms := by intro l s h; simpa [Kernel.raw, BExp.syms] using h
  ite_syms := by intro c t e s h; simpa [Kernel.raw, BExp.syms] using h
  imp_syms := by intro a b s h; simpa [Kernel.raw, BExp.syms] using h

/-! ## `Good` -/

/-- `a` means what `b` means and has no symbol that `b` lacks -/
def Good (a b : BExp) : Prop := (∀ ρ, a.eval ρ = b.eval ρ) ∧ (∀ s, s ∈ a.syms → s ∈ b.syms)

inductive GoodList : List BExp → List BExp → Prop
  | nil : GoodList [] []
  | cons {a b as bs} : Good a b → GoodList as bs → GoodList (a :: as) (b :: bs)

theorem Good.refl (a : BExp) : Good a a := ⟨fun _ => rfl, fun _ h => h⟩
theorem Good.trans {a b c : BExp} (h1 : Good a b) (h2 : Good b c) : Good a c :=
  ⟨fun ρ => (h1.1 ρ).trans (h2.1 ρ), fun s h => h2.2 s (h1.2 s h)⟩

theorem GoodList.refl : ∀ l, GoodList l l
  | [] => .nil
  | a :: as => .cons (Good.refl a) (GoodList.refl as)

theorem GoodList.evalAnd {as bs} (h : GoodList as bs) (ρ : Env) : evalAnd ρ as = evalAnd ρ bs := by
  induction h with
  | nil => rfl
  | cons h _ ih => simp [QV.evalAnd, h.1 ρ, ih]
theorem GoodList.evalOr {as bs} (h : GoodList as bs) (ρ : Env) : evalOr ρ as = evalOr ρ bs := by
  induction h with
  | nil => rfl
  | cons h _ ih => simp [QV.evalOr, h.1 ρ, ih]
theorem GoodList.evalXor {as bs} (h : GoodList as bs) (ρ : Env) : evalXor ρ as = evalXor ρ bs := by
  induction h with
  | nil => rfl
  | cons h _ ih => simp [QV.evalXor, h.1 ρ, ih]
theorem GoodList.syms {as bs} (h : GoodList as bs) (s : String) : s ∈ symsList as → s ∈ symsList bs := by
  induction h with
  | nil => exact id
  | cons h _ ih =>
      simp only [symsList, List.mem_append]
      rintro (h1 | h1)
      · exact Or.inl (h.2 s h1)
      · exact Or.inr (ih h1)

variable {K : Kernel}

theorem good_and (hK : K.Sound) {as bs} (h : GoodList as bs) : Good (K.mkAnd as) (.and bs) :=
  ⟨fun ρ => by rw [hK.and_eval, BExp.eval, h.evalAnd], fun s hs => by
    rw [BExp.syms]; exact h.syms s (hK.and_syms _ _ hs)⟩
theorem good_or (hK : K.Sound) {as bs} (h : GoodList as bs) : Good (K.mkOr as) (.or bs) :=
  ⟨fun ρ => by rw [hK.or_eval, BExp.eval, h.evalOr], fun s hs => by
    rw [BExp.syms]; exact h.syms s (hK.or_syms _ _ hs)⟩
theorem good_xor (hK : K.Sound) {as bs} (h : GoodList as bs) : Good (K.mkXor as) (.xor bs) :=
  ⟨fun ρ => by rw [hK.xor_eval, BExp.eval, h.evalXor], fun s hs => by
    rw [BExp.syms]; exact h.syms s (hK.xor_syms _ _ hs)⟩
theorem good_not (hK : K.Sound) {a b} (h : Good a b) : Good (K.mkNot a) (.not b) :=
  ⟨fun ρ => by rw [hK.not_eval, BExp.eval, h.1], fun s hs => by
    rw [BExp.syms]; exact h.2 s (hK.not_syms _ _ hs)⟩
theorem good_imp (hK : K.Sound) {a b a' b'} (h1 : Good a a') (h2 : Good b b') :
    Good (K.mkImp a b) (.imp a' b') :=
  ⟨fun ρ => by rw [hK.imp_eval, BExp.eval, h1.1, h2.1], fun s hs => by
    have := hK.imp_syms _ _ _ hs
    simp only [BExp.syms, List.mem_append] at this ⊢
    rcases this with h | h
    · exact Or.inl (h1.2 s h)
    · exact Or.inr (h2.2 s h)⟩
theorem good_ite (hK : K.Sound) {c t e c' t' e'} (h1 : Good c c') (h2 : Good t t') (h3 : Good e e') :
    Good (K.mkIte c t e) (.ite c' t' e') :=
  ⟨fun ρ => by rw [hK.ite_eval, BExp.eval, h1.1, h2.1, h3.1], fun s hs => by
    have := hK.ite_syms _ _ _ _ hs
    simp only [BExp.syms, List.mem_append] at this ⊢
    rcases this with (h | h) | h
    · exact Or.inl (Or.inl (h1.2 s h))
    · exact Or.inl (Or.inr (h2.2 s h))
    · exact Or.inr (h3.2 s h)⟩

/-- `Or(And(c,t), And(Not(c),e))` for `ITE(c,t,e)` -/
theorem good_ite_expand (hK : K.Sound) {c t e c' t' e'} (h1 : Good c' c) (h2 : Good t' t) (h3 : Good e' e) :
    Good (K.mkOr [K.mkAnd [c', t'], K.mkAnd [K.mkNot c', e']]) (.ite c t e) := by
  constructor
  · intro ρ
    simp only [hK.or_eval, hK.and_eval, hK.not_eval, evalOr, evalAnd, BExp.eval, h1.1, h2.1, h3.1]
    cases c.eval ρ <;> simp
  · intro s hs
    have h := hK.or_syms _ _ hs
    simp only [symsList, List.mem_append, List.append_nil] at h
    simp only [BExp.syms, List.mem_append]
    rcases h with h | h
    · have h := hK.and_syms _ _ h
      simp only [symsList, List.mem_append, List.append_nil] at h
      rcases h with h | h
      · exact Or.inl (Or.inl (h1.2 s h))
      · exact Or.inl (Or.inr (h2.2 s h))
    · have h := hK.and_syms _ _ h
      simp only [symsList, List.mem_append, List.append_nil] at h
      rcases h with h | h
      · exact Or.inl (Or.inl (h1.2 s (hK.not_syms _ _ h)))
      · exact Or.inr (h3.2 s h)

/-- `Or(Not(a), b)` for `Implies(a,b)` -/
theorem good_imp_expand (hK : K.Sound) {a b a' b'} (h1 : Good a' a) (h2 : Good b' b) :
    Good (K.mkOr [K.mkNot a', b']) (.imp a b) := by
  constructor
  · intro ρ
    simp only [hK.or_eval, hK.not_eval, evalOr, BExp.eval, h1.1, h2.1]
    simp
  · intro s hs
    have h := hK.or_syms _ _ hs
    simp only [symsList, List.mem_append, List.append_nil] at h
    simp only [BExp.syms, List.mem_append]
    rcases h with h | h
    · exact Or.inl (h1.2 s (hK.not_syms _ _ h))
    · exact Or.inr (h2.2 s h)

/-! ## the plain traversal -/
mutual
theorem rebuild_good (hK : K.Sound) : ∀ e, Good (rebuild K e) e
  | .and l => by unfold rebuild; exact good_and hK (rebuildList_good hK l)
  | .or l => by unfold rebuild; exact good_or hK (rebuildList_good hK l)
  | .xor l => by unfold rebuild; exact good_xor hK (rebuildList_good hK l)
  | .not e => by unfold rebuild; exact good_not hK (rebuild_good hK e)
  | .imp a b => by unfold rebuild; exact good_imp hK (rebuild_good hK a) (rebuild_good hK b)
  | .ite c t e => by
      unfold rebuild; exact good_ite hK (rebuild_good hK c) (rebuild_good hK t) (rebuild_good hK e)
  | .tt => by unfold rebuild; exact Good.refl _
  | .ff => by unfold rebuild; exact Good.refl _
  | .sym n => by unfold rebuild; exact Good.refl _
theorem rebuildList_good (hK : K.Sound) : ∀ l, GoodList (rebuildList K l) l
  | [] => by unfold rebuildList; exact .nil
  | e :: es => by unfold rebuildList; exact .cons (rebuild_good hK e) (rebuildList_good hK es)
end

/-! ## remove_ITE, remove_Implies -/
mutual
theorem removeITE_good (hK : K.Sound) : ∀ e, Good (removeITE K e) e
  | .ite c t e => by
      unfold removeITE
      exact (rebuild_good hK _).trans
        (good_ite_expand hK (removeITE_good hK c) (removeITE_good hK t) (removeITE_good hK e))
  | .and l => by unfold removeITE; exact good_and hK (removeITEList_good hK l)
  | .or l => by unfold removeITE; exact good_or hK (removeITEList_good hK l)
  | .xor l => by unfold removeITE; exact good_xor hK (removeITEList_good hK l)
  | .not e => by unfold removeITE; exact good_not hK (removeITE_good hK e)
  | .imp a b => by unfold removeITE; exact good_imp hK (removeITE_good hK a) (removeITE_good hK b)
  | .tt => by unfold removeITE; exact Good.refl _
  | .ff => by unfold removeITE; exact Good.refl _
  | .sym n => by unfold removeITE; exact Good.refl _
theorem removeITEList_good (hK : K.Sound) : ∀ l, GoodList (removeITEList K l) l
  | [] => by unfold removeITEList; exact .nil
  | e :: es => by unfold removeITEList; exact .cons (removeITE_good hK e) (removeITEList_good hK es)
end

mutual
theorem removeImplies_good (hK : K.Sound) : ∀ e, Good (removeImplies K e) e
  | .imp a b => by
      unfold removeImplies
      exact (rebuild_good hK _).trans
        (good_imp_expand hK (removeImplies_good hK a) (removeImplies_good hK b))
  | .and l => by unfold removeImplies; exact good_and hK (removeImpliesList_good hK l)
  | .or l => by unfold removeImplies; exact good_or hK (removeImpliesList_good hK l)
  | .xor l => by unfold removeImplies; exact good_xor hK (removeImpliesList_good hK l)
  | .not e => by unfold removeImplies; exact good_not hK (removeImplies_good hK e)
  | .ite c t e => by
      unfold removeImplies
      exact good_ite hK (removeImplies_good hK c) (removeImplies_good hK t) (removeImplies_good hK e)
  | .tt => by unfold removeImplies; exact Good.refl _
  | .ff => by unfold removeImplies; exact Good.refl _
  | .sym n => by unfold removeImplies; exact Good.refl _
theorem removeImpliesList_good (hK : K.Sound) : ∀ l, GoodList (removeImpliesList K l) l
  | [] => by unfold removeImpliesList; exact .nil
  | e :: es => by
      unfold removeImpliesList; exact .cons (removeImplies_good hK e) (removeImpliesList_good hK es)
end

/-! ## structural equality is equality -/
mutual
theorem beq_eq : ∀ a b : BExp, BExp.beq a b = true → a = b
  | .tt, b => by cases b <;> simp [BExp.beq]
  | .ff, b => by cases b <;> simp [BExp.beq]
  | .sym n, b => by cases b <;> simp [BExp.beq]
  | .not a, b => by cases b <;> simp [BExp.beq] <;> exact beq_eq a _
  | .and l, b => by cases b <;> simp [BExp.beq] <;> exact beqList_eq l _
  | .or l, b => by cases b <;> simp [BExp.beq] <;> exact beqList_eq l _
  | .xor l, b => by cases b <;> simp [BExp.beq] <;> exact beqList_eq l _
  | .ite c t e, b => by
      cases b <;> simp [BExp.beq]
      intro h1 h2 h3
      exact ⟨beq_eq c _ h1, beq_eq t _ h2, beq_eq e _ h3⟩
  | .imp x y, b => by
      cases b <;> simp [BExp.beq]
      intro h1 h2
      exact ⟨beq_eq x _ h1, beq_eq y _ h2⟩
theorem beqList_eq : ∀ a b : List BExp, BExp.beqList a b = true → a = b
  | [], b => by cases b <;> simp [BExp.beqList]
  | x :: xs, b => by
      cases b <;> simp [BExp.beqList]
      intro h1 h2
      exact ⟨beq_eq x _ h1, beqList_eq xs _ h2⟩
end

theorem eq_of_beq' {a b : BExp} (h : (a == b) = true) : a = b := beq_eq a b h

/-! ## transform_or2xor -/
theorem or2xorCond_sound (hK : K.Sound) {q : Quirks} {a0 a1 b0 b1 : BExp} {n0 n1 : Nat}
    (hq : q.or2xorNoArity = false) (h : or2xorCond K q a0 a1 b0 b1 n0 n1 = true) :
    n0 = 2 ∧ n1 = 2 ∧ (∀ ρ, b0.eval ρ = !a0.eval ρ) ∧ (∀ ρ, b1.eval ρ = !a1.eval ρ) := by
  simp only [or2xorCond, hq, Bool.false_or, Bool.and_eq_true, Bool.or_eq_true, beq_iff_eq] at h
  obtain ⟨⟨h0, h1⟩, h2⟩ := h
  refine ⟨h0, h1, ?_⟩
  rcases h2 with ⟨e0, e1⟩ | ⟨e0, e1⟩
  · have e0 := eq_of_beq' e0; have e1 := eq_of_beq' e1
    subst e0; subst e1
    exact ⟨fun ρ => hK.not_eval ρ _, fun ρ => hK.not_eval ρ _⟩
  · have e0 := eq_of_beq' e0; have e1 := eq_of_beq' e1
    subst e0; subst e1
    exact ⟨fun ρ => by rw [hK.not_eval]; simp, fun ρ => by rw [hK.not_eval]; simp⟩

theorem good_xnor (hK : K.Sound) {a0 a1 b0 b1 a0' a1' : BExp}
    (h0 : Good a0' a0) (h1 : Good a1' a1)
    (e0 : ∀ ρ, b0.eval ρ = !a0.eval ρ) (e1 : ∀ ρ, b1.eval ρ = !a1.eval ρ) :
    Good (K.mkNot (K.mkXor [a0', a1'])) (.or [.and [a0, a1], .and [b0, b1]]) := by
  constructor
  · intro ρ
    simp only [hK.not_eval, hK.xor_eval, evalXor, evalOr, evalAnd, BExp.eval, h0.1, h1.1, e0, e1]
    cases a0.eval ρ <;> cases a1.eval ρ <;> rfl
  · intro s hs
    have h := hK.xor_syms _ _ (hK.not_syms _ _ hs)
    simp only [symsList, List.mem_append, List.append_nil] at h
    simp only [BExp.syms, symsList, List.mem_append, List.append_nil]
    rcases h with h | h
    · exact Or.inl (Or.inl (h0.2 s h))
    · exact Or.inl (Or.inr (h1.2 s h))

mutual
theorem or2xor_good (hK : K.Sound) {q : Quirks} (hq : q.or2xorNoArity = false) :
    ∀ e, Good (or2xor K q e) e
  | .or l => by unfold or2xor; exact or2xorOr_good hK hq l
  | .and l => by unfold or2xor; exact good_and hK (or2xorList_good hK hq l)
  | .xor l => by unfold or2xor; exact good_xor hK (or2xorList_good hK hq l)
  | .not e => by unfold or2xor; exact good_not hK (or2xor_good hK hq e)
  | .imp a b => by unfold or2xor; exact good_imp hK (or2xor_good hK hq a) (or2xor_good hK hq b)
  | .ite c t e => by
      unfold or2xor
      exact good_ite hK (or2xor_good hK hq c) (or2xor_good hK hq t) (or2xor_good hK hq e)
  | .tt => by unfold or2xor; exact Good.refl _
  | .ff => by unfold or2xor; exact Good.refl _
  | .sym n => by unfold or2xor; exact Good.refl _
termination_by e => (sizeOf e, 0)
theorem or2xorOr_good (hK : K.Sound) {q : Quirks} (hq : q.or2xorNoArity = false) (l : List BExp) :
    Good (or2xorOr K q l) (.or l) := by
  unfold or2xorOr
  split
  next a0 a1 r0 b0 b1 r1 =>
    split
    next hc =>
      obtain ⟨hn0, hn1, e0, e1⟩ := or2xorCond_sound hK hq hc
      have hr0 : r0 = [] := List.eq_nil_of_length_eq_zero (by omega)
      have hr1 : r1 = [] := List.eq_nil_of_length_eq_zero (by omega)
      subst hr0; subst hr1
      exact good_xnor hK (or2xor_good hK hq a0) (or2xor_good hK hq a1) e0 e1
    next =>
      refine good_or hK (.cons (good_and hK (.cons (or2xor_good hK hq a0) (.cons (or2xor_good hK hq a1)
        (or2xorList_good hK hq r0)))) (.cons (good_and hK (.cons (or2xor_good hK hq b0)
        (.cons (or2xor_good hK hq b1) (or2xorList_good hK hq r1)))) .nil))
  next => exact good_or hK (or2xorList_good hK hq l)
termination_by (sizeOf l, 1)
theorem or2xorList_good (hK : K.Sound) {q : Quirks} (hq : q.or2xorNoArity = false) :
    ∀ l, GoodList (or2xorList K q l) l
  | [] => by unfold or2xorList; exact .nil
  | e :: es => by
      unfold or2xorList; exact .cons (or2xor_good hK hq e) (or2xorList_good hK hq es)
termination_by l => (sizeOf l, 0)
end

/-- on an input where the arity-blind test does not fire differently, the quirk changes nothing -/
theorem or2xorCond_quirk_irrelevant {q : Quirks} {a0 a1 b0 b1 : BExp} :
    or2xorCond K q a0 a1 b0 b1 2 2 = or2xorCond K { q with or2xorNoArity := false } a0 a1 b0 b1 2 2 := by
  simp [or2xorCond]

/-! ## transform_or2and -/
mutual
theorem or2and_good (hK : K.Sound) (d : Bool) : ∀ e, Good (or2and K d e) e
  | .or l => by
      unfold or2and
      split
      · constructor
        · intro ρ
          rw [hK.not_eval, hK.and_eval, BExp.eval]
          exact (or2andNotList_good hK d l).1 ρ
        · intro s hs
          rw [BExp.syms]
          exact (or2andNotList_good hK d l).2 s (hK.and_syms _ _ (hK.not_syms _ _ hs))
      · exact Good.refl _
  | .and l => by unfold or2and; exact good_and hK (or2andList_good hK d l)
  | .xor l => by unfold or2and; exact good_xor hK (or2andList_good hK d l)
  | .not e => by unfold or2and; exact good_not hK (or2and_good hK d e)
  | .imp a b => by unfold or2and; exact good_imp hK (or2and_good hK d a) (or2and_good hK d b)
  | .ite c t e => by
      unfold or2and
      exact good_ite hK (or2and_good hK d c) (or2and_good hK d t) (or2and_good hK d e)
  | .tt => by unfold or2and; exact Good.refl _
  | .ff => by unfold or2and; exact Good.refl _
  | .sym n => by unfold or2and; exact Good.refl _
theorem or2andList_good (hK : K.Sound) (d : Bool) : ∀ l, GoodList (or2andList K d l) l
  | [] => by unfold or2andList; exact .nil
  | e :: es => by unfold or2andList; exact .cons (or2and_good hK d e) (or2andList_good hK d es)
/-- De Morgan on the list of negated visited arguments -/
theorem or2andNotList_good (hK : K.Sound) (d : Bool) : ∀ l,
    (∀ ρ, (!evalAnd ρ (or2andNotList K d l)) = evalOr ρ l) ∧
    (∀ s, s ∈ symsList (or2andNotList K d l) → s ∈ symsList l)
  | [] => by unfold or2andNotList; simp [evalAnd, evalOr]
  | e :: es => by
      unfold or2andNotList
      have h1 := or2and_good hK d e
      have h2 := or2andNotList_good hK d es
      constructor
      · intro ρ
        simp only [evalAnd, evalOr, hK.not_eval, h1.1, ← h2.1 ρ]
        cases e.eval ρ <;> simp
      · intro s
        simp only [symsList, List.mem_append]
        rintro (h | h)
        · exact Or.inl (h1.2 s (hK.not_syms _ _ h))
        · exact Or.inr (h2.2 s h)
end

/-! ## remove_obvious_expr -/
theorem symAndItsNot_sound {x y : BExp} (h : symAndItsNot x y = true) (ρ : Env) :
    y.eval ρ = !x.eval ρ := by
  unfold symAndItsNot at h
  split at h
  · simp only [beq_iff_eq] at h; subst h; simp [BExp.eval]
  · exact absurd h (by simp)

theorem obviousPair_sound {l : List BExp} (h : obviousPair l = true) (ρ : Env) :
    evalAnd ρ l = false ∧ evalOr ρ l = true := by
  unfold obviousPair at h
  split at h
  next x y =>
    simp only [Bool.or_eq_true] at h
    simp only [evalAnd, evalOr]
    rcases h with h | h
    · rw [symAndItsNot_sound h ρ]; cases x.eval ρ <;> simp
    · rw [symAndItsNot_sound h ρ]; cases y.eval ρ <;> simp
  · exact absurd h (by simp)

mutual
theorem removeObvious_good (hK : K.Sound) : ∀ e, Good (removeObvious K e) e
  | .not (.not e) => by
      unfold removeObvious
      exact ⟨fun ρ => by simp [BExp.eval], fun s h => by simpa [BExp.syms] using h⟩
  | .not (.tt) => by unfold removeObvious; exact Good.refl _
  | .not (.ff) => by unfold removeObvious; exact Good.refl _
  | .not (.sym _) => by unfold removeObvious; exact Good.refl _
  | .not (.and _) => by unfold removeObvious; exact Good.refl _
  | .not (.or _) => by unfold removeObvious; exact Good.refl _
  | .not (.xor _) => by unfold removeObvious; exact Good.refl _
  | .not (.ite _ _ _) => by unfold removeObvious; exact Good.refl _
  | .not (.imp _ _) => by unfold removeObvious; exact Good.refl _
  | .and l => by
      unfold removeObvious
      split
      next h => exact ⟨fun ρ => by simp [BExp.eval, (obviousPair_sound h ρ).1], fun s h => by simp [BExp.syms] at h⟩
      next => exact Good.refl _
  | .or l => by
      unfold removeObvious
      split
      next h => exact ⟨fun ρ => by simp [BExp.eval, (obviousPair_sound h ρ).2], fun s h => by simp [BExp.syms] at h⟩
      next => exact Good.refl _
  | .xor l => by unfold removeObvious; exact good_xor hK (removeObviousList_good hK l)
  | .imp a b => by
      unfold removeObvious; exact good_imp hK (removeObvious_good hK a) (removeObvious_good hK b)
  | .ite c t e => by
      unfold removeObvious
      exact good_ite hK (removeObvious_good hK c) (removeObvious_good hK t) (removeObvious_good hK e)
  | .tt => by unfold removeObvious; exact Good.refl _
  | .ff => by unfold removeObvious; exact Good.refl _
  | .sym n => by unfold removeObvious; exact Good.refl _
theorem removeObviousList_good (hK : K.Sound) : ∀ l, GoodList (removeObviousList K l) l
  | [] => by unfold removeObviousList; exact .nil
  | e :: es => by
      unfold removeObviousList; exact .cons (removeObvious_good hK e) (removeObviousList_good hK es)
end

/-! ## custom_simplify_logic -/

/-- what is assumed of `simplify_logic` -/
def SimpSound (simp : BExp → BExp) : Prop := ∀ e, Good (simp e) e

mutual
theorem csl_good (hK : K.Sound) {simp : BExp → BExp} (hS : SimpSound simp) : ∀ e, Good (csl K simp e) e
  | .xor l => by unfold csl; exact Good.refl _
  | .and l => by unfold csl; exact good_and hK (cslList_good hK hS l)
  | .or l => by unfold csl; exact good_or hK (cslList_good hK hS l)
  | .not e => by unfold csl; exact good_not hK (csl_good hK hS e)
  | .imp a b => by unfold csl; exact hS _
  | .ite c t e => by unfold csl; exact hS _
  | .tt => by unfold csl; exact hS _
  | .ff => by unfold csl; exact hS _
  | .sym n => by unfold csl; exact hS _
theorem cslList_good (hK : K.Sound) {simp : BExp → BExp} (hS : SimpSound simp) :
    ∀ l, GoodList (cslList K simp l) l
  | [] => by unfold cslList; exact .nil
  | e :: es => by unfold cslList; exact .cons (csl_good hK hS e) (cslList_good hK hS es)
end

end QV.Opt
