import QV.Model.Opt
/-!
# Helper lemmas for C04 (boolean optimizer)

`Kernel.Sound` is the spec assumed of sympy's constructors; `Good a b` = "a means what b means
and has no symbol b lacks".  Every transformer is shown `Good` against its input by mutual
induction over `BExp` / `List BExp`.
-/
namespace QV.Opt
open QV

/-- what is assumed of sympy's constructors: they keep the meaning and invent no symbol -/
structure Kernel.Sound (K : Kernel) : Prop where
  not_eval : ∀ ρ e, (K.mkNot e).eval ρ = !e.eval ρ
  and_eval : ∀ ρ l, (K.mkAnd l).eval ρ = evalAnd ρ l
  or_eval : ∀ ρ l, (K.mkOr l).eval ρ = evalOr ρ l
  xor_eval : ∀ ρ l, (K.mkXor l).eval ρ = evalXor ρ l
  ite_eval : ∀ ρ c t e, (K.mkIte c t e).eval ρ = if c.eval ρ then t.eval ρ else e.eval ρ
  imp_eval : ∀ ρ a b, (K.mkImp a b).eval ρ = (!a.eval ρ || b.eval ρ)
  not_syms : ∀ e s, s ∈ (K.mkNot e).syms → s ∈ e.syms
  and_syms : ∀ l s, s ∈ (K.mkAnd l).syms → s ∈ symsList l
  or_syms : ∀ l s, s ∈ (K.mkOr l).syms → s ∈ symsList l
  xor_syms : ∀ l s, s ∈ (K.mkXor l).syms → s ∈ symsList l
  ite_syms : ∀ c t e s, s ∈ (K.mkIte c t e).syms → s ∈ c.syms ++ t.syms ++ e.syms
  imp_syms : ∀ a b s, s ∈ (K.mkImp a b).syms → s ∈ a.syms ++ b.syms

theorem sympyNot_eval (ρ : Env) (e : BExp) : (sympyNot e).eval ρ = !e.eval ρ := by
  cases e <;> simp [sympyNot, BExp.eval]

theorem sympyNot_syms (e : BExp) (s : String) : s ∈ (sympyNot e).syms → s ∈ e.syms := by
  cases e <;> simp [sympyNot, BExp.syms]

theorem Kernel.raw_sound : Kernel.raw.Sound where
  not_eval := sympyNot_eval
  and_eval := by intros; simp [Kernel.raw, BExp.eval]
  or_eval := by intros; simp [Kernel.raw, BExp.eval]
  xor_eval := by intros; simp [Kernel.raw, BExp.eval]
  ite_eval := by intros; simp [Kernel.raw, BExp.eval]
  imp_eval := by intros; simp [Kernel.raw, BExp.eval]
  not_syms := sympyNot_syms
  and_syms := by intro l s h; simpa [Kernel.raw, BExp.syms] using h
  or_syms := by intro l s h; simpa [Kernel.raw, BExp.syms] using h
  xor_syms := by intro l s h; simpa [Kernel.raw, BExp.syms] using h
  ite_syms := by intro c t e s h; simpa [Kernel.raw, BExp.syms] using h
  imp_syms := by intro a b s h; simpa [Kernel.raw, BExp.syms] using h

/-! ## `Good` -/

/-- `a` means what `b` means and has no symbol that `b` lacks -/
def Good (a b : BExp) : Prop := (∀ ρ, a.eval ρ = b.eval ρ) ∧ (∀ s, s ∈ a.syms → s ∈ b.syms)

inductive GoodList : List BExp → List BExp → Prop
  | nil : GoodList [] []
  | cons {a b as bs} : Good a b → GoodList as bs → GoodList (a :: as) (b :: bs)

theorem Good.refl (a : BExp) : Good a a := ⟨fun _ => rfl, fun _ h => h⟩
theorem Good.trans {a b c : BExp} (h1 : Good a b) (h2 : Good b c) : Good a c :=
  ⟨fun ρ => (h1.1 ρ).trans (h2.1 ρ), fun s h => h2.2 s (h1.2 s h)⟩

theorem GoodList.refl : ∀ l, GoodList l l
  | [] => .nil
  | a :: as => .cons (Good.refl a) (GoodList.refl as)

theorem GoodList.evalAnd {as bs} (h : GoodList as bs) (ρ : Env) : evalAnd ρ as = evalAnd ρ bs := by
  induction h with
  | nil => rfl
  | cons h _ ih => simp [QV.evalAnd, h.1 ρ, ih]
theorem GoodList.evalOr {as bs} (h : GoodList as bs) (ρ : Env) : evalOr ρ as = evalOr ρ bs := by
  induction h with
  | nil => rfl
  | cons h _ ih => simp [QV.evalOr, h.1 ρ, ih]
theorem GoodList.evalXor {as bs} (h : GoodList as bs) (ρ : Env) : evalXor ρ as = evalXor ρ bs := by
  induction h with
  | nil => rfl
  | cons h _ ih => simp [QV.evalXor, h.1 ρ, ih]
theorem GoodList.syms {as bs} (h : GoodList as bs) (s : String) : s ∈ symsList as → s ∈ symsList bs := by
  induction h with
  | nil => exact id
  | cons h _ ih =>
      simp only [symsList, List.mem_append]
      rintro (h1 | h1)
      · exact Or.inl (h.2 s h1)
      · exact Or.inr (ih h1)

variable {K : Kernel}

theorem good_and (hK : K.Sound) {as bs} (h : GoodList as bs) : Good (K.mkAnd as) (.and bs) :=
  ⟨fun ρ => by rw [hK.and_eval, BExp.eval, h.evalAnd], fun s hs => by
    rw [BExp.syms]; exact h.syms s (hK.and_syms _ _ hs)⟩
theorem good_or (hK : K.Sound) {as bs} (h : GoodList as bs) : Good (K.mkOr as) (.or bs) :=
  ⟨fun ρ => by rw [hK.or_eval, BExp.eval, h.evalOr], fun s hs => by
    rw [BExp.syms]; exact h.syms s (hK.or_syms _ _ hs)⟩
theorem good_xor (hK : K.Sound) {as bs} (h : GoodList as bs) : Good (K.mkXor as) (.xor bs) :=
  ⟨fun ρ => by rw [hK.xor_eval, BExp.eval, h.evalXor], fun s hs => by
    rw [BExp.syms]; exact h.syms s (hK.xor_syms _ _ hs)⟩
theorem good_not (hK : K.Sound) {a b} (h : Good a b) : Good (K.mkNot a) (.not b) :=
  ⟨fun ρ => by rw [hK.not_eval, BExp.eval, h.1], fun s hs => by
    rw [BExp.syms]; exact h.2 s (hK.not_syms _ _ hs)⟩
theorem good_imp (hK : K.Sound) {a b a' b'} (h1 : Good a a') (h2 : Good b b') :
    Good (K.mkImp a b) (.imp a' b') :=
  ⟨fun ρ => by rw [hK.imp_eval, BExp.eval, h1.1, h2.1], fun s hs => by
    have := hK.imp_syms _ _ _ hs
    simp only [BExp.syms, List.mem_append] at this ⊢
    rcases this with h | h
    · exact Or.inl (h1.2 s h)
    · exact Or.inr (h2.2 s h)⟩
theorem good_ite (hK : K.Sound) {c t e c' t' e'} (h1 : Good c c') (h2 : Good t t') (h3 : Good e e') :
    Good (K.mkIte c t e) (.ite c' t' e') :=
  ⟨fun ρ => by rw [hK.ite_eval, BExp.eval, h1.1, h2.1, h3.1], fun s hs => by
    have := hK.ite_syms _ _ _ _ hs
    simp only [BExp.syms, List.mem_append] at this ⊢
    rcases this with (h | h) | h
    · exact Or.inl (Or.inl (h1.2 s h))
    · exact Or.inl (Or.inr (h2.2 s h))
    · exact Or.inr (h3.2 s h)⟩

/-- `Or(And(c,t), And(Not(c),e))` for `ITE(c,t,e)` -/
theorem good_ite_expand (hK : K.Sound) {c t e c' t' e'} (h1 : Good c' c) (h2 : Good t' t) (h3 : Good e' e) :
    Good (K.mkOr [K.mkAnd [c', t'], K.mkAnd [K.mkNot c', e']]) (.ite c t e) := by
  constructor
  · intro ρ
    simp only [hK.or_eval, hK.and_eval, hK.not_eval, evalOr, evalAnd, BExp.eval, h1.1, h2.1, h3.1]
    cases c.eval ρ <;> simp
  · intro s hs
    have h := hK.or_syms _ _ hs
    simp only [symsList, List.mem_append, List.append_nil] at h
    simp only [BExp.syms, List.mem_append]
    rcases h with h | h
    · have h := hK.and_syms _ _ h
      simp only [symsList, List.mem_append, List.append_nil] at h
      rcases h with h | h
      · exact Or.inl (Or.inl (h1.2 s h))
      · exact Or.inl (Or.inr (h2.2 s h))
    · have h := hK.and_syms _ _ h
      simp only [symsList, List.mem_append, List.append_nil] at h
      rcases h with h | h
      · exact Or.inl (Or.inl (h1.2 s (hK.not_syms _ _ h)))
      · exact Or.inr (h3.2 s h)

/-- `Or(Not(a), b)` for `Implies(a,b)` -/
theorem good_imp_expand (hK : K.Sound) {a b a' b'} (h1 : Good a' a) (h2 : Good b' b) :
    Good (K.mkOr [K.mkNot a', b']) (.imp a b) := by
  constructor
  · intro ρ
    simp only [hK.or_eval, hK.not_eval, evalOr, BExp.eval, h1.1, h2.1]
    simp
  · intro s hs
    have h := hK.or_syms _ _ hs
    simp only [symsList, List.mem_append, List.append_nil] at h
    simp only [BExp.syms, List.mem_append]
    rcases h with h | h
    · exact Or.inl (h1.2 s (hK.not_syms _ _ h))
    · exact Or.inr (h2.2 s h)

/-! ## the plain traversal -/
mutual
theorem rebuild_good (hK : K.Sound) : ∀ e, Good (rebuild K e) e
  | .and l => by unfold rebuild; exact good_and hK (rebuildList_good hK l)
  | .or l => by unfold rebuild; exact good_or hK (rebuildList_good hK l)
  | .xor l => by unfold rebuild; exact good_xor hK (rebuildList_good hK l)
  | .not e => by unfold rebuild; exact good_not hK (rebuild_good hK e)
  | .imp a b => by unfold rebuild; exact good_imp hK (rebuild_good hK a) (rebuild_good hK b)
  | .ite c t e => by
      unfold rebuild; exact good_ite hK (rebuild_good hK c) (rebuild_good hK t) (rebuild_good hK e)
  | .tt => by unfold rebuild; exact Good.refl _
  | .ff => by unfold rebuild; exact Good.refl _
  | .sym n => by unfold rebuild; exact Good.refl _
theorem rebuildList_good (hK : K.Sound) : ∀ l, GoodList (rebuildList K l) l
  | [] => by unfold rebuildList; exact .nil
  | e :: es => by unfold rebuildList; exact .cons (rebuild_good hK e) (rebuildList_good hK es)
end

/-! ## remove_ITE, remove_Implies -/
mutual
theorem removeITE_good (hK : K.Sound) : ∀ e, Good (removeITE K e) e
  | .ite c t e => by
      unfold removeITE
      exact (rebuild_good hK _).trans
        (good_ite_expand hK (removeITE_good hK c) (removeITE_good hK t) (removeITE_good hK e))
  | .and l => by unfold removeITE; exact good_and hK (removeITEList_good hK l)
  | .or l => by unfold removeITE; exact good_or hK (removeITEList_good hK l)
  | .xor l => by unfold removeITE; exact good_xor hK (removeITEList_good hK l)
  | .not e => by unfold removeITE; exact good_not hK (removeITE_good hK e)
  | .imp a b => by unfold removeITE; exact good_imp hK (removeITE_good hK a) (removeITE_good hK b)
  | .tt => by unfold removeITE; exact Good.refl _
  | .ff => by unfold removeITE; exact Good.refl _
  | .sym n => by unfold removeITE; exact Good.refl _
theorem removeITEList_good (hK : K.Sound) : ∀ l, GoodList (removeITEList K l) l
  | [] => by unfold removeITEList; exact .nil
  | e :: es => by unfold removeITEList; exact .cons (removeITE_good hK e) (removeITEList_good hK es)
end

mutual
theorem removeImplies_good (hK : K.Sound) : ∀ e, Good (removeImplies K e) e
  | .imp a b => by
      unfold removeImplies
      exact (rebuild_good hK _).trans
        (good_imp_expand hK (removeImplies_good hK a) (removeImplies_good hK b))
  | .and l => by unfold removeImplies; exact good_and hK (removeImpliesList_good hK l)
  | .or l => by unfold removeImplies; exact good_or hK (removeImpliesList_good hK l)
  | .xor l => by unfold removeImplies; exact good_xor hK (removeImpliesList_good hK l)
  | .not e => by unfold removeImplies; exact good_not hK (removeImplies_good hK e)
  | .ite c t e => by
      unfold removeImplies
      exact good_ite hK (removeImplies_good hK c) (removeImplies_good hK t) (removeImplies_good hK e)
  | .tt => by unfold removeImplies; exact Good.refl _
  | .ff => by unfold removeImplies; exact Good.refl _
  | .sym n => by unfold removeImplies; exact Good.refl _
theorem removeImpliesList_good (hK : K.Sound) : ∀ l, GoodList (removeImpliesList K l) l
  | [] => by unfold removeImpliesList; exact .nil
  | e :: es => by
      unfold removeImpliesList; exact .cons (removeImplies_good hK e) (removeImpliesList_good hK es)
end

/-! ## structural equality is equality -/
mutual
theorem beq_eq : ∀ a b : BExp, BExp.beq a b = true → a = b
  | .tt, b => by cases b <;> simp [BExp.beq]
  | .ff, b => by cases b <;> simp [BExp.beq]
  | .sym n, b => by cases b <;> simp [BExp.beq]
  | .not a, b => by cases b <;> simp [BExp.beq] <;> exact beq_eq a _
  | .and l, b => by cases b <;> simp [BExp.beq] <;> exact beqList_eq l _
  | .or l, b => by cases b <;> simp [BExp.beq] <;> exact beqList_eq l _
  | .xor l, b => by cases b <;> simp [BExp.beq] <;> exact beqList_eq l _
  | .ite c t e, b => by
      cases b <;> simp [BExp.beq]
      intro h1 h2 h3
      exact ⟨beq_eq c _ h1, beq_eq t _ h2, beq_eq e _ h3⟩
  | .imp x y, b => by
      cases b <;> simp [BExp.beq]
      intro h1 h2
      exact ⟨beq_eq x _ h1, beq_eq y _ h2⟩
theorem beqList_eq : ∀ a b : List BExp, BExp.beqList a b = true → a = b
  | [], b => by cases b <;> simp [BExp.beqList]
  | x :: xs, b => by
      cases b <;> simp [BExp.beqList]
      intro h1 h2
      exact ⟨beq_eq x _ h1, beqList_eq xs _ h2⟩
end

theorem eq_of_beq' {a b : BExp} (h : (a == b) = true) : a = b := beq_eq a b h

/-! ## transform_or2xor -/
theorem or2xorCond_sound (hK : K.Sound) {q : Quirks} {a0 a1 b0 b1 : BExp} {n0 n1 : Nat}
    (hq : q.or2xorNoArity = false) (h : or2xorCond K q a0 a1 b0 b1 n0 n1 = true) :
    n0 = 2 ∧ n1 = 2 ∧ (∀ ρ, b0.eval ρ = !a0.eval ρ) ∧ (∀ ρ, b1.eval ρ = !a1.eval ρ) := by
  simp only [or2xorCond, hq, Bool.false_or, Bool.and_eq_true, Bool.or_eq_true, beq_iff_eq] at h
  obtain ⟨⟨h0, h1⟩, h2⟩ := h
  refine ⟨h0, h1, ?_⟩
  rcases h2 with ⟨e0, e1⟩ | ⟨e0, e1⟩
  · have e0 := eq_of_beq' e0; have e1 := eq_of_beq' e1
    subst e0; subst e1
    exact ⟨fun ρ => hK.not_eval ρ _, fun ρ => hK.not_eval ρ _⟩
  · have e0 := eq_of_beq' e0; have e1 := eq_of_beq' e1
    subst e0; subst e1
    exact ⟨fun ρ => by rw [hK.not_eval]; simp, fun ρ => by rw [hK.not_eval]; simp⟩

theorem good_xnor (hK : K.Sound) {a0 a1 b0 b1 a0' a1' : BExp}
    (h0 : Good a0' a0) (h1 : Good a1' a1)
    (e0 : ∀ ρ, b0.eval ρ = !a0.eval ρ) (e1 : ∀ ρ, b1.eval ρ = !a1.eval ρ) :
    Good (K.mkNot (K.mkXor [a0', a1'])) (.or [.and [a0, a1], .and [b0, b1]]) := by
  constructor
  · intro ρ
    simp only [hK.not_eval, hK.xor_eval, evalXor, evalOr, evalAnd, BExp.eval, h0.1, h1.1, e0, e1]
    cases a0.eval ρ <;> cases a1.eval ρ <;> rfl
  · intro s hs
    have h := hK.xor_syms _ _ (hK.not_syms _ _ hs)
    simp only [symsList, List.mem_append, List.append_nil] at h
    simp only [BExp.syms, symsList, List.mem_append, List.append_nil]
    rcases h with h | h
    · exact Or.inl (Or.inl (h0.2 s h))
    · exact Or.inl (Or.inr (h1.2 s h))

/-- visited arguments of the `And` disjuncts -/
inductive KidsRel : List (List BExp) → List BExp → Prop
  | nil : KidsRel [] []
  | cons {k ks e es} : (∀ m, e = .and m → GoodList k m) → KidsRel ks es → KidsRel (k :: ks) (e :: es)

theorem or2xorTest_shape {q : Quirks} {l : List BExp} (h : or2xorTest K q l = true) :
    ∃ a0 a1 r0 b0 b1 r1, l = [.and (a0 :: a1 :: r0), .and (b0 :: b1 :: r1)] ∧
      or2xorCond K q a0 a1 b0 b1 (r0.length + 2) (r1.length + 2) = true := by
  unfold or2xorTest at h
  split at h
  next a0 a1 r0 b0 b1 r1 => exact ⟨a0, a1, r0, b0, b1, r1, rfl, h⟩
  next => exact absurd h (by simp)

mutual
theorem or2xor_good (hK : K.Sound) {q : Quirks} (hq : q.or2xorNoArity = false) :
    ∀ e, Good (or2xor K q e) e
  | .or l => by
      unfold or2xor
      have kr := or2xorKids_good hK hq l
      have lg := or2xorList_good hK hq l
      split
      next ht =>
        obtain ⟨a0, a1, r0, b0, b1, r1, hl, hc⟩ := or2xorTest_shape ht
        obtain ⟨hn0, hn1, e0, e1⟩ := or2xorCond_sound hK hq hc
        have hr0 : r0 = [] := List.eq_nil_of_length_eq_zero (by omega)
        have hr1 : r1 = [] := List.eq_nil_of_length_eq_zero (by omega)
        subst hr0; subst hr1; subst hl
        generalize or2xorKids K q _ = ks at kr
        cases kr with
        | cons h1 _ =>
          have g := h1 _ rfl
          cases g with
          | cons g0 g =>
            cases g with
            | cons g1 _ => exact good_xnor hK g0 g1 e0 e1
      next => exact good_or hK lg
  | .and l => by unfold or2xor; exact good_and hK (or2xorList_good hK hq l)
  | .xor l => by unfold or2xor; exact good_xor hK (or2xorList_good hK hq l)
  | .not e => by unfold or2xor; exact good_not hK (or2xor_good hK hq e)
  | .imp a b => by unfold or2xor; exact good_imp hK (or2xor_good hK hq a) (or2xor_good hK hq b)
  | .ite c t e => by
      unfold or2xor
      exact good_ite hK (or2xor_good hK hq c) (or2xor_good hK hq t) (or2xor_good hK hq e)
  | .tt => by unfold or2xor; exact Good.refl _
  | .ff => by unfold or2xor; exact Good.refl _
  | .sym n => by unfold or2xor; exact Good.refl _
theorem or2xorList_good (hK : K.Sound) {q : Quirks} (hq : q.or2xorNoArity = false) :
    ∀ l, GoodList (or2xorList K q l) l
  | [] => by unfold or2xorList; exact .nil
  | e :: es => by
      unfold or2xorList; exact .cons (or2xor_good hK hq e) (or2xorList_good hK hq es)
theorem or2xorKids_good (hK : K.Sound) {q : Quirks} (hq : q.or2xorNoArity = false) :
    ∀ l, KidsRel (or2xorKids K q l) l
  | [] => by unfold or2xorKids; exact .nil
  | e :: es => by
      unfold or2xorKids; exact .cons (or2xorKid_good hK hq e) (or2xorKids_good hK hq es)
theorem or2xorKid_good (hK : K.Sound) {q : Quirks} (hq : q.or2xorNoArity = false) :
    ∀ e m, e = .and m → GoodList (or2xorKid K q e) m
  | .and l, m, h => by
      cases h; unfold or2xorKid; exact or2xorList_good hK hq l
  | .or _, m, h => by cases h
  | .xor _, m, h => by cases h
  | .not _, m, h => by cases h
  | .imp _ _, m, h => by cases h
  | .ite _ _ _, m, h => by cases h
  | .tt, m, h => by cases h
  | .ff, m, h => by cases h
  | .sym _, m, h => by cases h
end

/-- on an input where the arity-blind test does not fire differently, the quirk changes nothing -/
theorem or2xorCond_quirk_irrelevant {q : Quirks} {a0 a1 b0 b1 : BExp} :
    or2xorCond K q a0 a1 b0 b1 2 2 = or2xorCond K { q with or2xorNoArity := false } a0 a1 b0 b1 2 2 := by
  simp [or2xorCond]

/-! ## transform_or2and -/
mutual
theorem or2and_good (hK : K.Sound) (d : Bool) : ∀ e, Good (or2and K d e) e
  | .or l => by
      unfold or2and
      split
      · constructor
        · intro ρ
          rw [hK.not_eval, hK.and_eval, BExp.eval]
          exact (or2andNotList_good hK d l).1 ρ
        · intro s hs
          rw [BExp.syms]
          exact (or2andNotList_good hK d l).2 s (hK.and_syms _ _ (hK.not_syms _ _ hs))
      · exact Good.refl _
  | .and l => by unfold or2and; exact good_and hK (or2andList_good hK d l)
  | .xor l => by unfold or2and; exact good_xor hK (or2andList_good hK d l)
  | .not e => by unfold or2and; exact good_not hK (or2and_good hK d e)
  | .imp a b => by unfold or2and; exact good_imp hK (or2and_good hK d a) (or2and_good hK d b)
  | .ite c t e => by
      unfold or2and
      exact good_ite hK (or2and_good hK d c) (or2and_good hK d t) (or2and_good hK d e)
  | .tt => by unfold or2and; exact Good.refl _
  | .ff => by unfold or2and; exact Good.refl _
  | .sym n => by unfold or2and; exact Good.refl _
theorem or2andList_good (hK : K.Sound) (d : Bool) : ∀ l, GoodList (or2andList K d l) l
  | [] => by unfold or2andList; exact .nil
  | e :: es => by unfold or2andList; exact .cons (or2and_good hK d e) (or2andList_good hK d es)
/-- De Morgan on the list of negated visited arguments -/
theorem or2andNotList_good (hK : K.Sound) (d : Bool) : ∀ l,
    (∀ ρ, (!evalAnd ρ (or2andNotList K d l)) = evalOr ρ l) ∧
    (∀ s, s ∈ symsList (or2andNotList K d l) → s ∈ symsList l)
  | [] => by unfold or2andNotList; simp [evalAnd, evalOr]
  | e :: es => by
      unfold or2andNotList
      have h1 := or2and_good hK d e
      have h2 := or2andNotList_good hK d es
      constructor
      · intro ρ
        simp only [evalAnd, evalOr, hK.not_eval, h1.1, ← h2.1 ρ]
        cases e.eval ρ <;> simp
      · intro s
        simp only [symsList, List.mem_append]
        rintro (h | h)
        · exact Or.inl (h1.2 s (hK.not_syms _ _ h))
        · exact Or.inr (h2.2 s h)
end

/-! ## remove_obvious_expr -/
theorem symAndItsNot_sound {x y : BExp} (h : symAndItsNot x y = true) (ρ : Env) :
    y.eval ρ = !x.eval ρ := by
  unfold symAndItsNot at h
  split at h
  · simp only [beq_iff_eq] at h; subst h; simp [BExp.eval]
  · exact absurd h (by simp)

theorem obviousPair_sound {l : List BExp} (h : obviousPair l = true) (ρ : Env) :
    evalAnd ρ l = false ∧ evalOr ρ l = true := by
  unfold obviousPair at h
  split at h
  next x y =>
    simp only [Bool.or_eq_true] at h
    simp only [evalAnd, evalOr]
    rcases h with h | h
    · rw [symAndItsNot_sound h ρ]; cases x.eval ρ <;> simp
    · rw [symAndItsNot_sound h ρ]; cases y.eval ρ <;> simp
  · exact absurd h (by simp)

mutual
theorem removeObvious_good (hK : K.Sound) : ∀ e, Good (removeObvious K e) e
  | .not (.not e) => by
      unfold removeObvious
      exact ⟨fun ρ => by simp [BExp.eval], fun s h => by simpa [BExp.syms] using h⟩
  | .not (.tt) => by unfold removeObvious; exact Good.refl _
  | .not (.ff) => by unfold removeObvious; exact Good.refl _
  | .not (.sym _) => by unfold removeObvious; exact Good.refl _
  | .not (.and _) => by unfold removeObvious; exact Good.refl _
  | .not (.or _) => by unfold removeObvious; exact Good.refl _
  | .not (.xor _) => by unfold removeObvious; exact Good.refl _
  | .not (.ite _ _ _) => by unfold removeObvious; exact Good.refl _
  | .not (.imp _ _) => by unfold removeObvious; exact Good.refl _
  | .and l => by
      unfold removeObvious
      split
      next h => exact ⟨fun ρ => by simp [BExp.eval, (obviousPair_sound h ρ).1], fun s h => by simp [BExp.syms] at h⟩
      next => exact Good.refl _
  | .or l => by
      unfold removeObvious
      split
      next h => exact ⟨fun ρ => by simp [BExp.eval, (obviousPair_sound h ρ).2], fun s h => by simp [BExp.syms] at h⟩
      next => exact Good.refl _
  | .xor l => by unfold removeObvious; exact good_xor hK (removeObviousList_good hK l)
  | .imp a b => by
      unfold removeObvious; exact good_imp hK (removeObvious_good hK a) (removeObvious_good hK b)
  | .ite c t e => by
      unfold removeObvious
      exact good_ite hK (removeObvious_good hK c) (removeObvious_good hK t) (removeObvious_good hK e)
  | .tt => by unfold removeObvious; exact Good.refl _
  | .ff => by unfold removeObvious; exact Good.refl _
  | .sym n => by unfold removeObvious; exact Good.refl _
theorem removeObviousList_good (hK : K.Sound) : ∀ l, GoodList (removeObviousList K l) l
  | [] => by unfold removeObviousList; exact .nil
  | e :: es => by
      unfold removeObviousList; exact .cons (removeObvious_good hK e) (removeObviousList_good hK es)
end

/-! ## custom_simplify_logic -/

/-- what is assumed of `simplify_logic` -/
def SimpSound (simp : BExp → BExp) : Prop := ∀ e, Good (simp e) e

mutual
theorem csl_good (hK : K.Sound) {simp : BExp → BExp} (hS : SimpSound simp) : ∀ e, Good (csl K simp e) e
  | .xor l => by unfold csl; exact Good.refl _
  | .and l => by unfold csl; exact good_and hK (cslList_good hK hS l)
  | .or l => by unfold csl; exact good_or hK (cslList_good hK hS l)
  | .not e => by unfold csl; exact good_not hK (csl_good hK hS e)
  | .imp a b => by unfold csl; exact hS _
  | .ite c t e => by unfold csl; exact hS _
  | .tt => by unfold csl; exact hS _
  | .ff => by unfold csl; exact hS _
  | .sym n => by unfold csl; exact hS _
theorem cslList_good (hK : K.Sound) {simp : BExp → BExp} (hS : SimpSound simp) :
    ∀ l, GoodList (cslList K simp l) l
  | [] => by unfold cslList; exact .nil
  | e :: es => by unfold cslList; exact .cons (csl_good hK hS e) (cslList_good hK hS es)
end

/-! ## definition lists: the property as a relation between two lists -/

/-- the property C04 for one list `l` and its image `l'`: every return symbol (bound or not) has
the same value after both lists under every assignment of the inputs, the return symbols bound
are the same in the same order, no symbol is read free in `l'` that is not read free in `l` -/
def Preserves (l l' : Defs) : Prop :=
  (∀ ρ r, isRet r = true → evalDefs ρ l' r = evalDefs ρ l r) ∧
  retNames l' = retNames l ∧
  (∀ s, s ∈ freeSyms l' → s ∈ freeSyms l)

theorem Preserves.refl (l : Defs) : Preserves l l := ⟨fun _ _ _ => rfl, rfl, fun _ h => h⟩
theorem Preserves.trans {a b c : Defs} (h1 : Preserves a b) (h2 : Preserves b c) : Preserves a c :=
  ⟨fun ρ r hr => (h2.1 ρ r hr).trans (h1.1 ρ r hr), h2.2.1.trans h1.2.1,
   fun s h => h1.2.2 s (h2.2.2 s h)⟩

/-- return symbols are outputs only: no right-hand side reads one -/
def RetsNotRead (l : Defs) : Prop := ∀ d ∈ l, ∀ v ∈ d.2.syms, isRet v = false

/-- weaker: a return symbol that has been read is not bound afterwards -/
def RetDisc : Defs → Prop
  | [] => True
  | (_, e) :: t => (∀ v ∈ e.syms, isRet v = true → v ∉ names t) ∧ RetDisc t

theorem RetsNotRead.retDisc : ∀ {l : Defs}, RetsNotRead l → RetDisc l
  | [], _ => trivial
  | (s, e) :: t, h => by
      refine ⟨fun v hv hr => ?_, RetsNotRead.retDisc (fun d hd => h d (List.mem_cons_of_mem _ hd))⟩
      have := h (s, e) (List.mem_cons_self) v hv
      simp [this] at hr

mutual
theorem eval_congr {ρ ρ' : Env} : ∀ e : BExp, (∀ v ∈ e.syms, ρ v = ρ' v) → e.eval ρ = e.eval ρ'
  | .tt, _ => rfl
  | .ff, _ => rfl
  | .sym n, h => by simpa [BExp.eval] using h n (by simp [BExp.syms])
  | .not e, h => by simp only [BExp.eval]; rw [eval_congr e (by simpa [BExp.syms] using h)]
  | .and l, h => by simp only [BExp.eval]; exact (evalList_congr l (by simpa [BExp.syms] using h)).1
  | .or l, h => by simp only [BExp.eval]; exact (evalList_congr l (by simpa [BExp.syms] using h)).2.1
  | .xor l, h => by simp only [BExp.eval]; exact (evalList_congr l (by simpa [BExp.syms] using h)).2.2
  | .ite c t e, h => by
      simp only [BExp.syms, List.mem_append] at h
      simp only [BExp.eval]
      rw [eval_congr c (fun v hv => h v (Or.inl (Or.inl hv))), eval_congr t (fun v hv => h v (Or.inl (Or.inr hv))),
        eval_congr e (fun v hv => h v (Or.inr hv))]
  | .imp a b, h => by
      simp only [BExp.syms, List.mem_append] at h
      simp only [BExp.eval]
      rw [eval_congr a (fun v hv => h v (Or.inl hv)), eval_congr b (fun v hv => h v (Or.inr hv))]
theorem evalList_congr {ρ ρ' : Env} : ∀ l : List BExp, (∀ v ∈ symsList l, ρ v = ρ' v) →
    evalAnd ρ l = evalAnd ρ' l ∧ evalOr ρ l = evalOr ρ' l ∧ evalXor ρ l = evalXor ρ' l
  | [], _ => ⟨rfl, rfl, rfl⟩
  | e :: es, h => by
      simp only [symsList, List.mem_append] at h
      have h1 := eval_congr e (fun v hv => h v (Or.inl hv))
      have h2 := evalList_congr es (fun v hv => h v (Or.inr hv))
      simp only [evalAnd, evalOr, evalXor, h1, h2.1, h2.2.1, h2.2.2, and_self]
end

/-! ### per-expression steps -/
theorem evalDefs_mapDefs {f : BExp → BExp} (hf : ∀ e, Good (f e) e) :
    ∀ (l : Defs) (ρ : Env), evalDefs ρ (mapDefs f l) = evalDefs ρ l
  | [], _ => rfl
  | (s, e) :: t, ρ => by
      simp only [mapDefs, List.map_cons, evalDefs, (hf e).1 ρ]
      exact evalDefs_mapDefs hf t _

theorem names_mapDefs (f : BExp → BExp) (l : Defs) : names (mapDefs f l) = names l := by
  simp [names, mapDefs, List.map_map, Function.comp_def]

theorem freeSyms_mapDefs {f : BExp → BExp} (hf : ∀ e, Good (f e) e) :
    ∀ (l : Defs) (s : String), s ∈ freeSyms (mapDefs f l) → s ∈ freeSyms l
  | [], _ => id
  | (n, e) :: t, s => by
      simp only [mapDefs, List.map_cons, freeSyms, List.mem_append, List.mem_filter]
      rintro (h | ⟨h, h'⟩)
      · exact Or.inl ((hf e).2 s h)
      · exact Or.inr ⟨freeSyms_mapDefs hf t s h, h'⟩

theorem mapDefs_preserves {f : BExp → BExp} (hf : ∀ e, Good (f e) e) (l : Defs) :
    Preserves l (mapDefs f l) :=
  ⟨fun ρ r _ => by rw [evalDefs_mapDefs hf], by simp [retNames, names_mapDefs],
   freeSyms_mapDefs hf l⟩

theorem mapDefs_retsNotRead {f : BExp → BExp} (hf : ∀ e, Good (f e) e) {l : Defs}
    (h : RetsNotRead l) : RetsNotRead (mapDefs f l) := by
  intro d hd v hv
  simp only [mapDefs, List.mem_map] at hd
  obtain ⟨d0, hd0, rfl⟩ := hd
  exact h d0 hd0 v ((hf _).2 v hv)

/-! ### xreplace -/
/-- the environment in which the replaced expression is read -/
def envOfMap (M : List (String × BExp)) (ρ : Env) : Env := fun n =>
  match lookup M n with
  | some x => x.eval ρ
  | none => ρ n

/-- where a symbol of `e.xreplace(M)` can come from, given the symbols `S` of `e` -/
def XS (M : List (String × BExp)) (S : List String) (s : String) : Prop :=
  (s ∈ S ∧ lookup M s = none) ∨ ∃ n x, n ∈ S ∧ lookup M n = some x ∧ s ∈ x.syms

theorem XS.mono {M S S' s} (h : XS M S s) (hS : ∀ x, x ∈ S → x ∈ S') : XS M S' s := by
  rcases h with ⟨h1, h2⟩ | ⟨n, x, h1, h2, h3⟩
  · exact Or.inl ⟨hS _ h1, h2⟩
  · exact Or.inr ⟨n, x, hS _ h1, h2, h3⟩

mutual
theorem xreplace_eval (hK : K.Sound) (M : List (String × BExp)) (ρ : Env) :
    ∀ e, (xreplace K M e).eval ρ = e.eval (envOfMap M ρ)
  | .sym n => by
      unfold xreplace
      simp only [BExp.eval, envOfMap]
      cases h : lookup M n <;> simp [BExp.eval]
  | .and l => by unfold xreplace; rw [hK.and_eval, BExp.eval]; exact (xreplaceList_eval hK M ρ l).1
  | .or l => by unfold xreplace; rw [hK.or_eval, BExp.eval]; exact (xreplaceList_eval hK M ρ l).2.1
  | .xor l => by unfold xreplace; rw [hK.xor_eval, BExp.eval]; exact (xreplaceList_eval hK M ρ l).2.2
  | .not e => by unfold xreplace; rw [hK.not_eval, BExp.eval, xreplace_eval hK M ρ e]
  | .imp a b => by
      unfold xreplace; rw [hK.imp_eval, BExp.eval, xreplace_eval hK M ρ a, xreplace_eval hK M ρ b]
  | .ite c t e => by
      unfold xreplace
      rw [hK.ite_eval, BExp.eval, xreplace_eval hK M ρ c, xreplace_eval hK M ρ t, xreplace_eval hK M ρ e]
  | .tt => by unfold xreplace; rfl
  | .ff => by unfold xreplace; rfl
theorem xreplaceList_eval (hK : K.Sound) (M : List (String × BExp)) (ρ : Env) :
    ∀ l, evalAnd ρ (xreplaceList K M l) = evalAnd (envOfMap M ρ) l ∧
         evalOr ρ (xreplaceList K M l) = evalOr (envOfMap M ρ) l ∧
         evalXor ρ (xreplaceList K M l) = evalXor (envOfMap M ρ) l
  | [] => by unfold xreplaceList; exact ⟨rfl, rfl, rfl⟩
  | e :: es => by
      unfold xreplaceList
      have h1 := xreplace_eval hK M ρ e
      have h2 := xreplaceList_eval hK M ρ es
      simp only [evalAnd, evalOr, evalXor, h1, h2.1, h2.2.1, h2.2.2, and_self]
end

mutual
theorem xreplace_syms (hK : K.Sound) (M : List (String × BExp)) (s : String) :
    ∀ e, s ∈ (xreplace K M e).syms → XS M e.syms s
  | .sym n => by
      unfold xreplace
      intro h
      split at h
      next x hx => exact Or.inr ⟨n, x, by simp [BExp.syms], hx, h⟩
      next hx =>
        simp only [BExp.syms, List.mem_singleton] at h
        subst h
        exact Or.inl ⟨by simp [BExp.syms], hx⟩
  | .and l => by
      unfold xreplace; intro h; rw [BExp.syms]; exact xreplaceList_syms hK M s l (hK.and_syms _ _ h)
  | .or l => by
      unfold xreplace; intro h; rw [BExp.syms]; exact xreplaceList_syms hK M s l (hK.or_syms _ _ h)
  | .xor l => by
      unfold xreplace; intro h; rw [BExp.syms]; exact xreplaceList_syms hK M s l (hK.xor_syms _ _ h)
  | .not e => by
      unfold xreplace; intro h; rw [BExp.syms]; exact xreplace_syms hK M s e (hK.not_syms _ _ h)
  | .imp a b => by
      unfold xreplace; intro h
      have h := hK.imp_syms _ _ _ h
      simp only [BExp.syms, List.mem_append] at h ⊢
      rcases h with h | h
      · exact (xreplace_syms hK M s a h).mono (fun x hx => List.mem_append.2 (Or.inl hx))
      · exact (xreplace_syms hK M s b h).mono (fun x hx => List.mem_append.2 (Or.inr hx))
  | .ite c t e => by
      unfold xreplace; intro h
      have h := hK.ite_syms _ _ _ _ h
      simp only [BExp.syms, List.mem_append] at h ⊢
      rcases h with (h | h) | h
      · exact (xreplace_syms hK M s c h).mono (fun x hx => by simp [hx])
      · exact (xreplace_syms hK M s t h).mono (fun x hx => by simp [hx])
      · exact (xreplace_syms hK M s e h).mono (fun x hx => by simp [hx])
  | .tt => by unfold xreplace; simp [BExp.syms]
  | .ff => by unfold xreplace; simp [BExp.syms]
theorem xreplaceList_syms (hK : K.Sound) (M : List (String × BExp)) (s : String) :
    ∀ l, s ∈ symsList (xreplaceList K M l) → XS M (symsList l) s
  | [] => by unfold xreplaceList; simp [symsList]
  | e :: es => by
      unfold xreplaceList
      simp only [symsList, List.mem_append]
      rintro (h | h)
      · exact (xreplace_syms hK M s e h).mono (fun x hx => List.mem_append.2 (Or.inl hx))
      · exact (xreplaceList_syms hK M s es h).mono (fun x hx => List.mem_append.2 (Or.inr hx))
end

/-! ### merge_expressions -/
theorem lookup_cons (M : List (String × BExp)) (k : String) (v : BExp) (n : String) :
    lookup ((k, v) :: M) n = if n = k then some v else lookup M n := by
  simp [lookup]

theorem upd_same (ρ : Env) (s : String) (v : Bool) : upd ρ s v s = v := by simp [upd]
theorem upd_other (ρ : Env) {s n : String} (v : Bool) (h : n ≠ s) : upd ρ s v n = ρ n := by simp [upd, h]

/-- the rewritten right-hand side of one definition -/
theorem merge_rhs (hK : K.Sound) {simp : BExp → BExp} (hS : SimpSound simp) (M : List (String × BExp))
    (e : BExp) :
    (∀ ρ, (csl K simp (xreplace K M e)).eval ρ = e.eval (envOfMap M ρ)) ∧
    (∀ s, s ∈ (csl K simp (xreplace K M e)).syms → XS M e.syms s) :=
  ⟨fun ρ => by rw [(csl_good hK hS _).1, xreplace_eval hK],
   fun s h => xreplace_syms hK M s e ((csl_good hK hS _).2 s h)⟩

theorem mergeGo_sound (hK : K.Sound) {simp : BExp → BExp} (hS : SimpSound simp) :
    ∀ (t : Defs) (M : List (String × BExp)) (σ ρ' : Env),
      RetDisc t →
      (∀ n, isRet n = true → lookup M n = none) →
      (∀ n x, lookup M n = some x → x.eval ρ' = σ n) →
      (∀ n, lookup M n = none → ρ' n = σ n) →
      (∀ n x, lookup M n = some x → ∀ v ∈ x.syms, isRet v = true → v ∉ names t) →
      ∀ r, isRet r = true → evalDefs ρ' (mergeGo K simp M t) r = evalDefs σ t r
  | [], M, σ, ρ', _, hR, _, hb, _ => by
      intro r hr
      simp only [mergeGo, evalDefs]
      exact hb r (hR r hr)
  | (s, e) :: t, M, σ, ρ', hD, hR, ha, hb, hc => by
      intro r hr
      obtain ⟨hD1, hD2⟩ := hD
      have henv : envOfMap M ρ' = σ := by
        funext n
        simp only [envOfMap]
        cases h : lookup M n with
        | some x => simpa using ha n x h
        | none => simpa using hb n h
      have hrhs := merge_rhs hK hS M e
      have hv : (csl K simp (xreplace K M e)).eval ρ' = e.eval σ := by rw [hrhs.1, henv]
      have hsy : ∀ v ∈ (csl K simp (xreplace K M e)).syms, isRet v = true → v ∉ names t := by
        intro v hv hrv
        rcases hrhs.2 v hv with ⟨h1, _⟩ | ⟨n, x, _, h2, h3⟩
        · exact hD1 v h1 hrv
        · intro hmem
          exact hc n x h2 v h3 hrv (by simp [names] at hmem ⊢; exact Or.inr hmem)
      unfold mergeGo
      simp only []
      split
      next hs =>
        -- a return symbol: emitted
        simp only [evalDefs, hv]
        refine mergeGo_sound hK hS t M (upd σ s (e.eval σ)) (upd ρ' s (e.eval σ)) hD2 hR ?_ ?_ ?_ r hr
        · intro n x hx
          have hns : n ≠ s := by
            intro h; subst h; rw [hR n hs] at hx; cases hx
          rw [upd_other _ _ hns, ← ha n x hx]
          apply eval_congr
          intro v hv'
          by_cases hvs : v = s
          · subst hvs
            exact absurd (by simp [names]) (hc n x hx v hv' hs)
          · rw [upd_other _ _ hvs]
        · intro n hn
          by_cases hns : n = s
          · subst hns; simp [upd]
          · rw [upd_other _ _ hns, upd_other _ _ hns]; exact hb n hn
        · intro n x hx v hv' hrv hmem
          exact hc n x hx v hv' hrv (by simp [names] at hmem ⊢; exact Or.inr hmem)
      next hs =>
        simp only [evalDefs]
        refine mergeGo_sound hK hS t _ (upd σ s (e.eval σ)) ρ' hD2 ?_ ?_ ?_ ?_ r hr
        · intro n hn
          rw [lookup_cons]
          have : n ≠ s := by intro h; subst h; exact hs hn
          simp [this, hR n hn]
        · intro n x hx
          rw [lookup_cons] at hx
          split at hx
          next h => subst h; cases hx; rw [upd_same]; exact hv
          next h => rw [upd_other _ _ h]; exact ha n x hx
        · intro n hn
          rw [lookup_cons] at hn
          split at hn
          next h => cases hn
          next h => rw [upd_other _ _ h]; exact hb n hn
        · intro n x hx v hv' hrv
          rw [lookup_cons] at hx
          split at hx
          next h => cases hx; exact hsy v hv' hrv
          next h =>
            intro hmem
            exact hc n x hx v hv' hrv (by simp [names] at hmem ⊢; exact Or.inr hmem)

theorem retNames_mergeGo (K : Kernel) (simp : BExp → BExp) :
    ∀ (t : Defs) (M : List (String × BExp)), names (mergeGo K simp M t) = retNames t
  | [], _ => rfl
  | (s, e) :: t, M => by
      unfold mergeGo
      simp only []
      split
      next h => simp [names, retNames, h] ; exact retNames_mergeGo K simp t M
      next h => simp [names, retNames, h] ; exact retNames_mergeGo K simp t _

theorem isRet_of_mem_retNames {l : Defs} {n : String} (h : n ∈ retNames l) : isRet n = true := by
  simp [retNames] at h; exact h.2

theorem freeSyms_mergeGo (hK : K.Sound) {simp : BExp → BExp} (hS : SimpSound simp) :
    ∀ (t : Defs) (M : List (String × BExp)) (s : String), s ∈ freeSyms (mergeGo K simp M t) →
      (s ∈ freeSyms t ∧ lookup M s = none) ∨ ∃ n x, lookup M n = some x ∧ s ∈ x.syms
  | [], _, s => by simp [mergeGo, freeSyms]
  | (s0, e) :: t, M, s => by
      have hrhs := (merge_rhs hK hS M e).2
      have key : s ∈ (csl K simp (xreplace K M e)).syms →
          (s ∈ freeSyms ((s0, e) :: t) ∧ lookup M s = none) ∨ ∃ n x, lookup M n = some x ∧ s ∈ x.syms := by
        intro h
        rcases hrhs s h with ⟨h1, h2⟩ | ⟨n, x, _, h2, h3⟩
        · exact Or.inl ⟨by simp [freeSyms, h1], h2⟩
        · exact Or.inr ⟨n, x, h2, h3⟩
      unfold mergeGo
      simp only []
      split
      next hs =>
        simp only [freeSyms, List.mem_append, List.mem_filter]
        rintro (h | ⟨h, hne⟩)
        · simpa [freeSyms] using key h
        · rcases freeSyms_mergeGo hK hS t M s h with ⟨h1, h2⟩ | h1
          · exact Or.inl ⟨Or.inr ⟨h1, hne⟩, h2⟩
          · exact Or.inr h1
      next hs =>
        intro h
        rcases freeSyms_mergeGo hK hS t _ s h with ⟨h1, h2⟩ | ⟨n, x, h1, h2⟩
        · rw [lookup_cons] at h2
          split at h2
          next => cases h2
          next hne =>
            refine Or.inl ⟨?_, h2⟩
            simp only [freeSyms, List.mem_append, List.mem_filter]
            exact Or.inr ⟨h1, by simpa using hne⟩
        · rw [lookup_cons] at h1
          split at h1
          next => cases h1; exact key h2
          next => exact Or.inr ⟨n, x, h1, h2⟩

theorem retNames_of_all_ret {l : Defs} (h : ∀ n ∈ names l, isRet n = true) : retNames l = names l := by
  simp only [retNames]
  exact List.filter_eq_self.2 h

theorem names_mergeGo_ret (K : Kernel) (simp : BExp → BExp) (t : Defs) (M : List (String × BExp)) :
    ∀ n ∈ names (mergeGo K simp M t), isRet n = true := by
  intro n hn
  rw [retNames_mergeGo] at hn
  exact isRet_of_mem_retNames hn

theorem merge_preserves (hK : K.Sound) {simp : BExp → BExp} (hS : SimpSound simp) {l : Defs}
    (hD : RetDisc l) : Preserves l (mergeExpressions K simp l) := by
  refine ⟨fun ρ r hr => ?_, ?_, fun s h => ?_⟩
  · exact mergeGo_sound hK hS l [] ρ ρ hD (fun _ _ => rfl) (fun n x h => by simp [lookup] at h)
      (fun _ _ => rfl) (fun n x h => by simp [lookup] at h) r hr
  · unfold mergeExpressions
    rw [retNames_of_all_ret (names_mergeGo_ret K simp l []), retNames_mergeGo]
  · rcases freeSyms_mergeGo hK hS l [] s h with ⟨h1, _⟩ | ⟨n, x, h1, _⟩
    · exact h1
    · simp [lookup] at h1

theorem mergeGo_syms_pred (hK : K.Sound) {simp : BExp → BExp} (hS : SimpSound simp) (P : String → Prop) :
    ∀ (t : Defs) (M : List (String × BExp)),
      (∀ d ∈ t, ∀ v ∈ d.2.syms, P v) →
      (∀ n x, lookup M n = some x → ∀ v ∈ x.syms, P v) →
      ∀ d ∈ mergeGo K simp M t, ∀ v ∈ d.2.syms, P v
  | [], _, _, _ => by simp [mergeGo]
  | (s0, e) :: t, M, ht, hM => by
      have hrhs := (merge_rhs hK hS M e).2
      have key : ∀ v ∈ (csl K simp (xreplace K M e)).syms, P v := by
        intro v hv
        rcases hrhs v hv with ⟨h1, _⟩ | ⟨n, x, _, h2, h3⟩
        · exact ht (s0, e) List.mem_cons_self v h1
        · exact hM n x h2 v h3
      have ht' : ∀ d ∈ t, ∀ v ∈ d.2.syms, P v := fun d hd => ht d (List.mem_cons_of_mem _ hd)
      unfold mergeGo
      simp only []
      split
      next =>
        intro d hd
        rcases List.mem_cons.1 hd with rfl | hd
        · exact key
        · exact mergeGo_syms_pred hK hS P t M ht' hM d hd
      next =>
        refine mergeGo_syms_pred hK hS P t _ ht' ?_
        intro n x hx
        rw [lookup_cons] at hx
        split at hx
        next => cases hx; exact key
        next => exact hM n x hx

theorem merge_retsNotRead (hK : K.Sound) {simp : BExp → BExp} (hS : SimpSound simp) {l : Defs}
    (h : RetsNotRead l) : RetsNotRead (mergeExpressions K simp l) :=
  mergeGo_syms_pred hK hS (fun v => isRet v = false) l [] h (fun n x hx => by simp [lookup] at hx)

/-! ### apply_cse -/

/-- what is assumed of one call `cse(es) = (repl, red)` -/
structure CseSpec (es : List BExp) (r : Defs × List BExp) : Prop where
  len : r.2.length = es.length
  /-- evaluating the extracted definitions and then the reduced expressions gives the originals -/
  sem : ∀ ρ, r.2.map (BExp.eval (evalDefs ρ r.1)) = es.map (BExp.eval ρ)
  /-- the generated names are not return symbols -/
  notRet : ∀ x ∈ names r.1, isRet x = false
  freeRepl : ∀ v ∈ freeSyms r.1, v ∈ symsList es
  symsRed : ∀ v ∈ symsList r.2, v ∈ symsList es ∨ v ∈ names r.1

def bindAll (ρ : Env) : List (String × Bool) → Env
  | [] => ρ
  | (s, v) :: t => bindAll (upd ρ s v) t

theorem bindAll_congr : ∀ (ps : List (String × Bool)) (ρ ρ' : Env) (n : String),
    (n ∈ ps.map (·.1) ∨ ρ n = ρ' n) → bindAll ρ ps n = bindAll ρ' ps n
  | [], _, _, n, h => by
      rcases h with h | h
      · simp at h
      · exact h
  | (s, v) :: t, ρ, ρ', n, h => by
      simp only [bindAll]
      apply bindAll_congr t
      by_cases hn : n = s
      · subst hn; exact Or.inr (by simp [upd])
      · rcases h with h | h
        · simp only [List.map_cons, List.mem_cons] at h
          rcases h with h | h
          · exact absurd h hn
          · exact Or.inl h
        · exact Or.inr (by rw [upd_other _ _ hn, upd_other _ _ hn]; exact h)

theorem evalDefs_flat (N : List String) (ρ0 : Env) : ∀ (l : Defs) (ρ : Env),
    (∀ d ∈ l, d.1 ∈ N) → (∀ d ∈ l, ∀ v ∈ d.2.syms, v ∉ N) → (∀ v, v ∉ N → ρ v = ρ0 v) →
    evalDefs ρ l = bindAll ρ (l.map (fun d => (d.1, d.2.eval ρ0)))
  | [], _, _, _, _ => rfl
  | (s, e) :: t, ρ, h1, h2, h3 => by
      have he : e.eval ρ = e.eval ρ0 :=
        eval_congr e (fun v hv => h3 v (h2 (s, e) List.mem_cons_self v hv))
      simp only [evalDefs, List.map_cons, bindAll, he]
      apply evalDefs_flat N ρ0 t _ (fun d hd => h1 d (List.mem_cons_of_mem _ hd))
        (fun d hd => h2 d (List.mem_cons_of_mem _ hd))
      intro v hv
      have : v ≠ s := by intro h; subst h; exact hv (h1 (v, e) List.mem_cons_self)
      rw [upd_other _ _ this]; exact h3 v hv

theorem evalDefs_append : ∀ (a b : Defs) (ρ : Env), evalDefs ρ (a ++ b) = evalDefs (evalDefs ρ a) b
  | [], _, _ => rfl
  | (s, e) :: t, b, ρ => by simp only [List.cons_append, evalDefs]; exact evalDefs_append t b _

theorem evalDefs_not_bound : ∀ (l : Defs) (ρ : Env) (n : String), n ∉ names l → evalDefs ρ l n = ρ n
  | [], _, _, _ => rfl
  | (s, e) :: t, ρ, n, h => by
      simp only [names, List.map_cons, List.mem_cons, not_or] at h
      simp only [evalDefs]
      rw [evalDefs_not_bound t _ n (by simpa [names] using h.2), upd_other _ _ h.1]

theorem zip_vals (f : BExp → Bool) : ∀ (ns : List String) (es : List BExp),
    (ns.zip es).map (fun d => (d.1, f d.2)) = ns.zip (es.map f)
  | [], _ => by simp
  | _ :: _, [] => by simp
  | n :: ns, e :: es => by simp [zip_vals f ns es]

theorem defs_vals (f : BExp → Bool) : ∀ l : Defs,
    l.map (fun d => (d.1, f d.2)) = (names l).zip ((l.map (·.2)).map f)
  | [] => rfl
  | d :: t => by simp [names, defs_vals f t]

theorem map_fst_zip' {β : Type} : ∀ (ns : List String) (vs : List β), vs.length = ns.length →
    (ns.zip vs).map (·.1) = ns
  | [], [], _ => rfl
  | [], _ :: _, h => by simp at h
  | _ :: _, [], h => by simp at h
  | n :: ns, e :: es, h => by
      simp only [List.length_cons, Nat.add_right_cancel_iff] at h
      simp [map_fst_zip' ns es h]

theorem names_zip (ns : List String) (es : List BExp) (h : es.length = ns.length) : names (ns.zip es) = ns :=
  map_fst_zip' ns es h

theorem mem_zip_parts : ∀ (ns : List String) (es : List BExp) (d : String × BExp),
    d ∈ ns.zip es → d.1 ∈ ns ∧ d.2 ∈ es
  | [], _, d, h => by simp at h
  | _ :: _, [], d, h => by simp at h
  | n :: ns, e :: es, d, h => by
      simp only [List.zip_cons_cons, List.mem_cons] at h
      rcases h with rfl | h
      · simp
      · have := mem_zip_parts ns es d h
        exact ⟨List.mem_cons_of_mem _ this.1, List.mem_cons_of_mem _ this.2⟩

theorem mem_symsList : ∀ {l : List BExp} {e : BExp} {v : String}, e ∈ l → v ∈ e.syms → v ∈ symsList l
  | x :: xs, e, v, he, hv => by
      simp only [symsList, List.mem_append]
      rcases List.mem_cons.1 he with rfl | he
      · exact Or.inl hv
      · exact Or.inr (mem_symsList he hv)

theorem symsList_rhs : ∀ {l : Defs} {v : String}, v ∈ symsList (l.map (·.2)) → ∃ d ∈ l, v ∈ d.2.syms
  | d :: t, v, h => by
      simp only [List.map_cons, symsList, List.mem_append] at h
      rcases h with h | h
      · exact ⟨d, List.mem_cons_self, h⟩
      · obtain ⟨d', hd', hv⟩ := symsList_rhs h
        exact ⟨d', List.mem_cons_of_mem _ hd', hv⟩

theorem freeSyms_append : ∀ (a b : Defs) (s : String), s ∈ freeSyms (a ++ b) →
    s ∈ freeSyms a ∨ (s ∈ freeSyms b ∧ s ∉ names a)
  | [], b, s, h => Or.inr ⟨h, by simp [names]⟩
  | (n, e) :: t, b, s, h => by
      simp only [List.cons_append, freeSyms, List.mem_append, List.mem_filter] at h ⊢
      rcases h with h | ⟨h, hne⟩
      · exact Or.inl (Or.inl h)
      · rcases freeSyms_append t b s h with h' | ⟨h1, h2⟩
        · exact Or.inl (Or.inr ⟨h', hne⟩)
        · refine Or.inr ⟨h1, ?_⟩
          simp only [names, List.map_cons, List.mem_cons, not_or]
          exact ⟨by simpa using hne, by simpa [names] using h2⟩

theorem freeSyms_sub : ∀ (l : Defs) (s : String), s ∈ freeSyms l → ∃ d ∈ l, s ∈ d.2.syms
  | [], _, h => by simp [freeSyms] at h
  | (n, e) :: t, s, h => by
      simp only [freeSyms, List.mem_append, List.mem_filter] at h
      rcases h with h | ⟨h, _⟩
      · exact ⟨(n, e), List.mem_cons_self, h⟩
      · obtain ⟨d, hd, hv⟩ := freeSyms_sub t s h
        exact ⟨d, List.mem_cons_of_mem _ hd, hv⟩

theorem syms_free_or_bound : ∀ (l : Defs) (d : Def) (v : String), d ∈ l → v ∈ d.2.syms →
    v ∈ freeSyms l ∨ v ∈ names l
  | (n, e) :: t, d, v, hd, hv => by
      simp only [freeSyms, List.mem_append, List.mem_filter, names, List.map_cons, List.mem_cons]
      rcases List.mem_cons.1 hd with rfl | hd
      · exact Or.inl (Or.inl hv)
      · by_cases hvn : v = n
        · exact Or.inr (Or.inl hvn)
        · rcases syms_free_or_bound t d v hd hv with h | h
          · exact Or.inl (Or.inr ⟨h, by simpa using hvn⟩)
          · exact Or.inr (Or.inr (by simpa [names] using h))

theorem flat_free (N : List String) : ∀ (l : Defs), (∀ d ∈ l, d.1 ∈ N) →
    (∀ d ∈ l, ∀ v ∈ d.2.syms, v ∉ N) → ∀ d ∈ l, ∀ v ∈ d.2.syms, v ∈ freeSyms l
  | (n, e) :: t, h1, h2, d, hd, v, hv => by
      simp only [freeSyms, List.mem_append, List.mem_filter]
      rcases List.mem_cons.1 hd with rfl | hd'
      · exact Or.inl hv
      · refine Or.inr ⟨flat_free N t (fun d hd => h1 d (List.mem_cons_of_mem _ hd))
          (fun d hd => h2 d (List.mem_cons_of_mem _ hd)) d hd' v hv, ?_⟩
        have h3 := h2 d hd v hv
        have h4 := h1 (n, e) List.mem_cons_self
        simp only [bne_iff_ne, ne_eq]
        intro h; subst h; exact h3 h4

theorem flat_spec {l : Defs} (h : flat l = true) : ∀ d ∈ l, ∀ v ∈ d.2.syms, v ∉ names l := by
  simp only [flat, List.all_eq_true, Bool.not_eq_true', List.contains_eq_mem, decide_eq_false_iff_not] at h
  exact h

theorem cse_core {l : Defs} {r : Defs × List BExp} (hspec : CseSpec (l.map (·.2)) r)
    (hsafe : cseSafe l r.1 = true) : Preserves l (r.1 ++ (names l).zip r.2) := by
  simp only [cseSafe, Bool.and_eq_true, List.all_eq_true, Bool.not_eq_true', List.contains_eq_mem,
    decide_eq_false_iff_not] at hsafe
  obtain ⟨hflat, hdisj⟩ := hsafe
  have hflat := flat_spec hflat
  have hlen : r.2.length = (names l).length := by rw [hspec.len]; simp [names]
  have hnz : names ((names l).zip r.2) = names l := names_zip _ _ hlen
  -- right-hand sides of the new tail do not read the list's names
  have hred : ∀ d ∈ (names l).zip r.2, ∀ v ∈ d.2.syms, v ∉ names l := by
    intro d hd v hv hmem
    have hp := mem_zip_parts _ _ d hd
    rcases hspec.symsRed v (mem_symsList hp.2 hv) with h | h
    · obtain ⟨d', hd', hv'⟩ := symsList_rhs h
      exact hflat d' hd' v hv' hmem
    · exact hdisj v h hmem
  refine ⟨fun ρ n hn => ?_, ?_, fun s hs => ?_⟩
  · rw [evalDefs_append]
    have e1 := evalDefs_flat (names l) (evalDefs ρ r.1) ((names l).zip r.2) (evalDefs ρ r.1)
      (fun d hd => (mem_zip_parts _ _ d hd).1) hred (fun _ _ => rfl)
    have e2 := evalDefs_flat (names l) ρ l ρ (fun d hd => List.mem_map_of_mem hd) hflat (fun _ _ => rfl)
    rw [e1, e2, zip_vals, defs_vals, hspec.sem ρ]
    apply bindAll_congr
    by_cases hmem : n ∈ names l
    · left
      rw [map_fst_zip' _ _ (by simp [names])]
      exact hmem
    · right
      apply evalDefs_not_bound
      intro h
      have := hspec.notRet n h
      simp [this] at hn
  · have : retNames r.1 = [] := by
      simp only [retNames, List.filter_eq_nil_iff]
      intro x hx
      simp [hspec.notRet x hx]
    simp only [retNames, names, List.map_append, List.filter_append] at this ⊢
    rw [this]
    simp only [names] at hnz
    rw [hnz]; rfl
  · rcases freeSyms_append _ _ s hs with h | ⟨h1, h2⟩
    · obtain ⟨d, hd, hv⟩ := symsList_rhs (hspec.freeRepl s h)
      exact flat_free (names l) l (fun d hd => List.mem_map_of_mem hd) hflat d hd s hv
    · obtain ⟨d, hd, hv⟩ := freeSyms_sub _ s h1
      have hp := mem_zip_parts _ _ d hd
      rcases hspec.symsRed s (mem_symsList hp.2 hv) with h | h
      · obtain ⟨d', hd', hv'⟩ := symsList_rhs h
        exact flat_free (names l) l (fun d hd => List.mem_map_of_mem hd) hflat d' hd' s hv'
      · exact absurd h h2

theorem applyCse_preserves {q : Quirks} {cse : List BExp → Defs × List BExp} {l : Defs}
    (hspec : CseSpec (l.map (·.2)) (cse (l.map (·.2))))
    (hq : q.cseHoistsOverBindings = false ∨ cseSafe l (cse (l.map (·.2))).1 = true) :
    Preserves l (applyCse q cse l) := by
  unfold applyCse
  simp only []
  split
  next h =>
    have : cseSafe l (cse (l.map (·.2))).1 = true := by
      rcases hq with hq | hq
      · simpa [hq] using h
      · exact hq
    exact cse_core hspec this
  next => exact Preserves.refl l

theorem applyCse_retsNotRead {q : Quirks} {cse : List BExp → Defs × List BExp} {l : Defs}
    (hspec : CseSpec (l.map (·.2)) (cse (l.map (·.2)))) (h : RetsNotRead l) :
    RetsNotRead (applyCse q cse l) := by
  unfold applyCse
  simp only []
  split
  next =>
    have hes : ∀ v ∈ symsList (l.map (·.2)), isRet v = false := by
      intro v hv
      obtain ⟨d, hd, hv'⟩ := symsList_rhs hv
      exact h d hd v hv'
    intro d hd v hv
    rcases List.mem_append.1 hd with hd | hd
    · rcases syms_free_or_bound _ d v hd hv with h1 | h1
      · exact hes v (hspec.freeRepl v h1)
      · exact hspec.notRet v h1
    · have hp := mem_zip_parts _ _ d hd
      rcases hspec.symsRed v (mem_symsList hp.2 hv) with h1 | h1
      · exact hes v h1
      · exact hspec.notRet v h1
  next => exact h

/-! ### profiles -/

/-- the assumptions on the parameters of a profile run -/
structure Params.Sound (P : Params) : Prop where
  kernel : P.K.Sound
  simp : SimpSound P.simp
  cse : ∀ es, CseSpec es (P.cse es)

/-- both listed defects repaired -/
def Quirks.c04Repaired (q : Quirks) : Prop :=
  q.or2xorNoArity = false ∧ q.cseHoistsOverBindings = false

theorem applyStep_sound {P : Params} (hP : P.Sound) (hq : Quirks.c04Repaired P.q) (s : Step) {l : Defs}
    (h : RetsNotRead l) : Preserves l (applyStep P s l) ∧ RetsNotRead (applyStep P s l) := by
  cases s <;> simp only [applyStep]
  · exact ⟨merge_preserves hP.kernel hP.simp h.retDisc, merge_retsNotRead hP.kernel hP.simp h⟩
  · exact ⟨applyCse_preserves (hP.cse _) (Or.inl hq.2), applyCse_retsNotRead (hP.cse _) h⟩
  · exact ⟨mapDefs_preserves (removeITE_good hP.kernel) l, mapDefs_retsNotRead (removeITE_good hP.kernel) h⟩
  · exact ⟨mapDefs_preserves (removeImplies_good hP.kernel) l,
      mapDefs_retsNotRead (removeImplies_good hP.kernel) h⟩
  · exact ⟨mapDefs_preserves (or2xor_good hP.kernel hq.1) l,
      mapDefs_retsNotRead (or2xor_good hP.kernel hq.1) h⟩
  · exact ⟨mapDefs_preserves (or2and_good hP.kernel _) l, mapDefs_retsNotRead (or2and_good hP.kernel _) h⟩
  · exact ⟨mapDefs_preserves (removeObvious_good hP.kernel) l,
      mapDefs_retsNotRead (removeObvious_good hP.kernel) h⟩

theorem applyProfile_sound {P : Params} (hP : P.Sound) (hq : Quirks.c04Repaired P.q) :
    ∀ (steps : List Step) {l : Defs}, RetsNotRead l →
      Preserves l (applyProfile P steps l) ∧ RetsNotRead (applyProfile P steps l)
  | [], _, h => ⟨Preserves.refl _, h⟩
  | s :: ss, l, h => by
      have h1 := applyStep_sound hP hq s h
      have h2 := applyProfile_sound hP hq ss h1.2
      exact ⟨h1.1.trans h2.1, h2.2⟩

end QV.Opt
