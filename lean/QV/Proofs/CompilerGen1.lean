import QV.Model.CompilerClass
import QV.Proofs.CompilerSem2
/-!
# Semantic correctness of the compiler model on the general class – part 1: invariant and primitives

`CompilerSem2*.lean` prove the values on the qubits for definition lists in which every lookup in the
expression cache misses.  This development admits cache hits (shared sub-expressions inside a statement and
across statements) and re-binding of names.  The invariant `GI` describes a state `s` reached while the
statement that started in state `s0` is compiled:

* the gates appended since `s0` (`Lof s0 s`) target qubits that were in the scratch space of `s0` and are in
  use now; their controls are in use;
* (`ben`) every control of every such gate had, when the gate was applied, the value it has now – which gives
  the hypothesis of `bennettF` with the current state as final state.  It is kept by a new gate because the
  target of a gate has not been read yet: a qubit that has been read is never written again;
* every qubit of the scratch space is zero; the qubit of a known name holds the name's value; every cache
  entry `e ↦ q` has `q` in use and holding the value of `e` (what makes a cache hit sound);
* marked qubits are in-use ancillas that are not kept and are the target of a gate of the statement; every
  ancilla is kept or was in the scratch space of `s0`.
-/
namespace QV.Compiler
open QV

/-! ### structural equality of expressions -/

mutual
theorem gen_beq_eq : ∀ a b : BExp, BExp.beq a b = true → a = b
  | .tt, b => by cases b <;> simp [BExp.beq]
  | .ff, b => by cases b <;> simp [BExp.beq]
  | .sym n, b => by cases b <;> simp [BExp.beq]
  | .not a, b => by cases b <;> simp [BExp.beq] <;> exact gen_beq_eq a _
  | .and l, b => by cases b <;> simp [BExp.beq] <;> exact gen_beqList_eq l _
  | .or l, b => by cases b <;> simp [BExp.beq] <;> exact gen_beqList_eq l _
  | .xor l, b => by cases b <;> simp [BExp.beq] <;> exact gen_beqList_eq l _
  | .ite c t e, b => by
      cases b <;> simp [BExp.beq]
      intro h1 h2 h3
      exact ⟨gen_beq_eq c _ h1, gen_beq_eq t _ h2, gen_beq_eq e _ h3⟩
  | .imp x y, b => by
      cases b <;> simp [BExp.beq]
      intro h1 h2
      exact ⟨gen_beq_eq x _ h1, gen_beq_eq y _ h2⟩
theorem gen_beqList_eq : ∀ a b : List BExp, BExp.beqList a b = true → a = b
  | [], b => by cases b <;> simp [BExp.beqList]
  | x :: xs, b => by
      cases b <;> simp [BExp.beqList]
      intro h1 h2
      exact ⟨gen_beq_eq x _ h1, gen_beqList_eq xs _ h2⟩
end

theorem gen_eq_of_beq {a b : BExp} (h : (a == b) = true) : a = b := gen_beq_eq a b h

/-! ### the gates of the current statement -/

/-- the gates appended since state `s0` -/
def Lof (s0 s : CState) : List AGate := s.qc.gates.toList.drop s0.qc.gates.toList.length

/-- no gate of the current statement has `x` as a control -/
def Unread (s0 s : CState) (x : Nat) : Prop := ∀ g ∈ Lof s0 s, x ∉ g.wires.dropLast

/-- `q` is the target of a gate of the current statement -/
def TgtL (s0 s : CState) (q : Nat) : Prop := ∃ g ∈ Lof s0 s, g.target = q

theorem Lof_self (s : CState) : Lof s s = [] := by
  unfold Lof; simp

theorem Lof_congr {s0 s s' : CState} (h : s'.qc.gates = s.qc.gates) : Lof s0 s' = Lof s0 s := by
  unfold Lof; rw [h]

theorem Lof_push {s0 s s' : CState} {g : AGate} (hp : s.qc.gates.toList = s0.qc.gates.toList ++ Lof s0 s)
    (h : s'.qc.gates = s.qc.gates.push g) : Lof s0 s' = Lof s0 s ++ [g] := by
  unfold Lof
  rw [h, Array.toList_push, hp]
  simp

/-- `CtlOK` is monotone in the condition on the controls that occur -/
theorem CtlOK.mono' {Q Q' : FState → Nat → Prop} :
    ∀ (l : List AGate) (f : FState), (∀ g ∈ l, ∀ c ∈ g.wires.dropLast, ∀ f', Q f' c → Q' f' c) →
      CtlOK Q l f → CtlOK Q' l f
  | [], _, _, _ => trivial
  | g :: l, _, h, ⟨h1, h2⟩ =>
    ⟨fun c hc => h g List.mem_cons_self c hc _ (h1 c hc),
      CtlOK.mono' l _ (fun g' hg' => h g' (List.mem_cons_of_mem _ hg')) h2⟩

/-! ### the invariant inside a statement -/

/-- invariant of the states reached while the statement that started in `s0` is compiled.  `Kn`: the names
whose qubits hold their value (`kval ρ`); `H`: qubits whose cache entries are not claimed to be valid (a
hole that `expqSet` closes) -/
structure GIh (Kn : String → Prop) (ρ : Env) (σ0 : FState) (s0 : CState) (H : Nat → Prop) (s : CState) : Prop where
  good : Good s
  gates : s.qc.gates.toList = s0.qc.gates.toList ++ Lof s0 s
  comp : s.qc.gatesComputed.toList = s0.qc.gatesComputed.toList ++ Lof s0 s
  tgt : ∀ g ∈ Lof s0 s, Avail s0 g.target ∧ ¬ Avail s g.target
  ctl : ∀ g ∈ Lof s0 s, ∀ c ∈ g.wires.dropLast, ¬ Avail s c
  ben : CtlOK (fun f c => f c = cur σ0 s c) (Lof s0 s) (cur σ0 s0)
  nq : s0.qc.numQubits ≤ s.qc.numQubits
  avail : ∀ q, Avail s q → Avail s0 q
  kept : s.qc.kept = s0.qc.kept
  zero : ∀ q, Avail s q → cur σ0 s q = false
  names : ∀ n q, Kn n → dictGet? s.qc.qmap n = some q →
    q ∉ s.qc.free ∧ q ∉ s.qc.anc ∧ cur σ0 s q = kval ρ n
  knOK : ∀ n, Kn n → ancLike n = false
  cache : ∀ p ∈ s.expq, ¬ H p.2 → ¬ Avail s p.2 ∧ cur σ0 s p.2 = p.1.eval ρ ∧
    (p.2 ∈ s.qc.anc → p.2 ∉ s.qc.kept → TgtL s0 s p.2)
  freeNd : s.qc.free.Nodup
  freeAnc : ∀ q ∈ s.qc.free, q ∈ s.qc.anc
  keptNF : ∀ k ∈ s.qc.kept, k ∉ s.qc.free
  marks : ∀ m ∈ s.qc.marked, m ∈ s.qc.anc ∧ m ∉ s.qc.kept ∧ ¬ Avail s m ∧ (¬ H m → TgtL s0 s m)
  ancOld : ∀ a ∈ s.qc.anc, a ∈ s.qc.kept ∨ Avail s0 a

abbrev GI (Kn : String → Prop) (ρ : Env) (σ0 : FState) (s0 s : CState) : Prop :=
  GIh Kn ρ σ0 s0 (fun _ => False) s

/-- a qubit the caller may still write: in use, taken from the scratch space of `s0`, not the qubit of a
known name, not cached, not read by a gate of the statement, not marked -/
structure PrivD (Kn : String → Prop) (s0 s : CState) (x : Nat) : Prop where
  nav : ¬ Avail s x
  av0 : Avail s0 x
  nn : ∀ n, Kn n → dictGet? s.qc.qmap n ≠ some x
  nc : ∀ p ∈ s.expq, p.2 ≠ x
  unread : Unread s0 s x
  nm : x ∉ s.qc.marked

abbrev NoN : Nat → Prop := fun _ => False

/-- what a piece of the compiler leaves alone between `s` and `s'`: `D` the qubits (in use in `s`) it may
write, `R` the in-use ancillas it may leave unmarked, `C` the qubits it may read, mark or cache, `E` the new
qubits it may allocate that are not ancillas -/
structure Fr (Kn : String → Prop) (σ0 : FState) (s0 s s' : CState) (D R C : Nat → Prop) (E : Nat → Prop := NoN) :
    Prop where
  nq : s.qc.numQubits ≤ s'.qc.numQubits
  avail : ∀ q, Avail s' q → Avail s q
  mkeep : ∀ m ∈ s.qc.marked, m ∈ s'.qc.marked
  akeep : ∀ a ∈ s.qc.anc, a ∈ s'.qc.anc
  anew : ∀ a ∈ s'.qc.anc, a ∈ s.qc.anc ∨ Avail s a
  tkeep : ∀ q, TgtL s0 s q → TgtL s0 s' q
  kkeep : s'.qc.kept = s.qc.kept
  val : ∀ q, ¬ Avail s q → ¬ D q → cur σ0 s' q = cur σ0 s q
  priv : ∀ x, PrivD Kn s0 s x → ¬ C x → PrivD Kn s0 s' x
  pend : ∀ a ∈ s'.qc.anc, a ∉ s'.qc.free → a ∉ s'.qc.kept → a ∉ s'.qc.marked →
    (a ∈ s.qc.anc ∧ a ∉ s.qc.free ∧ a ∉ s.qc.marked) ∨ R a
  alloc : ∀ q, s.qc.numQubits ≤ q → q < s'.qc.numQubits → q ∈ s'.qc.anc ∨ E q
  fkeep : ∀ q ∈ s'.qc.free, q ∈ s.qc.free

variable {Kn : String → Prop} {ρ : Env} {σ0 : FState} {s0 : CState}

theorem Fr.refl {D R C E : Nat → Prop} (s : CState) : Fr Kn σ0 s0 s s D R C E :=
  ⟨Nat.le_refl _, fun _ h => h, fun _ h => h, fun _ h => h, fun _ h => Or.inl h, fun _ h => h, rfl, fun _ _ _ => rfl, fun _ h _ => h,
    fun _ h1 h2 _ h4 => Or.inl ⟨h1, h2, h4⟩, fun q h1 h2 => absurd h2 (by omega), fun _ h => h⟩

theorem Fr.trans {D1 D2 R1 R2 C1 C2 E1 E2 : Nat → Prop} {s s1 s2 : CState}
    (h1 : Fr Kn σ0 s0 s s1 D1 R1 C1 E1) (h2 : Fr Kn σ0 s0 s1 s2 D2 R2 C2 E2) :
    Fr Kn σ0 s0 s s2 (fun q => D1 q ∨ D2 q) (fun q => R1 q ∨ R2 q) (fun q => C1 q ∨ C2 q)
      (fun q => E1 q ∨ E2 q) := by
  refine ⟨Nat.le_trans h1.nq h2.nq, fun q h => h1.avail q (h2.avail q h), fun m h => h2.mkeep m (h1.mkeep m h),
    fun a h => h2.akeep a (h1.akeep a h),
    fun a h => (h2.anew a h).elim (h1.anew a) (fun h' => Or.inr (h1.avail a h')),
    fun q h => h2.tkeep q (h1.tkeep q h), h2.kkeep.trans h1.kkeep, ?_,
    fun x h hc => h2.priv x (h1.priv x h (fun hh => hc (Or.inl hh))) (fun hh => hc (Or.inr hh)), ?_, ?_,
    fun q h => h1.fkeep q (h2.fkeep q h)⟩
  · intro q hq hd
    rw [h2.val q (fun h => hq (h1.avail q h)) (fun h => hd (Or.inr h)), h1.val q hq (fun h => hd (Or.inl h))]
  · intro a ha hf hk hm
    rcases h2.pend a ha hf hk hm with ⟨a1, a2, a3⟩ | h
    · rcases h1.pend a a1 a2 (by rw [← h2.kkeep]; exact hk) a3 with h | h
      · exact Or.inl h
      · exact Or.inr (Or.inl h)
    · exact Or.inr (Or.inr h)
  · intro q hq1 hq2
    by_cases hq : q < s1.qc.numQubits
    · rcases h1.alloc q hq1 hq with h | h
      · exact Or.inl (h2.akeep q h)
      · exact Or.inr (Or.inl h)
    · rcases h2.alloc q (by omega) hq2 with h | h
      · exact Or.inl h
      · exact Or.inr (Or.inr h)

/-- weaken the sets; `D` and `C` only have to be covered on the qubits they are asked about -/
theorem Fr.mono {D D' R R' C C' E E' : Nat → Prop} {s s' : CState} (h : Fr Kn σ0 s0 s s' D R C E)
    (hd : ∀ q, ¬ Avail s q → D q → D' q)
    (hr : ∀ q, R q → q ∈ s'.qc.anc → q ∉ s'.qc.kept → q ∉ s'.qc.marked → R' q)
    (hc : ∀ x, PrivD Kn s0 s x → C x → C' x)
    (he : ∀ q, E q → E' q := by intro q h; simp_all) :
    Fr Kn σ0 s0 s s' D' R' C' E' :=
  ⟨h.nq, h.avail, h.mkeep, h.akeep, h.anew, h.tkeep, h.kkeep, fun q hq hn => h.val q hq (fun hh => hn (hd q hq hh)),
    fun x hx hn => h.priv x hx (fun hh => hn (hc x hx hh)),
    fun a h1 h2 h3 h4 => (h.pend a h1 h2 h3 h4).imp id (fun hh => hr a hh h1 h3 h4),
    fun q h1 h2 => (h.alloc q h1 h2).imp id (he q), h.fkeep⟩

/-! ### primitives -/

theorem avail_congr {s s' : CState} (hf : s'.qc.free = s.qc.free) (hn : s'.qc.numQubits = s.qc.numQubits)
    (q : Nat) : Avail s' q ↔ Avail s q := by
  unfold Avail; rw [hf, hn]

theorem TgtL.congr {s s' : CState} {q : Nat} (h : s'.qc.gates = s.qc.gates) (ht : TgtL s0 s q) : TgtL s0 s' q := by
  unfold TgtL; rw [Lof_congr h]; exact ht

theorem GIh.monoH {H H' : Nat → Prop} {s : CState} (gi : GIh Kn ρ σ0 s0 H s) (h : ∀ q, H q → H' q) :
    GIh Kn ρ σ0 s0 H' s :=
  { gi with
    cache := fun p hp hn => gi.cache p hp (fun hh => hn (h _ hh))
    marks := fun m hm => ⟨(gi.marks m hm).1, (gi.marks m hm).2.1, (gi.marks m hm).2.2.1,
      fun hn => (gi.marks m hm).2.2.2 (fun hh => hn (h _ hh))⟩ }

theorem GIh.monoKn {Kn' : String → Prop} {H : Nat → Prop} {s : CState} (gi : GIh Kn ρ σ0 s0 H s)
    (h : ∀ n, Kn' n → Kn n) : GIh Kn' ρ σ0 s0 H s :=
  { gi with names := fun n q hk hq => gi.names n q (h n hk) hq, knOK := fun n hk => gi.knOK n (h n hk) }

/-- a hole on a qubit that has no cache entry can be dropped -/
theorem GIh.close {H : Nat → Prop} {s : CState} {t : Nat} (gi : GIh Kn ρ σ0 s0 (fun q => H q ∨ q = t) s)
    (hnc : ∀ p ∈ s.expq, p.2 ≠ t) (htg : t ∈ s.qc.marked → TgtL s0 s t) : GIh Kn ρ σ0 s0 H s :=
  { gi with
    cache := fun p hp hn => gi.cache p hp (fun hh => hh.elim hn (hnc p hp))
    marks := fun m hm => ⟨(gi.marks m hm).1, (gi.marks m hm).2.1, (gi.marks m hm).2.2.1, fun hn => by
      by_cases hmt : m = t
      · exact hmt ▸ htg (hmt ▸ hm)
      · exact (gi.marks m hm).2.2.2 (fun hh => hh.elim hn hmt)⟩ }

/-- a hole on a qubit that has no cache entry and is a target can be removed from a larger hole -/
theorem GIh.close' {H : Nat → Prop} {s : CState} {t : Nat} (gi : GIh Kn ρ σ0 s0 (fun q => H q ∨ q = t) s)
    (hnc : ∀ p ∈ s.expq, p.2 ≠ t) (htg : TgtL s0 s t) : GIh Kn ρ σ0 s0 (fun q => H q ∧ q ≠ t) s :=
  { gi with
    cache := fun p hp hn => gi.cache p hp (fun hh => hh.elim (fun h1 => hn ⟨h1, hnc p hp⟩) (hnc p hp))
    marks := fun m hm => ⟨(gi.marks m hm).1, (gi.marks m hm).2.1, (gi.marks m hm).2.2.1, fun hn => by
      by_cases hmt : m = t
      · exact hmt ▸ htg
      · exact (gi.marks m hm).2.2.2 (fun hh => hh.elim (fun h1 => hn ⟨h1, hmt⟩) hmt)⟩ }

/-- the invariant after one X/CX/MCX gate on `cs ++ [t]`: the controls are in use, the target is a qubit of the
statement that is in use, is not the qubit of a known name, and has not been read yet (or is marked).  The
cache entries on `t` are not claimed any more (hole). -/
theorem gate_gi {H : Nat → Prop} {cls : GClass} {cs : List Nat} {t : Nat} {u : Unit} {s s' : CState}
    (h : (append cls (cs ++ [t])).run s = .ok (u, s')) (gi : GIh Kn ρ σ0 s0 H s)
    (hc : cls.isMCXLike = true) (hnop : cls.isNop = false)
    (hcs : ∀ c ∈ cs, ¬ Avail s c) (ht0 : Avail s0 t) (ht : ¬ Avail s t)
    (hur : Unread s0 s t) (hnn : ∀ n, Kn n → dictGet? s.qc.qmap n ≠ some t) :
    GIh Kn ρ σ0 s0 (fun q => H q ∨ q = t) s' ∧ Appended cls (cs ++ [t]) s s' ∧
      (∃ g : AGate, g.wires = cs ++ [t] ∧ Lof s0 s' = Lof s0 s ++ [g]) := by
  have ha := append_run h
  have hg' : Good s' := (append_ok (B := fun _ => False) h gi.good hc (by
    intro w hw
    rcases List.mem_append.mp hw with hw | hw
    · exact notAvail_lt (hcs w hw)
    · have : w = t := by simpa using hw
      rw [this]; exact notAvail_lt ht)).good
  unfold append at h
  obtain ⟨b, hb⟩ := run_discard_ok.mp h
  obtain ⟨g, hgc, hgw, hgg, hgcomp⟩ := appendG_push hb hnop
  have hL : Lof s0 s' = Lof s0 s ++ [g] := Lof_push gi.gates hgg
  have hav : ∀ q, Avail s' q ↔ Avail s q := avail_congr ha.free ha.nq
  have htg : g.target = t := by unfold AGate.target; rw [hgw]; simp
  have hdl : g.wires.dropLast = cs := by rw [hgw]; simp
  have hnd : (cs ++ [t]).Nodup := by
    have := (hg'.gates_ok g (by rw [hgg]; simp)).2.1
    rwa [hgw] at this
  have htcs : t ∉ cs := by
    intro hm
    have := (List.nodup_append.mp hnd).2.2 t hm t (by simp)
    exact this rfl
  have hcurne : ∀ q, q ≠ t → cur σ0 s' q = cur σ0 s q := fun q hq => ha.cur_ne hc σ0 q hq
  have htk : ∀ q, TgtL s0 s q → TgtL s0 s' q := by
    rintro q ⟨g', hg1, hg2⟩
    exact ⟨g', by rw [hL]; exact List.mem_append_left _ hg1, hg2⟩
  refine ⟨⟨hg', ?_, ?_, ?_, ?_, ?_, by rw [ha.nq]; exact gi.nq, fun q hq => gi.avail q ((hav q).mp hq),
    ha.kept.trans gi.kept, ?_, ?_, gi.knOK, ?_, by rw [ha.free]; exact gi.freeNd,
    by rw [ha.free, ha.anc]; exact gi.freeAnc, by rw [ha.free, ha.kept]; exact gi.keptNF, ?_,
    by rw [ha.anc, ha.kept]; exact gi.ancOld⟩, ha, g, hgw, hL⟩
  · rw [hgg, Array.toList_push, gi.gates, hL, List.append_assoc]
  · rw [hgcomp, Array.toList_push, gi.comp, hL, List.append_assoc]
  · intro g' hg'm
    rw [hL] at hg'm
    rcases List.mem_append.mp hg'm with hm | hm
    · exact ⟨(gi.tgt g' hm).1, fun h' => (gi.tgt g' hm).2 ((hav _).mp h')⟩
    · have : g' = g := by simpa using hm
      rw [this, htg]; exact ⟨ht0, fun h' => ht ((hav _).mp h')⟩
  · intro g' hg'm c hcm
    rw [hL] at hg'm
    rcases List.mem_append.mp hg'm with hm | hm
    · exact fun h' => gi.ctl g' hm c hcm ((hav _).mp h')
    · have : g' = g := by simpa using hm
      rw [this, hdl] at hcm
      exact fun h' => hcs c hcm ((hav _).mp h')
  · rw [hL, CtlOK.append]
    constructor
    · refine CtlOK.mono' _ _ ?_ gi.ben
      intro g' hg'm c hcm f hq
      have hct : c ≠ t := fun e => hur g' hg'm (e ▸ hcm)
      rw [hcurne c hct]; exact hq
    · refine ⟨fun c hcm => ?_, trivial⟩
      rw [hdl] at hcm
      have hct : c ≠ t := fun e => htcs (e ▸ hcm)
      rw [hcurne c hct, ← cur_of_gates gi.gates]
  · intro q hq
    have hq' := (hav q).mp hq
    rw [hcurne q (fun e => ht (e ▸ hq'))]; exact gi.zero q hq'
  · intro n q hk hq
    rw [ha.qmap] at hq
    obtain ⟨t1, t2, t3⟩ := gi.names n q hk hq
    refine ⟨by rw [ha.free]; exact t1, by rw [ha.anc]; exact t2, ?_⟩
    rw [hcurne q (fun e => hnn n hk (e ▸ hq))]; exact t3
  · intro p hp hn
    rw [ha.expq] at hp
    have hpt : p.2 ≠ t := fun e => hn (Or.inr e)
    obtain ⟨c1, c2, c3⟩ := gi.cache p hp (fun hh => hn (Or.inl hh))
    exact ⟨fun h' => c1 ((hav _).mp h'), by rw [hcurne _ hpt]; exact c2,
      fun h1 h2 => htk _ (c3 (by rw [← ha.anc]; exact h1) (by rw [← ha.kept]; exact h2))⟩
  · intro m hm
    rw [ha.marked] at hm
    obtain ⟨m1, m2, m3, m4⟩ := gi.marks m hm
    exact ⟨by rw [ha.anc]; exact m1, by rw [ha.kept]; exact m2, fun h' => m3 ((hav _).mp h'),
      fun hn => htk _ (m4 (fun hh => hn (Or.inl hh)))⟩

/-- the frame of one gate whose target is `t` -/
theorem gate_fr {cls : GClass} {cs : List Nat} {t : Nat} {s s' : CState} {g : AGate}
    (ha : Appended cls (cs ++ [t]) s s') (hc : cls.isMCXLike = true)
    (hgw : g.wires = cs ++ [t]) (hL : Lof s0 s' = Lof s0 s ++ [g]) :
    Fr Kn σ0 s0 s s' (· = t) NoN (· ∈ cs) := by
  have hav : ∀ q, Avail s' q ↔ Avail s q := avail_congr ha.free ha.nq
  refine ⟨Nat.le_of_eq ha.nq.symm, fun q h => (hav q).mp h, fun m h => by rw [ha.marked]; exact h,
    fun a h => by rw [ha.anc]; exact h, fun a h => Or.inl (by rw [← ha.anc]; exact h), ?_, ha.kept,
    fun q _ hq => ha.cur_ne hc σ0 q hq, ?_, ?_, ?_, ?_⟩
  · rintro q ⟨g', hg1, hg2⟩
    exact ⟨g', by rw [hL]; exact List.mem_append_left _ hg1, hg2⟩
  · intro x hx hcs
    refine ⟨fun h' => hx.nav ((hav x).mp h'), hx.av0, by rw [ha.qmap]; exact hx.nn, by rw [ha.expq]; exact hx.nc,
      ?_, by rw [ha.marked]; exact hx.nm⟩
    intro g' hg'
    rw [hL] at hg'
    rcases List.mem_append.mp hg' with hm | hm
    · exact hx.unread g' hm
    · have : g' = g := by simpa using hm
      rw [this, hgw]; simpa using hcs
  · intro a h1 h2 _ h4
    exact Or.inl ⟨by rw [← ha.anc]; exact h1, by rw [← ha.free]; exact h2, by rw [← ha.marked]; exact h4⟩
  · intro q h1 h2; rw [ha.nq] at h2; exact absurd h2 (by omega)
  · intro q h; rw [ha.free] at h; exact h

/-- a step that changes neither the gate lists nor the values and leaves the quantum-circuit bookkeeping
alone except (possibly) the marked set, which may only grow by in-use unkept ancillas that are targets -/
theorem GIh.of_quiet {H H' : Nat → Prop} {s s' : CState} (gi : GIh Kn ρ σ0 s0 H s) (hg : Good s')
    (hgt : s'.qc.gates = s.qc.gates) (hgc : s'.qc.gatesComputed = s.qc.gatesComputed)
    (hn : s'.qc.numQubits = s.qc.numQubits) (hf : s'.qc.free = s.qc.free) (ha : s'.qc.anc = s.qc.anc)
    (hq : s'.qc.qmap = s.qc.qmap) (hk : s'.qc.kept = s.qc.kept)
    (hm : ∀ m ∈ s'.qc.marked, m ∈ s.qc.marked ∨
      (m ∈ s.qc.anc ∧ m ∉ s.qc.kept ∧ ¬ Avail s m ∧ (¬ H' m → TgtL s0 s m)))
    (hmH : ∀ m ∈ s.qc.marked, ¬ H' m → H m → TgtL s0 s m)
    (hmk : ∀ m ∈ s.qc.marked, m ∈ s'.qc.marked)
    (hc : ∀ p ∈ s'.expq, ¬ H' p.2 → ¬ Avail s p.2 ∧ cur σ0 s p.2 = p.1.eval ρ ∧
      (p.2 ∈ s.qc.anc → p.2 ∉ s.qc.kept → TgtL s0 s p.2)) :
    GIh Kn ρ σ0 s0 H' s' := by
  have hav : ∀ q, Avail s' q ↔ Avail s q := avail_congr hf hn
  have hcur : cur σ0 s' = cur σ0 s := cur_congr hgt
  have hL : Lof s0 s' = Lof s0 s := Lof_congr hgt
  refine ⟨hg, by rw [hgt, hL]; exact gi.gates, by rw [hgc, hL]; exact gi.comp, ?_, ?_, ?_, by rw [hn]; exact gi.nq,
    fun q h => gi.avail q ((hav q).mp h), hk.trans gi.kept, fun q h => by rw [hcur]; exact gi.zero q ((hav q).mp h),
    ?_, gi.knOK, ?_, by rw [hf]; exact gi.freeNd, by rw [hf, ha]; exact gi.freeAnc,
    by rw [hf, hk]; exact gi.keptNF, ?_, by rw [ha, hk]; exact gi.ancOld⟩
  · intro g hg'; rw [hL] at hg'
    exact ⟨(gi.tgt g hg').1, fun h => (gi.tgt g hg').2 ((hav _).mp h)⟩
  · intro g hg' c hc'; rw [hL] at hg'
    exact fun h => gi.ctl g hg' c hc' ((hav _).mp h)
  · rw [hL, hcur]
    exact gi.ben
  · intro n q hkn hq'
    rw [hq] at hq'
    obtain ⟨t1, t2, t3⟩ := gi.names n q hkn hq'
    exact ⟨by rw [hf]; exact t1, by rw [ha]; exact t2, by rw [hcur]; exact t3⟩
  · intro p hp hn'
    obtain ⟨c1, c2, c3⟩ := hc p hp hn'
    exact ⟨fun h => c1 ((hav _).mp h), by rw [hcur]; exact c2,
      fun h1 h2 => by unfold TgtL; rw [hL]; exact c3 (by rw [← ha]; exact h1) (by rw [← hk]; exact h2)⟩
  · intro m hm'
    rcases hm m hm' with h | ⟨h1, h2, h3, h4⟩
    · obtain ⟨m1, m2, m3, m4⟩ := gi.marks m h
      refine ⟨by rw [ha]; exact m1, by rw [hk]; exact m2, fun h' => m3 ((hav _).mp h'), fun hn => ?_⟩
      unfold TgtL; rw [hL]
      by_cases hH : H m
      · exact hmH m h hn hH
      · exact m4 hH
    · exact ⟨by rw [ha]; exact h1, by rw [hk]; exact h2, fun h' => h3 ((hav _).mp h'),
        fun hn => by unfold TgtL; rw [hL]; exact h4 hn⟩

/-- the frame of such a step; `C` the qubits it marks or caches -/
theorem Fr.of_quiet {C : Nat → Prop} {s s' : CState}
    (hgt : s'.qc.gates = s.qc.gates)
    (hn : s'.qc.numQubits = s.qc.numQubits) (hf : s'.qc.free = s.qc.free) (ha : s'.qc.anc = s.qc.anc)
    (hq : s'.qc.qmap = s.qc.qmap) (hk : s'.qc.kept = s.qc.kept)
    (hm : ∀ m ∈ s'.qc.marked, m ∈ s.qc.marked ∨ C m)
    (hmk : ∀ m ∈ s.qc.marked, m ∈ s'.qc.marked)
    (hc : ∀ p ∈ s'.expq, p ∈ s.expq ∨ C p.2) :
    Fr Kn σ0 s0 s s' NoN NoN C := by
  have hav : ∀ q, Avail s' q ↔ Avail s q := avail_congr hf hn
  have hL : Lof s0 s' = Lof s0 s := Lof_congr hgt
  refine ⟨Nat.le_of_eq hn.symm, fun q h => (hav q).mp h, hmk, fun a h => by rw [ha]; exact h,
    fun a h => Or.inl (by rw [← ha]; exact h),
    fun q h => by unfold TgtL; rw [hL]; exact h, hk, fun q _ _ => by rw [cur_congr hgt], ?_, ?_,
    fun q h1 h2 => absurd h2 (by rw [hn]; omega), fun q h => by rw [hf] at h; exact h⟩
  · intro x hx hcx
    refine ⟨fun h => hx.nav ((hav x).mp h), hx.av0, by rw [hq]; exact hx.nn, ?_, by unfold Unread; rw [hL]; exact hx.unread,
      fun h => (hm x h).elim hx.nm hcx⟩
    intro p hp e
    rcases hc p hp with h | h
    · exact hx.nc p h e
    · exact hcx (e ▸ h)
  · intro a h1 h2 _ h4
    exact Or.inl ⟨by rw [← ha]; exact h1, by rw [← hf]; exact h2, fun h => h4 (hmk a h)⟩

theorem event_gi {H : Nat → Prop} {e : String} {u : Unit} {s s' : CState} (h : (event e).run s = .ok (u, s'))
    (gi : GIh Kn ρ σ0 s0 H s) : GIh Kn ρ σ0 s0 H s' ∧ Fr Kn σ0 s0 s s' NoN NoN NoN ∧ cur σ0 s' = cur σ0 s := by
  have := event_run h; subst this
  exact ⟨gi.of_quiet (gi.good.of_eq rfl rfl rfl rfl rfl rfl rfl rfl rfl) rfl rfl rfl rfl rfl rfl rfl
      (fun m hm => Or.inl hm) (fun _ _ hn hh => absurd hh hn) (fun m hm => hm) (fun p hp hn => gi.cache p hp hn),
    Fr.of_quiet rfl rfl rfl rfl rfl rfl (fun m hm => Or.inl hm) (fun m hm => hm) (fun p hp => Or.inl hp), rfl⟩

/-- a qubit that `markAll` marks is not a kept ancilla -/
theorem markAll_notKept : ∀ (ws : List Nat) {u : Unit} {s s' : CState}, (markAll ws).run s = .ok (u, s') →
    ∀ m ∈ s'.qc.marked, m ∉ s.qc.marked → m ∉ s.qc.kept
  | [], u, s, s', h, m, hm, hm0, _ => by
    unfold markAll at h
    obtain ⟨_, rfl⟩ := run_pure_ok.mp h
    exact hm0 hm
  | w :: ws, u, s, s', h, m, hm, hm0, hk => by
    unfold markAll at h
    obtain ⟨u1, s1, h1, h2⟩ := run_bind_ok.mp h
    obtain ⟨_, a⟩ := markAncilla_run2 h1
    by_cases hm1 : m ∈ s1.qc.marked
    · rcases a with ⟨e, _⟩ | ⟨e, _, hwk⟩
      · rw [e] at hm1; exact hm0 hm1
      · rw [e] at hm1
        rcases mem_setIns hm1 with h' | h'
        · exact hm0 h'
        · exact hwk (h' ▸ hk)
    · have hk1 : s1.qc.kept = s.qc.kept := by
        rcases a with ⟨e, _⟩ | ⟨e, _, _⟩ <;> rw [e]
      exact markAll_notKept ws h2 m hm hm1 (by rw [hk1]; exact hk)

/-- `mark_ancilla` on each of `ws` (qubits in use; the ancillas among them are targets of gates of the
statement) -/
theorem markAll_gi {H : Nat → Prop} {ws : List Nat} {u : Unit} {s s' : CState}
    (h : (markAll ws).run s = .ok (u, s')) (gi : GIh Kn ρ σ0 s0 H s)
    (hws : ∀ w ∈ ws, ¬ Avail s w ∧ (w ∈ s.qc.anc → w ∉ s.qc.kept → ¬ H w → TgtL s0 s w)) :
    GIh Kn ρ σ0 s0 H s' ∧ Fr Kn σ0 s0 s s' NoN NoN (· ∈ ws) ∧ cur σ0 s' = cur σ0 s ∧
      (∀ m ∈ ws, m ∈ s.qc.anc → m ∉ s.qc.kept → m ∈ s'.qc.marked) ∧ s'.qc.anc = s.qc.anc ∧ s'.expq = s.expq ∧
      s'.qc.free = s.qc.free ∧ s'.qc.numQubits = s.qc.numQubits := by
  obtain ⟨b0, b1, b2, b3, b4, b5, b6, bk, b7, b8, b9⟩ := markAll_run2 ws h
  have hg : Good s' := (markAll_ok (B := fun _ => False) ws h gi.good).good
  have hkept : ∀ m ∈ s'.qc.marked, m ∈ s.qc.marked ∨ (m ∈ ws ∧ m ∈ s.qc.anc ∧ m ∉ s.qc.kept) := by
    intro m hm
    by_cases hm0 : m ∈ s.qc.marked
    · exact Or.inl hm0
    · rcases b7 m hm with h' | ⟨h1, h2⟩
      · exact absurd h' hm0
      · refine Or.inr ⟨h1, h2, fun hk => ?_⟩
        -- a kept ancilla is never marked: `Good` does not say so, use the run of `markAll`
        exact markAll_notKept ws h m hm hm0 hk
  refine ⟨gi.of_quiet hg b1 b2 b3 b4 b5 b6 bk ?_ (fun _ _ hn hh => absurd hh hn) b8
      (fun p hp hn => gi.cache p (by rw [← b0]; exact hp) hn),
    Fr.of_quiet b1 b3 b4 b5 b6 bk (fun m hm => (hkept m hm).imp id (fun x => x.1)) b8
      (fun p hp => Or.inl (by rw [← b0]; exact hp)), cur_congr b1, b9, b5, b0, b4, b3⟩
  intro m hm
  rcases hkept m hm with h' | ⟨h1, h2, h3⟩
  · exact Or.inl h'
  · exact Or.inr ⟨h2, h3, (hws m h1).1, (hws m h1).2 h2 h3⟩

theorem expqSet_run3 {e : BExp} {q : Nat} {u : Unit} {s s' : CState} (h : (expqSet e q).run s = .ok (u, s')) :
    s'.qc = s.qc ∧ ∀ p ∈ s'.expq, (p ∈ s.expq ∧ p.2 ≠ q) ∨ p = (e, q) := by
  unfold expqSet at h
  simp only [run_bind_ok] at h
  obtain ⟨u1, s1, h1, h2⟩ := h
  unfold expqRemove at h1
  have := run_modify_ok.mp h1; subst this
  have := run_modify_ok.mp h2; subst this
  have hfil : ∀ p0 ∈ s.expq.filter (fun p => ![q].contains p.2), p0 ∈ s.expq ∧ p0.2 ≠ q := by
    intro p0 hp0
    obtain ⟨m1, m2⟩ := List.mem_filter.mp hp0
    exact ⟨m1, by simpa using m2⟩
  dsimp only
  split
  · refine ⟨rfl, fun p hp => ?_⟩
    simp only [List.mem_map] at hp
    obtain ⟨p0, hp0, rfl⟩ := hp
    split
    · exact Or.inr rfl
    · exact Or.inl (hfil p0 hp0)
  · refine ⟨rfl, fun p hp => ?_⟩
    simp only [List.mem_append, List.mem_singleton] at hp
    rcases hp with hp | rfl
    · exact Or.inl (hfil p hp)
    · exact Or.inr rfl

/-- `expqmap[e] = q` for a qubit in use that holds the value of `e`; closes a hole on `q` -/
theorem expqSet_gi {H : Nat → Prop} {e : BExp} {q : Nat} {u : Unit} {s s' : CState}
    (h : (expqSet e q).run s = .ok (u, s')) (gi : GIh Kn ρ σ0 s0 (fun x => H x ∨ x = q) s)
    (hq : ¬ Avail s q) (hv : cur σ0 s q = e.eval ρ) (ht : q ∈ s.qc.anc → q ∉ s.qc.kept → TgtL s0 s q) :
    GIh Kn ρ σ0 s0 H s' ∧ Fr Kn σ0 s0 s s' NoN NoN (· = q) ∧ cur σ0 s' = cur σ0 s ∧ s'.qc = s.qc ∧
      (e, q) ∈ s'.expq := by
  obtain ⟨hqc, hk⟩ := expqSet_run3 h
  have hg : Good s' := (expqSet_ok (B := fun _ => False) h gi.good (notAvail_lt hq)).good
  have hcur : cur σ0 s' = cur σ0 s := by unfold cur; rw [hqc]
  refine ⟨gi.of_quiet hg (by rw [hqc]) (by rw [hqc]) (by rw [hqc]) (by rw [hqc]) (by rw [hqc]) (by rw [hqc])
      (by rw [hqc]) (fun m hm => Or.inl (by rw [← hqc]; exact hm)) ?_ (fun m hm => by rw [hqc]; exact hm) ?_,
    Fr.of_quiet (by rw [hqc]) (by rw [hqc]) (by rw [hqc]) (by rw [hqc]) (by rw [hqc]) (by rw [hqc])
      (fun m hm => Or.inl (by rw [← hqc]; exact hm)) (fun m hm => by rw [hqc]; exact hm)
      (fun p hp => (hk p hp).elim (fun x => Or.inl x.1) (fun x => Or.inr (by rw [x]))), hcur, hqc, ?_⟩
  · intro m hm hn hh
    rcases hh with hh | hh
    · exact absurd hh hn
    · obtain ⟨m1, m2, _, _⟩ := gi.marks m hm
      exact hh ▸ ht (hh ▸ m1) (hh ▸ m2)
  · intro p hp hn
    rcases hk p hp with ⟨h1, h2⟩ | rfl
    · exact gi.cache p h1 (fun hh => hh.elim hn h2)
    · exact ⟨hq, hv, ht⟩
  · unfold expqSet at h
    simp only [run_bind_ok] at h
    obtain ⟨u1, s1, h1, h2⟩ := h
    have := run_modify_ok.mp h2; subst this
    split
    · next hany =>
      simp only [List.any_eq_true] at hany
      obtain ⟨p0, hp0, hpe⟩ := hany
      simp only [List.mem_map]
      exact ⟨p0, hp0, by simp [hpe]⟩
    · simp

/-- `get_free_ancilla`: the qubit handed out comes from the scratch space (so it is zero), leaves it, is an
ancilla that is not kept, and nobody knows it yet -/
theorem getFreeAncilla_gi {a : Nat} {s s' : CState}
    (h : getFreeAncilla.run s = .ok (a, s')) (gi : GI Kn ρ σ0 s0 s) :
    GI Kn ρ σ0 s0 s' ∧ Fr Kn σ0 s0 s s' NoN (· = a) NoN ∧ cur σ0 s' = cur σ0 s ∧ Avail s a ∧
      PrivD Kn s0 s' a ∧ a ∈ s'.qc.anc ∧ a ∉ s'.qc.kept ∧ s'.qc.marked = s.qc.marked ∧ s'.expq = s.expq := by
  have hg' : Good s' := (getFreeAncilla_ok (B := fun _ => False) h gi.good).1.good
  obtain ⟨hex, hgt, hgc, hmk, hkp, hcase⟩ := getFreeAncilla_run2 h
  have hcur : cur σ0 s' = cur σ0 s := cur_congr hgt
  have hL : Lof s0 s' = Lof s0 s := Lof_congr hgt
  -- facts common to both cases, from: the scratch space shrinks by `a`, the ancilla set grows by at most `a`
  have common : Avail s a → ¬ Avail s' a → (∀ q, Avail s' q → Avail s q) → s.qc.numQubits ≤ s'.qc.numQubits →
      (∀ x ∈ s'.qc.anc, x ∈ s.qc.anc ∨ x = a) → (∀ x ∈ s.qc.anc, x ∈ s'.qc.anc) → a ∈ s'.qc.anc →
      (∀ x ∈ s'.qc.free, x ∈ s.qc.free ∧ x ≠ a) → (∀ x ∈ s.qc.free, x ≠ a → x ∈ s'.qc.free) → s'.qc.free.Nodup →
      (∀ n q, Kn n → dictGet? s'.qc.qmap n = some q → dictGet? s.qc.qmap n = some q) →
      (∀ q, s.qc.numQubits ≤ q → q < s'.qc.numQubits → q = a) →
      GI Kn ρ σ0 s0 s' ∧ Fr Kn σ0 s0 s s' NoN (· = a) NoN ∧ cur σ0 s' = cur σ0 s ∧ Avail s a ∧
      PrivD Kn s0 s' a ∧ a ∈ s'.qc.anc ∧ a ∉ s'.qc.kept ∧ s'.qc.marked = s.qc.marked ∧ s'.expq = s.expq := by
    intro hava hnava hav hnq hancs hanck hanca hfree hfreek hfnd hqm hnew
    have hakept : a ∉ s.qc.kept := by
      intro hk
      rcases hava with h' | h'
      · exact gi.keptNF a hk h'
      · exact absurd (gi.good.kept_lt a hk) (by omega)
    have htk : ∀ q, TgtL s0 s q → TgtL s0 s' q := fun q h' => by unfold TgtL; rw [hL]; exact h'
    have hnc : ∀ p ∈ s.expq, p.2 ≠ a := fun p hp e => (gi.cache p hp (fun hh => hh)).1 (e ▸ hava)
    refine ⟨⟨hg', by rw [hgt, hL]; exact gi.gates, by rw [hgc, hL]; exact gi.comp, ?_, ?_, ?_,
        Nat.le_trans gi.nq hnq, fun q h' => gi.avail q (hav q h'), hkp.trans gi.kept,
        fun q h' => by rw [hcur]; exact gi.zero q (hav q h'), ?_, gi.knOK, ?_, hfnd, ?_, ?_, ?_, ?_⟩,
      ⟨hnq, hav, fun m hm => by rw [hmk]; exact hm, hanck,
        fun x hx => (hancs x hx).imp id (fun (e : x = a) => e ▸ hava), htk, hkp, fun q _ _ => by rw [hcur], ?_, ?_,
        fun q h1 h2 => Or.inl (hnew q h1 h2 ▸ hanca), fun q h' => (hfree q h').1⟩,
      hcur, hava, ⟨hnava, gi.avail a hava, ?_, by rw [hex]; exact hnc, ?_, ?_⟩, hanca, by rw [hkp]; exact hakept,
      hmk, hex⟩
    · intro g hg; rw [hL] at hg
      exact ⟨(gi.tgt g hg).1, fun h' => (gi.tgt g hg).2 (hav _ h')⟩
    · intro g hg c hc; rw [hL] at hg
      exact fun h' => gi.ctl g hg c hc (hav _ h')
    · rw [hL, hcur]; exact gi.ben
    · intro n q hk hq
      obtain ⟨t1, t2, t3⟩ := gi.names n q hk (hqm n q hk hq)
      refine ⟨fun h' => t1 (hfree q h').1, fun h' => ?_, by rw [hcur]; exact t3⟩
      rcases hancs q h' with h'' | h''
      · exact t2 h''
      · -- the qubit of a known name is in use, `a` was in the scratch space
        have hnav : ¬ Avail s q := by
          rintro (hf | hf)
          · exact t1 hf
          · exact absurd (gi.good.qmap_lt _ (dictGet?_mem (hqm n q hk hq))) (by simp only; omega)
        exact hnav (h'' ▸ hava)
    · intro p hp _
      rw [hex] at hp
      obtain ⟨c1, c2, c3⟩ := gi.cache p hp (fun hh => hh)
      refine ⟨fun h' => c1 (hav _ h'), by rw [hcur]; exact c2, fun h1 h2 => htk _ (c3 ?_ (by rw [← hkp]; exact h2))⟩
      rcases hancs _ h1 with h'' | h''
      · exact h''
      · exact absurd (h'' ▸ hava) c1
    · intro q hq
      exact hanck q (gi.freeAnc q (hfree q hq).1)
    · intro k hk hf
      rw [hkp] at hk
      exact gi.keptNF k hk (hfree k hf).1
    · intro m hm
      rw [hmk] at hm
      obtain ⟨m1, m2, m3, m4⟩ := gi.marks m hm
      exact ⟨hanck m m1, by rw [hkp]; exact m2, fun h' => m3 (hav _ h'), fun hn => htk _ (m4 hn)⟩
    · intro x hx
      rw [hkp]
      rcases hancs x hx with h' | h'
      · exact gi.ancOld x h'
      · exact Or.inr (h' ▸ gi.avail a hava)
    · intro x hx _
      refine ⟨fun h' => hx.nav (hav x h'), hx.av0, fun n hk hq => hx.nn n hk (hqm n x hk hq),
        by rw [hex]; exact hx.nc, by unfold Unread; rw [hL]; exact hx.unread, by rw [hmk]; exact hx.nm⟩
    · intro x h1 h2 _ h4
      rcases hancs x h1 with h' | h'
      · by_cases hxa : x = a
        · exact Or.inr hxa
        · exact Or.inl ⟨h', fun hf => h2 (hfreek x hf hxa), by rw [← hmk]; exact h4⟩
      · exact Or.inr h'
    · intro n hk hq
      have hq0 := hqm n a hk hq
      obtain ⟨t1, _, _⟩ := gi.names n a hk hq0
      rcases hava with hf | hf
      · exact t1 hf
      · exact absurd (gi.good.qmap_lt _ (dictGet?_mem hq0)) (by simp only; omega)
    · intro g hg hc
      rw [hL] at hg
      exact gi.ctl g hg a hc hava
    · rw [hmk]
      exact fun hm => (gi.marks a hm).2.2.1 hava
  rcases hcase with ⟨hf0, ha, hn, hf', hanc, hqm⟩ | ⟨haf, hn, hf', hanc, hqm⟩
  · apply common
    · exact Or.inr (by omega)
    · unfold Avail; rw [hf', hn]
      rintro (h' | h')
      · cases h'
      · omega
    · intro q hq; unfold Avail at hq ⊢; rw [hf', hn] at hq
      rcases hq with hq | hq
      · cases hq
      · exact Or.inr (by omega)
    · omega
    · intro x hx; rw [hanc] at hx; exact mem_setIns hx
    · intro x hx; rw [hanc]; exact mem_setIns_of_mem hx
    · rw [hanc]; exact mem_setIns_self
    · intro x hx; rw [hf'] at hx; cases hx
    · intro x hx; rw [hf0] at hx; cases hx
    · rw [hf']; exact List.nodup_nil
    · intro n q hk hq
      have hna := gi.knOK n hk
      rw [hqm, dictGet?_dictSet_ne (by rintro rfl; rw [ancLike_anc] at hna; cases hna)] at hq
      exact hq
    · intro q h1 h2; omega
  · apply common
    · exact Or.inl haf
    · unfold Avail; rw [hf', hn]
      rintro (h' | h')
      · exact ((gi.freeNd.mem_erase_iff).mp h').1 rfl
      · have := gi.good.free_lt a haf; omega
    · intro q hq; unfold Avail at hq ⊢; rw [hf', hn] at hq
      exact hq.imp List.mem_of_mem_erase id
    · omega
    · intro x hx; rw [hanc] at hx; exact Or.inl hx
    · intro x hx; rw [hanc]; exact hx
    · rw [hanc]; exact gi.freeAnc a haf
    · intro x hx; rw [hf'] at hx
      exact ⟨List.mem_of_mem_erase hx, fun e => ((gi.freeNd.mem_erase_iff).mp (e ▸ hx)).1 rfl⟩
    · intro x hx hxa; rw [hf']; exact (List.mem_erase_of_ne hxa).mpr hx
    · rw [hf']; exact gi.freeNd.erase a
    · intro n q _ hq; rw [hqm] at hq; exact hq
    · intro q h1 h2; omega

end QV.Compiler
