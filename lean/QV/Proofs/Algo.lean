import Mathlib.Tactic.Ring
import QV.Proofs.Hadamard
import QV.Model.Algo
import QV.Proofs.Types
/-!
# Helper lemmas for C16: classical gates as involutions, the prepared states, the oracle step
-/
namespace QV.Amp
open QV QV.Algo

/-! ## classical steps -/

/-- well-formed classical part: X/CX/CCX/MCX with distinct wires (what `QCircuit.append`
admits), or barriers -/
def wfGate (g : AGate) : Bool := (g.cls.isMCXLike && decide g.wires.Nodup) || g.cls.isNop

def wfOracle (gs : List AGate) : Bool := gs.all wfGate

theorem flip_flip (s : BState) (t : Nat) : (s.flip t).flip t = s := by
  apply List.ext_getElem?
  intro j
  simp only [BState.flip, List.getElem?_modify]
  by_cases h : t = j
  · subst h; cases s[t]? <;> simp
  · simp [h]

theorem flip_getD_ne (s : BState) (t c : Nat) (h : c ≠ t) : (s.flip t).getD c false = s.getD c false := by
  simp only [BState.flip, List.getD_eq_getElem?_getD, List.getElem?_modify]
  have : ¬ t = c := fun e => h e.symm
  simp [this]

theorem flip_length (s : BState) (t : Nat) : (s.flip t).length = s.length := by
  simp [BState.flip]

theorem applyClassical_invol (g : AGate) (hn : g.wires.Nodup) (s : BState) :
    g.applyClassical (g.applyClassical s) = s := by
  unfold AGate.applyClassical
  cases hl : g.wires.getLast? with
  | none => rfl
  | some t =>
    obtain ⟨ys, hw⟩ := List.getLast?_eq_some_iff.mp hl
    have hd : g.wires.dropLast = ys := by rw [hw]; simp
    have hnot : t ∉ ys := by
      rw [hw] at hn
      have := (List.nodup_append.mp hn).2.2
      intro hmem
      exact this t hmem t (by simp) rfl
    have hctl : ∀ s' : BState, (ys.all fun c => (s'.flip t).getD c false)
        = ys.all fun c => s'.getD c false := by
      intro s'
      rw [Bool.eq_iff_iff]
      simp only [List.all_eq_true]
      have hne : ∀ c, c ∈ ys → c ≠ t := fun c hc e => hnot (e ▸ hc)
      constructor
      · intro H c hc; have := H c hc; rwa [flip_getD_ne _ _ _ (hne c hc)] at this
      · intro H c hc; rw [flip_getD_ne _ _ _ (hne c hc)]; exact H c hc
    simp only [hd]
    by_cases hc : (ys.all fun c => s.getD c false) = true
    · simp only [hc, if_true, hctl, flip_flip]
    · have hc' : (ys.all fun c => s.getD c false) = false := by simpa using hc
      simp only [hc', Bool.false_eq_true, if_false]

theorem applyClassical_length (g : AGate) (s : BState) : (g.applyClassical s).length = s.length := by
  unfold AGate.applyClassical
  cases g.wires.getLast? with
  | none => rfl
  | some t => simp only; split <;> simp [flip_length]

theorem step_step (g : AGate) (h : wfGate g = true) (s : BState) : step g (step g s) = s := by
  unfold step
  by_cases hm : g.cls.isMCXLike = true
  · have hn : g.wires.Nodup := by
      simp only [wfGate, hm, Bool.true_and, Bool.or_eq_true, decide_eq_true_eq] at h
      rcases h with h | h
      · exact h
      · cases hc : g.cls <;> simp [hc, GClass.isMCXLike, GClass.isNop] at hm h
    simp only [hm, if_true]
    exact applyClassical_invol g hn s
  · simp [hm]

theorem step_length (g : AGate) (s : BState) : (step g s).length = s.length := by
  unfold step; split
  · exact applyClassical_length g s
  · rfl

/-- the oracle run backwards on a basis state -/
def back (gs : List AGate) (b : BState) : BState := gs.foldr step b

theorem runClassical_eq (gs : List AGate) (s : BState) : runClassical gs s = gs.foldl (fun s g => step g s) s := rfl

theorem back_fwd : ∀ (gs : List AGate), wfOracle gs = true → ∀ s, back gs (runClassical gs s) = s
  | [], _, s => rfl
  | g :: gs, h, s => by
    simp only [wfOracle, List.all_cons, Bool.and_eq_true] at h
    rw [runClassical_eq, List.foldl_cons, ← runClassical_eq]
    show step g (back gs (runClassical gs (step g s))) = s
    rw [back_fwd gs h.2, step_step g h.1]

theorem fwd_back : ∀ (gs : List AGate), wfOracle gs = true → ∀ s, runClassical gs (back gs s) = s
  | [], _, s => rfl
  | g :: gs, h, s => by
    simp only [wfOracle, List.all_cons, Bool.and_eq_true] at h
    show runClassical (g :: gs) (step g (back gs s)) = s
    rw [runClassical_eq, List.foldl_cons, step_step g h.1, ← runClassical_eq, fwd_back gs h.2]

theorem back_length : ∀ (gs : List AGate) (s : BState), (back gs s).length = s.length
  | [], _ => rfl
  | g :: gs, s => by
    show (step g (back gs s)).length = _
    rw [step_length, back_length gs s]

/-! ## `run` -/

theorem run_append (a b : List AGate) (ψ : State) : run (a ++ b) ψ = run b (run a ψ) := by
  simp [run, List.foldl_append]

theorem run_cons (g : AGate) (gs : List AGate) (ψ : State) : run (g :: gs) ψ = run gs (applyGate g ψ) := rfl

theorem run_nil (ψ : State) : run [] ψ = ψ := rfl

theorem applyGate_barrier (l : String) (ψ : State) : applyGate (barrier l) ψ = ψ := rfl

theorem applyGate_gH (i : Nat) (ψ : State) : applyGate (gH i) ψ = applyH i ψ := rfl
theorem applyGate_gZ (i : Nat) (ψ : State) : applyGate (gZ i) ψ = applyZ i ψ := rfl
theorem applyGate_gX (i : Nat) (ψ : State) : applyGate (gX i) ψ = fun b => ψ (BState.flip b i) := by
  funext b
  simp [applyGate, gX, GClass.isMCXLike, AGate.applyClassical]

theorem run_hLayer (n : Nat) (ψ : State) : run (hLayer n) ψ = layer n ψ := by
  induction n with
  | zero => rfl
  | succ n ih =>
    simp only [hLayer, List.range_succ, List.map_append, List.map_cons, List.map_nil] at *
    rw [run_append, ih]
    rfl

theorem applyGate_wf (g : AGate) (h : wfGate g = true) (ψ : State) :
    applyGate g ψ = fun b => ψ (step g b) := by
  funext b
  unfold applyGate step
  by_cases hm : g.cls.isMCXLike = true
  · simp [hm]
  · simp only [hm]
    simp only [wfGate, Bool.or_eq_true, Bool.and_eq_true] at h
    rcases h with h | h
    · exact absurd h.1 hm
    · cases hc : g.cls <;> simp [hc, GClass.isNop] at h ⊢

/-- a well-formed classical gate list acts on amplitudes by precomposition with its inverse -/
theorem run_oracle : ∀ (gs : List AGate), wfOracle gs = true → ∀ (ψ : State) (b : BState),
    run gs ψ b = ψ (back gs b)
  | [], _, ψ, b => rfl
  | g :: gs, h, ψ, b => by
    simp only [wfOracle, List.all_cons, Bool.and_eq_true] at h
    rw [run_cons, run_oracle gs h.2, applyGate_wf g h.1]
    rfl

/-! ## the prepared states -/

/-- the non-input qubits all `0` except qubit `k`, which holds `r` -/
def embed (m k : Nat) (r : Bool) : List Bool := (zeros m).set k r

theorem allFalse_eq_zeros : ∀ (l : List Bool), allFalse l = true → l = zeros l.length
  | [], _ => rfl
  | b :: l, h => by
    simp only [allFalse, List.all_cons, Bool.and_eq_true, Bool.not_eq_true'] at h
    have := allFalse_eq_zeros l h.2
    simp only [zeros] at this
    rw [h.1]
    simp only [zeros, List.length_cons, List.replicate_succ]
    rw [← this]

theorem allFalse_zeros (m : Nat) : allFalse (zeros m) = true := by
  simp [allFalse, zeros]

theorem ket0_eq (l : List Bool) : ket0 l = if allFalse l then 1 else 0 := rfl

theorem rest_eq_embed (rest : List Bool) (m k : Nat) (hl : rest.length = m) (hk : k < m)
    (h : allFalse (rest.set k false) = true) : rest = embed m k (rest.getD k false) := by
  have hz := allFalse_eq_zeros _ h
  simp only [List.length_set, hl] at hz
  have hk' : k < rest.length := by omega
  unfold embed
  rw [← hz, List.set_set]
  simp [List.getD_eq_getElem?_getD, hk']

theorem embed_length (m k : Nat) (r : Bool) : (embed m k r).length = m := by simp [embed, zeros]

theorem embed_set_false (m k : Nat) (r : Bool) : (embed m k r).set k false = zeros m := by
  unfold embed
  rw [List.set_set]
  apply List.ext_getElem?
  intro j
  simp only [zeros, List.getElem?_set, List.getElem?_replicate, List.length_replicate]
  split <;> simp_all

theorem embed_getD (m k : Nat) (r : Bool) (hk : k < m) : (embed m k r).getD k false = r := by
  simp [embed, zeros, List.getD_eq_getElem?_getD, hk]

theorem flip_set (l : List Bool) (k : Nat) (v : Bool) : BState.flip (l.set k v) k = l.set k (!v) := by
  apply List.ext_getElem?
  intro j
  simp only [BState.flip, List.getElem?_modify, List.getElem?_set]
  by_cases h : k = j
  · subst h; by_cases h2 : k < l.length <;> simp [h2]
  · simp [h]

theorem flip_append_right (x rest : List Bool) (k : Nat) :
    BState.flip (x ++ rest) (x.length + k) = x ++ BState.flip rest k := by
  induction x with
  | nil => simp [BState.flip]
  | cons a x ih =>
    have e : (a :: x).length + k = (x.length + k) + 1 := by simp only [List.length_cons]; omega
    simp only [BState.flip] at ih ⊢
    rw [e, List.cons_append, List.modify_succ_cons, ih]
    rfl

theorem ket0_set_true (l : List Bool) (k : Nat) (hk : k < l.length) : ket0 (l.set k true) = 0 := by
  have : (l.set k true).all (fun x => !x) = false := by
    rw [List.all_eq_false]
    refine ⟨true, ?_, by simp⟩
    exact List.mem_iff_getElem.mpr ⟨k, by simpa using hk, by simp⟩
  simp [ket0, this]

theorem getD_append_right' (x rest : List Bool) (k : Nat) :
    (x ++ rest).getD (x.length + k) false = rest.getD k false := by
  simp [List.getD_eq_getElem?_getD, List.getElem?_append_right]

theorem first_layer (n : Nat) (x r : List Bool) (h : x.length = n) : layer n ket0 (x ++ r) = ket0 r := by
  rw [hadamard_layer_aux n ket0 x r h, sum_ket0]

/-- what the state before the oracle looks like: `|x⟩ ⊗ |0…0⟩ ⊗ |−⟩` on qubit `n+k` -/
def MinusSpec (ψ : State) (n m k : Nat) : Prop :=
  ∀ x rest : List Bool, x.length = n → rest.length = m →
    ψ (x ++ rest) = if allFalse (rest.set k false) then sgn (rest.getD k false) else 0

/-- Deutsch-Jozsa preparation: H layer, then `X; H` on the result qubit -/
theorem dj_prep (n m k : Nat) (hk : k < m) :
    MinusSpec (run ([barrier "s"] ++ hLayer n ++ [gX (n+k), gH (n+k)]) ket0) n m k := by
  intro x rest hx hr
  subst hx
  rw [run_append, run_append, run_hLayer]
  simp only [run_cons, run_nil, applyGate_barrier, applyGate_gX, applyGate_gH]
  unfold applyH
  have hlen : x.length + k < (x ++ rest).length := by simp [hr, hk]
  have hk' : k < rest.length := by omega
  have hnl : ¬ (x.length + k < x.length) := by omega
  simp only [hlen, if_true, List.set_append, hnl, if_false, Nat.add_sub_cancel_left]
  rw [flip_append_right, flip_append_right, flip_set, flip_set,
    first_layer _ x _ rfl, first_layer _ x _ rfl]
  rw [getD_append_right']
  simp only [Bool.not_false, Bool.not_true, ket0_set_true rest k hk', ket0_eq]
  split <;> simp

/-- Bernstein-Vazirani preparation: H layer, then `H; Z` on the result qubit -/
theorem bv_prep (n m k : Nat) (hk : k < m) :
    MinusSpec (run ([barrier "s"] ++ hLayer n ++ [gH (n+k), gZ (n+k)]) ket0) n m k := by
  intro x rest hx hr
  subst hx
  rw [run_append, run_append, run_hLayer]
  simp only [run_cons, run_nil, applyGate_barrier, applyGate_gZ, applyGate_gH]
  unfold applyZ applyH
  have hlen : x.length + k < (x ++ rest).length := by simp [hr, hk]
  have hk' : k < rest.length := by omega
  have hnl : ¬ (x.length + k < x.length) := by omega
  simp only [hlen, if_true, List.set_append, hnl, if_false, Nat.add_sub_cancel_left]
  rw [first_layer _ x _ rfl, first_layer _ x _ rfl]
  rw [getD_append_right']
  simp only [ket0_set_true rest k hk', ket0_eq]
  split <;> cases rest.getD k false <;> simp [sgn]

/-! ## the oracle step -/

/-- a clean xor-oracle for `f`: on classical basis states, with every non-input qubit but the
result qubit at `0`, the gate list maps `x, r ↦ x, r ⊕ f x` and returns the others to `0` -/
def XorOracle (gs : List AGate) (n m k : Nat) (f : List Bool → Bool) : Prop :=
  wfOracle gs = true ∧
  ∀ (x : List Bool) (r : Bool), x.length = n →
    runClassical gs (x ++ embed m k r) = x ++ embed m k (Bool.xor r (f x))

theorem oracle_phase (ψ : State) (gs : List AGate) (n m k : Nat) (f : List Bool → Bool)
    (hψ : MinusSpec ψ n m k) (hO : XorOracle gs n m k f) (hk : k < m)
    (x rest : List Bool) (hx : x.length = n) (hr : rest.length = m) :
    run gs ψ (x ++ rest) =
      if allFalse (rest.set k false) then sgn (rest.getD k false) * sgn (f x) else 0 := by
  rw [run_oracle gs hO.1]
  by_cases hA : allFalse (rest.set k false) = true
  · simp only [hA, if_true]
    have hrest := rest_eq_embed rest m k hr hk hA
    generalize rest.getD k false = r at hrest
    have h1 := hO.2 x (Bool.xor r (f x)) hx
    have h2 : Bool.xor (Bool.xor r (f x)) (f x) = r := by cases r <;> cases f x <;> rfl
    rw [h2, ← hrest] at h1
    rw [← h1, back_fwd gs hO.1, hψ x _ hx (embed_length m k _), embed_set_false, allFalse_zeros,
      embed_getD m k _ hk, sgn_xor]
    simp
  · simp only [hA]
    have hlen : (back gs (x ++ rest)).length = n + m := by simp [back_length, hx, hr]
    obtain ⟨x', rest', hb, hx', hr'⟩ : ∃ x' rest', back gs (x ++ rest) = x' ++ rest' ∧ x'.length = n ∧ rest'.length = m :=
      ⟨(back gs (x ++ rest)).take n, (back gs (x ++ rest)).drop n, (List.take_append_drop _ _).symm,
        by simp [hlen], by simp [hlen]⟩
    rw [hb, hψ x' rest' hx' hr']
    by_cases hB : allFalse (rest'.set k false) = true
    · exfalso
      have hrest' := rest_eq_embed rest' m k hr' hk hB
      have h1 := hO.2 x' (rest'.getD k false) hx'
      rw [← hrest', ← hb, fwd_back gs hO.1] at h1
      have := (List.append_inj h1 (by rw [hx, hx'])).2
      apply hA
      rw [this, embed_set_false, allFalse_zeros]
    · simp [hB]

/-- the amplitudes of the Deutsch-Jozsa / Bernstein-Vazirani circuit, for every `n` -/
theorem sandwich_amp (prep gs : List AGate) (n m k : Nat) (f : List Bool → Bool)
    (hψ : MinusSpec (run prep ket0) n m k) (hO : XorOracle gs n m k f) (hk : k < m)
    (y rest : List Bool) (hy : y.length = n) (hr : rest.length = m) :
    run (prep ++ [barrier "f"] ++ gs ++ [barrier "s"] ++ hLayer n) ket0 (y ++ rest) =
      if allFalse (rest.set k false) then
        sgn (rest.getD k false) * sumBits n (fun x => sgn (dot x y) * sgn (f x))
      else 0 := by
  rw [run_append, run_append, run_append, run_append, run_hLayer]
  simp only [run_cons, run_nil, applyGate_barrier]
  rw [hadamard_layer_aux n _ y rest hy]
  rw [sumBits_congr n _ (fun x => sgn (dot x y) *
      (if allFalse (rest.set k false) then sgn (rest.getD k false) * sgn (f x) else 0))
    (fun x hx => by rw [oracle_phase _ gs n m k f hψ hO hk x rest hx hr])]
  by_cases hA : allFalse (rest.set k false) = true
  · simp only [hA, if_true]
    rw [← sumBits_smul]
    apply sumBits_congr; intro x _; ring
  · simp only [hA]
    simp [sumBits_zero]

/-! ## Simon -/

/-- Simon's black box on classical basis states: with all non-input qubits at `0` the gate
list maps `x ↦ x, F x` (`F x` = everything the circuit leaves on the other `m` qubits:
result register and ancillas) -/
def FunOracle (gs : List AGate) (n m : Nat) (F : List Bool → List Bool) : Prop :=
  wfOracle gs = true ∧
  ∀ x : List Bool, x.length = n → (F x).length = m ∧ runClassical gs (x ++ zeros m) = x ++ F x

/-- `F` is two-to-one with period `s ≠ 0` -/
def Period (n : Nat) (F : List Bool → List Bool) (s : List Bool) : Prop :=
  s.length = n ∧ s ≠ zeros n ∧
  ∀ x x' : List Bool, x.length = n → x'.length = n → (F x = F x' ↔ (x' = x ∨ x' = xorBits x s))

theorem ket0_zeros (m : Nat) : ket0 (zeros m) = 1 := by simp [ket0, zeros]

theorem simon_oracle_state (gs : List AGate) (n m : Nat) (F : List Bool → List Bool)
    (hO : FunOracle gs n m F) (x z : List Bool) (hx : x.length = n) (hz : z.length = m) :
    run gs (layer n ket0) (x ++ z) = if z = F x then 1 else 0 := by
  rw [run_oracle gs hO.1]
  by_cases hA : z = F x
  · simp only [hA, if_true]
    rw [← (hO.2 x hx).2, back_fwd gs hO.1, first_layer n x _ hx, ket0_zeros]
  · simp only [hA, if_false]
    have hlen : (back gs (x ++ z)).length = n + m := by simp [back_length, hx, hz]
    obtain ⟨x', r', hb, hx', hr'⟩ : ∃ x' r', back gs (x ++ z) = x' ++ r' ∧ x'.length = n ∧ r'.length = m :=
      ⟨(back gs (x ++ z)).take n, (back gs (x ++ z)).drop n, (List.take_append_drop _ _).symm,
        by simp [hlen], by simp [hlen]⟩
    rw [hb, first_layer n x' _ hx', ket0_eq]
    by_cases hB : allFalse r' = true
    · exfalso
      have hr0 := allFalse_eq_zeros r' hB
      rw [hr'] at hr0
      have h1 := (hO.2 x' hx').2
      rw [← hr0, ← hb, fwd_back gs hO.1] at h1
      have h2 := List.append_inj h1 (by rw [hx, hx'])
      apply hA
      rw [h2.2, h2.1]
    · simp [hB]

theorem simon_amp (gs : List AGate) (n m : Nat) (F : List Bool → List Bool)
    (hO : FunOracle gs n m F) (y z : List Bool) (hy : y.length = n) (hz : z.length = m) :
    run (simonGates n gs) ket0 (y ++ z) =
      sumBits n (fun x => sgn (dot x y) * (if z = F x then 1 else 0)) := by
  unfold simonGates
  rw [run_append, run_append, run_append, run_append, run_append, run_hLayer, run_hLayer]
  simp only [run_cons, run_nil, applyGate_barrier]
  rw [hadamard_layer_aux n _ y z hy]
  apply sumBits_congr
  intro x hx
  rw [simon_oracle_state gs n m F hO x z hx hz]

theorem xorBits_ne_self : ∀ (x s : List Bool), x.length = s.length → s ≠ zeros s.length → xorBits x s ≠ x
  | [], [], _, h => by simp [zeros] at h
  | a :: x, b :: s, hl, h => by
    simp only [List.length_cons, Nat.add_right_cancel_iff] at hl
    simp only [xorBits, List.zipWith_cons_cons, ne_eq, List.cons.injEq, not_and]
    intro hab
    have hb : b = false := by cases a <;> cases b <;> simp_all
    subst hb
    have : s ≠ zeros s.length := by
      intro e; apply h; simp only [zeros, List.length_cons, List.replicate_succ]
      simp only [zeros] at e; rw [← e]
    exact xorBits_ne_self x s hl this
  | [], _ :: _, hl, _ | _ :: _, [], hl, _ => by simp at hl

theorem dot_xorBits_left (x s y : List Bool) (h : x.length = s.length) :
    dot (xorBits x s) y = Bool.xor (dot x y) (dot s y) := by
  rw [dot_comm, ← dot_xor y x s h, dot_comm y x, dot_comm y s]

/-- a sum supported on two distinct points -/
theorem sumBits_pair (n : Nat) (a b : List Bool) (g : List Bool → Int) (ha : a.length = n)
    (hb : b.length = n) (hab : a ≠ b) :
    sumBits n (fun x => if x = a ∨ x = b then g x else 0) = g a + g b := by
  rw [← sumBits_single n a g ha, ← sumBits_single n b g hb, ← sumBits_add]
  apply sumBits_congr
  intro x _
  by_cases h1 : x = a
  · have : ¬ x = b := fun e => hab (h1.symm.trans e)
    simp [h1, this]
    intro e; exact absurd e hab
  · by_cases h2 : x = b
    · subst h2; simp [h1]
    · simp [h1, h2]

theorem simon_amp_image (gs : List AGate) (n m : Nat) (F : List Bool → List Bool) (s : List Bool)
    (hO : FunOracle gs n m F) (hP : Period n F s) (y x0 : List Bool) (hy : y.length = n)
    (hx0 : x0.length = n) :
    run (simonGates n gs) ket0 (y ++ F x0) = sgn (dot x0 y) * (1 + sgn (dot s y)) := by
  obtain ⟨hs, hs0, hper⟩ := hP
  rw [simon_amp gs n m F hO y (F x0) hy (hO.2 x0 hx0).1]
  have hxl : (xorBits x0 s).length = n := by rw [xorBits_length x0 s (by rw [hx0, hs]), hx0]
  rw [sumBits_congr n _ (fun x => if x = x0 ∨ x = xorBits x0 s then sgn (dot x y) else 0)
    (fun x hx => by
      by_cases h : F x0 = F x
      · have := (hper x0 x hx0 hx).mp h
        simp [h, this]
      · have : ¬ (x = x0 ∨ x = xorBits x0 s) := fun e => h ((hper x0 x hx0 hx).mpr e)
        simp [h, this])]
  rw [sumBits_pair n x0 (xorBits x0 s) _ hx0 hxl
    (fun e => xorBits_ne_self x0 s (by rw [hx0, hs]) (by rw [hs]; exact hs0) e.symm)]
  rw [dot_xorBits_left x0 s y (by rw [hx0, hs]), sgn_xor]
  ring

theorem simon_amp_nonimage (gs : List AGate) (n m : Nat) (F : List Bool → List Bool)
    (hO : FunOracle gs n m F) (y z : List Bool) (hy : y.length = n) (hz : z.length = m)
    (hni : ∀ x : List Bool, x.length = n → F x ≠ z) :
    run (simonGates n gs) ket0 (y ++ z) = 0 := by
  rw [simon_amp gs n m F hO y z hy hz]
  rw [sumBits_congr n _ (fun _ => 0) (fun x hx => by
    have : ¬ z = F x := fun e => hni x hx e.symm
    simp [this])]
  exact sumBits_zero n

/-! ## decoding -/

theorem any_id_false_iff : ∀ (y : List Bool), y.any id = false ↔ y = zeros y.length
  | [] => by simp [zeros]
  | b :: y => by
    have := any_id_false_iff y
    simp only [zeros] at this
    cases b
    · simp only [List.any_cons, id, Bool.false_or, this, zeros, List.length_cons,
        List.replicate_succ, List.cons.injEq, true_and]
    · simp [zeros, List.replicate_succ]

theorem valLE_eq_zero_iff (y : List Bool) : valLE y = 0 ↔ y = zeros y.length := by
  constructor
  · intro h
    apply valLE_inj (by simp [zeros])
    rw [h, zeros, valLE_replicate_false]
  · intro h; rw [h, zeros, valLE_replicate_false]

open QV.Types in
theorem pyEqZero_qint (w : Nat) (y : List Bool) (hy : y.length = w) (hw : 0 < w) :
    pyEqZero (interpret (.qint w) y) = some (decide (y = zeros w)) := by
  have hne : y ≠ [] := by intro e; subst e; simp at hy; omega
  have hlt : valLE y < 2 ^ w := hy ▸ valLE_lt y
  simp only [interpret, qintFromBool_eq hne, optVal, pyEqZero, Nat.mod_eq_of_lt hlt]
  have := valLE_eq_zero_iff y
  rw [hy] at this
  by_cases h : valLE y = 0
  · have h' := this.mp h
    rw [h]; simp [h']
  · have h' : ¬ y = zeros w := fun e => h (this.mpr e)
    simp [h, h']

end QV.Amp
