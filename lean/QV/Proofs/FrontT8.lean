import QV.Proofs.FrontT7
/-! Statement level of the widened C01 theorems, part 3: definitions after the `return` leave the return
symbols alone (structural: they are named below their targets), the induction over the body (`trBody`,
`runDefs`, `semBodyT`, `wellBody`), the program (`translate`, `semProgT`). -/
namespace QV.Sem
open QV QV.Arith QV.Front

set_option linter.unusedSimpArgs false
set_option linter.unusedVariables false

theorem ret_needs_fresh {q : Quirks} {ret : Ty} {env : Front.Env} {e : PExp} {s : St}
    {r : (List (String × BExp) × Front.Env) × St}
    (h : (trStmt q ret env (.ret e)).run s = .ok r) : env.find "_ret" = none := by
  cases hf : env.find "_ret" with
  | none => rfl
  | some b =>
    exfalso
    rw [trStmt] at h
    simp only [run_bind_ok] at h
    obtain ⟨⟨ty, v⟩, s1, h1, h2⟩ := h
    simp only [hf, Option.isSome_some, if_true] at h2
    repeat' split at h2
    all_goals simp only [run_bind_ok, run_lift_ok, run_throw_ok, run_pure_ok, run_ite_ok, false_and, and_false,
      exists_false, or_self] at h2
    all_goals (obtain ⟨_, _, _, h2⟩ := h2)
    all_goals (repeat' split at h2)
    all_goals simp only [run_bind_ok, run_lift_ok, run_throw_ok, run_pure_ok, run_ite_ok, false_and, and_false,
      exists_false, or_self] at h2

theorem assign_shape0 {q : Quirks} {ret : Ty} {env : Front.Env} {t : String} {e : PExp} {s s' : St}
    {defs : List (String × BExp)} {env' : Front.Env}
    (h : (trStmt q ret env (.assign t e)).run s = .ok ((defs, env'), s')) :
    ∃ (v' : Val) (ty : Ty) (bv : List String), defs = v'.decompose t ∧ env' = env.bind ⟨t, ty, bv⟩ := by
  rw [trStmt] at h
  simp only [run_bind_ok] at h
  obtain ⟨⟨ty, v⟩, s1, h1, h2⟩ := h
  repeat' split at h2
  all_goals simp only [run_bind_ok, run_lift_ok, run_throw_ok, run_pure_ok, run_ite_ok, run_event_ok, false_and, and_false, exists_false, or_self, Prod.mk.injEq] at h2
  all_goals first
    | (obtain ⟨_, _, _, ⟨h3, h4⟩, _⟩ := h2; exact ⟨_, _, _, h3, h4⟩)
    | (obtain ⟨⟨h3, h4⟩, _⟩ := h2; exact ⟨_, _, _, h3, h4⟩)

mutual
theorem decompose_sub : ∀ (v : Val) (base : String), ∀ d ∈ v.decompose base, Sub base d.1
  | .atom e, base, d, hd => by
    simp only [Val.decompose, List.mem_singleton] at hd
    rw [hd]; exact sub_refl _
  | .list vs, base, d, hd => by
    rw [Val.decompose] at hd
    obtain ⟨j, hj⟩ := decomposeList_sub vs base 0 d hd
    exact sub_child base j hj
theorem decomposeList_sub : ∀ (vs : List Val) (base : String) (i : Nat), ∀ d ∈ Val.decomposeList base i vs,
    ∃ j, Sub (bitName base j) d.1
  | [], base, i, d, hd => by simp [Val.decomposeList] at hd
  | v :: vs, base, i, d, hd => by
    rw [decomposeList_cons, List.mem_append] at hd
    rcases hd with hd | hd
    · exact ⟨i, decompose_sub v _ d hd⟩
    · exact decomposeList_sub vs base (i + 1) d hd
end

/-- running definitions changes only the symbols they define -/
theorem runDefs_frame : ∀ (defs : List (String × BExp)) (ρ : QV.Env) (x : String),
    x ∉ defs.map (·.1) → runDefs defs ρ x = ρ x
  | [], ρ, x, _ => rfl
  | d :: ds, ρ, x, hx => by
    simp only [List.map_cons, List.mem_cons, not_or] at hx
    rw [runDefs_cons, runDefs_frame ds _ x hx.2]
    simp only [stepDef, beq_iff_eq, hx.1, if_false]

theorem expr_stepT {ret : Ty} {env : Front.Env} {e : PExp} {s s' : St} {defs : List (String × BExp)}
    {env' : Front.Env} (h : (trStmt Quirks.none ret env (.expr e)).run s = .ok ((defs, env'), s')) :
    defs = [] ∧ env' = env := expr_step h

/-- once `_ret` is bound, the rest of the body leaves the return bits alone (and a second `return`
is refused): the definitions of an assignment to `t ≠ _ret` are named below `t` -/
theorem body_frameT (ret : Ty) :
    ∀ (ss : List Stmt) (ρ : QV.Env) (env : Front.Env),
      ss.all stmtOKT = true → (env.find "_ret").isSome = true →
      ∀ (s s' : St) (defs : List (String × BExp)), (trBody Quirks.none ret env ss).run s = .ok (defs, s') →
      ∀ x, Sub "_ret" x → runDefs defs ρ x = ρ x
  | [], ρ, env, hok, hsome, s, s', defs, h, x, hx => by
    rw [trBody] at h
    have hn : ¬ ((env.find "_ret").isNone = true) := by
      cases hf : env.find "_ret" <;> simp [hf] at hsome ⊢
    rw [if_neg hn] at h
    simp only [run_pure_ok] at h
    obtain ⟨rfl, _⟩ := h
    rfl
  | st :: ss, ρ, env, hok, hsome, s, s', defs, h, x, hx => by
    rw [trBody] at h
    simp only [run_bind_ok, run_pure_ok] at h
    obtain ⟨⟨d1, env1⟩, s1, h1, rest, s2, h2, rfl, _⟩ := h
    simp only [List.all_cons, Bool.and_eq_true] at hok
    rw [runDefs_append]
    cases st with
    | assign t e =>
      simp only [stmtOKT, Bool.and_eq_true, bne_iff_ne, ne_eq, Bool.not_eq_true'] at hok
      obtain ⟨⟨⟨⟨hgt, hne⟩, hfrag⟩, hself⟩, hrest⟩ := hok
      obtain ⟨v', ty, bv, rfl, rfl⟩ := assign_shape0 h1
      have hsome1 : ((env.bind ⟨t, ty, bv⟩).find "_ret").isSome = true := by
        rw [find_bind]
        simp only [show ("_ret" = t) = False from by simp [Ne.symm hne], if_false]
        exact hsome
      rw [body_frameT ret ss _ _ hrest hsome1 s1 s2 rest h2 x hx]
      apply runDefs_frame
      intro hmem
      simp only [List.mem_map] at hmem
      obtain ⟨d, hd, rfl⟩ := hmem
      exact sub_disjoint retName_good hgt (fun h => hne h.symm) hx (decompose_sub v' t d hd)
    | ret e =>
      have := ret_needs_fresh h1
      rw [this] at hsome
      cases hsome
    | expr e =>
      obtain ⟨rfl, rfl⟩ := expr_stepT h1
      rw [runDefs_nil]
      exact body_frameT ret ss ρ _ hok.2 hsome s1 s2 rest h2 x hx
    | unsupported w => simp [stmtOKT] at hok

/-- the body of a program of the widened straight-line fragment: the sequential evaluation of the
definitions leaves in the return symbols the bits of `semBodyT` -/
theorem body_mainT (ret : Ty) (hret : tyGood ret = true) :
    ∀ (ss : List Stmt) (ρ : QV.Env) (env : Front.Env) (σ : TEnv), EnvInvT ρ env σ →
      ss.all stmtOKT = true → wellBody ret σ ss = true → env.find "_ret" = none →
      ∀ (s s' : St) (defs : List (String × BExp)), (trBody Quirks.none ret env ss).run s = .ok (defs, s') →
      ∃ sv, semBodyT ret σ ss = some sv ∧ (ret.names "_ret").map (runDefs defs ρ) = sv.bits
  | [], ρ, env, σ, hinv, hok, hwb, hnone, s, s', defs, h => by
    rw [trBody] at h
    have hq : Quirks.none.noReturnAccepted = false := rfl
    rw [if_pos (by rw [hnone]; rfl)] at h
    simp only [run_bind_ok, run_ite_ok, run_throw_ok, run_pure_ok, hq, Bool.not_false, not_true_eq_false,
      false_and, and_false, exists_false, or_false] at h
  | st :: ss, ρ, env, σ, hinv, hok, hwb, hnone, s, s', defs, h => by
    rw [trBody] at h
    simp only [run_bind_ok, run_pure_ok] at h
    obtain ⟨⟨d1, env1⟩, s1, h1, rest, s2, h2, rfl, _⟩ := h
    simp only [List.all_cons, Bool.and_eq_true] at hok
    rw [runDefs_append]
    cases st with
    | assign t e =>
      simp only [stmtOKT, Bool.and_eq_true, bne_iff_ne, ne_eq, Bool.not_eq_true'] at hok
      obtain ⟨⟨⟨⟨hgt, hne⟩, hfrag⟩, hself⟩, hrest⟩ := hok
      simp only [wellBody, Bool.and_eq_true] at hwb
      obtain ⟨sv, hs, hinv1, hag, hfind⟩ := assign_stepT hinv ret t e hgt hfrag hself hwb.1 h1
      have hnone1 : env1.find "_ret" = none := by
        rw [hfind "_ret" (fun h => hne h.symm)]; exact hnone
      have hwb1 : wellBody ret (σ.set t sv) ss = true := by
        have := hwb.2
        rw [hs] at this
        exact this
      obtain ⟨r, hr1, hr2⟩ := body_mainT ret hret ss _ env1 _ hinv1 hrest hwb1 hnone1 s1 s2 rest h2
      exact ⟨r, by simp only [semBodyT, hs, hr1], hr2⟩
    | ret e =>
      simp only [stmtOKT, Bool.and_eq_true, Bool.not_eq_true'] at hok
      simp only [wellBody, Bool.and_eq_true] at hwb
      obtain ⟨_, v, sv, hs, hco, hbits, hinv1, hag, hsome1⟩ :=
        ret_stepT hinv ret hret e hok.1.1 hok.1.2 hwb.1 hwb.2 h1
      refine ⟨sv, by simp only [semBodyT, hs, hco], ?_⟩
      rw [← hbits]
      apply List.map_congr_left
      intro x hx
      exact body_frameT ret ss _ env1 hok.2 hsome1 s1 s2 rest h2 x (names_sub ret "_ret" x hx)
    | expr e =>
      obtain ⟨rfl, rfl⟩ := expr_stepT h1
      rw [runDefs_nil]
      simp only [wellBody] at hwb
      obtain ⟨r, hr1, hr2⟩ := body_mainT ret hret ss ρ _ σ hinv hok.2 hwb hnone s1 s2 rest h2
      exact ⟨r, by simp only [semBodyT, hr1], hr2⟩
    | unsupported w => simp [stmtOKT] at hok

/-! ### the program -/

/-- the environment `translate_ast` starts from satisfies the invariant with `σ` = the decoded
arguments -/
theorem envInvT_args (ρ : QV.Env) (args : List (String × Ty))
    (hargs : ∀ p ∈ args, tyGood p.2 = true ∧ goodName p.1 = true) :
    EnvInvT ρ (initEnv args) (argsEnvT args ρ) := by
  have hfind : ∀ n, (initEnv args).find n
      = (args.find? (·.1 == n)).map fun p => (⟨p.1, p.2, p.2.names p.1⟩ : Binding) := by
    intro n
    unfold Env.find
    rw [initEnv_eq, List.find?_map]
    rfl
  refine ⟨envOKT_args ρ args (fun p hp => (hargs p hp).1), ?_, ?_⟩
  · intro n b hf
    rw [hfind] at hf
    cases hfa : args.find? (·.1 == n) with
    | none => simp [hfa] at hf
    | some p =>
      have hmem := List.mem_of_find?_eq_some hfa
      have hname : p.1 = n := by
        have := List.find?_some hfa
        simpa using this
      rw [← hname]
      exact (hargs _ hmem).2
  · intro n v hσ
    simp only [argsEnvT] at hσ
    cases hfa : args.find? (·.1 == n) with
    | none => simp [hfa] at hσ
    | some p =>
      obtain ⟨m, ty⟩ := p
      simp only [hfa, Option.some.injEq] at hσ
      rw [← hσ, decodeT_ty]
      exact (hargs _ (List.mem_of_find?_eq_some hfa)).1

/-- **the statement level, widened**: a program of `structLine` that `translate` accepts has, under every
assignment of the argument bits at which no excluded site is reached (`wellProg`), a `SemT` value, and the
sequential evaluation of the definition list leaves exactly its bits in the return symbols -/
theorem translate_sound_struct (p : Prog) (consts : List (Bool × Bool)) (hp : structLine p = true)
    (defs : List (String × BExp)) (events : List String)
    (h : translate Quirks.none consts p = .ok (defs, events)) (ρ : QV.Env) (hw : wellProg p ρ = true) :
    ∃ sv, semProgT p ρ = some sv ∧ (p.ret.names "_ret").map (runDefs defs ρ) = sv.bits := by
  simp only [structLine, Bool.and_eq_true, List.all_eq_true, bne_iff_ne, ne_eq] at hp
  obtain ⟨⟨hargs, hret⟩, hbody⟩ := hp
  unfold translate at h
  simp only at h
  split at h
  · rename_i defs' st hrun
    simp only [Except.ok.injEq, Prod.mk.injEq] at h
    obtain ⟨rfl, _⟩ := h
    have hinv := envInvT_args ρ p.args (fun a ha => ⟨(hargs a ha).1.1, (hargs a ha).1.2⟩)
    have hnone := initEnv_no_ret p.args (fun a ha => (hargs a ha).2)
    exact body_mainT p.ret hret p.body ρ _ _ hinv (by simpa [List.all_eq_true] using hbody) hw hnone _ _ _ hrun
  · cases h

end QV.Sem
