import QV.Model.Compiler
import QV.Proofs.Circuit
import QV.Proofs.Bennett
import QV.Props.C02
/-!
# C03 – Compiled circuits are clean: inputs preserved, scratch qubits back to zero

With uncomputation enabled, for every classical input the circuit leaves every argument qubit
unchanged and every qubit that is neither an argument nor an output in state zero.

Partial, as C02: `validateClean_sound` (per-instance validator, sound for all inputs) plus the
universal replay lemmas the uncomputation protocol rests on, plus – for every run of `compile`
– the layout the cleanliness statement is phrased in: `compile_input_qubits` (the arguments sit
on qubits `0..n-1`, nothing else is mapped there by name), `compile_outs_defined` (every return
bit names a qubit of the circuit, so `outs` has one entry per return bit),
`compile_args_not_scratch` (no argument qubit is in the ancilla / free / marked set) and
`compile_replay_restores` (reverse replay of any compiled gate list restores every qubit).
-/
namespace QV.C03
open QV QV.Compiler

def Clean (gates : List AGate) (numQubits nIn : Nat) (outs : List Nat) : Prop :=
  ∀ x : List Bool, x.length = nIn → ∀ q, q < numQubits →
    let final := runClassical gates (initState x numQubits)
    (q < nIn → final.getD q false = x.getD q false) ∧
    (nIn ≤ q → q ∉ outs → final.getD q false = false)

theorem validateClean_sound (gates : List AGate) (numQubits nIn : Nat) (outs : List Nat)
    (h : validateClean gates numQubits nIn outs = true) : Clean gates numQubits nIn outs := by
  intro x hx q hq
  simp only [validateClean, Bool.and_eq_true, List.all_eq_true] at h
  have hc := h.2 x (mem_allBits' hx)
  simp only [checkClean, List.all_eq_true, List.mem_range] at hc
  have := hc q hq
  constructor
  · intro hlt; simpa [hlt] using this
  · intro hge hno
    have h1 : ¬ q < nIn := by omega
    have h2 : outs.contains q = false := by simpa using hno
    simp only [h1, if_false, h2, Bool.false_eq_true] at this
    simpa using this

/-- reverse replay of gates on distinct wires restores every qubit (Bennett's trick; the
compiler's `uncompute`/`uncompute_all` replay sub-sequences of the reversed body) -/
theorem reverse_replay_restores (gs : List AGate) (h : ∀ g ∈ gs, g.wires.Nodup) (s : BState) :
    runClassical (gs ++ gs.reverse) s = s :=
  runClassical_reverse_undo gs h s

/-- a gate acts only on its target: every other qubit keeps its value -/
theorem gate_touches_only_target (g : AGate) (s : BState) (q : Nat) (h : g.wires.getLast? ≠ some q) :
    (g.applyClassical s).getD q false = s.getD q false := by
  unfold AGate.applyClassical
  cases ht : g.wires.getLast? with
  | none => rfl
  | some t =>
    simp only
    split
    · rw [flip_getD]
      have : ¬ t = q := by intro e; apply h; rw [ht, e]
      simp [this]
    · rfl

/-- hence no argument qubit changes if no gate targets it (`inputs_never_targeted`) -/
theorem untargeted_qubit_unchanged (gs : List AGate) (q : Nat)
    (h : ∀ g ∈ gs, g.wires.getLast? ≠ some q) (s : BState) :
    (runClassical gs s).getD q false = s.getD q false := by
  induction gs generalizing s with
  | nil => rfl
  | cons g gs ih =>
    rw [runClassical_cons, ih (fun g' hg' => h g' (List.mem_cons_of_mem _ hg'))]
    unfold stepClassical
    split
    · exact gate_touches_only_target g s q (h g List.mem_cons_self)
    · rfl

/-- **Bennett replay with a keep set** (what `uncompute_all(keep)` relies on): for every list of
X/CX/MCX gates on distinct wires and every keep set `K` such that no gate with an unkept target
reads a kept qubit, the body followed by the reversed unkept-target gates leaves the kept qubits as
the body left them and every other qubit as it was at the start. -/
theorem bennett_replay_keep (K : Nat → Bool) (gs : List AGate) (hn : ∀ g ∈ gs, g.wires.Nodup)
    (hs : ReplaySafe K gs) (s : BState) :
    let final := runClassical (gs ++ (replayed K gs).reverse) s
    (∀ q, K q = true → final.getD q false = (runClassical gs s).getD q false) ∧
    (∀ q, K q = false → final.getD q false = s.getD q false) :=
  bennett_replay K gs hn hs s

/-- non-vacuity of `bennett_replay_keep`: a Toffoli into scratch qubit 2 copied to the kept qubit 3 -/
example : ReplaySafe (fun q => q == 3) [{ cls := .CCX, wires := [0, 1, 2] }, { cls := .CX, wires := [2, 3] }] := by
  intro g hg
  simp at hg
  rcases hg with rfl | rfl <;> simp [targetIn, controlsOff]

/-- non-vacuity: compute-copy-uncompute of `a & b` is clean with output qubit 3 -/
example : validateClean [{ cls := .CCX, wires := [0, 1, 2] }, { cls := .CX, wires := [2, 3] },
    { cls := .CCX, wires := [0, 1, 2] }] 4 2 [3] = true := by decide

/-! ## Layout facts for every run of `compile` (proved in `QV/Proofs/CompilerInv.lean`) -/

/-- the argument qubits the `Clean` statement talks about: for every run of `compile` on fresh
argument names the `i`-th argument is on qubit `i`, i.e. `input_qubits = [0..n)` -/
theorem compile_input_qubits (inputs : List String) (defs : List (String × BExp))
    (ret : Option (List String)) (unc : Bool) (cs : List Nat) (s : CState)
    (h : (compile inputs defs ret unc).run { choices := cs } = .ok ((), s))
    (hf : C02.inputsFresh inputs defs = true) :
    inputs.map (dictGet? s.qc.qmap) = (List.range inputs.length).map some ∧
    inputs.length ≤ s.qc.numQubits := by
  obtain ⟨hlen, hpos⟩ := C02.compile_inputs_first inputs defs ret unc cs s h hf
  refine ⟨?_, hlen⟩
  apply List.ext_getElem?
  intro i
  simp only [List.getElem?_map]
  by_cases hi : i < inputs.length
  · have hx : inputs[i]? = some inputs[i] := List.getElem?_eq_getElem hi
    rw [hx]
    simp [hi, hpos i _ hx]
  · simp [hi]

/-- the output qubits the `Clean` statement excludes: one qubit of the circuit per return bit -/
theorem compile_outs_defined (inputs : List String) (defs : List (String × BExp))
    (rets : List String) (unc : Bool) (cs : List Nat) (s : CState)
    (h : (compile inputs defs (some rets) unc).run { choices := cs } = .ok ((), s))
    (hr : C02.retsDefined defs rets = true) :
    (rets.filterMap (dictGet? s.qc.qmap)).length = rets.length ∧
    ∀ q ∈ rets.filterMap (dictGet? s.qc.qmap), q < s.qc.numQubits := by
  have hm := C02.compile_rets_mapped inputs defs rets unc cs s h hr
  constructor
  · clear hr h
    induction rets with
    | nil => rfl
    | cons r rs ih =>
      obtain ⟨q, hq, _⟩ := hm r List.mem_cons_self
      rw [List.filterMap_cons, hq]
      simp only [List.length_cons]
      rw [ih (fun r' hr' => hm r' (List.mem_cons_of_mem _ hr'))]
  · intro q hq
    obtain ⟨r, hr', hrq⟩ := List.mem_filterMap.mp hq
    obtain ⟨q', hq', hlt⟩ := hm r hr'
    rw [hq'] at hrq
    cases hrq
    exact hlt

/-- no argument qubit is ever part of the scratch space: for every run of `compile`, a qubit
below the number of inputs is neither an ancilla nor in the free set (so `get_free_ancilla`
never hands one out and `uncompute_all` never records one as freed) -/
theorem compile_args_not_scratch (inputs : List String) (defs : List (String × BExp))
    (ret : Option (List String)) (unc : Bool) (cs : List Nat) (s : CState)
    (h : (compile inputs defs ret unc).run { choices := cs } = .ok ((), s)) :
    ∀ q, q < inputs.length → q ∉ s.qc.anc ∧ q ∉ s.qc.free ∧ q ∉ s.qc.marked := by
  obtain ⟨_, _, _, _, _, _, h1, h2, h3⟩ := C02.compile_bookkeeping inputs defs ret unc cs s h
  intro q hq
  exact ⟨fun hm => Nat.not_le_of_lt hq (h1 q hm), fun hm => Nat.not_le_of_lt hq (h2 q hm),
    fun hm => Nat.not_le_of_lt hq (h3 q hm)⟩

/-- Bennett's principle applies to every compiled circuit: its gates are X/CX/MCX on distinct
wires, so the body followed by its reverse restores every qubit -/
theorem compile_replay_restores (inputs : List String) (defs : List (String × BExp))
    (ret : Option (List String)) (unc : Bool) (cs : List Nat) (s : CState)
    (h : (compile inputs defs ret unc).run { choices := cs } = .ok ((), s)) (st : BState) :
    runClassical (s.qc.gates.toList ++ s.qc.gates.toList.reverse) st = st :=
  C02.compile_reverse_replay_undoes inputs defs ret unc cs s h st

end QV.C03
