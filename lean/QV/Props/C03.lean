import QV.Model.Compiler
import QV.Proofs.Circuit
import QV.Proofs.Bennett
import QV.Props.C02
import QV.Proofs.CompilerClean
import QV.Model.CompilerClass
import QV.Proofs.CompilerGen11
/-!
# C03 – Compiled circuits are clean: inputs preserved, scratch qubits back to zero

With uncomputation enabled, for every classical input the circuit leaves every argument qubit
unchanged and every qubit that is neither an argument nor an output in state zero.

Partial, as C02: `validateClean_sound` (per-instance validator, sound for all inputs) plus the
universal replay lemmas the uncomputation protocol rests on, plus – for every run of `compile`
– the layout the cleanliness statement is phrased in: `compile_input_qubits` (the arguments sit
on qubits `0..n-1`, nothing else is mapped there by name), `compile_outs_defined` (every return
bit names a qubit of the circuit, so `outs` has one entry per return bit),
`compile_args_not_scratch` (no argument qubit is in the ancilla / free / marked / kept set) and
`compile_replay_restores` (reverse replay of any compiled gate list restores every qubit).
The model follows the compiler with the repairs `docs/fixes/CC-*.diff`.  The semantic theorem
`C03_fragment_partial` is proved for that model (`QV/Proofs/CompilerClean.lean`) on the whole class of
`C02_fragment_partial`: since the repaired `compile_or` applies no `X` gate to an argument qubit the class
no longer restricts the arity of `Or`, and since the ancillas of a definition that is not a return bit are
kept until `uncompute_all` it no longer asks for a requested return name.  `C03_general_partial` (end of the file)
proves cleanliness on the general class: definition lists with the intermediates first and the return bits last.
-/
namespace QV.C03
open QV QV.Compiler

def Clean (gates : List AGate) (numQubits nIn : Nat) (outs : List Nat) : Prop :=
  ∀ x : List Bool, x.length = nIn → ∀ q, q < numQubits →
    let final := runClassical gates (initState x numQubits)
    (q < nIn → final.getD q false = x.getD q false) ∧
    (nIn ≤ q → q ∉ outs → final.getD q false = false)

theorem validateClean_sound (gates : List AGate) (numQubits nIn : Nat) (outs : List Nat)
    (h : validateClean gates numQubits nIn outs = true) : Clean gates numQubits nIn outs := by
  intro x hx q hq
  simp only [validateClean, Bool.and_eq_true, List.all_eq_true] at h
  have hc := h.2 x (mem_allBits' hx)
  simp only [checkClean, List.all_eq_true, List.mem_range] at hc
  have := hc q hq
  constructor
  · intro hlt; simpa [hlt] using this
  · intro hge hno
    have h1 : ¬ q < nIn := by omega
    have h2 : outs.contains q = false := by simpa using hno
    simp only [h1, if_false, h2, Bool.false_eq_true] at this
    simpa using this

/-- reverse replay of gates on distinct wires restores every qubit (Bennett's trick; the
compiler's `uncompute`/`uncompute_all` replay sub-sequences of the reversed body) -/
theorem reverse_replay_restores (gs : List AGate) (h : ∀ g ∈ gs, g.wires.Nodup) (s : BState) :
    runClassical (gs ++ gs.reverse) s = s :=
  runClassical_reverse_undo gs h s

/-- a gate acts only on its target: every other qubit keeps its value -/
theorem gate_touches_only_target (g : AGate) (s : BState) (q : Nat) (h : g.wires.getLast? ≠ some q) :
    (g.applyClassical s).getD q false = s.getD q false := by
  unfold AGate.applyClassical
  cases ht : g.wires.getLast? with
  | none => rfl
  | some t =>
    simp only
    split
    · rw [flip_getD]
      have : ¬ t = q := by intro e; apply h; rw [ht, e]
      simp [this]
    · rfl

/-- hence no argument qubit changes if no gate targets it (`inputs_never_targeted`) -/
theorem untargeted_qubit_unchanged (gs : List AGate) (q : Nat)
    (h : ∀ g ∈ gs, g.wires.getLast? ≠ some q) (s : BState) :
    (runClassical gs s).getD q false = s.getD q false := by
  induction gs generalizing s with
  | nil => rfl
  | cons g gs ih =>
    rw [runClassical_cons, ih (fun g' hg' => h g' (List.mem_cons_of_mem _ hg'))]
    unfold stepClassical
    split
    · exact gate_touches_only_target g s q (h g List.mem_cons_self)
    · rfl

/-- **Bennett replay with a keep set** (what `uncompute_all(keep)` relies on): for every list of
X/CX/MCX gates on distinct wires and every keep set `K` such that no gate with an unkept target
reads a kept qubit, the body followed by the reversed unkept-target gates leaves the kept qubits as
the body left them and every other qubit as it was at the start. -/
theorem bennett_replay_keep (K : Nat → Bool) (gs : List AGate) (hn : ∀ g ∈ gs, g.wires.Nodup)
    (hs : ReplaySafe K gs) (s : BState) :
    let final := runClassical (gs ++ (replayed K gs).reverse) s
    (∀ q, K q = true → final.getD q false = (runClassical gs s).getD q false) ∧
    (∀ q, K q = false → final.getD q false = s.getD q false) :=
  bennett_replay K gs hn hs s

/-- non-vacuity of `bennett_replay_keep`: a Toffoli into scratch qubit 2 copied to the kept qubit 3 -/
example : ReplaySafe (fun q => q == 3) [{ cls := .CCX, wires := [0, 1, 2] }, { cls := .CX, wires := [2, 3] }] := by
  intro g hg
  simp at hg
  rcases hg with rfl | rfl <;> simp [targetIn, controlsOff]

/-- non-vacuity: compute-copy-uncompute of `a & b` is clean with output qubit 3 -/
example : validateClean [{ cls := .CCX, wires := [0, 1, 2] }, { cls := .CX, wires := [2, 3] },
    { cls := .CCX, wires := [0, 1, 2] }] 4 2 [3] = true := by decide

/-! ## Layout facts for every run of `compile` (proved in `QV/Proofs/CompilerInv.lean`) -/

/-- the argument qubits the `Clean` statement talks about: for every run of `compile` on fresh
argument names the `i`-th argument is on qubit `i`, i.e. `input_qubits = [0..n)` -/
theorem compile_input_qubits (inputs : List String) (defs : List (String × BExp))
    (ret : Option (List String)) (unc : Bool) (cs : List Nat) (s : CState)
    (h : (compile inputs defs ret unc).run { choices := cs } = .ok ((), s))
    (hf : C02.inputsFresh inputs defs = true) :
    inputs.map (dictGet? s.qc.qmap) = (List.range inputs.length).map some ∧
    inputs.length ≤ s.qc.numQubits := by
  obtain ⟨hlen, hpos⟩ := C02.compile_inputs_first inputs defs ret unc cs s h hf
  refine ⟨?_, hlen⟩
  apply List.ext_getElem?
  intro i
  simp only [List.getElem?_map]
  by_cases hi : i < inputs.length
  · have hx : inputs[i]? = some inputs[i] := List.getElem?_eq_getElem hi
    rw [hx]
    simp [hi, hpos i _ hx]
  · simp [hi]

/-- the output qubits the `Clean` statement excludes: one qubit of the circuit per return bit -/
theorem compile_outs_defined (inputs : List String) (defs : List (String × BExp))
    (rets : List String) (unc : Bool) (cs : List Nat) (s : CState)
    (h : (compile inputs defs (some rets) unc).run { choices := cs } = .ok ((), s))
    (hr : C02.retsDefined defs rets = true) :
    (rets.filterMap (dictGet? s.qc.qmap)).length = rets.length ∧
    ∀ q ∈ rets.filterMap (dictGet? s.qc.qmap), q < s.qc.numQubits := by
  have hm := C02.compile_rets_mapped inputs defs rets unc cs s h hr
  constructor
  · clear hr h
    induction rets with
    | nil => rfl
    | cons r rs ih =>
      obtain ⟨q, hq, _⟩ := hm r List.mem_cons_self
      rw [List.filterMap_cons, hq]
      simp only [List.length_cons]
      rw [ih (fun r' hr' => hm r' (List.mem_cons_of_mem _ hr'))]
  · intro q hq
    obtain ⟨r, hr', hrq⟩ := List.mem_filterMap.mp hq
    obtain ⟨q', hq', hlt⟩ := hm r hr'
    rw [hq'] at hrq
    cases hrq
    exact hlt

/-- no argument qubit is ever part of the scratch space: for every run of `compile`, a qubit
below the number of inputs is neither an ancilla nor in the free, marked or kept set (so
`get_free_ancilla` never hands one out and `uncompute_all` never records one as freed) -/
theorem compile_args_not_scratch (inputs : List String) (defs : List (String × BExp))
    (ret : Option (List String)) (unc : Bool) (cs : List Nat) (s : CState)
    (h : (compile inputs defs ret unc).run { choices := cs } = .ok ((), s)) :
    ∀ q, q < inputs.length → q ∉ s.qc.anc ∧ q ∉ s.qc.free ∧ q ∉ s.qc.marked ∧ q ∉ s.qc.kept := by
  obtain ⟨_, _, _, _, _, _, h1, h2, h3, _, h4⟩ := C02.compile_bookkeeping inputs defs ret unc cs s h
  intro q hq
  exact ⟨fun hm => Nat.not_le_of_lt hq (h1 q hm), fun hm => Nat.not_le_of_lt hq (h2 q hm),
    fun hm => Nat.not_le_of_lt hq (h3 q hm), fun hm => Nat.not_le_of_lt hq (h4 q hm)⟩

/-- Bennett's principle applies to every compiled circuit: its gates are X/CX/MCX on distinct
wires, so the body followed by its reverse restores every qubit -/
theorem compile_replay_restores (inputs : List String) (defs : List (String × BExp))
    (ret : Option (List String)) (unc : Bool) (cs : List Nat) (s : CState)
    (h : (compile inputs defs ret unc).run { choices := cs } = .ok ((), s)) (st : BState) :
    runClassical (s.qc.gates.toList ++ s.qc.gates.toList.reverse) st = st :=
  C02.compile_reverse_replay_undoes inputs defs ret unc cs s h st

/-! ## Cleanliness on the proved fragment (`QV/Proofs/CompilerClean.lean`) -/

/-- in the class of `C03_fragment_partial` every requested return name is the defined one: a non-empty
return list contains it -/
theorem mem_rets_of_class {r : String} {rets : List String} (hne : rets.isEmpty = false)
    (hall : ∀ r' ∈ rets, r' = r) : r ∈ rets := by
  cases rets with
  | nil => simp at hne
  | cons r' rs =>
    have := hall r' List.mem_cons_self
    subst this
    exact List.mem_cons_self

/-- **C03 on the tree-like single-definition fragment** (`inCleanFragment` = `inFragment`, the class of
`C02_fragment_partial`: one definition, tree-like expression over the arguments, `Or`s of any arity; the
return list is any number of copies of the defined name – or empty), with `uncompute = true`: every
successful run of the compiler model – for every admissible sequence of ancilla choices – gives a `Clean`
circuit: on every classical input every argument qubit is unchanged and every qubit other than the qubit
of the return name is back to zero (with no return name requested: every qubit).  Partial with respect to
C03: one definition only, no repeated compound sub-expression, no constant.  (For the unrepaired compiler
the class had to exclude every `Or` with three or more arguments and the empty return list,
`C03_fragment_demorgan_witness`, `C03_fragment_norets_witness`; the repaired `compile_or` folds binary ors
into new marked ancillas, which the inline `uncompute` replays like every other ancilla, and a definition
that is not a return bit keeps its ancillas until `uncompute_all`, which then replays every gate.) -/
theorem C03_fragment_partial (inputs : List String) (defs : List (String × BExp)) (rets : List String)
    (choices : List Nat) (s : CState)
    (hf : inCleanFragment inputs defs rets = true)
    (h : (compile inputs defs (some rets) true).run { choices := choices } = .ok ((), s)) :
    Clean s.qc.gates.toList s.qc.numQubits inputs.length (rets.filterMap (dictGet? s.qc.qmap)) := by
  match defs, hf, h with
  | [(r, e)], hf, h =>
    simp only [inCleanFragment, inFragment, Bool.and_eq_true, decide_eq_true_eq, List.all_eq_true, bne_iff_ne,
      ne_eq, Bool.not_eq_true', beq_iff_eq] at hf
    obtain ⟨⟨⟨⟨hnd, hfr⟩, hov⟩, htl⟩, hrets⟩ := hf
    intro x hx q hq
    dsimp only
    cases hne : rets.isEmpty with
    | true =>
      -- no return name requested: `uncompute_all([])` replays every gate
      have hre : rets = [] := List.isEmpty_iff.mp hne
      subst hre
      have hall := compile_single_norets h rfl hnd (fun n hn => hfr n hn) hov htl x hx
      constructor
      · intro hlt
        rw [hall q, initState_getD]
      · intro hge _
        rw [hall q, initState_getD]
        have : x[q]? = none := by simp; omega
        simp [List.getD_eq_getElem?_getD, this]
    | false =>
      have hr : r ∈ rets := mem_rets_of_class hne hrets
      obtain ⟨q0, hq0, hcl, _, _, htg⟩ := compile_single_clean h rfl hr hnd (fun n hn => hfr n hn) hov htl x hx
      constructor
      · intro hlt
        rw [untargeted_qubit_unchanged _ q _ _, initState_getD]
        intro g hg hlast
        have : g.target = q := by unfold AGate.target; rw [hlast]; rfl
        have := htg g hg
        omega
      · intro hge hno
        have hne' : q ≠ q0 := by
          rintro rfl
          exact hno (List.mem_filterMap.mpr ⟨r, hr, hq0⟩)
        rw [hcl q hne', initState_getD]
        have : x[q]? = none := by simp; omega
        simp [List.getD_eq_getElem?_getD, this]

/-- an instance of the class of `C03_fragment_partial` (nested `And` / `Xor` / `Not`, binary `Or`) -/
example : inCleanFragment ["a", "b", "c"]
    [("_ret", .and [.or [.and [.sym "a", .not (.sym "b")], .xor [.sym "c", .not (.and [.sym "a", .sym "c"])]],
                    .sym "b"])] ["_ret"] = true := by
  decide +kernel

/-- another instance: an `Or` with four arguments, three of them bare argument symbols (or-chain) -/
example : inCleanFragment ["a", "b", "c", "d"]
    [("_ret", .xor [.or [.sym "a", .sym "b", .not (.sym "c"), .sym "d"], .and [.sym "a", .sym "d"]])] ["_ret"] = true := by
  decide +kernel

/-- (about the **unrepaired** compiler; the repaired `compile_or` folds binary ors and applies no `X` to an
argument qubit, and `C03_fragment_partial` now covers this instance.)  The part of `inFragment` the class used
to exclude (`smallOr`): `a & (a | b | c)` is in the class of `C02_fragment_partial` but its circuit was **not** clean.  The gate list is the one the unrepaired compiler and its model emitted with
ancillas 3, 4 (`anc_0` = the De Morgan `Or`, qubit 4 = `_ret`): `uncompute` replays `X 3` and the `MCX`
into qubit 3 without the `X` gates on the argument qubits, so on input `000` qubit 3 ends as 1
(finding `C03-uncompute-stale`, repaired).  (Kernel evaluation of `compile` itself is stuck on `List.mergeSort`,
so the list is spelled out; `./check C03` compares model and compiler gate lists on such instances.) -/
theorem C03_fragment_demorgan_witness :
    inFragment ["a", "b", "c"] [("_ret", .and [.sym "a", .or [.sym "a", .sym "b", .sym "c"]])] ["_ret"] = true ∧
    smallOr (.and [.sym "a", .or [.sym "a", .sym "b", .sym "c"]]) = false ∧
    inCleanFragment ["a", "b", "c"] [("_ret", .and [.sym "a", .or [.sym "a", .sym "b", .sym "c"]])] ["_ret"] = true ∧
    validateClean [{ cls := .X, wires := [0] }, { cls := .X, wires := [1] }, { cls := .X, wires := [2] },
      { cls := .MCX 3, wires := [0, 1, 2, 3] }, { cls := .X, wires := [0] }, { cls := .X, wires := [1] },
      { cls := .X, wires := [2] }, { cls := .X, wires := [3] }, { cls := .MCX 2, wires := [0, 3, 4] },
      { cls := .X, wires := [3] }, { cls := .MCX 3, wires := [0, 1, 2, 3] },
      { cls := .X, wires := [2] }, { cls := .X, wires := [1] }, { cls := .X, wires := [0] },
      { cls := .X, wires := [2] }, { cls := .X, wires := [1] }, { cls := .X, wires := [0] }] 5 3 [4] = false := by
  decide +kernel

/-- (about the **unrepaired** compiler.)  The other part the class used to exclude: with no requested return name
nothing was kept and `uncompute_all` replayed the gate of the result qubit after its control was uncomputed:
`(a & b) & c` (output of the unrepaired model with ancillas 3, 4) leaves qubit 4 dirty; the repaired compiler keeps
the ancillas of a definition that is not a return bit until `uncompute_all`, and `C03_fragment_partial` now covers
this instance -/
theorem C03_fragment_norets_witness :
    inFragment ["a", "b", "c"] [("_ret", .and [.and [.sym "a", .sym "b"], .sym "c"])] [] = true ∧
    inCleanFragment ["a", "b", "c"] [("_ret", .and [.and [.sym "a", .sym "b"], .sym "c"])] [] = true ∧
    validateClean [{ cls := .MCX 2, wires := [0, 1, 3] }, { cls := .MCX 2, wires := [2, 3, 4] },
      { cls := .MCX 2, wires := [0, 1, 3] }, { cls := .MCX 2, wires := [2, 3, 4] }] 5 3 [] = false := by
  decide +kernel

/-! ## Cleanliness on the general class (`QV/Proofs/CompilerGen9…11.lean`)

On top of the state invariant of `C02_general_partial`: the statement loop runs in two phases.  While the
intermediates are compiled (left-hand sides that are not requested return bits) no ancilla is released – each
statement ends with `keep_ancillas` –, every control of every gate keeps the value it had at gate time, every
target stays in use.  While the return bits are compiled each statement releases its ancillas inline
(`bennettF`); its gates target qubits allocated in this phase, and at every statement boundary each such
target is free again or the qubit of a requested return bit.  Hence `uncompute_all(keep)` – which replays, in
reverse, the gates of the circuit after `remove_identities` whose target is neither kept nor free
(`uncomputeAll_exact`, `removeIdentities_filter_rev`) – replays exactly the gates of the intermediates that do
not target a return qubit, and `bennettF` shows that it gives back zeros. -/

/-- **C03 on the general class** (`inGeneralCleanClass` = `inGeneralClean` ∨ `inCleanFragment`): the class of
`C02_general_partial` – arguments, several return bits, `Not` / `And` / `Or` / `Xor` of any arity with ANY sharing of
sub-expressions inside and across definitions (cache hits, also of a return statement on the kept ancillas of an
intermediate), re-binding of intermediates and arguments, constants, re-use of released ancillas, every admissible
sequence of ancilla choices – restricted to definition lists in which the intermediates come first and the requested
return bits last (`keptThenRet`), each return bit a NEW name defined once whose right-hand side is without constants
or a bare constant (`retDefs`; sympy leaves no other form).  With final
uncomputation on, every successful run of the compiler model is `Clean`: on every input every argument qubit is
unchanged and every qubit that is neither an argument nor the qubit of a requested return bit is back to zero.

Not covered (`docs/notes/C02_C03_C06.md`): a requested return name defined twice or re-binding an argument – the
compiler is WRONG there (finding: the first result qubit is uncomputed by `uncompute_all` after its ancillas were
released); an intermediate defined after a return bit (it may re-use ancillas the return statement released: the
replayed part of the return statement is then a palindrome `W ++ W.reverse`, not proved; no instance of the check's
corpus has this shape); a constant inside a return bit's compound expression (model only). -/
theorem C03_general_partial (inputs : List String) (defs : List (String × BExp)) (rets : List String)
    (choices : List Nat) (s : CState)
    (hf : inGeneralCleanClass inputs defs rets = true)
    (h : (compile inputs defs (some rets) true).run { choices := choices } = .ok ((), s)) :
    Clean s.qc.gates.toList s.qc.numQubits inputs.length (rets.filterMap (dictGet? s.qc.qmap)) := by
  simp only [inGeneralCleanClass, Bool.or_eq_true] at hf
  rcases hf with hf | hf
  · simp only [inGeneralClean, inGeneral, Bool.and_eq_true, decide_eq_true_eq, List.all_eq_true,
      Bool.not_eq_true'] at hf
    obtain ⟨⟨⟨⟨hnd, hfr⟩, hgen⟩, _⟩, hkr⟩ := hf
    intro x hx q _
    exact compile_general_clean h hnd hfr hgen hkr x hx q
  · exact C03_fragment_partial inputs defs rets choices s hf h

/-- an instance of the class that is in no older class: two intermediates (`m` is read three times, `And(a, b)`
is computed for `m` and found in the cache by both return statements), two return bits; the second return
statement re-uses the ancillas the first released -/
example : inGeneralClean ["a", "b", "c"]
    [("m", .or [.and [.sym "a", .sym "b"], .sym "c"]),
     ("t", .xor [.sym "m", .not (.sym "a")]),
     ("_ret.0", .xor [.and [.sym "a", .sym "b"], .sym "m", .not (.sym "t")]),
     ("_ret.1", .or [.and [.sym "a", .sym "b"], .and [.sym "t", .sym "m", .sym "c"]])] ["_ret.0", "_ret.1"] = true ∧
  inCleanFragment ["a", "b", "c"]
    [("m", .or [.and [.sym "a", .sym "b"], .sym "c"]),
     ("t", .xor [.sym "m", .not (.sym "a")]),
     ("_ret.0", .xor [.and [.sym "a", .sym "b"], .sym "m", .not (.sym "t")]),
     ("_ret.1", .or [.and [.sym "a", .sym "b"], .and [.sym "t", .sym "m", .sym "c"]])] ["_ret.0", "_ret.1"] = false := by
  decide +kernel

/-- not in the class: the return name is defined twice (the real compiler leaves qubit 4 dirty on input `011`) -/
example : inGeneralClean ["a", "b", "c"]
    [("r", .and [.sym "c", .or [.sym "a", .sym "b"]]), ("r", .sym "a")] ["r"] = false := by decide +kernel

/-- non-vacuity on a program outside the older classes (kernel-evaluated; programs with `And` / `Or` are exercised
through the driver, `List.mergeSort` does not evaluate in the kernel): an intermediate, then the return bit -/
example : inGeneralClean ["a", "b", "c"]
      [("m", .xor [.sym "a", .sym "b"]), ("_ret", .xor [.sym "m", .not (.sym "c")])] ["_ret"] = true ∧
    ∃ s, (compile ["a", "b", "c"]
      [("m", .xor [.sym "a", .sym "b"]), ("_ret", .xor [.sym "m", .not (.sym "c")])]
      (some ["_ret"]) true).run { choices := [3, 4] } = .ok ((), s) := by
  refine ⟨by decide +kernel, ?_⟩
  have h : ((compile ["a", "b", "c"]
      [("m", .xor [.sym "a", .sym "b"]), ("_ret", .xor [.sym "m", .not (.sym "c")])]
      (some ["_ret"]) true).run { choices := [3, 4] }).toBool = true := by decide +kernel
  cases hrun : (compile ["a", "b", "c"]
      [("m", .xor [.sym "a", .sym "b"]), ("_ret", .xor [.sym "m", .not (.sym "c")])]
      (some ["_ret"]) true).run { choices := [3, 4] } with
  | ok p => exact ⟨p.2, rfl⟩
  | error e => rw [hrun] at h; cases h

end QV.C03
