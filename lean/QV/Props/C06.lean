import QV.Model.Compiler
import QV.Proofs.Circuit
import QV.Proofs.CompilerClean
import QV.Model.CompilerClass
import QV.Proofs.Bennett
import QV.Proofs.CompilerGen11
/-!
# C06 – Predicates compile to xor-oracles: |x>|y> -> |x>|y xor f(x)>

For every compiled function returning a single bool, and every classical value of the inputs
and of the output qubit, the circuit flips the output qubit exactly when f(x) is true, leaves
the inputs unchanged and returns scratch qubits to zero.

`xor_oracle_of_clean` is universal (all X/CX/MCX circuits, all f): a circuit that is correct
and clean from `y = 0` and never uses the output qubit as a control is an xor-oracle for both
values of `y`.  `validateXor_sound`: the per-instance validator is sound for all `(x, y)`.
The semantic theorem `C06_fragment_partial` is proved for the model of the repaired compiler
(`docs/fixes/CC-*.diff`); its class no longer restricts the arity of `Or` (the repaired `compile_or`
applies no `X` gate to an argument qubit).
-/
namespace QV.C06
open QV QV.Compiler

def XorOracle (gates : List AGate) (numQubits nIn r : Nat) (f : List Bool → Bool) : Prop :=
  ∀ (x : List Bool) (y : Bool), x.length = nIn →
    runClassical gates ((initState x numQubits).set r y) = (initState x numQubits).set r (Bool.xor y (f x))

/-- correct and clean from `y = 0` -/
def CleanFromZero (gates : List AGate) (numQubits nIn r : Nat) (f : List Bool → Bool) : Prop :=
  ∀ x : List Bool, x.length = nIn →
    runClassical gates (initState x numQubits) = (initState x numQubits).set r (f x)

theorem initState_getD_out (x : List Bool) (n r : Nat) (h : x.length ≤ r) :
    (initState x n).getD r false = false := by
  unfold initState
  simp only [List.getD_eq_getElem?_getD]
  rw [List.getElem?_append_right h]
  cases hh : (List.replicate (n - x.length) false)[r - x.length]? with
  | none => rfl
  | some b =>
    have := List.mem_of_getElem? hh
    simp at this; simp [this.2]

theorem set_false_id (s : BState) (r : Nat) (h : s.getD r false = false) : s.set r false = s := by
  apply List.ext_getElem?
  intro k
  simp only [List.getElem?_set]
  by_cases hk : r = k
  · subst hk
    by_cases hl : r < s.length
    · have : s[r] = false := by simpa [List.getD_eq_getElem?_getD, List.getElem?_eq_getElem hl] using h
      simp [hl, this]
    · simp at hl; simp [hl]
  · simp [hk]

theorem flip_set (s : BState) (r : Nat) (b : Bool) : BState.flip (s.set r b) r = s.set r (!b) := by
  apply List.ext_getElem?
  intro k
  unfold BState.flip
  simp only [List.getElem?_modify, List.getElem?_set]
  by_cases hk : r = k
  · subst hk
    by_cases hl : r < s.length <;> simp [hl]
  · simp [hk]

/-- **xor-oracle from a clean circuit**: if the output qubit `r` (not an argument qubit) is
never a control, a circuit that is correct and clean from `y = 0` is an xor-oracle -/
theorem xor_oracle_of_clean (gates : List AGate) (numQubits nIn r : Nat) (f : List Bool → Bool)
    (hr : nIn ≤ r) (hnc : retNeverControl gates r = true)
    (h0 : CleanFromZero gates numQubits nIn r f) : XorOracle gates numQubits nIn r f := by
  intro x y hx
  have hz := initState_getD_out x numQubits r (by omega)
  cases y with
  | false =>
    rw [set_false_id _ r hz, h0 x hx]; simp
  | true =>
    rw [set_eq_flip_of_false _ r hz, runClassical_flip gates r hnc, h0 x hx, flip_set]; simp

/-- soundness of the per-instance validator, for all `(x, y)`, qubit by qubit -/
theorem validateXor_sound (gates : List AGate) (numQubits nIn r : Nat) (f : List Bool → Bool)
    (h : validateXor gates numQubits nIn r f = true) :
    ∀ (x : List Bool) (y : Bool), x.length = nIn → ∀ q, q < numQubits →
      let final := runClassical gates ((initState x numQubits).set r y)
      (q = r → final.getD q false = Bool.xor y (f x)) ∧
      (q ≠ r → q < nIn → final.getD q false = x.getD q false) ∧
      (q ≠ r → nIn ≤ q → final.getD q false = false) := by
  intro x y hx q hq
  simp only [validateXor, Bool.and_eq_true, List.all_eq_true] at h
  have hc := h.2 x (mem_allBits' hx)
  have hy : checkXor gates numQubits nIn r f x y = true := by
    cases y
    · exact hc.1
    · exact hc.2
  simp only [checkXor, List.all_eq_true, List.mem_range] at hy
  have := hy q hq
  refine ⟨?_, ?_, ?_⟩
  · intro e; simpa [e] using this
  · intro ne hlt
    have : (q == r) = false := by simpa using ne
    simp_all
  · intro ne hge
    have h1 : (q == r) = false := by simpa using ne
    have h2 : ¬ q < nIn := by omega
    simp_all

/-- non-vacuity: a Toffoli is an xor-oracle for `a & b` and meets the hypotheses of
`xor_oracle_of_clean` -/
example : validateXor [{ cls := .CCX, wires := [0, 1, 2] }] 3 2 2 (fun x => x.getD 0 false && x.getD 1 false) = true
    ∧ retNeverControl [{ cls := .CCX, wires := [0, 1, 2] }] 2 = true := by decide

/-- a correct, clean circuit that *does* use its output qubit as a control need not be an
xor-oracle: `CX 0→2; CX 2→1; CX 2→1 … ` – concrete witness: output used as control of a gate on
scratch qubit 1 is clean from y=0 only -/
theorem ret_as_control_witness :
    validateClean [{ cls := .CX, wires := [0, 2] }, { cls := .CX, wires := [2, 1] }, { cls := .CX, wires := [0, 1] }] 3 1 [2] = true ∧
    validateXor [{ cls := .CX, wires := [0, 2] }, { cls := .CX, wires := [2, 1] }, { cls := .CX, wires := [0, 1] }] 3 1 2 (fun x => x.getD 0 false) = false := by
  decide

/-! ## Xor-oracles on the proved fragment (`QV/Proofs/CompilerClean.lean`) -/

theorem runClassical_length' (gs : List AGate) : ∀ s : BState, (runClassical gs s).length = s.length := by
  induction gs with
  | nil => intro s; rfl
  | cons g gs ih => intro s; rw [runClassical_cons, ih, stepClassical_length]

theorem ext_getD {a b : List Bool} (hl : a.length = b.length) (h : ∀ i, a.getD i false = b.getD i false) :
    a = b := by
  apply List.ext_getElem hl
  intro i h1 h2
  have := h i
  simpa [List.getD_eq_getElem?_getD, List.getElem?_eq_getElem h1, List.getElem?_eq_getElem h2] using this

/-- **C06 on the tree-like single-definition fragment** (`inXorFragment`: `inCleanFragment` – `Or`s of any
arity –, and the defined name is a return name `_ret…` or the expression is compound, so the
output qubit is not an argument qubit), with `uncompute = true`: for every successful run of the
compiler model the qubit `q` of the return name is never a control (`retNeverControl`) and the circuit
is an xor-oracle `|x>|y> -> |x>|y xor f(x)>` on `q` for the function the definition denotes – inputs
unchanged, every other qubit back to zero, for both values of `y`.  From `C03_fragment_partial`'s
helper (`compile_single_clean`), `C02`'s `compile_single_sem` and `xor_oracle_of_clean`. -/
theorem C06_fragment_partial (inputs : List String) (defs : List (String × BExp)) (rets : List String)
    (choices : List Nat) (s : CState)
    (hf : inXorFragment inputs defs rets = true)
    (h : (compile inputs defs (some rets) true).run { choices := choices } = .ok ((), s)) :
    ∀ r ∈ rets, ∃ q, dictGet? s.qc.qmap r = some q ∧ inputs.length ≤ q ∧
      retNeverControl s.qc.gates.toList q = true ∧
      XorOracle s.qc.gates.toList s.qc.numQubits inputs.length q
        (fun x => envOf (evalDefs defs (inputs.zip x)) r) := by
  match defs, hf, h with
  | [(r, e)], hf, h =>
    simp only [inXorFragment, inCleanFragment, inFragment, Bool.and_eq_true, decide_eq_true_eq, List.all_eq_true,
      bne_iff_ne, ne_eq, Bool.not_eq_true', beq_iff_eq, Bool.or_eq_true] at hf
    obtain ⟨⟨⟨⟨⟨hnd, hfr⟩, hov⟩, htl⟩, hrets⟩, hout⟩ := hf
    intro r' hr'
    have hrr : r' = r := hrets r' hr'
    subst hrr
    have hgs : Good s := (compile_ok h).1
    have hx0 : (List.replicate inputs.length false).length = inputs.length := by simp
    obtain ⟨q, hq, _, hge, hnc, _⟩ :=
      compile_single_clean h rfl hr' hnd (fun n hn => hfr n hn) hov htl _ hx0
    have hqn : inputs.length ≤ q := hge hout
    have hqlt : q < s.qc.numQubits := hgs.qmap_lt _ (dictGet?_mem hq)
    refine ⟨q, hq, hqn, hnc hqn, ?_⟩
    apply xor_oracle_of_clean _ _ _ _ _ hqn (hnc hqn)
    intro x hx
    obtain ⟨q', hq', hcl, _, _, _⟩ :=
      compile_single_clean h rfl hr' hnd (fun n hn => hfr n hn) hov htl x hx
    obtain ⟨q'', hq'', hv⟩ := compile_single_sem h (fun _ => hr') hnd (fun n hn => hfr n hn) hov htl x hx
    rw [hq] at hq' hq''
    cases hq'; cases hq''
    apply ext_getD
    · rw [runClassical_length', List.length_set]
    · intro i
      by_cases hi : i = q
      · subst hi
        rw [hv]
        have hl : i < (initState x s.qc.numQubits).length := by
          rw [initState_length x _ (by rw [hx]; omega)]; exact hqlt
        simp [List.getD_eq_getElem?_getD, hl, evalDefs, envOf]
      · rw [hcl i hi]
        simp [List.getD_eq_getElem?_getD, Ne.symm hi]

/-- an instance of the class of `C06_fragment_partial` -/
example : inXorFragment ["a", "b", "c"]
    [("_ret", .and [.or [.and [.sym "a", .not (.sym "b")], .xor [.sym "c", .not (.and [.sym "a", .sym "c"])]],
                    .sym "b"])] ["_ret"] = true := by
  decide +kernel

/-- another instance: an `Or` with four arguments, three of them bare argument symbols (or-chain) -/
example : inXorFragment ["a", "b", "c", "d"]
    [("_ret", .xor [.or [.sym "a", .sym "b", .not (.sym "c"), .sym "d"], .and [.sym "a", .sym "d"]])] ["_ret"] = true := by
  decide +kernel

/-- the part of `inCleanFragment` the class excludes: a bare argument symbol under a name that is not a
return name is an alias of the argument qubit (no gate at all), which is clean but not an xor-oracle
on that qubit -/
theorem C06_fragment_alias_witness :
    inCleanFragment ["a"] [("r", .sym "a")] ["r"] = true ∧ inXorFragment ["a"] [("r", .sym "a")] ["r"] = false ∧
    validateClean [] 1 1 [0] = true ∧ validateXor [] 1 1 0 (fun x => x.getD 0 false) = false := by
  decide +kernel

/-! ## Xor-oracles on the general class (`QV/Proofs/CompilerGen1…11.lean`) -/

/-- **C06 on the general class**: one requested return bit `r`, the definition list in the class of
`C03_general_partial` (`inGeneralClean`: intermediates first – shared sub-expressions and cache hits inside and
across definitions, re-binding, constants, re-used ancillas –, the return bit a new name defined once, last), final
uncomputation on.  If the
output qubit is not an argument qubit and the compiled circuit never uses it as a control (`retNeverControl`, a
decidable check on the compiled gate list – it fails e.g. when the return bit is an alias of an intermediate that
other gates read), the circuit is an xor-oracle `|x⟩|y⟩ ↦ |x⟩|y ⊕ f(x)⟩` for the value `f` the reference semantics
gives `r`, for both values of `y`, with every other qubit restored. -/
theorem C06_general_partial (inputs : List String) (defs : List (String × BExp)) (r : String)
    (choices : List Nat) (s : CState) (q : Nat)
    (hf : inGeneralClean inputs defs [r] = true)
    (h : (compile inputs defs (some [r]) true).run { choices := choices } = .ok ((), s))
    (hq : dictGet? s.qc.qmap r = some q) (hqn : inputs.length ≤ q)
    (hnc : retNeverControl s.qc.gates.toList q = true) :
    XorOracle s.qc.gates.toList s.qc.numQubits inputs.length q
      (fun x => envOf (evalDefs defs (inputs.zip x)) r) := by
  have hgs : Good s := (compile_ok h).1
  have hqlt : q < s.qc.numQubits := hgs.qmap_lt _ (dictGet?_mem hq)
  have hf' := hf
  simp only [inGeneralClean, inGeneral, Bool.and_eq_true, decide_eq_true_eq, List.all_eq_true,
    Bool.not_eq_true', Bool.or_eq_true, List.contains_eq_mem, List.any_eq_true, beq_iff_eq] at hf'
  obtain ⟨⟨⟨⟨hnd, hfr⟩, hgen⟩, hrets⟩, hkr⟩ := hf'
  apply xor_oracle_of_clean _ _ _ _ _ hqn hnc
  intro x hx
  have hr : r ∈ inputs ∨ ∃ p ∈ defs, p.1 = r := by
    rcases hrets r (by simp) with h' | ⟨p, hp, hpr⟩
    · exact Or.inl (by simpa using h')
    · exact Or.inr ⟨p, hp, hpr⟩
  obtain ⟨q', hq', hv⟩ := compile_general_sem h hnd hfr hgen x hx r hr (fun _ => by simp)
  rw [hq] at hq'
  cases hq'
  have houts : [r].filterMap (dictGet? s.qc.qmap) = [q] := by simp [hq]
  apply ext_getD
  · rw [runClassical_length', List.length_set]
  · intro i
    by_cases hi : i = q
    · subst hi
      rw [hv]
      have hl : i < (initState x s.qc.numQubits).length := by
        rw [initState_length x _ (by rw [hx]; omega)]; exact hqlt
      simp [List.getD_eq_getElem?_getD, hl]
    · obtain ⟨c1, c2⟩ := compile_general_clean h hnd hfr hgen hkr x hx i
      have hset : ((initState x s.qc.numQubits).set q (envOf (evalDefs defs (inputs.zip x)) r)).getD i false =
          (initState x s.qc.numQubits).getD i false := by
        simp [List.getD_eq_getElem?_getD, Ne.symm hi]
      rw [hset, initState_getD]
      by_cases hin : i < inputs.length
      · exact c1 hin
      · rw [c2 (by omega) (by rw [houts]; simpa using hi)]
        have : x[i]? = none := by simp; omega
        simp [List.getD_eq_getElem?_getD, this]

/-- an instance of the static class: an intermediate whose sub-expression `And(a, b)` the return statement finds in
the cache -/
example : inGeneralXor ["a", "b", "c"]
    [("m", .or [.and [.sym "a", .sym "b"], .sym "c"]),
     ("_ret", .xor [.and [.sym "a", .sym "b"], .sym "m", .not (.sym "c")])] ["_ret"] = true := by
  decide +kernel

end QV.C06
