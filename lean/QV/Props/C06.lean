import QV.Model.Compiler
import QV.Proofs.Circuit
/-!
# C06 – Predicates compile to xor-oracles: |x>|y> -> |x>|y xor f(x)>

For every compiled function returning a single bool, and every classical value of the inputs
and of the output qubit, the circuit flips the output qubit exactly when f(x) is true, leaves
the inputs unchanged and returns scratch qubits to zero.

`xor_oracle_of_clean` is universal (all X/CX/MCX circuits, all f): a circuit that is correct
and clean from `y = 0` and never uses the output qubit as a control is an xor-oracle for both
values of `y`.  `validateXor_sound`: the per-instance validator is sound for all `(x, y)`.
-/
namespace QV.C06
open QV QV.Compiler

def XorOracle (gates : List AGate) (numQubits nIn r : Nat) (f : List Bool → Bool) : Prop :=
  ∀ (x : List Bool) (y : Bool), x.length = nIn →
    runClassical gates ((initState x numQubits).set r y) = (initState x numQubits).set r (Bool.xor y (f x))

/-- correct and clean from `y = 0` -/
def CleanFromZero (gates : List AGate) (numQubits nIn r : Nat) (f : List Bool → Bool) : Prop :=
  ∀ x : List Bool, x.length = nIn →
    runClassical gates (initState x numQubits) = (initState x numQubits).set r (f x)

theorem initState_getD_out (x : List Bool) (n r : Nat) (h : x.length ≤ r) :
    (initState x n).getD r false = false := by
  unfold initState
  simp only [List.getD_eq_getElem?_getD]
  rw [List.getElem?_append_right h]
  cases hh : (List.replicate (n - x.length) false)[r - x.length]? with
  | none => rfl
  | some b =>
    have := List.mem_of_getElem? hh
    simp at this; simp [this.2]

theorem set_false_id (s : BState) (r : Nat) (h : s.getD r false = false) : s.set r false = s := by
  apply List.ext_getElem?
  intro k
  simp only [List.getElem?_set]
  by_cases hk : r = k
  · subst hk
    by_cases hl : r < s.length
    · have : s[r] = false := by simpa [List.getD_eq_getElem?_getD, List.getElem?_eq_getElem hl] using h
      simp [hl, this]
    · simp at hl; simp [hl]
  · simp [hk]

theorem flip_set (s : BState) (r : Nat) (b : Bool) : BState.flip (s.set r b) r = s.set r (!b) := by
  apply List.ext_getElem?
  intro k
  unfold BState.flip
  simp only [List.getElem?_modify, List.getElem?_set]
  by_cases hk : r = k
  · subst hk
    by_cases hl : r < s.length <;> simp [hl]
  · simp [hk]

/-- **xor-oracle from a clean circuit**: if the output qubit `r` (not an argument qubit) is
never a control, a circuit that is correct and clean from `y = 0` is an xor-oracle -/
theorem xor_oracle_of_clean (gates : List AGate) (numQubits nIn r : Nat) (f : List Bool → Bool)
    (hr : nIn ≤ r) (hnc : retNeverControl gates r = true)
    (h0 : CleanFromZero gates numQubits nIn r f) : XorOracle gates numQubits nIn r f := by
  intro x y hx
  have hz := initState_getD_out x numQubits r (by omega)
  cases y with
  | false =>
    rw [set_false_id _ r hz, h0 x hx]; simp
  | true =>
    rw [set_eq_flip_of_false _ r hz, runClassical_flip gates r hnc, h0 x hx, flip_set]; simp

/-- soundness of the per-instance validator, for all `(x, y)`, qubit by qubit -/
theorem validateXor_sound (gates : List AGate) (numQubits nIn r : Nat) (f : List Bool → Bool)
    (h : validateXor gates numQubits nIn r f = true) :
    ∀ (x : List Bool) (y : Bool), x.length = nIn → ∀ q, q < numQubits →
      let final := runClassical gates ((initState x numQubits).set r y)
      (q = r → final.getD q false = Bool.xor y (f x)) ∧
      (q ≠ r → q < nIn → final.getD q false = x.getD q false) ∧
      (q ≠ r → nIn ≤ q → final.getD q false = false) := by
  intro x y hx q hq
  simp only [validateXor, Bool.and_eq_true, List.all_eq_true] at h
  have hc := h.2 x (mem_allBits' hx)
  have hy : checkXor gates numQubits nIn r f x y = true := by
    cases y
    · exact hc.1
    · exact hc.2
  simp only [checkXor, List.all_eq_true, List.mem_range] at hy
  have := hy q hq
  refine ⟨?_, ?_, ?_⟩
  · intro e; simpa [e] using this
  · intro ne hlt
    have : (q == r) = false := by simpa using ne
    simp_all
  · intro ne hge
    have h1 : (q == r) = false := by simpa using ne
    have h2 : ¬ q < nIn := by omega
    simp_all

/-- non-vacuity: a Toffoli is an xor-oracle for `a & b` and meets the hypotheses of
`xor_oracle_of_clean` -/
example : validateXor [{ cls := .CCX, wires := [0, 1, 2] }] 3 2 2 (fun x => x.getD 0 false && x.getD 1 false) = true
    ∧ retNeverControl [{ cls := .CCX, wires := [0, 1, 2] }] 2 = true := by decide

/-- a correct, clean circuit that *does* use its output qubit as a control need not be an
xor-oracle: `CX 0→2; CX 2→1; CX 2→1 … ` – concrete witness: output used as control of a gate on
scratch qubit 1 is clean from y=0 only -/
theorem ret_as_control_witness :
    validateClean [{ cls := .CX, wires := [0, 2] }, { cls := .CX, wires := [2, 1] }, { cls := .CX, wires := [0, 1] }] 3 1 [2] = true ∧
    validateXor [{ cls := .CX, wires := [0, 2] }, { cls := .CX, wires := [2, 1] }, { cls := .CX, wires := [0, 1] }] 3 1 2 (fun x => x.getD 0 false) = false := by
  decide

end QV.C06
