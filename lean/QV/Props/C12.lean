import QV.Model.Decopt
import QV.Proofs.Decopt
import QV.Proofs.Decopt2
/-!
# C12 – The circuit boolean optimizer returns an equivalent, no larger circuit

Property: for every circuit, the boolean optimizer (without a preserve list) returns a circuit
on the same qubits implementing the same unitary, with no more gates than the original.  The
input circuit is not modified.

Model: `QV.Decopt` (`qlasskit/decompiler/decopt.py`) on top of `QV.Decompiler` and
`QV.Compiler`.  "Same unitary" is `SameUnitary n out gs` (`QV/Proofs/Decopt.lean`): for every
amplitude type and every meaning of the gates in which X/CX/CCX/MCX/MCtrl(X) permute the basis
states as `applyClassical` says and `I`/barriers do nothing (all other gates arbitrary), the two
gate lists send every state to the same state.

The internal-compiler model follows the repaired compiler (`docs/fixes/CC-*.diff`); `accepted_xonly`
(`QV/Proofs/Decopt2.lean`) is ported to it.

`C12_statement` below is the full property of the repaired model.  It is **proved** at the end of
this file (`C12_full`, `C12_statement_holds`): the missing theorem about the internal compiler is
`accepted_xonly` (`QV/Proofs/Decopt2.lean`) – a re-synthesis the repaired splice test accepts consists
of the X gates of the section's self-negations `q = ~q` – and such a splice keeps the action
(`xonly_splice_ok`).  Proved on the way, for every circuit, every simplifier, every sequence of
ancilla choices, every quirk setting:

* `splice_equiv` – if every section that is spliced in has the same classical action as the
  gates it replaces (`SectionOK`; decidable per instance: `sectionOKb`, run by the check on
  every splice of every case), the result is `SameUnitary` with the input;
* `no_larger`, `same_qubits` – unconditionally;
* `C12_partial` – the three together under `validated` (the per-instance validator);
* `off_trigger` – away from the listed defect the code as it is equals the repaired code;
* `custom_simplify_preserves` – `custom_simplify_logic2` keeps the meaning of every expression;
* `splice_rename_witness` – the code as it is violates the property on the 3-CX swap.

"The input circuit is not modified": the model is a function of the gate list (it has no heap);
on the code this part is observed by the check (deep comparison and object identities).
-/
namespace QV.C12
open QV QV.Decompiler QV.Decopt

/-- the property of one run: same operation, not longer, on the qubits of the input -/
def Holds (n : Nat) (gs out : List AGate) : Prop :=
  SameUnitary n out gs ∧ out.length ≤ gs.length ∧ ∀ g ∈ out, ∀ i ∈ g.wires, i ∈ wiresOf gs

/-- what is assumed of `simplify_logic` -/
def SimpSound (simp : BExp → BExp) : Prop := ∀ ρ e, (simp e).eval ρ = e.eval ρ

/-- the full property, for the repaired model: whatever (meaning-preserving) simplifier and
whatever ancilla choices, every successful run on a circuit built by `QCircuit.append`
(distinct wires per gate) satisfies `Holds` -/
def C12_statement : Prop :=
  ∀ (simp : BExp → BExp), SimpSound simp → ∀ (choices : Section → List Nat) (n : Nat)
    (gs out : List AGate), (∀ g ∈ gs, g.wires.Nodup) →
    optimize Quirks.none rawKernel rawKernel4 simp choices n gs = .ok out → Holds n gs out

/-- **splice_equiv**: for every circuit, every re-synthesis function and every quirk setting, if
each section that the loop splices in has the classical action of the section it replaces, the
returned gate list implements the same operation as the input (induction over the splices:
the replaced ranges hold only permutation gates and no-ops, everything else stays in place) -/
theorem splice_equiv (q : Quirks) (K : Kernel) (n : Nat) (resyn : Section → Except String SecResult)
    (gs out : List AGate) (secs : List Section) (hwf : ∀ g ∈ gs, g.wires.Nodup)
    (hdec : decompile q K n gs = .ok secs)
    (hok : ∀ s ∈ secs, ∀ r, resyn s = .ok r → accept q n s r = true → SectionOK n s.gates r.gates)
    (h : optimizeWith q K n resyn gs = .ok out) : SameUnitary n out gs := by
  unfold optimizeWith at h
  rw [hdec] at h
  obtain ⟨hpw, hhi, hgood⟩ := decompile_ranges hdec
  refine (spliceLoop_inv q n resyn gs (SameUnitary n) SameUnitary.trans
    (fun hab P T => SameUnitary.congr hab P T) secs.reverse gs out gs.length [] hpw hhi
    (Nat.le_refl _) (by simp) hgood ?_ (SameUnitary.refl n gs) (Nat.le_refl _) h).1
  intro s hs r hr ha
  exact range_sameUnitary hwf (hgood s hs) (hok s (List.mem_reverse.mp hs) r hr ha)

/-- **no_larger**: for every circuit, re-synthesis function and quirk setting, the result has
no more gates than the input (every splice is guarded by `len(new) <= len(old)`, the old gates
all lie in the replaced range; lengths add) -/
theorem no_larger (q : Quirks) (K : Kernel) (n : Nat) (resyn : Section → Except String SecResult)
    (gs out : List AGate) (h : optimizeWith q K n resyn gs = .ok out) : out.length ≤ gs.length := by
  unfold optimizeWith at h
  cases hdec : decompile q K n gs with
  | error e => rw [hdec] at h; cases h
  | ok secs =>
    rw [hdec] at h
    obtain ⟨hpw, hhi, hgood⟩ := decompile_ranges hdec
    exact (spliceLoop_inv q n resyn gs (fun _ _ => True) (fun _ _ => trivial)
      (fun _ _ _ => trivial) secs.reverse gs out gs.length [] hpw hhi
      (Nat.le_refl _) (by simp) hgood (fun _ _ _ _ _ => trivial) trivial (Nat.le_refl _) h).2

/-- **same_qubits**: every gate of the result acts on qubits the input acts on (the new gates of
a splice touch only qubits of the section they replace); the returned circuit's `num_qubits` is
copied from the input -/
theorem same_qubits (q : Quirks) (K : Kernel) (n : Nat) (resyn : Section → Except String SecResult)
    (gs out : List AGate) (h : optimizeWith q K n resyn gs = .ok out) :
    ∀ g ∈ out, ∀ i ∈ g.wires, i ∈ wiresOf gs := by
  unfold optimizeWith at h
  cases hdec : decompile q K n gs with
  | error e => rw [hdec] at h; cases h
  | ok secs =>
    rw [hdec] at h
    obtain ⟨_, _, hgood⟩ := decompile_ranges hdec
    exact spliceLoop_wires q n resyn gs secs.reverse gs out
      (fun s hs => rangeGood_gates_mem (hgood s hs))
      (fun g hg i hi => mem_wiresOf.mpr ⟨g, hg, hi⟩) h

/-- in particular the result stays inside `n` qubits when the input does -/
theorem same_qubits_bound (q : Quirks) (K : Kernel) (n : Nat) (resyn : Section → Except String SecResult)
    (gs out : List AGate) (hn : ∀ g ∈ gs, ∀ i ∈ g.wires, i < n)
    (h : optimizeWith q K n resyn gs = .ok out) : ∀ g ∈ out, ∀ i ∈ g.wires, i < n := by
  intro g hg i hi
  obtain ⟨g', hg', hi'⟩ := mem_wiresOf.mp (same_qubits q K n resyn gs out h g hg i hi)
  exact hn g' hg' i hi'

/-- the per-instance validator is sound and complete for `SectionOK` -/
theorem sectionOK_decidable (n : Nat) (old new : List AGate) :
    sectionOKb n old new = true ↔ SectionOK n old new :=
  ⟨sectionOKb_sound, sectionOKb_complete⟩

/-- **C12_partial** (the property per validated instance): for every circuit, every
re-synthesis function (so every simplifier and every sequence of ancilla choices) and every quirk
setting, a run all of whose splices pass the validator satisfies the property.  That the
repaired model's splices always pass is `accepted_section_ok` below. -/
theorem C12_partial (q : Quirks) (K : Kernel) (n : Nat) (resyn : Section → Except String SecResult)
    (gs out : List AGate) (secs : List Section) (hwf : ∀ g ∈ gs, g.wires.Nodup)
    (hdec : decompile q K n gs = .ok secs) (hv : validated q n resyn secs = true)
    (h : optimizeWith q K n resyn gs = .ok out) : Holds n gs out := by
  refine ⟨splice_equiv q K n resyn gs out secs hwf hdec ?_ h, no_larger q K n resyn gs out h,
    same_qubits q K n resyn gs out h⟩
  intro s hs r hr ha
  have := List.all_eq_true.mp hv s hs
  rw [hr] at this
  simp only [ha, Bool.not_true, Bool.false_or] at this
  exact sectionOKb_sound this

/-- **off_trigger**: on every circuit where no spliced section was renamed by its re-synthesis
(`triggers = false`), the code as it is (any quirk setting) returns what the repaired code returns -/
theorem off_trigger (q : Quirks) (K : Kernel) (n : Nat) (resyn : Section → Except String SecResult)
    (gs : List AGate) (secs : List Section) (hdec : decompile q K n gs = .ok secs)
    (ht : Decopt.triggers q n resyn secs = false) :
    optimizeWith q K n resyn gs = spliceLoop Quirks.none n resyn secs.reverse gs := by
  unfold optimizeWith
  rw [hdec]
  apply spliceLoop_congr
  intro s hs
  rw [Decopt.triggers_eq] at ht
  cases hq : q.spliceIgnoresRename with
  | false => rfl
  | true =>
    rw [hq, Bool.true_and] at ht
    rw [Bool.true_and]
    exact List.any_eq_false.mp ht s (List.mem_reverse.mp hs) |> fun h => by simpa using h

/-- a re-synthesis that is spliced in by the repaired code has renamed no qubit -/
theorem repaired_accepts_stable (n : Nat) (s : Section) (r : SecResult)
    (h : accept Quirks.none n s r = true) : nameStable n r.qmap = true := accept_stable h

/-- **custom_simplify_preserves**: for every meaning-preserving `simplify_logic` and kernel of
constructors, `custom_simplify_logic2` keeps the meaning of every expression, so the list handed
to the compiler has the keys and the meanings of the section's expressions -/
theorem custom_simplify_preserves (simp : BExp → BExp) (K4 : Kernel4) (hK : K4.Sound)
    (hs : SimpSound simp) (s : Section) :
    (simplifySection simp K4 s).map (·.1) = s.exps.map (·.1) ∧
    ∀ ρ e, (customSimplify simp K4 e).eval ρ = e.eval ρ := by
  refine ⟨?_, fun ρ e => customSimplify_eval hK hs ρ e⟩
  unfold simplifySection
  rw [List.map_map]; rfl

/-- **xonly_section_ok** (the fragment the repaired optimizer accepts in practice): for every
section, every sound kernel and every `n`: if the section's decompiled expressions say "the qubits
in `F` are negated, every other qubit keeps its value" (what a meaning-preserving simplifier turns
into `q = ~q` / drops) and the re-synthesised gate list is one X gate per qubit of `F`, then the
splice is `SectionOK` – by the soundness of the symbolic execution (C11 `symexec_sound`).  Together
with `splice_equiv` this is the property for every run whose accepted sections are of this kind;
that the compiler model emits exactly these X gates is shown by the correspondence, not proved. -/
theorem xonly_section_ok (K : Kernel) (hK : K.Sound) (q : Quirks) (n : Nat) (sec : List AGate) (d : Dict)
    (hd : expsOfSection q K n sec = .ok d) (new : List AGate) (F : List Nat) (hF : F.Nodup)
    (hnew : new.map (fun g => (g.cls, g.wires)) = F.map (fun i => (GClass.X, [i])))
    (hflip : ∀ i ∈ F, ∀ ρ, (expOf d i).eval ρ = !ρ (qname i))
    (hid : ∀ i, i < n → i ∉ F → ∀ ρ, (expOf d i).eval ρ = ρ (qname i)) :
    SectionOK n sec new :=
  xonly_sectionOK K hK q n sec d hd new F hF hnew hflip hid

/-- the hypotheses of `xonly_section_ok` are satisfiable: `x(0) x(1) x(0)` on two qubits, `F = [1]` -/
example : SectionOK 2 [⟨.X, [0], .none, 0⟩, ⟨.X, [1], .none, 0⟩, ⟨.X, [0], .none, 0⟩] [⟨.X, [1], .none, 7⟩] := by
  refine xonly_section_ok rawKernel rawKernel_sound Quirks.none 2 _
    [("q0", .not (.not (.sym "q0"))), ("q1", .not (.sym "q1"))] (by rfl) _ [1] (by decide) (by decide) ?_ ?_
  · intro i hi ρ
    simp only [List.mem_singleton] at hi
    subst hi
    rfl
  · intro i hi hne ρ
    have : i = 0 := by
      simp only [List.mem_singleton] at hne
      omega
    subst this
    show (!(!ρ "q0")) = ρ "q0"
    simp

/-- the kernel hypothesis is satisfiable -/
theorem raw_kernel4_sound : rawKernel4.Sound := rawKernel4_sound

/-! ## non-vacuity -/

/-- `SemLaws` is satisfiable: the semantics in which only the classical gates act -/
example (n : Nat) : SemLaws (α := Nat) n
    (fun g ψ => if g.cls.isMCXLike then fun b => ψ (g.applyClassical b) else ψ) where
  perm := by intro g hg ψ b; simp [hg]
  skip := by
    intro g hg ψ
    have : g.cls.isMCXLike = false := by
      rcases hg with h | h
      · cases hc : g.cls <;> simp_all [GClass.isMCXLike, GClass.isNop]
      · rw [h]; rfl
    simp [this]
  loc := by
    intro g ψ φ h b hb
    by_cases hm : g.cls.isMCXLike = true
    · simp only [hm, if_true]; exact h _ (by rw [applyClassical_length]; exact hb)
    · simp only [hm]; exact h b hb

def xcx : List AGate :=
  [⟨.X, [0], .none, 0⟩, ⟨.CX, [0, 1], .none, 0⟩, ⟨.X, [0], .none, 0⟩, ⟨.CX, [0, 1], .none, 0⟩,
   ⟨.H, [1], .none, 0⟩, ⟨.X, [1], .none, 0⟩, ⟨.X, [1], .none, 0⟩]

/-- `x(0) cx(0,1) x(0) cx(0,1) h(1) x(1) x(1)` with the simplifier that answers `~q1` for the
first section and nothing for the second: both splices are accepted and validated, the result
is `x(1) h(1)` -/
def xcxSimp : Section → List (String × BExp) := fun s =>
  if s.start = 0 then [("q1", .not (.sym "q1"))] else []

example : (decompile Quirks.none rawKernel 2 xcx).toOption.map (fun l => l.map (fun s => (s.start, s.stop)))
      = some [(0, 4), (5, 7)] ∧
    ((decompile Quirks.none rawKernel 2 xcx).toOption.map
      (validated Quirks.none 2 (resynSection 2 xcxSimp (fun _ => [])))) = some true ∧
    (optimizeWith Quirks.none rawKernel 2 (resynSection 2 xcxSimp (fun _ => [])) xcx).toOption.map
      (fun l => l.map (fun g => (g.cls, g.wires))) = some [(.X, [1]), (.H, [1])] := by
  decide +kernel

/-! ## the defect of the code as it is -/

def swap01 : List AGate :=
  [⟨.CX, [0, 1], .none, 0⟩, ⟨.CX, [1, 0], .none, 0⟩, ⟨.CX, [0, 1], .none, 0⟩]

/-- a (meaning-preserving on these inputs) simplifier: the two expressions of the 3-CX swap are
simplified to the symbols they are equivalent to, everything else is left alone -/
def swapSimp : BExp → BExp := fun e =>
  if e == .xor [.xor [.sym "q0", .sym "q1"], .sym "q0"] then .sym "q1"
  else if e == .xor [.xor [.xor [.sym "q0", .sym "q1"], .sym "q0"], .xor [.sym "q0", .sym "q1"]] then .sym "q0"
  else e

/-- **splice_rename_witness**: `cx(0,1) cx(1,0) cx(0,1)` (a swap of two qubits).  The code as it
is (`spliceIgnoresRename`) replaces the section by the empty gate list, which does not have the
classical action of the input on `|10>`; the splice does not pass the validator.  The repaired
code leaves the circuit as it is. -/
theorem splice_rename_witness :
    (optimize (Quirks.ofList ["spliceIgnoresRename"]) rawKernel rawKernel4 swapSimp (fun _ => []) 2 swap01).toOption
      = some [] ∧
    runClassical [] [true, false] ≠ runClassical swap01 [true, false] ∧
    ((decompile Quirks.none rawKernel 2 swap01).toOption.map
      (validated (Quirks.ofList ["spliceIgnoresRename"]) 2
        (resynSection 2 (simplifySection swapSimp rawKernel4) (fun _ => [])))) = some false ∧
    ((decompile Quirks.none rawKernel 2 swap01).toOption.map
      (Decopt.triggers (Quirks.ofList ["spliceIgnoresRename"]) 2
        (resynSection 2 (simplifySection swapSimp rawKernel4) (fun _ => [])))) = some true ∧
    (optimize Quirks.none rawKernel rawKernel4 swapSimp (fun _ => []) 2 swap01).toOption = some swap01 := by
  decide +kernel

/-- the empty circuit is not the swap: `SameUnitary` fails for the witness' output (take the
semantics in which only the classical gates act, the state `δ_{10}`, and read it at `01`) -/
theorem splice_rename_violates : ¬ SameUnitary 2 [] swap01 := by
  intro h
  have hl : SemLaws (α := Bool) 2
      (fun g ψ => if g.cls.isMCXLike then fun b => ψ (g.applyClassical b) else ψ) := by
    refine ⟨?_, ?_, ?_⟩
    · intro g hg ψ b; simp [hg]
    · intro g hg ψ
      have : g.cls.isMCXLike = false := by
        rcases hg with h | h
        · cases hc : g.cls <;> simp_all [GClass.isMCXLike, GClass.isNop]
        · rw [h]; rfl
      simp [this]
    · intro g ψ φ h b hb
      by_cases hm : g.cls.isMCXLike = true
      · simp only [hm, if_true]; exact h _ (by rw [applyClassical_length]; exact hb)
      · simp only [hm]; exact h b hb
  have := h Bool _ hl (fun b => b == [true, false]) [false, true] rfl
  revert this
  decide

/-! ## the shape of the accepted splices (added after `CompilerInv`/`CompilerSem` and the `renamed` guard) -/

/-- **xonly_splice_ok**: for every section of a decompilation, every sound kernel, every
meaning-preserving simplifier: if the simplified definitions are all `q = q` or `q = ~q` and the
re-synthesised gates are the X gates of the self-negations (`xonly`, decidable), the splice is
`SectionOK` -/
theorem xonly_splice_ok (simp : BExp → BExp) (hs : SimpSound simp) (K : Kernel) (hK : K.Sound)
    (K4 : Kernel4) (hK4 : K4.Sound) (q : Quirks) (n : Nat) (gs : List AGate) (secs : List Section)
    (hdec : decompile q K n gs = .ok secs) (s : Section) (hmem : s ∈ secs) (new : List AGate)
    (hx : xonly n (simplifySection simp K4 s) new = true) : SectionOK n s.gates new :=
  xonly_ok hK q n s.gates s.exps (decompile_exps hdec s hmem) (customSimplify simp K4)
    (fun ρ e => customSimplify_eval hK4 hs ρ e) new hx

/-- **C12_xonly_partial** (the property per run, under the decidable shape predicate): for every
circuit, simplifier, ancilla choices and quirk setting, a run all of whose accepted splices are
of the `xonly` shape (`xonlyRun = true`, checked by the harness on every case) satisfies the
property.  `accepted_xonly` below discharges the hypothesis for the repaired model. -/
theorem C12_xonly_partial (simp : BExp → BExp) (hs : SimpSound simp) (K : Kernel) (hK : K.Sound)
    (K4 : Kernel4) (hK4 : K4.Sound) (q : Quirks) (choices : Section → List Nat) (n : Nat)
    (gs out : List AGate) (secs : List Section) (hwf : ∀ g ∈ gs, g.wires.Nodup)
    (hdec : decompile q K n gs = .ok secs)
    (hx : xonlyRun q n (simplifySection simp K4) (resynSection n (simplifySection simp K4) choices) secs = true)
    (h : optimize q K K4 simp choices n gs = .ok out) : Holds n gs out := by
  unfold optimize at h
  refine ⟨splice_equiv q K n _ gs out secs hwf hdec ?_ h, no_larger q K n _ gs out h,
    same_qubits q K n _ gs out h⟩
  intro s hmem r hr ha
  have := List.all_eq_true.mp hx s hmem
  rw [hr] at this
  simp only [ha, Bool.not_true, Bool.false_or] at this
  exact xonly_splice_ok simp hs K hK K4 hK4 q n gs secs hdec s hmem r.gates this

/-- **accepted_xonly** (the theorem about the internal compiler that was missing): for every
section of a decompilation, every simplifier (sound or not), every sequence of ancilla choices: a
re-synthesis `exprs_to_quantum(simplified expressions, symbols = q0 … q{n-1})` that the repaired
splice test accepts – in fact already one whose qubit map still sends every `q{i}` to `i` – is of the
`xonly` shape: every simplified definition is `q = q` or `q = ~q` and the gates are the X gates of the
self-negations.  (From `stable_xonly`: the first other definition `q{i} = e` is compiled into a qubit
`≠ i` – another argument, the `FALSE`/`TRUE` qubit, an ancilla – `q{i}` is re-mapped onto it and, the
names being distinct, never mapped back.) -/
theorem accepted_xonly (simp : BExp → BExp) (K : Kernel) (hK : K.Sound) (K4 : Kernel4) (q : Quirks)
    (n : Nat) (gs : List AGate) (secs : List Section) (hdec : decompile q K n gs = .ok secs)
    (s : Section) (hmem : s ∈ secs) (choices : List Nat) (r : SecResult)
    (hr : resynth n (simplifySection simp K4 s) choices = .ok r)
    (ha : accept Quirks.none n s r = true) : xonly n (simplifySection simp K4 s) r.gates = true :=
  stable_xonly (simplifySection_keysOK hK (decompile_exps hdec s hmem) simp K4) hr (accept_stable ha)

/-- **accepted_section_ok**: with a meaning-preserving simplifier, every re-synthesis the repaired
splice test accepts has the classical action of the section it replaces -/
theorem accepted_section_ok (simp : BExp → BExp) (hs : SimpSound simp) (K : Kernel) (hK : K.Sound)
    (K4 : Kernel4) (hK4 : K4.Sound) (q : Quirks) (n : Nat) (gs : List AGate) (secs : List Section)
    (hdec : decompile q K n gs = .ok secs) (s : Section) (hmem : s ∈ secs) (choices : List Nat)
    (r : SecResult) (hr : resynth n (simplifySection simp K4 s) choices = .ok r)
    (ha : accept Quirks.none n s r = true) : SectionOK n s.gates r.gates :=
  xonly_splice_ok simp hs K hK K4 hK4 q n gs secs hdec s hmem r.gates
    (accepted_xonly simp K hK K4 q n gs secs hdec s hmem choices r hr ha)

/-- **C12_full** (the whole property of the repaired model): for every circuit built by
`QCircuit.append` (distinct wires per gate), every meaning-preserving `simplify_logic`, all sound
constructor kernels and all ancilla choices, every successful run of `circuit_boolean_optimizer`
returns a circuit with the same action (`SameUnitary`), no more gates, on the qubits of the input -/
theorem C12_full (simp : BExp → BExp) (hs : SimpSound simp) (K : Kernel) (hK : K.Sound)
    (K4 : Kernel4) (hK4 : K4.Sound) (choices : Section → List Nat) (n : Nat) (gs out : List AGate)
    (hwf : ∀ g ∈ gs, g.wires.Nodup)
    (h : optimize Quirks.none K K4 simp choices n gs = .ok out) : Holds n gs out := by
  cases hdec : decompile Quirks.none K n gs with
  | error e =>
    unfold optimize optimizeWith at h
    rw [hdec] at h; cases h
  | ok secs =>
    refine C12_xonly_partial simp hs K hK K4 hK4 Quirks.none choices n gs out secs hwf hdec ?_ h
    unfold xonlyRun
    rw [List.all_eq_true]
    intro s hmem
    cases hr : resynSection n (simplifySection simp K4) choices s with
    | error e => rfl
    | ok r =>
      dsimp only
      cases ha : accept Quirks.none n s r with
      | false => rfl
      | true =>
        simp only [Bool.not_true, Bool.false_or]
        exact accepted_xonly simp K hK K4 Quirks.none n gs secs hdec s hmem (choices s) r hr ha

/-- **repaired_validated**: the per-instance validator of `C12_partial` never fails on the repaired
model (it is still run on every case as a cross-check of model and proof) -/
theorem repaired_validated (simp : BExp → BExp) (hs : SimpSound simp) (K : Kernel) (hK : K.Sound)
    (K4 : Kernel4) (hK4 : K4.Sound) (q : Quirks) (choices : Section → List Nat) (n : Nat)
    (gs : List AGate) (secs : List Section) (hdec : decompile q K n gs = .ok secs) :
    validated Quirks.none n (resynSection n (simplifySection simp K4) choices) secs = true := by
  unfold validated
  rw [List.all_eq_true]
  intro s hmem
  cases hr : resynSection n (simplifySection simp K4) choices s with
  | error e => rfl
  | ok r =>
    dsimp only
    cases ha : accept Quirks.none n s r with
    | false => rfl
    | true =>
      simp only [Bool.not_true, Bool.false_or]
      exact sectionOKb_complete
        (accepted_section_ok simp hs K hK K4 hK4 q n gs secs hdec s hmem (choices s) r hr ha)

/-- `C12_statement` holds -/
theorem C12_statement_holds : C12_statement := fun simp hs choices n gs out hwf h =>
  C12_full simp hs rawKernel rawKernel_sound rawKernel4 rawKernel4_sound choices n gs out hwf h

/-- a simplifier that knows `q0 ^ (q0 ^ q1) = q1` and leaves everything else alone -/
def cxcxSimp : BExp → BExp := fun e =>
  if e == .xor [.sym "q0", .xor [.sym "q0", .sym "q1"]] then .sym "q1" else e

/-- the hypotheses of `C12_full` are satisfiable with splices that are accepted and change the circuit:
`cxcxSimp` preserves meaning; in `cx(0,1) cx(0,1) h(0) x(1)` the first section simplifies to `q1 = q1` and is
replaced by no gate, the second (`q1 = ~q1`) by its X gate -/
example : SimpSound cxcxSimp ∧
    (optimize Quirks.none rawKernel rawKernel4 cxcxSimp (fun _ => []) 2
      [⟨.CX, [0, 1], .none, 0⟩, ⟨.CX, [0, 1], .none, 0⟩, ⟨.H, [0], .none, 0⟩, ⟨.X, [1], .none, 0⟩]).toOption.map
      (fun l => l.map (fun g => (g.cls, g.wires))) = some [(.H, [0]), (.X, [1])] := by
  refine ⟨?_, by decide +kernel⟩
  intro ρ e
  unfold cxcxSimp
  split
  · next h =>
    rw [bexp_eq_of_beq h]
    simp only [BExp.eval, evalXor]
    cases ρ "q0" <;> cases ρ "q1" <;> rfl
  · rfl

end QV.C12
