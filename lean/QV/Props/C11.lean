import QV.Model.Decompiler
import QV.Gen.Tables
import QV.Proofs.Decompiler
/-!
# C11 – Decompiled expressions describe exactly what the gates do

Property (from `properties.jsonl`): for every circuit, each maximal run of classical reversible
gates (X, CX, CCX, multi-controlled X; barriers ignored) is reported as one section whose index
range covers exactly those gates, and whose expressions give, for every qubit the section
changes, its final value as a boolean function of the qubits' values at section entry, on every
basis state; qubits without an expression are unchanged.

The theorems are about `QV.Model.Decompiler` (the model of `qlasskit/decompiler/decompiler.py`),
for **every** gate list, every number of qubits, every basis state and every implementation `K`
of sympy's `Not/And/Xor` constructors that preserves meaning.  The class tests go through the
tables `Gen.zbGates` / `Gen.gateAncestors`, regenerated from the source on every run.

"Classical" is what passes the `ZB_GATES` test of the *repaired* code (`Quirks.none`): `I`
(identity action), `X`, `CX`, `CCX`, `MCX n` and `MCtrl(X, n)`.  The code as it is
(`identityGateRaises`, `mctrlXSplits` on) raises on `I` and treats `MCtrl(X, n)` as a section
boundary: `*_witness` below, `known_findings.json`.
-/
namespace QV.C11
open QV QV.Decompiler

/-- one section is sound: distinct keys naming qubits, every qubit's expression (the symbol
itself when none is reported) evaluates on every basis state to the qubit's value after the
section's gates; in particular qubits without an expression are unchanged -/
def SectionSound (n : Nat) (sec : Section) : Prop :=
  (Dict.keys sec.exps).Nodup ∧
  (∀ k e, (k, e) ∈ sec.exps → ∃ i, i < n ∧ k = qname i) ∧
  ∀ s : BState, s.length = n → ∀ i, i < n →
    (expOf sec.exps i).eval (stateEnv n s) = (runClassical sec.gates s).getD i false ∧
    (qname i ∉ Dict.keys sec.exps → (runClassical sec.gates s).getD i false = s.getD i false)

/-- the full property, for the repaired model: on every circuit built through `QCircuit.append`
(`WF`: wires are qubits of the circuit, arity = `n_qubits`) the decompiler returns sections, they
are exactly the maximal classical runs (`Decomp`, index form in `sections_exact`), and every
section is sound -/
def C11_statement : Prop :=
  ∀ (n : Nat) (gs : List AGate), (∀ g ∈ gs, WF n g) →
    ∃ secs, decompile Quirks.none rawKernel n gs = .ok secs ∧
      Decomp Quirks.none rawKernel n 0 gs secs ∧ ∀ sec ∈ secs, SectionSound n sec

/-! ## the class tests, on the generated tables -/

/-- which gate classes the decompiler takes as classical: exactly `I, X, CX, CCX, MCX n`, and
`MCtrl(X, n)` once `mctrlXSplits` is repaired -/
theorem zb_classes (q : Quirks) (c : GClass) : isZB q c =
    (match c with
     | .I | .X | .CX | .CCX | .MCX _ => true
     | .MCtrl g _ => !q.mctrlXSplits && g == "X"
     | _ => false) := isZB_eq q c

/-- the no-op test is `Barrier` / `NopGate` -/
theorem nop_classes (c : GClass) : isNopClass c = c.isNop := isNopClass_eq c

/-- every gate the repaired decompiler takes as classical acts as "flip the last wire iff all
other wires are 1" or is the identity, i.e. `runClassical` is its meaning; no gate is both
classical and a no-op -/
theorem zb_classical (c : GClass) (h : isZB Quirks.none c = true) :
    (c.isMCXLike = true ∨ c = .I) ∧ isNopClass c = false := by
  rw [isZB_eq] at h; rw [isNopClass_eq]
  cases c <;> simp_all [GClass.isMCXLike, GClass.isNop, Quirks.none]

/-! ## symbolic execution -/

/-- for every gate list, every kernel that preserves meaning and every basis state: the
expression of every qubit evaluates to its value after the gates -/
theorem symexec_sound (K : Kernel) (hK : K.Sound) (q : Quirks) (n : Nat) (sec : List AGate)
    (exps : Dict) (h : expsOfSection q K n sec = .ok exps) (s : BState) (hs : s.length = n)
    (i : Nat) (hi : i < n) :
    (expOf exps i).eval (stateEnv n s) = (runClassical sec s).getD i false :=
  expsOfSection_sound hK q h s hs i hi

/-- the reported entries have distinct keys, each names a qubit of the circuit and each
expression evaluates to that qubit's final value on every basis state -/
theorem symexec_entries (K : Kernel) (hK : K.Sound) (q : Quirks) (n : Nat) (sec : List AGate)
    (exps : Dict) (h : expsOfSection q K n sec = .ok exps) :
    (Dict.keys exps).Nodup ∧
    ∀ k e, (k, e) ∈ exps → ∃ i, i < n ∧ k = qname i ∧
      ∀ s : BState, s.length = n → e.eval (stateEnv n s) = (runClassical sec s).getD i false :=
  expsOfSection_entries hK q h

/-- qubits without an expression are unchanged -/
theorem symexec_unchanged (K : Kernel) (hK : K.Sound) (q : Quirks) (n : Nat) (sec : List AGate)
    (exps : Dict) (h : expsOfSection q K n sec = .ok exps) (s : BState) (hs : s.length = n)
    (i : Nat) (hi : i < n) (hno : qname i ∉ Dict.keys exps) :
    (runClassical sec s).getD i false = s.getD i false :=
  expsOfSection_unchanged hK q h s hs i hi hno

/-- the raw `BExp` constructors are a sound kernel (hypothesis `hK` is satisfiable) -/
theorem raw_kernel_sound : rawKernel.Sound := rawKernel_sound

example : (expsOfSection Quirks.none rawKernel 3
    [⟨.X, [0], .none, 0⟩, ⟨.CCX, [0, 1, 2], .none, 0⟩, ⟨.I, [1], .none, 0⟩]).toOption.map
      (fun d => (d.map (·.1), BExp.beqList (d.map (·.2))
        [.not (.sym "q0"), .xor [.and [.not (.sym "q0"), .sym "q1"], .sym "q2"]])) =
    some (["q0", "q2"], true) := by decide

/-! ## sections -/

/-- for every circuit and every quirk setting: the circuit is
`B₁ ++ R₁ ++ [sep₁] ++ B₂ ++ R₂ ++ [sep₂] ++ …` with no classical gate in any `B`, every `R` starting
with a classical gate and containing only classical gates and no-ops, every `sep` neither, and the
reported sections are exactly one per `R`, in order, with `start` = index of the run's first
gate, `stop` = index after the run (minus one when the run's last gate is a no-op), `gates` = the
classical gates of the run in order, `exps` = the symbolic execution of those gates -/
theorem sections_structure (q : Quirks) (K : Kernel) (n : Nat) (gs : List AGate)
    (secs : List Section) (h : decompile q K n gs = .ok secs) : Decomp q K n 0 gs secs :=
  decompile_decomp q K n gs secs h

/-- index form, for every circuit and every quirk setting (`cl q` = passes the decompiler's
classical test, `np` = barrier / no-op): the reported ranges are increasing and disjoint; each
range is non-empty, lies inside the circuit, starts at a classical gate, contains only classical
gates and no-ops, and its gate list is the classical gates of the range in order; every
classical gate of the circuit lies in a reported range; two reported ranges are separated by a
gate that is neither classical nor a no-op (maximality) -/
theorem sections_exact (q : Quirks) (K : Kernel) (n : Nat) (gs : List AGate)
    (secs : List Section) (h : decompile q K n gs = .ok secs) :
    secs.Pairwise (fun x y => x.stop < y.start) ∧
    (∀ s ∈ secs, s.start < s.stop ∧ s.stop ≤ gs.length ∧
      (∃ g, gs[s.start]? = some g ∧ cl q g = true) ∧
      (∀ k, s.start ≤ k → k < s.stop → ∃ g, gs[k]? = some g ∧ (cl q g = true ∨ np g = true)) ∧
      s.gates = ((gs.drop s.start).take (s.stop - s.start)).filter (cl q)) ∧
    (∀ k g, gs[k]? = some g → cl q g = true → ∃ s ∈ secs, s.start ≤ k ∧ k < s.stop) ∧
    secs.Pairwise (fun x y => ∃ k g, x.stop ≤ k ∧ k < y.start ∧ gs[k]? = some g ∧
      cl q g = false ∧ np g = false) := by
  have hd := decompile_decomp q K n gs secs h
  refine ⟨hd.ordered, ?_, ?_, ?_⟩
  · intro s hs
    have hg := hd.secGood s hs
    refine ⟨hg.lt, by simpa using hg.hi, by simpa using hg.first, ?_, by simpa using hg.gates_eq⟩
    intro k h1 h2
    simpa using hg.inside k h1 h2
  · intro k g hk hg
    simpa using hd.covered k g hk hg
  · simpa using hd.separated

/-- the range ends right after the run's last classical gate, except that of several trailing
no-ops only one is cut off (`end -= 1` is applied once) -/
theorem range_end (q : Quirks) (o : Nat) (R : List AGate) :
    stopOf o R = if (R.getLast?.map np).getD false then o + R.length - 1 else o + R.length := rfl

/-- every reported section is sound -/
theorem sections_sound (q : Quirks) (K : Kernel) (hK : K.Sound) (n : Nat) (gs : List AGate)
    (secs : List Section) (h : decompile q K n gs = .ok secs) :
    ∀ sec ∈ secs, SectionSound n sec := by
  have hd := decompile_decomp q K n gs secs h
  have key : ∀ a W secs, Decomp q K n a W secs → ∀ sec ∈ secs, SectionSound n sec := by
    intro a W secs hd
    induction hd with
    | done => intro sec hsec; cases hsec
    | last a B R s _ _ hs =>
      intro sec hsec
      simp only [List.mem_singleton] at hsec; subst hsec
      have he := expsOfSection_entries hK q hs.exps_eq
      exact ⟨he.1, fun k e hm => by obtain ⟨i, hi, hk, _⟩ := he.2 k e hm; exact ⟨i, hi, hk⟩,
        fun st hst i hi => ⟨expsOfSection_sound hK q hs.exps_eq st hst i hi,
          expsOfSection_unchanged hK q hs.exps_eq st hst i hi⟩⟩
    | cons a B R sep W s secs _ _ _ _ hs _ ih =>
      intro sec hsec
      rcases List.mem_cons.mp hsec with hsec | hsec
      · subst hsec
        have he := expsOfSection_entries hK q hs.exps_eq
        exact ⟨he.1, fun k e hm => by obtain ⟨i, hi, hk, _⟩ := he.2 k e hm; exact ⟨i, hi, hk⟩,
          fun st hst i hi => ⟨expsOfSection_sound hK q hs.exps_eq st hst i hi,
            expsOfSection_unchanged hK q hs.exps_eq st hst i hi⟩⟩
      · exact ih sec hsec
  exact key 0 gs secs hd

/-- the repaired model returns sections for every well-formed circuit (no exception) -/
theorem decompile_total (K : Kernel) (n : Nat) (gs : List AGate) (h : ∀ g ∈ gs, WF n g) :
    ∃ secs, decompile Quirks.none K n gs = .ok secs := decompile_ok K n gs h

/-- the property for the repaired model -/
theorem C11_full : C11_statement := fun n gs hwf => by
  obtain ⟨secs, h⟩ := decompile_ok rawKernel n gs hwf
  exact ⟨secs, h, decompile_decomp _ _ n gs secs h, sections_sound _ _ rawKernel_sound n gs secs h⟩

/-- the property for the code as it is (any quirk setting), on every circuit that does not run
into a listed defect (`triggers`: contains an `I` gate / an `MCtrl(X, n)` gate while the
corresponding flag is on): there it behaves exactly as the repaired code -/
theorem C11_partial (q : Quirks) (n : Nat) (gs : List AGate) (ht : triggers q gs = false)
    (hwf : ∀ g ∈ gs, WF n g) :
    decompile q rawKernel n gs = decompile Quirks.none rawKernel n gs ∧
    ∃ secs, decompile q rawKernel n gs = .ok secs ∧
      Decomp Quirks.none rawKernel n 0 gs secs ∧ ∀ sec ∈ secs, SectionSound n sec := by
  have e := decompile_congr q rawKernel n gs ht
  refine ⟨e, ?_⟩
  rw [e]
  exact C11_full n gs hwf

/-- the hypotheses of `C11_partial` are satisfiable with both flags on -/
example : triggers (Quirks.ofList ["identityGateRaises", "mctrlXSplits"])
    [⟨.X, [0], .none, 0⟩, ⟨.Barrier, [], .none, 0⟩, ⟨.H, [1], .none, 0⟩, ⟨.MCX 2, [0, 1, 2], .none, 0⟩] = false ∧
    ∀ g ∈ ([⟨.X, [0], .none, 0⟩, ⟨.Barrier, [], .none, 0⟩, ⟨.H, [1], .none, 0⟩,
      ⟨.MCX 2, [0, 1, 2], .none, 0⟩] : List AGate), WF 3 g := by
  refine ⟨by decide, ?_⟩
  intro g hg
  simp only [List.mem_cons, List.mem_nil_iff, or_false] at hg
  rcases hg with rfl | rfl | rfl | rfl <;> exact ⟨by decide, by decide⟩

/-- hypotheses are satisfiable: a circuit with two runs, barriers at the boundaries -/
example : (decompile Quirks.none rawKernel 3
    [⟨.Barrier, [], .none, 0⟩, ⟨.X, [0], .none, 0⟩, ⟨.Barrier, [], .none, 0⟩, ⟨.H, [1], .none, 0⟩,
     ⟨.CX, [0, 1], .none, 0⟩, ⟨.MCtrl "X" 2, [0, 1, 2], .none, 0⟩, ⟨.Barrier, [], .none, 0⟩,
     ⟨.Barrier, [], .none, 0⟩]).toOption.map (fun l => l.map (fun s => (s.start, s.stop, s.gates.length)))
    = some [(1, 2, 1), (4, 7, 2)] := by decide

/-! ## the defects of the code as it is -/

/-- `gates.I`: the code raises instead of reporting the run `X(0), I(1)` -/
theorem identity_gate_witness :
    errMsg (decompile (Quirks.ofList ["identityGateRaises"]) rawKernel 2
      [⟨.X, [0], .none, 0⟩, ⟨.I, [1], .none, 0⟩]) =
      some "Gate not handled for decompilation: I" ∧
    (decompile Quirks.none rawKernel 2 [⟨.X, [0], .none, 0⟩, ⟨.I, [1], .none, 0⟩]).toOption.map
      (fun l => l.map (fun s => (s.start, s.stop, s.exps.map (·.1)))) = some [(0, 2, ["q0"])] := by
  decide

/-- `MCtrl(X, 2)`: the run `X(0), MCtrl(X,2)(0,1,2), X(1)` is reported as two sections `(0,1)`,
`(2,3)` and the flip of qubit 2 is in neither; the repaired code reports one section `(0,3)` -/
theorem mctrl_x_witness :
    (decompile (Quirks.ofList ["mctrlXSplits"]) rawKernel 3
      [⟨.X, [0], .none, 0⟩, ⟨.MCtrl "X" 2, [0, 1, 2], .none, 0⟩, ⟨.X, [1], .none, 0⟩]).toOption.map
      (fun l => l.map (fun s => (s.start, s.stop, s.exps.map (·.1)))) =
      some [(0, 1, ["q0"]), (2, 3, ["q1"])] ∧
    (decompile Quirks.none rawKernel 3
      [⟨.X, [0], .none, 0⟩, ⟨.MCtrl "X" 2, [0, 1, 2], .none, 0⟩, ⟨.X, [1], .none, 0⟩]).toOption.map
      (fun l => l.map (fun s => (s.start, s.stop, s.exps.map (·.1)))) =
      some [(0, 3, ["q0", "q1", "q2"])] := by
  decide

end QV.C11
