import QV.Model.Types
import QV.Gen.Tables
import QV.Proofs.Types
/-!
# C09 – Type codecs are exact and mutually inverse

Property (from `/verif/properties.jsonl`): for every shipped quantum type and every bit pattern
of its width, decoding the pattern to a value and re-encoding the value returns the same
pattern, the compile-time constant encoding of a value equals its runtime encoding, and the
amplitude vector is one-hot at the basis index whose bit k is bit k of the encoding.  Decoding
a measured string into nested tuple types inverts the concatenated element encodings.

The theorems are about `QV.Model.Types` (the model of `qlasskit/types/*.py`), for **every**
width `w`, `I`, `F`, not only the shipped ones; the shipped tables `QV.Gen.*` are regenerated
from the source on every run and the side conditions are discharged on them.
-/
namespace QV.C09
open QV QV.Types

/-! ## Qint, all widths -/

/-- decode then re-encode returns the pattern -/
theorem qint_pattern_roundtrip (w : Nat) (bs : List Bool) (hw : 0 < w) (hl : bs.length = w) :
    (qintFromBool w bs).map (qintToBool w) = some bs := by
  have hne : bs ≠ [] := by intro h; subst h; simp at hl; omega
  have hlt := valLE_lt bs
  rw [hl] at hlt
  rw [qintFromBool_eq hne, Nat.mod_eq_of_lt hlt, Option.map_some, qintToBool_eq hlt, ← hl,
    toBitsLE_valLE]

/-- encode then decode returns the value -/
theorem qint_value_roundtrip (w v : Nat) (hw : 0 < w) (hv : v < 2 ^ w) :
    qintFromBool w (qintToBool w v) = some v := by
  have hne : qintToBool w v ≠ [] := by
    intro h; have := congrArg List.length h; rw [qintToBool_eq hv] at this; simp at this; omega
  rw [qintFromBool_eq hne, qintToBool_eq hv, valLE_toBitsLE, Nat.mod_mod, Nat.mod_eq_of_lt hv]

/-- the compile-time constant encoding equals the runtime encoding (of the wrapped value) -/
theorem qint_const_eq_runtime (w v : Nat) (hw : 0 < w) :
    qintConst w v = qintToBool w (qintInit w v) := by
  have hlt : v % 2 ^ w < 2 ^ w := Nat.mod_lt _ (Nat.pow_pos (by decide))
  rw [qintConst_eq hw, qintInit, qintToBool_eq hlt, toBitsLE_mod]

/-- the amplitude vector has length `2^w` and its 1 sits at the index whose bit k is bit k of
the encoding -/
theorem qint_amp_onehot (w v : Nat) (hv : v < 2 ^ w) :
    qintAmp w v = (2 ^ w, valLE (qintToBool w v)) := by
  rw [qintToBool_eq hv, valLE_toBitsLE, Nat.mod_eq_of_lt hv]; rfl

/-- every shipped `Qint` type has a positive width (side condition of the theorems above,
checked on the table regenerated from `qint.py`) -/
theorem qint_shipped_widths : ∀ t ∈ Gen.qintTypes, 0 < t.2 ∧ t.1 = "Qint" ++ toString t.2 := by
  decide

/-- `const_to_qtype` tries widths in increasing order, all of them shipped types -/
theorem const_candidates_sorted :
    (Gen.constQintCandidates.map (·.2)).Pairwise (· < ·) ∧
    ∀ c ∈ Gen.constQintCandidates, c ∈ Gen.qintTypes := by
  decide

/-! ## Qchar -/

theorem qchar_width : Gen.qcharBits = 8 := by decide

theorem qchar_pattern_roundtrip (bs : List Bool) (hl : bs.length = 8) :
    (qcharFromBool bs).map qcharToBool = some bs := by
  have hlt := valLE_lt bs
  rw [hl] at hlt
  rw [qcharFromBool_eq hl, Option.map_some, qcharToBool_eq hlt, ← hl, toBitsLE_valLE]

theorem qchar_value_roundtrip (c : Nat) (hc : c < 256) : qcharFromBool (qcharToBool c) = some c := by
  rw [qcharFromBool_eq (by rw [qcharToBool_eq hc]; simp), qcharToBool_eq hc, valLE_toBitsLE,
    Nat.mod_eq_of_lt (by simpa using hc)]

theorem qchar_const_eq_runtime (c : Nat) (hc : c < 256) : qcharConst c = qcharToBool c := by
  rw [qcharConst_eq hc, qcharToBool_eq hc]

theorem qchar_amp_onehot (c : Nat) (hc : c < 256) : qcharAmp c = (2 ^ 8, valLE (qcharToBool c)) := by
  rw [qcharToBool_eq hc, valLE_toBitsLE, Nat.mod_eq_of_lt (by simpa using hc)]; rfl

/-! ## Qfixed, all `I ≥ 1`, all `F` -/

theorem qfixed_pattern_roundtrip (I F : Nat) (bs : List Bool) (hI : 0 < I) (hl : bs.length = I + F) :
    (qfixedFromBool I F bs).map (qfixedToBool I F) = some bs := by
  rw [qfixedFromBool_eq hI hl, Option.map_some, qfixedToBool_eq]
  have h1 : (bs.take I).length = I := by rw [List.length_take]; omega
  have h2 : (bs.drop I).length = F := by rw [List.length_drop]; omega
  have hlt1 := valLE_lt (bs.take I); rw [h1] at hlt1
  have hlt2 := valBE_lt (bs.drop I); rw [h2] at hlt2
  have hP : 0 < 2 ^ F := Nat.pow_pos (by decide)
  have hdiv : (valLE (bs.take I) * 2 ^ F + valBE (bs.drop I)) / 2 ^ F = valLE (bs.take I) := by
    rw [Nat.add_comm, Nat.add_mul_div_right _ _ hP, Nat.div_eq_of_lt hlt2]; simp
  have hmod : toBitsLE F (valLE (bs.take I) * 2 ^ F + valBE (bs.drop I)) = toBitsLE F (valBE (bs.drop I)) := by
    rw [← toBitsLE_mod, Nat.add_comm, Nat.add_mul_mod_self_right, toBitsLE_mod]
  rw [hdiv, hmod]
  have e1 : toBitsLE I (valLE (bs.take I)) = bs.take I := by
    have := toBitsLE_valLE (bs.take I); rwa [h1] at this
  have e2 : (toBitsLE F (valBE (bs.drop I))).reverse = bs.drop I := by
    have := toBitsLE_valLE (bs.drop I).reverse
    rw [List.length_reverse, h2, ← valBE_eq_valLE_reverse] at this
    rw [this, List.reverse_reverse]
  rw [e1, e2, List.take_append_drop]

theorem qfixed_value_roundtrip (I F sv : Nat) (hI : 0 < I) (hv : sv < 2 ^ (I + F)) :
    qfixedFromBool I F (qfixedToBool I F sv) = some sv := by
  have hlen : (qfixedToBool I F sv).length = I + F := by rw [qfixedToBool_eq]; simp
  rw [qfixedFromBool_eq hI hlen, qfixedToBool_eq]
  have hP : 0 < 2 ^ F := Nat.pow_pos (by decide)
  have hq : sv / 2 ^ F < 2 ^ I := by
    apply Nat.div_lt_of_lt_mul; rw [← Nat.pow_add, Nat.add_comm]; exact hv
  rw [List.take_left' (by simp), List.drop_left' (by simp), valLE_toBitsLE, valBE_reverse,
    valLE_toBitsLE, Nat.mod_eq_of_lt hq]
  exact congrArg some (Nat.div_add_mod' sv (2 ^ F))

/-- `const` is `to_bool` of the constructed value -/
theorem qfixed_const_eq_runtime (I F sv : Nat) : qfixedConst I F sv = qfixedToBool I F sv := rfl

theorem qfixed_amp_onehot (I F sv : Nat) (hI : 0 < I) :
    qfixedAmp I F sv = (2 ^ (I + F), some (valLE (qfixedToBool I F sv))) := by
  unfold qfixedAmp
  have hne : (qfixedToBool I F sv).reverse ≠ [] := by
    intro h; have := congrArg List.length h; rw [qfixedToBool_eq] at this; simp at this; omega
  have : (boolListToBin (qfixedToBool I F sv)).reverse = boolListToBin (qfixedToBool I F sv).reverse := by
    simp [boolListToBin]
  simp only [this, pyInt2_boolListToBin hne, valBE_reverse]

/-- the shipped `Qfixed` table is consistent: `BIT_SIZE = INTEGER + FRACTIONAL`, at least one
integer bit, and the class name spells the sizes -/
theorem qfixed_shipped_sizes : ∀ t ∈ Gen.qfixedTypes,
    t.2.1 = t.2.2.1 + t.2.2.2 ∧ 0 < t.2.2.1 ∧
    t.1 = "Qfixed" ++ toString t.2.2.1 ++ "_" ++ toString t.2.2.2 := by
  decide

/-! ## Nested types: `interpret_as_qtype` inverts the concatenated element encodings -/

mutual
/-- the value is a value of the type (ranges as the codecs produce them) -/
def WT : QTy → QVal → Prop
  | .bool, .bool _ => True
  | .qint w, .int v => 0 < w ∧ v < 2 ^ w
  | .qchar, .char c => c < 256
  | .qfixed i f, .fixed sv => 0 < i ∧ sv < 2 ^ (i + f)
  | .tuple ts, .tuple vs => WTs ts vs
  | _, _ => False
def WTs : List QTy → List QVal → Prop
  | [], [] => True
  | t :: ts, v :: vs => WT t v ∧ WTs ts vs
  | _, _ => False
end

mutual
theorem encode_length : ∀ (t : QTy) (v : QVal), WT t v → (encode t v).length = t.size
  | .bool, .bool _, _ => rfl
  | .qint w, .int v, h => by
      simp only [WT] at h; simp [encode, QTy.size, qintToBool_eq h.2]
  | .qchar, .char c, h => by
      simp only [WT] at h; simp [encode, QTy.size, qcharToBool_eq h]
  | .qfixed i f, .fixed sv, _ => by simp [encode, QTy.size, qfixedToBool_eq]
  | .tuple ts, .tuple vs, h => by
      simp only [WT] at h; simpa [encode, QTy.size] using encodeList_length ts vs h
  | .bool, .int _, h | .bool, .char _, h | .bool, .fixed _, h | .bool, .tuple _, h | .bool, .error, h
  | .qint _, .bool _, h | .qint _, .char _, h | .qint _, .fixed _, h | .qint _, .tuple _, h | .qint _, .error, h
  | .qchar, .bool _, h | .qchar, .int _, h | .qchar, .fixed _, h | .qchar, .tuple _, h | .qchar, .error, h
  | .qfixed _ _, .bool _, h | .qfixed _ _, .int _, h | .qfixed _ _, .char _, h | .qfixed _ _, .tuple _, h
  | .qfixed _ _, .error, h
  | .tuple _, .bool _, h | .tuple _, .int _, h | .tuple _, .char _, h | .tuple _, .fixed _, h
  | .tuple _, .error, h => by simp [WT] at h
theorem encodeList_length : ∀ (ts : List QTy) (vs : List QVal), WTs ts vs →
    (encodeList ts vs).length = sizeList ts
  | [], [], _ => rfl
  | t :: ts, v :: vs, h => by
      simp only [WTs] at h
      simp [encodeList, sizeList, encode_length t v h.1, encodeList_length ts vs h.2]
  | [], _ :: _, h | _ :: _, [], h => by simp [WTs] at h
end

mutual
/-- decoding the encoding of a value of a (nested) type returns the value -/
theorem interpret_encode : ∀ (t : QTy) (v : QVal), WT t v → interpret t (encode t v) = v
  | .bool, .bool _, _ => rfl
  | .qint w, .int v, h => by
      simp only [WT] at h
      simp [interpret, encode, qint_value_roundtrip w v h.1 h.2, optVal]
  | .qchar, .char c, h => by
      simp only [WT] at h
      simp [interpret, encode, qchar_value_roundtrip c h, optVal]
  | .qfixed i f, .fixed sv, h => by
      simp only [WT] at h
      simp [interpret, encode, qfixed_value_roundtrip i f sv h.1 h.2, optVal]
  | .tuple ts, .tuple vs, h => by
      simp only [WT] at h
      simp [interpret, encode, interpretList_encodeList ts vs h]
  | .bool, .int _, h | .bool, .char _, h | .bool, .fixed _, h | .bool, .tuple _, h | .bool, .error, h
  | .qint _, .bool _, h | .qint _, .char _, h | .qint _, .fixed _, h | .qint _, .tuple _, h | .qint _, .error, h
  | .qchar, .bool _, h | .qchar, .int _, h | .qchar, .fixed _, h | .qchar, .tuple _, h | .qchar, .error, h
  | .qfixed _ _, .bool _, h | .qfixed _ _, .int _, h | .qfixed _ _, .char _, h | .qfixed _ _, .tuple _, h
  | .qfixed _ _, .error, h
  | .tuple _, .bool _, h | .tuple _, .int _, h | .tuple _, .char _, h | .tuple _, .fixed _, h
  | .tuple _, .error, h => by simp [WT] at h
theorem interpretList_encodeList : ∀ (ts : List QTy) (vs : List QVal), WTs ts vs →
    interpretList ts (encodeList ts vs) = vs
  | [], [], _ => rfl
  | t :: ts, v :: vs, h => by
      simp only [WTs] at h
      have hl := encode_length t v h.1
      simp only [interpretList, encodeList]
      rw [List.take_left' hl, List.drop_left' hl, interpret_encode t v h.1,
        interpretList_encodeList ts vs h.2]
  | [], _ :: _, h | _ :: _, [], h => by simp [WTs] at h
end

/-- `interpret_as_qtype` applied to a measured string (qubit 0 rightmost, i.e. the reversed
concatenation of the element encodings) returns the value, for every nested type -/
theorem interpret_as_qtype_inverts (t : QTy) (v : QVal) (h : WT t v) :
    interpretAsQtype (encode t v).reverse t none = v := by
  unfold interpretAsQtype formatOutcome
  simp only [Option.getD_none, Nat.lt_irrefl, if_false, List.reverse_reverse]
  cases t <;> exact interpret_encode _ v h

/-- non-vacuity: a nested value meeting `WT` -/
example : WT (.tuple [.qint 4, .bool, .tuple [.qchar, .qfixed 2 3]])
    (.tuple [.int 11, .bool true, .tuple [.char 97, .fixed 13]]) := by
  simp [WT, WTs]

end QV.C09
