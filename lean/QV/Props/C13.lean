import QV.Model.Export
namespace QV.C13
open QV QV.Export

theorem stub : True := trivial

end QV.C13
