import QV.Proofs.Export
/-!
# C13 – Exports denote the same operation on the same qubits

> For every circuit, the object or text produced by each available exporter (Qiskit circuit and
> gate, Cirq circuit and gate, Sympy, OpenQASM 2 and 3 text) applies the same gates in the same
> order to the same qubit indices, so that qubit i of the circuit is qubit i of the export and the
> two have the same unitary. The QASM gate declares exactly one formal parameter per qubit, in
> index order.

Model: `QV/Model/Export.lean` (call list of the qiskit exporter, op list of the cirq exporter,
factor list of the sympy exporter, the QASM text and a line reader for it).  "Same gates, same
order, same qubit indices" is `calls.filterMap reading = gates.filterMap gateOp`: the list of
(base gate, number of controls, wire list, parameter) read off the export equals the one of the
circuit's non-nop gates.  That the calls *mean* these gates in qiskit/cirq/sympy is the trusted
reading `QkCall.op` / `CqOp.op` / `SyGate.op`, validated numerically by the harness on every case.

Proved here for ALL gate lists / circuits (induction over the exporter loop):
* `qiskit_translation`, `cirq_translation`, `sympy_translation` – for every quirk setting, whenever
  the exporter returns, the export reads as the circuit (nop gates dropped);
* `qiskit_total`, `cirq_total`, `sympy_total`, `qasm_total` – the repaired exporters do return on
  every well-formed circuit over their exportable gate set;
* `qasm_text_shape`, `qasm_roundtrip`, `qasm_body_lines` – the emitted declaration is read back as
  (name, formals, one line per non-nop gate) under the decidable `qasmReadable`;
* `qasm_formals_full`, `qasm_wire_position` – one formal per qubit, in index order;
* `qasm_name_reading`, `qasm_resolves_q`, `qasm_resolves` – every printed gate name is read back as
  the class's base gate / number of controls, and the read-back declaration applies exactly the
  circuit's non-nop gates on the positions of their qubits;
* `qasm_wellNamed_readable` – `qasmReadable` and distinct formals follow from the decidable
  `wellNamed` (a condition on the circuit's names only) and `paramsPlain`;
* `qasm_asis_resolves` – all of the QASM part for the code as it is (only `{p:.2f}` unrepaired);
* `C13_full : C13_statement` – the whole statement for the repaired model;
* `C13_partial` – the conditional claims for every quirk setting;
* `…_witness` – concrete inputs (by `decide`): one per listed defect (three of them repaired in
  the code since), `qasm_unknown_inner_witness` (why the gate-set condition is needed) and
  `qasm_fallback_clash_witness` (why `wellNamed` excludes a name equal to a fallback `q<i>`).
-/
namespace QV.C13
open QV QV.Export

/-- every gate is what `QCircuit.append` accepts, with in-range wires and a numeric parameter
exactly on the phase gates -/
def circWF (fv : FloatOf) (n : Nat) (gs : List AGate) : Prop := ∀ g ∈ gs, gateWF fv n g = true

/-- The property, for the model with every listed defect repaired (`Quirks.none`): each exporter
succeeds on its exportable gate set and its output reads as the circuit's non-nop gates; the QASM
declaration has one formal per qubit in index order and – for a circuit whose names are
`wellNamed` (identifier-shaped, distinct, no clash with a fallback name `q<i>`), whose parameter
literals are single tokens and whose gates are (controlled) library gates – both versions are
emitted, the circuit-mode text is header ++ declaration ++ call on `q[0..n-1]`, and the
declaration is read back as the circuit's name, distinct formals and exactly the circuit's
operations on the positions of its qubits.

(The first version of this statement had `qasmReadable … = true → (qasmFormals …).Nodup →` as
hypotheses of the last part and no condition on the gate set; that version is refuted by
`qasm_unknown_inner_witness`: an `MCtrl` of a gate that is not one of the library's has a line
`cc<name>` without a reading.  `qasmExportable` is the missing domain condition; `wellNamed` and
`paramsPlain` replace the two conditions on the output by conditions on the input.) -/
def C13_statement : Prop :=
  ∀ (fv : FloatOf) (c : Circ), circWF fv c.numQubits c.gates →
    (∀ gm, (∀ g ∈ c.gates, qiskitExportable g.cls = true) →
      ∃ calls, exportQiskit Quirks.none fv gm c.gates = .ok calls ∧
        calls.filterMap QkCall.op = c.gates.filterMap gateOp) ∧
    ((∀ g ∈ c.gates, cirqExportable g.cls = true) →
      ∃ ops, exportCirq Quirks.none c.gates = .ok ops ∧
        ops.filterMap CqOp.op = c.gates.filterMap gateOp) ∧
    ((∀ g ∈ c.gates, sympyExportable g.cls = true) →
      ∃ fs, exportSympy c.gates = .ok fs ∧ fs.filterMap SyGate.op = c.gates.filterMap gateOp) ∧
    (qasmFormals Quirks.none c = (List.range c.numQubits).map (nameOfIndex c.qmap)) ∧
    (wellNamed c = true → paramsPlain c.gates = true →
      (∀ g ∈ c.gates, qasmExportable g.cls = true) →
      ∀ ver, ∃ text d ops, exportQasm Quirks.none fv ver true c = .ok text ∧
        exportQasm Quirks.none fv ver false c =
          .ok (qasmHeader ver c.numQubits ++ text ++ callLine c.name c.numQubits) ∧
        parseDecl text = some d ∧ d.name = c.name ∧
        d.formals = qasmFormals Quirks.none c ∧ d.formals.Nodup ∧ declOps d = some ops ∧
        ops = c.gates.filterMap gateTOp)

/-! ## gate-by-gate translation: same gates, same order, same wire indices, nops dropped -/

/-- qiskit, circuit and gate mode, code as it is or repaired: whenever the exporter returns, the
calls it made on `QuantumCircuit` read as the circuit's non-nop gates, in order, on the same
qubit indices, with the same parameters. -/
theorem qiskit_translation (q : Quirks) (fv : FloatOf) (gateMode : Bool) (n : Nat) (gs : List AGate)
    (calls : List QkCall) (hwf : circWF fv n gs)
    (h : exportQiskit q fv gateMode gs = .ok calls) :
    calls.filterMap QkCall.op = gs.filterMap gateOp :=
  runSteps_translate _ gateOp QkCall.op gs calls
    (fun g hg => qiskitStep_reads q fv gateMode n g (hwf g hg)) h

/-- cirq (`_decompose_` of the exported gate; circuit mode wraps the same gate) -/
theorem cirq_translation (q : Quirks) (fv : FloatOf) (n : Nat) (gs : List AGate)
    (ops : List CqOp) (hwf : circWF fv n gs) (h : exportCirq q gs = .ok ops) :
    ops.filterMap CqOp.op = gs.filterMap gateOp :=
  runSteps_translate _ gateOp CqOp.op gs ops (fun g hg => cirqStep_reads q fv n g (hwf g hg)) h

/-- sympy: the factors multiplied in, in application order -/
theorem sympy_translation (fv : FloatOf) (n : Nat) (gs : List AGate)
    (fs : List SyGate) (hwf : circWF fv n gs) (h : exportSympy gs = .ok fs) :
    fs.filterMap SyGate.op = gs.filterMap gateOp :=
  runSteps_translate _ gateOp SyGate.op gs fs (fun g hg => sympyStep_reads fv n g (hwf g hg)) h

/-- the hypotheses are satisfiable by a non-trivial circuit (MCX(3), CP, a barrier) -/
example : ∃ calls, exportQiskit Quirks.none (fun _ => some ⟨false, 1, 2⟩) false
    [⟨.H, [0], .none, 0⟩, ⟨.MCX 3, [0, 1, 2, 3], .none, 0⟩, ⟨.Barrier, [], .none, 0⟩,
     ⟨.CP, [2, 0], .lit "0.5", 0⟩] = .ok calls ∧ calls.length = 4 := ⟨_, rfl, rfl⟩

example : circWF (fun _ => some ⟨false, 1, 2⟩) 4
    [⟨.H, [0], .none, 0⟩, ⟨.MCX 3, [0, 1, 2, 3], .none, 0⟩, ⟨.Barrier, [], .none, 0⟩,
     ⟨.CP, [2, 0], .lit "0.5", 0⟩] := by
  intro g hg
  simp at hg
  rcases hg with rfl | rfl | rfl | rfl <;> rfl

/-! ## OpenQASM text -/

/-- circuit mode = header, the gate declaration of gate mode, the call on `q[0..n-1]` -/
theorem qasm_text_shape (q : Quirks) (fv : FloatOf) (ver : Nat) (c : Circ) (gate : Text)
    (h : exportQasm q fv ver true c = .ok gate) :
    exportQasm q fv ver false c = .ok (qasmHeader ver c.numQubits ++ gate ++ callLine c.name c.numQubits)
      ∧ (callArgs c.numQubits).length = c.numQubits := by
  unfold exportQasm at h ⊢
  cases hb : qasmBody q fv c with
  | error m => simp [hb] at h
  | ok body =>
    simp [hb] at h ⊢
    simp [h, callArgs]

/-- the emitted gate declaration (any quirk setting, both versions) is read back as: the circuit's
name, the formals the exporter chose, and one line per non-nop gate, in order -/
theorem qasm_roundtrip (q : Quirks) (fv : FloatOf) (ver : Nat) (c : Circ)
    (hr : qasmReadable q fv c = true) :
    ∃ text body, exportQasm q fv ver true c = .ok text ∧ qasmBody q fv c = .ok body ∧
      parseDecl text = some { name := c.name, formals := qasmFormals q c, body := body } := by
  unfold qasmReadable at hr
  cases hb : qasmBody q fv c with
  | error m => simp [hb] at hr
  | ok body =>
    simp [hb, List.all_eq_true] at hr
    refine ⟨renderGate c.name (qasmFormals q c) body, body, by simp [exportQasm, hb], rfl, ?_⟩
    exact parseDecl_renderGate _ _ _ hr.1.1 hr.1.2 hr.2

/-- the lines of the body are exactly the non-nop gates, in order: name `g.__name__.lower()`,
arguments = names of the gate's wires -/
theorem qasm_body_lines (q : Quirks) (fv : FloatOf) (c : Circ) (body : List QLine)
    (h : qasmBody q fv c = .ok body) :
    body = c.gates.filterMap (fun g => if g.cls.isNop then none else qasmLineOf q fv c g) := by
  obtain ⟨h1, _⟩ := runSteps_ok_eq _ _ _ h
  rw [h1]
  apply filterMap_congr_mem
  intro g _
  show (qasmStep q fv c g).toOption = _
  unfold qasmStep
  by_cases hn : g.cls.isNop = true
  · simp [hn, Step.toOption]
  · simp only [hn]
    cases qasmLineOf q fv c g <;> simp [Step.toOption]

/-- repaired exporter: exactly one formal per qubit, in index order -/
theorem qasm_formals_full (c : Circ) :
    qasmFormals Quirks.none c = (List.range c.numQubits).map (nameOfIndex c.qmap) ∧
    (qasmFormals Quirks.none c).length = c.numQubits ∧
    ∀ w, qasmWireName Quirks.none c w = some (nameOfIndex c.qmap w) := by
  simp [qasmFormals, qasmWireName, Quirks.none]

/-- with distinct formals, the argument naming wire `w` resolves to position `w`: qubit `w` of the
circuit is `q[w]` of the call -/
theorem qasm_wire_position (c : Circ) (w : Nat) (hw : w < c.numQubits)
    (hnd : (qasmFormals Quirks.none c).Nodup) :
    indexOfName (qasmFormals Quirks.none c) (nameOfIndex c.qmap w) = some w := by
  have hl : w < (qasmFormals Quirks.none c).length := by simpa [qasm_formals_full c] using hw
  have := indexOfName_get (qasmFormals Quirks.none c) w hl hnd
  simpa [qasmFormals, Quirks.none] using this

example : qasmReadable Quirks.none (fun _ => none)
    { name := "f".toList, numQubits := 3, qmap := [("a".toList, 0), ("b".toList, 1), ("c".toList, 0), ("r".toList, 2)],
      gates := [⟨.H, [0], .none, 0⟩, ⟨.MCX 2, [0, 1, 2], .none, 0⟩, ⟨.Barrier, [], .none, 0⟩] } = true := by decide

/-! ## (a) each repaired exporter returns on its exportable gate set -/

/-- qiskit, both modes: on a well-formed circuit over `qiskitExportable` gates the repaired
exporter returns, and what it returns reads as the circuit -/
theorem qiskit_total (fv : FloatOf) (gm : Bool) (n : Nat) (gs : List AGate) (hwf : circWF fv n gs)
    (he : ∀ g ∈ gs, qiskitExportable g.cls = true) :
    ∃ calls, exportQiskit Quirks.none fv gm gs = .ok calls ∧
      calls.filterMap QkCall.op = gs.filterMap gateOp := by
  obtain ⟨calls, h⟩ := runSteps_total (qiskitStep Quirks.none fv gm) gs
    (fun g hg m => qiskitStep_total fv gm n g (hwf g hg) (he g hg) m)
  exact ⟨calls, h, qiskit_translation Quirks.none fv gm n gs calls hwf h⟩

/-- cirq: same, on `cirqExportable` gates (barriers and nop gates are skipped) -/
theorem cirq_total (fv : FloatOf) (n : Nat) (gs : List AGate) (hwf : circWF fv n gs)
    (he : ∀ g ∈ gs, cirqExportable g.cls = true) :
    ∃ ops, exportCirq Quirks.none gs = .ok ops ∧ ops.filterMap CqOp.op = gs.filterMap gateOp := by
  obtain ⟨ops, h⟩ := runSteps_total (cirqStep Quirks.none) gs
    (fun g hg m => cirqStep_total fv n g (hwf g hg) (he g hg) m)
  exact ⟨ops, h, cirq_translation Quirks.none fv n gs ops hwf h⟩

/-- sympy: same, on `sympyExportable` gates (X, H, CX, SWAP, CCX, MCX(k ≥ 1), nops) -/
theorem sympy_total (fv : FloatOf) (n : Nat) (gs : List AGate) (hwf : circWF fv n gs)
    (he : ∀ g ∈ gs, sympyExportable g.cls = true) :
    ∃ fs, exportSympy gs = .ok fs ∧ fs.filterMap SyGate.op = gs.filterMap gateOp := by
  obtain ⟨fs, h⟩ := runSteps_total sympyStep gs
    (fun g hg m => sympyStep_total fv n g (hwf g hg) (he g hg) m)
  exact ⟨fs, h, sympy_translation fv n gs fs hwf h⟩

/-- QASM, both versions and modes: the exporter with repaired formals (`QasmRepaired q`: the
fully repaired model and the code as it is, which still prints `{p:.2f}`) returns on every
well-formed circuit over `qasmExportable` gates, whatever the names -/
theorem qasm_total (q : Quirks) (hq : QasmRepaired q) (fv : FloatOf) (ver : Nat) (gm : Bool) (c : Circ)
    (hwf : circWF fv c.numQubits c.gates) (he : ∀ g ∈ c.gates, qasmExportable g.cls = true) :
    ∃ text, exportQasm q fv ver gm c = .ok text := by
  unfold exportQasm
  rw [qasmBody_eq hq fv c hwf he]
  cases gm <;> simp

/-! ## (b) the read-back lines resolve to the circuit's operations -/

/-- every gate name the exporter prints is read back as the class's base gate and number of
controls (`c…c<base>`; every class shape, any `n`, any library inner gate) -/
theorem qasm_name_reading (cls : GClass) (bk : Base × Nat) (h : kind cls = some bk) :
    kindOfQasm (qasmName cls) = some bk := kindOfQasm_qasmName h

/-- exporter with repaired formals (the fully repaired model *and* the code as it is), readable
text, distinct formals, (controlled) library gates: the declaration that is read back applies
exactly the circuit's non-nop gates, in order, each on the formal positions = qubit indices of
its wires; the parameter text is what `q` prints (`gateTOpQ`: the literal, or `{p:.2f}` of its
value under `qasmParam2f`) -/
theorem qasm_resolves_q (q : Quirks) (hq : QasmRepaired q) (fv : FloatOf) (ver : Nat) (c : Circ)
    (hwf : circWF fv c.numQubits c.gates) (he : ∀ g ∈ c.gates, qasmExportable g.cls = true)
    (hr : qasmReadable q fv c = true) (hnd : (qasmFormals q c).Nodup) :
    ∃ text d, exportQasm q fv ver true c = .ok text ∧ parseDecl text = some d ∧
      d.name = c.name ∧ d.formals = (List.range c.numQubits).map (nameOfIndex c.qmap) ∧
      declOps d = some (c.gates.filterMap (gateTOpQ q fv)) := by
  obtain ⟨text, body, h1, h2, h3⟩ := qasm_roundtrip q fv ver c hr
  refine ⟨text, _, h1, h3, rfl, qasmFormals_repaired hq c, ?_⟩
  rw [qasm_body_lines q fv c body h2]
  exact declOps_body hq fv c hwf he hnd

/-- fully repaired exporter: the parameter read back is the literal of the gate's parameter -/
theorem qasm_resolves (fv : FloatOf) (ver : Nat) (c : Circ) (hwf : circWF fv c.numQubits c.gates)
    (he : ∀ g ∈ c.gates, qasmExportable g.cls = true)
    (hr : qasmReadable Quirks.none fv c = true) (hnd : (qasmFormals Quirks.none c).Nodup) :
    ∃ text d, exportQasm Quirks.none fv ver true c = .ok text ∧ parseDecl text = some d ∧
      d.name = c.name ∧ d.formals = qasmFormals Quirks.none c ∧
      declOps d = some (c.gates.filterMap gateTOp) := by
  obtain ⟨text, d, h1, h2, h3, h4, h5⟩ :=
    qasm_resolves_q Quirks.none qasmRepaired_none fv ver c hwf he hr hnd
  refine ⟨text, d, h1, h2, h3, h4.trans (qasmFormals_repaired qasmRepaired_none c).symm, ?_⟩
  rw [h5]
  congr 1
  exact filterMap_congr_mem _ (fun g _ => gateTOpQ_none fv g)

/-! ## (c) readability from conditions on the names -/

/-- `wellNamed` (circuit name and qubit names identifier-shaped, names distinct, no qubit name
equal to the fallback name `q<i>` of an unnamed qubit) and single-token parameter literals give
the two conditions on the output used above: every emitted token is readable and the formals are
pairwise distinct.  Aliased and dotted names of compiled functions are allowed.  Holds for the
fully repaired model and for the code as it is (`{p:.2f}` prints sign, digits and a point). -/
theorem qasm_wellNamed_readable (q : Quirks) (hq : QasmRepaired q) (fv : FloatOf) (c : Circ)
    (hwf : circWF fv c.numQubits c.gates)
    (he : ∀ g ∈ c.gates, qasmExportable g.cls = true)
    (hp : paramsPlain c.gates = true) (hn : wellNamed c = true) :
    qasmReadable q fv c = true ∧ (qasmFormals q c).Nodup :=
  readable_of_wellNamed hq fv c hwf he hp hn

/-- the code as it is (only `C13-qasm-param-2f` unrepaired), from conditions on the input alone:
both versions of the gate declaration are emitted and read back as the circuit's name, one
formal per qubit in index order, pairwise distinct, and exactly the circuit's non-nop gates on
the positions of their qubits – only the parameter is the two-decimal rendering of its value -/
theorem qasm_asis_resolves (fv : FloatOf) (ver : Nat) (c : Circ) (hwf : circWF fv c.numQubits c.gates)
    (he : ∀ g ∈ c.gates, qasmExportable g.cls = true)
    (hp : paramsPlain c.gates = true) (hn : wellNamed c = true) :
    ∃ text d, exportQasm { qasmParam2f := true } fv ver true c = .ok text ∧ parseDecl text = some d ∧
      d.name = c.name ∧ d.formals = (List.range c.numQubits).map (nameOfIndex c.qmap) ∧
      d.formals.Nodup ∧
      declOps d = some (c.gates.filterMap (gateTOpQ { qasmParam2f := true } fv)) := by
  have hq : QasmRepaired { qasmParam2f := true } := ⟨rfl, rfl⟩
  obtain ⟨hr, hnd⟩ := qasm_wellNamed_readable _ hq fv c hwf he hp hn
  obtain ⟨text, d, h1, h2, h3, h4, h5⟩ := qasm_resolves_q _ hq fv ver c hwf he hr hnd
  refine ⟨text, d, h1, h2, h3, h4, ?_, h5⟩
  rw [h4, ← qasmFormals_repaired hq c]
  exact hnd

/-- the hypotheses are satisfiable by the name map of a compiled `c = a` (aliased: `a` and `c`
both name qubit 0), dotted names, an unnamed qubit, MCX, a parameter and a barrier -/
example : wellNamed
    { name := "f".toList, numQubits := 4,
      qmap := [("a".toList, 0), ("b.0".toList, 1), ("c".toList, 0), ("_ret".toList, 2)],
      gates := [] } = true := by decide

example : paramsPlain [⟨.H, [0], .none, 0⟩, ⟨.MCX 2, [0, 1, 2], .none, 0⟩, ⟨.Barrier, [], .none, 0⟩,
    ⟨.CP, [3, 0], .lit "0.7853981633974483", 0⟩] = true := by decide

/-! ## the full statement -/

/-- `C13_statement` holds (model of the exporters with every listed defect repaired). -/
theorem C13_full : C13_statement := by
  intro fv c hwf
  refine ⟨fun gm he => qiskit_total fv gm _ _ hwf he, fun he => cirq_total fv _ _ hwf he,
    fun he => sympy_total fv _ _ hwf he, (qasm_formals_full c).1, ?_⟩
  intro hn hp he ver
  obtain ⟨hr, hnd⟩ := qasm_wellNamed_readable _ qasmRepaired_none fv c hwf he hp hn
  obtain ⟨text, d, h1, h2, h3, h4, h5⟩ := qasm_resolves fv ver c hwf he hr hnd
  exact ⟨text, d, _, h1, (qasm_text_shape Quirks.none fv ver c text h1).1, h2, h3, h4, h4 ▸ hnd, h5, rfl⟩

/-- The conditional part, for *every* quirk setting `q` (so in particular for the code as it is
and for every partially repaired variant): *if* an exporter returns, its output reads as the
circuit; the QASM declaration is read back line by line; the repaired exporter's formals are one
per qubit in index order.  `C13_full` adds, for the repaired model, that the exporters do return
and that the lines resolve to the circuit's operations; `qasm_asis_resolves` does the same for
the QASM exporter as it is. -/
theorem C13_partial (q : Quirks) (fv : FloatOf) (c : Circ) (hwf : circWF fv c.numQubits c.gates) :
    (∀ gm calls, exportQiskit q fv gm c.gates = .ok calls →
      calls.filterMap QkCall.op = c.gates.filterMap gateOp) ∧
    (∀ ops, exportCirq q c.gates = .ok ops → ops.filterMap CqOp.op = c.gates.filterMap gateOp) ∧
    (∀ fs, exportSympy c.gates = .ok fs → fs.filterMap SyGate.op = c.gates.filterMap gateOp) ∧
    (qasmFormals Quirks.none c = (List.range c.numQubits).map (nameOfIndex c.qmap)) ∧
    (∀ ver, qasmReadable q fv c = true →
      ∃ text body, exportQasm q fv ver true c = .ok text ∧
        parseDecl text = some { name := c.name, formals := qasmFormals q c, body := body } ∧
        body = c.gates.filterMap (fun g => if g.cls.isNop then none else qasmLineOf q fv c g)) := by
  refine ⟨fun gm calls h => qiskit_translation q fv gm _ _ calls hwf h,
    fun ops h => cirq_translation q fv _ _ ops hwf h,
    fun fs h => sympy_translation fv _ _ fs hwf h, (qasm_formals_full c).1, ?_⟩
  intro ver hr
  obtain ⟨text, body, h1, h2, h3⟩ := qasm_roundtrip q fv ver c hr
  exact ⟨text, body, h1, h3, qasm_body_lines q fv c body h2⟩

/-! ## witnesses: where the code as it is violates the property -/

/-- `C13-qasm-formals-from-names`: a second name for qubit 0 (what `c = a` compiles to) gives a
gate with 4 formals for 3 qubits, while the call passes 3 arguments -/
theorem qasm_formals_witness :
    let c : Circ := ⟨['g'], 3, [(['a'], 0), (['b'], 1), (['c'], 0), (['r'], 2)], [⟨.CCX, [0, 1, 2], .none, 0⟩]⟩
    (qasmFormals { qasmFormalsFromKeys := true } c).length = 4 ∧ (callArgs c.numQubits).length = 3 ∧
    (qasmFormals Quirks.none c).length = 3 := by decide

/-- same defect, re-bound names: the formals are not in index order, so the call binds `r` (qubit 2)
to `q[1]` -/
theorem qasm_formals_order_witness :
    let c : Circ := ⟨['g'], 3, [(['a'], 0), (['r'], 2), (['b'], 1)], [⟨.CX, [0, 2], .none, 0⟩]⟩
    indexOfName (qasmFormals { qasmFormalsFromKeys := true } c) ['r'] = some 1 ∧
    qasmWireName { qasmFormalsFromKeys := true } c 2 = some ['r'] := by decide

/-- `C13-qasm-param-2f`: π/4 (the double 884279719003555/2^50) is printed as `0.79`, which is not
its value -/
theorem qasm_param2f_witness :
    fmt2f ⟨false, 884279719003555, 1125899906842624⟩ = ['0', '.', '7', '9'] ∧
    884279719003555 * 100 ≠ 79 * 1125899906842624 := by decide

/-- `C13-param-zero-dropped`: `cp(0.0)` – the qiskit exporter calls `qc.cp(*w)` and raises; the
QASM line carries no parameter; the repaired exporters keep it -/
theorem param_zero_witness :
    let fv : FloatOf := fun _ => some ⟨false, 0, 1⟩
    let g : AGate := ⟨.CP, [0, 1], .lit "0.0", 0⟩
    let c : Circ := ⟨['q', 'c'], 2, [(['a'], 0), (['b'], 1)], [g]⟩
    (exportQiskit { exportParamTruthy := true } fv false [g]).toOption = none ∧
    ((qasmLineOf { exportParamTruthy := true } fv c g).map (·.ptext)) = some none ∧
    (exportQiskit Quirks.none fv false [g]).toOption = some [.meth ['c', 'p'] (some (.lit "0.0")) [0, 1]] := by
  decide

/-- `C13-cirq-nop-raises`: a barrier makes the cirq export raise; repaired, it is skipped -/
theorem cirq_barrier_witness :
    let gs : List AGate := [⟨.X, [0], .none, 0⟩, ⟨.Barrier, [], .none, 0⟩, ⟨.CX, [0, 1], .none, 0⟩]
    (exportCirq { cirqNopRaises := true } gs).toOption = none ∧
    (exportCirq Quirks.none gs).toOption = some [.named ['X'] [0], .named ['C', 'N', 'O', 'T'] [0, 1]] := by
  decide

/-- why `C13_statement` needs `qasmExportable`: `MCtrl(g, 2)` for a gate `g` that is not one of the
library's nine is accepted by `QCircuit.append`, the text is readable and the formals distinct, but
the line `ccfoo a b c` has no reading – and the circuit entry itself denotes no operation -/
theorem qasm_unknown_inner_witness :
    let c : Circ := ⟨['g'], 3, [(['a'], 0), (['b'], 1), (['c'], 2)], [⟨.MCtrl "FOO" 2, [0, 1, 2], .none, 0⟩]⟩
    gateWF (fun _ => none) 3 ⟨.MCtrl "FOO" 2, [0, 1, 2], .none, 0⟩ = true ∧
    qasmReadable Quirks.none (fun _ => none) c = true ∧ wellNamed c = true ∧
    qasmExportable (.MCtrl "FOO" 2) = false ∧
    (match exportQasm Quirks.none (fun _ => none) 3 true c with
      | .ok t => (parseDecl t).bind declOps
      | .error _ => none) = none := by decide

/-- the fallback name of an unnamed qubit avoids the names of the other qubits: with `{"q1": 0}`
on two qubits the exporter declares `gate g q1 _q1` (before fix 'fallback clash' it declared
`gate g q1 q1`); `wellNamed` still excludes the case, which keeps its statement simple -/
theorem qasm_fallback_fresh_example :
    let c : Circ := ⟨['g'], 2, [(['q', '1'], 0)], [⟨.CX, [0, 1], .none, 0⟩]⟩
    qasmFormals Quirks.none c = [['q', '1'], ['_', 'q', '1']] ∧ wellNamed c = false := by decide

end QV.C13
