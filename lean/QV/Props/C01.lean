import QV.Proofs.Arith
import QV.Proofs.Mul
import QV.Proofs.ArithStaged
import QV.Proofs.Front6
import QV.Proofs.Front9
import QV.Proofs.Front10
import QV.Proofs.Front11
import QV.Proofs.FrontT9
import QV.Proofs.FrontX3
import QV.Proofs.A2A6
import QV.Proofs.A2A7
import QV.Proofs.A2A8
import QV.Proofs.A2X3
import QV.Proofs.A2X4
import QV.Proofs.A2X5
import QV.Model.Front
/-!
# C01 – Boolean expressions mean what the Python source means

> For every function that the library accepts, and every argument value, the boolean expressions it
> derives (and the truth table it reports) encode exactly the value the Python function returns under
> the documented fixed-width unsigned types: exact wherever no intermediate value leaves the range of
> its type, and equal modulo 2^w on the low w bits that wrap-around arithmetic determines.  A program
> outside the supported subset is rejected with an exception, never silently translated into a
> different function.

What is proved here (**partial**):

* the specification of the bit-vector library the translator is built from (`QV/Model/Arith.lean` =
  `qlasskit/types/qint.py`, `qtype.py`), for *all* widths, all bit expressions and all environments:
  `fill`, `crop`, `~`, `<<`, `>>`, `+`, `-`, `*` (the schoolbook loop, `mul_spec`), `% 2^k`
  (`mod_spec`), `==`, `!=`, `>`, `<`, `<=`, `>=`, bitwise operators, and the tie of the comparator
  table of `translate_expression` to them.  The statements are about the model with every listed
  defect repaired (`Quirks.none`, = the code since the `fix:` commits in /repo); for the model of the
  code before them they hold on the inputs that do not reach a listed defect (`*_partial`), and each
  listed defect has a witness;
* the translator theorem for **expressions** over `bool` / `Qint` (`C01_expr`, `C01_expr_args`):
  whatever `Front.tr` returns has, under every assignment, the value the Lean reference semantics
  `QV.Sem.semW` (`QV/Model/Sem.lean`) gives the expression.

* the **statement level** on the straight-line fragment (`C01_body`), the exact python semantics against
  the fixed-width one (`semW_eq_sem`, `semW_low_bits`), and their assembly `C01_straightline` (end of
  this file).

* the **structured types** - tuples (hence `Qlist`, `Qmatrix`), constant-index subscript chains, `Qchar`:
  `C01_expr_struct`, `C01_body_struct`, `C01_straightline_struct` against the widened semantics
  `QV.Sem.semT` / `semXT` (`QV/Model/SemT.lean`, `SemXT.lean`), which extend `semW` / `sem`
  (`semT_extends_semW`).

NOT proved: `C01_statement` for all programs – guarded assignments over the structured types (the `if` / `for`
theorems `C01_if` / `C01_for` are stated for bool / Qint), the sites where the library uses a `Qchar` as an
8-bit integer (`Sem.wellT`), builtins and variable subscripts (expanded by `ast2ast` before the translator),
and the rejection half; those are tied to the code by the correspondence and the oracle of `harness/c01.py` only.
-/
namespace QV.C01
open QV QV.Arith QV.Front

/-- The property in full, relative to a reference semantics `SemW` (fixed-width python meaning of a
program on an assignment of its argument bits: for every return bit either the bit the python function
returns, or `none` where nothing is claimed – an intermediate left its range and the bit is not a low
bit determined by wrap-around arithmetic; `none` for the whole row when python raises) and a predicate
`InSubset` (the documented subset).  **Not proved in this generality.**  For straight-line programs over
bool / Qint it is proved with `SemW p ρ := (Sem.semProgX p ρ).map Sem.XVal.claim`
(`C01_statement_straightline` / `C01_straightline` at the end of this file).  Missing for the rest:
`if` / `for` never reach `translate` – `ast2ast` unrolls loops and rewrites `if` into guarded assignments
`d = b if c else d` (they read their own target, which `Sem.straightLine` excludes), and `ast2ast` has
no Lean model; every type other than bool / Qint; the `InSubset` (rejection) half. -/
def C01_statement
    (SemW : Prog → (String → Bool) → Option (List (Option Bool)))
    (InSubset : Prog → Prop) : Prop :=
  ∀ (p : Prog) (consts : List (Bool × Bool)),
    match translate Quirks.none consts p with
    | .error _ => True                     -- refusing a program is always allowed
    | .ok (defs, _) =>
      InSubset p ∧
      ∀ ρ : String → Bool,
        match SemW p ρ with
        | none => True
        | some expected =>
          ∀ (i : Nat) (b : Bool), expected[i]? = some (some b) →
            ∀ name, (p.ret.names "_ret")[i]? = some name → runDefs defs ρ name = b

/-! ## the library, for all widths and environments -/

/-- `Qtype.fill` keeps the value and gives `max n |l|` bits -/
theorem fill_spec (ρ : Env) (n : Nat) (l : List BExp) :
    val ρ (fill n l) = val ρ l ∧ (fill n l).length = max n l.length :=
  ⟨val_fill ρ n l, fill_length n l⟩

/-- `Qtype.crop` reduces the value modulo `2^n` -/
theorem crop_spec (ρ : Env) (n : Nat) (l : List BExp) :
    val ρ (crop n l) = val ρ l % 2 ^ n ∧ (crop n l).length = min n l.length :=
  ⟨val_crop ρ n l, crop_length n l⟩

/-- `Qtype.bitwise_not`: `~x = 2^w - 1 - x` -/
theorem bitwise_not_spec (ρ : Env) (l : List BExp) :
    val ρ (bitwiseNot l) = 2 ^ l.length - 1 - val ρ l := by
  have := val_bitwiseNot ρ l; omega

/-- `Qtype.shift_left` on a type of `n` bits: `(x * 2^i) mod 2^n` -/
theorem shift_left_spec (ρ : Env) (n : Nat) (l : List BExp) (i : Nat) :
    val ρ (shiftLeft n l i) = (val ρ l * 2 ^ i) % 2 ^ n := by
  rw [val_shiftLeft, Nat.mul_comm]

/-- `Qtype.shift_right`: `x / 2^i` -/
theorem shift_right_spec (ρ : Env) (n : Nat) (l : List BExp) (i : Nat) :
    val ρ (shiftRight n l i) = val ρ l / 2 ^ i :=
  val_shiftRight ρ n l i

/-- `QintImp.add`, operands of any two widths: `(a + b) mod 2^max` on `max` bits -/
theorem add_spec (ρ : Env) (l r : List BExp) :
    val ρ (qAdd l r) = (val ρ l + val ρ r) % 2 ^ (max l.length r.length) ∧
    (qAdd l r).length = max l.length r.length :=
  ⟨val_qAdd ρ l r, qAdd_length l r⟩

/-- `QintImp.eq`, any two widths -/
theorem eq_spec (ρ : Env) (l r : List BExp) : (qEq l r).eval ρ = decide (val ρ l = val ρ r) :=
  qEq_eval ρ l r

/-- `QintImp.neq`, any two widths -/
theorem neq_spec (ρ : Env) (l r : List BExp) : (qNeq l r).eval ρ = decide (val ρ l ≠ val ρ r) :=
  qNeq_eval ρ l r

/-- `QintImp.gt`: with the padding branch repaired, for any two widths; for the code as it is
(`q.gtLeftNarrow`), whenever the right operand is not the wider one -/
theorem gt_spec (q : Quirks) (ρ : Env) (l r : List BExp)
    (h : q = Quirks.none ∨ r.length ≤ l.length) :
    (qGt q l r).eval ρ = decide (val ρ l > val ρ r) := by
  rcases h with h | h
  · subst h; exact qGt_eval ρ l r
  · rw [qGt_quirk_irrelevant q l r h]; exact qGt_eval ρ l r

example : ∃ (q : Quirks) (l r : List BExp), q.gtLeftNarrow = true ∧ r.length ≤ l.length ∧ l ≠ [] :=
  ⟨{ gtLeftNarrow := true }, [.sym "a.0", .sym "a.1"], [.sym "b.0"], rfl, by decide, by simp⟩

/-- `QintImp.lt` -/
theorem lt_spec (q : Quirks) (ρ : Env) (l r : List BExp)
    (h : q = Quirks.none ∨ r.length ≤ l.length) :
    (qLt q l r).eval ρ = decide (val ρ l < val ρ r) := by
  have hg := gt_spec q ρ l r h
  have he := eq_spec ρ l r
  simp only [qLt, BExp.eval, evalAnd, hg, he, Bool.and_true]
  by_cases h1 : val ρ l > val ρ r
  · have : ¬ val ρ l < val ρ r := by omega
    simp [h1, this]
  · by_cases h2 : val ρ l = val ρ r
    · have : ¬ val ρ l < val ρ r := by omega
      simp [h2, this]
    · have : val ρ l < val ρ r := by omega
      simp [h1, h2, this]

/-- `QintImp.lte` -/
theorem lte_spec (q : Quirks) (ρ : Env) (l r : List BExp)
    (h : q = Quirks.none ∨ r.length ≤ l.length) :
    (qLte q l r).eval ρ = decide (val ρ l ≤ val ρ r) := by
  have hg := gt_spec q ρ l r h
  simp only [qLte, BExp.eval, hg]
  by_cases h1 : val ρ l > val ρ r
  · have : ¬ val ρ l ≤ val ρ r := by omega
    simp [h1, this]
  · have : val ρ l ≤ val ρ r := by omega
    simp [h1, this]

/-- `QintImp.gte` -/
theorem gte_spec (q : Quirks) (ρ : Env) (l r : List BExp)
    (h : q = Quirks.none ∨ r.length ≤ l.length) :
    (qGte q l r).eval ρ = decide (val ρ l ≥ val ρ r) := by
  have hl := lt_spec q ρ l r h
  simp only [qGte, BExp.eval, hl]
  by_cases h1 : val ρ l < val ρ r
  · have : ¬ val ρ l ≥ val ρ r := by omega
    simp [h1, this]
  · have : val ρ l ≥ val ρ r := by omega
    simp [h1, this]

/-- `QintImp.sub` (repaired) called on the class of `n` bits, operands of any widths:
`(a - b) mod 2^W` with `W = max n |l| |r|` -/
theorem sub_spec (ρ : Env) (n : Nat) (l r : List BExp) :
    val ρ (qSub Quirks.none n l r)
      = (val ρ l + 2 ^ (max n (max l.length r.length)) - val ρ r) % 2 ^ (max n (max l.length r.length)) ∧
    (qSub Quirks.none n l r).length = max n (max l.length r.length) :=
  qSub_spec ρ n l r

/-- for the code as it is, `sub` is the repaired `sub` whenever the left operand (after `fill` to the
class) is not the narrower one -/
theorem sub_partial (q : Quirks) (n : Nat) (l r : List BExp)
    (h : (fill n r).length ≤ (fill n l).length) :
    qSub q n l r = qSub Quirks.none n l r := by
  have e : fill (fill n r).length (fill n l) = fill n l := by
    unfold fill at h ⊢
    split <;> split <;> simp_all <;> omega
  unfold qSub
  cases q.subLeftNarrow <;> simp [Quirks.none, e]

example : (fill 4 [BExp.sym "b.0", .sym "b.1"]).length ≤ (fill 4 [BExp.sym "a.0", .sym "a.1", .sym "a.2", .sym "a.3"]).length := by
  decide

/-- bitwise operators: bit `i` of the result is the operator applied to bit `i` of the operands,
both widened with zeros to the wider width -/
theorem bitwise_spec (ρ : Env) (op : BExp → BExp → BExp) (f : Bool → Bool → Bool)
    (hop : ∀ a b, (op a b).eval ρ = f (a.eval ρ) (b.eval ρ)) (l r : List BExp) :
    evalBits ρ (bitwiseGeneric op l r)
      = List.zipWith f (evalBits ρ (widenL l r)) (evalBits ρ (widenR l r)) ∧
    (bitwiseGeneric op l r).length = max l.length r.length := by
  constructor
  · unfold bitwiseGeneric evalBits
    rw [List.map_zipWith, List.zipWith_map]
    congr 1; funext a b; exact hop a b
  · unfold bitwiseGeneric
    rw [List.length_zipWith, widenL_length, widenR_length]; omega

theorem bitwise_ops (ρ : Env) (a b : BExp) :
    (opAnd a b).eval ρ = (a.eval ρ && b.eval ρ) ∧ (opOr a b).eval ρ = (a.eval ρ || b.eval ρ) ∧
    (opXor a b).eval ρ = Bool.xor (a.eval ρ) (b.eval ρ) := by
  simp [opAnd, opOr, opXor, BExp.eval, evalAnd, evalOr, evalXor]

/-! ## the multiplier and `%` -/

/-- the schoolbook loop of `QintImp.mul` (rows = bits of the left operand, each row a ripple of full
adders into `product` at offset `i`, final carry stored at `i + m`): the exact product on `n + m`
bits, for operands of any two widths -/
theorem schoolbook_spec (ρ : Env) (l r : List BExp) :
    val ρ (schoolbook l r) = val ρ l * val ρ r ∧ (schoolbook l r).length = l.length + r.length :=
  val_schoolbook ρ l r

/-- `QintImp.mul` with every product through the schoolbook loop (the repaired code; `Quirks.none`),
for all operand widths, all `is_const` outcomes `cl`, `cr` and all environments: the result type has
`t = (qMul …).1` bits (`__mul_sizing` of the two operand widths after the constant / width fills),
the bits are the `n + m` product bits cropped / filled to `t`, and their value is
`(val l * val r) mod 2^t`.  When the operands have the widths of their types, `t` is
`__mul_sizing(max, max)` – the rule `mul_sizing(2·max)` of the reference semantics. -/
theorem mul_spec (ρ : Env) (cl cr : Bool) (nl nr : Nat) (l r : List BExp) :
    val ρ (qMul Quirks.none cl cr nl nr l r).2
      = (val ρ l * val ρ r) % 2 ^ (qMul Quirks.none cl cr nl nr l r).1 ∧
    (qMul Quirks.none cl cr nl nr l r).2.length = (qMul Quirks.none cl cr nl nr l r).1 ∧
    (l.length = nl → r.length = nr →
      (qMul Quirks.none cl cr nl nr l r).1 = mulSizing (max nl nr) (max nl nr)) :=
  qMul_spec ρ cl cr nl nr l r

/-- **the tie of the evaluation of wide products** (`QV/Model/ArithStaged.lean`).  The bits of the schoolbook
product share their sub-expressions; walked as trees they have about 10^10 nodes for `Qint[12] * Qint[12]`, so the
driver evaluates the model of `mul` on operands of the largest widths row by row (`qMulLit ρ`: the inner loop
`mulRow` itself, the product list replaced by the literals of its values after every row).  For every assignment,
both `is_const` outcomes and all widths this gives the result type of `qMul` and, bit for bit, the values of its
expressions. -/
theorem mul_rowwise_eval (ρ : Env) (cl cr : Bool) (nl nr : Nat) (l r : List BExp) :
    (qMulLit ρ cl cr nl nr l r).1 = (qMul Quirks.none cl cr nl nr l r).1 ∧
    (qMulLit ρ cl cr nl nr l r).2.map (·.eval ρ) = (qMul Quirks.none cl cr nl nr l r).2.map (·.eval ρ) :=
  qMulLit_eval ρ cl cr nl nr l r

/-- for the model of the code with the `mul_even_const` shortcut still present, `mul` is the
schoolbook `mul` whenever neither operand is a constant -/
theorem mul_partial (q : Quirks) (nl nr : Nat) (l r : List BExp) :
    qMul q false false nl nr l r = qMul Quirks.none false false nl nr l r := by
  simp [qMul, Quirks.none]

example : (qMul Quirks.none false true 2 2 [.sym "a.0", .sym "a.1"] (qintConst 2 2)).1 = 4 := by decide

/-- `QintImp.mod` (`x & (y - 1)`, `y - 1` by `QintImp.sub` on the class of `nr ≥ 1` bits) for a right
operand whose value is a power of two `2^k` (the literal case the repaired front end accepts):
`val x mod 2^k`, operands of any widths -/
theorem mod_spec (ρ : Env) (nr : Nat) (l r : List BExp) (k : Nat) (hn : 0 < nr)
    (hr : val ρ r = 2 ^ k) :
    val ρ (qMod Quirks.none nr l r) = val ρ l % 2 ^ k ∧
    (qMod Quirks.none nr l r).length = max l.length (max nr r.length) :=
  qMod_spec ρ nr l r k hn hr

example : ∃ (ρ : Env) (nr : Nat) (r : List BExp) (k : Nat), 0 < nr ∧ val ρ r = 2 ^ k :=
  ⟨fun _ => false, 4, qintConst 4 4, 2, by decide, by decide⟩

/-! ## the comparator table of `translate_expression` (generated from the source) -/

/-- python meaning of the `ast` comparator classes -/
def denoteCmp : String → Nat → Nat → Option Bool
  | "Eq", a, b => some (decide (a = b))
  | "NotEq", a, b => some (decide (a ≠ b))
  | "Lt", a, b => some (decide (a < b))
  | "LtE", a, b => some (decide (a ≤ b))
  | "Gt", a, b => some (decide (a > b))
  | "GtE", a, b => some (decide (a ≥ b))
  | _, _, _ => none

/-- the `QintImp` static method a table entry names -/
def methodOf : String → Option (List BExp → List BExp → BExp)
  | "eq" => some qEq
  | "neq" => some qNeq
  | "lt" => some (qLt Quirks.none)
  | "lte" => some (qLte Quirks.none)
  | "gt" => some (qGt Quirks.none)
  | "gte" => some (qGte Quirks.none)
  | _ => none

/-- every entry `(ast class, method name)` of the table in the current source selects a library
method that decides the python comparison the class denotes (all widths, all environments) -/
theorem comparators_sound :
    ∀ p ∈ Gen.comparators, ∀ (ρ : Env) (l r : List BExp),
      ∃ m, methodOf p.2 = some m ∧ denoteCmp p.1 (val ρ l) (val ρ r) = some ((m l r).eval ρ) := by
  intro p hp ρ l r
  simp only [Gen.comparators, List.mem_cons, List.mem_nil_iff, or_false] at hp
  rcases hp with rfl | rfl | rfl | rfl | rfl | rfl
  · exact ⟨_, rfl, by simp [denoteCmp, eq_spec]⟩
  · exact ⟨_, rfl, by simp [denoteCmp, neq_spec]⟩
  · exact ⟨_, rfl, by simp [denoteCmp, lt_spec Quirks.none ρ l r (Or.inl rfl)]⟩
  · exact ⟨_, rfl, by simp [denoteCmp, lte_spec Quirks.none ρ l r (Or.inl rfl)]⟩
  · exact ⟨_, rfl, by simp [denoteCmp, gt_spec Quirks.none ρ l r (Or.inl rfl)]⟩
  · exact ⟨_, rfl, by simp [denoteCmp, gte_spec Quirks.none ρ l r (Or.inl rfl)]⟩

/-- the candidate widths of `const_to_qtype` in the current source are increasing, so the first
candidate that fits is the least one -/
theorem const_candidates_sorted :
    (Gen.constQintCandidates.map (·.2)).Pairwise (· < ·) := by decide

/-! ## witnesses of the listed defects (the same programs are replayed on the real code every run) -/

def wA2 : List BExp := [.sym "a.0", .sym "a.1"]
def wB4 : List BExp := [.sym "b.0", .sym "b.1", .sym "b.2", .sym "b.3"]

/-- C01-gt-left-narrow: `Qint2 > Qint4` with a = 0, b = 4 is reported true -/
theorem gt_witness :
    (qGt { gtLeftNarrow := true } wA2 wB4).eval (envOf [("b.2", true)]) = true ∧
    decide (val (envOf [("b.2", true)]) wA2 > val (envOf [("b.2", true)]) wB4) = false := by
  decide

/-- C01-sub-left-narrow: `Qint2 - Qint4` with a = 1, b = 0 gives 13 instead of 1 -/
theorem sub_witness :
    val (envOf [("a.0", true)]) (qSub { subLeftNarrow := true } 2 wA2 wB4) = 13 ∧
    val (envOf [("a.0", true)]) (qSub Quirks.none 2 wA2 wB4) = 1 := by
  decide

/-- C01-mul-even-const: `a * 0` for `a : Qint2`, a = 1 gives 3 (`r = (0 - 1) mod 4`), repaired 0 -/
theorem mul_witness :
    val (envOf [("a.0", true)]) (qMul { mulEvenConst := true } false true 2 2 wA2 (qintConst 2 0)).2 = 3 ∧
    val (envOf [("a.0", true)]) (qMul Quirks.none false true 2 2 wA2 (qintConst 2 0)).2 = 0 := by
  decide

/-- C01-mod-nonpow2: `a % 3` is `a & 2`: for a = 3 it gives 2, python gives 0 -/
theorem mod_witness :
    val (envOf [("a.0", true), ("a.1", true)]) (qMod Quirks.none 2 wA2 (qintConst 2 3)) = 2 ∧ 3 % 3 = 0 := by
  decide

/-- C01-qchar-eq-zip: the zip-only equality of `Qchar.eq` against a 2-bit constant 3 holds for the
character code 7 -/
theorem char_eq_witness :
    (eqLoop .tt [.sym "c.0", .sym "c.1", .sym "c.2"] (qintConst 2 3)).eval
        (envOf [("c.0", true), ("c.1", true), ("c.2", true)]) = true ∧
    (qEq [.sym "c.0", .sym "c.1", .sym "c.2"] (qintConst 2 3)).eval
        (envOf [("c.0", true), ("c.1", true), ("c.2", true)]) = false := by
  decide

/-! ## the translator theorem on the bool / Qint expression fragment

Reference semantics: `QV.Sem.semW` (`lean/QV/Model/Sem.lean`; fixed-width unsigned: every operator
computed exactly on the operand values, then reduced modulo `2^w`, `w` from the typing rules written
there).  It is validated on every generated program against the independent python oracle
`harness/pysem.py` (driver op `c01.semw`). -/

/-- **C01_expr** – translator theorem for expressions.  For every expression `e` of the fragment
`Sem.inFrag` (variables, bool / int constants, `not`, `~`, `and` / `or`, if-expressions, the six
comparisons, `+ - * % ^ & | << >>`), every binding environment `env` whose variables denote the
values `σ` gives them under the assignment `ρ` of the symbols (`Sem.EnvOK`), and every state of the
translator monad: if the model of `translate_expression` (`Front.tr`, all listed defects repaired)
succeeds with type `t` and value `v`, then the reference semantics `SemW` is defined on `e`, and
either `t = bool`, `v` is one expression and its truth value under `ρ` is `SemW`'s bool, or
`t = Qint[w]`, `v` is a list of exactly `w` bit expressions and their little-endian value under `ρ`
is `SemW`'s integer (of the same width `w`).  By structural induction over `e`, one lemma per
syntactic form (`QV/Proofs/Front*.lean`), on top of the library theorems above (`add_spec`,
`sub_spec`, `mul_spec`, `mod_spec`, shifts, bitwise, comparators). -/
theorem C01_expr (ρ : Env) (env : Front.Env) (σ : Sem.SEnv) (henv : Sem.EnvOK ρ env σ)
    (e : PExp) (hfrag : Sem.inFrag e = true) (s s' : St) (t : Ty) (v : Val)
    (h : (tr Quirks.none env e).run s = .ok ((t, v), s')) :
    ∃ sv, Sem.semW σ e = some sv ∧
      ((∃ a : BExp, t = .bool ∧ v = .atom a ∧ sv = .bool (a.eval ρ)) ∨
       (∃ bits : List BExp, t = .qint bits.length ∧ v = Val.ofBits bits ∧
          sv = .int bits.length (val ρ bits))) := by
  obtain ⟨sv, hs, hd⟩ := Sem.sound_all ρ env σ henv e hfrag s t v s' h
  refine ⟨sv, hs, ?_⟩
  cases hd with
  | bool a => exact Or.inl ⟨a, rfl, rfl, rfl⟩
  | int bits => exact Or.inr ⟨bits, rfl, rfl, rfl⟩

/-- the environment `translate_ast` starts from (arguments of type `bool` / `Qint[w]`, `w ≠ 1`)
satisfies the hypothesis of `C01_expr` with `σ` = the arguments decoded from their bits
(`Sem.argsEnv`: `a` is `Σ ρ("a.i")·2^i`) -/
theorem C01_expr_args_env (ρ : Env) (args : List (String × Ty))
    (hargs : ∀ p ∈ args, Sem.argTyOK p.2 = true) :
    Sem.EnvOK ρ (args.foldl (fun env (n, t) => env ++ [⟨n, t, t.names n⟩]) []) (Sem.argsEnv args ρ) :=
  Sem.envOK_args ρ args hargs

/-- `C01_expr` for an expression over the arguments of a function: whatever the translator returns
for `e` in the initial environment has, under every assignment `ρ` of the argument bits, the
fixed-width python value `SemW` gives `e` on the decoded arguments -/
theorem C01_expr_args (ρ : Env) (args : List (String × Ty))
    (hargs : ∀ p ∈ args, Sem.argTyOK p.2 = true)
    (e : PExp) (hfrag : Sem.inFrag e = true) (s s' : St) (t : Ty) (v : Val)
    (h : (tr Quirks.none (args.foldl (fun env (n, t) => env ++ [⟨n, t, t.names n⟩]) []) e).run s
          = .ok ((t, v), s')) :
    ∃ sv, Sem.semW (Sem.argsEnv args ρ) e = some sv ∧
      ((∃ a : BExp, t = .bool ∧ v = .atom a ∧ sv = .bool (a.eval ρ)) ∨
       (∃ bits : List BExp, t = .qint bits.length ∧ v = Val.ofBits bits ∧
          sv = .int bits.length (val ρ bits))) :=
  C01_expr ρ _ _ (Sem.envOK_args ρ args hargs) e hfrag s s' t v h

/-- the hypotheses are satisfiable: `a * 3 - b < 5` over `a : Qint[2]`, `b : Qint[3]` is in the
fragment, its arguments are covered, and the translator accepts it -/
example :
    let args : List (String × Ty) := [("a", .qint 2), ("b", .qint 3)]
    let e : PExp := .cmp "Lt" (.bin "sub" (.bin "mul" (.name "a") (.cint 3)) (.name "b")) (.cint 5)
    (∀ p ∈ args, Sem.argTyOK p.2 = true) ∧ Sem.inFrag e = true ∧
    ∃ v s', (tr Quirks.none (args.foldl (fun env (n, t) => env ++ [⟨n, t, t.names n⟩]) []) e).run {}
      = .ok ((.bool, v), s') := by
  refine ⟨by decide, by decide, ?_⟩
  exact ⟨_, _, rfl⟩

/-! ## what is proved of the property: the library part -/

/-- **partial**: every library function the translator calls for `+ - ~ << >> == != > < <= >=`,
`fill` and `crop` computes, for all widths and environments, the fixed-width unsigned operation the
property speaks of (value modulo `2^w`, `w` the width the typing rule gives); for the model of the code
as it is (`q`) on every operand pair that does not reach `gtLeftNarrow` / `subLeftNarrow`.
Missing for the full `C01_statement`: the multiplier, `%`, and the induction over expressions and
statements of `Front.translate`. -/
theorem C01_library_partial (q : Quirks) (ρ : Env) (n : Nat) (l r : List BExp)
    (hgt : q = Quirks.none ∨ r.length ≤ l.length)
    (hsub : (fill n r).length ≤ (fill n l).length) :
    val ρ (qAdd l r) = (val ρ l + val ρ r) % 2 ^ (max l.length r.length) ∧
    val ρ (qSub q n l r)
      = (val ρ l + 2 ^ (max n (max l.length r.length)) - val ρ r) % 2 ^ (max n (max l.length r.length)) ∧
    (qEq l r).eval ρ = decide (val ρ l = val ρ r) ∧
    (qNeq l r).eval ρ = decide (val ρ l ≠ val ρ r) ∧
    (qGt q l r).eval ρ = decide (val ρ l > val ρ r) ∧
    (qLt q l r).eval ρ = decide (val ρ l < val ρ r) ∧
    (qLte q l r).eval ρ = decide (val ρ l ≤ val ρ r) ∧
    (qGte q l r).eval ρ = decide (val ρ l ≥ val ρ r) := by
  refine ⟨(add_spec ρ l r).1, ?_, eq_spec ρ l r, neq_spec ρ l r, gt_spec q ρ l r hgt, lt_spec q ρ l r hgt,
    lte_spec q ρ l r hgt, gte_spec q ρ l r hgt⟩
  rw [sub_partial q n l r hsub]
  exact (sub_spec ρ n l r).1

/-! ## from expressions to programs: the straight-line fragment

`Sem.straightLine p` (decidable, `QV/Model/Frag.lean`; proofs in `QV/Proofs/Front9.lean`): arguments of type `bool` / `Qint[w]`
(`w ≠ 1`) with dot-free names other than `_ret`; return type `bool` / `Qint[w]`; every statement an
assignment `t = e` (`t` dot-free, not `_ret`, `e` in `Sem.inFrag`, `e` does not read `t`), a
`return e` (`e` in `Sem.inFrag`), or an expression statement.  Augmented assignments and
self-referencing assignments reach the translator in exactly this form: `ast2ast` rewrites `a += e`
and `a = f(a)` into `__a = …; a = __a`.  `if` / `for` are unrolled by `ast2ast`, which has no Lean
model (see `C01_statement`); the guarded assignment `d = b if c else d` it leaves for an `if` reads its
own target (each bit only its own old bit) and is NOT in the fragment. -/

/-- **C01_body** – the statement level.  If the model of `translate_ast` (`Front.translate`, all listed
defects repaired) accepts a straight-line program with definition list `defs`, then for every
assignment `ρ` of the argument bits the Lean reference semantics `SemW` is defined on the program, and
the sequential evaluation of `defs` (`runDefs`) leaves in the return symbols `_ret` / `_ret.i`
exactly the bits of the `SemW` value (`return` fills or crops to the declared type).  Proof
(`QV/Proofs/Front7.lean`, `Front9.lean`): invariant `EnvInv` (every binding is a well-shaped `bool` /
`Qint` binding whose value in `σ` is what its symbols say under the current assignment) is kept by
`Env.bind` + `decompose_to_symbols` along the definition list, re-binding of a name included
(`assign_step`); a translated value does not depend on the symbols of a variable the expression does
not read (`tr_indep`, from `C01_expr` at a re-based environment), so the definitions of one
assignment can be evaluated one after the other (`seq_eval`); `Return` through `fill_spec` /
`crop_spec` (`ret_step`); definitions after the `return` leave the return symbols alone and a second
`return` is refused (`body_frame`). -/
theorem C01_body (p : Prog) (consts : List (Bool × Bool)) (hp : Sem.straightLine p = true)
    (defs : List (String × BExp)) (events : List String)
    (h : translate Quirks.none consts p = .ok (defs, events)) (ρ : Env) :
    ∃ sv, Sem.semProg p ρ = some sv ∧ (p.ret.names "_ret").map (runDefs defs ρ) = sv.bits :=
  Sem.translate_sound p consts hp defs events h ρ

/-- the hypotheses of `C01_body` are satisfiable: an augmented assignment as `ast2ast` leaves it
(`c = a; __c = c * 3; c = __c; return c - b`, cropped to `Qint[4]`) is straight-line and accepted -/
example :
    let p : Prog := ⟨[("a", .qint 2), ("b", .qint 3)], .qint 4,
      [.assign "c" (.name "a"), .assign "__c" (.bin "mul" (.name "c") (.cint 3)),
       .assign "c" (.name "__c"), .ret (.bin "sub" (.name "c") (.name "b"))]⟩
    Sem.straightLine p = true ∧ ∃ defs ev, translate Quirks.none [] p = .ok (defs, ev) := by
  refine ⟨by decide, ?_⟩
  exact ⟨_, _, rfl⟩

/-- **semW_eq_sem** – the first half of the property's first sentence, for expressions.  `Sem.sem`
(`QV/Model/SemX.lean`) is the exact python meaning (unbounded ints, no reduction); `Sem.inRange σ e`
(decidable) says it is defined and no intermediate value that flowed into the result left the range
`0 ≤ x < 2^w` of the type the typing rules give it.  On every expression in range, under
environments that agree (`Sem.EnvAgree`: every variable's fixed-width value agrees with its exact
value as far as that claims – for arguments both are the decoded bits), whatever `SemW` gives is the
exact python value. -/
theorem semW_eq_sem (σX : Sem.XEnv) (σW : Sem.SEnv) (henv : Sem.EnvAgree σX σW) (e : PExp)
    (hin : Sem.inRange σX e = true) (sv : Sem.SVal) (hw : Sem.semW σW e = some sv) :
    ∃ v, Sem.sem σX e = some ⟨v, none⟩ ∧
      ((∃ b, v = .bool b ∧ sv = .bool b) ∨
       (∃ w x, v = .int w x ∧ sv = .int w x.toNat ∧ 0 ≤ x ∧ x < (2 : Int) ^ w)) := by
  unfold Sem.inRange at hin
  split at hin
  · rename_i v hx
    refine ⟨v, hx, ?_⟩
    have ha := Sem.sem_agree σX σW henv e sv _ hw hx
    cases v with
    | bool b =>
      cases sv with
      | bool b' => exact Or.inl ⟨b, rfl, by rw [ha rfl]⟩
      | int _ _ => exact ha.elim
    | int w x =>
      cases sv with
      | bool _ => exact ha.elim
      | int w' y =>
        obtain ⟨rfl, hy, h1, _⟩ := ha
        have hxy := h1 rfl
        refine Or.inr ⟨w', x, rfl, by rw [← hxy]; rfl, by omega, ?_⟩
        rw [← hxy, ← Sem.cast_pow2]
        exact Int.ofNat_lt.mpr hy
  · cases hin

/-- **semW_low_bits** – the second half: the low-bits congruence.  Whenever both semantics give an
integer, the types agree, the fixed-width value is below `2^w`, and it is congruent to the exact
python value modulo `2^j` for every `j` within the claim `k` of the exact value (`k = none`: every
`j`, and then the values are equal; `k = some n`: `j ≤ n`, where `n` is what is left of the width
after the value passed through `+ - * & | ^ ~ <<`, constants and if-expressions with exact tests –
each of which is a homomorphism on the low bits, `Sem.intBin_agree`, `Sem.intBitwise_low` – and `0`
after a comparison, `>>` or `%` read a wrapped value). -/
theorem semW_low_bits (σX : Sem.XEnv) (σW : Sem.SEnv) (henv : Sem.EnvAgree σX σW) (e : PExp)
    (w' y w : Nat) (x : Int) (k : Option Nat) (hw : Sem.semW σW e = some (.int w' y))
    (hx : Sem.sem σX e = some ⟨.int w x, k⟩) :
    w' = w ∧ y < 2 ^ w ∧ (k = none → (y : Int) = x) ∧
      ∀ j, (∀ n, k = some n → j ≤ n) → (y : Int) % 2 ^ j = x % 2 ^ j := by
  have ha := Sem.sem_agree σX σW henv e _ _ hw hx
  obtain rfl : w' = w := ha.1
  exact ⟨rfl, ha.2.1, ha.2.2.1, fun j hj => Sem.agree_cong ha hj⟩

/-- the two semantics start from agreeing environments: the arguments decoded from their bits -/
theorem args_agree (args : List (String × Ty)) (ρ : Env) :
    Sem.EnvAgree (Sem.argsEnvX args ρ) (Sem.argsEnv args ρ) :=
  Sem.envAgree_args args ρ

/-- **C01_straightline** – the property at full strength on the straight-line fragment
(= `C01_body` + `semW_eq_sem` + `semW_low_bits`).  If `translate` accepts a straight-line program
with definition list `defs`, then for every assignment `ρ` of the argument bits: the fixed-width
meaning `sv` exists and the return symbols hold exactly its bits; and whenever the exact python
semantics `Sem` gives the program a value `xv` on the decoded arguments, `sv` agrees with it
(`Sem.Agree`: equal when `xv` is in range, congruent modulo `2^k` on the `k` low bits wrap-around
arithmetic determines otherwise), and every return bit that `xv` claims (`XVal.claim`: all bits of
the python value when in range, the low `k` bits otherwise) is the bit the definitions compute. -/
theorem C01_straightline (p : Prog) (consts : List (Bool × Bool)) (hp : Sem.straightLine p = true)
    (defs : List (String × BExp)) (events : List String)
    (h : translate Quirks.none consts p = .ok (defs, events)) (ρ : Env) :
    ∃ sv, Sem.semProg p ρ = some sv ∧ (p.ret.names "_ret").map (runDefs defs ρ) = sv.bits ∧
      ∀ xv, Sem.semProgX p ρ = some xv →
        Sem.Agree xv sv ∧
        ∀ (i : Nat) (b : Bool), xv.claim[i]? = some (some b) →
          ∀ name, (p.ret.names "_ret")[i]? = some name → runDefs defs ρ name = b := by
  obtain ⟨sv, hs, hbits⟩ := C01_body p consts hp defs events h ρ
  refine ⟨sv, hs, hbits, fun xv hx => ?_⟩
  have ha := Sem.semProg_agree p ρ sv xv hs hx
  refine ⟨ha, fun i b hc name hn => ?_⟩
  have h1 := Sem.agree_claim ha i b hc
  rw [← hbits, List.getElem?_map, hn] at h1
  simpa using h1

/-- `C01_straightline` in the shape of `C01_statement`: with `SemW p ρ :=` the claimed bits of the
exact semantics, the body of `C01_statement` holds for every straight-line program (its `InSubset`
conjunct is the hypothesis here) -/
theorem C01_statement_straightline (p : Prog) (consts : List (Bool × Bool))
    (hp : Sem.straightLine p = true) :
    match translate Quirks.none consts p with
    | .error _ => True
    | .ok (defs, _) =>
      ∀ ρ : String → Bool,
        match (Sem.semProgX p ρ).map Sem.XVal.claim with
        | none => True
        | some expected =>
          ∀ (i : Nat) (b : Bool), expected[i]? = some (some b) →
            ∀ name, (p.ret.names "_ret")[i]? = some name → runDefs defs ρ name = b := by
  split
  · trivial
  · rename_i defs ev htr
    intro ρ
    split
    · trivial
    · rename_i expected hexp
      obtain ⟨sv, _, _, hall⟩ := C01_straightline p consts hp defs ev htr ρ
      cases hx : Sem.semProgX p ρ with
      | none => simp [hx] at hexp
      | some xv =>
        simp only [hx, Option.map_some, Option.some.injEq] at hexp
        subst hexp
        exact (hall xv hx).2

/-! ## the structured types: tuples (`Qlist`, `Qmatrix`), `Qchar`

`QV/Model/SemT.lean` widens the reference semantics: `Sem.TVal` = bool | `x : Qint[w]` | `Qchar` code point |
(nested) tuple; `Sem.semT` extends `Sem.semW` (`semT_extends_semW`) with tuple literals, constant-index
subscript chains `a[i]`, `a[i][j]` (and bit `k` of a `Qint` element), `Qchar` constants, `==` / `!=` on
`Qchar` (with a `Qchar` or a `Qint`) and on tuples of one type, if-expressions over `Qchar` / tuples of one
type; arguments of every type are decoded from their bits (`Sem.decodeT`, `Sem.argsEnvT`); a returned
tuple / `Qchar` must have the declared type (`Sem.coerceRetT`; the library fills / crops `Qint` returns
only).  Denotation `Sem.DenT ρ t v sv`: a bool is one expression, a `Qint[w]` / `Qchar` a list of `w` / 8
bit expressions with that value, a tuple any list value (nested as a tuple literal builds it, flat as a
name or a subscript evaluates) whose leaves evaluate, in order, to the bits of a tuple value of type `t`.

Hypothesis `Sem.wellT σ e` (decidable; `Sem.wellProg p ρ` along a body): no sub-expression uses a `Qchar`
as an 8-bit integer - `c[i]`, `~c`, an if-expression with a `Qchar` and a `Qint` branch, a `Qchar` returned
as a `Qint` or the converse (`Sem.wellRet`) - sites the library accepts and python gives no meaning.  It
holds wherever `semW` is defined (`semT_extends_semW`).  Two further exclusions were needed while the
theorems were being proved, because the library *differed* from python there; both were repaired in /repo
and are now covered: `!=` on tuples (was "every bit differs", 6b91624) and a subscript chain that stops at
a tuple (`m[0]`: was the undefined symbol `m.0`, 6b971e4). -/

/-- **C01_expr_struct** - the translator theorem for expressions over bool / `Qint` / `Qchar` / tuples.
For every expression `e` of the fragment `Sem.inFragT` (`Sem.inFrag` plus `Qchar` constants below 256,
constant-index subscript chains with non-negative indices, tuple literals of at least two elements), every
binding environment `env` whose bindings have the bit names of their (`Sem.tyGood`) types and denote the
values `σ` gives them under `ρ` (`Sem.EnvOKT`), if no excluded site occurs (`Sem.wellT`) and the model of
`translate_expression` succeeds with type `t` and value `v`, then `SemT` is defined on `e`, the value has
the library type `t`, lies in the range of its type, and the leaves of `v` evaluate under `ρ`, in order, to
its bits (`Sem.DenT` says in addition how `v` is shaped).  Structural induction
(`QV/Proofs/FrontT1 … FrontT5.lean`): the bool / `Qint` cases are those of `C01_expr`, every other operand
type makes the translator raise; new: `Qchar` comparisons through `QintImp.eq / neq`; tuple `==` / `!=` -
the loop over the flat bit positions decides python's elementwise equality (`tupleCmp_eval`: the positions
read are all leaves because the value has exactly `bits(t)` of them, `TVal.beq_iff_bits`: two values of
one type in range are equal iff their bits are); if-expressions over `Qchar` / tuples (`iteZip_ok`); a
subscript chain selects the value decoded from the symbols its path names (`walk_index`: induction over
the path along `walkTy`; the last index may select bit `i` of a `Qint`, `testBit_valLE`). -/
theorem C01_expr_struct (ρ : Env) (env : Front.Env) (σ : Sem.TEnv) (henv : Sem.EnvOKT ρ env σ)
    (e : PExp) (hfrag : Sem.inFragT e = true) (hwell : Sem.wellT σ e = true) (s s' : St) (t : Ty) (v : Val)
    (h : (tr Quirks.none env e).run s = .ok ((t, v), s')) :
    ∃ sv, Sem.semT σ e = some sv ∧ Sem.DenT ρ t v sv ∧ sv.ty = t ∧ sv.wf = true ∧
      v.flatten.map (·.eval ρ) = sv.bits := by
  obtain ⟨sv, hs, hd⟩ := Sem.soundT_all ρ env σ henv e hfrag s t v s' hwell h
  exact ⟨sv, hs, hd, Sem.den_ty hd, Sem.den_wf hd, Sem.den_bits hd⟩

/-- the environment `translate_ast` starts from (arguments of any `tyGood` type: bool, `Qint[w]` with
`w ≥ 2`, `Qchar`, tuples of at least two such - `Qlist`, `Qmatrix`) satisfies the hypothesis of
`C01_expr_struct` with `σ` = the arguments decoded from their bits (`Sem.argsEnvT`) -/
theorem C01_expr_struct_args_env (ρ : Env) (args : List (String × Ty))
    (hargs : ∀ p ∈ args, Sem.tyGood p.2 = true) :
    Sem.EnvOKT ρ (args.foldl (fun env (n, t) => env ++ [⟨n, t, t.names n⟩]) []) (Sem.argsEnvT args ρ) :=
  Sem.envOKT_args ρ args hargs

/-- the hypotheses of `C01_expr_struct` are satisfiable: `(m[1][0] and a[1], a[0] + 1)` over
`a : Tuple[Qint[2], bool]`, `m : Qmatrix[bool, 2, 2]` is in the fragment, reaches no excluded site under
any assignment, and the translator accepts it with the type `Tuple[bool, Qint[2]]` -/
example :
    let args : List (String × Ty) :=
      [("a", .tuple [.qint 2, .bool]), ("m", .tuple [.tuple [.bool, .bool], .tuple [.bool, .bool]])]
    let e : PExp := .tuple [.boolop true [.subs "m" [1, 0], .subs "a" [1]], .bin "add" (.subs "a" [0]) (.cint 1)]
    (∀ p ∈ args, Sem.tyGood p.2 = true) ∧ Sem.inFragT e = true ∧
    (∀ ρ, Sem.wellT (Sem.argsEnvT args ρ) e = true) ∧
    ∃ v s', (tr Quirks.none (args.foldl (fun env (n, t) => env ++ [⟨n, t, t.names n⟩]) []) e).run {}
      = .ok ((.tuple [.bool, .qint 2], v), s') := by
  refine ⟨by decide, by decide, fun ρ => rfl, ?_⟩
  exact ⟨_, _, rfl⟩

/-- **C01_body_struct** - the statement level for the structured types.  `Sem.structLine p` (decidable,
`QV/Model/SemT.lean`): arguments and return of a `tyGood` type, argument names dot-free and other than
`_ret`; statements `t = e` (`e` in `Sem.inFragT`, `t` dot-free, not `_ret`, `e` does not read `t`),
`return e`, expression statements.  If `translate` accepts such a program with definition list `defs`, then
for every assignment `ρ` of the argument bits at which no excluded site is reached (`Sem.wellProg`) the
reference semantics `SemT` is defined on the program and the sequential evaluation of `defs` leaves in the
return symbols - `_ret`, `_ret.i`, `_ret.i.j` … as `translate_argument` names the bits of the declared
type - exactly the bits of the `SemT` value.  Proof (`QV/Proofs/FrontT6 … FrontT8.lean`): invariant
`EnvInvT` (every binding has the bit names `Ty.names` of its type, a dot-free name, and its value in `σ` is
the value `decodeT` reads from those symbols under the current assignment; every value of `σ` has a
`tyGood` type - `semT_good`).  The symbols of a variable `t` are `t` and everything that starts with `t.`
(`Sub`); the names of one type are pairwise different (`names_nodup`: two elements `t.i…`, `t.j…` differ in
the digits up to the next dot, `child_disjoint`) and those of two dot-free variables are disjoint
(`sub_disjoint`), so the definitions of one assignment can be run one after the other (`seq_evalT`,
with `tr_indepT`: a value that does not read `t` denotes the same under every change of the symbols of
`t`).  Assignment of a tuple value: `_nest_as_type` gives a flat value the nesting whose
`decompose_to_symbols` names are those of the type (`nestAs_spec`, `den_renest`); the new binding's value
is the one decoded from its symbols because a value in range is determined by its bits (`decode_of_bits`).
`return`: fill / crop of a `Qint`, equal type otherwise (`ret_stepT`); later definitions are named below
their targets and leave `_ret…` alone (`body_frameT`, purely structural). -/
theorem C01_body_struct (p : Prog) (consts : List (Bool × Bool)) (hp : Sem.structLine p = true)
    (defs : List (String × BExp)) (events : List String)
    (h : translate Quirks.none consts p = .ok (defs, events)) (ρ : Env) (hw : Sem.wellProg p ρ = true) :
    ∃ sv, Sem.semProgT p ρ = some sv ∧ (p.ret.names "_ret").map (runDefs defs ρ) = sv.bits :=
  Sem.translate_sound_struct p consts hp defs events h ρ hw

/-- the hypotheses of `C01_body_struct` are satisfiable:
`def f(a: Tuple[Qint[2], bool], m: Qmatrix[bool, 2, 2]) -> Tuple[bool, Qint[2]]: return (m[1][0] and a[1], a[0] + 1)`
is in the fragment, accepted, and reaches no excluded site -/
example :
    let p : Prog := ⟨[("a", .tuple [.qint 2, .bool]), ("m", .tuple [.tuple [.bool, .bool], .tuple [.bool, .bool]])],
      .tuple [.bool, .qint 2],
      [.ret (.tuple [.boolop true [.subs "m" [1, 0], .subs "a" [1]], .bin "add" (.subs "a" [0]) (.cint 1)])]⟩
    Sem.structLine p = true ∧ (∀ ρ, Sem.wellProg p ρ = true) ∧
      ∃ defs ev, translate Quirks.none [] p = .ok (defs, ev) := by
  refine ⟨by decide, fun ρ => rfl, ?_⟩
  exact ⟨_, _, rfl⟩

/-- a second one with tuple-typed variables, `Qchar` and a nested return:
`def g(c: Qchar, t: Tuple[Qint[2], Qint[2]], d: Qchar) -> Tuple[bool, Qint[2], Qchar]:`
`u = t; e = d if c == 'a' else c; return (e != d, u[1] - u[0], e)` -/
example :
    let p : Prog := ⟨[("c", .qchar), ("t", .tuple [.qint 2, .qint 2]), ("d", .qchar)],
      .tuple [.bool, .qint 2, .qchar],
      [.assign "u" (.name "t"),
       .assign "e" (.ite (.cmp "Eq" (.name "c") (.cchar 97)) (.name "d") (.name "c")),
       .ret (.tuple [.cmp "NotEq" (.name "e") (.name "d"), .bin "sub" (.subs "u" [1]) (.subs "u" [0]), .name "e"])]⟩
    Sem.structLine p = true ∧ (∀ ρ, Sem.wellProg p ρ = true) ∧
      ∃ defs ev, translate Quirks.none [] p = .ok (defs, ev) := by
  refine ⟨by decide, fun ρ => rfl, ?_⟩
  exact ⟨_, _, rfl⟩

/-- **semT_extends_semW** - the widened semantics is conservative: wherever the bool / Qint semantics gives
an expression a value (under an environment whose variables have the same values in the widened one),
`SemT` gives the same value and no excluded site is reached -/
theorem semT_extends_semW (σ : Sem.SEnv) (σT : Sem.TEnv) (hle : Sem.EnvLe σ σT) (e : PExp) (sv : Sem.SVal)
    (h : Sem.semW σ e = some sv) : Sem.semT σT e = some sv.toT ∧ Sem.wellT σT e = true :=
  Sem.semT_of_semW σ σT hle e sv h

/-- **semProgT_extends_semProg** - the same for programs on the decoded arguments: a `SemW` value is the
`SemT` value (same bits), and `wellProg` holds there - the hypothesis of `C01_body_struct` is vacuous on
the programs `C01_body` gives a meaning -/
theorem semProgT_extends_semProg (p : Prog) (ρ : Env) (sv : Sem.SVal) (h : Sem.semProg p ρ = some sv) :
    Sem.semProgT p ρ = some sv.toT ∧ sv.toT.bits = sv.bits ∧ Sem.wellProg p ρ = true :=
  ⟨(Sem.semProgT_of_semProg p ρ sv h).1, Sem.toT_bits sv, (Sem.semProgT_of_semProg p ρ sv h).2⟩

/-- **semT_agrees_sem_struct** - `semW_eq_sem` / `semW_low_bits` for the structured types.  `Sem.semXT`
(`QV/Model/SemXT.lean`) is the exact python meaning widened like `SemT`: a value is a bool / `Qint` leaf
(`XVal`: unbounded python int at the library type, with the number `k` of low bits wrap-around arithmetic
determines), a `Qchar` leaf, or a tuple of such; a subscript selects python's bit `i` of the exact value,
`==` / `!=` compare the exact leaves, an if-expression with an inexact test claims nothing.  On every
expression on which both are defined, under environments that agree, the fixed-width value agrees with the
exact one leaf by leaf (`Sem.AgreeT`: `Sem.Agree` on bool / `Qint` leaves - equal when in range, congruent
modulo `2^j` for every `j` within the claim otherwise; equal `Qchar`s when claimed).  Structural induction
with one lemma per operator (`QV/Proofs/FrontX1 … FrontX3.lean`); the bool / `Qint` operators through the
lemmas of `Sem.sem_agree` (`mkInt_agree`, `intBin_agree`, …), new: `index_agree` (`bit_cong`: agreement on
more than `i` low bits gives python's bit `i`), `cmpT_agree` (`beq_agree`: exact leaves equal iff the
fixed-width ones are), `iteT_agree` (`undet_agree`). -/
theorem semT_agrees_sem_struct (σX : Sem.XTEnv) (σW : Sem.TEnv) (henv : Sem.EnvAgreeT σX σW) (e : PExp)
    (sv : Sem.TVal) (xv : Sem.XT) (hw : Sem.semT σW e = some sv) (hx : Sem.semXT σX e = some xv) :
    Sem.AgreeT xv sv :=
  Sem.semT_agree σX σW henv e sv xv hw hx

/-- **C01_straightline_struct** - the property at full strength on the widened straight-line fragment
(= `C01_body_struct` + `semT_agrees_sem_struct`).  If `translate` accepts a program of `Sem.structLine`
with definition list `defs`, then for every assignment `ρ` of the argument bits at which no excluded site is
reached: the fixed-width meaning `sv` (bool, `Qint`, `Qchar` or nested tuple) exists and the return symbols
hold exactly its bits; and whenever the widened exact python semantics gives the program a value `xv` on
the decoded arguments, `sv` agrees with it leaf by leaf, and every return bit that `xv` claims (`XT.claim`:
per leaf all bits of the python value when in range, the low `k` bits otherwise) is the bit the definitions
compute. -/
theorem C01_straightline_struct (p : Prog) (consts : List (Bool × Bool)) (hp : Sem.structLine p = true)
    (defs : List (String × BExp)) (events : List String)
    (h : translate Quirks.none consts p = .ok (defs, events)) (ρ : Env) (hw : Sem.wellProg p ρ = true) :
    ∃ sv, Sem.semProgT p ρ = some sv ∧ (p.ret.names "_ret").map (runDefs defs ρ) = sv.bits ∧
      ∀ xv, Sem.semProgXT p ρ = some xv →
        Sem.AgreeT xv sv ∧
        ∀ (i : Nat) (b : Bool), xv.claim[i]? = some (some b) →
          ∀ name, (p.ret.names "_ret")[i]? = some name → runDefs defs ρ name = b := by
  obtain ⟨sv, hs, hbits⟩ := C01_body_struct p consts hp defs events h ρ hw
  refine ⟨sv, hs, hbits, fun xv hx => ?_⟩
  have ha := Sem.semProgT_agree p ρ sv xv hs hx
  refine ⟨ha, fun i b hc name hn => ?_⟩
  have h1 := Sem.agreeT_claim xv sv ha i b hc
  rw [← hbits, List.getElem?_map, hn] at h1
  simpa using h1

/-- `C01_straightline_struct` in the shape of `C01_statement`: with `SemW p ρ :=` the claimed bits of the
widened exact semantics where no excluded site is reached (`none` = nothing claimed elsewhere), the body of
`C01_statement` holds for every program of `Sem.structLine` -/
theorem C01_statement_struct (p : Prog) (consts : List (Bool × Bool)) (hp : Sem.structLine p = true) :
    match translate Quirks.none consts p with
    | .error _ => True
    | .ok (defs, _) =>
      ∀ ρ : String → Bool,
        match (if Sem.wellProg p ρ then (Sem.semProgXT p ρ).map Sem.XT.claim else none) with
        | none => True
        | some expected =>
          ∀ (i : Nat) (b : Bool), expected[i]? = some (some b) →
            ∀ name, (p.ret.names "_ret")[i]? = some name → runDefs defs ρ name = b := by
  split
  · trivial
  · rename_i defs ev htr
    intro ρ
    split
    · trivial
    · rename_i expected hexp
      by_cases hw : Sem.wellProg p ρ = true
      · simp only [hw, if_true] at hexp
        obtain ⟨sv, _, _, hall⟩ := C01_straightline_struct p consts hp defs ev htr ρ hw
        cases hx : Sem.semProgXT p ρ with
        | none => simp [hx] at hexp
        | some xv =>
          simp only [hx, Option.map_some, Option.some.injEq] at hexp
          subst hexp
          exact (hall xv hx).2
      · simp [hw] at hexp

/-! ## guarded assignments: what `ast2ast` leaves for an `if`

`ASTRewriter.visit_If` builds `d = b if _iftargN else d` (if branch), `d = d if _iftargN else b` (else
branch) and nests them for `elif` / an `if` in an else branch.  Such an assignment *reads its own target*:
`Sem.straightLine` excludes it.  `Sem.guardedLine` (decidable, `QV/Model/Frag.lean`) accepts every
right-hand side `Sem.guardedRhs t e`: a tree of if-expressions whose tests are variables other than `t`
and whose leaves are `t` itself or fragment expressions that do not read `t` (every expression that does
not read `t` is such a tree: `guardedLine_of_straightLine`). -/

/-- **C01_body_guarded** – `C01_body` for the guarded fragment.  The definitions `t.0 := …; t.1 := …` of one
assignment are evaluated one after the other, so bit `i` of a right-hand side that reads `t` sees new values
in `t.0 … t.(i-1)`.  Proof (`QV/Proofs/Front11.lean`): bit `i` of the translated value of a `guardedRhs`
evaluates the same under every assignment that differs from the current one only on `t.j`, `j < i`
(`LowBits`, `low_of_guarded`: by recursion on the tree – a leaf `t` translates to the symbols `t.0 t.1 …`
themselves, any other leaf does not depend on the symbols of `t` at all (`tr_indep`), an if-expression
on a variable `g ≠ t` is `ITE(g, x_i, y_i)` bit by bit after `fill` (`tr_ite_inv`)); the sequential
evaluation then produces, in `t.0 …`, the bits the value had before the first definition ran
(`seq_eval_low`), which is what keeps the invariant `EnvInv` (`bind_value_low`, `assign_step_g`); the
induction over the body is the one of `C01_body`. -/
theorem C01_body_guarded (p : Prog) (consts : List (Bool × Bool)) (hp : Sem.guardedLine p = true)
    (defs : List (String × BExp)) (events : List String)
    (h : translate Quirks.none consts p = .ok (defs, events)) (ρ : Env) :
    ∃ sv, Sem.semProg p ρ = some sv ∧ (p.ret.names "_ret").map (runDefs defs ρ) = sv.bits :=
  Sem.translate_sound_g p consts hp defs events h ρ

/-- every straight-line program is in the guarded fragment -/
theorem guarded_of_straightLine (p : Prog) (h : Sem.straightLine p = true) : Sem.guardedLine p = true :=
  Sem.guardedLine_of_straightLine p h

/-- the hypotheses of `C01_body_guarded` are satisfiable, and not only by straight-line programs: the tree
`ast2ast` produces for the latch `if a: a = False; r = r + 1` (then `return r`) is guarded, is **not**
straight-line, and is accepted -/
example :
    let p : Prog := ⟨[("a", .bool), ("r", .qint 2)], .qint 2,
      [.assign "_iftarg2" (.name "a"),
       .assign "a" (.ite (.name "_iftarg2") (.cbool false) (.name "a")),
       .assign "__r" (.ite (.name "_iftarg2") (.bin "add" (.name "r") (.cint 1)) (.name "r")),
       .assign "r" (.ite (.name "_iftarg2") (.name "__r") (.name "r")),
       .ret (.name "r")]⟩
    Sem.guardedLine p = true ∧ Sem.straightLine p = false ∧
      ∃ defs ev, translate Quirks.none [] p = .ok (defs, ev) := by
  refine ⟨by decide, by decide, ?_⟩
  exact ⟨_, _, rfl⟩

/-- **C01_guarded** – `C01_straightline` for the guarded fragment: the return symbols hold the bits of the
fixed-width meaning of the rewritten program, which agrees with the exact python meaning `Sem` of the same
(rewritten) program on every bit that claims (`Sem.semProg_agree` needs no hypothesis on the statements) -/
theorem C01_guarded (p : Prog) (consts : List (Bool × Bool)) (hp : Sem.guardedLine p = true)
    (defs : List (String × BExp)) (events : List String)
    (h : translate Quirks.none consts p = .ok (defs, events)) (ρ : Env) :
    ∃ sv, Sem.semProg p ρ = some sv ∧ (p.ret.names "_ret").map (runDefs defs ρ) = sv.bits ∧
      ∀ xv, Sem.semProgX p ρ = some xv →
        Sem.Agree xv sv ∧
        ∀ (i : Nat) (b : Bool), xv.claim[i]? = some (some b) →
          ∀ name, (p.ret.names "_ret")[i]? = some name → runDefs defs ρ name = b := by
  obtain ⟨sv, hs, hbits⟩ := C01_body_guarded p consts hp defs events h ρ
  refine ⟨sv, hs, hbits, fun xv hx => ?_⟩
  have ha := Sem.semProg_agree p ρ sv xv hs hx
  refine ⟨ha, fun i b hc name hn => ?_⟩
  have h1 := Sem.agree_claim ha i b hc
  rw [← hbits, List.getElem?_map, hn] at h1
  simpa using h1

/-! ## `ast2ast`: the rewriting of `if` statements preserves the source-level meaning

`QV/Model/Ast2Ast.lean` models the pass statement by statement (`A2A.ast2ast`; compared tree for tree with the
real pass on every run).  `QV/Model/SemSrc.lean` gives the *source* tree a meaning with control flow
(`A2A.execProg`): an `if` evaluates its test once, to a value, before any statement of a branch runs; the
branch whose polarity the value has runs, the other changes no value (`A2A.exec` under a guard stack;
an assignment under the stack stores `wrapW gs new old`); a `for` assigns the loop variable each value in turn and
runs the body in the environment so extended, then runs its `else` suite once (the subset has no `break`).  Class `A2A.okProg` (decidable): user names, statements `t = e`,
`t op= e` (every operator but `**`), `if` / `elif` / `else` nested to any depth through else branches (no loop
inside an `if`), `for v in <range of int literals | tuple | list of int / bool literals>` nested to any depth with
`if`s inside, expression statements and `return e` at the top level, `e` plain (`A2A.plainE`: user variables,
bool / int constants, `not`, `~`, `and` / `or`, if-expressions, comparisons, binary operators, shifts by a
literal). -/

open QV.A2A in
/-- **skipped_branch_keeps_values** – the guard-stack semantics is control flow.  Under a stack one of whose guards
does not hold, whatever a statement does (assignments, loops, nested `if`s) leaves every variable with the python
value it had (`SameVals`: same bool, same integer – its `Qint` type may have been widened, the library's typing of
`new if g else old`). -/
theorem skipped_branch_keeps_values (s : SStmt) (gs : List (Sem.SVal × Bool)) (hg : allHold gs = false)
    (σ σ' : Sem.SEnv) (h : exec gs σ s = some σ') : SameVals σ σ' :=
  exec_skipped_keeps_values s gs hg σ σ' h

open QV.A2A in
/-- **if_one_branch** – an `if` evaluates its test once, to `g`, and the statements of the branch `g` does not
select change no value; an assignment under guards that all hold stores the value of its right-hand side
(`wrapW_taken`) -/
theorem if_one_branch (gs : List (Sem.SVal × Bool)) (σ σ1 σ' : Sem.SEnv) (c : SExp) (b e : List SStmt) (g : Bool)
    (hc : Sem.semW σ (toP c) = some (.bool g)) (hb : execList (gs ++ [(.bool g, true)]) σ b = some σ1)
    (he : execList (gs ++ [(.bool g, false)]) σ1 e = some σ') :
    exec gs σ (.ifs c b e) = some σ' ∧ (g = false → SameVals σ σ1) ∧ (g = true → SameVals σ1 σ') ∧
      ∀ (v o w : Sem.SVal), allHold gs = true → wrapW gs v o = some w → sameVal (some v) (some w) := by
  obtain ⟨h1, h2, h3⟩ := if_runs_one_branch gs σ σ1 σ' c b e g hc hb he
  exact ⟨h1, h2, h3, fun v o w hh hw => wrapW_taken gs hh v o w hw⟩

open QV.A2A in
/-- **ast2ast_if_preserved** (`if` **and** `for`) – running the rewritten straight-line list under `Sem.semProg` gives the value
the source has under `execProg`: whenever the former is defined.  (An `if` in the *body* of an `if` makes the
rewritten list read `_iftargN` before it is defined; such programs are outside `okProg`.)  Proof
(`QV/Proofs/A2A1 … A2A6.lean`): simulation `ml_stmt` / `ml_list` by induction over the statement: the list
the rewriter returns for a statement, wrapped in the guards `Γ` of the enclosing `if`s (`wrapF`, what the
enclosing `visit_If` calls do to it afterwards), run from an environment that agrees with the source
environment on the user variables (`Rel`), ends in such an environment, and the source environment is the
one `exec` computes under the values of the guards; the guard variables are not touched (`Frame`; their names
`_iftarg<hex n>` differ for different `n`: `iftargName_inj`).  One assignment: `assign_sim` – the if-expression
chain `wrapE` evaluates to `wrapW` of the guard values (`semW_wrapE`); the pair `__t = …; t = __t` stores the
same value because wrapping twice is wrapping once (`wrapW_idem`, from the closed form `wrapW_closed`).
Loops: the rewriter is run with the list `θ` of replacements of the enclosing loop variables (`NameValReplacer`,
applied lazily); the invariant `ThetaOK θ σ` says each replaced variable holds, in the source environment, the
constant it is replaced by, so the replaced expression has the value of the original (`substE_sem`; a shift amount
must be a literal because `semW` reads it from the syntax); a target that is a loop variable becomes a constant and
the real pass raises (`substE_name`), hence no assignment breaks the invariant; `forLoop_ml` is the induction over
the values. -/
theorem ast2ast_if_preserved (p : SProg) (hp : okProg p = true) (L : List SStmt) (st : RSt)
    (h : (rwSs [] p.body).run (initSt (aargsOf p)) = .ok (L, st)) (ρ : String → Bool) (sv : Sem.SVal)
    (hsem : Sem.semProg ⟨p.args, p.ret, L.map toStmt⟩ ρ = some sv) : execProg p ρ = some sv :=
  rewrite_preserved p hp L st h ρ sv hsem

open QV.A2A in
/-- **ast2ast_preserved_eq** – both directions: for the programs of `okProg` the fixed-width meaning of the rewritten
straight-line program *is* the source-level meaning - both undefined, or both defined and equal - under every
assignment of the argument bits; every nesting depth, every number of iterations.  The converse of
`ast2ast_if_preserved` (`QV/Proofs/A2A8.lean`: `semW_wrapE_conv`, `assign_sim_conv`, `mlc_stmt` / `mlc_list`,
`forLoop_mlc`, `body_preserved_conv`) mirrors the first direction. -/
theorem ast2ast_preserved_eq (p : SProg) (hp : okProg p = true) (L : List SStmt) (st : RSt)
    (h : (rwSs [] p.body).run (initSt (aargsOf p)) = .ok (L, st)) (ρ : String → Bool) :
    Sem.semProg ⟨p.args, p.ret, L.map toStmt⟩ ρ = execProg p ρ :=
  rewrite_preserved_eq p hp L st h ρ

open QV.A2A in
/-- the list the statement rewriter returns is the result of the whole pass `ast2ast` when the two
constant-folding passes and the multi-target pass have nothing to do -/
theorem ast2ast_of_rw (aargs : Args) (ret : Option SExp) (body L : List SStmt) (st : RSt)
    (hres : rejectReserved (aargs.map (·.1)) body = .ok ()) (hf1 : foldSs body = .ok body)
    (hargs : replaceArgs aargs = .ok aargs) (hret : replaceRet ret = .ok ret)
    (hann : visitAnns (initSt aargs) (aargs.map (·.2)) = .ok ())
    (hmt : mtSs body = .ok body) (hrw : (rwSs [] body).run (initSt aargs) = .ok (L, st))
    (hvr : visitRet st ret = .ok ())
    (hf2 : foldSs L = .ok L) : ∃ log, ast2ast aargs ret body = .ok (L, log) := by
  have : ast2ast aargs ret body = .ok (L, st.log ++ (if body != body then ["fold-pre"] else [])
      ++ (if body != body then ["multitarget"] else []) ++ (if L != L then ["fold-post"] else [])) := by
    unfold ast2ast
    simp only [hres, hf1, hargs, hret, hann, hmt, hrw, hvr, hf2, bind, Except.bind, pure, Except.pure]
  exact ⟨_, this⟩

open QV.A2A in
/-- **C01_if** – end to end for programs with `if`.  Source program `p` in `okProg`; `L` the list the statement
rewriter returns, which is the output of the whole pass `ast2ast` (nothing to fold, no tuple targets); the
rewritten program in the guarded fragment (`Sem.guardedLine`, decidable: it holds when every self-reading
assignment went through its `__` temporary) and accepted by `translate`.  Then for every assignment `ρ` of the
argument bits the **source-level** meaning `execProg p ρ` is defined and the sequential evaluation of the
definitions leaves exactly its bits in the return symbols; and every bit the exact python semantics of the
rewritten program claims is that bit (`C01_guarded`). -/
theorem C01_if (p : SProg) (hp : okProg p = true) (L : List SStmt) (st : RSt)
    (hres : rejectReserved ((aargsOf p).map (·.1)) p.body = .ok ()) (hf1 : foldSs p.body = .ok p.body)
    (hmt : mtSs p.body = .ok p.body)
    (hrw : (rwSs [] p.body).run (initSt (aargsOf p)) = .ok (L, st)) (hf2 : foldSs L = .ok L)
    (consts : List (Bool × Bool)) (hg : Sem.guardedLine ⟨p.args, p.ret, L.map toStmt⟩ = true)
    (defs : List (String × BExp)) (events : List String)
    (htr : translate Quirks.none consts ⟨p.args, p.ret, L.map toStmt⟩ = .ok (defs, events)) (ρ : Env) :
    (∃ log, ast2ast (aargsOf p) (some (tyAnn p.ret)) p.body = .ok (L, log)) ∧
    ∃ sv, execProg p ρ = some sv ∧ (p.ret.names "_ret").map (runDefs defs ρ) = sv.bits ∧
      ∀ xv, Sem.semProgX ⟨p.args, p.ret, L.map toStmt⟩ ρ = some xv →
        Sem.Agree xv sv ∧
        ∀ (i : Nat) (b : Bool), xv.claim[i]? = some (some b) →
          ∀ name, (p.ret.names "_ret")[i]? = some name → runDefs defs ρ name = b := by
  refine ⟨ast2ast_of_rw _ _ _ L st hres hf1 (replaceArgs_aargsOf p) (replaceRet_tyAnn p.ret)
    (visitAnns_aargsOf _ p) hmt hrw (visitRet_tyAnn st p.ret) hf2, ?_⟩
  obtain ⟨sv, hs, hbits, hx⟩ := C01_guarded ⟨p.args, p.ret, L.map toStmt⟩ consts hg defs events htr ρ
  exact ⟨sv, ast2ast_if_preserved p hp L st hrw ρ sv hs, hbits, hx⟩

open QV.A2A in
/-- the hypotheses of `C01_if` are satisfiable: the latch `if a: a = False; r = r + 1` followed by an `elif`
chain that re-assigns what its tests read -/
example :
    let p : SProg := ⟨[("a", .bool), ("r", .qint 2)], .qint 2,
      [.ifs (.name "a")
         [.assign [.name "a"] (.const (.bool false)), .assign [.name "r"] (.bin "Add" (.name "r") (.const (.int 1)))]
         [],
       .ifs (.cmp "Gt" (.name "r") (.const (.int 2)))
         [.aug (.name "r") "Sub" (.const (.int 1))]
         [.ifs (.unop "Not" (.name "a")) [.assign [.name "a"] (.cmp "Eq" (.name "r") (.const (.int 0)))]
            [.assign [.name "r"] (.const (.int 3))]],
       .ret (some (.name "r"))]⟩
    okProg p = true ∧ rejectReserved ((aargsOf p).map (·.1)) p.body = .ok () ∧ foldSs p.body = .ok p.body ∧
      mtSs p.body = .ok p.body ∧
      ∃ L st, (rwSs [] p.body).run (initSt (aargsOf p)) = .ok (L, st) ∧ foldSs L = .ok L ∧
        Sem.guardedLine ⟨p.args, p.ret, L.map toStmt⟩ = true ∧
        ∃ defs ev, translate Quirks.none [] ⟨p.args, p.ret, L.map toStmt⟩ = .ok (defs, ev) := by
  refine ⟨by decide, rfl, rfl, rfl, _, _, rfl, rfl, by decide, _, _, rfl⟩

open QV.A2A in
/-- **C01_for** – `C01_if` is stated for `okProg`, which admits loops: this is the same statement, named for the
loop case.  A `for` over a literal `range` / tuple / list is unrolled, the loop variable is assigned and replaced by
each value, and the `else` suite follows the last iteration (`visit_For`, since the repair 67bd58c); the source-level
meaning `execProg` iterates in the environment and then runs the `else` suite.  The hypothesis
`foldSs L = .ok L` excludes bodies in which a replaced loop variable meets another constant (`s + (i + 1)`): there
the second constant-folding pass computes on python ints what `semW` would compute at the constant's `Qint` type. -/
theorem C01_for (p : SProg) (hp : okProg p = true) (L : List SStmt) (st : RSt)
    (hres : rejectReserved ((aargsOf p).map (·.1)) p.body = .ok ()) (hf1 : foldSs p.body = .ok p.body)
    (hmt : mtSs p.body = .ok p.body)
    (hrw : (rwSs [] p.body).run (initSt (aargsOf p)) = .ok (L, st)) (hf2 : foldSs L = .ok L)
    (consts : List (Bool × Bool)) (hg : Sem.guardedLine ⟨p.args, p.ret, L.map toStmt⟩ = true)
    (defs : List (String × BExp)) (events : List String)
    (htr : translate Quirks.none consts ⟨p.args, p.ret, L.map toStmt⟩ = .ok (defs, events)) (ρ : Env) :
    (∃ log, ast2ast (aargsOf p) (some (tyAnn p.ret)) p.body = .ok (L, log)) ∧
    ∃ sv, execProg p ρ = some sv ∧ (p.ret.names "_ret").map (runDefs defs ρ) = sv.bits :=
  let ⟨h1, sv, h2, h3, _⟩ := C01_if p hp L st hres hf1 hmt hrw hf2 consts hg defs events htr ρ
  ⟨h1, sv, h2, h3⟩

open QV.A2A in
/-- the hypotheses of `C01_for` are satisfiable: a loop over `range(1, 3)` with an augmented assignment that reads
the loop variable, an `if` / `else` whose test reads it and whose branch re-assigns the test's variable, and an `else`
suite of the loop -/
example :
    let p : SProg := ⟨[("a", .bool), ("r", .qint 2)], .qint 2,
      [.for_ (.name "i") (.call "range" [.const (.int 1), .const (.int 3)])
         [.aug (.name "r") "Add" (.name "i"),
          .ifs (.cmp "Gt" (.name "r") (.name "i"))
            [.assign [.name "r"] (.bin "BitXor" (.name "r") (.name "i")), .assign [.name "a"] (.unop "Not" (.name "a"))]
            [.assign [.name "a"] (.const (.bool true))]]
         [.aug (.name "r") "Add" (.const (.int 1))],
       .ret (some (.ite (.name "a") (.name "r") (.name "i")))]⟩
    okProg p = true ∧ rejectReserved ((aargsOf p).map (·.1)) p.body = .ok () ∧ foldSs p.body = .ok p.body ∧
      mtSs p.body = .ok p.body ∧
      ∃ L st, (rwSs [] p.body).run (initSt (aargsOf p)) = .ok (L, st) ∧ foldSs L = .ok L ∧
        Sem.guardedLine ⟨p.args, p.ret, L.map toStmt⟩ = true ∧
        ∃ defs ev, translate Quirks.none [] ⟨p.args, p.ret, L.map toStmt⟩ = .ok (defs, ev) := by
  refine ⟨by decide, rfl, rfl, rfl, _, _, rfl, rfl, by decide, _, _, rfl⟩

/-! ## `ast2ast`: the expression-level rewrites (variable indices, builtins over tuples and matrix rows)

`A2A.visitE` models `visit_Subscript` (`create_if_exp`), `__unroll_arg` and `visit_Call` on the source tree
(`QV/Model/Ast2Ast.lean`; compared tree for tree with the real pass on every run, 396 systematic forms).  The theorems
below say what these rewrites return for `Qlist` / `Qmatrix` / `Tuple` typed variables of **every shape** and that the
returned expressions mean python's indexing / `len` / `sum` / `all` / `any` on the decoded element values
(`pyIndex1`, `pyIndex2`, `pySum`, `pyAll`, `pyAny` of `QV/Model/SemSrc.lean`).  `Sem.semW` gives a subscript of a
tuple-typed variable no value of its own (only `bool` / `Qint` variables have values), so the meaning is stated for an
arbitrary family `acc` of expressions standing for the element accesses `L[a]` / `L[a][b]`, whose values are the decoded
elements: the rewritten expression is exactly the chain over the accesses (`toP … = chain…P (subscripts)`), and the chain
over any stand-ins has python's meaning.  All `…_partial`: they cover the rewritten form at the top of an expression, not
yet inside the induction of `ast2ast_if_preserved`. -/

open QV.A2A in
/-- what `ReplaceTypeAnn` makes of `Qlist[T, n]` and `Qmatrix[T, n, m]`: the types `visit_Subscript` / `__unroll_arg`
find in the environment (`n` rows, each a bare tuple of `m` elements); the element annotation is elaborated first, so
containers nest (`Qlist[Qlist[T, m], n]`), and a one-element `Tuple[bool]` is a one-element tuple type (f3ecbf2) -/
theorem qmatrix_type (T T' : SExp) (n m : Nat) (hT : replaceAnn T = .ok T') :
    replaceAnn (qlistAnn T n) = .ok (listTy T' n) ∧ replaceAnn (qmatrixAnn T n m) = .ok (matrixTy T' n m) ∧
    replaceAnn (qlistAnn (qlistAnn T m) n) = .ok (listTy (listTy T' m) n) ∧
    replaceAnn (.sub (.name "Tuple") (.name "bool")) = .ok (listTy (.name "bool") 1) :=
  ⟨replaceAnn_qlist T T' n hT, replaceAnn_qmatrix T T' n m hT, replaceAnn_qlist_qlist T T' n m hT,
    replaceAnn_tuple1_bool⟩

open QV.A2A in
/-- **C01_index1_partial** – `t[i]` with a variable index.  For a variable whose type has `n + 1` elements (`Qlist[T, n+1]`,
`Tuple[…]`) and an index variable that is no constant of the environment, `visit_Subscript` returns the if-chain
`t[0] if i == 0 else … else t[n]` of `create_if_exp`; and for every value `x ≤ n` of the index the chain, over any
expressions `acc a` that hold the decoded elements `vals` (all of one type), has the value `pyIndex1 vals x`. -/
theorem C01_index1_partial (st : RSt) (t i : String) (hd : String) (es : List SExp) (n : Nat) (hes : es.length = n + 1)
    (hty : lookup st.types t = some (.ann (.sub (.name hd) (.tuple es)))) (hi : lookup st.consts i = none) :
    (∃ E, visitE st (.sub (.name t) (.name i)) = .ok E ∧
      toP E = chain1P (fun a => .subs t [(a : Int)]) i 0 n) ∧
    ∀ (σ : Sem.SEnv) (acc : Nat → PExp) (vals : List Sem.SVal) (Tv : Option Nat) (wi x : Nat),
      σ i = some (.int wi x) → x ≤ n → n < 65536 →
      (∀ a, a ≤ n → ∃ v, pyIndex1 vals a = some v ∧ Sem.semW σ (acc a) = some v ∧ tyOf v = Tv) →
      Sem.semW σ (chain1P acc i 0 n) = pyIndex1 vals x := by
  refine ⟨⟨_, visitE_index1 st t i n (by rw [lenOfType_ann st t hd es hty, hes]) hi, toP_ifChain1 t i 0 n⟩, ?_⟩
  intro σ acc vals Tv wi x hσ hx hn hacc
  obtain ⟨vx, hvx, _, _⟩ := hacc x hx
  rw [chain1_selects σ acc (fun a => (pyIndex1 vals a).getD (.bool false)) Tv i wi x n hσ hx hn (fun a ha => by
    obtain ⟨v, hv, hs, ht⟩ := hacc a ha
    simp only [hv, Option.getD_some]
    exact ⟨hs, ht⟩)]
  simp only [hvx, Option.getD_some]

open QV.A2A in
/-- **C01_index2_partial** – `m[i][j]` with two variable indices, **every shape**.  For a variable of type
`Qmatrix[T, n+1, m+1]` (any `n`, `m`: square or not) `visit_Subscript` returns the if-chain of `create_if_exp` over the
positions `(0,0) … (n, m)` row by row; and for every pair of index values `x ≤ n`, `y ≤ m` the chain, over any
expressions `acc a b` that hold the decoded elements `rows` (all of one type), has the value `pyIndex2 rows x y`: the
chain selects exactly element `[x][y]`, reads every element of the matrix and nothing else.  (This is the statement the
defects `C01-qmatrix-maxj` and `C01-matrix-row-length` violated: with the number of columns taken from the number of
rows, a `2 x 3` matrix never reached column 2 and a `3 x 2` matrix asked for the access `[a][2]`.) -/
theorem C01_index2_partial (st : RSt) (L i j : String) (T : SExp) (n m : Nat)
    (hty : lookup st.types L = some (.ann (matrixTy T (n + 1) (m + 1)))) (hj : lookup st.consts j = none) :
    (∃ E, visitE st (.sub (.sub (.name L) (.name i)) (.name j)) = .ok E ∧
      toP E = chain2P (fun a b => .subs L [(a : Int), (b : Int)]) i j (positions (n + 1) (m + 1))) ∧
    ∀ (σ : Sem.SEnv) (acc : Nat → Nat → PExp) (rows : List (List Sem.SVal)) (Tv : Option Nat) (wi wj x y : Nat),
      σ i = some (.int wi x) → σ j = some (.int wj y) → x ≤ n → y ≤ m → n + 1 < 65536 → m + 1 < 65536 →
      (∀ a b, a ≤ n → b ≤ m → ∃ v, pyIndex2 rows a b = some v ∧ Sem.semW σ (acc a b) = some v ∧ tyOf v = Tv) →
      Sem.semW σ (chain2P acc i j (positions (n + 1) (m + 1))) = pyIndex2 rows x y := by
  refine ⟨⟨_, visitE_index2 st L i j n m (dimsOfType_matrix st L T n (m + 1) hty) hj, toP_ifChain2 L i j _⟩, ?_⟩
  intro σ acc rows Tv wi wj x y hσi hσj hx hy hn hm hacc
  obtain ⟨vxy, hvxy, _, _⟩ := hacc x y hx hy
  rw [chain2_selects σ acc (fun a b => (pyIndex2 rows a b).getD (.bool false)) Tv i j wi wj x y (n + 1) (m + 1)
    hσi hσj (by omega) (by omega) hn hm (fun a b ha hb => by
      obtain ⟨v, hv, hs, ht⟩ := hacc a b (by omega) (by omega)
      simp only [hv, Option.getD_some]
      exact ⟨hs, ht⟩)]
  simp only [hvxy, Option.getD_some]

open QV.A2A in
/-- the hypotheses of `C01_index2_partial` are satisfiable, on a `2 x 3` matrix: with the elements held by the variables
`m.a.b` (the names the translator gives the bits of such an argument), index values `(1, 2)` select `m.1.2` -/
example :
    let σ : Sem.SEnv := fun s =>
      if s = "i" then some (.int 2 1) else if s = "j" then some (.int 2 2)
      else if s = "m.0.0" then some (.bool true) else if s = "m.0.1" then some (.bool false)
      else if s = "m.0.2" then some (.bool false) else if s = "m.1.0" then some (.bool false)
      else if s = "m.1.1" then some (.bool false) else if s = "m.1.2" then some (.bool true) else none
    let acc : Nat → Nat → PExp := fun a b => .name s!"m.{a}.{b}"
    let st : RSt := initSt [("m", matrixTy (.name "bool") 2 3), ("i", .sub (.name "Qint") (.const (.int 2))),
      ("j", .sub (.name "Qint") (.const (.int 2)))]
    lookup st.types "m" = some (.ann (matrixTy (.name "bool") 2 3)) ∧ lookup st.consts "j" = none ∧
      Sem.semW σ (chain2P acc "i" "j" (positions 2 3)) = some (.bool true) ∧
      pyIndex2 [[.bool true, .bool false, .bool false], [.bool false, .bool false, .bool true]] 1 2 = some (.bool true) := by
  refine ⟨rfl, rfl, by decide, rfl⟩

open QV.A2A in
/-- **C01_unroll_partial** – `__unroll_arg`: a tuple-typed name unrolls into its elements `t[0] … t[n-1]`; a row `L[c]` of
a variable whose type is a tuple of rows unrolls into `L[c][0] … L[c][k-1]` with `k` the length of **that row** (for
`Qmatrix[T, n, m]`: `m`, whatever `n`; the repaired `C01-matrix-row-length`); for `len` / `sum` / `any` / `all` /
one-argument `min` / `max` (`strict`) an if-expression - what a row `m[i]` with a *variable* index has become when the
argument is unrolled - is refused (the repaired `C01-len-variable-row`: it used to count as one element) -/
theorem C01_unroll_partial (st : RSt) (t L : String) (es : List SExp) (T : SExp) (n m c : Nat)
    (ht : lookup st.types t = some (.ann (.sub (.name "Tuple") (.tuple es))))
    (hL : lookup st.types L = some (.ann (matrixTy T n m))) (hc : c < n) :
    (∀ strict, unrollArg st strict (.name t) = .ok (elems1 t es.length)) ∧
    (∀ strict, unrollArg st strict (.sub (.name L) (.const (.int c))) = .ok (elems2 L c m)) ∧
    (∀ c' a b, unrollArg st true (.ite c' a b) = .error (.exc "Exception" "Not an iterable of known length")) ∧
    toPs (elems1 t es.length) = (List.range es.length).map (fun (a : Nat) => PExp.subs t [(a : Int)]) ∧
    toPs (elems2 L c m) = (List.range m).map (fun (b : Nat) => PExp.subs L [(c : Int), (b : Int)]) :=
  ⟨unrollArg_name st t es ht, unrollArg_matrix_row st L T n m c hc hL, unrollArg_strict_ite st,
    toPs_elems1 t _, toPs_elems2 L c m⟩

open QV.A2A in
/-- **C01_builtins_row_partial** – `len`, `sum`, `all`, `any` over a matrix row `L[c]` (`L : Qmatrix[T, n, m]`, `c < n`):
`len` becomes the constant `m`; `sum` the chain `L[c][0] + (L[c][1] + …)`; `all` / `any` the conjunction / disjunction of
the `m` elements of the row.  And their meanings, for any expressions that hold the decoded elements of the row: `len`
evaluates to `m`; the `+` chain over `Qint[w]` values below `2^w` to `pySum w` of them; the conjunction / disjunction to
`pyAll` / `pyAny` of the bools. -/
theorem C01_builtins_row_partial (st : RSt) (L : String) (T : SExp) (n m c : Nat) (hc : c < n)
    (hL : lookup st.types L = some (.ann (matrixTy T n m))) :
    visitE st (.call "len" [.sub (.name L) (.const (.int c))]) = .ok (.const (.int m)) ∧
    visitE st (.call "sum" [.sub (.name L) (.const (.int c))]) = sumChain (elems2 L c m) ∧
    visitE st (.call "all" [.sub (.name L) (.const (.int c))]) = .ok (.boolop true (elems2 L c m)) ∧
    visitE st (.call "any" [.sub (.name L) (.const (.int c))]) = .ok (.boolop false (elems2 L c m)) ∧
    (∀ x xs, sumChain (x :: xs) = .ok (sumE x xs) ∧ toP (sumE x xs) = sumP (toP x) (toPs xs)) ∧
    (m < 65536 → ∀ σ, ∃ w, Sem.semW σ (toP (.const (.int m))) = some (.int w m)) ∧
    (∀ (σ : Sem.SEnv) (w : Nat) (e : PExp) (es : List PExp) (v : Nat) (vs : List Nat),
      List.Forall₂ (fun e v => Sem.semW σ e = some (.int w v) ∧ v < 2 ^ w) (e :: es) (v :: vs) →
      Sem.semW σ (sumP e es) = some (pySum w (v :: vs))) ∧
    (∀ (σ : Sem.SEnv) (e : PExp) (es : List PExp) (b : Bool) (bs : List Bool),
      List.Forall₂ (fun e b => Sem.semW σ e = some (.bool b)) (e :: es) (b :: bs) →
      Sem.semW σ (.boolop true (e :: es)) = some (pyAll (b :: bs)) ∧
      Sem.semW σ (.boolop false (e :: es)) = some (pyAny (b :: bs))) := by
  have hrow := unrollArg_matrix_row st L T n m c hc hL true
  have hv := visitE_const_sub st L (.int c)
  refine ⟨?_, ?_, ?_, ?_, fun x xs => ⟨sumChain_cons x xs, toP_sumE x xs⟩, fun hm σ => semW_len σ m hm, ?_, ?_⟩
  · rw [visitE_call1 st "len" _ _ hv, visitCall_len st _ _ hrow]; simp [elems2]
  · rw [visitE_call1 st "sum" _ _ hv, visitCall_sum st _ _ hrow]
  · rw [visitE_call1 st "all" _ _ hv, visitCall_all st _ _ hrow]
  · rw [visitE_call1 st "any" _ _ hv, visitCall_any st _ _ hrow]
  · intro σ w e es v vs h
    cases h with
    | cons he hes =>
      rw [sumP_value σ w es vs e v he.1 he.2 hes]
      simp [pySum]
  · intro σ e es b bs h
    exact ⟨by rw [boolop_value σ true e es b bs h]; simp [pyAll], by rw [boolop_value σ false e es b bs h]; simp [pyAny]⟩

open QV.A2A in
/-- **C01_builtins_tuple_partial** – the same over a tuple-typed argument `t` (`Tuple[…]`, `Qlist[T, n]`): `len(t)` is the
number of elements, `sum(t)` / `all(t)` / `any(t)` the chains over `t[0] … t[n-1]` (their meanings: the last three
conjuncts of `C01_builtins_row_partial`) -/
theorem C01_builtins_tuple_partial (st : RSt) (t : String) (es : List SExp) (hd : isDunder t = false)
    (ht : lookup st.types t = some (.ann (.sub (.name "Tuple") (.tuple es)))) :
    visitE st (.call "len" [.name t]) = .ok (.const (.int es.length)) ∧
    visitE st (.call "sum" [.name t]) = sumChain (elems1 t es.length) ∧
    visitE st (.call "all" [.name t]) = .ok (.boolop true (elems1 t es.length)) ∧
    visitE st (.call "any" [.name t]) = .ok (.boolop false (elems1 t es.length)) := by
  have hun := unrollArg_name st t es ht true
  have hv := visitE_user_name st t hd
  refine ⟨?_, ?_, ?_, ?_⟩
  · rw [visitE_call1 st "len" _ _ hv, visitCall_len st _ _ hun]; simp [elems1]
  · rw [visitE_call1 st "sum" _ _ hv, visitCall_sum st _ _ hun]
  · rw [visitE_call1 st "all" _ _ hv, visitCall_all st _ _ hun]
  · rw [visitE_call1 st "any" _ _ hv, visitCall_any st _ _ hun]

open QV.A2A in
/-- on a `2 x 3` matrix: `len(m[1])` is 3, `any(m[0])` is the disjunction of `m[0][0]`, `m[0][1]`, `m[0][2]`, and the
`sum` over a row of `Qint[2]` values 3, 2, 1 is `pySum 2 [3, 2, 1] = 2` (6 modulo 4) -/
example :
    let st : RSt := initSt [("m", matrixTy (.name "bool") 2 3)]
    visitE st (.call "len" [.sub (.name "m") (.const (.int 1))]) = .ok (.const (.int 3)) ∧
    visitE st (.call "any" [.sub (.name "m") (.const (.int 0))])
      = .ok (.boolop false [access2 "m" 0 0, access2 "m" 0 1, access2 "m" 0 2]) ∧
    (let σ : Sem.SEnv := fun s => if s = "a" then some (.int 2 3) else if s = "b" then some (.int 2 2)
        else if s = "c" then some (.int 2 1) else none
     Sem.semW σ (sumP (.name "a") [.name "b", .name "c"]) = some (pySum 2 [3, 2, 1])) ∧
    pySum 2 [3, 2, 1] = .int 2 2 := by
  refine ⟨rfl, rfl, by decide, by decide⟩

open QV.A2A in
/-- **C01_builtins_minmax_partial** – `max` / `min` (`__call_minmax`).  What the rewriter returns: for two explicit
arguments `a0 if (a0 > a1) else a1` (the test is the one-element conjunction python builds); for `k ≥ 2` explicit
arguments the chain `minmaxChain` over the visited arguments; for a single tuple-typed argument `t` / a matrix row `L[c]`
the chain over the unrolled elements `t[0] … ` / `L[c][0] …` (`C01_unroll_partial`); the chain over `x0 … xn` is
`x0 if (x0 > x1 and … and x0 > xn) else (chain over x1 … xn)` (`minmaxE`; `min`: `<=`).  And its meaning: over any
expressions whose values are `Qint[w]` numbers `v0 … vn` the `>` chain evaluates to `pyMax [v0, …, vn]` and the `<=` chain
to `pyMin [v0, …, vn]` (python's `max` / `min`: the fold of the binary maximum / minimum) - for every `n`, every width and
all values, ties included (with `a0 = a1` the strict `a0 > a1` fails and the rest of the chain is taken, which then
holds the maximum). -/
theorem C01_builtins_minmax_partial (st : RSt) :
    (∀ a b a' b', visitE st a = .ok a' → visitE st b = .ok b' →
      visitE st (.call "max" [a, b]) = .ok (.ite (.boolop true [.cmp "Gt" a' b']) a' b') ∧
      visitE st (.call "min" [a, b]) = .ok (.ite (.boolop true [.cmp "LtE" a' b']) a' b')) ∧
    (∀ args x y zs, visitEs st args = .ok (x :: y :: zs) →
      visitE st (.call "max" args) = minmaxChain "Gt" (x :: y :: zs) ∧
      visitE st (.call "min" args) = minmaxChain "LtE" (x :: y :: zs)) ∧
    (∀ t es, isDunder t = false → lookup st.types t = some (.ann (.sub (.name "Tuple") (.tuple es))) →
      visitE st (.call "max" [.name t]) = minmaxChain "Gt" (elems1 t es.length) ∧
      visitE st (.call "min" [.name t]) = minmaxChain "LtE" (elems1 t es.length)) ∧
    (∀ L T n m c, c < n → lookup st.types L = some (.ann (matrixTy T n m)) →
      visitE st (.call "max" [.sub (.name L) (.const (.int c))]) = minmaxChain "Gt" (elems2 L c m) ∧
      visitE st (.call "min" [.sub (.name L) (.const (.int c))]) = minmaxChain "LtE" (elems2 L c m)) ∧
    (∀ op x xs, minmaxChain op (x :: xs) = .ok (minmaxE op x xs) ∧
      toP (minmaxE op x xs) = minmaxP op (toP x) (toPs xs)) ∧
    (∀ (σ : Sem.SEnv) (w : Nat) (e : PExp) (es : List PExp) (v : Nat) (vs : List Nat),
      List.Forall₂ (fun e v => Sem.semW σ e = some (.int w v)) (e :: es) (v :: vs) →
      Sem.semW σ (minmaxP "Gt" e es) = some (.int w (pyMax (v :: vs))) ∧
      Sem.semW σ (minmaxP "LtE" e es) = some (.int w (pyMin (v :: vs)))) := by
  refine ⟨?_, ?_, ?_, ?_, fun op x xs => ⟨minmaxChain_cons op x xs, toP_minmaxE op x xs⟩,
    fun σ w e es v vs h => ⟨maxP_value σ w e es v vs h, minP_value σ w e es v vs h⟩⟩
  · intro a b a' b' ha hb
    have hv := visitEs_two st a b a' b' ha hb
    rw [visitE_callk st "max" _ _ hv, visitE_callk st "min" _ _ hv, visitCall_maxk, visitCall_mink,
      minmaxChain_cons, minmaxChain_cons]
    exact ⟨rfl, rfl⟩
  · intro args x y zs hv
    rw [visitE_callk st "max" _ _ hv, visitE_callk st "min" _ _ hv, visitCall_maxk, visitCall_mink]
    exact ⟨rfl, rfl⟩
  · intro t es hd ht
    have hun := unrollArg_name st t es ht true
    have hv := visitE_user_name st t hd
    rw [visitE_call1 st "max" _ _ hv, visitE_call1 st "min" _ _ hv, visitCall_max1 st _ _ hun,
      visitCall_min1 st _ _ hun]
    exact ⟨rfl, rfl⟩
  · intro L T n m c hc hL
    have hrow := unrollArg_matrix_row st L T n m c hc hL true
    have hv := visitE_const_sub st L (.int c)
    rw [visitE_call1 st "max" _ _ hv, visitE_call1 st "min" _ _ hv, visitCall_max1 st _ _ hrow,
      visitCall_min1 st _ _ hrow]
    exact ⟨rfl, rfl⟩

open QV.A2A in
/-- `max(a, b, 3)` / `min(a, b, 3)` on `Qint[2]` variables: the if-chains the rewriter returns, and their values with
`a = 1`, `b = 3` - a tie between `b` and the constant: `b > 3` fails, the last element is taken, the maximum is 3 -/
example :
    let st : RSt := initSt [("a", .sub (.name "Qint") (.const (.int 2))), ("b", .sub (.name "Qint") (.const (.int 2)))]
    let σ : Sem.SEnv := fun s => if s = "a" then some (.int 2 1) else if s = "b" then some (.int 2 3) else none
    visitE st (.call "max" [.name "a", .name "b", .const (.int 3)])
      = .ok (.ite (.boolop true [.cmp "Gt" (.name "a") (.name "b"), .cmp "Gt" (.name "a") (.const (.int 3))]) (.name "a")
          (.ite (.boolop true [.cmp "Gt" (.name "b") (.const (.int 3))]) (.name "b") (.const (.int 3)))) ∧
    Sem.semW σ (minmaxP "Gt" (.name "a") [.name "b", .cint 3]) = some (.int 2 (pyMax [1, 3, 3])) ∧
    Sem.semW σ (minmaxP "LtE" (.name "a") [.name "b", .cint 3]) = some (.int 2 (pyMin [1, 3, 3])) ∧
    pyMax [1, 3, 3] = 3 ∧ pyMin [1, 3, 3] = 1 ∧ pyMax [2, 2] = 2 := by
  refine ⟨rfl, by decide, by decide, rfl, rfl, rfl⟩

open QV.A2A in
/-- **C01_builtins_ordchr_partial** – `ord(a)` / `chr(a)`: the rewriter returns the visited argument itself (a `Qchar`
*is* its code point: 8 bits, the same bits whether read as a character or as a number), so whatever value the argument
has under `Sem.semW`, the call has that value - the identity on the code point. -/
theorem C01_builtins_ordchr_partial (st : RSt) (a a' : SExp) (ha : visitE st a = .ok a') :
    visitE st (.call "ord" [a]) = .ok a' ∧ visitE st (.call "chr" [a]) = .ok a' ∧
    ∀ E, (visitE st (.call "ord" [a]) = .ok E ∨ visitE st (.call "chr" [a]) = .ok E) →
      ∀ σ, Sem.semW σ (toP E) = Sem.semW σ (toP a') := by
  have h1 : visitE st (.call "ord" [a]) = .ok a' := by rw [visitE_call1 st "ord" _ _ ha, visitCall_ord]
  have h2 : visitE st (.call "chr" [a]) = .ok a' := by rw [visitE_call1 st "chr" _ _ ha, visitCall_chr]
  refine ⟨h1, h2, ?_⟩
  intro E hE σ
  rcases hE with hE | hE
  · rw [h1] at hE; cases hE; rfl
  · rw [h2] at hE; cases hE; rfl

open QV.A2A in
/-- **C01_table_partial** – a variable index into a table: `(x0, x1, …, xn)[i]` with a tuple literal, and `T[a[b]]` with `T`
a constant tuple of the environment.  (a) From the model function: `visit_Subscript` returns `tableChain ie x0 [x1 … xn]`
over the elements **as they stand** (this branch visits neither the elements nor the index), the left fold
`xn if ie == n else (… (x1 if ie == 1 else x0))`, for an index `i` that is a variable and no constant of the environment,
for an index that is itself a subscript, and for a table found by name (`T ≠ "Tuple"`) among the constants.  (`T[i]` with
both a name takes the `L[i]` branch of `C01_index1_partial` instead; a *list* literal `[x0, …][i]` is refused:
`Exception("Not a tuple …")`, see the example.)  (b) For **every table length** `n + 1 < 2^16` and every value `xv` of the
index: if the elements have the values `vals` under `Sem.semW`, all of one type, the chain has the value
`pyIndex1 vals xv` when `xv ≤ n`; **out of range** (`xv > n`, where python raises `IndexError`) it has the value of
element `0` - no test matches and the innermost `else` is `x0`.  With `Qint` elements of different widths (constants
`3, 5` have widths `2, 4`) the if-expressions of `Sem.semW` widen: the chain has the selected element's number at
the largest width among the elements (`withWidth (maxWidth 0 vals)`).  Every element must have a value (if-expressions of
`semW` are strict).  *Partial*: at the top of an expression, not inside `ast2ast_if_preserved`. -/
theorem C01_table_partial (st : RSt) (x : SExp) (xs : List SExp) :
    (∀ i, lookup st.consts i = none →
      visitE st (.sub (.tuple (x :: xs)) (.name i)) = .ok (tableChain (.name i) x xs)) ∧
    (∀ a b, visitE st (.sub (.tuple (x :: xs)) (.sub a b)) = .ok (tableChain (.sub a b) x xs)) ∧
    (∀ T cv a b, T ≠ "Tuple" → lookup st.consts T = some cv → cv.asNode? = some (.tuple (x :: xs)) →
      visitE st (.sub (.name T) (.sub a b)) = .ok (tableChain (.sub a b) x xs)) ∧
    ∀ (σ : Sem.SEnv) (ie : SExp) (vals : List Sem.SVal) (wi xv : Nat),
      Sem.semW σ (toP ie) = some (.int wi xv) → xs.length < 65535 →
      (∀ Tv, List.Forall₂ (fun e v => Sem.semW σ (toP e) = some v ∧ tyOf v = Tv) (x :: xs) vals →
        Sem.semW σ (toP (tableChain ie x xs)) = pyIndex1 vals (if xv ≤ xs.length then xv else 0)) ∧
      (∀ b, List.Forall₂ (fun e v => Sem.semW σ (toP e) = some v ∧ isInt v = b) (x :: xs) vals →
        Sem.semW σ (toP (tableChain ie x xs))
          = (pyIndex1 vals (if xv ≤ xs.length then xv else 0)).map (withWidth (maxWidth 0 vals))) := by
  refine ⟨fun i hi => visitE_table_lit st i x xs hi, fun a b => visitE_table_lit_sub st a b x xs,
    fun T cv a b hT hc hn => visitE_table_const st T cv a b x xs hT hc hn, ?_⟩
  intro σ ie vals wi xv hi hlen
  exact ⟨fun Tv hv => tableChain_selects_sameTy σ ie x xs vals Tv wi xv hi hlen hv,
    fun b hv => tableChain_selects σ ie x xs vals b wi xv hi hlen hv⟩

open QV.A2A in
/-- `(3, 1, 2)[i]` with `i : Qint[2]`: the chain the rewriter returns, the hypotheses of `C01_table_partial` (the
three constants are `Qint[2]` values), and the values of the chain for `i = 0 … 3` -
`3, 1, 2` and, out of range, element 0 again; the list literal `[3, 1, 2][i]` is refused -/
example :
    let st : RSt := initSt [("i", .sub (.name "Qint") (.const (.int 2)))]
    let tbl : List SExp := [.const (.int 3), .const (.int 1), .const (.int 2)]
    let E : SExp := .ite (.cmp "Eq" (.name "i") (.const (.int 2))) (.const (.int 2))
      (.ite (.cmp "Eq" (.name "i") (.const (.int 1))) (.const (.int 1)) (.const (.int 3)))
    let σ : Nat → Sem.SEnv := fun k s => if s = "i" then some (.int 2 k) else none
    let vals : List Sem.SVal := [.int 2 3, .int 2 1, .int 2 2]
    lookup st.consts "i" = none ∧ visitE st (.sub (.tuple tbl) (.name "i")) = .ok E ∧
      tableChain (.name "i") (.const (.int 3)) [.const (.int 1), .const (.int 2)] = E ∧
      visitE st (.sub (.list tbl) (.name "i")) = .error (.exc "Exception" "Not a tuple in ast2ast visit subscript") ∧
      (∀ k, List.Forall₂ (fun e v => Sem.semW (σ k) (toP e) = some v ∧ tyOf v = some 2) tbl vals) ∧
      pyIndex1 vals 1 = some (.int 2 1) ∧
      Sem.semW (σ 0) (toP E) = some (.int 2 3) ∧ Sem.semW (σ 1) (toP E) = some (.int 2 1) ∧
      Sem.semW (σ 2) (toP E) = some (.int 2 2) ∧ Sem.semW (σ 3) (toP E) = some (.int 2 3) := by
  refine ⟨rfl, rfl, rfl, rfl, fun k => .cons ⟨rfl, rfl⟩ (.cons ⟨rfl, rfl⟩ (.cons ⟨rfl, rfl⟩ .nil)),
    rfl, by decide, by decide, by decide, by decide⟩

end QV.C01
