import QV.Model.Front
/-! placeholder while the harness is being built -/
namespace QV.C01
open QV QV.Arith

theorem fill_length_ge (n : Nat) (l : List BExp) : (fill n l).length ≥ l.length := by
  unfold fill; split <;> simp

end QV.C01
