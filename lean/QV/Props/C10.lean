import QV.Proofs.Api
/-!
# C10 – Compilation is pure: no dependence on, or damage to, earlier work

"The expressions and circuit obtained for a source text are the same whatever was compiled, bound,
composed, exported, decompiled or wrapped in an algorithm earlier in the process, including
functions with the same or clashing names.  None of these operations changes the observable state
of objects passed to them (a function used as a definition, as an oracle or as an algorithm's black
box still has the same name, expressions, circuit and qubit lists afterwards) or breaks later calls
of the library."

Model: `QV/Model/Api.lean` – the public API as a state machine `step : ApiState → Op → ApiState ×
Result` over an explicit heap (objects, the namespace of the module `qlasskit.qlassfun`, the mutable
default arguments); compilation itself is an opaque pure function `K`.  The theorems hold for every
pool of programs `P`, every compile oracle `K`, every state and every history.
-/
namespace QV.C10
open QV QV.Api

/-- The full property on the model with quirks `q`: along every history from every state,
(1) no operation changes the fingerprint of an object that already exists (so every argument is
unchanged and every object stays what it was when it was made), (2) the module namespace and the
default arguments are never written, and (3) what an operation returns – its status and the
fingerprint of the new object – is determined by the operation and its argument objects alone
(which by (1) still have the fingerprints they were made with): nothing else in the state – other
objects, what was compiled before, the module namespace, the defaults – has any influence, hence the
same after any history as in a fresh interpreter. -/
def C10_statement_for (q : Quirks) : Prop :=
  ∀ (P : Pool) (K : Oracle),
    (∀ (s : ApiState) (ops : List Op) (r : Nat), r < s.objs.length →
        fingerprint q P (run q P K s ops) r = fingerprint q P s r) ∧
    (∀ (s : ApiState) (ops : List Op),
        (run q P K s ops).ns = s.ns ∧ (run q P K s ops).defaults = s.defaults) ∧
    (∀ (s s' : ApiState) (op : Op),
        (∀ r ∈ op.refs, s.objs.getD r .dead = s'.objs.getD r .dead) →
        (step q P K s op).2 = (step q P K s' op).2 ∧
        fingerprint q P (step q P K s op).1 s.objs.length =
          fingerprint q P (step q P K s' op).1 s'.objs.length)

/-- the property of the repaired library -/
def C10_statement : Prop := C10_statement_for Quirks.none

/-! ## the repaired model: frame -/

/-- **frame**: no operation changes the fingerprint of an object that already exists -/
theorem frame (P : Pool) (K : Oracle) (s : ApiState) (op : Op) (r : Nat) (hr : r < s.objs.length) :
    fingerprint Quirks.none P (step Quirks.none P K s op).1 r = fingerprint Quirks.none P s r := by
  have hh := stepCore_none_harmless P K s op
  obtain ⟨o, ho, hns, _⟩ := close_objs (stepCore Quirks.none P K s op)
  unfold fingerprint step
  rw [ho, hns]
  have hl := harmless_length hh
  have : ((stepCore Quirks.none P K s op).1.objs ++ [o]).getD r .dead =
      (stepCore Quirks.none P K s op).1.objs.getD r .dead := by
    simp [List.getD_eq_getElem?_getD, List.getElem?_append_left, hl, hr]
  rw [this]
  exact harmless_fp hh r

/-- every operation allocates exactly one slot (its own) -/
theorem step_length (P : Pool) (K : Oracle) (s : ApiState) (op : Op) :
    (step Quirks.none P K s op).1.objs.length = s.objs.length + 1 := by
  obtain ⟨o, ho, _, _⟩ := close_objs (stepCore Quirks.none P K s op)
  unfold step
  rw [ho]
  simp [harmless_length (stepCore_none_harmless P K s op)]

/-- **frame for whole histories** (induction over the operation list): whatever is compiled, bound,
oraclized, wrapped in an algorithm, exported, decompiled … later, an object keeps its fingerprint -/
theorem frame_run (P : Pool) (K : Oracle) (ops : List Op) :
    ∀ (s : ApiState) (r : Nat), r < s.objs.length →
      fingerprint Quirks.none P (run Quirks.none P K s ops) r = fingerprint Quirks.none P s r := by
  induction ops with
  | nil => intro s r _; rfl
  | cons op ops ih =>
    intro s r hr
    simp only [run]
    rw [ih _ r (by rw [step_length]; omega)]
    exact frame P K s op r hr

/-- **later calls are not broken**: no operation writes the namespace of the library module or a
default argument … -/
theorem later_calls_ok_step (P : Pool) (K : Oracle) (s : ApiState) (op : Op) :
    (step Quirks.none P K s op).1.ns = s.ns ∧ (step Quirks.none P K s op).1.defaults = s.defaults := by
  obtain ⟨o, _, hns, hd⟩ := close_objs (stepCore Quirks.none P K s op)
  have hh := stepCore_none_harmless P K s op
  unfold step
  exact ⟨hns.trans (harmless_ns hh), hd.trans (harmless_defaults hh)⟩

/-- … along any history: from the initial state the namespace stays pristine and the defaults empty -/
theorem later_calls_ok (P : Pool) (K : Oracle) (ops : List Op) :
    ∀ s : ApiState, (run Quirks.none P K s ops).ns = s.ns ∧ (run Quirks.none P K s ops).defaults = s.defaults := by
  induction ops with
  | nil => intro s; exact ⟨rfl, rfl⟩
  | cons op ops ih =>
    intro s
    simp only [run]
    obtain ⟨h1, h2⟩ := ih (step Quirks.none P K s op).1
    obtain ⟨h3, h4⟩ := later_calls_ok_step P K s op
    exact ⟨h1.trans h3, h2.trans h4⟩

example : (run Quirks.none [] (fun _ => none) ApiState.init [.secretOracle 2 1, .grover 0 none 1]).ns = [] :=
  (later_calls_ok [] (fun _ => none) _ ApiState.init).1

/-- **history freedom**: status and new object of an operation are determined by the operation and
its argument objects – the rest of the state (other objects, how many there are, what was compiled
before, the module namespace, the defaults) has no influence -/
theorem history_free (P : Pool) (K : Oracle) (s s' : ApiState) (op : Op)
    (h : ∀ r ∈ op.refs, s.objs.getD r .dead = s'.objs.getD r .dead) :
    (step Quirks.none P K s op).2 = (step Quirks.none P K s' op).2 ∧
    fingerprint Quirks.none P (step Quirks.none P K s op).1 s.objs.length =
      fingerprint Quirks.none P (step Quirks.none P K s' op).1 s'.objs.length := by
  have hc := stepCore_none_snd P K s s' op h
  exact ⟨close_result_congr _ _ hc,
    close_newfp_congr P _ _ (harmless_length (stepCore_none_harmless P K s op))
      (harmless_length (stepCore_none_harmless P K s' op)) hc⟩

/-- the full property holds for the repaired model -/
theorem C10_full : C10_statement :=
  fun P K => ⟨fun s ops r hr => frame_run P K ops s r hr, fun s ops => later_calls_ok P K ops s,
    fun s s' op h => history_free P K s s' op h⟩

/-! ## the code as it is: one witness per open finding

A tiny pool and compile oracle: program 0 = `def g(a: Qint[2]) -> bool` (2+1 qubits + ancilla),
program 1 = `def oracle(...)`, program 2 = `def copy(a: bool) -> bool`, program 3 = `def h(a) =
g(a)` (needs `defs=[g]`), program 4 = `def f(a: bool) -> bool`, program 5 = another `def g`,
program 6 = `def pk(a, k: Parameter[Qint[2]]) = g(a + k)` (unbound, needs `defs=[g]`), program 7 =
`def Qint(a: bool) -> bool`, program 8 = `def pc(a: Qint[2], p: Parameter[bool]) = Qint(a[0]) ^ p`. -/

def wPool : Pool :=
  [{ name := "g" }, { name := "oracle" }, { name := "copy" }, { name := "h", callees := ["g"] }, { name := "f" },
   { name := "g" }, { name := "pk", callees := ["g"], params := true }, { name := "Qint" },
   { name := "pc", callees := ["Qint"], annots := ["Qint"], params := true }]

def wCirc : Circ :=
  { cname := "g", nq := 4, gates := [{ name := "MCX|CCX", wires := [0, 1, 3] }],
    qmap := [("a.0", 0), ("a.1", 1), ("anc_0", 2), ("_ret", 3)] }

def wCompiled (sig : String) : Compiled :=
  { sig := sig, argT := "Qint2", arg0 := 2, nargs := 1, nIn := 2, retBits := ["_ret"], retBool := true, circ := wCirc }

def wK : Oracle := fun key =>
  if key == "P0" then some (some (wCompiled "s0"))
  else if key == "P1" then some (some (wCompiled "s1"))
  else if key == "P2" then some (some (wCompiled "s2"))
  else if key == "P4" then some (some (wCompiled "s4"))
  else if key == "P5" then some (some (wCompiled "s5"))
  else if key == "P3|g#s0" then some (some (wCompiled "s3"))
  else if key == "O_oracle|2|_oracle#s1" then some (some (wCompiled "so"))
  else if key == "P7" then some (some (wCompiled "s7"))
  else if key == "B6|k=1|g#s0" then some (some (wCompiled "b1"))
  else if key == "B6|k=2|g#s0" then some (some (wCompiled "b2"))
  else none

def nqOf : Fp → Nat
  | .qf f => f.info.circ.nq
  | _ => 0

def nameOf : Fp → String
  | .qf f => f.name
  | _ => ""

def isNotCallable : Fp → Bool
  | .qf { orig := .notCallable, .. } => true
  | _ => false

/-- first callee of `original_f`: which program it resolves to -/
def calleeOf : Fp → Option Src
  | .qf { orig := .node _ (.node s _ :: _), .. } => some s
  | _ => none

/-- the first callee of `original_f` is a free name that nothing provides -/
def calleeMissing : Fp → Bool
  | .qf { orig := .node _ (.missing _ :: _), .. } => true
  | _ => false

def sigOf : Fp → String
  | .qf f => f.info.sig
  | _ => ""

/-- `Grover(g)` changes `g`: its circuit has one more qubit afterwards (and yet another one after a
second `Grover(g)`) – the frame property fails for the model of the code as it is -/
theorem grover_mutates_oracle_witness :
    let q := Quirks.ofList ["groverMutatesOracle"]
    let s1 := run q wPool wK ApiState.init [.compile 0 [] false]
    nqOf (fingerprint q wPool s1 0) = 4 ∧
    nqOf (fingerprint q wPool (step q wPool wK s1 (.grover 0 none 1)).1 0) = 5 ∧
    nqOf (fingerprint q wPool (run q wPool wK s1 [.grover 0 none 1, .grover 0 none 1]) 0) = 6 := by
  decide

/-- `oraclize(qf, 2)` renames a `qf` that is called `oracle` -/
theorem oraclize_renames_witness :
    let q := Quirks.ofList ["oraclizeRenames"]
    let s1 := run q wPool wK ApiState.init [.compile 1 [] false]
    nameOf (fingerprint q wPool s1 0) = "oracle" ∧
    nameOf (fingerprint q wPool (step q wPool wK s1 (.oraclize 0 "2")).1 0) = "_oracle" := by
  decide

/-- after a user function called `copy` was compiled, `qlassf(h, defs=[g])` raises although the same
call succeeds in a fresh interpreter – the result depends on the history -/
theorem exec_into_module_globals_witness :
    let q := Quirks.ofList ["execIntoModuleGlobals"]
    (step q wPool wK (run q wPool wK ApiState.init [.compile 0 [] false]) (.compile 3 [0] false)).2 = .ok ∧
    (step q wPool wK (run q wPool wK ApiState.init [.compile 2 [] false, .compile 0 [] false])
        (.compile 3 [1] false)).2 = .raised := by
  decide

/-- `original_f` of a caller follows the module namespace: compiling another `g` later changes what
`h.original_f` calls -/
theorem exec_rebinds_callee_witness :
    let q := Quirks.ofList ["execIntoModuleGlobals"]
    let s2 := run q wPool wK ApiState.init [.compile 0 [] false, .compile 3 [0] false]
    calleeOf (fingerprint q wPool s2 1) = some (.pool 0) ∧
    calleeOf (fingerprint q wPool (step q wPool wK s2 (.compile 5 [] false)).1 1) = some (.pool 5) := by
  decide

/-- a source function called like a local of `from_function` – for **every** name in the list that
is read from the current source on every run (`f`, `types`, `defs`, … as long as `eval(name)` is
there; empty once it is gone): `original_f` is not a function, while in the repaired model it is -/
theorem eval_sees_locals_witness :
    ∀ n ∈ Gen.fromFunctionLocalsAtEval,
      let q := Quirks.ofList ["evalSeesLocals"]
      let P : Pool := [{ name := n }]
      isNotCallable (fingerprint q P (run q P wK ApiState.init [.compile 0 [] false]) 0) = true ∧
      isNotCallable (fingerprint Quirks.none P (run Quirks.none P wK ApiState.init [.compile 0 [] false]) 0) = false := by
  decide

/-- `qlassf(pk, defs=[g]).bind(k=1).original_f` calls a `g` that nothing provides (the bound source
is run in the module globals only), while in the repaired model it calls the `g` that was passed;
what is translated (the signature) is the same in both -/
theorem bind_orig_without_defs_witness :
    let q := Quirks.ofList ["bindOrigWithoutDefs"]
    let ops : List Op := [.compile 0 [] false, .compile 6 [0] false, .bind 1 "k=1"]
    calleeMissing (fingerprint q wPool (run q wPool wK ApiState.init ops) 2) = true ∧
    calleeOf (fingerprint Quirks.none wPool (run Quirks.none wPool wK ApiState.init ops) 2) = some (.pool 0) ∧
    sigOf (fingerprint q wPool (run q wPool wK ApiState.init ops) 2) = "b1" := by
  decide

/-- `qlassf(pc, defs=[Qint])` where `pc`'s annotations mention the type `Qint` and the definition is a
user function called `Qint`: the call raises (the annotation finds the function), in the repaired
model it returns the unbound function -/
theorem def_shadows_annotation_witness :
    let q := Quirks.ofList ["defShadowsAnnotation"]
    (step q wPool wK (run q wPool wK ApiState.init [.compile 7 [] false]) (.compile 8 [0] false)).2 = .raised ∧
    (step Quirks.none wPool wK (run Quirks.none wPool wK ApiState.init [.compile 7 [] false]) (.compile 8 [0] false)).2 = .ok := by
  decide

/-- binding the same unbound object again with other values, with anything in between, gives what
the second binding gives on its own (instance of `history_free` + `frame_run` on a concrete
history; the general statement is `C10_full`) -/
example :
    let ops₁ : List Op := [.compile 0 [] false, .compile 6 [0] false, .bind 1 "k=1", .grover 2 none 1, .bind 1 "k=2"]
    let ops₂ : List Op := [.compile 0 [] false, .compile 6 [0] false, .bind 1 "k=2"]
    sigOf (fingerprint Quirks.none wPool (run Quirks.none wPool wK ApiState.init ops₁) 4) = "b2" ∧
    sigOf (fingerprint Quirks.none wPool (run Quirks.none wPool wK ApiState.init ops₂) 2) = "b2" := by
  decide

/-- hence the full property fails for the model of the code as it is -/
theorem C10_fails_with_grover_quirk : ¬ C10_statement_for (Quirks.ofList ["groverMutatesOracle"]) := by
  intro h
  have h1 := (h wPool wK).1 (run (Quirks.ofList ["groverMutatesOracle"]) wPool wK ApiState.init [.compile 0 [] false])
    [.grover 0 none 1] 0 (by decide)
  have h2 := congrArg nqOf h1
  revert h2
  decide

/-! ## the code as it is, away from the triggers (partial) -/

/-- does the operation run into one of the listed defects in state `s`? -/
def triggers (q : Quirks) (s : ApiState) (op : Op) : Bool :=
  (q.execIntoModuleGlobals || q.evalSeesLocals || q.defShadowsAnnotation) || opTrigger q s op

/-- **C10_partial** (stored objects only): with the namespace quirks (`execIntoModuleGlobals`, `evalSeesLocals`,
`defShadowsAnnotation`) off, an operation that is not
`Grover(...)` (when `groverMutatesOracle` is on), not `oraclize`/`Grover(qf, x)` on a function
called `oracle` (when `oraclizeRenames` is on) and not `bind` (when `bindOrigWithoutDefs` is on)
behaves exactly as in the repaired model: same state,
same outcome.  What is
missing for the model of the code as it is: the histories in which `exec(src, globals())` is active
(then fingerprints depend on the shared namespace; covered by the witnesses above and by the
correspondence run, not by a theorem). -/
theorem C10_partial (q : Quirks) (P : Pool) (K : Oracle) (s : ApiState) (op : Op)
    (hq : q.execIntoModuleGlobals = false) (he : q.evalSeesLocals = false)
    (hd : q.defShadowsAnnotation = false)
    (ht : triggers q s op = false) :
    stepCore q P K s op = stepCore Quirks.none P K s op := by
  exact stepCore_eq_none_of_no_trigger q P K s op hq he hd (by simpa [triggers, hq, he, hd] using ht)

example : triggers (Quirks.ofList ["groverMutatesOracle", "oraclizeRenames"])
    (run Quirks.none wPool wK ApiState.init [.compile 0 [] false]) (.oraclize 0 "2") = false := by decide

end QV.C10
