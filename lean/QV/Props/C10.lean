import QV.Model.Api
namespace QV.C10
open QV QV.Api

theorem stub : ApiState.init.objs = [] := rfl

end QV.C10
