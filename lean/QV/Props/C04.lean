import QV.Proofs.Opt
import QV.Gen.Tables
/-!
# C04 – Boolean optimizer profiles preserve meaning

> Applying any shipped optimizer profile, or any single rewrite step it is made of, to a list of
> boolean definitions yields a list that assigns the same boolean function of the inputs to every
> return symbol, for every well-formed boolean expression over And, Or, Not, Xor, if-then-else and
> implication.  No free symbol is introduced and no return symbol is lost.

Model: `QV/Model/Opt.lean` (qlasskit/boolopt/*.py, the simplify of ast2logic/t_ast.py).
A list of definitions means `evalDefs` (sequential binding); `Preserves l l'` is the property for
one list and its image: equal value of every `_ret*` symbol under every assignment, equal list of
bound return symbols, `freeSyms l' ⊆ freeSyms l`.

Parameters, with their specs as hypotheses (`Params.Sound`): sympy's constructors (`Kernel.Sound`),
`simplify_logic` (`SimpSound`), `cse` (`CseSpec`).  Well-formedness of a list: `RetsNotRead` (return
symbols are outputs only; the front end never reads one) – for `merge_expressions` alone the weaker
`RetDisc` suffices.

Two listed defects (`known_findings.json`): `or2xorNoArity`, `cseHoistsOverBindings`.  With both
repaired the property is proved in full (`C04_full`); for the code as it is, on every run on which
neither fires (`C04_partial`); each defect has a witness.
-/
namespace QV.C04
open QV QV.Opt

/-- the step list named by a table extracted from `bool_optimizer.py` -/
def stepsOf (ns : List String) : Option (List Step) := ns.mapM Step.ofName

/-- what "a shipped profile or a single step it is made of" ranges over -/
def shipped (steps : List Step) : Prop :=
  stepsOf Gen.defaultOptimizerSteps = some steps ∨ stepsOf Gen.fastOptimizerSteps = some steps ∨
  ∃ s, steps = [s] ∧ (some s ∈ Gen.defaultOptimizerSteps.map Step.ofName ∨
                       some s ∈ Gen.fastOptimizerSteps.map Step.ofName)

/-- **The full property**, for the library whose listed defects are `q`: for all parameters meeting
their specs, every shipped profile and every single step, every list whose return symbols are
outputs only: the result `Preserves` the list.  (`disableOr` is the extracted `DISABLE_OR`.) -/
def C04_statement (q : Quirks) : Prop :=
  ∀ (P : Params), P.Sound → P.q = q → P.disableOr = Gen.disableOr →
    ∀ steps, shipped steps → ∀ l, RetsNotRead l → Preserves l (applyProfile P steps l)

/-! ## every transformer, every expression -/

/-- `SympyTransformer.visit` with no override keeps meaning and symbols -/
theorem rebuild_sound {K : Kernel} (hK : K.Sound) (e : BExp) :
    (∀ ρ, (rebuild K e).eval ρ = e.eval ρ) ∧ (∀ s, s ∈ (rebuild K e).syms → s ∈ e.syms) :=
  rebuild_good hK e

/-- `remove_ITE` -/
theorem removeITE_sound {K : Kernel} (hK : K.Sound) (e : BExp) :
    (∀ ρ, (removeITE K e).eval ρ = e.eval ρ) ∧ (∀ s, s ∈ (removeITE K e).syms → s ∈ e.syms) :=
  removeITE_good hK e

/-- `remove_Implies` -/
theorem removeImplies_sound {K : Kernel} (hK : K.Sound) (e : BExp) :
    (∀ ρ, (removeImplies K e).eval ρ = e.eval ρ) ∧ (∀ s, s ∈ (removeImplies K e).syms → s ∈ e.syms) :=
  removeImplies_good hK e

/-- `transform_or2xor` with the arity test (repaired) -/
theorem or2xor_sound {K : Kernel} (hK : K.Sound) {q : Quirks} (hq : q.or2xorNoArity = false) (e : BExp) :
    (∀ ρ, (or2xor K q e).eval ρ = e.eval ρ) ∧ (∀ s, s ∈ (or2xor K q e).syms → s ∈ e.syms) :=
  or2xor_good hK hq e

/-- `transform_or2and`, for either value of `DISABLE_OR` -/
theorem or2and_sound {K : Kernel} (hK : K.Sound) (d : Bool) (e : BExp) :
    (∀ ρ, (or2and K d e).eval ρ = e.eval ρ) ∧ (∀ s, s ∈ (or2and K d e).syms → s ∈ e.syms) :=
  or2and_good hK d e

/-- `remove_obvious_expr` -/
theorem removeObvious_sound {K : Kernel} (hK : K.Sound) (e : BExp) :
    (∀ ρ, (removeObvious K e).eval ρ = e.eval ρ) ∧ (∀ s, s ∈ (removeObvious K e).syms → s ∈ e.syms) :=
  removeObvious_good hK e

/-- `custom_simplify_logic`, for every `simplify_logic` meeting its spec -/
theorem customSimplify_sound {K : Kernel} (hK : K.Sound) {simp : BExp → BExp} (hS : SimpSound simp) (e : BExp) :
    (∀ ρ, (csl K simp e).eval ρ = e.eval ρ) ∧ (∀ s, s ∈ (csl K simp e).syms → s ∈ e.syms) :=
  csl_good hK hS e

/-- a transformer step of `BoolOptimizerProfile.apply` (map over the list) keeps the value of
*every* symbol, for every list (shared and re-bound intermediates included) -/
theorem transformerStep_sound {f : BExp → BExp}
    (hf : ∀ e, (∀ ρ, (f e).eval ρ = e.eval ρ) ∧ (∀ s, s ∈ (f e).syms → s ∈ e.syms)) (l : Defs) :
    (∀ ρ, evalDefs ρ (mapDefs f l) = evalDefs ρ l) ∧ Preserves l (mapDefs f l) :=
  ⟨evalDefs_mapDefs hf l, mapDefs_preserves hf l⟩

/-! ## merge_expressions, apply_cse -/

/-- `merge_expressions`: lists with shared and re-bound intermediates; a return symbol may even be
read, as long as it is not bound again afterwards (`RetDisc`) -/
theorem merge_sound {K : Kernel} (hK : K.Sound) {simp : BExp → BExp} (hS : SimpSound simp) {l : Defs}
    (hD : RetDisc l) : Preserves l (mergeExpressions K simp l) :=
  merge_preserves hK hS hD

/-- after `merge_expressions` only return symbols are bound, in the original order -/
theorem merge_keeps_returns (K : Kernel) (simp : BExp → BExp) (l : Defs) :
    names (mergeExpressions K simp l) = retNames l :=
  retNames_mergeGo K simp l []

/-- `apply_cse` from the spec of the one `cse` call it makes: repaired (`cseHoistsOverBindings` off)
on every list; as it is, on every list that is flat and whose names avoid the generated ones -/
theorem cse_sound {q : Quirks} {cse : List BExp → Defs × List BExp} {l : Defs}
    (hspec : CseSpec (l.map (·.2)) (cse (l.map (·.2))))
    (hq : q.cseHoistsOverBindings = false ∨ cseSafe l (cse (l.map (·.2))).1 = true) :
    Preserves l (applyCse q cse l) :=
  applyCse_preserves hspec hq

/-- the per-expression simplify of `translate_ast` is the identity on the list (see the model) -/
theorem frontSimplify_sound (simp : BExp → BExp) (l : Defs) : Preserves l (frontSimplify simp l) :=
  Preserves.refl l

/-! ## profiles -/

/-- every single step, both defects repaired -/
theorem step_sound {P : Params} (hP : P.Sound) (hq : Quirks.c04Repaired P.q) (s : Step) {l : Defs}
    (h : RetsNotRead l) : Preserves l (applyStep P s l) :=
  (applyStep_sound hP hq s h).1

/-- **every** step list built from the seven modelled steps, in any order and number -/
theorem profile_sound {P : Params} (hP : P.Sound) (hq : Quirks.c04Repaired P.q) (steps : List Step) {l : Defs}
    (h : RetsNotRead l) : Preserves l (applyProfile P steps l) :=
  (applyProfile_sound hP hq steps h).1

/-- the step lists written in `bool_optimizer.py` (regenerated from source on every run) consist of
modelled – hence proved – steps; whole finite table by `decide` -/
theorem shipped_profiles_modelled :
    (stepsOf Gen.defaultOptimizerSteps).isSome = true ∧ (stepsOf Gen.fastOptimizerSteps).isSome = true := by
  decide

/-- the property in full for the library with both listed defects repaired -/
theorem C04_full : C04_statement Quirks.none := by
  intro P hP hq _ steps _ l hl
  exact profile_sound hP (by rw [hq]; exact ⟨rfl, rfl⟩) steps hl

/-- a run on which the code as it is (`P.q` arbitrary) takes, at every step, the step the repaired
code takes -/
def NoTrigger (P : Params) : List Step → Defs → Prop
  | [], _ => True
  | s :: ss, l => applyStep P s l = applyStep { P with q := Quirks.none } s l ∧ NoTrigger P ss (applyStep P s l)

theorem noTrigger_eq (P : Params) : ∀ (steps : List Step) (l : Defs), NoTrigger P steps l →
    applyProfile P steps l = applyProfile { P with q := Quirks.none } steps l
  | [], _, _ => rfl
  | s :: ss, l, h => by
      simp only [applyProfile]
      rw [noTrigger_eq P ss _ h.2, h.1]

/-- the property for the code **as it is**, on every run that does not meet a listed defect -/
theorem C04_partial (P : Params) (hP : P.Sound) (steps : List Step) {l : Defs} (h : RetsNotRead l)
    (hT : NoTrigger P steps l) : Preserves l (applyProfile P steps l) := by
  rw [noTrigger_eq P steps l hT]
  exact profile_sound (P := { P with q := Quirks.none }) ⟨hP.kernel, hP.simp, hP.cse⟩ ⟨rfl, rfl⟩ steps h

/-- `or2xor` as it is (`q` arbitrary) is still sound on an `Or` of two **binary** `And`s – the quirk
only matters for wider ones -/
theorem or2xor_binary_quirk_free {K : Kernel} (q : Quirks) (a0 a1 b0 b1 : BExp) :
    or2xorCond K q a0 a1 b0 b1 2 2 = or2xorCond K { q with or2xorNoArity := false } a0 a1 b0 b1 2 2 :=
  or2xorCond_quirk_irrelevant

/-! ## hypotheses are satisfiable -/
example : Kernel.raw.Sound := Kernel.raw_sound
example : SimpSound id := fun e => Good.refl e
example : ∀ es, CseSpec es (([], es) : Defs × List BExp) := fun es =>
  ⟨rfl, fun _ => rfl, by simp [names], by simp [freeSyms], fun v h => Or.inl h⟩
example : Params.Sound ⟨Kernel.raw, Quirks.none, false, id, fun es => ([], es)⟩ :=
  ⟨Kernel.raw_sound, fun e => Good.refl e, fun es =>
    ⟨rfl, fun _ => rfl, by simp [names], by simp [freeSyms], fun v h => Or.inl h⟩⟩
example : RetsNotRead [("x", .and [.sym "a", .sym "b"]), ("x", .xor [.sym "x", .sym "c"]),
    ("_ret", .or [.sym "x", .sym "c"])] := by
  intro d hd v hv
  simp at hd
  rcases hd with rfl | rfl | rfl <;> simp [BExp.syms, symsList] at hv <;>
    (try rcases hv with rfl | rfl) <;> decide
example : shipped [Step.or2xor] := Or.inr (Or.inr ⟨_, rfl, Or.inl (by decide)⟩)

/-! ## witnesses of the listed defects (replayed on the real code on every run) -/

/-- `(a&b&c)|(~a&~b&~c)`, as sympy orders it -/
def or2xorWitness : Defs :=
  [("_ret", .or [.and [.sym "a", .sym "b", .sym "c"], .and [.not (.sym "a"), .not (.sym "b"), .not (.sym "c")]])]

/-- C04-or2xor-arity: the arity-blind rule rewrites it to `~(a^b)`, which differs at a=b=1, c=0 -/
theorem or2xor_witness :
    (mapDefs (or2xor Kernel.raw { or2xorNoArity := true }) or2xorWitness
      == [("_ret", .not (.xor [.sym "a", .sym "b"]))]) = true ∧
    evalDefs (envOf [("a", true), ("b", true)])
        (mapDefs (or2xor Kernel.raw { or2xorNoArity := true }) or2xorWitness) "_ret" = true ∧
    evalDefs (envOf [("a", true), ("b", true)]) or2xorWitness "_ret" = false ∧
    (mapDefs (or2xor Kernel.raw Quirks.none) or2xorWitness == or2xorWitness) = true := by
  decide

/-- `t = a&b; _ret.0 = (c^t)&d; _ret.1 = (c^t)|d` -/
def cseWitness : Defs :=
  [("t", .and [.sym "a", .sym "b"]), ("_ret.0", .and [.sym "d", .xor [.sym "c", .sym "t"]]),
   ("_ret.1", .or [.sym "d", .xor [.sym "c", .sym "t"]])]

/-- what `sympy.cse` returns on its right-hand sides -/
def cseWitnessCse : List BExp → Defs × List BExp := fun _ =>
  ([("x0", .xor [.sym "c", .sym "t"])],
   [.and [.sym "a", .sym "b"], .and [.sym "d", .sym "x0"], .or [.sym "d", .sym "x0"]])

/-- C04-cse-hoist: `x0 = c^t` is put before `t = a&b` and reads the *input* `t`; at a=b=d=1,
c=0, t=0 the original `_ret.0` is 1, the new one 0.  Repaired, the list is left alone. -/
theorem cse_witness :
    (applyCse { cseHoistsOverBindings := true } cseWitnessCse cseWitness
      == ("x0", .xor [.sym "c", .sym "t"]) ::
        [("t", .and [.sym "a", .sym "b"]), ("_ret.0", .and [.sym "d", .sym "x0"]),
         ("_ret.1", .or [.sym "d", .sym "x0"])]) = true ∧
    evalDefs (envOf [("a", true), ("b", true), ("d", true)])
        (applyCse { cseHoistsOverBindings := true } cseWitnessCse cseWitness) "_ret.0" = false ∧
    evalDefs (envOf [("a", true), ("b", true), ("d", true)]) cseWitness "_ret.0" = true ∧
    (applyCse Quirks.none cseWitnessCse cseWitness == cseWitness) = true := by
  decide

end QV.C04
