import Mathlib.Algebra.Group.TypeTags.Basic
import Mathlib.Algebra.Group.PUnit
import Mathlib.Data.ZMod.Defs
import QV.Proofs.CircuitOps
/-!
# C14 – Circuit composition operators compose

> Appending a circuit onto a list of qubits, adding two circuits, repeating a circuit n times and
> copying a circuit produce circuits whose action is, respectively, the appended circuit on those
> qubits after the first, the sequential composition, the n-fold composition and an independent
> equal circuit; removing adjacent identical gate pairs does not change the action; the inverse
> Fourier transform undoes the Fourier transform on any qubit list.  Operands are not modified.

Model: `QV.Model.CircuitOps` (operators of `qcircuit.py` / `qcircuitenhanced.py`, with Python
object identities).  Gate semantics is *any* `sem : GClass → Param → List Nat → M` into *any*
monoid `M`; `act sem c` is the product of the gates of `c.gates` in list (= time) order.
"Independent / not modified" is stated on the modelled heap: `Circ.objs` are the mutable objects
reachable from a circuit, `Circ.apply w c` is how `c` looks after the heap write `w`.

The operators of the model are pure functions returning the new `self` (in-place operators) or
the result; that an in-place operator leaves its *other* operand alone is therefore part of the
model <-> code correspondence (checked on every case by the harness, before and after mutating
the result), not a theorem.
-/
namespace QV.C14
open QV QV.CircuitOps

/-- `append_circuit`: action = self, then the other circuit's gates on the given qubits; `self`
keeps its list objects; every other mutable object of the result is newly allocated -/
def AppendSpec : Prop := ∀ (a b : Circ) (qs : List Nat) (nx : Nat) (r : Circ) (nx' : Nat),
  appendCircuit a b qs nx = .ok (r, nx') →
    (∀ (M : Type) [Monoid M] (sem : Sem M),
      act sem r = act sem a * actA sem (b.gates.map (fun h => relabelG qs h.g))) ∧
    (∀ o ∈ r.objs, o ∈ a.objs ∨ nx ≤ o) ∧ r.numQubits = a.numQubits ∧ r.qmap = a.qmap

/-- `a + b`: sequential composition, in a circuit that shares no mutable object with `a` or `b` -/
def AddSpec : Prop := ∀ (a b : Circ) (nx : Nat) (r : Circ) (nx' : Nat), add a b nx = .ok (r, nx') →
    (∀ (M : Type) [Monoid M] (sem : Sem M), act sem r = act sem a * act sem b) ∧
    (a.below nx → b.below nx → Independent r a ∧ Independent r b)

/-- `c.repeat(n)`: n-fold composition, independent of `c` -/
def RepeatSpec (q : Quirks) : Prop := ∀ (c : Circ) (n nx : Nat) (r : Circ) (nx' : Nat),
  «repeat» q c n nx = .ok (r, nx') →
    (∀ (M : Type) [Monoid M] (sem : Sem M), act sem r = act sem c ^ n) ∧ (c.below nx → Independent r c)

/-- `c.copy()`: equal (identities aside), same action, no shared mutable object, no shared gate
object; `vanilla`: gates equal, fresh qubit names, nothing else carried over -/
def CopySpec : Prop := ∀ (c : Circ) (v : Bool) (nx : Nat),
    (v = false → (copy c v nx).1.erase = c.erase) ∧
    (v = true → (copy c v nx).1.erase.gates = c.erase.gates ∧ (copy c v nx).1.numQubits = c.numQubits ∧
      (copy c v nx).1.computed = [] ∧ (copy c v nx).1.qmap = defaultQmap c.numQubits) ∧
    (∀ (M : Type) [Monoid M] (sem : Sem M), act sem (copy c v nx).1 = act sem c) ∧
    (c.below nx → Independent (copy c v nx).1 c ∧ ∀ o ∈ (copy c v nx).1.gids, o ∉ c.gids)

/-- `remove_identities` returns, and does not change the action -/
def RemoveIdSpec (q : Quirks) : Prop := ∀ (M : Type) [Monoid M] (sem : Sem M), CancelLaws sem →
  ∀ (c : Circ) (nx : Nat), GidFun c →
    ∃ r nx', removeIdentities q c nx = .ok (r, nx') ∧ act sem r = act sem c ∧ r.computed = c.computed

/-- `iqft` after `qft` on any duplicate-free qubit list: both go through and the action is the
one before -/
def FourierSpec : Prop := ∀ (M : Type) [Monoid M] (sem : Sem M), FourierLaws sem →
  ∀ (c : Circ) (wl : List Nat) (nx : Nat), wl.Nodup → (∀ w ∈ wl, w ≤ c.numQubits) →
    ∃ c1 nx1 c2 nx2, qft c wl nx = (c1, nx1, none) ∧ iqft c1 wl nx1 = (c2, nx2, none) ∧
      act sem c2 = act sem c

/-- the property, for the library with the listed defects repaired -/
def C14_statement : Prop :=
  AppendSpec ∧ AddSpec ∧ RepeatSpec Quirks.none ∧ CopySpec ∧ RemoveIdSpec Quirks.none ∧ FourierSpec

/-! ## theorems -/

theorem appendCircuit_spec : AppendSpec := by
  intro a b qs nx r nx' h
  refine ⟨fun _ _ sem => appendCircuit_act' sem h, ?_, ?_, ?_⟩
  · obtain ⟨og, oc, hg, hc, hw, h1, h2, h3, _, _⟩ := appendCircuit_new_wires h
    intro o ho
    simp only [Circ.objs, List.mem_cons, List.mem_append, List.mem_map, hg, hc, h1, h2, h3] at ho ⊢
    rcases ho with rfl | rfl | rfl | ⟨g, hg' | hg', rfl⟩ | ⟨g, hg' | hg', rfl⟩
    · exact Or.inl (Or.inl rfl)
    · exact Or.inl (Or.inr (Or.inl rfl))
    · exact Or.inl (Or.inr (Or.inr (Or.inl rfl)))
    · exact Or.inl (Or.inr (Or.inr (Or.inr (Or.inl ⟨g, hg', rfl⟩))))
    · exact Or.inr (hw g (List.mem_append_left _ hg'))
    · exact Or.inl (Or.inr (Or.inr (Or.inr (Or.inr ⟨g, hg', rfl⟩))))
    · exact Or.inr (hw g (List.mem_append_right _ hg'))
  · exact (appendCircuit_new_wires h).choose_spec.choose_spec.2.2.2.2.2.2.2
  · exact (appendCircuit_new_wires h).choose_spec.choose_spec.2.2.2.2.2.2.1

/-- `self += other` is `append_circuit` on `range(other.num_qubits)`: plain composition -/
theorem iadd_act {M : Type} [Monoid M] (sem : Sem M) (a b : Circ) (nx : Nat) (r : Circ) (nx' : Nat)
    (h : iaddCirc a b nx = .ok (r, nx')) : act sem r = act sem a * act sem b := iaddCirc_act' sem h

theorem add_spec : AddSpec := by
  intro a b nx r nx' h
  refine ⟨fun _ _ sem => add_act' sem h, fun ha hb => ?_⟩
  exact ⟨independent_of_fresh ha (add_objsFrom h), independent_of_fresh hb (add_objsFrom h)⟩

/-- `+` and `+=` go through whenever the right operand is not wider and its gates stay on its
own qubits -/
theorem add_defined (a b : Circ) (nx : Nat) (hn : b.numQubits ≤ a.numQubits) (hb : b.wiresOk = true) :
    ∃ r nx', add a b nx = .ok (r, nx') := by
  unfold add
  exact iaddCirc_isOk (a := (deepcopy a nx).1) _ (by simpa [deepcopy, Circ.shift] using hn) hb

theorem repeat_spec_full : RepeatSpec Quirks.none := by
  intro c n nx r nx' h
  exact ⟨fun _ _ sem => repeat_act' sem _ c n nx r nx' (Or.inr rfl) h,
    fun hc => independent_of_fresh hc (repeat_objsFrom h)⟩

/-- the code as it is: n-fold composition for every `n ≥ 1` -/
theorem repeat_spec_partial (q : Quirks) (c : Circ) (n nx : Nat) (r : Circ) (nx' : Nat) (hn : n ≠ 0)
    (h : «repeat» q c n nx = .ok (r, nx')) :
    (∀ (M : Type) [Monoid M] (sem : Sem M), act sem r = act sem c ^ n) ∧ (c.below nx → Independent r c) :=
  ⟨fun _ _ sem => repeat_act' sem q c n nx r nx' (Or.inl hn) h,
    fun hc => independent_of_fresh hc (repeat_objsFrom h)⟩

theorem copy_spec : CopySpec := by
  intro c v nx
  refine ⟨?_, ?_, fun _ _ sem => copy_act' sem c v nx, fun hc => ?_⟩
  · rintro rfl
    exact erase_shift c nx
  · rintro rfl
    simp [copy, Circ.erase, HGate.erase, HGate.shift, Function.comp_def]
  · exact ⟨independent_of_fresh hc (copy_objsFrom c v nx), gidsFrom_disjoint hc (copy_gidsFrom c v nx)⟩

theorem removeIdentities_spec_full : RemoveIdSpec Quirks.none := by
  intro M _ sem laws c nx hgid
  obtain ⟨r, hr⟩ := riLoop_none_ok c.gates.length c.gates []
  refine ⟨{ c with gates := r, gatesId := nx }, nx + 1, by simp [removeIdentities, hr], ?_, rfl⟩
  have := riLoop_act sem Quirks.none (fun g => g ∈ c.gates)
    (fun g h hg hh => hgid g hg h hh)
    (fun g _ hcan => laws.sq _ _ _ (by simpa [canCancel, Quirks.none] using hcan))
    (fun g _ hb => by simp only [gsem, hb]; exact laws.barrier _ _)
    c.gates.length c.gates [] r (fun g hg => hg) (by simp) hr
  simpa [act] using this

/-- the code as it is: on every gate list that does not run into a listed defect
(`riTriggers`: a pair cancelled while nothing is kept yet, or a cancelled non-involution) the
result is the repaired code's result -/
theorem removeIdentities_spec_partial (q : Quirks) (c : Circ) (nx : Nat) (ht : c.riTriggers = false) :
    removeIdentities q c nx = removeIdentities Quirks.none c nx := by
  simp only [removeIdentities, riLoop_noTrigger q _ _ _ ht]

theorem iqft_qft_spec : FourierSpec := by
  intro M _ sem laws c wl nx hnd hr
  have hv := fourier_gates_valid wl c.numQubits hnd hr
  have h1 := appendAll_eta c (qftGates wl) nx (appendAll_ok _ c nx hv.1)
  have hn := (appendAll_act sem _ _ _ _ _ h1).2
  have h2 := appendAll_eta (appendAll c (qftGates wl) nx).1 (iqftGates wl) (appendAll c (qftGates wl) nx).2.1
    (appendAll_ok _ _ _ (by rw [hn]; exact hv.2))
  refine ⟨_, _, _, _, h1, h2, ?_⟩
  rw [(appendAll_act sem _ _ _ _ _ h2).1, (appendAll_act sem _ _ _ _ _ h1).1, mul_assoc, ← actA_append,
    qft_iqft_gates sem laws wl hnd, mul_one]

/-- structural identity behind it, for every length -/
theorem iqft_structure (wl : List Nat) :
    iqftGates wl = swapLayer wl ++ (qftMain wl).reverse.map invGate ∧ qftGates wl = qftMain wl ++ swapLayer wl :=
  ⟨iqftGates_eq wl, rfl⟩

theorem C14_full : C14_statement :=
  ⟨appendCircuit_spec, add_spec, repeat_spec_full, copy_spec, removeIdentities_spec_full, iqft_qft_spec⟩

/-! ## witnesses: the model of the code as it is violates the property -/

def xGate (gid : Nat) : HGate := { g := { cls := .X, wires := [0], gid := gid }, wid := gid + 1 }
def sGate (gid : Nat) : HGate := { g := { cls := .S, wires := [0], gid := gid }, wid := gid + 1 }
def hGate1 : HGate := { g := { cls := .H, wires := [1], gid := 7 }, wid := 8 }
def circOf (n : Nat) (gs : List HGate) : Circ :=
  { numQubits := n, gates := gs, computed := gs, gatesId := 20, computedId := 21, qmapId := 22 }

/-- `repeat(0)` of the code is one copy: not the 0-fold composition -/
theorem repeat_zero_witness : ¬ RepeatSpec { repeatZero := true } := by
  intro h
  have := (h (circOf 1 [xGate 1]) 0 30 _ _ rfl).1 (Multiplicative Nat) countAll
  revert this
  decide

/-- the first two gates are the same applied gate: IndexError instead of a result -/
theorem removeIdentities_empty_result_witness :
    removeIdentities { removeIdEmptyResult := true } (circOf 2 [xGate 1, xGate 1, hGate1]) 30 = .error .indexError := by
  decide

theorem removeIdentities_empty_result_violates : ¬ RemoveIdSpec { removeIdEmptyResult := true } := by
  intro h
  obtain ⟨r, nx', hr, _⟩ := h (Multiplicative Nat) countS countS_laws (circOf 2 [xGate 1, xGate 1, hGate1]) 30
    (by decide)
  rw [removeIdentities_empty_result_witness] at hr
  cases hr

def hGate0 : HGate := { g := { cls := .H, wires := [0], gid := 7 }, wid := 8 }
def hss : Circ := circOf 1 [hGate0, sGate 1, sGate 1]

/-- `H, S, S` (the same S object twice) becomes `H` -/
theorem removeIdentities_non_involution_witness :
    removeIdentities { cancelsNonInvolutions := true } hss 30 = .ok ({ hss with gates := [hGate0], gatesId := 30 }, 31) := by
  decide

/-- … so the action changes (S·S = Z ≠ 1) under a semantics that satisfies the laws -/
theorem removeIdentities_non_involution_violates : ¬ RemoveIdSpec { cancelsNonInvolutions := true } := by
  intro h
  obtain ⟨r, nx', hr, ha, _⟩ := h (Multiplicative Nat) countS countS_laws hss 30 (by decide)
  rw [removeIdentities_non_involution_witness] at hr
  simp only [Except.ok.injEq, Prod.mk.injEq] at hr
  rw [← hr.1] at ha
  revert ha
  decide

/-! ## the hypotheses are satisfiable -/

/-- the laws hold in the trivial monoid, and (non-trivially) for `countS` -/
example : FourierLaws (fun _ _ _ => () : Sem Unit) := ⟨fun _ => rfl, fun _ _ => rfl, fun _ _ _ => rfl, fun _ _ _ _ _ _ _ => rfl⟩
example : CancelLaws countS := countS_laws
/-- commutative semantics satisfy `disjoint_comm`; this one tells H and CP gates apart from swaps -/
example : FourierLaws (fun c _ _ => if c = .Swap then Multiplicative.ofAdd (1 : ZMod 2) else 1 : Sem (Multiplicative (ZMod 2))) :=
  ⟨fun _ => by simp, fun _ _ => by decide, fun _ _ _ => by simp, fun _ _ _ _ _ _ _ => Commute.all _ _⟩
example : (circOf 2 [xGate 1, hGate1]).below 30 := by
  constructor <;> intro o ho <;> simp [circOf, Circ.objs, Circ.gids, xGate, hGate1] at ho <;> omega
example : GidFun (circOf 2 [xGate 1, xGate 1, hGate1]) := by decide
example : ∃ r nx', «repeat» Quirks.none (circOf 2 [xGate 1, hGate1]) 3 30 = .ok (r, nx') ∧ r.gates.length = 6 :=
  ⟨_, _, rfl, by decide⟩
example : ∃ r nx', appendCircuit (circOf 3 [hGate1]) (circOf 2 [xGate 1, hGate1]) [2, 0] 30 = .ok (r, nx') ∧
    r.gates.map (·.g.wires) = [[1], [2], [0]] := ⟨_, _, rfl, by decide⟩
example : (qft (circOf 3 []) [2, 0, 1] 30).2.2 = none := by decide
example : ∃ r nx', removeIdentities { removeIdEmptyResult := true, cancelsNonInvolutions := true }
    (circOf 2 [hGate1, xGate 1, xGate 1]) 30 = .ok (r, nx') ∧ r.gates = [hGate1] := ⟨_, _, rfl, by decide⟩

end QV.C14
