import QV.Model.CircuitOps
namespace QV.C14
theorem placeholder : True := trivial
end QV.C14
