import QV.Model.Bqm
import QV.Proofs.Bqm
import QV.Props.C09
import QV.Gen.Tables
/-!
# C18 – The quadratic-model export has the function's minimisers as ground states

Property (from `/verif/properties.jsonl`): for every function, the minimum-energy input
assignments of the binary quadratic model built from it (in every offered format) are exactly
the inputs that make the fewest return bits true - in particular the zeros of the function when
it has any, at energy zero - and the model mentions every argument bit the function depends on
and no variable foreign to it other than declared auxiliaries.  Decoding a sample set returns,
per sample, the argument values spelled by the sample's input variables in the arguments'
high-level types.

The theorems are about `QV.Model.Bqm` (the model of `qlasskit/bqm.py` and of
`merge_expressions`), for **every** expression list, **every** assignment, **every** nested
argument type.  Stated assumptions, not proved here:
* the meaning of a pyqubo tree is the documented polynomial of its nodes (`PExp.eval`);
  `compile()` and the exporters `to_bqm/to_qubo/to_ising` of real pyqubo are outside the model
  (the four formats share the one tree; that real pyqubo keeps its ground states is not shown);
* `custom_simplify_logic` (sympy) preserves truth tables - hypothesis `hs` below.

"Rejected" inputs (`toBqm … = .error _`: an `Or` with other than two operands, `ITE`/`Implies`
left in an expression, all return bits constant, no return bit) build no model; the theorems
say nothing about them.

`C18_statement q` is the full property for the model with quirk set `q`.  It is proved for the
repaired library (`C18_repaired`, flag off = `docs/fixes/C18-ret-symbol.diff`) and, for the code
as it is, under the guard "no merged return expression is a bare symbol" (`C18_current_partial`);
without the guard the code as it is violates it (`retSymbolAndConst_witness`,
`C18_fails_with_quirk`).
-/
namespace QV.C18
open QV QV.Bqm QV.Types

/-- number of return bits the function makes true on input `σ` -/
def trueBits (exprs : List (String × BExp)) (σ : Env) : Nat := countTrue (retVals σ exprs)

/-- `σ` is a minimum of `f` over all assignments -/
def IsMin {α : Type} [LE α] (f : Env → α) (σ : Env) : Prop := ∀ τ, f σ ≤ f τ

/-- names of the return definitions: the variables `to_bqm` declares besides the argument bits -/
def retNames (exprs : List (String × BExp)) : List String :=
  (exprs.filter fun se => isRet se.1).map (·.1)

/-- flip one input bit -/
def flip (σ : Env) (b : String) : Env := update σ b (!σ b)

/-- The property, for the model with quirk set `q`, any truth-table preserving simplifier,
any argument bits, expression list and format for which a model is built. -/
def C18_statement (q : Quirks) : Prop :=
  ∀ (simp : BExp → BExp), (∀ e ρ, (simp e).eval ρ = e.eval ρ) →
  ∀ (argBits : List String) (exprs : List (String × BExp)) (fmt : String) (p : PExp),
    toBqm q simp argBits exprs fmt = .ok p →
      (∀ σ, IsMin (energy p) σ ↔ IsMin (trueBits exprs) σ) ∧
      (∀ σ, trueBits exprs σ = 0 → energy p σ = 0 ∧ IsMin (energy p) σ) ∧
      (∀ v ∈ p.vars, v ∈ argBits ∨ v ∈ retNames exprs) ∧
      (∀ b σ, retVals σ exprs ≠ retVals (flip σ b) exprs → b ∈ p.vars) ∧
      (∀ fmt' ∈ formats, toBqm q simp argBits exprs fmt' = .ok p)

/-! ## The polynomial of a translated expression is its indicator -/

/-- `SympyToBQM.visit`: n-ary `And`/`Xor` folded pairwise, binary `Or`, `Not`, constants -
the polynomial of the tree is 1 where the expression is true and 0 where it is false -/
theorem poly_eval (vars : List String) (σ : Env) (e : BExp) (p : PExp)
    (h : visit vars e = .ok p) : p.eval σ = if e.eval σ then 1 else 0 :=
  visit_eval vars σ e p h

example : visit ["a", "b", "c"] (.and [.sym "a", .not (.sym "b"), .xor [.sym "a", .sym "c"]])
    = .ok (.and (.bin "a") (.and (.not (.bin "b")) (.xor (.bin "a") (.bin "c")))) := by decide

/-! ## `merge_expressions` keeps the function -/

/-- inlining the intermediate definitions (with any truth-table preserving simplifier) leaves,
per return bit, an expression whose value on the inputs is that bit -/
theorem merge_preserves_function (simp : BExp → BExp) (hs : ∀ e ρ, (simp e).eval ρ = e.eval ρ)
    (ρ : Env) (exprs : List (String × BExp)) :
    (merge simp exprs).map (fun se => se.2.eval ρ) = retVals ρ exprs := by
  simpa [merge, substEnv_nil] using mergeGo_sound simp hs ρ exprs []

/-- every definition left by `merge_expressions` is a `_ret…` one -/
theorem merge_only_returns (simp : BExp → BExp) (exprs : List (String × BExp)) :
    ∀ se ∈ merge simp exprs, isRet se.1 = true :=
  mergeGo_names simp exprs []

/-! ## Energy = number of true return bits -/

/-- on merged expressions: the tree's polynomial counts the true return bits - for the code as
it is (`q` arbitrary) when no return expression is a bare symbol, for the repaired code always -/
theorem energy_merged (q : Quirks) (argBits : List String) (merged : List (String × BExp))
    (fmt : String) (p : PExp) (σ : Env)
    (hr : ∀ se ∈ merged, isRet se.1 = true)
    (hq : q.retSymbolAndConst = false ∨ ∀ se ∈ merged, isSym se.2 = false)
    (h : toBqmMerged q argBits merged fmt = .ok p) :
    energy p σ = (countTrue (merged.map fun se => se.2.eval σ) : Nat) := by
  obtain ⟨hs, _, _⟩ := (toBqmMerged_ok q argBits merged fmt p).mp h
  have he := sumTerms_eval q σ merged argBits none (some p) hr hq hs
  rw [← countInt_eq]
  simpa [accEval, energy] using he

/-- repaired code: the energy of every assignment is the number of return bits the function
makes true on it -/
theorem energy_counts_true_bits (simp : BExp → BExp) (hs : ∀ e ρ, (simp e).eval ρ = e.eval ρ)
    (argBits : List String) (exprs : List (String × BExp)) (fmt : String) (p : PExp) (σ : Env)
    (h : toBqm Quirks.none simp argBits exprs fmt = .ok p) :
    energy p σ = (trueBits exprs σ : Nat) := by
  unfold toBqm at h
  rw [energy_merged Quirks.none argBits _ fmt p σ (merge_only_returns simp exprs) (Or.inl rfl) h,
    merge_preserves_function simp hs]
  rfl

/-- the code as it is: the same, provided no merged return expression is a bare symbol -/
theorem energy_counts_true_bits_current (q : Quirks) (simp : BExp → BExp)
    (hs : ∀ e ρ, (simp e).eval ρ = e.eval ρ)
    (argBits : List String) (exprs : List (String × BExp)) (fmt : String) (p : PExp) (σ : Env)
    (hg : ∀ se ∈ merge simp exprs, isSym se.2 = false)
    (h : toBqm q simp argBits exprs fmt = .ok p) :
    energy p σ = (trueBits exprs σ : Nat) := by
  unfold toBqm at h
  rw [energy_merged q argBits _ fmt p σ (merge_only_returns simp exprs) (Or.inr hg) h,
    merge_preserves_function simp hs]
  rfl

/-! ## Ground states -/

/-- if the energy is the number of true return bits, the minimum-energy assignments are exactly
the assignments with the fewest true return bits -/
theorem ground_states (p : PExp) (exprs : List (String × BExp))
    (he : ∀ σ, energy p σ = (trueBits exprs σ : Nat)) (σ : Env) :
    IsMin (energy p) σ ↔ IsMin (trueBits exprs) σ := by
  unfold IsMin
  constructor
  · intro h τ; have := h τ; rw [he, he] at this; exact Int.ofNat_le.mp this
  · intro h τ; rw [he, he]; exact Int.ofNat_le.mpr (h τ)

/-- … and every zero of the function has energy zero and is a ground state -/
theorem zeros_at_energy_zero (p : PExp) (exprs : List (String × BExp))
    (he : ∀ σ, energy p σ = (trueBits exprs σ : Nat)) (σ : Env) (hz : trueBits exprs σ = 0) :
    energy p σ = 0 ∧ IsMin (energy p) σ := by
  refine ⟨by rw [he, hz]; rfl, ?_⟩
  intro τ; rw [he, he, hz]; exact Int.ofNat_le.mpr (Nat.zero_le _)

/-! ## Variables -/

/-- repaired code, on merged expressions: the variables of the tree are exactly the symbols of
the merged return expressions (in order), and each of them is an argument bit or one of the
declared return names -/
theorem vars_ok (argBits : List String) (merged : List (String × BExp)) (fmt : String) (p : PExp)
    (hr : ∀ se ∈ merged, isRet se.1 = true)
    (h : toBqmMerged Quirks.none argBits merged fmt = .ok p) :
    p.vars = defsSyms merged ∧ ∀ v ∈ p.vars, v ∈ argBits ∨ v ∈ merged.map (·.1) := by
  obtain ⟨hs, _, _⟩ := (toBqmMerged_ok Quirks.none argBits merged fmt p).mp h
  have hv := sumTerms_vars Quirks.none rfl merged argBits none (some p) hr hs
  simp only [accVars, List.nil_append] at hv
  exact ⟨hv.1, fun v hv' => hv.2 v (hv.1 ▸ hv')⟩

/-- an input bit on which some return bit depends is a variable of the tree (repaired code) -/
theorem depends_mentioned (simp : BExp → BExp) (hs : ∀ e ρ, (simp e).eval ρ = e.eval ρ)
    (argBits : List String) (exprs : List (String × BExp)) (fmt : String) (p : PExp)
    (h : toBqm Quirks.none simp argBits exprs fmt = .ok p) (b : String) (σ : Env)
    (hd : retVals σ exprs ≠ retVals (flip σ b) exprs) : b ∈ p.vars := by
  unfold toBqm at h
  have hv := (vars_ok argBits _ fmt p (merge_only_returns simp exprs) h).1
  rw [hv]
  by_cases hb : b ∈ defsSyms (merge simp exprs)
  · exact hb
  · exfalso; apply hd
    rw [← merge_preserves_function simp hs, ← merge_preserves_function simp hs]
    apply defs_congr
    intro n hn
    have : b ≠ n := fun hbn => hb (hbn ▸ hn)
    simp [flip, update, this]

/-- the four offered formats receive the same tree (pyqubo's exporters are not modelled) -/
theorem formats_same_tree (q : Quirks) (simp : BExp → BExp) (argBits : List String)
    (exprs : List (String × BExp)) (fmt : String) (p : PExp)
    (h : toBqm q simp argBits exprs fmt = .ok p) :
    ∀ fmt' ∈ formats, toBqm q simp argBits exprs fmt' = .ok p := by
  intro fmt' hf
  unfold toBqm at h ⊢
  obtain ⟨hs, hn, _⟩ := (toBqmMerged_ok q argBits _ fmt p).mp h
  exact (toBqmMerged_ok q argBits _ fmt' p).mpr ⟨hs, hn, by simpa using hf⟩

/-- the formats of the model are the formats the source offers (`BQMFormat`, table regenerated
from bqm.py on every run) -/
theorem formats_from_source : formats = Gen.bqmFormats := by decide

/-- an unknown format is refused -/
theorem unknown_format_refused (q : Quirks) (simp : BExp → BExp) (argBits : List String)
    (exprs : List (String × BExp)) (fmt : String) (p : PExp)
    (h : toBqm q simp argBits exprs fmt = .ok p) : fmt ∈ formats := by
  unfold toBqm at h
  obtain ⟨_, _, hc⟩ := (toBqmMerged_ok q argBits _ fmt p).mp h
  simpa using hc

/-! ## The property -/

theorem retNames_merge (simp : BExp → BExp) (exprs : List (String × BExp)) :
    (merge simp exprs).map (·.1) = retNames exprs := by
  have : ∀ (l emap : List (String × BExp)),
      (mergeGo simp emap l).map (·.1) = (l.filter fun se => isRet se.1).map (·.1) := by
    intro l
    induction l with
    | nil => intro; rfl
    | cons a l ih =>
      intro emap
      obtain ⟨s, e⟩ := a
      simp only [mergeGo, List.filter]
      cases hr : isRet s <;> simp [ih]
  exact this exprs []

/-- the full property holds for the repaired library (quirk flag off) -/
theorem C18_repaired : C18_statement Quirks.none := by
  intro simp hs argBits exprs fmt p h
  have he : ∀ σ, energy p σ = (trueBits exprs σ : Nat) := fun σ =>
    energy_counts_true_bits simp hs argBits exprs fmt p σ h
  refine ⟨ground_states p exprs he, zeros_at_energy_zero p exprs he, ?_,
    fun b σ hd => depends_mentioned simp hs argBits exprs fmt p h b σ hd,
    formats_same_tree _ simp argBits exprs fmt p h⟩
  have hv := vars_ok argBits _ fmt p (merge_only_returns simp exprs) h
  intro v hvm
  rw [← retNames_merge simp]
  exact hv.2 v hvm

/-- the code as it is (any quirk set): ground states and zeros are right whenever no merged
return expression is a bare symbol.  Missing relative to `C18_statement`: the unguarded case
(false, see the witness) and the two variable clauses (not proved for the quirk model). -/
theorem C18_current_partial (q : Quirks) (simp : BExp → BExp)
    (hs : ∀ e ρ, (simp e).eval ρ = e.eval ρ)
    (argBits : List String) (exprs : List (String × BExp)) (fmt : String) (p : PExp)
    (hg : ∀ se ∈ merge simp exprs, isSym se.2 = false)
    (h : toBqm q simp argBits exprs fmt = .ok p) :
    (∀ σ, IsMin (energy p) σ ↔ IsMin (trueBits exprs) σ) ∧
    (∀ σ, trueBits exprs σ = 0 → energy p σ = 0 ∧ IsMin (energy p) σ) ∧
    (∀ fmt' ∈ formats, toBqm q simp argBits exprs fmt' = .ok p) := by
  have he : ∀ σ, energy p σ = (trueBits exprs σ : Nat) := fun σ =>
    energy_counts_true_bits_current q simp hs argBits exprs fmt p σ hg h
  exact ⟨ground_states p exprs he, zeros_at_energy_zero p exprs he,
    formats_same_tree q simp argBits exprs fmt p h⟩

-- the hypotheses are satisfiable: a two-bit adder, with an intermediate definition
example : (match toBqm Quirks.none id ["a.0", "a.1", "b.0", "b.1"]
    [("c", .and [.sym "a.0", .sym "b.0"]),
     ("_ret.0", .xor [.sym "a.0", .sym "b.0"]),
     ("_ret.1", .xor [.sym "a.1", .sym "b.1", .sym "c"])] "qubo" with
    | .ok _ => true | .error _ => false) = true ∧
    ∀ se ∈ merge id [("c", .and [.sym "a.0", .sym "b.0"]),
     ("_ret.0", .xor [.sym "a.0", .sym "b.0"]),
     ("_ret.1", .xor [.sym "a.1", .sym "b.1", .sym "c"])], isSym se.2 = false :=
  ⟨by decide, by decide⟩

/-! ## The defect: a return bit that is a bare symbol -/

/-- `f(a) = a` through the code as it is: the tree is `AndConst(a, a, _ret)`; the assignment
`a = 1, _ret = 1` has energy 0 - a ground state - although the function returns a true bit
there, while `a = 0` returns none -/
theorem retSymbolAndConst_witness :
    toBqm { retSymbolAndConst := true } id ["a"] [("_ret", .sym "a")] "bqm"
      = .ok (.andConst (.bin "a") (.bin "a") (.bin "_ret") "_ret") ∧
    energy (.andConst (.bin "a") (.bin "a") (.bin "_ret") "_ret")
      (fun n => n == "a" || n == "_ret") = 0 ∧
    trueBits [("_ret", .sym "a")] (fun n => n == "a" || n == "_ret") = 1 ∧
    trueBits [("_ret", .sym "a")] (fun _ => false) = 0 := by decide

/-- the repaired code on the same function: the tree is the variable itself -/
theorem retSymbol_repaired_witness :
    toBqm Quirks.none id ["a"] [("_ret", .sym "a")] "bqm" = .ok (.bin "a") := by decide

/-- hence the property fails for the code as it is -/
theorem C18_fails_with_quirk : ¬ C18_statement { retSymbolAndConst := true } := by
  intro hC
  have h := hC id (fun _ _ => rfl) ["a"] [("_ret", .sym "a")] "bqm" _ retSymbolAndConst_witness.1
  have hmin : IsMin (energy (.andConst (.bin "a") (.bin "a") (.bin "_ret") "_ret"))
      (fun n => n == "a" || n == "_ret") := by
    intro τ
    rw [retSymbolAndConst_witness.2.1]
    simp only [energy, PExp.eval]
    cases τ "a" <;> cases τ "_ret" <;> decide
  have := (h.1 _).mp hmin (fun _ => false)
  rw [retSymbolAndConst_witness.2.2.1, retSymbolAndConst_witness.2.2.2] at this
  exact absurd this (by decide)

/-! ## `decode_samples` -/

/-- each argument is decoded from exactly the bits the sample gives to its bit-vector (any
value for a variable the sample lacks), by C09's `interpret` in the argument's type -/
theorem decode_spells_sample (sample : List (String × Bool)) (fill : String → Bool)
    (args : List Arg) (hl : ∀ a ∈ args, a.bitvec.length = a.ty.size) :
    decodeSample sample fill args
      = args.map fun a => (a.name, interpret a.ty (sampleBits sample fill a.bitvec)) := by
  unfold decodeSample
  apply List.map_congr_left
  intro a ha
  rw [decodeArg_eq sample fill a (hl a ha)]

/-- so a sample whose input variables spell the encoding of a well-typed value decodes to that
value (with C09's `interpret_encode`) -/
theorem decode_inverts_encoding (sample : List (String × Bool)) (fill : String → Bool)
    (a : Arg) (v : QVal) (hw : C09.WT a.ty v)
    (hb : sampleBits sample fill a.bitvec = encode a.ty v) :
    decodeArg sample fill a = v := by
  have hl : a.bitvec.length = a.ty.size := by
    have := C09.encode_length a.ty v hw
    rw [← hb] at this
    simpa [sampleBits] using this
  rw [decodeArg_eq sample fill a hl, hb, C09.interpret_encode a.ty v hw]

example : beqVals ((decodeSample [("a.0", true), ("a.1", false), ("b", true)] (fun _ => false)
    [⟨"a", .qint 2, ["a.0", "a.1"]⟩, ⟨"b", .bool, ["b"]⟩, ⟨"c", .bool, ["c"]⟩]).map (·.2))
    [.int 1, .bool true, .bool false] = true := by decide

end QV.C18
