import QV.Proofs.Bind
import QV.Proofs.BindTyped
import QV.Proofs.BindAnn
/-!
# C08 – Binding parameters is specialisation

> For a function with compile-time parameters, binding them to values v yields a function of the
> remaining arguments that agrees, on every input, with the unbound Python function called with
> the parameters set to v, for every supported parameter type, any number of parameters and any
> keyword order.  Binding does not alter the unbound object, so it can be bound again to other
> values.

Model: `QV/Model/Bind.lean` (`UnboundQlassf.bind`, `is_parameter_annotation`, the parameter
detection of `QlassF.from_function`, `to_val`).  The theorems hold for **every** value algebra
`A : Alg` (operators and constants are parameters of the evaluator), in particular for Python's
own values (`PyAlg`) and for qlasskit's width-aware values (`WAlg`); for every program, every
number of parameters, every keyword list and every argument list.

The one listed defect is the quirk `bindDropsType`: `bind` injects `k = v` as a bare literal,
so the declared `Parameter[T]` is lost and the constant is typed by `const_to_qtype` (smallest
`Qint` that holds the value).  Python's values do not notice (`bind_sem_python` holds for the
code as it is); the width-aware values do (`bind_drops_type_witness`).

The repaired `bind` (quirk off; docs/fixes/C08-bind-typed-constants.diff) injects the typed assignment
`k: T = v` whenever `v` is a value of the declared type `T` (`isValueOf`, `Prog.keptTy`) and the bare
literal otherwise (`bind_keeps_declared_type`).  "At their declared types" below is `Prog.keptTy`: the
declared type for a value of it; a keyword value that is no value of the declared type (15 for `Qint[3]`,
a tuple of the wrong length, any value of a parameter declared `Parameter[List[int]]`) has no declared-type
reading and keeps the type of its literal.  For a value of the declared type the typed constant never fails
and is exactly the declared-width encoding (`typed_const_qint`, `typed_const_defined`).
-/
namespace QV.C08
open QV QV.Bind

/-- what CPython guarantees of a function definition, plus: every argument `bind` removes is one
    `from_function` registered (the two detectors agree on this signature) -/
def WellFormed (p : Prog) : Prop :=
  (p.args.map (·.name)).Nodup ∧ ∀ a ∈ p.args, isParamBind a.ann = isParamFrom a.ann

/-- keyword arguments have distinct names (a Python call cannot repeat a keyword) -/
def KwOk (kv : List (String × PyVal)) : Prop := (kv.map (·.1)).Nodup

/-- **The property**, for the library whose `bind` has quirks `q`.  For every value algebra:
 (1) a successful bind denotes the unbound function with the parameters set to the given values
     *at their declared types*, on every argument list (any number of parameters, any keyword
     order); (2) bind succeeds exactly when the keywords are the parameters (in some order);
 (3) the unbound object is the same after any history of binds, and a bind after any history
     returns what it returns on the fresh object. -/
def C08_statement_for (q : Quirks) : Prop :=
  (∀ (A : Alg) (p : Prog) (kv : List (String × PyVal)) (xs : List A.V) (p' : Prog),
      WellFormed p → KwOk kv → QV.Bind.bind q p kv = .ok p' →
        Sem A p' xs = specialised A p.keptTy p kv xs)
  ∧ (∀ (p : Prog) (kv : List (String × PyVal)), WellFormed p → KwOk kv →
      ((∃ p', QV.Bind.bind q p kv = .ok p') ↔ (kv.map (·.1)).Perm p.paramNames))
  ∧ (∀ (u : Unbound) (hist : List (List (String × PyVal))) (kv : List (String × PyVal)),
      u.after q hist = u ∧ ((u.after q hist).bindStep q kv).2 = QV.Bind.bind q u.funAst kv)

def C08_statement : Prop := C08_statement_for Quirks.none

/-! ## the shape of a bound program, errors -/

/-- what a successful bind returns: the arguments that are not `Parameter[...]`, the constant
    assignments in keyword order in front of the unchanged body -/
theorem bind_shape (q : Quirks) (p p' : Prog) (kv : List (String × PyVal))
    (h : QV.Bind.bind q p kv = .ok p') :
    p'.name = p.name ∧ p'.args = nonParams p.args ∧ p'.body = injected q p kv ++ p.body
      ∧ p'.ret = p.ret := by
  unfold QV.Bind.bind at h
  split at h
  · cases h
  · split at h
    · cases h
    · cases h; exact ⟨rfl, rfl, rfl, rfl⟩

/-- the length error is raised first, and exactly when the number of keywords differs -/
theorem bind_length_error_iff (q : Quirks) (p : Prog) (kv : List (String × PyVal)) :
    QV.Bind.bind q p kv = .error .lengthMismatch ↔ kv.length ≠ p.parameters.length := by
  unfold QV.Bind.bind
  by_cases h : kv.length = p.parameters.length
  · simp only [h, bne_self_eq_false, Bool.false_eq_true, if_false, ne_eq, not_true, iff_false]
    split <;> simp
  · simp [h]

/-- "Unknown parameter k": right arity, and `k` is the first keyword that is not a parameter -/
theorem bind_unknown_error_iff (q : Quirks) (p : Prog) (kv : List (String × PyVal)) (k : String) :
    QV.Bind.bind q p kv = .error (.unknown k) ↔
      kv.length = p.parameters.length ∧ firstUnknown p.paramNames kv = some k := by
  unfold QV.Bind.bind
  by_cases h : kv.length = p.parameters.length
  · simp only [h, bne_self_eq_false, Bool.false_eq_true, if_false, true_and]
    split
    · rename_i k' hk; rw [hk]; simp
    · rename_i hk; rw [hk]; simp
  · simp [h]

/-- the unknown keyword reported is one of the keywords and is not a parameter -/
theorem bind_unknown_is_unknown (q : Quirks) (p : Prog) (kv : List (String × PyVal)) (k : String)
    (h : QV.Bind.bind q p kv = .error (.unknown k)) : k ∈ kv.map (·.1) ∧ k ∉ p.paramNames :=
  firstUnknown_some _ _ _ ((bind_unknown_error_iff q p kv k).mp h).2

/-- bind succeeds iff the arity is right and every keyword is a parameter -/
theorem bind_ok_iff (q : Quirks) (p : Prog) (kv : List (String × PyVal)) :
    (∃ p', QV.Bind.bind q p kv = .ok p') ↔
      kv.length = p.parameters.length ∧ ∀ k ∈ kv.map (·.1), k ∈ p.paramNames := by
  unfold QV.Bind.bind
  by_cases h : kv.length = p.parameters.length
  · simp only [h, bne_self_eq_false, Bool.false_eq_true, if_false, true_and]
    cases hf : firstUnknown p.paramNames kv with
    | none =>
      simp only [Except.ok.injEq, exists_eq', true_iff]
      exact firstUnknown_none _ _ hf
    | some k =>
      have := firstUnknown_some _ _ _ hf
      simp only [reduceCtorEq, exists_false, false_iff]
      intro hall
      exact this.2 (hall k this.1)
  · simp [h]

theorem paramNames_nodup (p : Prog) (hwf : WellFormed p) : p.paramNames.Nodup := by
  rw [paramNames_eq p hwf.2]
  exact List.Nodup.sublist (List.Sublist.map _ List.filter_sublist) hwf.1

/-- **errors exactly on an arity / name mismatch**: with distinct keywords, bind succeeds iff the
    keywords are a permutation of the parameters -/
theorem bind_ok_iff_perm (q : Quirks) (p : Prog) (kv : List (String × PyVal))
    (hwf : WellFormed p) (hkw : KwOk kv) :
    (∃ p', QV.Bind.bind q p kv = .ok p') ↔ (kv.map (·.1)).Perm p.paramNames := by
  rw [bind_ok_iff]
  have hlen : p.parameters.length = p.paramNames.length := by simp [Prog.paramNames]
  constructor
  · rintro ⟨hl, hsub⟩
    have hsp : (kv.map (·.1)).Subperm p.paramNames := List.Nodup.subperm hkw hsub
    exact hsp.perm_of_length_le (by simp [← hlen, ← hl])
  · intro hp
    refine ⟨by rw [hlen, ← hp.length_eq]; simp, fun k hk => hp.subset hk⟩

/-! ## specialisation -/

/-- **bind is specialisation**, for the library as it is (any quirks), any value algebra, any
    number of parameters, any keyword order, every argument list: the bound program denotes the
    unbound one with the parameter arguments set to the injected constants (coerced to
    `tyOf q p k`: the declared type, or nothing with the quirk). -/
theorem bind_sem (A : Alg) (q : Quirks) (p p' : Prog) (kv : List (String × PyVal)) (xs : List A.V)
    (hwf : WellFormed p) (hkw : KwOk kv) (hb : QV.Bind.bind q p kv = .ok p') :
    Sem A p' xs = specialised A (tyOf q p) p kv xs := by
  obtain ⟨hname, hargs, hbody, hret⟩ := bind_shape q p p' kv hb
  have hok := (bind_ok_iff q p kv).mp ⟨p', hb⟩
  have hpn := paramNames_eq p hwf.2
  have hcover : ∀ n ∈ p.paramNames, n ∈ kv.map (·.1) :=
    keys_cover _ _ hkw hok.2 (by simpa [Prog.paramNames] using hok.1)
  unfold specialised Sem
  rw [hargs, hbody, hret]
  simp only [execStmts_append, injected, execStmts_injected]
  cases hvals : kvVals A (tyOf q p) kv with
  | none =>
    simp only [Option.map, Option.bind]
    cases bindArgs (List.map (fun x => x.name) (nonParams p.args)) xs Env.empty <;> rfl
  | some vals =>
    have hkeys := kvVals_keys A _ kv vals hvals
    have hvnd : (vals.map (·.1)).Nodup := by rw [hkeys]; exact hkw
    have hall : ∀ a ∈ p.args, isParamBind a.ann = true → (lookupS vals a.name).isSome := by
      intro a ha hp
      apply lookupS_isSome_of_mem
      rw [hkeys]
      apply hcover
      rw [hpn]
      exact List.mem_map.mpr ⟨a, List.mem_filter.mpr ⟨ha, hp⟩, rfl⟩
    have hkin : ∀ k ∈ vals.map (·.1), k ∈ p.args.map (·.name) := by
      intro k hk
      rw [hkeys] at hk
      have := hok.2 k hk
      rw [hpn] at this
      obtain ⟨a, ha, rfl⟩ := List.mem_map.mp this
      exact List.mem_map.mpr ⟨a, (List.mem_filter.mp ha).1, rfl⟩
    have hnon : ∀ a ∈ p.args, isParamBind a.ann = false → lookupS vals a.name = none := by
      intro a ha hp
      apply lookupS_none_of_not_mem
      rw [hkeys]
      intro hk
      have := hok.2 _ hk
      rw [hpn] at this
      obtain ⟨b, hb', hbn⟩ := List.mem_map.mp this
      have hbm := List.mem_filter.mp hb'
      -- distinct argument names: b = a
      have : b = a := by
        have hinj := List.inj_on_of_nodup_map hwf.1
        exact hinj hbm.1 ha hbn
      subst this
      simp [hp] at hbm
    have hspec := merge_spec vals p.args xs hall hnon
    by_cases hlen : xs.length = (nonParams p.args).length
    · simp only [hlen, if_true] at hspec
      obtain ⟨all, hm, hlen', _⟩ := hspec
      obtain ⟨_, henv⟩ := env_merge vals p.args xs all hwf.1 hvnd hall hnon hkin hlen hm
      simp only [Option.map, Option.bind, hm, bindArgs_eq]
      simp only [List.length_map, hlen, hlen', if_true]
      rw [henv]
    · simp only [hlen, if_false] at hspec
      simp only [Option.map, Option.bind, hspec, bindArgs_eq, List.length_map]
      have : ¬ (nonParams p.args).length = xs.length := fun h => hlen h.symm
      simp [this]

/-- a keyword list **does not run into the defect** when every value, coerced to its declared
    type, is the same constant as without coercion -/
def NoTrigger (A : Alg) (q : Quirks) (p : Prog) (kv : List (String × PyVal)) : Prop :=
  q.bindDropsType = true → ∀ k v, (k, v) ∈ kv → constVal A (p.keptTy k v) v = constVal A none v

theorem kvVals_congr (A : Alg) (ty ty' : String → PyVal → Option Ty) (kv : List (String × PyVal))
    (h : ∀ k v, (k, v) ∈ kv → constVal A (ty k v) v = constVal A (ty' k v) v) :
    kvVals A ty kv = kvVals A ty' kv := by
  induction kv with
  | nil => rfl
  | cons hd t ih =>
    obtain ⟨k, v⟩ := hd
    simp only [kvVals]
    rw [h k v (by simp), ih (fun k v hkv => h k v (by simp [hkv]))]

/-- **the property for the code as it is, away from the listed defect** -/
theorem C08_partial (A : Alg) (q : Quirks) (p p' : Prog) (kv : List (String × PyVal))
    (xs : List A.V) (hwf : WellFormed p) (hkw : KwOk kv) (hb : QV.Bind.bind q p kv = .ok p')
    (hnt : NoTrigger A q p kv) :
    Sem A p' xs = specialised A p.keptTy p kv xs := by
  rw [bind_sem A q p p' kv xs hwf hkw hb]
  unfold specialised
  rw [kvVals_congr A (tyOf q p) p.keptTy kv]
  intro k v hkv
  unfold tyOf
  cases hq : q.bindDropsType
  · simp
  · simp only [if_true]
    exact (hnt hq k v hkv).symm

/-- Python's values carry no declared type: for them the code as it is (any quirks) satisfies the
    specification on every program, keyword list and argument list -/
theorem bind_sem_python (q : Quirks) (p p' : Prog) (kv : List (String × PyVal)) (xs : List PV)
    (hwf : WellFormed p) (hkw : KwOk kv) (hb : QV.Bind.bind q p kv = .ok p') :
    Sem PyAlg p' xs = specialised PyAlg p.keptTy p kv xs := by
  apply C08_partial PyAlg q p p' kv xs hwf hkw hb
  intro _ k v _
  unfold constVal
  cases evalExp PyAlg Env.empty (toVal v) with
  | none => rfl
  | some x => cases p.keptTy k v <;> rfl

/-! ## the repaired bind keeps the declared type -/

/-- **what the repaired bind injects**: for keyword `k = v` the typed assignment `k: T = v` exactly when `T` is
    the declared type of `k` and `v` is a value of `T`; the bare literal otherwise, and always with the quirk -/
theorem bind_keeps_declared_type (q : Quirks) (p : Prog) (kv : List (String × PyVal)) :
    injected q p kv = kv.map (fun e => (⟨e.1, if q.bindDropsType then none else p.keptTy e.1 e.2, toVal e.2⟩ : Stmt))
    ∧ ∀ k v t, p.keptTy k v = some t ↔ (p.declTy k = some t ∧ isValueOf t v = true) := by
  refine ⟨rfl, ?_⟩
  intro k v t
  unfold Prog.keptTy
  cases p.declTy k with
  | none => simp
  | some t' =>
    by_cases hv : isValueOf t' v = true
    · simp only [hv, if_true, Option.some.injEq]
      constructor
      · rintro rfl; exact ⟨rfl, hv⟩
      · rintro ⟨h, _⟩; exact h
    · simp only [hv, Bool.false_eq_true, if_false, reduceCtorEq, false_iff]
      rintro ⟨h, h'⟩
      simp only [Option.some.injEq] at h
      subst h
      exact hv h'

/-- **the typed constant of an integer parameter is `Qint_w.const(v)`** -/
theorem typed_const_qint (q : Quirks) (w : Nat) (v : Int)
    (h : isValueOf (.qint w) (.atom (.i v)) = true) :
    constVal (WAlg q) (some (.qint w)) (.atom (.i v)) = some (.q (qintConst w v))
    ∧ (qintConst w v).length = w := by
  obtain ⟨y, x, he, hc, ht⟩ := typed_defined q (.qint w) (.atom (.i v)) h
  have hq := wCast_const_qint w v h
  have hw : 0 < w := by
    simp only [isValueOf, Bool.and_eq_true, decide_eq_true_eq] at h
    have := qintTypes_widths w (by simpa using h.1.1)
    omega
  refine ⟨?_, qintConst_length w v hw⟩
  unfold constVal
  cases hl : constToQint v with
  | none => simp [hl] at hq
  | some l =>
    have : evalExp (WAlg q) Env.empty (toVal (.atom (.i v))) = some (.q l) := by
      simp [toVal, evalExp, WAlg, hl]
    rw [this]
    simp only [hl, Option.bind] at hq
    exact hq

/-- **a value of the declared type is never rejected**, in the width-aware values: the typed constant is
    defined and has the shape of the declared type (every `Qint[n]` component exactly `n` bits) -/
theorem typed_const_defined (q : Quirks) (t : Ty) (v : PyVal) (h : isValueOf t v = true) :
    ∃ x, constVal (WAlg q) (some t) v = some x ∧ hasTy t x := by
  obtain ⟨y, x, he, hc, ht⟩ := typed_defined q t v h
  exact ⟨x, by unfold constVal; rw [he]; exact hc, ht⟩


/-! ## purity -/

/-- **bind is history-free**: after any sequence of binds the unbound object is what it was, and
    a bind returns what it returns on the fresh object -/
theorem bind_pure (q : Quirks) (u : Unbound) (hist : List (List (String × PyVal)))
    (kv : List (String × PyVal)) :
    u.after q hist = u ∧ ((u.after q hist).bindStep q kv).2 = QV.Bind.bind q u.funAst kv := by
  have h : ∀ hist : List (List (String × PyVal)), u.after q hist = u := by
    intro hist
    induction hist with
    | nil => rfl
    | cons kv' t ih => simpa [Unbound.after, Unbound.bindStep] using ih
  rw [h hist]
  exact ⟨rfl, rfl⟩

/-- a successful bind leaves no `Parameter[...]` argument: the result is a bound function -/
theorem bind_result_bound (q : Quirks) (p p' : Prog) (kv : List (String × PyVal))
    (hwf : WellFormed p) (hb : QV.Bind.bind q p kv = .ok p') : p'.isUnbound = false := by
  obtain ⟨_, hargs, _, _⟩ := bind_shape q p p' kv hb
  unfold Prog.isUnbound Prog.parameters
  rw [hargs]
  have : (nonParams p.args).filter (fun a => isParamFrom a.ann) = [] := by
    apply List.filter_eq_nil_iff.mpr
    intro a ha
    have hm := List.mem_filter.mp ha
    have := hwf.2 a hm.1
    simp_all
  simp [this]

/-! ## the property -/

/-- the full property for the repaired library -/
theorem C08_full : C08_statement := by
  refine ⟨?_, ?_, ?_⟩
  · intro A p kv xs p' hwf hkw hb
    exact C08_partial A Quirks.none p p' kv xs hwf hkw hb (by intro h; cases h)
  · intro p kv hwf hkw
    exact bind_ok_iff_perm Quirks.none p kv hwf hkw
  · intro u hist kv
    exact bind_pure Quirks.none u hist kv

/-! ## non-vacuity and the witness of the listed defect -/

/-- `def test(c: Parameter[Qint[4]], a: Qint[4]) -> Qint[4]: return (c << 2) + a` -/
def wProg : Prog :=
  { name := "test"
    args := [⟨"c", .sub (.name "Parameter") (.qint 4)⟩, ⟨"a", .sub (.name "Qint") (.other "4")⟩]
    body := []
    ret := .bin .add (.bin .shl (.var "c") (.const (.i 2))) (.var "a") }

def wKv : List (String × PyVal) := [("c", .atom (.i 3))]

/-- what `test.bind(c=3)` hands to the translator today: `def test(a): c = 3; return (c << 2) + a` -/
def wBound : Prog :=
  { name := "test"
    args := [⟨"a", .sub (.name "Qint") (.other "4")⟩]
    body := [⟨"c", none, .const (.i 3)⟩]
    ret := .bin .add (.bin .shl (.var "c") (.const (.i 2))) (.var "a") }

/-- flattened bits of a width-aware value, for comparing results -/
def flat : Option WV → Option (List Bool)
  | some (.q l) => some l
  | some (.b v) => some [v]
  | _ => none

def pyInt : Option PV → Option Int
  | some (.i v) => some v
  | _ => none

example : WellFormed wProg := by
  refine ⟨by decide, ?_⟩
  intro a ha
  simp only [wProg, List.mem_cons, List.not_mem_nil, or_false] at ha
  rcases ha with rfl | rfl <;> rfl

example : KwOk wKv := by unfold KwOk; decide

example : ∃ p', QV.Bind.bind { bindDropsType := true } wProg wKv = .ok p' := ⟨_, rfl⟩

/-- **witness of `bindDropsType`**: `test.bind(c=3)` on `a = 0`.  Python: `(3 << 2) + 0 = 12`;
    the unbound function at its declared type `Qint[4]`: `12`; the bound function of the code as
    it is: the literal `3` is a `Qint2`, `3 << 2` is `0` there, result `0`. -/
theorem bind_drops_type_witness :
    let q : Quirks := { bindDropsType := true }
    let a0 : WV := .q [false, false, false, false]
    (∃ p', QV.Bind.bind q wProg wKv = .ok p' ∧ flat (Sem (WAlg q) p' [a0]) = some [false, false, false, false])
    ∧ flat (specialised (WAlg q) wProg.keptTy wProg wKv [a0]) = some [false, false, true, true]
    ∧ pyInt (specialised PyAlg wProg.keptTy wProg wKv [.i 0]) = some 12
    ∧ ¬ C08_statement_for q := by
  intro q a0
  have hb : QV.Bind.bind q wProg wKv = .ok wBound := rfl
  have h1 : flat (Sem (WAlg q) wBound [a0]) = some [false, false, false, false] := by decide
  have h2 : flat (specialised (WAlg q) wProg.keptTy wProg wKv [a0]) = some [false, false, true, true] := by
    decide
  refine ⟨⟨_, hb, h1⟩, h2, by decide, ?_⟩
  intro hst
  have := hst.1 (WAlg q) wProg wKv [a0] _ (by
      refine ⟨by decide, ?_⟩
      intro a ha
      simp only [wProg, List.mem_cons, List.not_mem_nil, or_false] at ha
      rcases ha with rfl | rfl <;> rfl) (by unfold KwOk; decide) hb
  rw [this, h2] at h1
  cases h1

/-- the repaired bind gets the witness right -/
theorem bind_typed_on_witness :
    ∃ p', QV.Bind.bind Quirks.none wProg wKv = .ok p' ∧
      flat (Sem (WAlg Quirks.none) p' [.q [false, false, false, false]]) = some [false, false, true, true] :=
  ⟨_, rfl, by decide⟩

/-! ## `is_value_of` on the annotation as written accepts exactly the values of the declared shape

`isValueOfAnn` (`QV/Model/BindAnn.lean`) follows `is_value_of` on the annotation the user wrote, before
`Qlist` / `Qmatrix` are elaborated to nested tuples: which argument counts the rows, which the entries of a
row.  (The code-model correspondence `c08.isvalueof` compares it with the real function on every run.) -/

/-- `Qmatrix[T, n, m]`: exactly the iterables of `n` rows, every row an iterable of `m` values of `T` –
    for every element annotation, all sizes, every value (a transposed, ragged, too long / short value of a
    non-square shape is not a value) -/
theorem isValueOf_qmatrix_shape (t : AnnE) (n m : Nat) (hn : 0 < n) (hm : 0 < m) (v : PyVal) :
    isValueOfAnn (.sub "Qmatrix" [t, .int n, .int m]) v = true ↔
      ∃ rows, v = .iter rows ∧ rows.length = n ∧
        ∀ r ∈ rows, ∃ xs, r = .iter xs ∧ xs.length = m ∧ ∀ x ∈ xs, isValueOfAnn t x = true := by
  cases v with
  | atom a => simp [isValueOfAnn, AnnE.head, scalarValueOf]
  | iter ws =>
    have := rows_iff t m ws
    simp only [Bool.and_eq_true, List.all_eq_true] at this
    simp [isValueOfAnn, AnnE.head, AnnE.posInt, hn, hm, and_assoc, this]

/-- `Qlist[T, n]`: exactly the iterables of `n` values of `T` -/
theorem isValueOf_qlist_shape (t : AnnE) (n : Nat) (hn : 0 < n) (v : PyVal) :
    isValueOfAnn (.sub "Qlist" [t, .int n]) v = true ↔
      ∃ xs, v = .iter xs ∧ xs.length = n ∧ ∀ x ∈ xs, isValueOfAnn t x = true := by
  cases v with
  | atom a => simp [isValueOfAnn, AnnE.head, scalarValueOf]
  | iter ws => simp [isValueOfAnn, AnnE.head, AnnE.posInt, hn, allValueOf_iff]

/-- `Tuple[T1, .., Tk]` (k > 0): exactly the iterables of `k` values, the i-th a value of `Ti` -/
theorem isValueOf_tuple_shape (ts : List AnnE) (h : ts ≠ []) (v : PyVal) :
    isValueOfAnn (.sub "Tuple" ts) v = true ↔
      ∃ xs, v = .iter xs ∧ xs.length = ts.length ∧ ∀ p ∈ ts.zip xs, isValueOfAnn p.1 p.2 = true := by
  cases v with
  | atom a => simp [isValueOfAnn, AnnE.head, scalarValueOf]
  | iter ws => simp [isValueOfAnn, AnnE.head, h, zip_iff]

/-- a size that is not a positive integer literal, or a wrong number of arguments: no value at all (the
    parameter is then bound as a bare literal, whatever the value) -/
theorem isValueOf_qmatrix_malformed (t : AnnE) (n m : Int) (h : n ≤ 0 ∨ m ≤ 0) (v : PyVal) :
    isValueOfAnn (.sub "Qmatrix" [t, .int n, .int m]) v = false := by
  cases v with
  | atom a => simp [isValueOfAnn, AnnE.head, scalarValueOf]
  | iter ws =>
    rcases h with h | h
    · have : ¬ n > 0 := by omega
      simp [isValueOfAnn, AnnE.head, AnnE.posInt, this]
    · have : ¬ m > 0 := by omega
      by_cases hn : n > 0 <;> simp [isValueOfAnn, AnnE.head, AnnE.posInt, this, hn]

/-- `Qint[w]` names the builtin class of that width, for every width of the regenerated table -/
theorem builtinName_qint : ∀ p ∈ QV.Gen.qintTypes, builtinName "Qint" [.int p.2] = some p.1 := by
  decide

/-- scalars: `Qint[w]` (every shipped width) has exactly the ints `0 ≤ v < 2^w` as values – the same
    test as `isValueOf (.qint w)` of the elaborated types – and no bool, no string, no iterable -/
theorem isValueOf_qint_scalar : ∀ p ∈ QV.Gen.qintTypes, ∀ v : PyVal,
    isValueOfAnn (.sub "Qint" [.int p.2]) v = isValueOf (.qint p.2) v := by
  intro p hp v
  have hb := builtinName_qint p hp
  simp only [QV.Gen.qintTypes, List.mem_cons, List.not_mem_nil, or_false] at hp
  cases v with
  | iter ws => simp [isValueOfAnn, AnnE.head, isValueOf]
  | atom a =>
    rcases hp with rfl | rfl | rfl | rfl | rfl | rfl | rfl | rfl | rfl <;>
      norm_cast at hb <;>
      cases a <;>
      simp [isValueOfAnn, AnnE.head, scalarValueOf, hb, builtinValue, isValueOf, lookupS, QV.Gen.qintTypes]

/-! ## Reading the declared type of the typed assignment (`AnnE.readable`, finding `annNestedContainerUnread`) -/

mutual
/-- the repaired annotation elaboration (quirk off) reads every nesting of containers -/
theorem readable_repaired : ∀ a : AnnE, a.readable Quirks.none = true
  | .sub id elts => by
      unfold AnnE.readable
      split
      · cases elts with
        | nil => rfl
        | cons t l =>
          have := readable_repaired t
          simpa [Quirks.none] using this
      · split
        · next h => simp [Quirks.none] at h
        · exact readableList_repaired elts
  | .name _ => by simp [AnnE.readable]
  | .int _ => by simp [AnnE.readable]
  | .other => by simp [AnnE.readable]
theorem readableList_repaired : ∀ l : List AnnE, readableList Quirks.none l = true
  | [] => rfl
  | a :: l => by simp [readableList, readable_repaired a, readableList_repaired l]
end

/-- the listed defect `annNestedContainerUnread`: `[[1, 2, 3], [4, 5, 6]]` is a value of
    `Qlist[Qlist[Qint[4], 3], 2]` (so `bind` injects the typed assignment) and the code as it is cannot read that
    annotation; a `Qlist` of tuples, a tuple of `Qlist`s and a `Qmatrix` are read; a one-element `Tuple` of a
    `Qmatrix` is not, a one-element `Tuple` of a `Qint` is -/
theorem nested_container_unread_witness :
    let q : Quirks := { annNestedContainerUnread := true }
    let q4 : AnnE := .sub "Qint" [.int 4]
    let ll : AnnE := .sub "Qlist" [.sub "Qlist" [q4, .int 3], .int 2]
    let i (k : Int) : PyVal := .atom (.i k)
    isValueOfAnn ll (.iter [.iter [i 1, i 2, i 3], .iter [i 4, i 5, i 6]]) = true
    ∧ ll.readable q = false
    ∧ ll.readable Quirks.none = true
    ∧ (AnnE.sub "Qlist" [.sub "Tuple" [.name "bool", q4], .int 2]).readable q = true
    ∧ (AnnE.sub "Tuple" [.sub "Qlist" [q4, .int 2], .sub "Qmatrix" [q4, .int 2, .int 1]]).readable q = true
    ∧ (AnnE.sub "Tuple" [.sub "Qmatrix" [q4, .int 2, .int 3]]).readable q = false
    ∧ (AnnE.sub "Tuple" [q4]).readable q = true := by
  decide

end QV.C08
