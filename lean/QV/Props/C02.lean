import QV.Model.Compiler
import QV.Proofs.Circuit
import QV.Proofs.CompilerInv
import QV.Proofs.CompilerSem
import QV.Proofs.CompilerSem2
import QV.Proofs.CompilerGen8
/-!
# C02 – The circuit computes the function's boolean expressions

Property: for every compiled function, every compiler and optimizer setting, and every
classical input, running the circuit on the basis state that holds the argument bits (all
other qubits zero) leaves on each output qubit exactly the value of the corresponding return
expression.  Every return bit is mapped to a qubit, with and without final uncomputation.

`C02_statement` below is the full property about the compiler model.  The model follows the
compiler with the repairs of the uncomputation protocol (`docs/fixes/CC-*.diff`; before them the
statement was false, see the `fixed` entries of `known_findings.json`).  As stated it is still false
(a return name that is never bound; `b = a; a = Not(a)`, a new finding; model-only degenerate
expressions – see `C02_general_partial` at the end of the file, which proves the property on the general
class: every definition list with cache hits, shared sub-expressions across statements and re-binding,
with these cases excluded by a decidable predicate).  What is proved here is (partial):

* `validate_sound` – the per-instance validator used by the check is sound for *all* inputs:
  a compiled instance that passes it satisfies the property on every input basis state.  The
  check runs it on the model's gate list, which the correspondence shows identical to the real
  compiler's.  This is translation validation by a proved-sound validator, per compiled
  instance, exhaustive over its inputs – not a theorem over all programs.
* universal facts about pieces of the compiler, for all gate lists: `remove_identities`
  (step 3 of `compile`) preserves the classical action; every X/CX/MCX gate on distinct wires
  is an involution and a reverse replay undoes a gate list (what `uncompute` relies on).
* universal **structural** theorems about `compile` itself, for every input list, definition
  list, return list, uncompute flag and sequence of ancilla choices (every successful run of
  the model): `compile_gates_wellformed` (only X/CX/MCX gates, on distinct wires, every wire
  `< numQubits`, arity matches the class), `compile_lhs_mapped` / `compile_rets_mapped` ("every
  return bit is mapped to a qubit"), `compile_inputs_first` (arguments on qubits `0..n-1`),
  `compile_bookkeeping`; with the corollaries `compile_remove_identities_preserves` and
  `compile_reverse_replay_undoes`.  They say nothing about the *values* on the qubits.
* a **semantic fragment theorem** `C02_fragment_partial` (ported to the repaired model): on the
  decidable class `inFragment` (one definition `r = e`, `e` a Not/And/Or/Xor expression over the
  arguments in which no compound sub-expression occurs twice) every successful run of `compile`,
  with and without final uncomputation, for every admissible ancilla-choice sequence, is `Correct`.
* the widened fragment theorems (ported to the repaired model, and stronger there): `C02_fragment_consts`
  (one definition with constants), `C02_fragment_named_wide` / `C02_fragment_named` / `C02_fragment_multi`
  (straight-line definition lists with named intermediates and several return bits, final uncomputation
  **on or off**, `Or` of any arity over any arguments), `C02_free_zero_invariant` ("free ⇒ zero" is an
  invariant of the statement loop for every return list and uncompute flag).
-/
namespace QV.C02
open QV QV.Compiler

/-- what it means for a compiled circuit to compute the definitions' return bits -/
def Correct (gates : List AGate) (numQubits : Nat) (qmap : List (String × Nat))
    (inputs : List String) (defs : List (String × BExp)) (rets : List String) : Prop :=
  ∀ x : List Bool, x.length = inputs.length → ∀ r ∈ rets,
    ∃ q, dictGet? qmap r = some q ∧
      (runClassical gates (initState x numQubits)).getD q false = envOf (evalDefs defs (inputs.zip x)) r

/-- the full property, for the compiler model: every successful compilation is `Correct`
(for every admissible sequence of ancilla choices, with and without uncomputation) -/
def C02_statement : Prop :=
  ∀ (inputs : List String) (defs : List (String × BExp)) (rets : List String) (unc : Bool)
    (choices : List Nat) (s : CState),
    (compile inputs defs (some rets) unc).run { choices := choices } = .ok ((), s) →
    Correct s.qc.gates.toList s.qc.numQubits s.qc.qmap inputs defs rets

/-- **soundness of the validator**: if `validate` accepts, the circuit is correct on every
input basis state and every return bit is mapped -/
theorem validate_sound (gates : List AGate) (numQubits : Nat) (qmap : List (String × Nat))
    (inputs : List String) (defs : List (String × BExp)) (rets : List String)
    (h : validate gates numQubits qmap inputs defs rets = true) :
    Correct gates numQubits qmap inputs defs rets := by
  intro x hx r hr
  simp only [validate, Bool.and_eq_true, List.all_eq_true] at h
  have hc := h.2 x (mem_allBits' hx)
  simp only [checkOutputs, List.all_eq_true] at hc
  have := hc r hr
  cases hq : dictGet? qmap r with
  | none => simp [hq] at this
  | some q =>
    simp only [hq] at this
    exact ⟨q, rfl, by simpa using this⟩

/-- the validator is also complete (it rejects only incorrect or non-classical circuits) -/
theorem validate_complete (gates : List AGate) (numQubits : Nat) (qmap : List (String × Nat))
    (inputs : List String) (defs : List (String × BExp)) (rets : List String)
    (hcl : allClassical gates = true) (h : Correct gates numQubits qmap inputs defs rets) :
    validate gates numQubits qmap inputs defs rets = true := by
  simp only [validate, Bool.and_eq_true, List.all_eq_true]
  refine ⟨hcl, fun x hx => ?_⟩
  simp only [checkOutputs, List.all_eq_true]
  intro r hr
  obtain ⟨q, hq, hv⟩ := h x (allBits_length hx) r hr
  simp only [hq, hv, beq_self_eq_true]

/-- step 3 of `compile`: `remove_identities` does not change the classical action -/
theorem remove_identities_preserves (gs : List AGate)
    (hwf : ∀ g ∈ gs, g.wires.Nodup) (s : BState) :
    runClassical (removeIdentitiesList gs) s = runClassical gs s :=
  removeIdentitiesList_sound gs hwf s

/-- every X/CX/MCX gate on distinct wires is an involution on basis states -/
theorem gate_involutive (g : AGate) (hn : g.wires.Nodup) (s : BState) :
    g.applyClassical (g.applyClassical s) = s :=
  applyClassical_involutive g hn s

/-- replaying a gate list in reverse undoes it (the principle behind `uncompute`) -/
theorem reverse_replay_undoes (gs : List AGate) (h : ∀ g ∈ gs, g.wires.Nodup) (s : BState) :
    runClassical (gs ++ gs.reverse) s = s :=
  runClassical_reverse_undo gs h s

/-- non-vacuity: a Toffoli computing `_ret = a & b` passes the validator -/
example : validate [{ cls := .CCX, wires := [0, 1, 2] }] 3 [("a", 0), ("b", 1), ("_ret", 2)]
    ["a", "b"] [("_ret", .and [.sym "a", .sym "b"])] ["_ret"] = true := by decide

/-- the model of the compiler as it is violates `C02_statement`-style correctness on a concrete
program: `_ret = v0 | v1 | v2` (n-ary `Or`, finding `C02-or-nary`) is compiled to
`CX,CX,CX,MCX`, which is wrong on input (1,1,0) -/
theorem or_nary_witness :
    validate [{ cls := .CX, wires := [0, 3] }, { cls := .CX, wires := [1, 3] }, { cls := .CX, wires := [2, 3] },
              { cls := .MCX 3, wires := [0, 1, 2, 3] }] 4 [("v0", 0), ("v1", 1), ("v2", 2), ("_ret", 3)]
      ["v0", "v1", "v2"] [("_ret", .or [.sym "v0", .sym "v1", .sym "v2"])] ["_ret"] = false := by decide

/-! ## Structural theorems about every run of `compile`

`(compile inputs defs ret unc).run { choices := cs } = .ok ((), s)` ranges over every successful
run of the compiler model: every program, with or without a return list, with or without final
uncomputation, for every sequence `cs` of popped ancillas (inadmissible sequences make the
model fail, so they are covered vacuously).  Proofs: `QV/Proofs/CompilerInv.lean` (state
invariant `Good`, one Hoare-style lemma per primitive, mutual induction `exprSpec` /
`argsSpec` / `xorSpec` over `compileExpr` / `compileArgs` / `compileXorArgs`). -/

/-- **(1) gates are well formed.**  Every gate of every compiled circuit is X/CX/MCX-like, acts
on pairwise distinct wires, every wire is a qubit of the circuit (strictly below `numQubits`:
`QCircuit.append` itself only rejects `> numQubits`, the strict bound comes from the invariant
that every index the compiler stores anywhere is below `numQubits`), and the number of wires is
the arity of the gate class. -/
theorem compile_gates_wellformed (inputs : List String) (defs : List (String × BExp))
    (ret : Option (List String)) (unc : Bool) (cs : List Nat) (s : CState)
    (h : (compile inputs defs ret unc).run { choices := cs } = .ok ((), s)) :
    ∀ g ∈ s.qc.gates.toList, g.cls.isMCXLike = true ∧ g.wires.Nodup ∧
      (∀ w ∈ g.wires, w < s.qc.numQubits) ∧ g.wires.length = g.cls.nQubits :=
  (compile_ok h).1.gates_ok

/-- (1) in the form of the decidable predicate the check evaluates on every instance -/
theorem compile_wellFormed (inputs : List String) (defs : List (String × BExp))
    (ret : Option (List String)) (unc : Bool) (cs : List Nat) (s : CState)
    (h : (compile inputs defs ret unc).run { choices := cs } = .ok ((), s)) :
    wellFormed s.qc.gates.toList s.qc.numQubits = true ∧ allClassical s.qc.gates.toList = true := by
  have hw := compile_gates_wellformed inputs defs ret unc cs s h
  constructor
  · simp only [wellFormed, List.all_eq_true, Bool.and_eq_true, Bool.or_eq_true, decide_eq_true_eq,
      beq_iff_eq]
    intro g hg
    obtain ⟨h1, h2, h3, h4⟩ := hw g hg
    exact ⟨⟨⟨Or.inl h1, h2⟩, h3⟩, h4⟩
  · simp only [allClassical, List.all_eq_true, Bool.or_eq_true]
    exact fun g hg => Or.inl (hw g hg).1

/-- corollary of (1): on every compiled circuit `remove_identities` keeps the classical action -/
theorem compile_remove_identities_preserves (inputs : List String) (defs : List (String × BExp))
    (ret : Option (List String)) (unc : Bool) (cs : List Nat) (s : CState)
    (h : (compile inputs defs ret unc).run { choices := cs } = .ok ((), s)) (st : BState) :
    runClassical (removeIdentitiesList s.qc.gates.toList) st = runClassical s.qc.gates.toList st :=
  removeIdentitiesList_sound _ (fun g hg => (compile_gates_wellformed inputs defs ret unc cs s h g hg).2.1) st

/-- corollary of (1): replaying any compiled circuit in reverse undoes its classical action -/
theorem compile_reverse_replay_undoes (inputs : List String) (defs : List (String × BExp))
    (ret : Option (List String)) (unc : Bool) (cs : List Nat) (s : CState)
    (h : (compile inputs defs ret unc).run { choices := cs } = .ok ((), s)) (st : BState) :
    runClassical (s.qc.gates.toList ++ s.qc.gates.toList.reverse) st = st :=
  runClassical_reverse_undo _ (fun g hg => (compile_gates_wellformed inputs defs ret unc cs s h g hg).2.1) st

/-- **(2) left-hand sides stay mapped.**  Every left-hand symbol of the definition list that is
not a scratch name (an ancilla-shaped name `anc_…`, which `map_qubit` deletes when the ancilla it
names is promoted under another name and `get_free_ancilla` may bind again; temporaries `__x` are
names like any other since every named qubit is promoted) is a key of the final `qubit_map`, and
the qubit it names exists. -/
theorem compile_lhs_mapped (inputs : List String) (defs : List (String × BExp))
    (ret : Option (List String)) (unc : Bool) (cs : List Nat) (s : CState)
    (h : (compile inputs defs ret unc).run { choices := cs } = .ok ((), s)) :
    ∀ p ∈ defs, scratchName p.1 = false →
      ∃ q, dictGet? s.qc.qmap p.1 = some q ∧ q < s.qc.numQubits := by
  intro p hp hs
  obtain ⟨hg, _, hk, _, _⟩ := compile_ok h
  have := hk p hp hs
  cases hq : dictGet? s.qc.qmap p.1 with
  | none => rw [hq] at this; cases this
  | some q => exact ⟨q, rfl, hg.qmap_lt _ (dictGet?_mem hq)⟩

/-- what the front end guarantees about the return names: each is the left-hand side of a
definition and is not a scratch name -/
def retsDefined (defs : List (String × BExp)) (rets : List String) : Bool :=
  rets.all fun r => defs.any (·.1 == r) && !scratchName r

/-- **(2') every return bit is mapped to a qubit**, with and without final uncomputation -/
theorem compile_rets_mapped (inputs : List String) (defs : List (String × BExp))
    (rets : List String) (unc : Bool) (cs : List Nat) (s : CState)
    (h : (compile inputs defs (some rets) unc).run { choices := cs } = .ok ((), s))
    (hr : retsDefined defs rets = true) :
    ∀ r ∈ rets, ∃ q, dictGet? s.qc.qmap r = some q ∧ q < s.qc.numQubits := by
  intro r hrm
  simp only [retsDefined, List.all_eq_true, Bool.and_eq_true, List.any_eq_true, Bool.not_eq_true'] at hr
  obtain ⟨⟨p, hp, hpr⟩, hs⟩ := hr r hrm
  have hpr' : p.1 = r := by simpa using hpr
  subst hpr'
  exact compile_lhs_mapped inputs defs (some rets) unc cs s h p hp hs

/-- what the front end guarantees about the argument names: pairwise distinct, not reserved
(`TRUE`, `FALSE`, `anc_…`) and never re-bound by a definition -/
def inputsFresh (inputs : List String) (defs : List (String × BExp)) : Bool :=
  decide inputs.Nodup && inputs.all fun n => !reservedName n && !(defs.map (·.1)).contains n

/-- **(3) inputs first.**  The `i`-th argument is mapped to qubit `i` in the final `qubit_map`
(what `input_qubits` and the validators assume), and these qubits exist. -/
theorem compile_inputs_first (inputs : List String) (defs : List (String × BExp))
    (ret : Option (List String)) (unc : Bool) (cs : List Nat) (s : CState)
    (h : (compile inputs defs ret unc).run { choices := cs } = .ok ((), s))
    (hf : inputsFresh inputs defs = true) :
    inputs.length ≤ s.qc.numQubits ∧
    ∀ (i : Nat) (x : String), inputs[i]? = some x → dictGet? s.qc.qmap x = some i := by
  obtain ⟨_, hlen, _, hpos, _⟩ := compile_ok h
  simp only [inputsFresh, Bool.and_eq_true, decide_eq_true_eq, List.all_eq_true, Bool.not_eq_true',
    List.contains_eq_mem, decide_eq_false_iff_not] at hf
  exact ⟨hlen, hpos hf.1 (fun n hn => hf.2 n hn)⟩

/-- **(4) bookkeeping that holds**: every index stored in the ancilla set, the free set, the
marked set, the kept set (`kept_ancillas`) and the `qubit_map` is a qubit of the circuit; the
ancilla set is duplicate-free; a name mapped to a qubit that is still in the ancilla set is a
scratch name `anc_…` (so no left-hand side sits on an ancilla); no argument qubit (index below the
number of inputs) is ever in the ancilla, free, marked or kept set, so none is handed out as
scratch space. -/
theorem compile_bookkeeping (inputs : List String) (defs : List (String × BExp))
    (ret : Option (List String)) (unc : Bool) (cs : List Nat) (s : CState)
    (h : (compile inputs defs ret unc).run { choices := cs } = .ok ((), s)) :
    (∀ a ∈ s.qc.anc, a < s.qc.numQubits) ∧ (∀ a ∈ s.qc.free, a < s.qc.numQubits) ∧
    (∀ a ∈ s.qc.marked, a < s.qc.numQubits) ∧ (∀ p ∈ s.qc.qmap, p.2 < s.qc.numQubits) ∧
    s.qc.anc.Nodup ∧ (∀ p ∈ s.qc.qmap, p.2 ∈ s.qc.anc → scratchName p.1 = true) ∧
    (∀ a ∈ s.qc.anc, inputs.length ≤ a) ∧ (∀ a ∈ s.qc.free, inputs.length ≤ a) ∧
    (∀ a ∈ s.qc.marked, inputs.length ≤ a) ∧
    (∀ a ∈ s.qc.kept, a < s.qc.numQubits) ∧ (∀ a ∈ s.qc.kept, inputs.length ≤ a) :=
  have hg := (compile_ok h).1
  have hs := (compile_ok h).2.2.2.2
  ⟨hg.anc_lt, hg.free_lt, hg.marked_lt, hg.qmap_lt, hg.anc_nodup, hg.anc_named, hs.1, hs.2.1, hs.2.2.1,
   hg.kept_lt, hs.2.2.2⟩

/-- regression witness of the repaired defect `C02-temp-uncomputed-early`: the program on which the
unrepaired compiler left the free set holding the qubit the return bit is mapped to (the temporary
`__t` stayed an ancilla, was marked by its first reader and uncomputed) now promotes `__t`; nothing is
marked, freed or left in the ancilla set.  (`free ⊆ anc` is still not an invariant of the *model*:
an `Xor` / `Or` without arguments – which sympy never builds – allocates an ancilla no gate targets;
`uncompute` frees it without evicting its cache entry, a later definition that is that expression
is then promoted out of the ancilla set while it sits in the free set.) -/
theorem temp_promoted_witness :
    (match (compile ["a", "b"] [("__t", .xor [.sym "a", .sym "b"]),
        ("__u", .xor [.not (.sym "__t"), .sym "a"]), ("_ret", .sym "__t")] (some ["_ret"]) false).run
        { choices := [2, 3] } with
      | .ok (_, s) => s.qc.anc == [] && s.qc.free == [] && s.qc.marked == [] &&
          dictGet? s.qc.qmap "_ret" == some 2 && dictGet? s.qc.qmap "__t" == some 2
      | .error _ => false) = true := by decide +kernel

/-- non-vacuity: a run of the model that uses two ancillas, promotes them (deleting their `anc_…`
names) and keeps the first for the final `uncompute_all` succeeds; its hypotheses `retsDefined` /
`inputsFresh` hold -/
example : ∃ s, (compile ["a", "b"] [("__t", .xor [.sym "a", .sym "b"]), ("_ret", .not (.sym "__t"))]
    (some ["_ret"]) true).run { choices := [2, 3] } = .ok ((), s) := by
  have h : ((compile ["a", "b"] [("__t", .xor [.sym "a", .sym "b"]), ("_ret", .not (.sym "__t"))]
      (some ["_ret"]) true).run { choices := [2, 3] }).toBool = true := by decide +kernel
  cases hrun : (compile ["a", "b"] [("__t", .xor [.sym "a", .sym "b"]), ("_ret", .not (.sym "__t"))]
      (some ["_ret"]) true).run { choices := [2, 3] } with
  | ok p => exact ⟨p.2, rfl⟩
  | error e => rw [hrun] at h; cases h

example : retsDefined [("__t", .xor [.sym "a", .sym "b"]), ("_ret", .not (.sym "__t"))] ["_ret"] = true := by
  decide +kernel

example : inputsFresh ["a", "b"] [("__t", .xor [.sym "a", .sym "b"]), ("_ret", .not (.sym "__t"))] = true := by
  decide +kernel

/-! ## Semantic fragment theorem (values on the qubits)

`C02_statement` is not proved in general, but it holds on a decidable class of programs:
a single definition `r = e` whose expression is built from the argument symbols with
`Not` / `And` / `Or` / `Xor` of any arity (symbols may repeat) and in which no compound
sub-expression occurs twice.  There every lookup in the expression cache misses, the free set is
empty while `e` is compiled (every ancilla is a new qubit) and the inline `uncompute` after the
statement only replays gates whose target is a marked ancilla, never the result qubit (the defined
name is the requested return bit, or there is no final uncomputation, so the ancillas are released
right after the statement; `Or` with more than two distinct argument qubits is the fold of binary ors
into new marked ancillas, `orChain_sem`).
Proofs: `QV/Proofs/CompilerSem.lean` (`exprSem` / `argsSem` / `xorSem` by mutual structural
recursion, `compile_single_sem`). -/

/-- **C02 on the tree-like single-definition fragment**, final uncomputation off (`unc = false`) or
on: every successful run of the compiler model – for every admissible sequence of ancilla choices –
is `Correct`: on every classical input the qubit mapped to the return name ends with the value of
its expression.  (With `unc = true` the final `uncompute_all` replays no gate whose target is the
kept return qubit; that the other qubits come back to zero is C03's matter and not claimed here.) -/
theorem C02_fragment_partial (inputs : List String) (defs : List (String × BExp)) (rets : List String)
    (unc : Bool) (choices : List Nat) (s : CState)
    (hf : inFragment inputs defs rets = true)
    (h : (compile inputs defs (some rets) unc).run { choices := choices } = .ok ((), s)) :
    Correct s.qc.gates.toList s.qc.numQubits s.qc.qmap inputs defs rets := by
  match defs, hf, h with
  | [(r, e)], hf, h =>
    simp only [inFragment, Bool.and_eq_true, decide_eq_true_eq, List.all_eq_true, bne_iff_ne, ne_eq,
      Bool.not_eq_true', beq_iff_eq] at hf
    obtain ⟨⟨⟨⟨hnd, hfr⟩, hov⟩, htl⟩, hrets⟩ := hf
    intro x hx r' hr'
    have hr : r' = r := hrets r' hr'
    subst hr
    obtain ⟨q, hq, hv⟩ := compile_single_sem h (fun _ => hr') hnd (fun n hn => hfr n hn) hov htl x hx
    refine ⟨q, hq, ?_⟩
    rw [hv]
    simp [evalDefs, envOf]

/-- Stage A/B in isolation: what `compile_expr` leaves on the qubits, for every expression of the
fragment compiled without a destination from a state satisfying the invariant `Pre` (argument
qubits hold the arguments, free set empty, …): the returned qubit holds `⟦e⟧`, every qubit that
existed before is unchanged -/
theorem C02_fragment_expr (inputs : List String) (ρ : Env) (σ0 : FState) (r : String)
    (amb : Amb inputs σ0 r) (e : BExp) (hov : overInputs inputs e = true) (htl : treeLike e = true)
    (hns : isSym e = false) (sym : Option String) (hsym : ∀ x, sym = some x → x = r)
    (a : Nat) (s s' : CState)
    (h : (compileExpr e none sym).run s = .ok (a, s')) (hp : Pre inputs ρ σ0 s)
    (hcache : s.expq = []) :
    cur σ0 s' a = e.eval ρ ∧ ∀ q, q < s.qc.numQubits → cur σ0 s' q = cur σ0 s q := by
  obtain ⟨sem, hv, _⟩ := exprSem (ρ := ρ) amb e hov (distinctB_iff.mp htl) none sym h hp
    (by intro p hp'; rw [hcache] at hp'; cases hp') (by intro d hd; cases hd) hsym
    (by intro hs; rw [hns] at hs; cases hs)
  exact ⟨(hv rfl).2, fun q hq => sem.frame q hq (fun hd => by cases hd)⟩

/-- an instance of the class (n-ary `Or`, nested `And` / `Xor` / `Not`, repeated variables) -/
example : inFragment ["a", "b", "c"]
    [("_ret", .or [.and [.sym "a", .not (.sym "b")],
                   .xor [.sym "c", .not (.and [.sym "a", .sym "c"])], .sym "b"])] ["_ret"] = true := by
  decide +kernel

/-- not in the class: `a & b` occurs twice (the second occurrence is a cache hit) -/
example : inFragment ["a", "b"]
    [("_ret", .xor [.and [.sym "a", .sym "b"], .not (.and [.sym "a", .sym "b"])])] ["_ret"] = false := by
  decide +kernel

/-- non-vacuity of `C02_fragment_partial`: a program of the class with a successful run -/
example : inFragment ["a", "b", "c"]
      [("_ret", .xor [.not (.sym "a"), .sym "b", .not (.xor [.sym "c", .not (.sym "b")])])] ["_ret"] = true ∧
    ∃ s, (compile ["a", "b", "c"]
      [("_ret", .xor [.not (.sym "a"), .sym "b", .not (.xor [.sym "c", .not (.sym "b")])])]
      (some ["_ret"]) false).run { choices := [3, 4] } = .ok ((), s) := by
  refine ⟨by decide +kernel, ?_⟩
  have h : ((compile ["a", "b", "c"]
      [("_ret", .xor [.not (.sym "a"), .sym "b", .not (.xor [.sym "c", .not (.sym "b")])])]
      (some ["_ret"]) false).run { choices := [3, 4] }).toBool = true := by decide +kernel
  cases hrun : (compile ["a", "b", "c"]
      [("_ret", .xor [.not (.sym "a"), .sym "b", .not (.xor [.sym "c", .not (.sym "b")])])]
      (some ["_ret"]) false).run { choices := [3, 4] } with
  | ok p => exact ⟨p.2, rfl⟩
  | error e => rw [hrun] at h; cases h

/-- the same program, final uncomputation on -/
example : ∃ s, (compile ["a", "b", "c"]
      [("_ret", .xor [.not (.sym "a"), .sym "b", .not (.xor [.sym "c", .not (.sym "b")])])]
      (some ["_ret"]) true).run { choices := [3, 4] } = .ok ((), s) := by
  have h : ((compile ["a", "b", "c"]
      [("_ret", .xor [.not (.sym "a"), .sym "b", .not (.xor [.sym "c", .not (.sym "b")])])]
      (some ["_ret"]) true).run { choices := [3, 4] }).toBool = true := by decide +kernel
  cases hrun : (compile ["a", "b", "c"]
      [("_ret", .xor [.not (.sym "a"), .sym "b", .not (.xor [.sym "c", .not (.sym "b")])])]
      (some ["_ret"]) true).run { choices := [3, 4] } with
  | ok p => exact ⟨p.2, rfl⟩
  | error e => rw [hrun] at h; cases h

/-! ## Widened semantic fragment theorems

Proofs: `QV/Proofs/CompilerSem2a…d.lean`, `QV/Proofs/CompilerSem2.lean`.  The invariants of `CompilerSem.lean`
are generalised: the *scratch space* of a state is its free set together with the qubits not allocated yet,
and every qubit of the scratch space is zero (`Pre2.zero`); constants and named intermediates are *known
names* bound to qubits outside the free and the ancilla set (`Pre2.tbl`); kept ancillas (`kept_ancillas`) are
never in the free set (`Pre2.keptNF`).  Between two definitions the statement ends in one of two ways.  If the
defined name is a requested return bit (or there is no final uncomputation) the inline `uncompute` replays, in
reverse, the gates whose target is marked; `bennettF` shows that this gives the marked ancillas back as zeros,
because every control of every gate of the definition is marked itself or is a known name's qubit holding that
name's value when the gate is applied.  Otherwise `keep_ancillas` leaves every qubit and the free set alone.
The or-chain of the repaired `compile_or` (`orChain_sem2`) writes only new marked ancillas and the destination,
so the restriction the unrepaired compiler needed (no `Or` of three or more arguments with a symbol or constant
among them: De Morgan's `X` gates on the symbol's qubit were not replayed, the freed ancilla was NOT zero,
`docs/notes/C02_C03_C06.md`) is gone: `wfExpW` / `slDefsW` / `inFragmentNamedW` are `wfExp` / `slDefs` /
`inFragmentNamed` without it.  With final uncomputation on, `uncompute_all` appends no gate whose target is the
qubit of a requested return bit, so the values proved for the statement loop survive it. -/

/-- **(a) constants.**  C02 on single definitions whose expression may contain `True` / `False` (anywhere
except directly, or under one `Not`, as an argument of `Xor`), including `r = True` / `r = False`; final
uncomputation on or off; every admissible sequence of ancilla choices.  The class contains `inFragment`
whenever the defined name is not `TRUE` / `FALSE`. -/
theorem C02_fragment_consts (inputs : List String) (defs : List (String × BExp)) (rets : List String)
    (unc : Bool) (choices : List Nat) (s : CState)
    (hf : inFragmentConst inputs defs rets = true)
    (h : (compile inputs defs (some rets) unc).run { choices := choices } = .ok ((), s)) :
    Correct s.qc.gates.toList s.qc.numQubits s.qc.qmap inputs defs rets := by
  match defs, hf, h with
  | [(r, e)], hf, h =>
    simp only [inFragmentConst, Bool.and_eq_true, decide_eq_true_eq, List.all_eq_true, bne_iff_ne, ne_eq,
      Bool.not_eq_true', beq_iff_eq] at hf
    obtain ⟨⟨⟨⟨⟨⟨hnd, hfr⟩, hr1⟩, hr2⟩, hwf⟩, hdist⟩, hrets⟩ := hf
    intro x hx r' hr'
    have hr : r' = r := hrets r' hr'
    subst hr
    obtain ⟨q, hq, hv⟩ := compile_const_sem h (fun _ => hr') hnd (fun n hn => hfr n hn) ⟨hr1, hr2⟩
      (wfExpW_of_wfExp e hwf) (distinctB_iff.mp hdist) x hx
    refine ⟨q, hq, ?_⟩
    rw [hv]
    simp [evalDefs, envOf]

/-- **(c) named intermediates, on the class of the repaired compiler.**  C02 on straight-line definition lists
(`m0 = e0; …; _ret = f(m0, args)`; every right-hand side reads arguments and earlier left-hand sides, any number
of times; constants allowed as in (a); no cache key twice in the whole list; `Or` / `And` / `Xor` of any arity
over symbols, constants and compound expressions, `Or` / `Xor` not empty), final uncomputation **on or off**,
every admissible sequence of ancilla choices – including the runs in which ancillas freed by the inline
`uncompute` after one definition are re-used by later ones, and (uncomputation on) the runs in which the
ancillas of a definition that is not a requested return bit are kept for the final `uncompute_all`. -/
theorem C02_fragment_named_wide (inputs : List String) (defs : List (String × BExp)) (rets : List String)
    (unc : Bool) (choices : List Nat) (s : CState)
    (hf : inFragmentNamedW inputs defs rets = true)
    (h : (compile inputs defs (some rets) unc).run { choices := choices } = .ok ((), s)) :
    Correct s.qc.gates.toList s.qc.numQubits s.qc.qmap inputs defs rets := by
  simp only [inFragmentNamedW, Bool.and_eq_true, decide_eq_true_eq, List.all_eq_true, Bool.not_eq_true',
    List.any_eq_true, beq_iff_eq] at hf
  obtain ⟨⟨⟨⟨hnd, hfr⟩, hsl⟩, hdist⟩, hrets⟩ := hf
  intro x hx r hr
  exact compile_named_sem h hnd hfr hsl (distinctB_iff.mp hdist) x hx r (hrets r hr) (fun _ => hr)

/-- **(c) named intermediates**, on the class `inFragmentNamed` the driver reports (every `Or` with one or two
arguments or only compound ones – the restriction the unrepaired compiler needed; a sub-class of
`C02_fragment_named_wide`), final uncomputation on or off. -/
theorem C02_fragment_named (inputs : List String) (defs : List (String × BExp)) (rets : List String)
    (unc : Bool) (choices : List Nat) (s : CState)
    (hf : inFragmentNamed inputs defs rets = true)
    (h : (compile inputs defs (some rets) unc).run { choices := choices } = .ok ((), s)) :
    Correct s.qc.gates.toList s.qc.numQubits s.qc.qmap inputs defs rets :=
  C02_fragment_named_wide inputs defs rets unc choices s (inFragmentNamedW_of_inFragmentNamed hf) h

/-- **(b) several return bits.**  C02 on definition lists `_ret.0 = e0; _ret.1 = e1; …` in which every
right-hand side is an independent tree over the arguments alone (a sub-class of (c)), final uncomputation on
or off. -/
theorem C02_fragment_multi (inputs : List String) (defs : List (String × BExp)) (rets : List String)
    (unc : Bool) (choices : List Nat) (s : CState)
    (hf : inFragmentMulti inputs defs rets = true)
    (h : (compile inputs defs (some rets) unc).run { choices := choices } = .ok ((), s)) :
    Correct s.qc.gates.toList s.qc.numQubits s.qc.qmap inputs defs rets := by
  simp only [inFragmentMulti, Bool.and_eq_true] at hf
  exact C02_fragment_named inputs defs rets unc choices s hf.1 h

/-- the step (b)/(c) rest on, in isolation: **"free ⇒ zero" is an invariant of the statement loop on the
class**, for every return list (`retBits = none`: the decompiler's call) and uncompute flag – if every qubit of
the scratch space (free set and not yet allocated qubits) is zero before a straight-line definition list is
compiled (invariant `Inv`), it is so afterwards -/
theorem C02_free_zero_invariant (retBits : Option (List String)) (doUncompute : Bool)
    (defs : List (String × BExp)) (scope : List String)
    (env : List (String × Bool)) (done : List BExp) (σ0 : FState) (s s' : CState)
    (h : (compileDefs retBits doUncompute defs).run s = .ok ((), s')) (hinv : Inv scope (envOf env) σ0 done s)
    (hsl : slDefsW scope defs = true) (hd : distinctB (done ++ defs.flatMap (fun p => compKeys p.2)) = true) :
    ∀ q, q ∈ s'.qc.free → cur σ0 s' q = false := by
  obtain ⟨scope', done', hfin, _, _⟩ := defs_sem defs scope env done h hinv hsl (distinctB_iff.mp hd)
  exact fun q hq => hfin.pre.zero q (Or.inl hq)

/-- instances of the three classes -/
example : inFragmentConst ["a", "b", "c"]
    [("_ret", .or [.and [.sym "a", .tt], .not .ff, .xor [.sym "b", .and [.sym "c", .ff], .not (.not .tt)]])]
    ["_ret"] = true := by decide +kernel

example : inFragmentConst ["a"] [("_ret", .tt)] ["_ret"] = true := by decide +kernel

/-- not in class (a): a constant directly under `Xor` (`compile_xor` would accumulate into the constant's qubit) -/
example : inFragmentConst ["a"] [("_ret", .xor [.sym "a", .tt])] ["_ret"] = false := by decide +kernel

example : inFragmentMulti ["a", "b", "c"]
    [("_ret.0", .or [.and [.sym "a", .sym "b"], .sym "c"]),
     ("_ret.1", .and [.not (.sym "a"), .xor [.sym "b", .sym "c"]])] ["_ret.0", "_ret.1"] = true := by
  decide +kernel

example : inFragmentNamed ["a", "b", "c"]
    [("m0", .and [.sym "a", .sym "b"]), ("_ret", .xor [.sym "m0", .or [.sym "c", .not (.sym "m0")]])]
    ["_ret"] = true := by decide +kernel

/-- not in the classes (b)/(c) the driver reports, but in the class of `C02_fragment_named_wide`: `Or` of three
arguments with symbols among them, below an `And` (with the unrepaired compiler the ancilla of the `Or` was
freed non-zero by the inline `uncompute`: De Morgan's `X` gates on `a`, `b` were not replayed) -/
example : inFragmentNamed ["a", "b", "c", "d"]
    [("_ret.0", .and [.or [.sym "a", .sym "b", .sym "c"], .sym "d"]), ("_ret.1", .and [.sym "a", .sym "d"])]
    ["_ret.0", "_ret.1"] = false ∧
  inFragmentNamedW ["a", "b", "c", "d"]
    [("_ret.0", .and [.or [.sym "a", .sym "b", .sym "c"], .sym "d"]), ("_ret.1", .and [.sym "a", .sym "d"])]
    ["_ret.0", "_ret.1"] = true := by decide +kernel

/-- the same with a compound argument list is in the class -/
example : inFragmentNamed ["a", "b", "c", "d"]
    [("_ret.0", .and [.or [.not (.sym "a"), .and [.sym "b", .sym "c"], .xor [.sym "c", .sym "d"]], .sym "d"]),
     ("_ret.1", .and [.sym "a", .sym "d"])] ["_ret.0", "_ret.1"] = true := by decide +kernel

/-- non-vacuity: programs of the classes with successful runs of the model (kernel-evaluated; programs with
`And` / `Or`, whose runs re-use freed ancillas, are exercised through the driver – `List.mergeSort` does not
evaluate in the kernel) -/
example : ∃ s, (compile ["a"] [("_ret", .xor [.sym "a", .not (.not .tt)])] (some ["_ret"]) true).run
    { choices := [1] } = .ok ((), s) := by
  have h : ((compile ["a"] [("_ret", .xor [.sym "a", .not (.not .tt)])] (some ["_ret"]) true).run
      { choices := [1] }).toBool = true := by decide +kernel
  cases hrun : (compile ["a"] [("_ret", .xor [.sym "a", .not (.not .tt)])] (some ["_ret"]) true).run
      { choices := [1] } with
  | ok p => exact ⟨p.2, rfl⟩
  | error e => rw [hrun] at h; cases h

example : ∃ s, (compile ["a", "b", "c"]
      [("m0", .xor [.sym "a", .sym "b"]), ("_ret", .xor [.sym "m0", .not (.sym "c")])]
      (some ["_ret"]) false).run { choices := [3, 4] } = .ok ((), s) := by
  have h : ((compile ["a", "b", "c"]
      [("m0", .xor [.sym "a", .sym "b"]), ("_ret", .xor [.sym "m0", .not (.sym "c")])]
      (some ["_ret"]) false).run { choices := [3, 4] }).toBool = true := by decide +kernel
  cases hrun : (compile ["a", "b", "c"]
      [("m0", .xor [.sym "a", .sym "b"]), ("_ret", .xor [.sym "m0", .not (.sym "c")])]
      (some ["_ret"]) false).run { choices := [3, 4] } with
  | ok p => exact ⟨p.2, rfl⟩
  | error e => rw [hrun] at h; cases h

/-- the same program with final uncomputation on: `m0` is not a requested return bit, the ancillas in use after
its statement are kept (`keep_ancillas`) for the final `uncompute_all` -/
example : ∃ s, (compile ["a", "b", "c"]
      [("m0", .xor [.sym "a", .sym "b"]), ("_ret", .xor [.sym "m0", .not (.sym "c")])]
      (some ["_ret"]) true).run { choices := [3, 4] } = .ok ((), s) := by
  have h : ((compile ["a", "b", "c"]
      [("m0", .xor [.sym "a", .sym "b"]), ("_ret", .xor [.sym "m0", .not (.sym "c")])]
      (some ["_ret"]) true).run { choices := [3, 4] }).toBool = true := by decide +kernel
  cases hrun : (compile ["a", "b", "c"]
      [("m0", .xor [.sym "a", .sym "b"]), ("_ret", .xor [.sym "m0", .not (.sym "c")])]
      (some ["_ret"]) true).run { choices := [3, 4] } with
  | ok p => exact ⟨p.2, rfl⟩
  | error e => rw [hrun] at h; cases h

example : ∃ s, (compile ["a", "b", "c"]
      [("_ret.0", .xor [.sym "a", .sym "b"]), ("_ret.1", .not (.xor [.sym "b", .sym "c"]))]
      (some ["_ret.0", "_ret.1"]) false).run { choices := [3, 4] } = .ok ((), s) := by
  have h : ((compile ["a", "b", "c"]
      [("_ret.0", .xor [.sym "a", .sym "b"]), ("_ret.1", .not (.xor [.sym "b", .sym "c"]))]
      (some ["_ret.0", "_ret.1"]) false).run { choices := [3, 4] }).toBool = true := by decide +kernel
  cases hrun : (compile ["a", "b", "c"]
      [("_ret.0", .xor [.sym "a", .sym "b"]), ("_ret.1", .not (.xor [.sym "b", .sym "c"]))]
      (some ["_ret.0", "_ret.1"]) false).run { choices := [3, 4] } with
  | ok p => exact ⟨p.2, rfl⟩
  | error e => rw [hrun] at h; cases h

/-! ## The general class: cache hits, shared sub-expressions across statements, re-binding

Proofs: `QV/Proofs/CompilerGen1…8.lean`.  Instead of a per-class induction in which every lookup of the
expression cache misses, a state invariant over the whole compilation (`GI` inside a statement, `BI` between
statements) is kept by every branch of `compile_expr` – step 3 "the expression is cached" included – and by both
ends of a statement:

* every cache entry `e ↦ q` has `q` in use and holding the value of `e` under the current environment (a hit is
  sound; `expqmap.remove_symbol` on re-binding and `expqmap.remove(uncompute())` keep this);
* the qubit of every name in scope holds the name's value (definitions evaluated sequentially; a name may be
  defined again); every qubit of the scratch space (free set, not yet allocated) is zero;
* every control of every gate of the current statement is marked now or had, at gate time, the value it has now
  (the hypothesis of the reverse-replay lemma `bennettF`, kept because a qubit that has been read is never
  written again unless it is marked); marked qubits are in-use, unkept ancillas that are targets of gates of the
  statement; kept ancillas and promoted qubits are never targets of later gates;
* between statements every ancilla is free or kept: a statement whose ancillas are released leaves no ancilla in
  use behind (all of them were marked, except the result, which is promoted). -/

/-- **C02 on the general class** (`inGeneralClass` = `inGeneral` ∨ the two single-definition classes): argument
names distinct and not reserved; every left-hand side not reserved – it MAY be an argument or an earlier
left-hand side (re-binding); every right-hand side built from arguments / earlier left-hand sides / constants with
`Not` / `And` / `Or` / `Xor` of any arity and ANY sharing: the same compound sub-expression may occur any number of
times inside a definition and across definitions (cache hits, also on ancillas kept for the final
`uncompute_all`); several return bits; every requested return name is an argument or a left-hand side; final
uncomputation on or off; every admissible sequence of ancilla choices (re-use of released ancillas included).
Then every successful run of the compiler model is `Correct`.

What is NOT covered, i.e. what separates this from `C02_statement` (which is FALSE as stated, see
`docs/notes/C02_C03_C06.md`):
* the in-place self-negation `r = Not(r)` (`selfNot`): the compiler flips the qubit of `r`; after an alias
  `b = r` the name `b` shares that qubit and changes with it – `[b = a; a = Not(a); _ret = b]` is compiled wrongly
  by the real compiler (finding, confirmed on `to_quantum`);
* reserved names (`TRUE`, `FALSE`, `anc_…`) as arguments or left-hand sides, repeated argument names, a return
  name that is never bound (the circuit has no such qubit);
* `Or` / `Xor` without arguments and a constant directly under `Xor` (neither can reach the compiler: sympy does
  not build the former, `_symplify_exp` removes the latter); `ITE` / `Implies` (rejected by the compiler). -/
theorem C02_general_partial (inputs : List String) (defs : List (String × BExp)) (rets : List String)
    (unc : Bool) (choices : List Nat) (s : CState)
    (hf : inGeneralClass inputs defs rets = true)
    (h : (compile inputs defs (some rets) unc).run { choices := choices } = .ok ((), s)) :
    Correct s.qc.gates.toList s.qc.numQubits s.qc.qmap inputs defs rets := by
  simp only [inGeneralClass, Bool.or_eq_true] at hf
  rcases hf with (hf | hf) | hf
  · simp only [inGeneral, Bool.and_eq_true, decide_eq_true_eq, List.all_eq_true, Bool.not_eq_true',
      Bool.or_eq_true, List.contains_eq_mem, List.any_eq_true, beq_iff_eq] at hf
    obtain ⟨⟨⟨hnd, hfr⟩, hgen⟩, hrets⟩ := hf
    intro x hx r hr
    refine compile_general_sem h hnd hfr hgen x hx r ?_ (fun _ => hr)
    rcases hrets r hr with h' | ⟨p, hp, hpr⟩
    · exact Or.inl (by simpa using h')
    · exact Or.inr ⟨p, hp, hpr⟩
  · exact C02_fragment_partial inputs defs rets unc choices s hf h
  · exact C02_fragment_consts inputs defs rets unc choices s hf h

/-- the class of `C02_general_partial` contains every class of the older fragment theorems -/
theorem C02_general_contains (inputs : List String) (defs : List (String × BExp)) (rets : List String) :
    (inFragment inputs defs rets = true → inGeneralClass inputs defs rets = true) ∧
    (inFragmentConst inputs defs rets = true → inGeneralClass inputs defs rets = true) ∧
    (inFragmentNamedW inputs defs rets = true → inGeneralClass inputs defs rets = true) ∧
    (inFragmentNamed inputs defs rets = true → inGeneralClass inputs defs rets = true) ∧
    (inFragmentMulti inputs defs rets = true → inGeneralClass inputs defs rets = true) := by
  have hW : inFragmentNamedW inputs defs rets = true → inGeneralClass inputs defs rets = true := by
    intro h
    simp only [inGeneralClass, Bool.or_eq_true]
    exact Or.inl (Or.inl (inGeneral_of_inFragmentNamedW h))
  refine ⟨fun h => ?_, fun h => ?_, hW, fun h => hW (inFragmentNamedW_of_inFragmentNamed h), fun h => ?_⟩
  · simp only [inGeneralClass, Bool.or_eq_true]; exact Or.inl (Or.inr h)
  · simp only [inGeneralClass, Bool.or_eq_true]; exact Or.inr h
  · simp only [inFragmentMulti, Bool.and_eq_true] at h
    exact hW (inFragmentNamedW_of_inFragmentNamed h.1)

/-- an instance of the general class that is in none of the older classes: `a & b` is computed for `m` (an
intermediate that is not a return bit: with final uncomputation on its ancillas are kept), found in the cache by
`_ret.0` (accumulated into an `Xor`) and by `_ret.1` (as an argument of `Or`); `m` is read twice; `t` is defined
twice (re-binding evicts `Not(t)`'s cache entry) -/
example : inGeneral ["a", "b", "c"]
    [("m", .or [.and [.sym "a", .sym "b"], .sym "c"]),
     ("t", .not (.sym "m")),
     ("_ret.0", .xor [.and [.sym "a", .sym "b"], .sym "m", .not (.sym "t")]),
     ("t", .and [.sym "t", .sym "c"]),
     ("_ret.1", .or [.and [.sym "a", .sym "b"], .not (.sym "t")])] ["_ret.0", "_ret.1"] = true ∧
  inAnyFragment ["a", "b", "c"]
    [("m", .or [.and [.sym "a", .sym "b"], .sym "c"]),
     ("t", .not (.sym "m")),
     ("_ret.0", .xor [.and [.sym "a", .sym "b"], .sym "m", .not (.sym "t")]),
     ("t", .and [.sym "t", .sym "c"]),
     ("_ret.1", .or [.and [.sym "a", .sym "b"], .not (.sym "t")])] ["_ret.0", "_ret.1"] true = false := by
  decide +kernel

/-- non-vacuity of `C02_general_partial` on a program outside every older class (kernel-evaluated): `t` is
defined twice (the second definition reads the first), final uncomputation on, the ancillas of `t` are kept.
Programs with `And` / `Or` – the ones whose runs have cache hits across statements, like the instance above –
are exercised through the driver in every check run (`in_general_cache_hit` in `evidence/C02.json`: 162 of the 914
in-class instances of a quick run): `List.mergeSort` (`sortNat`) does not evaluate in the kernel. -/
example : inGeneral ["a", "b", "c"]
      [("t", .xor [.sym "a", .sym "b"]), ("t", .xor [.sym "t", .not (.sym "c")]), ("_ret", .not (.sym "t"))]
      ["_ret"] = true ∧
    inFragmentNamedW ["a", "b", "c"]
      [("t", .xor [.sym "a", .sym "b"]), ("t", .xor [.sym "t", .not (.sym "c")]), ("_ret", .not (.sym "t"))]
      ["_ret"] = false ∧
    ∃ s, (compile ["a", "b", "c"]
      [("t", .xor [.sym "a", .sym "b"]), ("t", .xor [.sym "t", .not (.sym "c")]), ("_ret", .not (.sym "t"))]
      (some ["_ret"]) true).run { choices := [3, 4, 5] } = .ok ((), s) := by
  refine ⟨by decide +kernel, by decide +kernel, ?_⟩
  have h : ((compile ["a", "b", "c"]
      [("t", .xor [.sym "a", .sym "b"]), ("t", .xor [.sym "t", .not (.sym "c")]), ("_ret", .not (.sym "t"))]
      (some ["_ret"]) true).run { choices := [3, 4, 5] }).toBool = true := by decide +kernel
  cases hrun : (compile ["a", "b", "c"]
      [("t", .xor [.sym "a", .sym "b"]), ("t", .xor [.sym "t", .not (.sym "c")]), ("_ret", .not (.sym "t"))]
      (some ["_ret"]) true).run { choices := [3, 4, 5] } with
  | ok p => exact ⟨p.2, rfl⟩
  | error e => rw [hrun] at h; cases h

/-- not in the general class: the in-place self-negation (after the alias `b = a` the compiler is wrong) -/
example : inGeneral ["a"] [("b", .sym "a"), ("a", .not (.sym "a")), ("_ret", .sym "b")] ["_ret"] = false := by
  decide +kernel

end QV.C02
