import QV.Model.Compiler
import QV.Proofs.Circuit
/-!
# C02 – The circuit computes the function's boolean expressions

Property: for every compiled function, every compiler and optimizer setting, and every
classical input, running the circuit on the basis state that holds the argument bits (all
other qubits zero) leaves on each output qubit exactly the value of the corresponding return
expression.  Every return bit is mapped to a qubit, with and without final uncomputation.

`C02_statement` below is the full property about the compiler model.  It is **false** for the
model of the compiler as it is (the model reproduces the real compiler's wrong circuits gate
for gate; see `known_findings.json`), so what is proved here is (partial):

* `validate_sound` – the per-instance validator used by the check is sound for *all* inputs:
  a compiled instance that passes it satisfies the property on every input basis state.  The
  check runs it on the model's gate list, which the correspondence shows identical to the real
  compiler's.  This is translation validation by a proved-sound validator, per compiled
  instance, exhaustive over its inputs – not a theorem over all programs.
* universal facts about pieces of the compiler, for all gate lists: `remove_identities`
  (step 3 of `compile`) preserves the classical action; every X/CX/MCX gate on distinct wires
  is an involution and a reverse replay undoes a gate list (what `uncompute` relies on).
-/
namespace QV.C02
open QV QV.Compiler

/-- what it means for a compiled circuit to compute the definitions' return bits -/
def Correct (gates : List AGate) (numQubits : Nat) (qmap : List (String × Nat))
    (inputs : List String) (defs : List (String × BExp)) (rets : List String) : Prop :=
  ∀ x : List Bool, x.length = inputs.length → ∀ r ∈ rets,
    ∃ q, dictGet? qmap r = some q ∧
      (runClassical gates (initState x numQubits)).getD q false = envOf (evalDefs defs (inputs.zip x)) r

/-- the full property, for the compiler model: every successful compilation is `Correct`
(for every admissible sequence of ancilla choices, with and without uncomputation) -/
def C02_statement : Prop :=
  ∀ (inputs : List String) (defs : List (String × BExp)) (rets : List String) (unc : Bool)
    (choices : List Nat) (s : CState),
    (compile inputs defs (some rets) unc).run { choices := choices } = .ok ((), s) →
    Correct s.qc.gates.toList s.qc.numQubits s.qc.qmap inputs defs rets

/-- **soundness of the validator**: if `validate` accepts, the circuit is correct on every
input basis state and every return bit is mapped -/
theorem validate_sound (gates : List AGate) (numQubits : Nat) (qmap : List (String × Nat))
    (inputs : List String) (defs : List (String × BExp)) (rets : List String)
    (h : validate gates numQubits qmap inputs defs rets = true) :
    Correct gates numQubits qmap inputs defs rets := by
  intro x hx r hr
  simp only [validate, Bool.and_eq_true, List.all_eq_true] at h
  have hc := h.2 x (mem_allBits' hx)
  simp only [checkOutputs, List.all_eq_true] at hc
  have := hc r hr
  cases hq : dictGet? qmap r with
  | none => simp [hq] at this
  | some q =>
    simp only [hq] at this
    exact ⟨q, rfl, by simpa using this⟩

/-- the validator is also complete (it rejects only incorrect or non-classical circuits) -/
theorem validate_complete (gates : List AGate) (numQubits : Nat) (qmap : List (String × Nat))
    (inputs : List String) (defs : List (String × BExp)) (rets : List String)
    (hcl : allClassical gates = true) (h : Correct gates numQubits qmap inputs defs rets) :
    validate gates numQubits qmap inputs defs rets = true := by
  simp only [validate, Bool.and_eq_true, List.all_eq_true]
  refine ⟨hcl, fun x hx => ?_⟩
  simp only [checkOutputs, List.all_eq_true]
  intro r hr
  obtain ⟨q, hq, hv⟩ := h x (allBits_length hx) r hr
  simp only [hq, hv, beq_self_eq_true]

/-- step 3 of `compile`: `remove_identities` does not change the classical action -/
theorem remove_identities_preserves (gs : List AGate)
    (hwf : ∀ g ∈ gs, g.wires.Nodup) (s : BState) :
    runClassical (removeIdentitiesList gs) s = runClassical gs s :=
  removeIdentitiesList_sound gs hwf s

/-- every X/CX/MCX gate on distinct wires is an involution on basis states -/
theorem gate_involutive (g : AGate) (hn : g.wires.Nodup) (s : BState) :
    g.applyClassical (g.applyClassical s) = s :=
  applyClassical_involutive g hn s

/-- replaying a gate list in reverse undoes it (the principle behind `uncompute`) -/
theorem reverse_replay_undoes (gs : List AGate) (h : ∀ g ∈ gs, g.wires.Nodup) (s : BState) :
    runClassical (gs ++ gs.reverse) s = s :=
  runClassical_reverse_undo gs h s

/-- non-vacuity: a Toffoli computing `_ret = a & b` passes the validator -/
example : validate [{ cls := .CCX, wires := [0, 1, 2] }] 3 [("a", 0), ("b", 1), ("_ret", 2)]
    ["a", "b"] [("_ret", .and [.sym "a", .sym "b"])] ["_ret"] = true := by decide

/-- the model of the compiler as it is violates `C02_statement`-style correctness on a concrete
program: `_ret = v0 | v1 | v2` (n-ary `Or`, finding `C02-or-nary`) is compiled to
`CX,CX,CX,MCX`, which is wrong on input (1,1,0) -/
theorem or_nary_witness :
    validate [{ cls := .CX, wires := [0, 3] }, { cls := .CX, wires := [1, 3] }, { cls := .CX, wires := [2, 3] },
              { cls := .MCX 3, wires := [0, 1, 2, 3] }] 4 [("v0", 0), ("v1", 1), ("v2", 2), ("_ret", 3)]
      ["v0", "v1", "v2"] [("_ret", .or [.sym "v0", .sym "v1", .sym "v2"])] ["_ret"] = false := by decide

end QV.C02
