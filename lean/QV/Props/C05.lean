import QV.Model.Codec
import QV.Proofs.Codec
import QV.Props.C09
import QV.Proofs.EndToEnd05
/-!
# C05 – Values survive the encode → circuit → decode round trip

Property (from `/verif/properties.jsonl`): for every compiled function and argument values v,
initialising the input qubits from the bit string produced for v, running the circuit, reading
the output qubits in the order the function reports them and decoding that reading yields the
value f(v) in the function's high-level return type (bool, integers, fixed-point, chars, nested
tuples/lists).  The reported input and output qubit lists name in-range qubits in argument and
return bit order, and two output bits share a qubit only if they always carry the same value.

The theorems are about `QV.Model.Codec` (+ `QV.Model.Types` for the scalar codecs, whose
inverse laws are C09's theorems).  What the *circuit* computes is C02's business and what the
*expressions* mean is C01's: here they are the hypotheses `Computes` / `F ∘ encode = encode ∘ f`
of `C05_statement`; everything between the Python values and the qubits is proved.
-/
namespace QV.C05
open QV QV.Types QV.Codec QV.C09

/-- the circuit `gs` on `nq` qubits, started with the `n` input bits `x` on qubits `0..n-1` and
zeros elsewhere, leaves `F x` on the qubits `oq` (the conclusion of C02 + C01) -/
def Computes (gs : List AGate) (nq n : Nat) (oq : List Nat) (F : List Bool → List Bool) : Prop :=
  ∀ x : List Bool, x.length = n →
    oq.map (fun q => (runClassical gs (x ++ List.replicate (nq - n) false)).getD q false) = F x

/-- The full property, for the model with every listed defect repaired
(`output_qubits` being defined at all is `output_qubits_total`). -/
def C05_statement : Prop :=
  ∀ (sig : List (String × QTy)) (ret : QTy) (f : List QVal → QVal) (F : List Bool → List Bool)
    (gs : List AGate) (m : QMap) (oq : List Nat),
    (∀ vs, WTs (sig.map (·.2)) vs →
      WT ret (f vs) ∧ F (encodeList (sig.map (·.2)) vs) = encode ret (f vs)) →
    m.WF →
    outputQubits m (retArg ret).bitvec = some oq →
    Computes gs m.numQubits (sizeList (sig.map (·.2))) oq F →
    -- input qubits: 0 .. n-1 in argument bit order
    inputQubits (translateArguments sig) = List.range (sizeList (sig.map (·.2))) ∧
    -- output qubits: one per return bit, in range
    (oq.length = ret.size ∧ ∀ q ∈ oq, q < m.numQubits) ∧
    -- the round trip
    (∀ vs, WTs (sig.map (·.2)) vs →
      decodeOutput (retArg ret)
        (readOut (runClassical gs (initState m.numQubits
          (encodeInput (translateArguments sig) vs))) oq) = f vs) ∧
    -- two output bits share a qubit only if they always carry the same value
    (∀ i j : Nat, oq[i]? = oq[j]? → ∀ x, x.length = sizeList (sig.map (·.2)) → (F x)[i]? = (F x)[j]?)

/-! ## Bit names and input qubits -/

/-- one name per bit of the type -/
theorem arg_bitvec_length (base : String) (t : QTy) :
    (translateArgument base t).bitvec.length = t.size := argNames_length t _

theorem input_symbols_length (sig : List (String × QTy)) :
    (inputSymbols (translateArguments sig)).length = sizeList (sig.map (·.2)) := by
  induction sig with
  | nil => rfl
  | cons a r ih =>
    simp only [translateArguments, List.map_cons, inputSymbols, List.length_append, sizeList] at ih ⊢
    rw [ih, arg_bitvec_length]

/-- `input_qubits` is `[0, …, n)`, `n` = total number of argument bits -/
theorem input_qubits_range (sig : List (String × QTy)) :
    inputQubits (translateArguments sig) = List.range (sizeList (sig.map (·.2))) := by
  have h : ∀ (l : List (String × QTy)) (a : Nat),
      (translateArguments l).foldl (fun a b => a + b.bitvec.length) a = a + sizeList (l.map (·.2)) := by
    intro l
    induction l with
    | nil => intro a; simp [translateArguments, sizeList]
    | cons x r ih =>
      intro a
      simp only [translateArguments, List.map_cons, List.foldl_cons, sizeList] at ih ⊢
      rw [ih, arg_bitvec_length]; omega
  simp [inputQubits, h]

/-- step 1 of the compiler puts the j-th input bit (in argument order, tuples depth-first) on
qubit j -/
theorem input_symbol_qubit (ns : List Name) (hnd : ns.Nodup) (m : QMap) (j : Nat) (hj : j < ns.length) :
    (m.addQubits ns).get ns[j] = some (m.numQubits + j) := by
  induction ns generalizing m j with
  | nil => simp at hj
  | cons n r ih =>
    have hnd' := List.nodup_cons.mp hnd
    cases j with
    | zero =>
      simp only [QMap.addQubits, List.foldl_cons, List.getElem_cons_zero]
      have := addQubits_get_other (m.addQubit n) r n hnd'.1
      simp only [QMap.addQubits] at this
      rw [this]; simp [QMap.get, QMap.addQubit, dictGet_dictSet]
    | succ j =>
      simp only [QMap.addQubits, List.foldl_cons, List.getElem_cons_succ]
      have := ih hnd'.2 (m.addQubit n) j (by simpa using hj)
      simp only [QMap.addQubits] at this
      rw [this]; simp [QMap.addQubit]; omega

/-- the input bit names of a signature with distinct argument names are pairwise distinct, so
(with `input_symbol_qubit`) the j-th argument bit – arguments in order, tuples depth-first –
is on qubit j of the compiled circuit's qubit map -/
theorem input_bits_on_qubits (sig : List (String × QTy)) (hnd : (sig.map (·.1)).Nodup) (j : Nat)
    (hj : j < (inputSymbols (translateArguments sig)).length) :
    (QMap.addQubits {} (inputSymbols (translateArguments sig))).get
      (inputSymbols (translateArguments sig))[j] = some j := by
  have := input_symbol_qubit _ (inputSymbols_nodup sig hnd) {} j hj
  simpa using this

/-! ## `encode_input` -/

/-- layout of the string: reversed, it is the concatenation, argument after argument and
tuples depth-first (`encodeList`), of the little-endian element encodings -/
theorem encode_layout (sig : List (String × QTy)) (vs : List QVal) :
    (encodeInput (translateArguments sig) vs).reverse
      = boolListToBin (encodeList (sig.map (·.2)) vs) := by
  simp [encodeInput, translateArguments_tys, valToBinList_eq]

/-- character `j` of the string is the bit of qubit `n-1-j` -/
theorem encode_input_char (sig : List (String × QTy)) (vs : List QVal) (j : Nat)
    (hj : j < (encodeList (sig.map (·.2)) vs).length) :
    (encodeInput (translateArguments sig) vs)[j]?
      = ((encodeList (sig.map (·.2)) vs)[(encodeList (sig.map (·.2)) vs).length - 1 - j]?).map bitChar := by
  have h := encode_layout sig vs
  have h2 : encodeInput (translateArguments sig) vs
      = (boolListToBin (encodeList (sig.map (·.2)) vs)).reverse := by
    rw [← h, List.reverse_reverse]
  rw [h2, List.getElem?_reverse (by simpa [boolListToBin] using hj)]
  simp [boolListToBin]

theorem encode_input_length (sig : List (String × QTy)) (vs : List QVal)
    (h : WTs (sig.map (·.2)) vs) :
    (encodeInput (translateArguments sig) vs).length = (inputQubits (translateArguments sig)).length := by
  have := congrArg List.length (encode_layout sig vs)
  simp only [List.length_reverse, boolListToBin, List.length_map] at this
  rw [this, encodeList_length _ _ h, input_qubits_range]; simp

/-- the basis state prepared from the string carries the flat encoding on qubits `0..n-1` and
zeros on the other qubits -/
theorem init_state_layout (sig : List (String × QTy)) (vs : List QVal) (nq : Nat)
    (h : WTs (sig.map (·.2)) vs) :
    initState nq (encodeInput (translateArguments sig) vs)
      = encodeList (sig.map (·.2)) vs ++ List.replicate (nq - sizeList (sig.map (·.2))) false := by
  unfold initState
  have hl := encode_input_length sig vs h
  rw [input_qubits_range] at hl
  simp only [List.length_range] at hl
  rw [encode_layout, hl]
  simp [boolListToBin, map_bitChar_eq_one]

/-! ## `decode_output` -/

/-- decoding the reading whose character `j` is return bit `m-1-j` returns the value, for
every nested type (string and list readings) -/
theorem decode_encode (t : QTy) (v : QVal) (h : WT t v) :
    decodeOutput (retArg t) (encode t v).reverse = v := by
  have hl := encode_length t v h
  unfold decodeOutput interpretAsQtype formatOutcome
  simp only [Option.getD_none, Nat.lt_irrefl, if_false, List.reverse_reverse, retArg,
    arg_bitvec_length, Option.getD_some, List.length_reverse, hl]
  cases t <;> first
    | exact interpret_encode _ v h
    | (rw [List.take_of_length_le (by omega)]; exact interpret_encode _ v h)

/-- integer readings (repaired model): the integer whose binary digits are the reading -/
theorem decode_encode_int (t : QTy) (v : QVal) (h : WT t v) (hs : 0 < t.size) :
    decodeOutputInt Quirks.none (retArg t) (valLE (encode t v)) = v := by
  have hl := encode_length t v h
  have hlt := valLE_lt (encode t v)
  rw [hl] at hlt
  unfold decodeOutputInt
  simp only [Quirks.none, Bool.false_eq_true, if_false, retArg, arg_bitvec_length]
  rw [zfill_binDigits hs hlt]
  have := toBitsLE_valLE (encode t v)
  rw [hl] at this
  rw [this]
  exact decode_encode t v h

/-- trigger of quirk `formatOutcomeIntPadRight`: the integer has fewer binary digits than the
return type has bits -/
def intPadTrigger (q : Quirks) (r : Arg) (n : Nat) : Bool :=
  q.formatOutcomeIntPadRight && decide ((binDigits n).length < r.bitvec.length)

/-- the code as it is decodes integer readings like the repaired code outside the trigger -/
theorem decode_int_partial (q : Quirks) (r : Arg) (n : Nat) (h : intPadTrigger q r n = false) :
    decodeOutputInt q r n = decodeOutputInt Quirks.none r n := by
  unfold decodeOutputInt
  cases hq : q.formatOutcomeIntPadRight
  · simp [Quirks.none]
  · simp only [intPadTrigger, hq, Bool.true_and, decide_eq_false_iff_not, Nat.not_lt] at h
    simp [Quirks.none, zfill, Nat.sub_eq_zero_of_le h, formatOutcomeInt]

/-! ## The codec calls leave the caller's reading alone and repeat their result -/

/-- trigger of quirk `formatOutcomePadsInPlace`: a list reading shorter than `out_len` -/
def padInPlaceTrigger (q : Quirks) (out : List Bool) (outLen : Option Nat) : Bool :=
  q.formatOutcomePadsInPlace && decide (out.length < outLen.getD out.length)

/-- repaired model: `format_outcome` / `interpret_as_qtype` never change the list they are given -/
theorem format_outcome_arg_pure (out : List Bool) (outLen : Option Nat) :
    formatOutcomeArgAfter Quirks.none out outLen = out := by
  simp [formatOutcomeArgAfter, Quirks.none]

/-- the code as it is leaves the list alone outside the trigger -/
theorem format_outcome_arg_partial (q : Quirks) (out : List Bool) (outLen : Option Nat)
    (h : padInPlaceTrigger q out outLen = false) : formatOutcomeArgAfter q out outLen = out := by
  unfold formatOutcomeArgAfter
  cases hq : q.formatOutcomePadsInPlace
  · simp
  · simp only [padInPlaceTrigger, hq, Bool.true_and, decide_eq_false_iff_not] at h
    simp [formatOutcome, h]

/-- `decode_output` never changes the reading it is given (with or without the quirk: it calls
`format_outcome` without `out_len` and copies) -/
theorem decode_output_arg_pure (q : Quirks) (istr : List Bool) : decodeOutputArgAfter q istr = istr := by
  unfold decodeOutputArgAfter formatOutcomeArgAfter
  cases q.formatOutcomePadsInPlace <;> simp [formatOutcome]

/-- a second call on the same object gives the same result and leaves the object as the first call
left it — also with the quirk (the padded list has the requested length) -/
theorem format_outcome_repeat (q : Quirks) (out : List Bool) (outLen : Option Nat) :
    formatOutcome (formatOutcomeArgAfter q out outLen) outLen = formatOutcome out outLen ∧
    formatOutcomeArgAfter q (formatOutcomeArgAfter q out outLen) outLen
      = formatOutcomeArgAfter q out outLen := by
  have idem : formatOutcome (formatOutcome out outLen) outLen = formatOutcome out outLen := by
    cases outLen with
    | none => simp [formatOutcome]
    | some n =>
      simp only [formatOutcome, Option.getD_some]
      split
      · simp only [List.length_append, List.length_replicate]
        rw [if_neg (by omega)]
      · rfl
  unfold formatOutcomeArgAfter
  cases q.formatOutcomePadsInPlace <;> simp [idem]

/-! ## `output_qubits` -/

/-- `output_qubits` is defined iff every name of `returns.bitvec` is a key of the qubit map -/
theorem output_qubits_total_iff (m : QMap) (bv : List Name) :
    (outputQubits m bv).isSome ↔ ∀ n ∈ bv, (m.get n).isSome := outputQubits_some_iff m bv

/-- when defined it lists one in-range qubit per return bit, in `bitvec` order -/
theorem output_qubits_in_range (m : QMap) (bv : List Name) (l : List Nat) (hwf : m.WF)
    (h : outputQubits m bv = some l) :
    l.length = bv.length ∧ (∀ q ∈ l, q < m.numQubits) ∧
      ∀ i (hi : i < bv.length), m.get bv[i] = l[i]? := by
  obtain ⟨hl, hg⟩ := outputQubits_spec m bv l h
  refine ⟨hl, ?_, hg⟩
  intro q hq
  obtain ⟨i, hi, rfl⟩ := List.getElem_of_mem hq
  have := hg i (by omega)
  rw [List.getElem?_eq_getElem hi] at this
  exact hwf _ (dictGet_mem this)

/-- names defined by the Return in the repaired model are `returns.bitvec` -/
theorem return_names_repaired (e : RExp) : returnNames Quirks.none e = (retArg e.ty).bitvec := by
  simp [returnNames, Quirks.none, retNames_tyShape, retArg, translateArgument]

/-- the code as it is: the names agree whenever the decidable test `retNamesAgree` says so -/
theorem return_names_partial (q : Quirks) (e : RExp) (h : retNamesAgree e = true) :
    returnNames q e = (retArg e.ty).bitvec := by
  unfold returnNames
  split
  · simpa [retNamesAgree, retArg, translateArgument] using h
  · simp [retNames_tyShape, retArg, translateArgument]

/-- the keys of the qubit map after compilation are the input bits and the symbols defined by
the expression list -/
theorem compile_map_keys (inputs : List Name) (steps : List (Name × Nat)) (nq : Nat) (k : Name) :
    ((compileMap inputs steps nq).get k).isSome ↔ k ∈ inputs ∨ k ∈ steps.map (·.1) := by
  have h0 : ∀ (ns : List Name) (m : QMap),
      ((m.addQubits ns).get k).isSome ↔ (m.get k).isSome ∨ k ∈ ns := by
    intro ns
    induction ns with
    | nil => intro m; simp [QMap.addQubits]
    | cons n r ih =>
      intro m
      simp only [QMap.addQubits, List.foldl_cons] at ih ⊢
      rw [ih]; simp only [QMap.get, QMap.addQubit, dictGet_dictSet, List.mem_cons]
      by_cases hk : n = k
      · simp [hk]
      · simp [hk]; constructor
        · rintro (h | h); exact Or.inl h; exact Or.inr (Or.inr h)
        · rintro (h | h | h); exact Or.inl h; exact absurd h.symm hk; exact Or.inr h
  have := steps_get steps (QMap.addQubits {} inputs) k
  simp only [compileMap, QMap.get] at this ⊢
  rw [this]
  have h1 := h0 inputs {}
  simp only [QMap.get] at h1
  rw [h1]; simp [dictGet]

/-- `output_qubits` of a compiled function is defined iff every name of `returns.bitvec` is an
input bit or a symbol defined by the expression list – for the symbols of the Return: iff the
Return's naming covers `returns.bitvec` -/
theorem output_qubits_total_iff_names (inputs : List Name) (steps : List (Name × Nat)) (nq : Nat)
    (ret : QTy) :
    (outputQubits (compileMap inputs steps nq) (retArg ret).bitvec).isSome
      ↔ ∀ n ∈ (retArg ret).bitvec, n ∈ inputs ∨ n ∈ steps.map (·.1) := by
  rw [output_qubits_total_iff]
  constructor
  · intro h n hn; exact (compile_map_keys inputs steps nq n).mp (h n hn)
  · intro h n hn; exact (compile_map_keys inputs steps nq n).mpr (h n hn)

/-- in the repaired model `output_qubits` is always defined: the Return defines exactly the
names of `returns.bitvec` -/
theorem output_qubits_total (inputs : List Name) (temps : List (Name × Nat)) (e : RExp)
    (irets : List Nat) (nq : Nat) (hlen : irets.length = (returnNames Quirks.none e).length) :
    (outputQubits (compileMap inputs (temps ++ (returnNames Quirks.none e).zip irets) nq)
      (retArg e.ty).bitvec).isSome := by
  rw [output_qubits_total_iff_names]
  intro n hn
  right
  rw [List.map_append, List.mem_append]
  right
  rw [← List.unzip_fst, List.unzip_zip (by omega)]
  rw [return_names_repaired]; exact hn

/-- the same for the code as it is, when the Return's names agree with `returns.bitvec` -/
theorem output_qubits_total_partial (q : Quirks) (inputs : List Name) (temps : List (Name × Nat))
    (e : RExp) (irets : List Nat) (nq : Nat) (hagree : retNamesAgree e = true)
    (hlen : irets.length = (returnNames q e).length) :
    (outputQubits (compileMap inputs (temps ++ (returnNames q e).zip irets) nq)
      (retArg e.ty).bitvec).isSome := by
  rw [output_qubits_total_iff_names]
  intro n hn
  right
  rw [List.map_append, List.mem_append]
  right
  rw [← List.unzip_fst, List.unzip_zip (by omega)]
  rw [return_names_partial q e hagree]; exact hn

/-! ## `decode_counts` -/

/-- merging by decoded key preserves the total number of shots -/
theorem decode_counts_total {K V : Type} [BEq V] (dec : K → V) (counts : List (K × Nat)) :
    totalCount (decodeCounts dec counts none) = totalCount counts ∧
    totalCount (decodeCounts dec counts (some 0)) = totalCount counts := by
  simp only [decodeCounts, ne_eq, not_true_eq_false, if_false]
  rw [totalCount_fold]; simp [totalCount]

/-- with `discard_lower = d > 0` every entry kept has at least `d` shots and nothing is added -/
theorem decode_counts_discard {K V : Type} [BEq V] (dec : K → V) (counts : List (K × Nat)) (d : Nat)
    (hd : d ≠ 0) :
    (∀ e ∈ decodeCounts dec counts (some d), d ≤ e.2) ∧
    totalCount (decodeCounts dec counts (some d)) ≤ totalCount counts := by
  simp only [decodeCounts, hd, ne_eq, not_false_eq_true, if_true]
  refine ⟨fun e he => by simpa using (List.mem_filter.mp he).2, ?_⟩
  refine Nat.le_trans (totalCount_filter_le _ _) ?_
  rw [totalCount_fold]; simp [totalCount]

/-! ## The round trip -/

/-- two output bits that share a qubit carry the same value on every input -/
theorem share_only_if_equal (gs : List AGate) (nq n : Nat) (oq : List Nat) (F : List Bool → List Bool)
    (hc : Computes gs nq n oq F) (i j : Nat) (hij : oq[i]? = oq[j]?) (x : List Bool) (hx : x.length = n) :
    (F x)[i]? = (F x)[j]? := by
  rw [← hc x hx]
  simp only [List.getElem?_map, hij]

/-- the property, for the repaired model -/
theorem c05_round_trip : C05_statement := by
  unfold C05_statement
  intro sig ret f F gs m oq hf hwf hoq hc
  obtain ⟨hlen, hrange, _⟩ := output_qubits_in_range m _ oq hwf hoq
  refine ⟨input_qubits_range sig, ⟨by rw [hlen]; exact arg_bitvec_length _ _, hrange⟩, ?_, ?_⟩
  · intro vs hvs
    obtain ⟨hwt, hF⟩ := hf vs hvs
    rw [init_state_layout sig vs _ hvs]
    have := hc (encodeList (sig.map (·.2)) vs) (encodeList_length _ _ hvs)
    unfold readOut
    rw [this, hF]
    exact decode_encode ret (f vs) hwt
  · intro i j hij x hx
    exact share_only_if_equal gs _ _ oq F hc i j hij x hx

/-! ## Non-vacuity and the listed defects -/

/-- a nested signature and value meeting the hypotheses -/
example : WTs [.qint 2, .tuple [.bool, .qint 2]] [.int 1, .tuple [.bool true, .int 2]] := by
  simp [WTs, WT]

/-- distinct argument names -/
example : ([("a", QTy.qint 2), ("b", .tuple [.bool, .qint 2])].map (·.1)).Nodup := by decide

/-- `Computes` is satisfiable: `CX 0 1` computes the identity of one bit on qubit 1 -/
example : Computes [⟨.CX, [0, 1], .none, 0⟩] 2 1 [1] id := by
  intro x hx
  match x, hx with
  | [b], _ => cases b <;> decide

/-- `retNamesAgree` holds for a tuple display of arguments … -/
example : retNamesAgree (.tup [.var (.qint 2), .tup [.var .bool, .scalar (.qint 3)]]) = true := by
  decide

/-- defect `retFlatNames`: `return a` with `a : Tuple[Tuple[bool, bool], bool]` defines
`_ret.0, _ret.1, _ret.2`, `returns.bitvec` is `_ret.0.0, _ret.0.1, _ret.1`, and
`output_qubits` raises `KeyError` -/
theorem ret_flat_names_witness :
    outputQubits
      (compileMap (argNames (.tuple [.tuple [.bool, .bool], .bool]) ⟨"a", []⟩)
        ((returnNames { retFlatNames := true } (.var (.tuple [.tuple [.bool, .bool], .bool]))).zip [3, 4, 5]) 6)
      (retArg (.tuple [.tuple [.bool, .bool], .bool])).bitvec = none := by
  decide

/-- defect `formatOutcomeIntPadRight`: `decode_output(1)` of a `Qint4` function is 8 -/
theorem decode_int_pad_right_witness :
    (decodeOutputInt { formatOutcomeIntPadRight := true } (retArg (.qint 4)) 1).beq (.int 8) = true
    ∧ (decodeOutputInt Quirks.none (retArg (.qint 4)) 1).beq (.int 1) = true := by
  have h : binDigits 1 = ['1'] := by
    rw [binDigits]; simp [bitsLE_pos, bitsLE_zero, bitChar]
  simp only [decodeOutputInt, formatOutcomeInt, h, Quirks.none]
  decide

/-- defect `formatOutcomePadsInPlace`: after `format_outcome(l, 4)` with `l = [True]` the caller's
`l` is `[True, False, False, False]`; repaired: still `[True]` -/
theorem pad_in_place_witness :
    formatOutcomeArgAfter { formatOutcomePadsInPlace := true } [true] (some 4) = [true, false, false, false]
    ∧ formatOutcomeArgAfter Quirks.none [true] (some 4) = [true] := by
  decide

end QV.C05

/-! ## End to end through the compiler model

`C05_statement` takes what the circuit computes as a hypothesis (`Computes`).  For the circuits the *compiler
model* produces that hypothesis is a theorem on the decidable class `inGeneralClass` (`C02.C02_general_partial`:
definition lists with sharing, cache hits, re-binding, several return bits).  `QV/Proofs/EndToEnd05.lean` converts
between the two models (string names / `Name`s, `qubit_map` as `List (String × Nat)` / `QMap`, `Compiler.initState`
/ `Codec.initState`); here the hypotheses `m.WF`, `outputQubits m … = some oq`, `Computes …` of `C05_statement`
are discharged for every successful run of `compile`.  What is still assumed: the definition list means the
Python function (`F ∘ encode = encode ∘ f`, C01's business). -/
namespace QV.C05
open QV QV.Types QV.Codec QV.C09 QV.EndToEnd05

/-- the bridge in the vocabulary of this file: the compiled gate list `Computes` the function the definition
list denotes, on the output qubits read from the view of the final `qubit_map` -/
theorem compile_general_computes (sig : List (String × QTy)) (ret : QTy) (defs : List (String × BExp))
    (unc : Bool) (choices : List Nat) (s : Compiler.CState)
    (hcls : Compiler.inGeneralClass (inputBitNames sig) defs (retBitNames ret) = true)
    (h : (Compiler.compile (inputBitNames sig) defs (some (retBitNames ret)) unc).run
        { choices := choices } = .ok ((), s)) :
    ∃ oq, outputQubits (compiledMap sig ret s) (retArg ret).bitvec = some oq ∧
      (compiledMap sig ret s).WF ∧
      oq.map some = (retBitNames ret).map (Compiler.dictGet? s.qc.qmap) ∧
      Computes s.qc.gates.toList (compiledMap sig ret s).numQubits (sizeList (sig.map (·.2))) oq
        (bitFun (inputBitNames sig) defs (retBitNames ret)) :=
  compile_computes sig ret defs unc choices s hcls h

/-- **C05 end to end on the general class of the compiler model.**  For every signature `sig`, return type
`ret`, value-level function `f` and definition list `defs` (over the printed argument bit names, defining the
printed return bit names) that

* lies in the decidable class `inGeneralClass` of `C02_general_partial`, and
* means `f` through the codecs: `bitFun … (encode vs) = encode (f vs)` for every well-typed `vs` (C01),

and for **every successful run of the compiler model** on it – final uncomputation on or off, every sequence of
ancilla choices – with final state `s`:

1. `output_qubits` is defined on the final `qubit_map` (seen as a `QMap`, `compiledMap`): `oq`, and it is the
   reading `[qubit_map[r] for r in returns.bitvec]` of the compiler's own string-keyed map;
2. `input_qubits = [0, …, n)`;
3. `oq` has one qubit per return bit, each a qubit of the compiled circuit;
4. **round trip**: preparing the basis state from `encode_input(vs)`, running the COMPILED gate list, reading the
   qubits `oq` and decoding the reading yields `f vs`;
5. two return bits that share an output qubit carry the same value on every input.

These are the conclusions of `C05_statement` with its hypotheses about the circuit (`m.WF`, `outputQubits`,
`Computes`) proved from the compiler model instead of assumed. -/
theorem C05_end_to_end_general (sig : List (String × QTy)) (ret : QTy) (f : List QVal → QVal)
    (defs : List (String × BExp)) (unc : Bool) (choices : List Nat) (s : Compiler.CState)
    (hcls : Compiler.inGeneralClass (inputBitNames sig) defs (retBitNames ret) = true)
    (hf : ∀ vs, WTs (sig.map (·.2)) vs →
      WT ret (f vs) ∧
      bitFun (inputBitNames sig) defs (retBitNames ret) (encodeList (sig.map (·.2)) vs) = encode ret (f vs))
    (h : (Compiler.compile (inputBitNames sig) defs (some (retBitNames ret)) unc).run
        { choices := choices } = .ok ((), s)) :
    ∃ oq : List Nat,
      -- output qubits: defined, and what the compiler's own map says
      (outputQubits (compiledMap sig ret s) (retArg ret).bitvec = some oq ∧
        oq.map some = (retBitNames ret).map (Compiler.dictGet? s.qc.qmap)) ∧
      -- input qubits: 0 .. n-1 in argument bit order
      inputQubits (translateArguments sig) = List.range (sizeList (sig.map (·.2))) ∧
      -- output qubits: one per return bit, in range
      (oq.length = ret.size ∧ ∀ q ∈ oq, q < s.qc.numQubits) ∧
      -- the round trip through the compiled gate list
      (∀ vs, WTs (sig.map (·.2)) vs →
        decodeOutput (retArg ret)
          (readOut (runClassical s.qc.gates.toList (initState s.qc.numQubits
            (encodeInput (translateArguments sig) vs))) oq) = f vs) ∧
      -- two output bits share a qubit only if they always carry the same value
      (∀ i j : Nat, oq[i]? = oq[j]? → ∀ x, x.length = sizeList (sig.map (·.2)) →
        (bitFun (inputBitNames sig) defs (retBitNames ret) x)[i]?
          = (bitFun (inputBitNames sig) defs (retBitNames ret) x)[j]?) := by
  obtain ⟨oq, hoq, hwf, hmap, hcomp⟩ := compile_general_computes sig ret defs unc choices s hcls h
  obtain ⟨hin, hrange, hrt, hshare⟩ :=
    c05_round_trip sig ret f (bitFun (inputBitNames sig) defs (retBitNames ret)) s.qc.gates.toList
      (compiledMap sig ret s) oq hf hwf hoq hcomp
  exact ⟨oq, ⟨hoq, hmap⟩, hin, hrange, hrt, hshare⟩

/-- **the argument bits sit on the input qubits of the compiled map**: when no definition re-binds an argument
bit (decidable `C02.inputsFresh`; the general class itself allows re-binding, and then the name moves), the
`j`-th argument bit – arguments in order, tuples depth-first – is mapped to qubit `j = input_qubits[j]` in the
final `qubit_map` of every successful run, and there are at least `n` qubits -/
theorem C05_end_to_end_inputs (sig : List (String × QTy)) (ret : QTy) (defs : List (String × BExp))
    (rets : Option (List String)) (unc : Bool) (choices : List Nat) (s : Compiler.CState)
    (hfresh : C02.inputsFresh (inputBitNames sig) defs = true)
    (h : (Compiler.compile (inputBitNames sig) defs rets unc).run { choices := choices } = .ok ((), s)) :
    sizeList (sig.map (·.2)) ≤ s.qc.numQubits ∧
    ∀ (j : Nat) (hj : j < (inputSymbols (translateArguments sig)).length),
      (compiledMap sig ret s).get (inputSymbols (translateArguments sig))[j]
        = (inputQubits (translateArguments sig))[j]? := by
  obtain ⟨hle, hpos⟩ := compile_inputs_on_qubits sig ret defs rets unc choices s hfresh h
  refine ⟨hle, fun j hj => ?_⟩
  rw [hpos j hj, input_qubits_range, List.getElem?_range (by rw [← input_symbols_length]; exact hj)]

/-! ### a concrete compiled function

`def g(a: Qint[2], c: bool) -> Tuple[bool, bool]: return (a == 3, (a == 3) ^ c)` as the front end hands it to
the compiler: `_ret.0 = a.0 & a.1; _ret.1 = (a.0 & a.1) ^ c` (the sub-expression `a.0 & a.1` is shared). -/

def exSig : List (String × QTy) := [("a", .qint 2), ("c", .bool)]
def exRet : QTy := .tuple [.bool, .bool]
def exDefs : List (String × BExp) :=
  [("_ret.0", .and [.sym "a.0", .sym "a.1"]),
   ("_ret.1", .xor [.and [.sym "a.0", .sym "a.1"], .sym "c"])]
/-- the value-level function -/
def exFun : List QVal → QVal
  | [.int v, .bool c] => .tuple [.bool (v == 3), .bool ((v == 3) != c)]
  | _ => .error

/-- the names the compiler is called with -/
example : inputBitNames exSig = ["a.0", "a.1", "c"] ∧ retBitNames exRet = ["_ret.0", "_ret.1"] := by
  decide +kernel

/-- the definition list is in the class -/
theorem exDefs_in_class :
    Compiler.inGeneralClass (inputBitNames exSig) exDefs (retBitNames exRet) = true := by decide +kernel

/-- the model compiles it, final uncomputation on (ancilla choices 3, 4: three gates `CCX 0,1→3`, `CCX 0,1→4`,
`CX 2→4` on five qubits, `_ret.0` on qubit 3, `_ret.1` on qubit 4).  Kernel evaluation of `compile`, `sortNat`
(a `List.mergeSort`) rewritten to insertion sort first (`EndToEnd.sortNat_eq`). -/
theorem exDefs_compiles (unc : Bool) :
    ∃ s, (Compiler.compile (inputBitNames exSig) exDefs (some (retBitNames exRet)) unc).run
      { choices := [3, 4] } = .ok ((), s) := by
  have hb : ((Compiler.compile (inputBitNames exSig) exDefs (some (retBitNames exRet)) unc).run
      { choices := [3, 4] }).toBool = true := by
    simp only [Compiler.compile, exDefs, Compiler.compileDefs, Compiler.compileExpr, Compiler.compileArgs,
      Compiler.compileXorArgs, EndToEnd.sortNat_eq]
    cases unc <;> decide +kernel
  cases hrun : (Compiler.compile (inputBitNames exSig) exDefs (some (retBitNames exRet)) unc).run
      { choices := [3, 4] } with
  | ok p => exact ⟨p.2, rfl⟩
  | error e => rw [hrun] at hb; cases hb

/-- the definition list means `exFun` through the codecs (all 8 well-typed argument values) -/
theorem exDefs_means_exFun : ∀ vs, WTs (exSig.map (·.2)) vs →
    WT exRet (exFun vs) ∧
    bitFun (inputBitNames exSig) exDefs (retBitNames exRet) (encodeList (exSig.map (·.2)) vs)
      = encode exRet (exFun vs) := by
  intro vs hvs
  match vs, hvs with
  | [.int v, .bool c], hvs =>
    simp only [exSig, List.map_cons, List.map_nil, WTs, WT, and_true] at hvs
    match v, hvs with
    | 0, _ => cases c <;> exact ⟨by simp [exRet, exFun, WT, WTs], by decide +kernel⟩
    | 1, _ => cases c <;> exact ⟨by simp [exRet, exFun, WT, WTs], by decide +kernel⟩
    | 2, _ => cases c <;> exact ⟨by simp [exRet, exFun, WT, WTs], by decide +kernel⟩
    | 3, _ => cases c <;> exact ⟨by simp [exRet, exFun, WT, WTs], by decide +kernel⟩
    | n + 4, h => exact absurd h.2 (by omega)

/-- non-vacuity of `C05_end_to_end_general`: every hypothesis holds for `exDefs` (class membership, the meaning
through the codecs, a successful run of the model with uncomputation on and off), so the COMPILED circuit
round-trips: e.g. `g(3, True)` – `encode_input` gives `"111"`, the five-qubit circuit is run, the reading of
`output_qubits` decodes to `(True, False)` -/
example (unc : Bool) : ∃ s oq,
    (Compiler.compile (inputBitNames exSig) exDefs (some (retBitNames exRet)) unc).run
      { choices := [3, 4] } = .ok ((), s) ∧
    outputQubits (compiledMap exSig exRet s) (retArg exRet).bitvec = some oq ∧
    oq.length = 2 ∧
    decodeOutput (retArg exRet)
      (readOut (runClassical s.qc.gates.toList (initState s.qc.numQubits
        (encodeInput (translateArguments exSig) [.int 3, .bool true]))) oq)
      = .tuple [.bool true, .bool false] := by
  obtain ⟨s, hs⟩ := exDefs_compiles unc
  obtain ⟨oq, ⟨hoq, _⟩, _, ⟨hlen, _⟩, hrt, _⟩ :=
    C05_end_to_end_general exSig exRet exFun exDefs unc [3, 4] s exDefs_in_class exDefs_means_exFun hs
  exact ⟨s, oq, hs, hoq, hlen, hrt [.int 3, .bool true] (by simp [exSig, WTs, WT])⟩

/-- the arguments of `exDefs` are never re-bound: `C05_end_to_end_inputs` applies -/
example : C02.inputsFresh (inputBitNames exSig) exDefs = true := by decide +kernel

end QV.C05
