import QV.Proofs.Algo
import QV.Props.C09
import QV.Proofs.EndToEnd
/-!
# C16 – Deutsch-Jozsa, Bernstein-Vazirani, Simon circuits meet textbook guarantees

> For every constant f the Deutsch-Jozsa circuit measures all zeros with certainty and for
> every balanced f never; for every secret s the Bernstein-Vazirani circuit measures s with
> certainty; for every two-to-one f with period s every outcome y of the Simon circuit with
> non-zero probability satisfies y.s = 0 and all such y are equally likely. The decoded outputs
> report these outcomes in the function's argument type.

The theorems are about `QV.Algo.{djGates,bvGates,simonGates}` (the constructors' gate lists, for
**every** `n`, every position of the result qubit, every number of further qubits and every
black-box gate list) under the amplitude semantics `QV.Amp.run` (integer amplitudes, the
factor `2^{-h/2}` left out), under the hypothesis that the black box is a clean xor-oracle for
`f` on classical basis states (`XorOracle`, resp. `FunOracle` for Simon) – the hypothesis the
harness discharges per compiled black box with its classical simulator.  "With certainty" is
stated as: every amplitude outside the outcome vanishes and the amplitude at the outcome is
`± 2^n ≠ 0`.  The model of the circuits (gate lists) and of the amplitude semantics is
compared with the real objects on every run (`harness/c16.py`).
-/
namespace QV.C16
open QV QV.Amp QV.Algo QV.Types
open QV.C09 (WT)

/-- amplitude (times `2^{h/2}`) of the Deutsch-Jozsa circuit at basis state `b` -/
def djAmp (n m k : Nat) (gs : List AGate) (b : List Bool) : Int := run (djGates n (n + k) gs) ket0 b
def bvAmp (n m k : Nat) (gs : List AGate) (b : List Bool) : Int := run (bvGates n (n + k) gs) ket0 b
def simonAmp (n : Nat) (gs : List AGate) (b : List Bool) : Int := run (simonGates n gs) ket0 b
/-- weight (probability times `2^h`) of outcome `y` on the output qubits `0..n-1` -/
def simonWeight (n m : Nat) (gs : List AGate) (y : List Bool) : Int :=
  sumBits m (fun z => simonAmp n gs (y ++ z) ^ 2)

/-- the full property, on the repaired model (`Quirks.none`) -/
def C16_statement : Prop :=
  -- Deutsch-Jozsa: constant ⇒ only y = 0 (and it does occur); balanced ⇒ never y = 0
  (∀ (n m k : Nat) (gs : List AGate) (f : List Bool → Bool), k < m → XorOracle gs n m k f →
    ∀ (y rest : List Bool), y.length = n → rest.length = m →
      (∀ c : Bool, (∀ x : List Bool, x.length = n → f x = c) →
        (y ≠ zeros n → djAmp n m k gs (y ++ rest) = 0) ∧
        (∀ r, djAmp n m k gs (zeros n ++ embed m k r) = sgn r * sgn c * 2 ^ n)) ∧
      (2 * countBits n f = 2 ^ n → djAmp n m k gs (zeros n ++ rest) = 0)) ∧
  -- Bernstein-Vazirani: f x = x·s ⇒ only y = s
  (∀ (n m k : Nat) (gs : List AGate) (f : List Bool → Bool) (s : List Bool), k < m →
    XorOracle gs n m k f → s.length = n → (∀ x : List Bool, x.length = n → f x = dot x s) →
    ∀ (y rest : List Bool), y.length = n → rest.length = m →
      (y ≠ s → bvAmp n m k gs (y ++ rest) = 0) ∧
      (∀ r, bvAmp n m k gs (s ++ embed m k r) = sgn r * 2 ^ n)) ∧
  -- Simon: y·s = 1 never; all y with y·s = 0 equally likely
  (∀ (n m : Nat) (gs : List AGate) (F : List Bool → List Bool) (s : List Bool),
    FunOracle gs n m F → Period n F s →
    ∀ (y : List Bool), y.length = n →
      (dot s y = true → ∀ z : List Bool, z.length = m → simonAmp n gs (y ++ z) = 0) ∧
      (∀ y' : List Bool, y'.length = n → dot s y = false → dot s y' = false →
        simonWeight n m gs y = simonWeight n m gs y' ∧
        ∀ x0 : List Bool, x0.length = n → simonAmp n gs (y ++ F x0) ^ 2 = 4)) ∧
  -- decoded outputs
  (∀ (ty : QTy) (n : Nat) (y rest : List Bool), y.length = n →
    (djDecode Quirks.none ty n (y ++ rest).reverse = .constant ↔ y = zeros n)) ∧
  (∀ (t : QTy) (v : QVal), WT t v → argDecode t t.size (encode t v).reverse = v)

/-- Walsh–Hadamard layer: after the `H` gates on qubits `0..n-1` the amplitude at `y ++ r` is
`Σ_x (-1)^{x·y} ψ(x ++ r)`, for every `n` and every state `ψ` -/
theorem hadamard_layer (n : Nat) (ψ : State) (y r : List Bool) (hy : y.length = n) :
    run (hLayer n) ψ (y ++ r) = sumBits n (fun x => sgn (dot x y) * ψ (x ++ r)) := by
  rw [run_hLayer]; exact hadamard_layer_aux n ψ y r hy

/-- every amplitude of the Deutsch-Jozsa circuit, for every `n` and every clean xor-oracle -/
theorem dj_amplitudes (n m k : Nat) (gs : List AGate) (f : List Bool → Bool) (hk : k < m)
    (hO : XorOracle gs n m k f) (y rest : List Bool) (hy : y.length = n) (hr : rest.length = m) :
    djAmp n m k gs (y ++ rest) =
      if allFalse (rest.set k false) then
        sgn (rest.getD k false) * sumBits n (fun x => sgn (dot x y) * sgn (f x))
      else 0 := by
  have := sandwich_amp ([barrier "s"] ++ hLayer n ++ [gX (n+k), gH (n+k)]) gs n m k f
    (dj_prep n m k hk) hO hk y rest hy hr
  simpa [djAmp, djGates, List.append_assoc] using this

/-- `f` constant ⇒ no amplitude outside `y = 0…0` -/
theorem dj_constant (n m k : Nat) (gs : List AGate) (f : List Bool → Bool) (c : Bool) (hk : k < m)
    (hO : XorOracle gs n m k f) (hc : ∀ x : List Bool, x.length = n → f x = c)
    (y rest : List Bool) (hy : y.length = n) (hr : rest.length = m) (hne : y ≠ zeros n) :
    djAmp n m k gs (y ++ rest) = 0 := by
  rw [dj_amplitudes n m k gs f hk hO y rest hy hr]
  rw [sumBits_congr n _ (fun x => sgn c * sgn (dot x y)) (fun x hx => by rw [hc x hx]; ring),
    sumBits_smul, char_sum n y hy]
  simp [hne]

/-- `f` constant ⇒ the amplitude at `y = 0…0` is `± 2^n` (all of the weight) -/
theorem dj_constant_certain (n m k : Nat) (gs : List AGate) (f : List Bool → Bool) (c : Bool)
    (hk : k < m) (hO : XorOracle gs n m k f) (hc : ∀ x : List Bool, x.length = n → f x = c)
    (r : Bool) : djAmp n m k gs (zeros n ++ embed m k r) = sgn r * sgn c * 2 ^ n := by
  rw [dj_amplitudes n m k gs f hk hO (zeros n) _ (by simp [zeros]) (embed_length m k r)]
  rw [embed_set_false, allFalse_zeros, embed_getD m k r hk]
  rw [sumBits_congr n _ (fun x => sgn c * sgn (dot x (zeros n))) (fun x hx => by rw [hc x hx]; ring),
    sumBits_smul, char_sum n (zeros n) (by simp [zeros])]
  simp; ring

/-- `f` balanced ⇒ the amplitude at `y = 0…0` vanishes -/
theorem dj_balanced (n m k : Nat) (gs : List AGate) (f : List Bool → Bool) (hk : k < m)
    (hO : XorOracle gs n m k f) (hb : 2 * countBits n f = 2 ^ n)
    (rest : List Bool) (hr : rest.length = m) :
    djAmp n m k gs (zeros n ++ rest) = 0 := by
  rw [dj_amplitudes n m k gs f hk hO (zeros n) rest (by simp [zeros]) hr]
  rw [sumBits_congr n _ (fun x => sgn (f x)) (fun x _ => by rw [dot_zeros_right]; simp [sgn]),
    sum_sgn_count]
  have : (2 : Int) * (countBits n f : Int) = 2 ^ n := by exact_mod_cast hb
  rw [this]
  simp

/-- every amplitude of the Bernstein-Vazirani circuit -/
theorem bv_amplitudes (n m k : Nat) (gs : List AGate) (f : List Bool → Bool) (hk : k < m)
    (hO : XorOracle gs n m k f) (y rest : List Bool) (hy : y.length = n) (hr : rest.length = m) :
    bvAmp n m k gs (y ++ rest) =
      if allFalse (rest.set k false) then
        sgn (rest.getD k false) * sumBits n (fun x => sgn (dot x y) * sgn (f x))
      else 0 := by
  have := sandwich_amp ([barrier "s"] ++ hLayer n ++ [gH (n+k), gZ (n+k)]) gs n m k f
    (bv_prep n m k hk) hO hk y rest hy hr
  simpa [bvAmp, bvGates, List.append_assoc] using this

theorem bv_sum (n : Nat) (f : List Bool → Bool) (s y : List Bool) (hs : s.length = n)
    (hy : y.length = n) (hf : ∀ x : List Bool, x.length = n → f x = dot x s) :
    sumBits n (fun x => sgn (dot x y) * sgn (f x)) = if y = s then 2 ^ n else 0 := by
  rw [sumBits_congr n _ (fun x => sgn (dot x (xorBits y s))) (fun x hx => by
    rw [hf x hx, ← sgn_xor, dot_xor x y s (by rw [hy, hs])])]
  rw [char_sum n _ (by rw [xorBits_length y s (by rw [hy, hs]), hy])]
  have := xorBits_eq_zeros y s (by rw [hy, hs])
  rw [hy] at this
  by_cases h : y = s
  · rw [if_pos (this.mpr h), if_pos h]
  · have h' : ¬ xorBits y s = zeros n := fun e => h (this.mp e)
    rw [if_neg h', if_neg h]

/-- `f x = x·s` ⇒ no amplitude outside `y = s` -/
theorem bv (n m k : Nat) (gs : List AGate) (f : List Bool → Bool) (s : List Bool) (hk : k < m)
    (hO : XorOracle gs n m k f) (hs : s.length = n)
    (hf : ∀ x : List Bool, x.length = n → f x = dot x s)
    (y rest : List Bool) (hy : y.length = n) (hr : rest.length = m) (hne : y ≠ s) :
    bvAmp n m k gs (y ++ rest) = 0 := by
  rw [bv_amplitudes n m k gs f hk hO y rest hy hr, bv_sum n f s y hs hy hf]
  simp [hne]

/-- `f x = x·s` ⇒ the amplitude at `y = s` is `± 2^n` -/
theorem bv_certain (n m k : Nat) (gs : List AGate) (f : List Bool → Bool) (s : List Bool) (hk : k < m)
    (hO : XorOracle gs n m k f) (hs : s.length = n)
    (hf : ∀ x : List Bool, x.length = n → f x = dot x s) (r : Bool) :
    bvAmp n m k gs (s ++ embed m k r) = sgn r * 2 ^ n := by
  rw [bv_amplitudes n m k gs f hk hO s _ hs (embed_length m k r), bv_sum n f s s hs hs hf]
  rw [embed_set_false, allFalse_zeros, embed_getD m k r hk]
  simp

/-- Simon: an outcome `y` with `y·s = 1` has amplitude 0 whatever the other qubits hold -/
theorem simon_orthogonal (n m : Nat) (gs : List AGate) (F : List Bool → List Bool) (s : List Bool)
    (hO : FunOracle gs n m F) (hP : Period n F s) (y z : List Bool) (hy : y.length = n)
    (hz : z.length = m) (hd : dot s y = true) : simonAmp n gs (y ++ z) = 0 := by
  by_cases h : ∃ x0 : List Bool, x0.length = n ∧ F x0 = z
  · obtain ⟨x0, hx0, rfl⟩ := h
    show run (simonGates n gs) ket0 _ = 0
    rw [simon_amp_image gs n m F s hO hP y x0 hy hx0, hd]
    simp [sgn]
  · exact simon_amp_nonimage gs n m F hO y z hy hz (fun x hx e => h ⟨x, hx, e⟩)

/-- Simon: for `y·s = 0` the squared amplitude at `(y, z)` is `4` on the image of the black box
and `0` off it – it does not depend on `y` -/
theorem simon_amp_sq (n m : Nat) (gs : List AGate) (F : List Bool → List Bool) (s : List Bool)
    (hO : FunOracle gs n m F) (hP : Period n F s) (y z : List Bool) (hy : y.length = n)
    (hz : z.length = m) (hd : dot s y = false) :
    ((∃ x0 : List Bool, x0.length = n ∧ F x0 = z) → simonAmp n gs (y ++ z) ^ 2 = 4) ∧
    ((¬ ∃ x0 : List Bool, x0.length = n ∧ F x0 = z) → simonAmp n gs (y ++ z) ^ 2 = 0) := by
  constructor
  · intro h
    obtain ⟨x0, hx0, rfl⟩ := h
    show run (simonGates n gs) ket0 _ ^ 2 = 4
    rw [simon_amp_image gs n m F s hO hP y x0 hy hx0, hd]
    cases dot x0 y <;> simp [sgn]
  · intro h
    show run (simonGates n gs) ket0 _ ^ 2 = 0
    rw [simon_amp_nonimage gs n m F hO y z hy hz (fun x hx e => h ⟨x, hx, e⟩)]
    rfl

/-- Simon: all outcomes `y` with `y·s = 0` are equally likely -/
theorem simon_uniform (n m : Nat) (gs : List AGate) (F : List Bool → List Bool) (s : List Bool)
    (hO : FunOracle gs n m F) (hP : Period n F s) (y y' : List Bool) (hy : y.length = n)
    (hy' : y'.length = n) (hd : dot s y = false) (hd' : dot s y' = false) :
    simonWeight n m gs y = simonWeight n m gs y' := by
  unfold simonWeight
  apply sumBits_congr
  intro z hz
  have h1 := simon_amp_sq n m gs F s hO hP y z hy hz hd
  have h2 := simon_amp_sq n m gs F s hO hP y' z hy' hz hd'
  by_cases h : ∃ x0 : List Bool, x0.length = n ∧ F x0 = z
  · rw [h1.1 h, h2.1 h]
  · rw [h1.2 h, h2.2 h]

/-- `DeutschJozsa.decode_output`, repaired: "Constant" iff the measured output bits are all 0,
for every argument type; `rest` = the other measured qubits (may be empty) -/
theorem dj_decode_full (ty : QTy) (n : Nat) (y rest : List Bool) (hy : y.length = n) :
    djDecode Quirks.none ty n (y ++ rest).reverse = .constant ↔ y = zeros n := by
  have hlen : ¬ ((y ++ rest).reverse.length < n) := by simp [hy]
  simp only [djDecode, Quirks.none, formatOutcome, Option.getD_some, hlen, if_false,
    List.reverse_reverse, Bool.false_eq_true]
  rw [List.take_left' hy]
  have := any_id_false_iff y
  rw [hy] at this
  rw [← this]
  cases y.any id <;> simp

/-- `DeutschJozsa.decode_output` as it is: correct whenever the argument type decodes to a
number (`Qint[n]`, `bool`), i.e. outside the trigger of finding `C16-dj-decode-nonint` -/
theorem dj_decode_partial (q : Quirks) (n : Nat) (y : List Bool) (hy : y.length = n) (hn : 0 < n) :
    (djDecode q (.qint n) n y.reverse = .constant ↔ y = zeros n) ∧
    (n = 1 → (djDecode q .bool n y.reverse = .constant ↔ y = zeros n)) := by
  have full1 := dj_decode_full (.qint n) n y [] hy
  have full2 := dj_decode_full .bool n y [] hy
  simp only [List.append_nil] at full1 full2
  by_cases hq : q.djDecodeEqZero = true
  · have hlen : ¬ (y.reverse.length < n) := by simp [hy]
    constructor
    · simp only [djDecode, hq, if_true, interpretAsQtype, formatOutcome, Option.getD_some, hlen,
        if_false, List.reverse_reverse]
      rw [List.take_of_length_le (by omega), pyEqZero_qint n y hy hn]
      by_cases h0 : y = zeros n <;> simp [h0]
    · intro h1
      subst h1
      match y, hy with
      | [b], _ =>
        cases b <;>
          simp [djDecode, hq, interpretAsQtype, formatOutcome, interpret, pyEqZero, zeros]
  · have hq' : q.djDecodeEqZero = false := by simpa using hq
    constructor
    · simpa [djDecode, hq', Quirks.none] using full1
    · intro _; simpa [djDecode, hq', Quirks.none] using full2

/-- the defect: a constant function on `Tuple[bool, bool]` measures `00`, which the current
`decode_output` reports as "Balanced" -/
theorem dj_decode_witness :
    djDecode { djDecodeEqZero := true } (.tuple [.bool, .bool]) 2 [false, false, false] = .balanced
    ∧ djDecode Quirks.none (.tuple [.bool, .bool]) 2 [false, false, false] = .constant := by
  decide

/-- `BernsteinVazirani/Simon.decode_output` return the value of the argument type whose
encoding was measured on the output qubits (via C09's codec theorem) -/
theorem arg_decode (t : QTy) (v : QVal) (h : WT t v) :
    argDecode t t.size (encode t v).reverse = v := by
  have hl := QV.C09.encode_length t v h
  unfold argDecode interpretAsQtype formatOutcome
  simp only [Option.getD_some, List.length_reverse, hl, Nat.lt_irrefl, if_false, List.reverse_reverse]
  have ht : (encode t v).take t.size = encode t v := List.take_of_length_le (by omega)
  cases t <;> simp only [ht] <;> exact QV.C09.interpret_encode _ v h

/-- `output_qubits` of the three algorithms are the input qubits `0..n-1` the theorems measure -/
theorem output_qubits (n : Nat) : outputQubits n = List.range n := rfl

/-- the whole statement holds for the repaired model -/
theorem C16_full : C16_statement := by
  refine ⟨?_, ?_, ?_, ?_, ?_⟩
  · intro n m k gs f hk hO y rest hy hr
    refine ⟨fun c hc => ⟨fun hne => dj_constant n m k gs f c hk hO hc y rest hy hr hne,
      fun r => dj_constant_certain n m k gs f c hk hO hc r⟩,
      fun hb => dj_balanced n m k gs f hk hO hb rest hr⟩
  · intro n m k gs f s hk hO hs hf y rest hy hr
    exact ⟨fun hne => bv n m k gs f s hk hO hs hf y rest hy hr hne,
      fun r => bv_certain n m k gs f s hk hO hs hf r⟩
  · intro n m gs F s hO hP y hy
    refine ⟨fun hd z hz => simon_orthogonal n m gs F s hO hP y z hy hz hd, ?_⟩
    intro y' hy' hd hd'
    refine ⟨simon_uniform n m gs F s hO hP y y' hy hy' hd hd', ?_⟩
    intro x0 hx0
    exact (simon_amp_sq n m gs F s hO hP y (F x0) hy (hO.2 x0 hx0).1 hd).1 ⟨x0, hx0, rfl⟩
  · intro ty n y rest hy; exact dj_decode_full ty n y rest hy
  · intro t v h; exact arg_decode t v h

/-! ## non-vacuity: concrete black boxes meeting the hypotheses -/

/-- `f(x) = x[0]` on 2 bits compiled as `CX 0→2` is a clean xor-oracle (`n=2, m=1, k=0`); it is
balanced and it is the Bernstein-Vazirani oracle of the secret `10` -/
example : XorOracle [{ cls := .CX, wires := [0, 2] }] 2 1 0 (fun x => x.getD 0 false) := by
  refine ⟨by decide, ?_⟩
  intro x r hx
  match x, hx with
  | [a, b], _ => cases a <;> cases b <;> cases r <;> decide

example : 2 * countBits 2 (fun x => x.getD 0 false) = 2 ^ 2 := by decide

example : ∀ x : List Bool, x.length = 2 → (fun x => x.getD 0 false) x = dot x [true, false] := by
  intro x hx
  match x, hx with
  | [a, b], _ => cases a <;> cases b <;> decide

/-- the constant function `True` compiled as `X 2` -/
example : XorOracle [{ cls := .X, wires := [2] }] 2 1 0 (fun _ => true) := by
  refine ⟨by decide, ?_⟩
  intro x r hx
  match x, hx with
  | [a, b], _ => cases a <;> cases b <;> cases r <;> decide

/-- `F(x) = x[0] ⊕ x[1]` compiled as `CX 0→2; CX 1→2` is a Simon black box with period `11` -/
example : FunOracle [{ cls := .CX, wires := [0, 2] }, { cls := .CX, wires := [1, 2] }] 2 1
    (fun x => [Bool.xor (x.getD 0 false) (x.getD 1 false)]) := by
  refine ⟨by decide, ?_⟩
  intro x hx
  match x, hx with
  | [a, b], _ => cases a <;> cases b <;> decide

example : Period 2 (fun x => [Bool.xor (x.getD 0 false) (x.getD 1 false)]) [true, true] := by
  refine ⟨rfl, by decide, ?_⟩
  intro x x' hx hx'
  match x, hx, x', hx' with
  | [a, b], _, [c, d], _ => cases a <;> cases b <;> cases c <;> cases d <;> decide

/-! ## End to end: the black box is what the compiler model produces (`QV/Proofs/EndToEnd.lean`)

`C16_full` assumes `XorOracle` / `FunOracle`.  On the decidable class `inXorFragment` of
`C06.C06_fragment_partial` (one definition `r = e` returning one bit, `e` a tree over the argument bits)
these hypotheses are theorems about the model of the compiler (`EndToEnd.compile_oracles`); below, the three
guarantees are restated for the circuits `djGates n q gs`, `bvGates n q gs`, `simonGates n gs` built from the
**compiled** gate list `gs = s.qc.gates` and the qubit `q` the return name is mapped to, for every successful
run of `compile … (some [r]) true`.

Simon with a several-bit result is not covered by *this* section (`C06_fragment_partial` /
`C03_fragment_partial` are about a single definition, one return bit); it is linked in the section on the general
class below (`C16_end_to_end_simon_general`, from `C03_general_partial` + `C02_general_partial`).  What holds for
every compilation whatsoever is `C16_simon_any_compilation`: the guarantee with respect to the period of the map
"everything the circuit leaves on the non-argument qubits". -/

section EndToEnd
open QV.Compiler (compile inXorFragment dictGet? CState initState)
open QV.EndToEnd (predOf)

/-- **Deutsch-Jozsa end to end on the fragment**: for every definition of the class and every successful run of
the compiler model, with `q` the qubit of the return name, `n` the number of argument bits, `m` the number of
other qubits: if the denoted predicate is constant the circuit `djGates n q gates` has no amplitude outside
`y = 0…0` and amplitude `± 2^n` there; if it is balanced the amplitude at `y = 0…0` vanishes. -/
theorem C16_end_to_end_dj (inputs : List String) (defs : List (String × BExp)) (r : String)
    (choices : List Nat) (s : CState)
    (hf : inXorFragment inputs defs [r] = true)
    (h : (compile inputs defs (some [r]) true).run { choices := choices } = .ok ((), s)) :
    ∃ q, dictGet? s.qc.qmap r = some q ∧ inputs.length ≤ q ∧ q < s.qc.numQubits ∧
      ∀ (y rest : List Bool), y.length = inputs.length → rest.length = s.qc.numQubits - inputs.length →
        (∀ c : Bool, (∀ x : List Bool, x.length = inputs.length → predOf inputs defs r x = c) →
          (y ≠ zeros inputs.length → run (djGates inputs.length q s.qc.gates.toList) ket0 (y ++ rest) = 0) ∧
          (∀ b, run (djGates inputs.length q s.qc.gates.toList) ket0
              (zeros inputs.length ++ embed (s.qc.numQubits - inputs.length) (q - inputs.length) b)
            = sgn b * sgn c * 2 ^ inputs.length)) ∧
        (2 * countBits inputs.length (predOf inputs defs r) = 2 ^ inputs.length →
          run (djGates inputs.length q s.qc.gates.toList) ket0 (zeros inputs.length ++ rest) = 0) := by
  obtain ⟨q, hq, hge, hlt, _, hO, _⟩ :=
    EndToEnd.compile_oracles inputs defs [r] choices s hf h r List.mem_cons_self
  refine ⟨q, hq, hge, hlt, ?_⟩
  intro y rest hy hr
  have e : inputs.length + (q - inputs.length) = q := by omega
  have := C16_full.1 inputs.length (s.qc.numQubits - inputs.length) (q - inputs.length) s.qc.gates.toList
    (predOf inputs defs r) (by omega) hO y rest hy hr
  simp only [djAmp, e] at this
  exact this

/-- **Bernstein-Vazirani end to end on the fragment**: if the denoted predicate is `x ↦ x·sec`, the circuit
`bvGates n q gates` built from the compiled gate list has no amplitude outside `y = sec` and `± 2^n` there. -/
theorem C16_end_to_end_bv (inputs : List String) (defs : List (String × BExp)) (r : String)
    (choices : List Nat) (s : CState)
    (hf : inXorFragment inputs defs [r] = true)
    (h : (compile inputs defs (some [r]) true).run { choices := choices } = .ok ((), s)) :
    ∃ q, dictGet? s.qc.qmap r = some q ∧ inputs.length ≤ q ∧ q < s.qc.numQubits ∧
      ∀ (sec : List Bool), sec.length = inputs.length →
        (∀ x : List Bool, x.length = inputs.length → predOf inputs defs r x = dot x sec) →
        ∀ (y rest : List Bool), y.length = inputs.length → rest.length = s.qc.numQubits - inputs.length →
          (y ≠ sec → run (bvGates inputs.length q s.qc.gates.toList) ket0 (y ++ rest) = 0) ∧
          (∀ b, run (bvGates inputs.length q s.qc.gates.toList) ket0
              (sec ++ embed (s.qc.numQubits - inputs.length) (q - inputs.length) b)
            = sgn b * 2 ^ inputs.length) := by
  obtain ⟨q, hq, hge, hlt, _, hO, _⟩ :=
    EndToEnd.compile_oracles inputs defs [r] choices s hf h r List.mem_cons_self
  refine ⟨q, hq, hge, hlt, ?_⟩
  intro sec hs hdot y rest hy hr
  have e : inputs.length + (q - inputs.length) = q := by omega
  have := C16_full.2.1 inputs.length (s.qc.numQubits - inputs.length) (q - inputs.length) s.qc.gates.toList
    (predOf inputs defs r) sec (by omega) hO hs hdot y rest hy hr
  simp only [bvAmp, e] at this
  exact this

/-- **Simon end to end on the fragment** (one return bit, so the black box is
`x ↦ (0…, f x, …0)` on the `m` non-argument qubits): if the denoted predicate `f` is two-to-one with period
`sec ≠ 0` (`f x = f x' ↔ x' = x ∨ x' = x ⊕ sec`; with one result bit this needs `n ≤ 2`), every outcome `y`
of `simonGates n gates` with `y·sec = 1` has amplitude 0 and all `y` with `y·sec = 0` are equally likely. -/
theorem C16_end_to_end_simon (inputs : List String) (defs : List (String × BExp)) (r : String)
    (choices : List Nat) (s : CState)
    (hf : inXorFragment inputs defs [r] = true)
    (h : (compile inputs defs (some [r]) true).run { choices := choices } = .ok ((), s)) :
    ∃ q, dictGet? s.qc.qmap r = some q ∧ inputs.length ≤ q ∧ q < s.qc.numQubits ∧
      ∀ (sec : List Bool), sec.length = inputs.length → sec ≠ zeros inputs.length →
        (∀ x x' : List Bool, x.length = inputs.length → x'.length = inputs.length →
          (predOf inputs defs r x = predOf inputs defs r x' ↔ (x' = x ∨ x' = xorBits x sec))) →
        ∀ (y : List Bool), y.length = inputs.length →
          (dot sec y = true → ∀ z : List Bool, z.length = s.qc.numQubits - inputs.length →
            simonAmp inputs.length s.qc.gates.toList (y ++ z) = 0) ∧
          (∀ y' : List Bool, y'.length = inputs.length → dot sec y = false → dot sec y' = false →
            simonWeight inputs.length (s.qc.numQubits - inputs.length) s.qc.gates.toList y
              = simonWeight inputs.length (s.qc.numQubits - inputs.length) s.qc.gates.toList y' ∧
            ∀ x0 : List Bool, x0.length = inputs.length →
              simonAmp inputs.length s.qc.gates.toList
                (y ++ embed (s.qc.numQubits - inputs.length) (q - inputs.length) (predOf inputs defs r x0)) ^ 2 = 4) := by
  obtain ⟨q, hq, hge, hlt, _, _, hF⟩ :=
    EndToEnd.compile_oracles inputs defs [r] choices s hf h r List.mem_cons_self
  refine ⟨q, hq, hge, hlt, ?_⟩
  intro sec hs hz hp y hy
  exact C16_full.2.2.1 inputs.length (s.qc.numQubits - inputs.length) s.qc.gates.toList _ sec hF
    (EndToEnd.period_embed (by omega) hs hz hp) y hy

/-- **C16 end to end on the fragment**: the three guarantees for the circuits built from what the compiler
model produces, for every definition of `inXorFragment` and every successful run -/
theorem C16_end_to_end_fragment (inputs : List String) (defs : List (String × BExp)) (r : String)
    (choices : List Nat) (s : CState)
    (hf : inXorFragment inputs defs [r] = true)
    (h : (compile inputs defs (some [r]) true).run { choices := choices } = .ok ((), s)) :
    ∃ q, dictGet? s.qc.qmap r = some q ∧ inputs.length ≤ q ∧ q < s.qc.numQubits ∧
      -- Deutsch-Jozsa
      (∀ (y rest : List Bool), y.length = inputs.length → rest.length = s.qc.numQubits - inputs.length →
        (∀ c : Bool, (∀ x : List Bool, x.length = inputs.length → predOf inputs defs r x = c) →
          (y ≠ zeros inputs.length → run (djGates inputs.length q s.qc.gates.toList) ket0 (y ++ rest) = 0) ∧
          (∀ b, run (djGates inputs.length q s.qc.gates.toList) ket0
              (zeros inputs.length ++ embed (s.qc.numQubits - inputs.length) (q - inputs.length) b)
            = sgn b * sgn c * 2 ^ inputs.length)) ∧
        (2 * countBits inputs.length (predOf inputs defs r) = 2 ^ inputs.length →
          run (djGates inputs.length q s.qc.gates.toList) ket0 (zeros inputs.length ++ rest) = 0)) ∧
      -- Bernstein-Vazirani
      (∀ (sec : List Bool), sec.length = inputs.length →
        (∀ x : List Bool, x.length = inputs.length → predOf inputs defs r x = dot x sec) →
        ∀ (y rest : List Bool), y.length = inputs.length → rest.length = s.qc.numQubits - inputs.length →
          (y ≠ sec → run (bvGates inputs.length q s.qc.gates.toList) ket0 (y ++ rest) = 0) ∧
          (∀ b, run (bvGates inputs.length q s.qc.gates.toList) ket0
              (sec ++ embed (s.qc.numQubits - inputs.length) (q - inputs.length) b)
            = sgn b * 2 ^ inputs.length)) ∧
      -- Simon (one result bit)
      (∀ (sec : List Bool), sec.length = inputs.length → sec ≠ zeros inputs.length →
        (∀ x x' : List Bool, x.length = inputs.length → x'.length = inputs.length →
          (predOf inputs defs r x = predOf inputs defs r x' ↔ (x' = x ∨ x' = xorBits x sec))) →
        ∀ (y : List Bool), y.length = inputs.length →
          (dot sec y = true → ∀ z : List Bool, z.length = s.qc.numQubits - inputs.length →
            simonAmp inputs.length s.qc.gates.toList (y ++ z) = 0) ∧
          (∀ y' : List Bool, y'.length = inputs.length → dot sec y = false → dot sec y' = false →
            simonWeight inputs.length (s.qc.numQubits - inputs.length) s.qc.gates.toList y
              = simonWeight inputs.length (s.qc.numQubits - inputs.length) s.qc.gates.toList y' ∧
            ∀ x0 : List Bool, x0.length = inputs.length →
              simonAmp inputs.length s.qc.gates.toList
                (y ++ embed (s.qc.numQubits - inputs.length) (q - inputs.length) (predOf inputs defs r x0)) ^ 2 = 4)) := by
  obtain ⟨q, hq, hge, hlt, hdj⟩ := C16_end_to_end_dj inputs defs r choices s hf h
  obtain ⟨q1, hq1, _, _, hbv⟩ := C16_end_to_end_bv inputs defs r choices s hf h
  obtain ⟨q2, hq2, _, _, hsi⟩ := C16_end_to_end_simon inputs defs r choices s hf h
  rw [hq] at hq1 hq2
  cases hq1; cases hq2
  exact ⟨q, hq, hge, hlt, hdj, hbv, hsi⟩

/-- **Simon for any compilation** (any definition list, several return bits, any return list, uncomputation
on or off, any sequence of ancilla choices): if no compiled gate targets an argument qubit, the compiled gate
list is a Simon black box for `F x` = everything the circuit leaves on the `m = nq - n` non-argument qubits
(return bits and scratch), and Simon's guarantee holds with respect to the period of **that** map.  (That `F`
has the period of the compiled function needs the circuit to be clean, which is proved for single
definitions only.) -/
theorem C16_simon_any_compilation (inputs : List String) (defs : List (String × BExp))
    (ret : Option (List String)) (unc : Bool) (choices : List Nat) (s : CState)
    (h : (compile inputs defs ret unc).run { choices := choices } = .ok ((), s))
    (htg : ∀ g ∈ s.qc.gates.toList, inputs.length ≤ g.target)
    (sec : List Bool)
    (hP : Period inputs.length
      (fun x => (runClassical s.qc.gates.toList (initState x s.qc.numQubits)).drop inputs.length) sec) :
    ∀ (y : List Bool), y.length = inputs.length →
      (dot sec y = true → ∀ z : List Bool, z.length = s.qc.numQubits - inputs.length →
        simonAmp inputs.length s.qc.gates.toList (y ++ z) = 0) ∧
      (∀ y' : List Bool, y'.length = inputs.length → dot sec y = false → dot sec y' = false →
        simonWeight inputs.length (s.qc.numQubits - inputs.length) s.qc.gates.toList y
          = simonWeight inputs.length (s.qc.numQubits - inputs.length) s.qc.gates.toList y') := by
  intro y hy
  have := C16_full.2.2.1 inputs.length (s.qc.numQubits - inputs.length) s.qc.gates.toList _ sec
    (EndToEnd.compile_funOracle h htg) hP y hy
  exact ⟨this.1, fun y' hy' hd hd' => (this.2 y' hy' hd hd').1⟩

/-! ### concrete members of the class, compiled by the model -/

/-- `a.0 ⊕ a.1` on two bits: balanced, the Bernstein-Vazirani oracle of the secret `11`, two-to-one with period `11` -/
def exInputs : List String := ["a.0", "a.1"]
def exXor : List (String × BExp) := [("_ret", .xor [.sym "a.0", .sym "a.1"])]
/-- `a.0 ∧ ¬a.0`: constant `False` (compiled with one ancilla: `CX 0→2, X 2, MCX [0,2]→3, X 2, CX 0→2`) -/
def exConst : List (String × BExp) := [("_ret", .and [.sym "a.0", .not (.sym "a.0")])]

theorem exXor_compiles :
    ∃ s, (compile exInputs exXor (some ["_ret"]) true).run { choices := [2] } = .ok ((), s) := by
  have hb : ((compile exInputs exXor (some ["_ret"]) true).run { choices := [2] }).toBool = true := by
    decide +kernel
  cases hrun : (compile exInputs exXor (some ["_ret"]) true).run { choices := [2] } with
  | ok p => exact ⟨p.2, rfl⟩
  | error e => rw [hrun] at hb; cases hb

/-- kernel evaluation of `compile` with `sortNat` (a `List.mergeSort`) rewritten to insertion sort first -/
theorem exConst_compiles :
    ∃ s, (compile exInputs exConst (some ["_ret"]) true).run { choices := [2, 3] } = .ok ((), s) := by
  have hb : ((compile exInputs exConst (some ["_ret"]) true).run { choices := [2, 3] }).toBool = true := by
    simp only [compile, exInputs, exConst, Compiler.compileDefs, Compiler.compileExpr, Compiler.compileArgs,
      EndToEnd.sortNat_eq]
    decide +kernel
  cases hrun : (compile exInputs exConst (some ["_ret"]) true).run { choices := [2, 3] } with
  | ok p => exact ⟨p.2, rfl⟩
  | error e => rw [hrun] at hb; cases hb

/-- non-vacuity (balanced / Bernstein-Vazirani / Simon): `exXor` is in the class, the model compiles it, it is
balanced, it is `x ↦ x·11` and two-to-one with period `11`; so the Deutsch-Jozsa circuit built from the model's
gate list never reads `00`, the Bernstein-Vazirani circuit reads only `11`, and the Simon circuit never reads
a `y` with `y·11 = 1` -/
example : ∃ (s : CState) (q : Nat),
    (compile exInputs exXor (some ["_ret"]) true).run { choices := [2] } = .ok ((), s) ∧
    dictGet? s.qc.qmap "_ret" = some q ∧
    (∀ rest : List Bool, rest.length = s.qc.numQubits - 2 →
      run (djGates 2 q s.qc.gates.toList) ket0 (zeros 2 ++ rest) = 0) ∧
    (∀ y rest : List Bool, y.length = 2 → rest.length = s.qc.numQubits - 2 → y ≠ [true, true] →
      run (bvGates 2 q s.qc.gates.toList) ket0 (y ++ rest) = 0) ∧
    (∀ y z : List Bool, y.length = 2 → z.length = s.qc.numQubits - 2 → dot [true, true] y = true →
      simonAmp 2 s.qc.gates.toList (y ++ z) = 0) := by
  obtain ⟨s, hs⟩ := exXor_compiles
  obtain ⟨q, hq, _, _, hdj, hbv, hsi⟩ :=
    C16_end_to_end_fragment exInputs exXor "_ret" [2] s (by decide +kernel) hs
  have hdot : ∀ x : List Bool, x.length = exInputs.length → predOf exInputs exXor "_ret" x = dot x [true, true] := by
    intro x hx
    match x, hx with
    | [a, b], _ => cases a <;> cases b <;> decide +kernel
  have hper : ∀ x x' : List Bool, x.length = exInputs.length → x'.length = exInputs.length →
      (predOf exInputs exXor "_ret" x = predOf exInputs exXor "_ret" x' ↔ (x' = x ∨ x' = xorBits x [true, true])) := by
    intro x x' hx hx'
    match x, hx, x', hx' with
    | [a, b], _, [c, d], _ => cases a <;> cases b <;> cases c <;> cases d <;> decide +kernel
  refine ⟨s, q, hs, hq, ?_, ?_, ?_⟩
  · intro rest hr
    exact (hdj [false, false] rest rfl hr).2 (by decide +kernel)
  · intro y rest hy hr hne
    exact (hbv [true, true] rfl hdot y rest hy hr).1 hne
  · intro y z hy hz hd
    exact (hsi [true, true] rfl (by decide) hper y hy).1 hd z hz

/-- non-vacuity (constant): `exConst` is in the class, the model compiles it, it denotes the constant `False`;
the Deutsch-Jozsa circuit built from the model's gate list has no amplitude outside `y = 00` -/
example : ∃ (s : CState) (q : Nat),
    (compile exInputs exConst (some ["_ret"]) true).run { choices := [2, 3] } = .ok ((), s) ∧
    dictGet? s.qc.qmap "_ret" = some q ∧
    ∀ y rest : List Bool, y.length = 2 → rest.length = s.qc.numQubits - 2 → y ≠ zeros 2 →
      run (djGates 2 q s.qc.gates.toList) ket0 (y ++ rest) = 0 := by
  obtain ⟨s, hs⟩ := exConst_compiles
  obtain ⟨q, hq, _, _, hdj⟩ := C16_end_to_end_dj exInputs exConst "_ret" [2, 3] s (by decide +kernel) hs
  refine ⟨s, q, hs, hq, ?_⟩
  intro y rest hy hr hne
  refine ((hdj y rest hy hr).1 false ?_).1 hne
  intro x hx
  match x, hx with
  | [a, b], _ => cases a <;> cases b <;> decide +kernel

end EndToEnd

/-! ## End to end on the general compiler class (`C06_general_partial`, `C03_general_partial`, `C02_general_partial`)

`inGeneralClean inputs defs rets`: several definitions (named intermediates first, the requested return bits new
names defined once, last), sub-expressions shared inside and across definitions (cache hits), re-binding, constants.
For one return bit the two decidable side conditions of `C06_general_partial` on the compiled circuit are hypotheses
(the return qubit is not an argument qubit and never a control).  For **several return bits** (Simon) no xor-oracle is
needed: `C03_general_partial` (every non-argument qubit that is not a return qubit is back to zero, arguments
unchanged) and `C02_general_partial` (each return qubit holds its value) make the compiled gate list a `FunOracle`
whose `F x` is `EndToEnd.outReg …  x` – the return bits on their qubits, zero elsewhere. -/

section EndToEndGeneral
open QV.Compiler (compile inGeneralClean inXorFragment dictGet? CState retNeverControl)
open QV.EndToEnd (predOf outReg)

/-- **C16 end to end on the general class, one return bit** (Deutsch-Jozsa, Bernstein-Vazirani, Simon with a one-bit
result): the statements of `C16_end_to_end_fragment` for every definition list of `inGeneralClean inputs defs [r]`
and every successful run of the compiler model whose return qubit `q` is not an argument qubit and never a
control. -/
theorem C16_end_to_end_general (inputs : List String) (defs : List (String × BExp)) (r : String)
    (choices : List Nat) (s : CState) (q : Nat)
    (hf : inGeneralClean inputs defs [r] = true)
    (h : (compile inputs defs (some [r]) true).run { choices := choices } = .ok ((), s))
    (hq : dictGet? s.qc.qmap r = some q) (hge : inputs.length ≤ q)
    (hnc : retNeverControl s.qc.gates.toList q = true) :
    q < s.qc.numQubits ∧
      -- Deutsch-Jozsa
      (∀ (y rest : List Bool), y.length = inputs.length → rest.length = s.qc.numQubits - inputs.length →
        (∀ c : Bool, (∀ x : List Bool, x.length = inputs.length → predOf inputs defs r x = c) →
          (y ≠ zeros inputs.length → run (djGates inputs.length q s.qc.gates.toList) ket0 (y ++ rest) = 0) ∧
          (∀ b, run (djGates inputs.length q s.qc.gates.toList) ket0
              (zeros inputs.length ++ embed (s.qc.numQubits - inputs.length) (q - inputs.length) b)
            = sgn b * sgn c * 2 ^ inputs.length)) ∧
        (2 * countBits inputs.length (predOf inputs defs r) = 2 ^ inputs.length →
          run (djGates inputs.length q s.qc.gates.toList) ket0 (zeros inputs.length ++ rest) = 0)) ∧
      -- Bernstein-Vazirani
      (∀ (sec : List Bool), sec.length = inputs.length →
        (∀ x : List Bool, x.length = inputs.length → predOf inputs defs r x = dot x sec) →
        ∀ (y rest : List Bool), y.length = inputs.length → rest.length = s.qc.numQubits - inputs.length →
          (y ≠ sec → run (bvGates inputs.length q s.qc.gates.toList) ket0 (y ++ rest) = 0) ∧
          (∀ b, run (bvGates inputs.length q s.qc.gates.toList) ket0
              (sec ++ embed (s.qc.numQubits - inputs.length) (q - inputs.length) b)
            = sgn b * 2 ^ inputs.length)) ∧
      -- Simon (one result bit)
      (∀ (sec : List Bool), sec.length = inputs.length → sec ≠ zeros inputs.length →
        (∀ x x' : List Bool, x.length = inputs.length → x'.length = inputs.length →
          (predOf inputs defs r x = predOf inputs defs r x' ↔ (x' = x ∨ x' = xorBits x sec))) →
        ∀ (y : List Bool), y.length = inputs.length →
          (dot sec y = true → ∀ z : List Bool, z.length = s.qc.numQubits - inputs.length →
            simonAmp inputs.length s.qc.gates.toList (y ++ z) = 0) ∧
          (∀ y' : List Bool, y'.length = inputs.length → dot sec y = false → dot sec y' = false →
            simonWeight inputs.length (s.qc.numQubits - inputs.length) s.qc.gates.toList y
              = simonWeight inputs.length (s.qc.numQubits - inputs.length) s.qc.gates.toList y' ∧
            ∀ x0 : List Bool, x0.length = inputs.length →
              simonAmp inputs.length s.qc.gates.toList
                (y ++ embed (s.qc.numQubits - inputs.length) (q - inputs.length) (predOf inputs defs r x0)) ^ 2 = 4)) := by
  obtain ⟨hlt, _, hO, hF⟩ := EndToEnd.compile_oracles_general inputs defs r choices s q hf h hq hge hnc
  have e : inputs.length + (q - inputs.length) = q := by omega
  refine ⟨hlt, ?_, ?_, ?_⟩
  · intro y rest hy hr
    have := C16_full.1 inputs.length (s.qc.numQubits - inputs.length) (q - inputs.length) s.qc.gates.toList
      (predOf inputs defs r) (by omega) hO y rest hy hr
    simp only [djAmp, e] at this
    exact this
  · intro sec hs hdot y rest hy hr
    have := C16_full.2.1 inputs.length (s.qc.numQubits - inputs.length) (q - inputs.length) s.qc.gates.toList
      (predOf inputs defs r) sec (by omega) hO hs hdot y rest hy hr
    simp only [bvAmp, e] at this
    exact this
  · intro sec hs hz hp y hy
    exact C16_full.2.2.1 inputs.length (s.qc.numQubits - inputs.length) s.qc.gates.toList _ sec hF
      (EndToEnd.period_embed (by omega) hs hz hp) y hy

/-- **Simon end to end on the general class, any number of return bits.**  For every definition list of
`inGeneralClean inputs defs rets` (return names `rets`, e.g. `_ret.0 … _ret.(w-1)`), every successful run of the
compiler model with uncomputation on in which every return name is mapped to a non-argument qubit (`hall`,
decidable on the compiler's output; it excludes a return bit that is a bare alias of an argument – return names
may share a qubit, be constants, or alias an intermediate): if the **denoted function**
`x ↦ [⟦_ret.0⟧ x, …, ⟦_ret.(w-1)⟧ x]` is two-to-one with period `sec ≠ 0`, then in the circuit `simonGates n gates`
built from the compiled gate list every outcome `y` with `y·sec = 1` has amplitude 0, all `y` with `y·sec = 0` are
equally likely, and the squared amplitude on the image (`outReg … x0` = the return bits of `x0` on their qubits, zero
on every other non-argument qubit) is 4.  No hypothesis about the compiled circuit beyond `hall`. -/
theorem C16_end_to_end_simon_general (inputs : List String) (defs : List (String × BExp)) (rets : List String)
    (choices : List Nat) (s : CState)
    (hf : inGeneralClean inputs defs rets = true)
    (h : (compile inputs defs (some rets) true).run { choices := choices } = .ok ((), s))
    (hall : ∀ r ∈ rets, ∃ q, dictGet? s.qc.qmap r = some q ∧ inputs.length ≤ q)
    (sec : List Bool)
    (hP : Period inputs.length (fun x => rets.map (fun r => predOf inputs defs r x)) sec) :
    ∀ (y : List Bool), y.length = inputs.length →
      (dot sec y = true → ∀ z : List Bool, z.length = s.qc.numQubits - inputs.length →
        simonAmp inputs.length s.qc.gates.toList (y ++ z) = 0) ∧
      (∀ y' : List Bool, y'.length = inputs.length → dot sec y = false → dot sec y' = false →
        simonWeight inputs.length (s.qc.numQubits - inputs.length) s.qc.gates.toList y
          = simonWeight inputs.length (s.qc.numQubits - inputs.length) s.qc.gates.toList y' ∧
        ∀ x0 : List Bool, x0.length = inputs.length →
          simonAmp inputs.length s.qc.gates.toList
            (y ++ outReg inputs defs rets s.qc.qmap s.qc.numQubits x0) ^ 2 = 4) := by
  have hF := EndToEnd.compile_funOracle_general inputs defs rets choices s hf h
  have hCorr := C02.C02_general_partial inputs defs rets true choices s
    (by
      simp only [inGeneralClean, Bool.and_eq_true] at hf
      simp only [Compiler.inGeneralClass, hf.1, Bool.true_or]) h
  have hall' : ∀ r ∈ rets, ∃ q, dictGet? s.qc.qmap r = some q ∧ inputs.length ≤ q ∧ q < s.qc.numQubits := by
    intro r hr
    obtain ⟨q, hq, hge⟩ := hall r hr
    exact ⟨q, hq, hge,
      (C02.compile_bookkeeping inputs defs (some rets) true choices s h).2.2.2.1 _ (Compiler.dictGet?_mem hq)⟩
  intro y hy
  exact C16_full.2.2.1 inputs.length (s.qc.numQubits - inputs.length) s.qc.gates.toList _ sec hF
    (EndToEnd.period_outReg hCorr hall' hP) y hy

/-! ### concrete members of the general class, compiled by the model -/

/-- `m = a.0 & a.1; _ret = (a.0 ^ m) ^ (a.1 ^ m)`: two statements, `m` read twice; the predicate is `a.0 ⊕ a.1`
(balanced, `x ↦ x·11`, period `11`); outside `inXorFragment` -/
def exGenXor : List (String × BExp) :=
  [("m", .and [.sym "a.0", .sym "a.1"]),
   ("_ret", .xor [.xor [.sym "a.0", .sym "m"], .xor [.sym "a.1", .sym "m"]])]

/-- three argument bits, two return bits sharing the intermediate `m = a.0 ^ a.1`:
`_ret.0 = m ^ a.2; _ret.1 = ¬m` – two-to-one with period `110` -/
def exInputs3 : List String := ["a.0", "a.1", "a.2"]
def exSimon2 : List (String × BExp) :=
  [("m", .xor [.sym "a.0", .sym "a.1"]), ("_ret.0", .xor [.sym "m", .sym "a.2"]), ("_ret.1", .not (.sym "m"))]

theorem exGen_class : inGeneralClean exInputs exGenXor ["_ret"] = true ∧ inXorFragment exInputs exGenXor ["_ret"] = false ∧
    inGeneralClean exInputs3 exSimon2 ["_ret.0", "_ret.1"] = true := by
  decide +kernel

/-- the model compiles `exGenXor` (choices 2, 3: `m` on qubit 2, `_ret` on qubit 3, never a control) -/
theorem exGenXor_compiles :
    ∃ s, (compile exInputs exGenXor (some ["_ret"]) true).run { choices := [2, 3] } = .ok ((), s) ∧
      dictGet? s.qc.qmap "_ret" = some 3 ∧ retNeverControl s.qc.gates.toList 3 = true := by
  apply EndToEnd.runCheck_ok
  simp only [compile, exInputs, exGenXor, Compiler.compileDefs, Compiler.compileExpr, Compiler.compileArgs,
    Compiler.compileXorArgs, EndToEnd.sortNat_eq]
  decide +kernel

/-- the model compiles `exSimon2` (choices 3, 4, 5: 6 qubits, `_ret.0` on qubit 4, `_ret.1` on qubit 5) -/
theorem exSimon2_compiles :
    ∃ s, (compile exInputs3 exSimon2 (some ["_ret.0", "_ret.1"]) true).run { choices := [3, 4, 5] } = .ok ((), s) ∧
      ∀ r ∈ ["_ret.0", "_ret.1"], ∃ q, dictGet? s.qc.qmap r = some q ∧ 3 ≤ q := by
  apply EndToEnd.retsCheck_ok
  simp only [compile, exInputs3, exSimon2, Compiler.compileDefs, Compiler.compileExpr, Compiler.compileArgs,
    Compiler.compileXorArgs, EndToEnd.sortNat_eq]
  decide +kernel

/-- the function `exSimon2` denotes is two-to-one with period `110` -/
theorem exSimon2_period :
    Period 3 (fun x => ["_ret.0", "_ret.1"].map (fun r => predOf exInputs3 exSimon2 r x)) [true, true, false] := by
  refine ⟨rfl, by decide, ?_⟩
  intro x x' hx hx'
  match x, hx, x', hx' with
  | [a, b, c], _, [d, e, f], _ =>
    cases a <;> cases b <;> cases c <;> cases d <;> cases e <;> cases f <;> decide +kernel

/-- non-vacuity of `C16_end_to_end_general`: the two-statement predicate with the shared intermediate -/
example : ∃ (s : CState),
    (compile exInputs exGenXor (some ["_ret"]) true).run { choices := [2, 3] } = .ok ((), s) ∧
    (∀ rest : List Bool, rest.length = s.qc.numQubits - 2 →
      run (djGates 2 3 s.qc.gates.toList) ket0 (zeros 2 ++ rest) = 0) ∧
    (∀ y rest : List Bool, y.length = 2 → rest.length = s.qc.numQubits - 2 → y ≠ [true, true] →
      run (bvGates 2 3 s.qc.gates.toList) ket0 (y ++ rest) = 0) ∧
    (∀ y z : List Bool, y.length = 2 → z.length = s.qc.numQubits - 2 → dot [true, true] y = true →
      simonAmp 2 s.qc.gates.toList (y ++ z) = 0) := by
  obtain ⟨s, hs, hq, hnc⟩ := exGenXor_compiles
  obtain ⟨_, hdj, hbv, hsi⟩ :=
    C16_end_to_end_general exInputs exGenXor "_ret" [2, 3] s 3 exGen_class.1 hs hq (by decide) hnc
  have hdot : ∀ x : List Bool, x.length = exInputs.length → predOf exInputs exGenXor "_ret" x = dot x [true, true] := by
    intro x hx
    match x, hx with
    | [a, b], _ => cases a <;> cases b <;> decide +kernel
  have hper : ∀ x x' : List Bool, x.length = exInputs.length → x'.length = exInputs.length →
      (predOf exInputs exGenXor "_ret" x = predOf exInputs exGenXor "_ret" x' ↔ (x' = x ∨ x' = xorBits x [true, true])) := by
    intro x x' hx hx'
    match x, hx, x', hx' with
    | [a, b], _, [c, d], _ => cases a <;> cases b <;> cases c <;> cases d <;> decide +kernel
  refine ⟨s, hs, ?_, ?_, ?_⟩
  · intro rest hr
    exact (hdj [false, false] rest rfl hr).2 (by decide +kernel)
  · intro y rest hy hr hne
    exact (hbv [true, true] rfl hdot y rest hy hr).1 hne
  · intro y z hy hz hd
    exact (hsi [true, true] rfl (by decide) hper y hy).1 hd z hz

/-- non-vacuity of `C16_end_to_end_simon_general`: two return bits, three statements, shared intermediate -/
example : ∃ (s : CState),
    (compile exInputs3 exSimon2 (some ["_ret.0", "_ret.1"]) true).run { choices := [3, 4, 5] } = .ok ((), s) ∧
    ∀ y z : List Bool, y.length = 3 → z.length = s.qc.numQubits - 3 → dot [true, true, false] y = true →
      simonAmp 3 s.qc.gates.toList (y ++ z) = 0 := by
  obtain ⟨s, hs, hall⟩ := exSimon2_compiles
  refine ⟨s, hs, fun y z hy hz hd => ?_⟩
  exact ((C16_end_to_end_simon_general exInputs3 exSimon2 ["_ret.0", "_ret.1"] [3, 4, 5] s exGen_class.2.2 hs hall
    [true, true, false] exSimon2_period) y hy).1 hd z hz

end EndToEndGeneral

end QV.C16
