import QV.Proofs.Tools
import QV.Proofs.Anf
/-!
# C17 — Command-line tools print what the library computes

"For every script containing compiled functions, py2bexp prints, for every requested normal
form (anf, cnf, dnf, nnf) and format, an expression over the function's argument bits logically
equivalent to the conjunction of the selected function's return bits, and in DIMACS format a
clause set that has, under a one-to-one numbering of the function's variables, exactly the same
satisfying assignments; py2qasm prints the QASM export of the selected function's circuit for
the chosen compiler and QASM version.  The entry-point option selects the named function; a
script with a single function needs no option."

Model: `QV/Model/Tools.lean`.  Parameters (hypotheses, not axioms): sympy's normal forms `nf`
(`NFSpec`: semantics-preserving, total, `cnf` yields a conjunction of clauses over no new
symbols), the iteration order of `free_symbols` (`order`), the compiler (`compile`).
-/
namespace QV.C17
open QV QV.Tools

/-- what is assumed of sympy's `to_anf/to_cnf/to_dnf/to_nnf` -/
structure NFSpec (nf : NF) : Prop where
  total : ∀ f e, ∃ r, nf f e = .ok r
  sound : ∀ f e r, nf f e = .ok r → ∀ ρ, r.eval ρ = e.eval ρ
  cnfShape : ∀ e r, nf .cnf e = .ok r →
    ∃ cs : List Clause, r = cnfBExp cs ∧ ∀ s ∈ clauseVars cs, s ∈ e.syms

/-- `-e name` names a function of the script, or the script has a single function and no `-e` -/
def Selects (bs : List Binding) (ep : Option String) (i : Nat) : Prop :=
  (∃ e, ep = some e ∧ e ≠ "" ∧ finalValue bs e = some { name := e, fn := some i })
  ∨ (ep = none ∧ ∃ n, qlassfMembers bs = [(n, i)])

/-- what the printed thing must mean, given the selected function's return bits -/
def PrintedOk (order : List String) (rets : List String) (exprs : Defs) : Printed → Prop
  | .expr e => ∀ ρ, e.eval ρ = retConj ρ rets exprs
  | .dimacs _ d =>
      d.nvars = order.length ∧
      -- the numbering is one-to-one between the variables and 1..nvars
      (∀ k, k < order.length → num order (order.getD k "") = k + 1) ∧
      -- same satisfying assignments under it
      (∀ σ, d.eval σ = retConj (fun s => σ (num order s)) rets exprs)

/-- The property, for the library with the listed defects repaired (`q = Quirks.none`). -/
def C17_statement : Prop :=
  ∀ (nf : NF), NFSpec nf →
  ∀ (fnDefs : Nat → List String × Defs) (bs : List Binding) (ep : Option String) (i : Nat),
    Selects bs ep i →
  -- py2bexp
  (∀ (form : Form) (fmt : Format) (order : List String), order.Nodup →
    (∀ r r1, convertToBoolExpression Quirks.none nf form
        (combined Quirks.none (fnDefs i).1 (fnDefs i).2) = .ok r →
      dimacsInput Quirks.none nf form r = .ok r1 → ∀ s ∈ r1.syms, s ∈ order) →
    ∃ p, py2bexpMain Quirks.none nf fnDefs bs ep form fmt order = some (.ok p)
      ∧ PrintedOk order (fnDefs i).1 (fnDefs i).2 p)
  -- py2qasm
  ∧ (∀ (compile : String → Nat → QCirc) (compiler ver : String),
      py2qasmStdout compile bs ep compiler ver
        = some (exportQasm (if ver = "3.0" then 3 else 2) (compile compiler i) ++ "\n"))

/-! ## entry-point selection -/

/-- `-e name` selects the QlassF the name is bound to when the script has run -/
theorem entrypoint_selects (bs : List Binding) (e : String) (i : Nat) (he : e ≠ "")
    (h : finalValue bs e = some { name := e, fn := some i }) :
    selectEntry (some e) (parseStr bs) = some i := by
  have hm := (mem_parseStr bs e i).2 h
  have he' : (e == "") = false := by simpa using he
  simp [selectEntry, he', find_unique _ e i (parseStr_distinct bs) hm]

/-- `-e name` with a name that is not bound to a QlassF selects nothing ("No qlassf function found") -/
theorem entrypoint_missing (bs : List Binding) (e : String) (he : e ≠ "")
    (h : ∀ i, finalValue bs e ≠ some { name := e, fn := some i }) :
    selectEntry (some e) (parseStr bs) = none := by
  have he' : (e == "") = false := by simpa using he
  simp only [selectEntry, he', Bool.false_eq_true, if_false, Option.map_eq_none_iff,
    List.find?_eq_none]
  intro x hx hxe
  have hxe' : x.1 = e := by simpa using hxe
  cases x with
  | mk n i =>
    simp only at hxe'
    subst hxe'
    exact h i ((mem_parseStr bs n i).1 hx)

/-- a script with a single QlassF needs no `-e` -/
theorem single_function_default (bs : List Binding) (n : String) (i : Nat)
    (h : qlassfMembers bs = [(n, i)]) :
    selectEntry none (parseStr bs) = some i := by
  have hp := parseStr_perm bs
  rw [h] at hp
  have := List.perm_singleton.1 hp
  simp [selectEntry, findLast, this]

/-- without `-e` the default is a function of the script (the alphabetically last name,
whatever the order of definition — `getmembers` sorts) -/
theorem default_is_member (bs : List Binding) (i : Nat)
    (h : selectEntry none (parseStr bs) = some i) :
    ∃ n, finalValue bs n = some { name := n, fn := some i } := by
  simp only [selectEntry, findLast, Option.map_eq_some_iff] at h
  obtain ⟨x, hx, rfl⟩ := h
  exact ⟨x.1, (mem_parseStr bs x.1 x.2).1 (List.mem_of_getLast? hx)⟩

theorem selects_sound (bs : List Binding) (ep : Option String) (i : Nat) (h : Selects bs ep i) :
    selectEntry ep (parseStr bs) = some i := by
  rcases h with ⟨e, rfl, he, hf⟩ | ⟨rfl, n, hn⟩
  · exact entrypoint_selects bs e i he hf
  · exact single_function_default bs n i hn

/-! ## boolean expression -/

/-- repaired library: the combined expression is the conjunction of the return bits, for every
definition list (intermediates, CSE symbols, rebinding included) -/
theorem bexp_equiv_full (rets : List String) (exprs : Defs) (ρ : Env) :
    (combined Quirks.none rets exprs).eval ρ = retConj ρ rets exprs :=
  combined_none_eval ρ rets exprs

/-- the code as it is: right when the definition list has only return bits on the left and no
right-hand side mentions a defined symbol -/
theorem bexp_equiv_partial (q : Quirks) (rets : List String) (exprs : Defs) (ρ : Env)
    (h : q.bexpConjoinsIntermediates = true → noIntermediates rets exprs = true) :
    (combined q rets exprs).eval ρ = retConj ρ rets exprs := by
  cases hq : q.bexpConjoinsIntermediates with
  | true => exact combined_quirk_eval q hq ρ rets exprs (h hq)
  | false =>
    have : combined q rets exprs = combined Quirks.none rets exprs := by
      simp [combined, hq, Quirks.none]
    rw [this]; exact combined_none_eval ρ rets exprs

example : noIntermediates ["_ret.0", "_ret.1"]
    [("_ret.0", .xor [.sym "a", .sym "b"]), ("_ret.1", .and [.sym "a", .sym "b"])] = true := by decide

/-- defect: `x0 = a & b; _ret = x0 ^ c` — the printed conjunction `(a & b) & (x0 ^ c)` has the
free symbol `x0` and is false at a=b=1, c=0, x0=0 where the function returns 1 -/
theorem bexp_intermediates_witness :
    let q : Quirks := { bexpConjoinsIntermediates := true }
    let exprs : Defs := [("x0", .and [.sym "a", .sym "b"]), ("_ret", .xor [.sym "x0", .sym "c"])]
    let ρ : Env := fun s => s == "a" || s == "b"
    (combined q ["_ret"] exprs).eval ρ = false ∧ retConj ρ ["_ret"] exprs = true
      ∧ noIntermediates ["_ret"] exprs = false := by decide

/-- the normal-form dispatch keeps the meaning (any quirk set: a refused call prints nothing) -/
theorem form_dispatch_sound (q : Quirks) (nf : NF) (hnf : NFSpec nf) (form : Form) (c r : BExp)
    (h : convertToBoolExpression q nf form c = .ok r) : ∀ ρ, r.eval ρ = c.eval ρ := by
  intro ρ
  have key : ∀ f, nfCall q nf f c = .ok r → r.eval ρ = c.eval ρ := by
    intro f hf
    unfold nfCall at hf
    split at hf
    · cases hf
    · exact hnf.sound f c r hf ρ
  cases form with
  | sympy => simp [convertToBoolExpression] at h; rw [← h]
  | anf => exact key _ (by simpa [convertToBoolExpression] using h)
  | cnf => exact key _ (by simpa [convertToBoolExpression] using h)
  | dnf => exact key _ (by simpa [convertToBoolExpression] using h)
  | nnf => exact key _ (by simpa [convertToBoolExpression] using h)

/-- defect: more than 8 variables and `-f cnf` (or dnf, or `-t dimacs`): nothing is printed,
whatever sympy could do -/
theorem nf_var_limit_witness (nf : NF) :
    let q : Quirks := { nfVarLimit := true }
    let c : BExp := .or [.sym "a", .sym "b", .sym "c", .sym "d", .sym "e", .sym "f", .sym "g",
      .sym "h", .sym "i"]
    convertToBoolExpression q nf .cnf c = .error "ValueError" := by
  intro q c
  have h : (q.nfVarLimit && (Form.cnf == Form.cnf || Form.cnf == Form.dnf)
      && decide ((dedupStrings (preds c)).length > 8)) = true := by decide
  simp only [convertToBoolExpression, nfCall, h, if_true]

/-- defect in the *parameter* (sympy 1.12 `to_anf` maps `~(a ^ ~a)` to `True`): with a normal
form that is not semantics-preserving the printed expression is wrong — `NFSpec.sound` is a
necessary hypothesis, and it is validated on every call of a run -/
theorem anf_unsound_witness :
    let nf : NF := fun _ _ => .ok .tt
    let c : BExp := .not (.xor [.sym "a", .not (.sym "a")])
    convertToBoolExpression Quirks.none nf .anf c = .ok .tt
      ∧ (BExp.tt).eval (fun _ => false) = true ∧ c.eval (fun _ => false) = false :=
  ⟨rfl, by decide, by decide⟩

/-! ## DIMACS -/

/-- For **every** list of clauses of literals, every quirk set whose trigger the list avoids and
every variable order covering the clause variables: `convert_to_dimacs` succeeds, the header
counts are right, and the printed clause set evaluates, under the numbering `num order`, exactly
as the CNF expression does — so the satisfying assignments correspond one to one. -/
theorem dimacs_sat (q : Quirks) (cs : List Clause) (order : List String)
    (hv : ∀ s ∈ clauseVars cs, s ∈ order) (ht : dimacsTriggers q cs = false) :
    ∃ d, toDimacs q (cnfBExp cs) order = .ok d ∧ d.nvars = order.length
      ∧ d.clauses.length = cs.length
      ∧ ∀ σ : Nat → Bool, d.eval σ = (cnfBExp cs).eval (fun s => σ (num order s)) := by
  refine ⟨_, toDimacs_cnfBExp q cs order hv ht, rfl, by simp, ?_⟩
  intro σ
  rw [cnfBExp_eval, dimacs_eval_litInt cs order σ hv]

example : dimacsTriggers { dimacsSingleClause := true, dimacsAtomCnf := true }
    [[⟨false, "a"⟩, ⟨false, "b"⟩], [⟨true, "b"⟩, ⟨false, "c"⟩]] = false := by decide

/-- the numbering is one-to-one: with `order` duplicate-free (it enumerates a set), variable
`order[k]` gets number `k+1`, and every listed symbol's number leads back to it -/
theorem dimacs_numbering_bijective (order : List String) (hnd : order.Nodup) :
    (∀ k, k < order.length → num order (order.getD k "") = k + 1) ∧
    (∀ s ∈ order, 1 ≤ num order s ∧ num order s ≤ order.length
        ∧ order.getD (num order s - 1) "" = s) := by
  constructor
  · intro k hk
    have := idx?_getD_of_nodup order k hnd hk
    unfold num
    rw [this]
  · intro s hs
    obtain ⟨i, hi⟩ := idx?_isSome_of_mem order s hs
    have := idx?_lt_getD order s i hi
    simp only [num, hi]
    refine ⟨by omega, by omega, ?_⟩
    simpa using this.2

/-- every assignment of the variables is represented: reading variable `k+1` as `ρ order[k]`
evaluates the printed clauses as the CNF evaluates at `ρ` -/
theorem dimacs_sat_env (q : Quirks) (cs : List Clause) (order : List String)
    (hv : ∀ s ∈ clauseVars cs, s ∈ order) (ht : dimacsTriggers q cs = false) (ρ : Env) :
    ∃ d, toDimacs q (cnfBExp cs) order = .ok d ∧
      d.eval (fun k => ρ (order.getD (k - 1) "")) = evalClauses ρ cs := by
  obtain ⟨d, hd, _, _, he⟩ := dimacs_sat q cs order hv ht
  refine ⟨d, hd, ?_⟩
  rw [he, cnfBExp_eval]
  simp only [evalClauses]
  apply all_congr_mem
  intro c hc
  apply any_congr_mem
  intro l hl
  have hmem : l.var ∈ order := hv _ (List.mem_flatMap.2 ⟨c, hc, List.mem_map_of_mem hl⟩)
  obtain ⟨i, hi⟩ := idx?_isSome_of_mem order l.var hmem
  have := idx?_lt_getD order l.var i hi
  have h2 := this.2
  simp only [List.getD_eq_getElem?_getD] at h2
  simp [Lit.eval, num, hi, h2]

/-- defect (`dimacsSingleClause`): `a | b | c` is printed as the three unit clauses `1 0`, `2 0`,
`3 0`; at a=1, b=c=0 the function is true and the clause set false -/
theorem dimacs_single_clause_witness :
    let q : Quirks := { dimacsSingleClause := true }
    let cs : List Clause := [[⟨false, "a"⟩, ⟨false, "b"⟩, ⟨false, "c"⟩]]
    let σ : Nat → Bool := fun k => k == 1
    ∃ d, toDimacs q (cnfBExp cs) ["a", "b", "c"] = .ok d ∧ d.clauses = [[1], [2], [3]]
      ∧ d.eval σ = false
      ∧ (cnfBExp cs).eval (fun s => σ (num ["a", "b", "c"] s)) = true
      ∧ dimacsTriggers q cs = true :=
  ⟨_, rfl, by decide, by decide, by decide, by decide⟩

/-- defect (`dimacsAtomCnf`): the CNF `a` is printed with no clause at all (`p cnf 1 0`), which
every assignment satisfies; `False` likewise; `~a` raises `KeyError` -/
theorem dimacs_atom_witness :
    let q : Quirks := { dimacsAtomCnf := true }
    (∃ d, toDimacs q (cnfBExp [[⟨false, "a"⟩]]) ["a"] = .ok d ∧ d.clauses = []
        ∧ d.eval (fun _ => false) = true
        ∧ (cnfBExp [[⟨false, "a"⟩]]).eval (fun _ => false) = false)
    ∧ (∃ d, toDimacs q (cnfBExp [[]]) [] = .ok d ∧ d.clauses = []
        ∧ d.eval (fun _ => false) = true ∧ (cnfBExp [[]]).eval (fun _ => false) = false)
    ∧ toDimacs q (cnfBExp [[⟨true, "a"⟩]]) ["a"] = .error "KeyError" :=
  ⟨⟨_, rfl, by decide, by decide, by decide⟩, ⟨_, rfl, by decide, by decide, by decide⟩, rfl⟩

/-! ## the whole of py2bexp and py2qasm -/

theorem nfCall_ok (q : Quirks) (nf : NF) (f : Form) (e r : BExp) (h : nfCall q nf f e = .ok r) :
    nf f e = .ok r := by
  unfold nfCall at h
  split at h
  · cases h
  · exact h

theorem dimacsTriggers_none (cs : List Clause) : dimacsTriggers Quirks.none cs = false := by
  match cs with
  | [] => rfl
  | [c] => simp [dimacsTriggers, Quirks.none]
  | c1 :: c2 :: cs => simp [dimacsTriggers, Quirks.none]

/-- The code as it is (any quirk set): whatever py2bexp prints means the combined expression,
provided no CNF sympy returned in the run has a shape that triggers a listed DIMACS defect.
(With `bexp_equiv_partial` the combined expression is the conjunction of the return bits when
the definition list has no intermediates.) -/
theorem py2bexp_output_partial (q : Quirks) (nf : NF) (hnf : NFSpec nf) (form : Form)
    (fmt : Format) (c : BExp) (order : List String) (p : Printed)
    (h : py2bexpOutput q nf form fmt c order = .ok p)
    (hord : ∀ r r1, convertToBoolExpression q nf form c = .ok r →
      dimacsInput q nf form r = .ok r1 → ∀ s ∈ r1.syms, s ∈ order)
    (htr : ∀ e cs, nf .cnf e = .ok (cnfBExp cs) → dimacsTriggers q cs = false) :
    match p with
    | .expr e => ∀ ρ, e.eval ρ = c.eval ρ
    | .dimacs _ d => d.nvars = order.length ∧ ∀ σ, d.eval σ = c.eval (fun s => σ (num order s)) := by
  unfold py2bexpOutput at h
  cases hcv : convertToBoolExpression q nf form c with
  | error e => simp [hcv] at h
  | ok r =>
    have hr := form_dispatch_sound q nf hnf form c r hcv
    simp only [hcv] at h
    cases fmt with
    | sympy =>
      simp only [Except.ok.injEq] at h
      subst h
      exact hr
    | dimacs =>
      simp only at h
      cases hdi : dimacsInput q nf form r with
      | error e => simp [hdi] at h
      | ok r1 =>
        have hr1 : ∀ ρ, r1.eval ρ = r.eval ρ := by
          intro ρ
          unfold dimacsInput at hdi
          split at hdi
          · exact hnf.sound _ _ _ (nfCall_ok q nf _ _ _ hdi) ρ
          · cases hdi; rfl
        simp only [hdi] at h
        cases hc : nfCall q nf .cnf r1 with
        | error e => simp [hc] at h
        | ok cnf =>
          have hc' := nfCall_ok q nf _ _ _ hc
          obtain ⟨cs, rfl, hvars⟩ := hnf.cnfShape r1 cnf hc'
          have hv : ∀ s ∈ clauseVars cs, s ∈ order := fun s hs => hord r r1 hcv hdi s (hvars s hs)
          obtain ⟨d, hd, hn, _, hev⟩ := dimacs_sat q cs order hv (htr r1 cs hc')
          simp only [hc, hd, Except.ok.injEq] at h
          subst h
          refine ⟨hn, fun σ => ?_⟩
          rw [hev σ, hnf.sound _ _ _ hc', hr1, hr]

/-- **C17 for the repaired library** (`Quirks.none`): the full statement. -/
theorem C17_full : C17_statement := by
  intro nf hnf fnDefs bs ep i hsel
  have hs := selects_sound bs ep i hsel
  constructor
  · intro form fmt order hnd hord
    have hnone : ∀ f e, nfCall Quirks.none nf f e = nf f e := by
      intro f e; simp [nfCall, Quirks.none]
    generalize hc : combined Quirks.none (fnDefs i).1 (fnDefs i).2 = c at hord
    have hcomb : ∀ ρ, c.eval ρ = retConj ρ (fnDefs i).1 (fnDefs i).2 := by
      intro ρ; rw [← hc]; exact bexp_equiv_full _ _ ρ
    -- existence: every stage succeeds
    have hex : ∃ p, py2bexpOutput Quirks.none nf form fmt c order = .ok p := by
      obtain ⟨r, hr⟩ : ∃ r, convertToBoolExpression Quirks.none nf form c = .ok r := by
        cases form with
        | sympy => exact ⟨c, rfl⟩
        | anf => simpa [convertToBoolExpression, hnone] using hnf.total .anf c
        | cnf => simpa [convertToBoolExpression, hnone] using hnf.total .cnf c
        | dnf => simpa [convertToBoolExpression, hnone] using hnf.total .dnf c
        | nnf => simpa [convertToBoolExpression, hnone] using hnf.total .nnf c
      cases fmt with
      | sympy => exact ⟨.expr r, by simp [py2bexpOutput, hr]⟩
      | dimacs =>
        obtain ⟨r1, hr1⟩ : ∃ r1, dimacsInput Quirks.none nf form r = .ok r1 := by
          unfold dimacsInput
          split
          · rw [hnone]; exact hnf.total .cnf r
          · exact ⟨r, rfl⟩
        obtain ⟨cnf, hcnf⟩ := hnf.total .cnf r1
        obtain ⟨cs, rfl, hvars⟩ := hnf.cnfShape r1 cnf hcnf
        have hv : ∀ s ∈ clauseVars cs, s ∈ order := fun s hs => hord r r1 hr hr1 s (hvars s hs)
        obtain ⟨d, hd, _⟩ := dimacs_sat Quirks.none cs order hv (dimacsTriggers_none cs)
        exact ⟨.dimacs (form != .cnf) d, by simp [py2bexpOutput, hr, hr1, hnone, hcnf, hd]⟩
    obtain ⟨p, hp⟩ := hex
    refine ⟨p, by simp [py2bexpMain, hs, hc, hp], ?_⟩
    have hpart := py2bexp_output_partial Quirks.none nf hnf form fmt c order p hp hord
      (fun e cs _ => dimacsTriggers_none cs)
    cases p with
    | expr e => intro ρ; rw [← hcomb ρ]; exact hpart ρ
    | dimacs w d =>
      exact ⟨hpart.1, (dimacs_numbering_bijective order hnd).1,
        fun σ => by rw [hpart.2 σ]; exact hcomb _⟩
  · intro compile compiler ver
    simp [py2qasmStdout, hs, qasmVersion]

/-- py2qasm prints the export of the selected function's circuit under the chosen compiler;
`-q 3.0` selects OPENQASM 3, anything else OPENQASM 2 -/
theorem py2qasm_prints_export (compile : String → Nat → QCirc) (bs : List Binding)
    (ep : Option String) (i : Nat) (hsel : selectEntry ep (parseStr bs) = some i)
    (compiler ver : String) :
    py2qasmStdout compile bs ep compiler ver
      = some (exportQasm (if ver = "3.0" then 3 else 2) (compile compiler i) ++ "\n") := by
  simp [py2qasmStdout, hsel, qasmVersion]

/-- the version header of the printed text follows the option -/
theorem qasm_version_header (qc : QCirc) :
    exportQasm 3 qc = "OPENQASM 3.0;\n\n" ++ gateDef qc ++ applyLine qc
    ∧ exportQasm 2 qc = "OPENQASM 2.0;\n\n" ++ "include \"qelib1.inc\";\n\n"
        ++ s!"qreg q[{qc.numQubits}];\n" ++ gateDef qc ++ applyLine qc :=
  ⟨rfl, rfl⟩

/-- without `-e` the default is the function with the **greatest name** (code-point order),
whatever the order of definition: `getmembers` sorts, `find_last_qlassf` takes the last -/
theorem default_is_greatest_name (bs : List Binding) (i : Nat)
    (h : selectEntry none (parseStr bs) = some i) :
    ∃ n, (n, i) ∈ parseStr bs ∧ ∀ x ∈ parseStr bs, x.1 ≤ n := by
  simp only [selectEntry, findLast, Option.map_eq_some_iff] at h
  obtain ⟨x, hx, rfl⟩ := h
  refine ⟨x.1, List.mem_of_getLast? hx, ?_⟩
  have hsorted : (getmembers bs).Pairwise (fun a b => nameLe a b = true) :=
    List.pairwise_mergeSort
      (fun a b c h1 h2 => by
        simp only [nameLe, decide_eq_true_eq] at *
        exact String.le_trans h1 h2)
      (fun a b => by
        simp only [nameLe, Bool.or_eq_true, decide_eq_true_eq]
        exact String.le_total _ _) _
  have hp : (parseStr bs).Pairwise (fun a b => a.1 ≤ b.1) := by
    refine List.Pairwise.filterMap asQlassf ?_ hsorted
    intro a a' hle b hb b' hb'
    simp only [asQlassf, Option.map_eq_some_iff] at hb hb'
    obtain ⟨_, _, rfl⟩ := hb
    obtain ⟨_, _, rfl⟩ := hb'
    simpa [nameLe] using hle
  obtain ⟨ys, hys⟩ := List.getLast?_eq_some_iff.1 hx
  rw [hys] at hp ⊢
  intro y hy
  rcases List.mem_append.1 hy with hy' | hy'
  · exact (List.pairwise_append.1 hp).2.2 y hy' x (by simp)
  · simp only [List.mem_singleton] at hy'
    subst hy'
    exact String.le_refl _

/-- the hypotheses of `C17_statement` are satisfiable: a two-function script, `-e`, an `nf`
meeting the spec on the expression at hand is exhibited by `NFSpec` of the identity on CNF input -/
example : Selects [⟨"zeta", some 0⟩, ⟨"helper", none⟩, ⟨"alpha", some 1⟩] (some "zeta") 0 :=
  Or.inl ⟨"zeta", rfl, by decide, by decide⟩

example : Selects [⟨"qlassf", none⟩, ⟨"only", some 0⟩] none 0 :=
  Or.inr ⟨rfl, "only", by decide⟩

/-! ## the algebraic normal form is computed, not assumed

`/repo` fbcfb53: `py2bexp.to_anf(expr) = ANFform(sorted(expr.free_symbols, key=str), truth table values)`.
Model: `QV/Model/Anf.lean` (`anfOf`); the other three forms stay parameters. -/
open QV.Anf

/-- sympy's rounds over blocks (`anf_coeffs`) compute the transform by halves, for every `n` -/
theorem anf_coeffs_butterfly (n : Nat) (t : List Bool) (h : t.length = 2 ^ n) :
    anfCoeffs n t = mobius n t := by
  simp [anfCoeffs, rounds_singletons n t h]

/-- hence the monomials obtained through the rounds are those obtained by halves -/
theorem anf_butterfly_same (e : BExp) : anfTermsButterfly e = anfTerms e := by
  simp only [anfTermsButterfly, anfTerms]
  rw [anf_coeffs_butterfly _ _ (length_table e _ _)]

/-- **the ANF built from the truth table means the expression**, at every assignment, for every
expression (any number of variables) -/
theorem anf_of_table_sound (e : BExp) (ρ : Env) : (anfOf e).eval ρ = e.eval ρ := by
  simp only [anfOf, anfTerms, xorExp_eval, evalXor_terms, pe_mobius_table]
  apply eval_congr
  intro s hs
  exact ovr_mem ρ s _ _ ((mem_vars e s).2 hs)

/-- every symbol of the ANF is a symbol of the expression -/
theorem anf_no_new_symbols (e : BExp) : ∀ s ∈ (anfOf e).syms, s ∈ e.syms := by
  intro s hs
  rw [anfOf, syms_xorExp, mem_symsList_map] at hs
  obtain ⟨m, hm, hsm⟩ := hs
  exact (mem_vars e s).1 (mem_monos _ m (mem_terms _ _ m hm) s hsm)

/-- what is still assumed of sympy: `to_cnf/to_dnf/to_nnf` only — nothing about the form `anf` -/
structure NFSpecRest (nf : NF) : Prop where
  total : ∀ f e, f ≠ .anf → ∃ r, nf f e = .ok r
  sound : ∀ f e r, f ≠ .anf → nf f e = .ok r → ∀ ρ, r.eval ρ = e.eval ρ
  cnfShape : ∀ e r, nf .cnf e = .ok r →
    ∃ cs : List Clause, r = cnfBExp cs ∧ ∀ s ∈ clauseVars cs, s ∈ e.syms

/-- the modelled ANF meets the spec the model assumed of the parameter: with `to_anf` computed,
`NFSpec` follows from the assumptions on the other three forms alone -/
theorem anf_meets_NFSpec (nf : NF) (h : NFSpecRest nf) : NFSpec (withAnf nf) where
  total := by
    intro f e
    cases f with
    | anf => exact ⟨anfOf e, rfl⟩
    | sympy => exact h.total .sympy e (by decide)
    | cnf => exact h.total .cnf e (by decide)
    | dnf => exact h.total .dnf e (by decide)
    | nnf => exact h.total .nnf e (by decide)
  sound := by
    intro f e r hr ρ
    cases f with
    | anf =>
      have : r = anfOf e := by simpa [withAnf] using hr.symm
      rw [this]; exact anf_of_table_sound e ρ
    | sympy => exact h.sound .sympy e r (by decide) hr ρ
    | cnf => exact h.sound .cnf e r (by decide) hr ρ
    | dnf => exact h.sound .dnf e r (by decide) hr ρ
    | nnf => exact h.sound .nnf e r (by decide) hr ρ
  cnfShape := fun e r hr => h.cnfShape e r hr

/-- **C17 with the ANF computed**: the full statement for the tool whose `to_anf` is the modelled
algorithm; the only hypotheses about normal forms concern `cnf`, `dnf`, `nnf` -/
theorem C17_full_anf (nf : NF) (hnf : NFSpecRest nf)
    (fnDefs : Nat → List String × Defs) (bs : List Binding) (ep : Option String) (i : Nat)
    (hsel : Selects bs ep i) :
    (∀ (form : Form) (fmt : Format) (order : List String), order.Nodup →
      (∀ r r1, convertToBoolExpression Quirks.none (withAnf nf) form
          (combined Quirks.none (fnDefs i).1 (fnDefs i).2) = .ok r →
        dimacsInput Quirks.none (withAnf nf) form r = .ok r1 → ∀ s ∈ r1.syms, s ∈ order) →
      ∃ p, py2bexpMain Quirks.none (withAnf nf) fnDefs bs ep form fmt order = some (.ok p)
        ∧ PrintedOk order (fnDefs i).1 (fnDefs i).2 p)
    ∧ (∀ (compile : String → Nat → QCirc) (compiler ver : String),
        py2qasmStdout compile bs ep compiler ver
          = some (exportQasm (if ver = "3.0" then 3 else 2) (compile compiler i) ++ "\n")) :=
  C17_full (withAnf nf) (anf_meets_NFSpec nf hnf) fnDefs bs ep i hsel

/-- `py2bexp -f anf` (sympy format): what is printed is the modelled ANF of the conjunction of the
return bits, it means that conjunction, and **nothing** is assumed of sympy (any `nf`) -/
theorem py2bexp_prints_anf (nf : NF) (fnDefs : Nat → List String × Defs) (bs : List Binding)
    (ep : Option String) (i : Nat) (hsel : Selects bs ep i) (order : List String) :
    py2bexpMain Quirks.none (withAnf nf) fnDefs bs ep .anf .sympy order
        = some (.ok (.expr (anfOf (combined Quirks.none (fnDefs i).1 (fnDefs i).2))))
      ∧ ∀ ρ, (anfOf (combined Quirks.none (fnDefs i).1 (fnDefs i).2)).eval ρ
          = retConj ρ (fnDefs i).1 (fnDefs i).2 := by
  refine ⟨?_, fun ρ => ?_⟩
  · simp [py2bexpMain, selects_sound bs ep i hsel, py2bexpOutput, convertToBoolExpression, nfCall,
      Quirks.none, withAnf]
  · rw [anf_of_table_sound, bexp_equiv_full]

/-- `~(a ^ ~a)` (where sympy 1.12 `to_anf` answered `True`): no monomial, the ANF is `False` -/
example : vars (.not (.xor [.sym "a", .not (.sym "a")])) = ["a"]
    ∧ anfTerms (.not (.xor [.sym "a", .not (.sym "a")])) = []
    ∧ (anfOf (.not (.xor [.sym "a", .not (.sym "a")])) == .ff) = true := by
  have hv : vars (.not (.xor [.sym "a", .not (.sym "a")])) = ["a"] := by
    unfold vars
    rw [show dedupStrings (BExp.not (.xor [.sym "a", .not (.sym "a")])).syms = ["a"] from by decide]
    simp
  refine ⟨hv, ?_, ?_⟩
  · simp only [anfTerms, hv]; decide
  · simp only [anfOf, anfTerms, hv]; decide

/-- `(a & b) | c` has the ANF `c ^ (a & b) ^ (a & b & c)` (index order: c, ab, abc) -/
example : vars (.or [.and [.sym "a", .sym "b"], .sym "c"]) = ["a", "b", "c"]
    ∧ anfTerms (.or [.and [.sym "a", .sym "b"], .sym "c"]) = [["c"], ["a", "b"], ["a", "b", "c"]]
    ∧ (anfOf (.or [.and [.sym "a", .sym "b"], .sym "c"])
        == .xor [.sym "c", .and [.sym "a", .sym "b"], .and [.sym "a", .sym "b", .sym "c"]]) = true := by
  have hv : vars (.or [.and [.sym "a", .sym "b"], .sym "c"]) = ["a", "b", "c"] := by
    unfold vars
    rw [show dedupStrings (BExp.or [.and [.sym "a", .sym "b"], .sym "c"]).syms = ["a", "b", "c"] from by decide]
    simp [List.mergeSort, List.MergeSort.Internal.splitInTwo]
  refine ⟨hv, ?_, ?_⟩
  · simp only [anfTerms, hv]; decide
  · simp only [anfOf, anfTerms, hv]; decide

/-- the variables are sorted by name whatever the order of occurrence -/
example : vars (.or [.sym "c", .and [.sym "b", .sym "a"], .sym "c"]) = ["a", "b", "c"] := by
  unfold vars
  rw [show dedupStrings (BExp.or [.sym "c", .and [.sym "b", .sym "a"], .sym "c"]).syms = ["b", "a", "c"] from by decide]
  simp [List.mergeSort, List.MergeSort.Internal.splitInTwo]

/-- sympy's rounds on the table of `(a & b) | c` (`[0,1,0,1,0,1,1,1]`) -/
example : anfCoeffs 3 [false, true, false, true, false, true, true, true]
    = [false, true, false, false, false, false, true, true] := by decide

end QV.C17
