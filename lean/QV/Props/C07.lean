import QV.Proofs.Call
/-!
# C07 – Calling one compiled function from another is function composition

> When a function calls another compiled function (passed as a definition, defined inline, or
> wrapped as an equality oracle), the caller's expressions equal the caller's Python meaning with
> the callee applied to the actual argument values, whatever the shape of the arguments
> (variables, tuple elements, repeated or swapped arguments, several calls) and whatever names
> caller and callee use.  The callee object is unchanged.

Model: `QV/Model/Call.lean` (`Env.bind_function` with its guard, `know_function` / `getdef` = `resolve`, the *Known function* branch of
`translate_expression`, `oraclize`'s handling of the callee).  The statement below is about the
call mechanism: for **every** well-formed callee definition list, **every** list of actual
argument bit expressions of the callee's shape (any expressions: variables, tuple elements,
repeated, swapped, results of other calls) and **every** caller environment, the bit expressions
the call site returns evaluate to the callee's meaning on the values of the actuals, mention only
symbols of the actuals, and the callee is the same afterwards.  (The translation of the rest of
the caller is C01's subject.)  *Well-formed* (`WF`) = closed over the argument bits, distinct argument
bits, return bits = the names of the last definitions, pairwise distinct; single assignment is NOT
required: the callee may re-assign locals and its own parameters (`bind_function` compresses with
one simultaneous replacement per definition since the fix of `C07-compress-sequential`).
-/
namespace QV.C07
open QV QV.Call

/-- the property, for the model with quirks `q` -/
def C07_statement (q : Quirks) : Prop :=
  ∀ (f : LogicFun) (ords : List (List String)) (actuals : List Actual) (ρ : Env),
    WF f → Shaped f.args actuals →
    (∀ rs, callSite q (bindFunction q ords f) actuals = .ok rs →
      rs.map (·.eval ρ) = f.sem ((actualBits actuals).map (·.eval ρ)) ∧
      (∀ r ∈ rs, ∀ n ∈ r.syms, ∃ a ∈ actualBits actuals, n ∈ a.syms)) ∧
    (∀ name, (oraclize q f name).calleeAfter = f)

/-! ## substitution -/

/-- the substitution lemma for `BExp`: evaluating `σ(e)` = evaluating `e` in the environment
updated by the values of the images -/
theorem subst_lemma (σ : String → Option BExp) (ρ : Env) (e : BExp) :
    (e.subst σ).eval ρ = e.eval (fun n => match σ n with | some r => r.eval ρ | none => ρ n) :=
  eval_subst σ ρ e

/-- sequential substitution (what `e.subs(dict)` does) means: bind the pairs from the last to
the first, each image read in the environment built so far – for every pair list -/
theorem seq_subst_sem (x : String) (r : BExp) (L : Defs) (e : BExp) (ρ : Env) :
    (seqSubst ((x, r) :: L) e).eval ρ = (seqSubst L (subst1 x r e)).eval ρ ∧
    (subst1 x r e).eval ρ = e.eval (upd ρ x (r.eval ρ)) :=
  ⟨rfl, eval_subst1 x r e ρ⟩

/-- sequential and simultaneous substitution agree (semantically) when no image mentions a
substituted key – in any processing order of the pairs -/
theorem seq_eq_sim (L : Defs) (e : BExp) (ρ : Env)
    (h : ∀ kv ∈ L, ∀ kv' ∈ L, kv'.1 ∉ kv.2.syms) :
    (seqSubst L e).eval ρ = (simSubst L e).eval ρ := by
  rw [eval_seqSubst L e ρ h, eval_simSubst]

example : ∀ kv ∈ ([("f_x", .sym "a"), ("f_y", .sym "b")] : Defs),
    ∀ kv' ∈ ([("f_x", .sym "a"), ("f_y", .sym "b")] : Defs), kv'.1 ∉ kv.2.syms := by
  simp [BExp.syms]

/-- … and they differ when one does: `andf(andf_y, andf_x)` with formals `andf_x, andf_y` -/
theorem seq_ne_sim_witness :
    let L : Defs := [("andf_x", .sym "andf_y"), ("andf_y", .sym "andf_x")]
    let e : BExp := .and [.sym "andf_x", .sym "andf_y"]
    let ρ : Env := envOf [("andf_x", true), ("andf_y", false)]
    (seqSubst L e).eval ρ ≠ (simSubst L e).eval ρ := by
  decide

/-! ## alpha-renaming -/

/-- after `bind_function`'s renaming every symbol of a callee expression carries the prefix -/
theorem rename_prefixed (p : String) (e : BExp) : ∀ n ∈ (renameSim p e).syms, ∃ m ∈ e.syms, n = pref p m := by
  intro n hn
  rw [syms_renameSim] at hn
  obtain ⟨m, hm, rfl⟩ := List.mem_map.mp hn
  exact ⟨m, hm, rfl⟩

/-- `noPrefixClash`: no caller name has the form `p_…` for a callee symbol -/
def noPrefixClash (p : String) (callerNames : List String) (e : BExp) : Bool :=
  callerNames.all (fun c => e.syms.all (fun m => c != pref p m))

/-- the prefix makes the callee's formal names disjoint from the caller's names unless the
caller already uses that prefix -/
theorem rename_disjoint (p : String) (callerNames : List String) (e : BExp)
    (h : noPrefixClash p callerNames e = true) : ∀ n ∈ (renameSim p e).syms, n ∉ callerNames := by
  intro n hn hc
  obtain ⟨m, hm, rfl⟩ := rename_prefixed p e n hn
  simp only [noPrefixClash, List.all_eq_true, bne_iff_ne, ne_eq] at h
  exact h _ hc m hm rfl

example : noPrefixClash "andf" ["a", "b"] (.and [.sym "x", .sym "y"]) = true := by decide

/-- the side condition is needed: a caller argument called `andf_x` *is* the renamed formal -/
theorem prefix_clash_witness :
    noPrefixClash "andf" ["andf_y", "andf_x"] (.and [.sym "x", .sym "y"]) = false ∧
    "andf_x" ∈ (renameSim "andf" (.and [.sym "x", .sym "y"])).syms := by
  decide

/-- renaming is semantically a change of variable, and injective on names -/
theorem rename_sem (p : String) (e : BExp) (ρ : Env) :
    (renameSim p e).eval ρ = e.eval (fun n => ρ (pref p n)) := eval_renameSim p e ρ

/-- the code's one-symbol-at-a-time renaming agrees with it when the expression has no symbol
`p_x` next to its own symbol `x` (every `order` that covers the free symbols) -/
theorem rename_seq_agrees (p : String) (order : List String) (e : BExp) (ρ : Env)
    (hcov : ∀ n ∈ e.syms, n ∈ order) (hno : ∀ x ∈ order, pref p x ∉ order) :
    (renameSeq p order e).eval ρ = (renameSim p e).eval ρ := by
  unfold renameSeq
  rw [eval_seqSubst, eval_renameSim]
  · apply eval_congr
    intro n hn
    simp only [compEnv]
    cases hl : lookup (order.map fun x => (x, BExp.sym (pref p x))) n with
    | some v =>
      have := lookup_some_mem _ _ _ hl
      obtain ⟨x, _, hx⟩ := List.mem_map.mp this
      simp only [Prod.mk.injEq] at hx
      rw [← hx.2, ← hx.1]; simp [BExp.eval]
    | none =>
      rw [lookup_none_iff] at hl
      exact absurd rfl (hl (n, .sym (pref p n)) (List.mem_map.mpr ⟨n, hcov n hn, rfl⟩))
  · intro kv hkv kv' hkv' hmem
    obtain ⟨x, hx, rfl⟩ := List.mem_map.mp hkv
    obtain ⟨y, hy, rfl⟩ := List.mem_map.mp hkv'
    simp [BExp.syms] at hmem
    exact hno x hx (hmem ▸ hy)

example : (∀ n ∈ (BExp.and [.sym "x", .sym "y"]).syms, n ∈ ["y", "x"]) ∧
    (∀ x ∈ ["y", "x"], pref "g" x ∉ ["y", "x"]) := by decide

/-! ## `bind_function` and the call site -/

/-- meaning of the bound callee, for **every** definition list (no well-formedness: a definition may
re-bind an earlier name or an argument bit): its (compressed, prefixed) expressions evaluate, in any
environment, to the values the callee's last definitions take when the list is run sequentially
with each symbol `b` starting at the value of `p_b` -/
theorem bind_sem (q : Quirks) (hq : q.renameSequential = false) (hq' : q.compressSequential = false)
    (f : LogicFun) (ords : List (List String)) (ρ : Env) :
    (bindFunction q ords f).exps.map (fun se => se.2.eval ρ)
      = lastN f.ret.bitvec.length (vals (fun n => ρ (pref f.name n)) f.exps) := by
  simp only [bindFunction, renameAll_none q hq]
  rw [← lastN_map, compress_vals q hq' ρ, compEnv_nil, vals_renamed]

/-- … and when the return bits are the (pairwise distinct) names of the last definitions these are
the final values of the return bits: the bound expressions are the callee's meaning with `b ↦ p_b` -/
theorem bind_sem_ret (q : Quirks) (hq : q.renameSequential = false) (hq' : q.compressSequential = false)
    (f : LogicFun) (ords : List (List String)) (ρ : Env)
    (hlast : (lastN f.ret.bitvec.length f.exps).map (·.1) = f.ret.bitvec)
    (hnodup : f.ret.bitvec.Pairwise (· ≠ ·)) :
    (bindFunction q ords f).exps.map (fun se => se.2.eval ρ)
      = f.ret.bitvec.map (run (fun n => ρ (pref f.name n)) f.exps) := by
  rw [bind_sem q hq hq', lastN_vals_eq_run _ _ _ (by rw [hlast]; exact hnodup)]
  conv => rhs; rw [← hlast]
  rw [List.map_map]
  rfl

/-- single assignment implies the weaker well-formedness the theorems now need -/
theorem wf_of_strict (f : LogicFun) (h : WFStrict f) : WF f where
  closed := Ok_closed _ _ _ h.ok
  argsNodup := h.argsNodup
  retLast := h.retLast
  retNodup := by
    rw [← h.retLast]
    have hall := Ok_names_nodup _ _ _ h.ok
    unfold lastN
    split
    · exact hall
    · rw [List.map_drop]; exact List.Pairwise.sublist (List.drop_sublist _ _) hall
  retNonempty := h.retNonempty

/-- the compression as it was (`e.subs(d_exp)`, flag `compressSequential` on) has the same meaning
on single-assignment callees: the defect needed a callee that re-binds a name -/
theorem bind_sem_sequential (q : Quirks) (hq : q.renameSequential = false)
    (hq' : q.compressSequential = true) (f : LogicFun) (ords : List (List String)) (hwf : WFStrict f)
    (ρ : Env) :
    (bindFunction q ords f).exps.map (fun se => se.2.eval ρ)
      = lastN f.ret.bitvec.length (vals (fun n => ρ (pref f.name n)) f.exps) := by
  have h := compress_seq_sem q hq' ((argBits f).map (pref f.name)) ρ (renamed f.name f.exps) [] [] ρ
    (Ok_renamed f.name _ _ _ hwf.ok) (by simp) (by simp) (by simp) (fun _ _ => rfl) (by simp)
  simp only [bindFunction, renameAll_none q hq]
  rw [← lastN_map, h.1, vals_renamed]

/-- **function composition**: for every well-formed callee (closed over its argument bits; it may
re-assign locals and its own parameters), every list of actual argument expressions of its shape and
every caller environment, the call succeeds and its result bits evaluate to the callee's meaning on
the values of the actuals; they mention only symbols of the actuals -/
theorem call_composition (q : Quirks) (hq1 : q.argIndexFromName = false)
    (hq2 : q.subsSequential = false) (hq3 : q.renameSequential = false)
    (hq4 : q.compressSequential = false)
    (f : LogicFun) (ords : List (List String)) (actuals : List Actual) (ρ : Env)
    (hwf : WF f) (hsh : Shaped f.args actuals) :
    ∃ rs, callSite q (bindFunction q ords f) actuals = .ok rs ∧
      rs.map (·.eval ρ) = f.sem ((actualBits actuals).map (·.eval ρ)) ∧
      (∀ r ∈ rs, ∀ n ∈ r.syms, ∃ a ∈ actualBits actuals, n ∈ a.syms) := by
  obtain ⟨hcall, hlen⟩ := call_none_eq q hq1 hq2 hq3 f ords actuals hwf hsh
  refine ⟨_, hcall, ?_, ?_⟩
  · -- values
    let pairs := ((argBits f).map (pref f.name)).zip (actualBits actuals)
    let ρ1 := compEnv (lookup pairs) ρ
    rw [List.map_map]
    have h1 : ((fun x : BExp => x.eval ρ) ∘ fun se : String × BExp => simSubst pairs se.2)
        = fun se => se.2.eval ρ1 := by
      funext se; simp [eval_simSubst, ρ1]
    rw [h1, ← lastN_map, compress_vals q hq4 ρ1, compEnv_nil, vals_renamed]
    rw [vals_congr (argBits f) f.exps [] _ (zipEnv (argBits f) ((actualBits actuals).map (·.eval ρ)))
      hwf.closed]
    · unfold LogicFun.sem
      rw [lastN_vals_eq_run _ _ _ (by rw [hwf.retLast]; exact hwf.retNodup)]
      conv => rhs; rw [← hwf.retLast]
      rw [List.map_map]
      rfl
    · intro n hn
      rcases hn with hn | hn
      · have := compEnv_zip ρ _ _ hlen (pref f.name n) (List.mem_map.mpr ⟨n, hn, rfl⟩)
        rw [zipEnv_map] at this
        exact this
      · simp at hn
  · -- free symbols
    intro r hr n hn
    obtain ⟨se, hse, rfl⟩ := List.mem_map.mp hr
    have hA := compress_syms q hq4 ((argBits f).map (pref f.name)) (renamed f.name f.exps) [] []
      (Closed_renamed f.name _ _ _ hwf.closed) (by simp) (by simp) se (mem_lastN _ _ _ hse)
    obtain ⟨m, hm, hh⟩ := syms_subst _ se.2 n hn
    obtain ⟨a, ha, hl⟩ := lookup_zip_some _ _ hlen m (hA m hm)
    rcases hh with ⟨hnone, _⟩ | ⟨r, hsome, hr⟩
    · rw [hl] at hnone; cases hnone
    · rw [hl] at hsome; cases hsome; exact ⟨a, ha, hr⟩

/-- the model threads the callee by value (`to_logicfun` deep-copies): with the repaired
`oraclize` the callee object is the same afterwards, whatever its name -/
theorem callee_unchanged (q : Quirks) (hq : q.oraclizeRenames = false) (f : LogicFun) (name : String) :
    (oraclize q f name).calleeAfter = f := by
  unfold oraclize
  split <;> simp [hq]

/-- the full property for the repaired library -/
theorem C07_full : C07_statement Quirks.none := by
  intro f ords actuals ρ hwf hsh
  refine ⟨?_, fun name => callee_unchanged _ rfl f name⟩
  intro rs hrs
  obtain ⟨rs', h1, h2, h3⟩ := call_composition Quirks.none rfl rfl rfl rfl f ords actuals ρ hwf hsh
  rw [h1] at hrs
  cases hrs
  exact ⟨h2, h3⟩

/-- a well-formed callee with Qint argument and intermediate definition, and shaped actuals that
are a swapped/repeated mix of expressions: the hypotheses are satisfiable -/
def exCallee : LogicFun :=
  { name := "f", args := [⟨"x", ["x.0", "x.1"]⟩, ⟨"b", ["b"]⟩], ret := ⟨"_ret", ["_ret.0", "_ret.1"]⟩
    exps := [("t", .xor [.sym "x.0", .sym "b"]), ("_ret.0", .not (.sym "t")),
             ("_ret.1", .and [.sym "x.1", .sym "t"])] }

example : WF exCallee :=
  ⟨by simp [Closed, exCallee, argBits, BExp.syms, symsList], by decide, by decide, by decide, by decide⟩

/-- a callee that re-assigns its own parameters (`a = a ^ b; b = a and b; return a or b`, the definition
list qlasskit's translator produces for it): well-formed in the sense the theorems need, not
single-assignment -/
def rpCallee : LogicFun :=
  { name := "rp", args := [⟨"a", ["a"]⟩, ⟨"b", ["b"]⟩], ret := ⟨"_ret", ["_ret"]⟩
    exps := [("__a", .xor [.sym "a", .sym "b"]), ("a", .sym "__a"),
             ("__b", .and [.sym "a", .sym "b"]), ("b", .sym "__b"),
             ("_ret", .or [.sym "a", .sym "b"])] }

example : WF rpCallee :=
  ⟨by simp [Closed, rpCallee, argBits, BExp.syms, symsList], by decide, by decide, by decide, by decide⟩

example : ¬ WFStrict rpCallee := fun h => by
  have := h.ok
  simp [Ok, rpCallee, argBits] at this

example : Shaped exCallee.args [⟨true, false, [.sym "c.1", .sym "c.1"]⟩, ⟨false, false, [.not (.sym "c.0")]⟩] := by
  simp [Shaped, exCallee]

/-! ## which definition a call reaches: name histories of the callee environment

`Env.defs` is a list; `bind_function` refuses a definition called like a type or like one of
`RESERVED_FUNCTION_NAMES` (`QV.Gen.reservedFunctionNames`, read from env.py) and appends every other one,
`know_function` = exactly one definition of that name, `getdef` = the first.  In Python a call reaches the MOST
RECENT binding of the name.  The code never hands a caller a stale definition: it resolves a name only while it was
bound once; and it never binds a definition it would not call. -/

/-- `bind_function`'s guard: a definition called like a type the environment knows (a call of that name is a typecast
for `translate_expression`) or like a reserved name (ast2ast rewrites the call) is REFUSED – it is never dropped
without a word, and the environment is not extended -/
theorem bind_reserved_refused (q : Quirks) (types : List String) (defs : List LogicFun)
    (ords : List (List String)) (f : LogicFun) (h : refusedName types f.name = true) :
    envBind q types defs ords f = .error "Exception" := by
  simp only [envBind, h, ↓reduceIte]

/-- the names of the source's table are refused whatever types the environment knows (a `decide` over the whole
finite table `QV.Gen.reservedFunctionNames`): among them every name ast2ast / `translate_expression` dispatch on -/
theorem reserved_table_refused (types : List String) :
    ∀ n ∈ QV.Gen.reservedFunctionNames, refusedName types n = true := by
  intro n hn
  simp only [refusedName, Bool.or_eq_true]
  exact Or.inr (List.contains_iff_mem.mpr hn)

example : ∀ n ∈ ["print", "range", "len", "sum", "ord", "chr", "any", "all", "min", "max", "abs", "int", "float"],
    n ∈ QV.Gen.reservedFunctionNames := by decide

/-- every other definition is APPENDED – also when the environment already holds a definition of that name: the
guard does not look at the definitions -/
theorem bind_appends (q : Quirks) (types : List String) (defs : List LogicFun)
    (ords : List (List String)) (f : LogicFun) (h : refusedName types f.name = false) :
    envBind q types defs ords f = .ok (defs ++ [bindFunction q ords f]) := by
  simp only [envBind, h, ↓reduceIte, Bool.false_eq_true]

/-- a bind that succeeds only ever appends the bound definition (so an accepted definition has no refused name) -/
theorem bind_ok_inv (q : Quirks) (types : List String) (defs defs' : List LogicFun)
    (ords : List (List String)) (f : LogicFun) (h : envBind q types defs ords f = .ok defs') :
    refusedName types f.name = false ∧ defs' = defs ++ [bindFunction q ords f] := by
  unfold envBind at h
  split at h
  · cases h
  · rename_i hr
    cases h
    exact ⟨by simpa using hr, rfl⟩

/-- the environment after binding `f1` and then `f2` (any accepted names, equal or not): both are there, in that
order -/
theorem bind_twice (q : Quirks) (types : List String) (defs : List LogicFun)
    (o1 o2 : List (List String)) (f1 f2 : LogicFun)
    (h1 : refusedName types f1.name = false) (h2 : refusedName types f2.name = false) :
    (envBind q types defs o1 f1 >>= fun d => envBind q types d o2 f2)
      = .ok (defs ++ [bindFunction q o1 f1, bindFunction q o2 f2]) := by
  rw [bind_appends q types defs o1 f1 h1]
  show envBind q types (defs ++ [bindFunction q o1 f1]) o2 f2 = _
  rw [bind_appends q types _ o2 f2 h2]
  simp

/-- a call always resolves to a definition the environment holds under that name, and then it is the ONLY one of
that name (so also the most recent one) – `know_function` is "exactly one", `getdef` the first -/
theorem resolve_sound (defs : List LogicFun) (n : String) (d : LogicFun) (h : resolve defs n = some d) :
    d ∈ defs ∧ d.name = n ∧ ∀ d' ∈ defs, d'.name = n → d' = d := by
  unfold resolve at h
  split at h
  · rename_i hk
    unfold getDef at h
    have hm := List.mem_of_find?_eq_some h
    have hp := List.find?_some h
    simp at hp
    refine ⟨hm, hp, ?_⟩
    intro d' hd' hn'
    unfold knowFunction at hk
    simp at hk
    have hd : d ∈ defs.filter (fun d => d.name == n) := by simp [List.mem_filter, hm, hp]
    have hd2 : d' ∈ defs.filter (fun d => d.name == n) := by simp [List.mem_filter, hd', hn']
    generalize defs.filter (fun d => d.name == n) = l at hk hd hd2
    match l, hk with
    | [x], _ =>
      simp at hd hd2
      rw [hd, hd2]
  · cases h

/-- after the first (accepted) binding of a name, a call of that name reaches that definition -/
theorem resolve_first_binding (q : Quirks) (types : List String) (defs defs' : List LogicFun)
    (ords : List (List String)) (f : LogicFun) (hb : envBind q types defs ords f = .ok defs')
    (hfresh : ∀ d ∈ defs, d.name ≠ f.name) :
    resolve defs' f.name = some (bindFunction q ords f) := by
  obtain ⟨_, rfl⟩ := bind_ok_inv q types defs defs' ords f hb
  have hfil : defs.filter (fun d => d.name == f.name) = [] := by
    simp [List.filter_eq_nil_iff]; exact hfresh
  have hfind : defs.find? (fun d => d.name == f.name) = none := by
    simp [List.find?_eq_none]; exact hfresh
  simp [resolve, knowFunction, getDef, List.filter_append, hfil, List.find?_append, hfind, bindFunction]

/-- after a SECOND (accepted) binding under the same name no call of that name is resolved at all
(`UnknownSymbolException`): in particular a call never reaches the first, stale definition – whatever the two
bodies are -/
theorem resolve_rebound (q : Quirks) (types : List String) (defs d1 d2 : List LogicFun)
    (o1 o2 : List (List String)) (f1 f2 : LogicFun)
    (hb1 : envBind q types defs o1 f1 = .ok d1) (hb2 : envBind q types d1 o2 f2 = .ok d2)
    (hn : f2.name = f1.name) :
    resolve d2 f1.name = none := by
  obtain ⟨_, rfl⟩ := bind_ok_inv q types defs d1 o1 f1 hb1
  obtain ⟨_, rfl⟩ := bind_ok_inv q types _ d2 o2 f2 hb2
  simp [resolve, knowFunction, List.filter_append, bindFunction, hn]

/-- binding another name – accepted or refused – does not change what a name resolves to -/
theorem resolve_other_name (q : Quirks) (types : List String) (defs : List LogicFun)
    (ords : List (List String)) (g : LogicFun) (n : String) (hne : g.name ≠ n) :
    resolve (match envBind q types defs ords g with | .ok d => d | .error _ => defs) n = resolve defs n := by
  cases hr : refusedName types g.name
  · rw [bind_appends q types defs ords g hr]
    simp [resolve, knowFunction, getDef, List.filter_append, List.find?_append, bindFunction, hne]
  · rw [bind_reserved_refused q types defs ords g hr]

/-! ## the listed defects: the model of the code as it is violates the property -/

def incCallee : LogicFun :=
  { name := "inc", args := [⟨"x", ["x.0", "x.1"]⟩], ret := ⟨"_ret", ["_ret.0", "_ret.1"]⟩
    exps := [("_ret.0", .not (.sym "x.0")), ("_ret.1", .xor [.sym "x.0", .sym "x.1"])] }

def andCallee : LogicFun :=
  { name := "andf", args := [⟨"x", ["x"]⟩, ⟨"y", ["y"]⟩], ret := ⟨"_ret", ["_ret"]⟩
    exps := [("_ret", .and [.sym "x", .sym "y"])] }

def gCallee : LogicFun :=
  { name := "g", args := [⟨"x", ["x"]⟩, ⟨"g_x", ["g_x"]⟩], ret := ⟨"_ret", ["_ret"]⟩
    exps := [("_ret", .and [.sym "x", .not (.sym "g_x")])] }

example : WF incCallee :=
  ⟨by simp [Closed, incCallee, argBits, BExp.syms, symsList], by decide, by decide, by decide, by decide⟩
example : WF andCallee :=
  ⟨by simp [Closed, andCallee, argBits, BExp.syms, symsList], by decide, by decide, by decide, by decide⟩
example : WF gCallee :=
  ⟨by simp [Closed, gCallee, argBits, BExp.syms, symsList], by decide, by decide, by decide, by decide⟩

/-- `inc(t[1])` with `t : Tuple[Qint2, Qint2]`: the index recovered from the name `t.1.0` is
`1.0`, the key `inc_x.1.0` is no formal bit, the formal bits stay in the caller's expressions -/
theorem argIndexFromName_witness :
    let acts : List Actual := [⟨true, false, [.sym "t.1.0", .sym "t.1.1"]⟩]
    let ρ : Env := envOf [("t.1.0", true), ("t.1.1", false)]
    callVals { argIndexFromName := true } incCallee [] acts ρ
        ≠ some (incCallee.sem ((actualBits acts).map (·.eval ρ)))
      ∧ "inc_x.0" ∈ callSyms { argIndexFromName := true } incCallee [] acts
      ∧ callVals Quirks.none incCallee [] acts ρ = some (incCallee.sem ((actualBits acts).map (·.eval ρ))) := by
  decide

/-- `andf(andf_y, andf_x)` in a caller whose arguments are called `andf_y, andf_x`: sequential
substitution in key order turns `andf_x & andf_y` into `andf_x` -/
theorem subsSequential_witness :
    let acts : List Actual := [⟨false, false, [.sym "andf_y"]⟩, ⟨false, false, [.sym "andf_x"]⟩]
    let ρ : Env := envOf [("andf_x", true), ("andf_y", false)]
    callVals { subsSequential := true } andCallee [] acts ρ
        ≠ some (andCallee.sem ((actualBits acts).map (·.eval ρ)))
      ∧ callVals Quirks.none andCallee [] acts ρ = some (andCallee.sem ((actualBits acts).map (·.eval ρ))) := by
  decide

/-- a callee `g(x, g_x)`: renaming `x` first makes both symbols `g_x`, then both `g_g_x` -/
theorem renameSequential_witness :
    let acts : List Actual := [⟨false, false, [.sym "a"]⟩, ⟨false, false, [.sym "b"]⟩]
    let ρ : Env := envOf [("a", true), ("b", false)]
    callVals { renameSequential := true } gCallee [["x", "g_x"]] acts ρ
        ≠ some (gCallee.sem ((actualBits acts).map (·.eval ρ)))
      ∧ callVals Quirks.none gCallee [["x", "g_x"]] acts ρ = some (gCallee.sem ((actualBits acts).map (·.eval ρ))) := by
  decide

/-- `rp(p, q)` for the inline callee `a = a ^ b; b = a and b; return a or b`: at `b = __b` the old code
computed `rp___b.subs({rp___a: rp_a ^ rp_b, rp___b: (rp_a ^ rp_b) & rp_b, rp_a: rp_a ^ rp_b})` one pair after
the other in name order, so `rp_a` was substituted again inside the value just put in for `rp___b`
(`((rp_a ^ rp_b) ^ rp_b) & rp_b` = `rp_a & rp_b`); the caller returned `p` instead of `p ^ q`: `True` on
`p = q = True`, the callee gives `False`.  One simultaneous replacement (`xreplace`, the repaired code) is
right -/
theorem compressSequential_witness :
    let acts : List Actual := [⟨false, false, [.sym "p"]⟩, ⟨false, false, [.sym "q"]⟩]
    let ρ : Env := envOf [("p", true), ("q", true)]
    callVals { compressSequential := true } rpCallee [] acts ρ
        ≠ some (rpCallee.sem ((actualBits acts).map (·.eval ρ)))
      ∧ callVals Quirks.none rpCallee [] acts ρ = some (rpCallee.sem ((actualBits acts).map (·.eval ρ))) := by
  decide

/-- `oraclize` of a callee that is itself called `oracle` renames the callee object -/
theorem oraclizeRenames_witness :
    (oraclize { oraclizeRenames := true } { andCallee with name := "oracle" } "oracle").calleeAfter.name
      ≠ "oracle" := by
  decide

end QV.C07
